"""Translator: python/gherkin/parser.py  ->  lean/GherkinVerif/Gen/ParserTable.lean

Reads the *current* generated parser with `ast` and recovers, strictly, the transition table:
for every `match_token_at_N` the ordered list of tests (`self.match_K(context, token)`), the
optional look-ahead guard, the productions (`start_rule / end_rule / build`), the target state,
the state's `expected_tokens` and the state the error tail returns; the two look-ahead
functions (expected kinds, skipped kinds); the constants of the glue (start rule, error cap).
Anything outside the expected shape raises `ShapeError` (the caller decides what that means).
"""
from __future__ import annotations

import ast
import json
import sys

KINDS = ["EOF", "Empty", "Comment", "TagLine", "FeatureLine", "RuleLine", "BackgroundLine",
         "ScenarioLine", "ExamplesLine", "StepLine", "DocStringSeparator", "TableRow", "Language",
         "Other"]
RULES = ["None", "GherkinDocument", "Feature", "FeatureHeader", "Rule", "RuleHeader", "Background",
         "ScenarioDefinition", "Scenario", "ExamplesDefinition", "Examples", "ExamplesTable", "Step",
         "StepArg", "DataTable", "DocString", "Tags", "DescriptionHelper", "Description"]


class ShapeError(Exception):
    pass


def _self_call(node, prefix):
    """node is `self.<prefix>X(...)` -> X (str) else None"""
    if (isinstance(node, ast.Call) and isinstance(node.func, ast.Attribute)
            and isinstance(node.func.value, ast.Name) and node.func.value.id == "self"
            and node.func.attr.startswith(prefix)):
        return node.func.attr[len(prefix):]
    return None


def _args_are(node, names):
    return [a.id if isinstance(a, ast.Name) else None for a in node.args] == names


def _prods_and_return(stmts, where):
    prods = []
    for st in stmts[:-1]:
        if not isinstance(st, ast.Expr) or not isinstance(st.value, ast.Call):
            raise ShapeError(f"{where}: unexpected statement {ast.dump(st)[:80]}")
        call = st.value
        name = _self_call(call, "")
        if name == "build" and _args_are(call, ["context", "token"]):
            prods.append(["build"])
        elif name in ("start_rule", "end_rule") and len(call.args) == 2 \
                and isinstance(call.args[1], ast.Constant) and call.args[1].value in RULES:
            prods.append(["start" if name == "start_rule" else "end", call.args[1].value])
        else:
            raise ShapeError(f"{where}: unexpected call {ast.dump(call)[:80]}")
    ret = stmts[-1]
    if not (isinstance(ret, ast.Return) and isinstance(ret.value, ast.Constant)
            and isinstance(ret.value.value, int)):
        raise ShapeError(f"{where}: branch does not end in `return <int>`")
    return prods, ret.value.value


def extract(parser_py_text: str) -> dict:
    tree = ast.parse(parser_py_text)
    cls = [n for n in tree.body if isinstance(n, ast.ClassDef) and n.name == "Parser"]
    if len(cls) != 1:
        raise ShapeError("class Parser not found")
    cls = cls[0]
    funcs = {n.name: n for n in cls.body if isinstance(n, ast.FunctionDef)}
    rows = []
    for name, fn in funcs.items():
        if not name.startswith("match_token_at_"):
            continue
        sid = int(name[len("match_token_at_"):])
        where = name
        branches = []
        body = list(fn.body)
        i = 0
        while i < len(body) and isinstance(body[i], ast.If):
            st = body[i]
            kind = _self_call(st.test, "match_")
            if kind is None:
                break
            if kind not in KINDS or not _args_are(st.test, ["context", "token"]) or st.orelse:
                raise ShapeError(f"{where}: bad test")
            inner = st.body
            guard = None
            if len(inner) == 1 and isinstance(inner[0], ast.If):
                g = _self_call(inner[0].test, "lookahead_")
                if g is None or inner[0].orelse or not _args_are(inner[0].test, ["context", "token"]):
                    raise ShapeError(f"{where}: bad guard")
                guard = int(g)
                inner = inner[0].body
            prods, target = _prods_and_return(inner, where)
            branches.append({"kind": kind, "guard": guard, "prods": prods, "target": target})
            i += 1
        tail = body[i:]
        # state_comment, token.detach, expected_tokens, error, if stop: raise, add_error, return
        if len(tail) != 7:
            raise ShapeError(f"{where}: error tail has {len(tail)} statements")
        sc, det, exp, err, stop, add, ret = tail
        if not (isinstance(sc, ast.Assign) and isinstance(sc.value, ast.Constant)
                and sc.targets[0].id == "state_comment"):
            raise ShapeError(f"{where}: state_comment")
        if not (isinstance(exp, ast.Assign) and exp.targets[0].id == "expected_tokens"
                and isinstance(exp.value, ast.List)
                and all(isinstance(e, ast.Constant) and isinstance(e.value, str) for e in exp.value.elts)):
            raise ShapeError(f"{where}: expected_tokens")
        if ast.unparse(err) != ("error = UnexpectedEOFException(token, expected_tokens, state_comment) "
                                "if token.eof() else UnexpectedTokenException(token, expected_tokens, state_comment)"):
            raise ShapeError(f"{where}: error construction changed: {ast.unparse(err)}")
        if ast.unparse(stop) != "if self.stop_at_first_error:\n    raise error":
            raise ShapeError(f"{where}: stop_at_first_error tail changed")
        if ast.unparse(add) != "self.add_error(context, error)":
            raise ShapeError(f"{where}: add_error tail changed")
        if not (isinstance(ret, ast.Return) and isinstance(ret.value, ast.Constant)):
            raise ShapeError(f"{where}: tail return")
        rows.append({"id": sid, "comment": sc.value.value, "branches": branches,
                     "expected": [e.value for e in exp.value.elts], "errTarget": ret.value.value})
    rows.sort(key=lambda r: r["id"])

    # state_map of match_token must list exactly these states
    mt = funcs.get("match_token")
    if mt is None:
        raise ShapeError("match_token missing")
    keys = None
    for node in ast.walk(mt):
        if isinstance(node, ast.Dict) and node.keys and all(isinstance(k, ast.Constant) for k in node.keys):
            keys = {}
            for k, v in zip(node.keys, node.values):
                if not (isinstance(v, ast.Attribute) and v.attr == f"match_token_at_{k.value}"):
                    raise ShapeError(f"state_map[{k.value}] -> {ast.unparse(v)}")
                keys[k.value] = v.attr
    if keys is None or sorted(keys) != [r["id"] for r in rows]:
        raise ShapeError("state_map does not list exactly the match_token_at_N functions")

    lookaheads = []
    n = 0
    while f"lookahead_{n}" in funcs:
        fn = funcs[f"lookahead_{n}"]
        expected = skip = None
        for node in ast.walk(fn):
            if isinstance(node, ast.If) and isinstance(node.test, ast.BoolOp) and isinstance(node.test.op, ast.Or):
                vals = node.test.values
                ks = [_self_call(v, "match_") for v in vals[:-1]]
                if not (isinstance(vals[-1], ast.Constant) and vals[-1].value is False) or None in ks:
                    raise ShapeError(f"lookahead_{n}: expected-test shape")
                expected = ks
            if isinstance(node, ast.If) and isinstance(node.test, ast.UnaryOp) and isinstance(node.test.op, ast.Not):
                inner = node.test.operand
                if not (isinstance(inner, ast.BoolOp) and isinstance(inner.op, ast.Or)):
                    raise ShapeError(f"lookahead_{n}: skip-test shape")
                vals = inner.values
                ks = [_self_call(v, "match_") for v in vals[:-1]]
                if not (isinstance(vals[-1], ast.Constant) and vals[-1].value is False) or None in ks:
                    raise ShapeError(f"lookahead_{n}: skip-test shape")
                skip = ks
        if expected is None or skip is None:
            raise ShapeError(f"lookahead_{n}: tests not found")
        lookaheads.append({"expected": expected, "skip": skip})
        n += 1

    # glue constants
    cap = None
    for node in ast.walk(funcs["add_error"]):
        if isinstance(node, ast.Compare) and isinstance(node.ops[0], ast.Gt) \
                and isinstance(node.comparators[0], ast.Constant) \
                and ast.unparse(node.left) == "len(context.errors)":
            cap = node.comparators[0].value
    if cap is None:
        raise ShapeError("error cap not found in add_error")
    start_rule = None
    init_state = None
    for node in funcs["parse"].body:
        if isinstance(node, ast.Expr) and _self_call(node.value, "") == "start_rule":
            start_rule = node.value.args[1].value
        if isinstance(node, ast.Assign) and getattr(node.targets[0], "id", None) == "state" \
                and isinstance(node.value, ast.Constant):
            init_state = node.value.value
    if start_rule not in RULES or init_state != 0:
        raise ShapeError("start rule / initial state")
    return {"rows": rows, "lookaheads": lookaheads, "startRule": start_rule, "errorCap": cap}


def _lean_rule(r):
    return ".None_" if r == "None" else "." + r


def _lean_prod(p):
    if p[0] == "build":
        return ".build"
    return (".start " if p[0] == "start" else ".end_ ") + _lean_rule(p[1])


def to_lean(table: dict, ns: str = "Gen", name: str = "parserTable", source: str = "python/gherkin/parser.py") -> str:
    out = [f"-- GENERATED by translate/parser_table.py from {source}; do not edit.",
           "import GherkinVerif.Model.Parser", f"namespace GV.{ns}", ""]
    for r in table["rows"]:
        out.append(f"def {name}_row{r['id']} : StateRow :=")
        out.append(f"  {{ id := {r['id']}, comment := {json.dumps(r['comment'])},")
        out.append("    branches := [")
        bl = []
        for b in r["branches"]:
            g = "none" if b["guard"] is None else f"some {b['guard']}"
            bl.append(f"      ⟨.{b['kind']}, {g}, [{', '.join(_lean_prod(p) for p in b['prods'])}], {b['target']}⟩")
        out.append(",\n".join(bl) + "],")
        out.append(f"    expected := [{', '.join(json.dumps(e) for e in r['expected'])}],")
        out.append(f"    errTarget := {r['errTarget']} }}")
        out.append("")
    las = ", ".join("⟨[" + ", ".join("." + k for k in la["expected"]) + "], [" +
                    ", ".join("." + k for k in la["skip"]) + "]⟩" for la in table["lookaheads"])
    out.append(f"def {name} : Table :=")
    out.append("  { rows := [" + ", ".join(f"{name}_row{r['id']}" for r in table["rows"]) + "],")
    out.append(f"    lookaheads := [{las}],")
    out.append(f"    startRule := {_lean_rule(table['startRule'])},")
    out.append(f"    errorCap := {table['errorCap']} }}")
    out.append("")
    out.append(f"end GV.{ns}")
    return "\n".join(out) + "\n"


if __name__ == "__main__":
    src = open(sys.argv[1], encoding="utf8").read()
    t = extract(src)
    sys.stdout.write(to_lean(t))
