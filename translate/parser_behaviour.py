"""Second front end of the parser-table translator: recover the transition table of
python/gherkin/parser.py BEHAVIOURALLY, by driving the real `Parser.match_token` with a scripted token
matcher, a recording builder and a synthetic token scanner — exhaustively over every state reachable
from state 0, every test of the state, every look-ahead decision.  It is used when the syntactic front
end (translate/parser_table.py) does not recognise the shape of the file (a refactoring of the
generated code): the table it returns has exactly the same format, is written to
Gen/ParserTable.lean by the same printer, and every theorem about the table is re-checked against it.

What is observed, per state `s`:
  * with every test answering False: the ORDER of the `match_<K>` calls on the current token (the
    branch list), the error the tail reports (its expected-token list, parsed from the message) and
    the state the tail returns;
  * with only the i-th call answering True: whether the parser then reads ahead (a guarded branch),
    the builder calls (`start_rule` / `end_rule` / `build`) and the state returned;
  * for a guarded branch: the look-ahead's tests on the first token read ahead, in order, and for each
    whether a True answer ends the look-ahead successfully (an expected kind) or makes it read on (a
    skipped kind).
Run as a child process:  python parser_behaviour.py <path of the python/ directory>  → JSON on stdout."""
from __future__ import annotations

import json
import re
import sys
from collections import deque

KINDS = ["EOF", "Empty", "Comment", "TagLine", "FeatureLine", "RuleLine", "BackgroundLine",
         "ScenarioLine", "ExamplesLine", "StepLine", "DocStringSeparator", "TableRow", "Language",
         "Other"]


class Behaviour(Exception):
    pass


def extract() -> dict:
    from gherkin.parser import Parser, ParserContext
    from gherkin.token import Token
    from gherkin.gherkin_line import GherkinLine
    from gherkin.errors import CompositeParserException, ParserException

    class Rec:
        """recording AST builder"""
        def __init__(self):
            self.events = []

        def reset(self):
            self.events = []

        def start_rule(self, rule_type):
            self.events.append(["start", rule_type])

        def end_rule(self, rule_type):
            self.events.append(["end", rule_type])

        def build(self, token):
            self.events.append(["build"])

        def get_result(self):
            return {}

    class Scanner:
        def __init__(self):
            self.n = 1
            self.reads = 0

        def read(self):
            self.n += 1
            self.reads += 1
            return Token(GherkinLine(f"ahead {self.n}", self.n), {"line": self.n})

    class Script:
        """scripted matcher: answer(token_index, call_index_on_that_token, kind) -> bool; records calls"""
        def __init__(self, answer):
            self.answer = answer
            self.calls = []          # (token line, kind)
            self.per_token = {}
            self.dialect_name = "en"

        def reset(self):
            pass

        def __getattr__(self, name):
            if not name.startswith("match_"):
                raise AttributeError(name)
            kind = name[len("match_"):]

            def f(token):
                ln = token.location["line"]
                i = self.per_token.get(ln, 0)
                self.per_token[ln] = i + 1
                self.calls.append((ln, kind))
                return bool(self.answer(ln, i, kind))
            return f

    def run(state, answer):
        rec = Rec()
        p = Parser(rec)
        p.stop_at_first_error = False
        sc = Scanner()
        m = Script(answer)
        ctx = ParserContext(sc, m, deque(), [])
        tok = Token(GherkinLine("current", 1), {"line": 1})
        out = p.match_token(state, tok, ctx)
        return {"target": out, "events": rec.events, "calls": m.calls, "reads": sc.reads,
                "errors": [str(e) for e in ctx.errors], "queue": len(ctx.token_queue)}

    rows = {}
    lookaheads = []          # list of {"expected": [...], "skip": [...]}
    todo = [0]
    terminal = set()
    while todo:
        s = todo.pop(0)
        if s in rows or s in terminal:
            continue
        try:
            base = run(s, lambda ln, i, k: False)
        except RuntimeError:
            terminal.add(s)          # a state without a row (the end state): `match_token` knows no such state
            continue
        tests = [k for ln, k in base["calls"] if ln == 1]
        if any(ln != 1 for ln, _ in base["calls"]) or base["reads"] or base["events"]:
            raise Behaviour(f"state {s}: activity although every test fails")
        if len(base["errors"]) != 1:
            raise Behaviour(f"state {s}: error tail reported {len(base['errors'])} errors")
        mm = re.match(r"^\(1:1\): expected: (.*), got 'current'$", base["errors"][0])
        if not mm:
            raise Behaviour(f"state {s}: unexpected-token message has another form: {base['errors'][0]!r}")
        expected = mm.group(1).split(", ")
        branches = []
        for i, kind in enumerate(tests):
            if kind not in KINDS:
                raise Behaviour(f"state {s}: unknown test {kind}")
            r = run(s, lambda ln, j, k, i=i: ln == 1 and j == i)
            cur_calls = [k for ln, k in r["calls"] if ln == 1]
            guard = None
            if r["reads"] == 0:
                # unguarded: taken at once; nothing after the i-th test may have been called
                if cur_calls != tests[: i + 1] or r["errors"]:
                    raise Behaviour(f"state {s} test {i}: unguarded branch misbehaves")
                prods, target = r["events"], r["target"]
            else:
                # guarded: with every look-ahead test failing the guard is false and the next tests run
                la_calls = [k for ln, k in r["calls"] if ln == 2]
                if r["reads"] != 1 or cur_calls != tests or r["events"] or any(ln > 2 for ln, _ in r["calls"]):
                    raise Behaviour(f"state {s} test {i}: look-ahead with failing tests misbehaves")
                exp_k, skip_k = [], []
                taken = None
                for j, lk in enumerate(la_calls):
                    rj = run(s, lambda ln, c, k, i=i, j=j: (ln == 1 and c == i) or (ln == 2 and c == j))
                    if rj["reads"] == 1 and rj["events"]:
                        # the look-ahead succeeded on the first token read ahead: an expected kind
                        exp_k.append(lk)
                        if rj["queue"] != 1:
                            raise Behaviour(f"state {s} test {i}: look-ahead did not re-queue exactly the token it read")
                        if taken is None:
                            taken = rj
                        elif (rj["events"], rj["target"]) != (taken["events"], taken["target"]):
                            raise Behaviour(f"state {s} test {i}: branch differs with the look-ahead's reason")
                    elif rj["reads"] == 2 and not rj["events"]:
                        skip_k.append(lk)    # read on, then failed on the second token
                    else:
                        raise Behaviour(f"state {s} test {i}: look-ahead call {j} ({lk}) neither ends nor continues the look-ahead")
                if taken is None or la_calls != exp_k + skip_k:
                    raise Behaviour(f"state {s} test {i}: look-ahead tests are not 'expected kinds, then skipped kinds'")
                la = {"expected": exp_k, "skip": skip_k}
                if la not in lookaheads:
                    lookaheads.append(la)
                guard = lookaheads.index(la)
                prods, target = taken["events"], taken["target"]
            if not isinstance(target, int):
                raise Behaviour(f"state {s} test {i}: target {target!r}")
            for p_ in prods:
                if p_[0] not in ("start", "end", "build"):
                    raise Behaviour("unknown production")
            branches.append({"kind": kind, "guard": guard, "prods": prods, "target": target})
            if target not in rows and target not in todo:
                todo.append(target)
        rows[s] = {"id": s, "comment": "", "branches": branches, "expected": expected, "errTarget": base["target"]}
        if base["target"] not in rows and base["target"] not in todo:
            todo.append(base["target"])

    # every state of the parser's own state map must have been reached (and no other exists)
    unknown = None
    for cand in range(0, max(rows) + 3):
        if cand in rows or cand in terminal:
            continue
        try:
            run(cand, lambda ln, i, k: False)
            unknown = cand
        except RuntimeError:
            pass
        except Exception:
            unknown = cand
    if unknown is not None:
        raise Behaviour(f"state {unknown} exists but is not reachable from state 0")

    # glue constants: the start rule and the error cap, observed on whole parses with the real matcher
    rec = Rec()
    p = Parser(rec)
    try:
        p.parse("")
    except Exception:
        pass
    if not rec.events or rec.events[0][0] != "start":
        raise Behaviour("parse does not begin with start_rule")
    start_rule = rec.events[0][1]
    p = Parser(Rec())
    try:
        p.parse("".join(f"junk {i}\n" for i in range(40)))
        raise Behaviour("forty unexpected lines accepted")
    except CompositeParserException as e:
        cap = len(e.errors) - 1
    except ParserException:
        raise Behaviour("collecting mode raised a single error")
    return {"rows": [rows[k] for k in sorted(rows)], "lookaheads": lookaheads, "startRule": start_rule,
            "errorCap": cap, "via": "behavioural"}


if __name__ == "__main__":
    sys.path.insert(0, sys.argv[1])
    try:
        print(json.dumps(extract()))
    except Behaviour as e:
        print(json.dumps({"error": str(e)}))
        sys.exit(3)
