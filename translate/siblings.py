"""Translator: the sibling generated parsers (Java, Go, Ruby, C, TypeScript) -> Gen/Siblings.lean

Each is scanned line by line with per-language patterns (they are all emitted by Berp from the
same grammar with language templates): a line with `if` + a match test opens a branch; a
following `if` + look-ahead test sets its guard; then productions until the `return`.
TypeScript's `endRule(context)` carries no rule name (recorded as `None`); the comparison in
Lean ignores the name written in `end_rule` (Python's AstBuilder.end_rule ignores it too).
"""
from __future__ import annotations

import os
import re

from . import parser_table

LANGS = {
    "java": dict(path="java/src/main/java/io/cucumber/gherkin/Parser.java",
                 state=r"int matchTokenAt_(\d+)\(", match=r"match_(\w+)\(context, token\)",
                 la=r"lookahead_(\d+)\(context, token\)", start=r"startRule\(context, RuleType\.(\w+)\)",
                 end=r"endRule\(context, RuleType\.(\w+)\)", build=r"build\(context, token\)",
                 ret=r"return (\d+);", exp=r"expectedTokens = asList\((.*)\);"),
    "go": dict(path="go/parser.go",
               state=r"func \(ctxt \*parseContext\) matchAt(\d+)\(", match=r"ctxt\.match(\w+)\(line\)",
               la=r"ctxt\.lookahead(\d+)\(line\)", start=r"ctxt\.startRule\(RuleType(\w+)\)",
               end=r"ctxt\.endRule\(RuleType(\w+)\)", build=r"ctxt\.build\(token\)",
               ret=r"return (\d+), err", exp=r"expectedTokens = \[\]string\{(.*)\}"),
    "ruby": dict(path="ruby/lib/gherkin/parser.rb",
                 state=r"def match_token_at_state(\d+)\(", match=r"match_(\w+)\(context, token\)",
                 la=r"lookahead(\d+)\(context, token\)", start=r"start_rule\(context, :(\w+)\)",
                 end=r"end_rule\(context, :(\w+)\)", build=r"build\(context, token\)",
                 ret=r"return (\d+)\s*$", exp=r"expected_tokens = \[(.*)\]"),
    "c": dict(path="c/src/parser.c",
              state=r"static int match_token_at_(\d+)\(", match=r"match_(\w+)\(context, token\)",
              la=r"lookahead_(\d+)\(context\)", start=r"start_rule\(context, Rule_(\w+)\)",
              end=r"end_rule\(context, Rule_(\w+)\)", build=r"build\(context, token\)",
              ret=r"return (\d+);", exp=r'expected_tokens = L"(.*)";'),
    "ts": dict(path="javascript/src/Parser.ts",
               state=r"private matchTokenAt_(\d+)\(", match=r"this\.match_(\w+)\(context, token\)",
               la=r"this\.lookahead_(\d+)\(context, token\)", start=r"this\.startRule\(context, RuleType\.(\w+)\)",
               end=r"this\.endRule\(context()\)", build=r"this\.build\(context, token\)",
               ret=r"return (\d+);", exp=r"expectedTokens = \[(.*)\]"),
}


class SiblingError(Exception):
    pass


def extract(text: str, pat: dict, lang: str) -> dict:
    rows = {}
    cur = None
    branch = None
    for raw in text.splitlines():
        line = raw.strip()
        m = re.search(pat["state"], raw)
        if m:
            cur = {"id": int(m.group(1)), "comment": "", "branches": [], "expected": None, "errTarget": None}
            rows[cur["id"]] = cur
            branch = None
            continue
        if cur is None:
            continue
        has_if = re.match(r"^\s*(if|elsif|else if)\b", raw) is not None or line.startswith("if")
        mm = re.search(pat["match"], raw)
        la = re.search(pat["la"], raw)
        if has_if and mm and not la:
            kind = mm.group(1).lstrip("_")
            if kind not in parser_table.KINDS:
                raise SiblingError(f"{lang}: unknown kind {kind}")
            branch = {"kind": kind, "guard": None, "prods": [], "target": None}
            cur["branches"].append(branch)
            continue
        if has_if and la and branch is not None and branch["target"] is None:
            branch["guard"] = int(la.group(1))
            continue
        e = re.search(pat["exp"], raw)
        if e and cur["expected"] is None:
            cur["expected"] = re.findall(r"#\w+", e.group(1))
            branch = None
            continue
        r = re.search(pat["ret"], raw)
        if r:
            if branch is not None and branch["target"] is None:
                branch["target"] = int(r.group(1))
                branch = None
            elif cur["expected"] is not None and cur["errTarget"] is None:
                cur["errTarget"] = int(r.group(1))
                cur = None      # the state function is complete
            continue
        if branch is not None and branch["target"] is None:
            s = re.search(pat["start"], raw)
            if s:
                branch["prods"].append(["start", s.group(1)])
                continue
            en = re.search(pat["end"], raw)
            if en:
                branch["prods"].append(["end", en.group(1) or "None"])
                continue
            if re.search(pat["build"], raw):
                branch["prods"].append(["build"])
                continue
    out = []
    for sid in sorted(rows):
        r = rows[sid]
        if r["expected"] is None:
            # not a state function with an error tail (e.g. C's dispatcher); skip
            if not r["branches"]:
                continue
            raise SiblingError(f"{lang}: state {sid} has no expected list")
        for b in r["branches"]:
            if b["target"] is None:
                raise SiblingError(f"{lang}: state {sid} has a branch without return")
            for p in b["prods"]:
                if p[0] != "build" and p[1] not in parser_table.RULES:
                    raise SiblingError(f"{lang}: unknown rule {p[1]}")
        if r["errTarget"] is None:
            raise SiblingError(f"{lang}: state {sid} has no error-tail return")
        out.append(r)
    return {"rows": out, "lookaheads": [], "startRule": "GherkinDocument", "errorCap": 10}


def load(repo: str) -> dict:
    res = {}
    for lang, pat in LANGS.items():
        text = open(os.path.join(repo, pat["path"]), encoding="utf8").read()
        t = extract(text, pat, lang)
        n_fn = len(re.findall(pat["state"], text))
        if len(t["rows"]) != n_fn and not (lang == "c" and len(t["rows"]) <= n_fn):
            raise SiblingError(f"{lang}: {len(t['rows'])} states extracted but {n_fn} state functions")
        res[lang] = t
    return res


def to_lean(repo: str) -> str:
    tables = load(repo)
    parts = ["-- GENERATED by translate/siblings.py; do not edit.", "import GherkinVerif.Model.Parser", ""]
    for lang, t in tables.items():
        body = parser_table.to_lean(t, ns="Gen", name=f"sibling_{lang}", source=LANGS[lang]["path"])
        body = "\n".join(l for l in body.splitlines() if not l.startswith("import ") and not l.startswith("-- GENERATED"))
        parts.append(body)
    return "\n".join(parts) + "\n"
