/-
  Model/Builder.lean — model of python/gherkin/ast_builder.py + ast_node.py.

  The builder is a stack machine.  Python run-time errors (attribute access on `None`,
  `[0]` on an empty list, popping an empty stack) are modelled as `BErr.crash`, never
  defaulted; `AstBuilderException` is `BErr.ast`.  The id counter is threaded through
  *also on the error path* (ids drawn before a ragged-table error stay consumed).
  Model of the repaired code (fix F3: trailing whitespace-only description lines are dropped).
-/
import GherkinVerif.Model.Ast
namespace GV

inductive RuleType
  | None_ | GherkinDocument | Feature | FeatureHeader | Rule | RuleHeader | Background
  | ScenarioDefinition | Scenario | ExamplesDefinition | Examples | ExamplesTable | Step
  | StepArg | DataTable | DocString | Tags | DescriptionHelper | Description
deriving DecidableEq, Repr, Inhabited

def RuleType.name : RuleType → String
  | .None_ => "None" | .GherkinDocument => "GherkinDocument" | .Feature => "Feature"
  | .FeatureHeader => "FeatureHeader" | .Rule => "Rule" | .RuleHeader => "RuleHeader"
  | .Background => "Background" | .ScenarioDefinition => "ScenarioDefinition"
  | .Scenario => "Scenario" | .ExamplesDefinition => "ExamplesDefinition"
  | .Examples => "Examples" | .ExamplesTable => "ExamplesTable" | .Step => "Step"
  | .StepArg => "StepArg" | .DataTable => "DataTable" | .DocString => "DocString"
  | .Tags => "Tags" | .DescriptionHelper => "DescriptionHelper" | .Description => "Description"

/-- key of `AstNode._sub_items`: a token kind or a rule type. -/
inductive Key
  | tok (k : Kind)
  | rule (r : RuleType)
deriving DecidableEq, Repr, Inhabited

/-- what an `AstNode` can hold: tokens, transformed sub-trees, `None`, or raw nodes
    (rule types `transform_node` returns unchanged). -/
inductive Val
  | tok (t : Token)
  | none
  | step (s : Step)
  | docString (d : DocString)
  | dataTable (d : DataTable)
  | background (b : Background)
  | scenario (s : Scenario)
  | examples (e : Examples)
  | rows (rs : List Row)
  | descr (s : Str)
  | rule (r : Rule)
  | feature (f : Feature)
  | doc (d : Doc)
  | raw (rt : RuleType) (items : List (Key × Val))
deriving Inhabited

structure Node where
  rt : RuleType
  items : List (Key × Val)   -- insertion order; `_sub_items[k]` = the values with key `k`, in order
deriving Inhabited

inductive BErr
  | crash (what : String)
  | ast (e : PErr)
deriving Repr, Inhabited

/-- builder computations: id counter survives errors. -/
abbrev BM := ExceptT BErr (StateM Nat)

def nextId : BM Nat := do
  let n ← get
  set (n + 1)
  return n

def crash {α} (what : String) : BM α := throw (.crash what)

/-- `_sub_items[key]` -/
def getItems (items : List (Key × Val)) (k : Key) : List Val :=
  (items.filter (·.1 == k)).map (·.2)

/-- `get_single(key)` (default `None`) -/
def getSingle (items : List (Key × Val)) (k : Key) : Val :=
  match getItems items k with
  | v :: _ => v
  | [] => .none

/-- `get_tokens(kind)`; a non-token under a token key cannot occur (keys are typed). -/
def getTokens (items : List (Key × Val)) (k : Kind) : List Token :=
  (getItems items (.tok k)).filterMap fun v => match v with | .tok t => some t | _ => Option.none

/-- `get_token(kind)` followed by an attribute access: `None` crashes. -/
def needToken (items : List (Key × Val)) (k : Kind) : BM Token :=
  match getSingle items (.tok k) with
  | .tok t => pure t
  | _ => crash s!"AttributeError: get_token({k.name}) is None"

def need {α} (what : String) : Option α → BM α
  | some a => pure a
  | Option.none => crash s!"missing field {what}"

/-- `get_location(token, column)` -/
def getLocation (t : Token) (column : Option Nat := Option.none) : Loc :=
  match column with
  | some c => if c == 0 then t.loc else ⟨t.lineNo, some c⟩
  | Option.none => t.loc

def mapM' {α β} (f : α → BM β) : List α → BM (List β)
  | [] => pure []
  | a :: as => do
    let b ← f a
    let bs ← mapM' f as
    pure (b :: bs)

/-- `get_tags(node)` -/
def getTags (items : List (Key × Val)) : BM (List Tag) :=
  match getSingle items (.rule .Tags) with
  | .raw _ tagItems => do
    let perLine ← mapM' (fun (t : Token) =>
      mapM' (fun (it : Nat × Str) => do
        let id ← nextId
        pure ({ id := id, loc := getLocation t (some it.1), name := it.2 } : Tag)) t.items)
      (getTokens tagItems .TagLine)
    pure perLine.flatten
  | .none => pure []
  | _ => crash "get_tags: Tags is not a node"

/-- `get_cells(token)` -/
def getCells (t : Token) : List Cell :=
  t.items.map fun it => { loc := getLocation t (some it.1), value := it.2 }

/-- first row whose cell count differs from the first row's (`ensure_cell_count`) -/
def raggedRow (rows : List Row) : Option Row :=
  match rows with
  | [] => Option.none
  | r0 :: _ => rows.find? fun r => r.cells.length != r0.cells.length

/-- `get_table_rows(node)` -/
def getTableRows (items : List (Key × Val)) : BM (List Row) := do
  let rows ← mapM' (fun (t : Token) => do
    let id ← nextId
    pure ({ id := id, loc := getLocation t, cells := getCells t } : Row)) (getTokens items .TableRow)
  match raggedRow rows with
  | some r => throw (.ast ⟨.raggedTable, r.loc, lit "inconsistent cell count within the table"⟩)
  | Option.none => pure rows

/-- `get_description(node)` -/
def getDescription (items : List (Key × Val)) : BM Str :=
  match getItems items (.rule .Description) with
  | [] => pure []
  | .descr s :: _ => pure s
  | _ => crash "get_description: not a string"

def getSteps (items : List (Key × Val)) : List Step :=
  (getItems items (.rule .Step)).filterMap fun v => match v with | .step s => some s | _ => Option.none

def getScenarios (items : List (Key × Val)) : List Scenario :=
  (getItems items (.rule .ScenarioDefinition)).filterMap fun v =>
    match v with | .scenario s => some s | _ => Option.none

def getBackground (items : List (Key × Val)) : Option Background :=
  match getSingle items (.rule .Background) with
  | .background b => some b
  | _ => Option.none

/-- the trimming loop of the `Description` case (repaired: whitespace-only lines). -/
def trimDescLines (ls : List Str) : List Str :=
  (ls.reverse.dropWhile fun l => (strip l).isEmpty).reverse

/-- `transform_node(node)` -/
def transformNode (comments : List Comment) (node : Node) : BM Val := do
  let items := node.items
  match node.rt with
  | .Step =>
    let arg : StepArg :=
      match getSingle items (.rule .DataTable) with
      | .dataTable d => .table d
      | _ => match getSingle items (.rule .DocString) with
        | .docString d => .doc d
        | _ => .none
    let id ← nextId
    let line ← needToken items .StepLine
    let kw ← need "step.keyword" line.keyword
    let kt ← need "step.keywordType" line.ktype
    let tx ← need "step.text" line.text
    pure (.step { id := id, loc := getLocation line, keyword := kw, ktype := kt, text := tx, arg := arg })
  | .DocString =>
    match getTokens items .DocStringSeparator with
    | [] => crash "IndexError: DocString without separator"
    | sep :: _ =>
      let sepText ← need "docstring separator text" sep.text
      let delim ← need "docstring delimiter" sep.keyword
      let media := if sepText.length > 0 then some sepText else Option.none
      let lines ← mapM' (fun (t : Token) => need "docstring line text" t.text) (getTokens items .Other)
      pure (.docString { loc := getLocation sep, content := joinWith [10] lines, delimiter := delim, mediaType := media })
  | .DataTable =>
    let rows ← getTableRows items
    match rows with
    | [] => crash "IndexError: DataTable without rows"
    | r0 :: _ => pure (.dataTable { loc := r0.loc, rows := rows })
  | .Background =>
    let line ← needToken items .BackgroundLine
    let description ← getDescription items
    let steps := getSteps items
    let id ← nextId
    let kw ← need "background.keyword" line.keyword
    let nm ← need "background.name" line.text
    pure (.background { id := id, loc := getLocation line, keyword := kw, name := nm,
                        description := description, steps := steps })
  | .ScenarioDefinition =>
    let tags ← getTags items
    match getSingle items (.rule .Scenario) with
    | .raw _ sc =>
      let line ← needToken sc .ScenarioLine
      let description ← getDescription sc
      let steps := getSteps sc
      let examples := (getItems sc (.rule .ExamplesDefinition)).filterMap fun v =>
        match v with | .examples e => some e | _ => Option.none
      let id ← nextId
      let kw ← need "scenario.keyword" line.keyword
      let nm ← need "scenario.name" line.text
      pure (.scenario { id := id, tags := tags, loc := getLocation line, keyword := kw, name := nm,
                        description := description, steps := steps, examples := examples })
    | _ => crash "AttributeError: ScenarioDefinition without Scenario"
  | .ExamplesDefinition =>
    let tags ← getTags items
    match getSingle items (.rule .Examples) with
    | .raw _ ex =>
      let line ← needToken ex .ExamplesLine
      let description ← getDescription ex
      let rows : List Row := match getSingle ex (.rule .ExamplesTable) with
        | .rows rs => rs
        | _ => []
      let id ← nextId
      let kw ← need "examples.keyword" line.keyword
      let nm ← need "examples.name" line.text
      pure (.examples { id := id, tags := tags, loc := getLocation line, keyword := kw, name := nm,
                        description := description, header := rows.head?, body := rows.drop 1 })
    | _ => crash "AttributeError: ExamplesDefinition without Examples"
  | .ExamplesTable =>
    let rows ← getTableRows items
    pure (.rows rows)
  | .Description =>
    let lines ← mapM' (fun (t : Token) => need "description line text" t.text) (getTokens items .Other)
    pure (.descr (joinWith [10] (trimDescLines lines)))
  | .Rule =>
    match getSingle items (.rule .RuleHeader) with
    | .raw _ header =>
      let tags ← getTags header
      match getSingle header (.tok .RuleLine) with
      | .tok line =>
        let children : List RuleChild :=
          (match getBackground items with | some b => [RuleChild.background b] | Option.none => []) ++
          (getScenarios items).map RuleChild.scenario
        let description ← getDescription header
        let id ← nextId
        let kw ← need "rule.keyword" line.keyword
        let nm ← need "rule.name" line.text
        pure (.rule { id := id, tags := tags, loc := getLocation line, keyword := kw, name := nm,
                      description := description, children := children })
      | _ => pure .none
    | _ => pure .none
  | .Feature =>
    match getSingle items (.rule .FeatureHeader) with
    | .raw _ header =>
      let tags ← getTags header
      match getSingle header (.tok .FeatureLine) with
      | .tok line =>
        let rules := (getItems items (.rule .Rule)).filterMap fun v =>
          match v with | .rule r => some r | _ => Option.none
        let children : List FeatureChild :=
          (match getBackground items with | some b => [FeatureChild.background b] | Option.none => []) ++
          (getScenarios items).map FeatureChild.scenario ++ rules.map FeatureChild.rule
        let description ← getDescription header
        let kw ← need "feature.keyword" line.keyword
        let nm ← need "feature.name" line.text
        pure (.feature { tags := tags, loc := getLocation line, language := line.dialect, keyword := kw,
                         name := nm, description := description, children := children })
      | _ => pure .none
    | _ => pure .none
  | .GherkinDocument =>
    let feature : Option Feature := match getSingle items (.rule .Feature) with
      | .feature f => some f
      | _ => Option.none
    pure (.doc { feature := feature, comments := comments })
  | rt => pure (.raw rt items)

structure BState where
  stack : List Node := [⟨.None_, []⟩]
  comments : List Comment := []
deriving Inhabited

def BState.reset : BState := {}

def addToTop (stack : List Node) (k : Key) (v : Val) : Option (List Node) :=
  match stack with
  | top :: rest => some ({ top with items := top.items ++ [(k, v)] } :: rest)
  | [] => Option.none

/-- `start_rule(rule_type)` -/
def BState.startRule (β : BState) (r : RuleType) : BState :=
  { β with stack := ⟨r, []⟩ :: β.stack }

/-- `end_rule(rule_type)`: the argument is ignored, as in the code.  Returns the new builder
    state also when `transform_node` raised (the node has been popped already). -/
def BState.endRule (β : BState) : Nat → (Except BErr Unit × BState × Nat) := fun n =>
  match β.stack with
  | [] => (.error (.crash "IndexError: pop from empty list"), β, n)
  | node :: rest =>
    let β' := { β with stack := rest }
    match (transformNode β.comments node).run.run n with
    | (.error e, n') => (.error e, β', n')
    | (.ok v, n') =>
      match addToTop rest (.rule node.rt) v with
      | some st => (.ok (), { β' with stack := st }, n')
      | Option.none => (.error (.crash "IndexError: current_node of empty stack"), β', n')

/-- `build(token)` -/
def BState.build (β : BState) (t : Token) : Except BErr BState :=
  match t.mtype with
  | some .Comment =>
    match t.text with
    | some tx => .ok { β with comments := β.comments ++ [{ loc := getLocation t, text := tx }] }
    | Option.none => .error (.crash "comment without text")
  | some k =>
    match addToTop β.stack (.tok k) (.tok t) with
    | some st => .ok { β with stack := st }
    | Option.none => .error (.crash "IndexError: current_node of empty stack")
  | Option.none => .error (.crash "build of unmatched token")

/-- `get_result()` -/
def BState.result (β : BState) : Except BErr (Option Doc) :=
  match β.stack with
  | top :: _ =>
    match getSingle top.items (.rule .GherkinDocument) with
    | .doc d => .ok (some d)
    | .none => .ok Option.none
    | _ => .error (.crash "get_result: not a document")
  | [] => .error (.crash "IndexError: current_node of empty stack")

end GV
