/-
  Model/Token.lean — token kinds, tokens (python/gherkin/token.py + the fields
  `_set_token_matched` writes), dialect records, errors.
-/
import GherkinVerif.Model.Line
namespace GV

/-- the 14 line kinds of the generated parser (`match_<Kind>`). -/
inductive Kind
  | EOF | Empty | Comment | TagLine | FeatureLine | RuleLine | BackgroundLine | ScenarioLine
  | ExamplesLine | StepLine | DocStringSeparator | TableRow | Language | Other
deriving DecidableEq, Repr, Inhabited

def Kind.all : List Kind :=
  [.EOF, .Empty, .Comment, .TagLine, .FeatureLine, .RuleLine, .BackgroundLine, .ScenarioLine,
   .ExamplesLine, .StepLine, .DocStringSeparator, .TableRow, .Language, .Other]

def Kind.name : Kind → String
  | .EOF => "EOF" | .Empty => "Empty" | .Comment => "Comment" | .TagLine => "TagLine"
  | .FeatureLine => "FeatureLine" | .RuleLine => "RuleLine" | .BackgroundLine => "BackgroundLine"
  | .ScenarioLine => "ScenarioLine" | .ExamplesLine => "ExamplesLine" | .StepLine => "StepLine"
  | .DocStringSeparator => "DocStringSeparator" | .TableRow => "TableRow"
  | .Language => "Language" | .Other => "Other"

def Kind.toNat : Kind → Nat
  | .EOF => 0 | .Empty => 1 | .Comment => 2 | .TagLine => 3 | .FeatureLine => 4 | .RuleLine => 5
  | .BackgroundLine => 6 | .ScenarioLine => 7 | .ExamplesLine => 8 | .StepLine => 9
  | .DocStringSeparator => 10 | .TableRow => 11 | .Language => 12 | .Other => 13

def Kind.fromNat (n : Nat) : Kind := Kind.all.getD n .Other

/-- step keyword types -/
inductive KType | Unknown | Context | Action | Outcome | Conjunction
deriving DecidableEq, Repr, Inhabited

def KType.name : KType → String
  | .Unknown => "Unknown" | .Context => "Context" | .Action => "Action"
  | .Outcome => "Outcome" | .Conjunction => "Conjunction"

/-- one entry of gherkin-languages.json, keyword lists in file order. -/
structure Dialect where
  name : Str
  and_ : List Str
  background : List Str
  but_ : List Str
  examples : List Str
  feature : List Str
  given : List Str
  rule : List Str
  scenario : List Str
  scenarioOutline : List Str
  then_ : List Str
  when_ : List Str
deriving Repr, Inhabited

/-- `Dialect.for_name` over a table. -/
def findDialect (D : List Dialect) (name : Str) : Option Dialect := D.find? (·.name == name)

def Dialect.stepKeywords (d : Dialect) : List Str :=
  d.given ++ d.when_ ++ d.then_ ++ d.and_ ++ d.but_

/-- `keyword_types[kw]` as built by `_change_dialect`. -/
def Dialect.keywordTypes (d : Dialect) (kw : Str) : List KType :=
  (d.given.filter (· == kw)).map (fun _ => KType.Context) ++
  (d.when_.filter (· == kw)).map (fun _ => KType.Action) ++
  (d.then_.filter (· == kw)).map (fun _ => KType.Outcome) ++
  ((d.and_ ++ d.but_).filter (· == kw)).map (fun _ => KType.Conjunction)

/-- source location; `col = none` only for a token no matcher has touched (unexpected EOF). -/
structure Loc where
  line : Nat
  col : Option Nat
deriving DecidableEq, Repr, Inhabited

/-- A token: the physical line (`none` = end of file) plus everything `_set_token_matched`
    writes.  `col` is `token.location["column"]`, absent until some match succeeds. -/
structure Token where
  line : Option Str
  lineNo : Nat
  col : Option Nat := none
  mtype : Option Kind := none
  text : Option Str := none
  keyword : Option Str := none
  ktype : Option KType := none
  indent : Nat := 0
  items : List (Nat × Str) := []
  dialect : Str := []
deriving Repr, Inhabited

def Token.eof (t : Token) : Bool := t.line.isNone
def Token.loc (t : Token) : Loc := ⟨t.lineNo, t.col⟩

inductive ErrKind | unexpectedToken | unexpectedEOF | tagWhitespace | noSuchLanguage | raggedTable
deriving DecidableEq, Repr, Inhabited

/-- A `ParserException`: location object plus message body (the text after `"(l:c): "`). -/
structure PErr where
  kind : ErrKind
  loc : Loc
  body : Str
deriving DecidableEq, Repr, Inhabited

/-- `str(error)`: `"(" + line + ":" + (column or 0) + "): " + message`. -/
def PErr.message (e : PErr) : Str :=
  [40] ++ natToStr e.loc.line ++ [58] ++ natToStr (e.loc.col.getD 0) ++ lit "): " ++ e.body

end GV
