/-
  Model/Line.lean — model of python/gherkin/gherkin_line.py (class GherkinLine).

  A physical line is the string `readline()` returned, *including* its trailing "\n" when
  present.  All columns are in code points.
-/
import GherkinVerif.Model.Py
namespace GV

/-- `_trimmed_line_text` -/
def trimmed (line : Str) : Str := lstrip line

/-- `GherkinLine.indent` -/
def lineIndent (line : Str) : Nat := indentOf line

/-- `get_rest_trimmed(length)` -/
def restTrimmed (line : Str) (n : Nat) : Str := strip ((trimmed line).drop n)

/-- `get_line_text(indent_to_remove)`; `none` is the default `-1`. -/
def lineText (line : Str) (indentToRemove : Option Nat) : Str :=
  match indentToRemove with
  | none => trimmed line
  | some k => if k > lineIndent line then trimmed line else line.drop k

/-- `is_empty()` -/
def lineIsEmpty (line : Str) : Bool := (trimmed line).isEmpty

/-- `startswith(prefix)` -/
def lineStartsWith (line p : Str) : Bool := startsWith p (trimmed line)

/-- `startswith_title_keyword(keyword)` -/
def lineStartsWithTitle (line kw : Str) : Bool := startsWith (kw ++ [58]) (trimmed line)

/-- `split_table_cells(row)`: the single-pass character loop.  `col` is the number of code
    points consumed so far, `start` the column of the current cell, `cell` the cell text so far,
    `first` whether no `|` has been seen yet. -/
def splitCells : (row : Str) → (col start : Nat) → (cell : Str) → (first : Bool) → List (Str × Nat)
  | [], _, _, _, _ => []
  | c :: rest, col, start, cell, first =>
    if c == 124 then
      if first then splitCells rest (col + 1) (col + 2) [] false
      else (cell, start) :: splitCells rest (col + 1) (col + 2) [] false
    else if c == 92 then
      match rest with
      | [] => []
      | d :: rest' =>
        if d == 110 then splitCells rest' (col + 2) start (cell ++ [10]) first
        else if d == 124 || d == 92 then splitCells rest' (col + 2) start (cell ++ [d]) first
        else splitCells rest' (col + 2) start (cell ++ [92, d]) first
    else splitCells rest (col + 1) start (cell ++ [c]) first

/-- `table_cells`: (column, text) per cell. -/
def tableCells (line : Str) : List (Nat × Str) :=
  (splitCells (strip (trimmed line)) 0 1 [] true).map fun (cell, col) =>
    let l := lstripBlank cell
    (col + lineIndent line + (cell.length - l.length), rstripBlank l)

/-- the loop of `tags` over `items[1:]`; `none` = the ParserException (column of offending tag). -/
def tagItems : (items : List Str) → (column : Nat) → Except Nat (List (Nat × Str))
  | [], _ => .ok []
  | item :: rest, column =>
    let v := 64 :: strip item
    if v.any isSpace then .error column
    else match tagItems rest (column + item.length + 1) with
      | .error c => .error c
      | .ok ts => .ok ((column, v) :: ts)

/-- `tags`: `.error col` models `ParserException("A tag may not contain whitespace", {line, col})`. -/
def lineTags (line : Str) : Except Nat (List (Nat × Str)) :=
  let unc := beforeWsHash (strip (trimmed line))
  let items := splitOnChar 64 (strip unc)
  tagItems (items.drop 1) (lineIndent line + 1)

end GV
