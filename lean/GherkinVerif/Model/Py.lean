/-
  Model/Py.lean — the CPython primitives the gherkin code relies on, modelled explicitly.

  Strings are `List Nat` (Unicode code points, lone surrogates included; a superset of
  Python `str`).  Everything here is total, computable and import-free.
  Each function has a correspondence stream against CPython (harness/streams.py: `py.*`).
-/
namespace GV

abbrev Str := List Nat

/-- `str.isspace()` for one code point = `\s` of `re` (str patterns) = what `str.strip()` removes.
    The 29 code points were checked against CPython over all 0x110000 code points (stream `py.ws`). -/
def isSpace (c : Nat) : Bool :=
  (9 ≤ c && c ≤ 13) || (28 ≤ c && c ≤ 32) || c == 0x85 || c == 0xA0 || c == 0x1680 ||
  (0x2000 ≤ c && c ≤ 0x200A) || c == 0x2028 || c == 0x2029 || c == 0x202F || c == 0x205F ||
  c == 0x3000

/-- `[^\S\n]`: whitespace other than line feed. -/
def isBlank (c : Nat) : Bool := isSpace c && c != 10

/-- `s.lstrip()` -/
def lstrip : Str → Str
  | [] => []
  | c :: cs => if isSpace c then lstrip cs else c :: cs

/-- drop trailing elements satisfying `p` (right-to-left), structural. -/
def dropWhileEnd (p : Nat → Bool) : Str → Str
  | [] => []
  | c :: cs =>
    match dropWhileEnd p cs with
    | [] => if p c then [] else [c]
    | r => c :: r

/-- `s.rstrip()` -/
def rstrip (s : Str) : Str := dropWhileEnd isSpace s

/-- `s.strip()` -/
def strip (s : Str) : Str := rstrip (lstrip s)

/-- `s.rstrip("\r\n")` -/
def rstripCRLF (s : Str) : Str := dropWhileEnd (fun c => c == 13 || c == 10) s

/-- `re.sub(r"^[^\S\n]*", "", s)` -/
def lstripBlank : Str → Str
  | [] => []
  | c :: cs => if isBlank c then lstripBlank cs else c :: cs

/-- `re.sub(r"[^\S\n]*\Z", "", s)` (the repaired right-trim of `table_cells`) -/
def rstripBlank (s : Str) : Str := dropWhileEnd isBlank s

/-- `s.startswith(p)` -/
def startsWith : (p s : Str) → Bool
  | [], _ => true
  | _ :: _, [] => false
  | a :: p, b :: s => a == b && startsWith p s

/-- number of leading whitespace code points (`len(s) - len(s.lstrip())`) -/
def indentOf : Str → Nat
  | [] => 0
  | c :: cs => if isSpace c then indentOf cs + 1 else 0

/-- `str(n)` for a natural number (decimal digits as code points). -/
def natToStr (n : Nat) : Str := (toString n).toList.map Char.toNat

/-- string literal to code points -/
def lit (s : String) : Str := s.toList.map Char.toNat

/-- `sep.join(parts)` -/
def joinWith (sep : Str) : List Str → Str
  | [] => []
  | [x] => x
  | x :: y :: rest => x ++ sep ++ joinWith sep (y :: rest)

/-- loop of `s.replace(p, v)`: `skip` code points of the current match remain to be dropped. -/
def replaceAux (p v : Str) : Str → Nat → Str
  | [], _ => []
  | _ :: cs, skip + 1 => replaceAux p v cs skip
  | c :: cs, 0 =>
    if startsWith p (c :: cs) ∧ p ≠ [] then v ++ replaceAux p v cs (p.length - 1)
    else c :: replaceAux p v cs 0

/-- `s.replace(p, v)` for non-empty `p`: leftmost, non-overlapping, the inserted value is not
    rescanned.  (For an empty `p` Python inserts `v` between all code points; the code never
    calls it so: every pattern contains `<` and `>` or is a fixed 6-character escape.) -/
def replaceAll (p v : Str) (s : Str) : Str := replaceAux p v s 0

/-- `s.split(sep)` on a single code point. -/
def splitOnChar (sep : Nat) : Str → List Str
  | [] => [[]]
  | c :: cs =>
    if c == sep then [] :: splitOnChar sep cs
    else match splitOnChar sep cs with
      | [] => [[c]]
      | x :: xs => (c :: x) :: xs

/-- `re.split(r"\s#", s, maxsplit=…)[0]`: the prefix before the first whitespace code point
    that is immediately followed by `#`. -/
def beforeWsHash : Str → Str
  | [] => []
  | [c] => [c]
  | c :: d :: rest => if isSpace c && d == 35 then [] else c :: beforeWsHash (d :: rest)

end GV
