/-
  Model/Compiler.lean — model of python/gherkin/pickles/compiler.py (class Compiler).

  Loops become structural recursions that thread exactly the variables the code mutates:
  the background-step accumulator, `last_keyword_type`, the id counter.  `IndexError`
  (`value_cells[n]` on a short row) is `none`, never defaulted.
  Model of the repaired code: F1 (`_interpolate` treats the header literally) and
  F2 (`last_keyword_type` starts as "Unknown" in the outline path too).
-/
import GherkinVerif.Model.Ast
namespace GV

/-- `_interpolate(name, variable_cells, value_cells)`; `none` = IndexError. -/
def interp (name : Str) : (hs vs : List Str) → Option Str
  | [], _ => some name
  | _ :: _, [] => none
  | h :: hs, v :: vs => interp (replaceAll ([60] ++ h ++ [62]) v name) hs vs

def mapOpt {α β} (f : α → Option β) : List α → Option (List β)
  | [] => some []
  | a :: as => match f a, mapOpt f as with
    | some b, some bs => some (b :: bs)
    | _, _ => none

/-- `_create_pickle_arguments(step, variables, values)` -/
def pickleArg (arg : StepArg) (hs vs : List Str) : Option PArg :=
  match arg with
  | .none => some .none
  | .table t =>
    (mapOpt (fun (r : Row) => mapOpt (fun (c : Cell) => interp c.value hs vs) r.cells) t.rows).map PArg.table
  | .doc d =>
    match interp d.content hs vs with
    | none => none
    | some content =>
      match d.mediaType with
      | none => some (.doc content none)
      | some m => (interp m hs vs).map fun m' => .doc content (some m')

/-- the `last_keyword_type` update -/
def nextType (last : KType) (s : Step) : KType :=
  if s.ktype == .Conjunction then last else s.ktype

/-- loop over (background or plain-scenario) steps through `_pickle_step`:
    no interpolation, one id per step. -/
def plainSteps : List Step → KType → Nat → Option (List PickleStep × KType × Nat)
  | [], last, n => some ([], last, n)
  | s :: ss, last, n =>
    let ty := nextType last s
    match pickleArg s.arg [] [] with
    | none => none
    | some arg =>
      let ps : PickleStep := { astNodeIds := [s.id], id := n, type := ty, text := s.text, arg := arg }
      match plainSteps ss ty (n + 1) with
      | none => none
      | some (rest, last', n') => some (ps :: rest, last', n')

/-- loop over an outline's own steps for one example row. -/
def outlineSteps (rowId : Nat) (hs vs : List Str) :
    List Step → KType → Nat → Option (List PickleStep × KType × Nat)
  | [], last, n => some ([], last, n)
  | s :: ss, last, n =>
    let ty := nextType last s
    match interp s.text hs vs, pickleArg s.arg hs vs with
    | some text, some arg =>
      let ps : PickleStep := { astNodeIds := [s.id, rowId], id := n, type := ty, text := text, arg := arg }
      match outlineSteps rowId hs vs ss ty (n + 1) with
      | none => none
      | some (rest, last', n') => some (ps :: rest, last', n')
    | _, _ => none

def pickleTags (tags : List Tag) : List PickleTag := tags.map fun t => ⟨t.id, t.name⟩

/-- `_compile_scenario` -/
def compileScenario (uri language : Str) (inherited : List Tag) (bg : List Step) (sc : Scenario)
    (n : Nat) : Option (Pickle × Nat) :=
  let steps? := if sc.steps.isEmpty then some ([], KType.Unknown, n)
                else plainSteps (bg ++ sc.steps) .Unknown n
  match steps? with
  | none => none
  | some (steps, _, n1) =>
    some ({ astNodeIds := [sc.id], id := n1, tags := pickleTags (inherited ++ sc.tags),
            name := sc.name, language := language, steps := steps, uri := uri }, n1 + 1)

/-- one iteration of `for values in examples["tableBody"]` -/
def compileRow (uri language : Str) (inherited : List Tag) (bg : List Step) (sc : Scenario)
    (ex : Examples) (header : Row) (row : Row) (n : Nat) : Option (Pickle × Nat) :=
  let hs := header.cells.map (·.value)
  let vs := row.cells.map (·.value)
  let bg? := if sc.steps.isEmpty then some ([], KType.Unknown, n) else plainSteps bg .Unknown n
  match bg? with
  | none => none
  | some (bgSteps, last, n1) =>
    match outlineSteps row.id hs vs sc.steps last n1 with
    | none => none
    | some (own, _, n2) =>
      match interp sc.name hs vs with
      | none => none
      | some name =>
        some ({ astNodeIds := [sc.id, row.id], id := n2,
                tags := pickleTags (inherited ++ sc.tags ++ ex.tags), name := name,
                language := language, steps := bgSteps ++ own, uri := uri }, n2 + 1)

def compileRows (uri language : Str) (inherited : List Tag) (bg : List Step) (sc : Scenario)
    (ex : Examples) (header : Row) : List Row → Nat → Option (List Pickle × Nat)
  | [], n => some ([], n)
  | r :: rs, n =>
    match compileRow uri language inherited bg sc ex header r n with
    | none => none
    | some (p, n1) =>
      match compileRows uri language inherited bg sc ex header rs n1 with
      | none => none
      | some (ps, n2) => some (p :: ps, n2)

/-- `_compile_scenario_outline`: loop over examples blocks. -/
def compileOutline (uri language : Str) (inherited : List Tag) (bg : List Step) (sc : Scenario) :
    List Examples → Nat → Option (List Pickle × Nat)
  | [], n => some ([], n)
  | ex :: exs, n =>
    let here? := match ex.header with
      | none => some ([], n)                 -- `if "tableHeader" not in examples: continue`
      | some h => compileRows uri language inherited bg sc ex h ex.body n
    match here? with
    | none => none
    | some (ps, n1) =>
      match compileOutline uri language inherited bg sc exs n1 with
      | none => none
      | some (qs, n2) => some (ps ++ qs, n2)

/-- the `if not scenario["examples"]` dispatch -/
def compileScenarioDef (uri language : Str) (inherited : List Tag) (bg : List Step) (sc : Scenario)
    (n : Nat) : Option (List Pickle × Nat) :=
  if sc.examples.isEmpty then
    (compileScenario uri language inherited bg sc n).map fun (p, n') => ([p], n')
  else compileOutline uri language inherited bg sc sc.examples n

/-- loop of `_compile_rule` over the rule's children; `bg` is the rule-local accumulator. -/
def compileRuleChildren (uri language : Str) (tags : List Tag) :
    List RuleChild → (bg : List Step) → Nat → Option (List Pickle × Nat)
  | [], _, n => some ([], n)
  | .background b :: cs, bg, n => compileRuleChildren uri language tags cs (bg ++ b.steps) n
  | .scenario sc :: cs, bg, n =>
    match compileScenarioDef uri language tags bg sc n with
    | none => none
    | some (ps, n1) =>
      match compileRuleChildren uri language tags cs bg n1 with
      | none => none
      | some (qs, n2) => some (ps ++ qs, n2)

/-- loop of `compile` over the feature's children; `bg` is the feature-level accumulator
    (a rule receives a *copy*: its additions do not flow back). -/
def compileFeatureChildren (uri language : Str) (ftags : List Tag) :
    List FeatureChild → (bg : List Step) → Nat → Option (List Pickle × Nat)
  | [], _, n => some ([], n)
  | .background b :: cs, bg, n => compileFeatureChildren uri language ftags cs (bg ++ b.steps) n
  | .rule r :: cs, bg, n =>
    match compileRuleChildren uri language (ftags ++ r.tags) r.children bg n with
    | none => none
    | some (ps, n1) =>
      match compileFeatureChildren uri language ftags cs bg n1 with
      | none => none
      | some (qs, n2) => some (ps ++ qs, n2)
  | .scenario sc :: cs, bg, n =>
    match compileScenarioDef uri language ftags bg sc n with
    | none => none
    | some (ps, n1) =>
      match compileFeatureChildren uri language ftags cs bg n1 with
      | none => none
      | some (qs, n2) => some (ps ++ qs, n2)

/-- `Compiler.compile(gherkin_document)`; `none` = IndexError from a ragged examples table. -/
def compile (uri : Str) (doc : Doc) (n : Nat) : Option (List Pickle × Nat) :=
  match doc.feature with
  | none => some ([], n)
  | some f => compileFeatureChildren uri f.language f.tags f.children [] n

end GV
