/-
  Model/Parser.lean — model of the hand-written glue of python/gherkin/parser.py (class Parser)
  around a *table* of states.  The table itself is not transcribed: `Gen/ParserTable.lean` is
  regenerated from the current parser.py on every run and this interpreter runs it.

  Imperative level: scanner position, FIFO token queue, look-ahead that reads tokens and
  re-appends them to the queue, error list with de-duplication and cap, both error modes.
  `calls` counts invocations of `TokenMatcher.match_*` (C01's linear-work bound).
-/
import GherkinVerif.Model.Matcher
import GherkinVerif.Model.Builder
namespace GV

inductive Prod
  | start (r : RuleType)
  | end_ (r : RuleType)
  | build
deriving DecidableEq, Repr, Inhabited

structure Branch where
  kind : Kind
  guard : Option Nat      -- index of the look-ahead guarding this branch
  prods : List Prod
  target : Nat
deriving DecidableEq, Repr, Inhabited

structure StateRow where
  id : Nat
  comment : String
  branches : List Branch
  expected : List String
  errTarget : Nat
deriving Repr, Inhabited

structure LookAhead where
  expected : List Kind
  skip : List Kind
deriving DecidableEq, Repr, Inhabited

structure Table where
  rows : List StateRow
  lookaheads : List LookAhead
  startRule : RuleType
  errorCap : Nat
deriving Repr, Inhabited

def Table.row? (T : Table) (s : Nat) : Option StateRow := T.rows.find? (·.id == s)

structure Ctx where
  lines : List Str
  lineNo : Nat := 0
  queue : List Token := []
  errors : List PErr := []
  μ : MState
  β : BState := {}
  ids : Nat := 0
  calls : Nat := 0
  builds : List Token := []     -- ghost: every token handed to `build`, in order (C18)
  reads : List Nat := []        -- ghost: line numbers of the tokens the main loop read, in order
  unexpected : List Nat := []   -- ghost: line numbers of the tokens that reached an error tail
deriving Inhabited

inductive Abort
  | single (e : PErr)            -- stop-at-first-error: the exception itself
  | composite (es : List PErr)   -- CompositeParserException
  | crash (what : String)        -- any other Python exception
  | fuel                         -- the model ran out of fuel (excluded by C01_parse_terminates)
deriving Repr, Inhabited

abbrev PM := ExceptT Abort (StateM Ctx)

/-- `TokenScanner.read()` / `read_token` -/
def readToken : PM Token := do
  let ctx ← get
  match ctx.queue with
  | t :: q => set { ctx with queue := q }; pure t
  | [] =>
    let n := ctx.lineNo + 1
    match ctx.lines with
    | l :: ls => set { ctx with lines := ls, lineNo := n }; pure { line := some l, lineNo := n }
    | [] => set { ctx with lineNo := n }; pure { line := none, lineNo := n }

/-- `add_error` -/
def addError (cap : Nat) (e : PErr) : PM Unit := do
  let ctx ← get
  if ctx.errors.any (fun e' => e'.message == e.message) then pure ()
  else
    let es := ctx.errors ++ [e]
    set { ctx with errors := es }
    if es.length > cap then throw (.composite es)

/-- `Parser.match_<k>(context, token)` = eof guard + `handle_external_error`. -/
def matchP (D : List Dialect) (cap : Nat) (stop : Bool) (k : Kind) (t : Token) : PM (Bool × Token) := do
  let ctx ← get
  let (out, invoked) := matchTok D k ctx.μ t
  set { ctx with μ := out.μ, calls := ctx.calls + (if invoked then 1 else 0) }
  match out.res with
  | .matched => pure (true, out.tok)
  | .no => pure (false, out.tok)
  | .raised e =>
    if stop then throw (.single e)
    else do addError cap e; pure (false, out.tok)

def liftB (cap : Nat) (stop : Bool) (r : Except BErr Unit) : PM Unit :=
  match r with
  | .ok () => pure ()
  | .error (.crash w) => throw (.crash w)
  | .error (.ast e) => if stop then throw (.single e) else addError cap e

/-- `start_rule / end_rule / build` through `handle_ast_error` -/
def runProd (cap : Nat) (stop : Bool) (t : Token) (p : Prod) : PM Unit := do
  let ctx ← get
  match p with
  | .start r => set { ctx with β := ctx.β.startRule r }
  | .end_ _ =>
    let (r, β', n') := ctx.β.endRule ctx.ids
    set { ctx with β := β', ids := n' }
    liftB cap stop r
  | .build =>
    match ctx.β.build t with
    | .ok β' => set { ctx with β := β', builds := ctx.builds ++ [t] }
    | .error e => liftB cap stop (.error e)

def runProds (cap : Nat) (stop : Bool) (t : Token) : List Prod → PM Unit
  | [] => pure ()
  | p :: ps => do runProd cap stop t p; runProds cap stop t ps

/-- first of `ks` that matches (short-circuit `or`), threading the token. -/
def matchAny (D : List Dialect) (cap : Nat) (stop : Bool) : List Kind → Token → PM (Bool × Token)
  | [], t => pure (false, t)
  | k :: ks, t => do
    let (m, t') ← matchP D cap stop k t
    if m then pure (true, t') else matchAny D cap stop ks t'

/-- the `while True` loop of `lookahead_N`; returns (match, tokens read, in order). -/
def lookaheadLoop (D : List Dialect) (cap : Nat) (stop : Bool) (la : LookAhead) :
    Nat → List Token → PM (Bool × List Token)
  | 0, _ => throw .fuel
  | fuel + 1, acc => do
    let t ← readToken
    let (m, t1) ← matchAny D cap stop la.expected t
    if m then pure (true, acc ++ [t1])
    else
      let (s, t2) ← matchAny D cap stop la.skip t1
      if s then lookaheadLoop D cap stop la fuel (acc ++ [t2])
      else pure (false, acc ++ [t2])

/-- `lookahead_N(context, currentToken)` -/
def lookahead (D : List Dialect) (cap : Nat) (stop : Bool) (la : LookAhead) : PM Bool := do
  let ctx ← get
  let (m, read) ← lookaheadLoop D cap stop la (ctx.queue.length + ctx.lines.length + 2) []
  modify fun c => { c with queue := c.queue ++ read }
  pure m

def unexpectedErr (row : StateRow) (t : Token) : PErr :=
  let exp := joinWith (lit ", ") (row.expected.map lit)
  match t.line with
  | none => ⟨.unexpectedEOF, t.loc, lit "unexpected end of file, expected: " ++ exp⟩
  | some l =>
    let loc : Loc := match t.col with
      | some c => if c == 0 then ⟨t.lineNo, some (lineIndent l + 1)⟩ else t.loc
      | none => ⟨t.lineNo, some (lineIndent l + 1)⟩
    ⟨.unexpectedToken, loc, lit "expected: " ++ exp ++ lit ", got '" ++ strip (trimmed l) ++ lit "'"⟩

/-- body of `match_token_at_N`: ordered tests, optional guard, productions, target. -/
def tryBranches (D : List Dialect) (T : Table) (stop : Bool) (row : StateRow) :
    List Branch → Token → PM Nat
  | [], t => do
    let e := unexpectedErr row t
    modify fun c => { c with unexpected := c.unexpected ++ [t.lineNo] }
    if stop then throw (.single e)
    else do addError T.errorCap e; pure row.errTarget
  | b :: bs, t => do
    let (m, t') ← matchP D T.errorCap stop b.kind t
    if m then
      let ok ← match b.guard with
        | none => pure true
        | some i =>
          match T.lookaheads[i]? with
          | some la => lookahead D T.errorCap stop la
          | none => throw (.crash "unknown look-ahead")
      if ok then do
        runProds T.errorCap stop t' b.prods
        pure b.target
      else tryBranches D T stop row bs t'
    else tryBranches D T stop row bs t'

/-- `match_token(state, token, context)` -/
def matchToken (D : List Dialect) (T : Table) (stop : Bool) (state : Nat) (t : Token) : PM Nat :=
  match T.row? state with
  | some row => tryBranches D T stop row row.branches t
  | none => throw (.crash s!"RuntimeError: Unknown state: {state}")

/-- the `while True` loop of `parse` -/
def parseLoop (D : List Dialect) (T : Table) (stop : Bool) : Nat → Nat → PM Nat
  | 0, _ => throw .fuel
  | fuel + 1, state => do
    let t ← readToken
    modify fun c => { c with reads := c.reads ++ [t.lineNo] }
    let state' ← matchToken D T stop state t
    if t.eof then pure state' else parseLoop D T stop fuel state'

inductive Outcome
  | ok (d : Doc)
  | rejected (es : List PErr) (composite : Bool)   -- composite=false: a bare ParserException (stop mode)
  | crash (what : String)
  | fuel
deriving Repr, Inhabited

/-- split source text into physical lines: each ends with LF except possibly the last. -/
def splitLines : Str → List Str
  | [] => []
  | c :: cs =>
    if c == 10 then [10] :: splitLines cs
    else match splitLines cs with
      | [] => [[c]]
      | l :: ls => (c :: l) :: ls   -- `l` is the rest of the current physical line

/-- body of `Parser.parse` after the scanner/matcher have been chosen. -/
def parseBody (D : List Dialect) (T : Table) (stop : Bool) (nLines : Nat) : PM Doc := do
  modify fun c => { c with β := c.β.startRule T.startRule }
  let _ ← parseLoop D T stop (nLines + 2) 0
  runProd T.errorCap stop default (.end_ T.startRule)
  let ctx ← get
  if !ctx.errors.isEmpty then throw (.composite ctx.errors)
  match ctx.β.result with
  | .ok (some d) => pure d
  | .ok none => throw (.crash "get_result returned None")
  | .error (.crash w) => throw (.crash w)
  | .error (.ast e) => throw (.single e)

/-- `Parser.parse(text, matcher)` with an existing matcher state and id counter.
    Returns the outcome and the final context (matcher state, counter, ghost data). -/
def parseWith (D : List Dialect) (T : Table) (stop : Bool) (μ : MState) (ids : Nat) (src : Str) :
    Outcome × Ctx :=
  let lines := splitLines src
  let ctx0 : Ctx := { lines := lines, μ := μ.reset D, β := BState.reset, ids := ids }
  match (parseBody D T stop lines.length).run.run ctx0 with
  | (.ok d, ctx) => (.ok d, ctx)
  | (.error (.single e), ctx) => (.rejected [e] false, ctx)
  | (.error (.composite es), ctx) => (.rejected es true, ctx)
  | (.error (.crash w), ctx) => (.crash w, ctx)
  | (.error .fuel, ctx) => (.fuel, ctx)

end GV
