/-
  Model/Abstract.lean — the abstract (token-kind) level of the parser model.

  A line is represented by its *intrinsic kind* only.  Which `match_<K>` tests it passes is
  the fallback chain: its own kind; a (valid) language header also reads as a comment; every
  line except end-of-file also reads as free text (`match_Other` always succeeds).  Look-ahead
  is a pure peek at the future kinds.  This level decides acceptance and the production
  events; it is what C02/C14/C18's table facts are stated on.  It is tied to the real
  `Parser.match_token` by the `table.step` / `events` correspondence streams (stub matcher).
-/
import GherkinVerif.Model.Parser
namespace GV

/-- the tests a token of intrinsic kind `k` passes, in no particular order -/
def chain (k : Kind) : List Kind :=
  [k] ++ (if k = .Language then [.Comment] else []) ++ (if k = .EOF ∨ k = .Other then [] else [.Other])

/-- a token of intrinsic kind `k` passes test `K` -/
def passes (k K : Kind) : Bool := (chain k).contains K

/-- `lookahead_N` on the future kinds: true iff an expected kind is reached through skipped kinds -/
def peekAbs (la : LookAhead) : List Kind → Bool
  | [] => false
  | k :: ks =>
    if la.expected.any (passes k) then true
    else if la.skip.any (passes k) then peekAbs la ks
    else false

def guardOkAbs (T : Table) (b : Branch) (future : List Kind) : Bool :=
  match b.guard with
  | none => true
  | some i => match T.lookaheads[i]? with
    | some la => peekAbs la future
    | none => false

/-- first branch whose test passes and whose guard holds -/
def pickBranch (T : Table) (k : Kind) (future : List Kind) : List Branch → Option Branch
  | [] => none
  | b :: bs => if passes k b.kind && guardOkAbs T b future then some b else pickBranch T k future bs

/-- one step of `match_token`: `none` = unexpected token (error tail) -/
def stepAbs (T : Table) (s : Nat) (k : Kind) (future : List Kind) : Option Branch :=
  match T.row? s with
  | none => none
  | some row => pickBranch T k future row.branches

inductive Ev
  | start (r : RuleType)
  | end_ (r : RuleType)
  | build (k : Kind)        -- the kind the token was *read as*
deriving DecidableEq, Repr

def prodEvents (k : Kind) : List Prod → List Ev
  | [] => []
  | .start r :: ps => .start r :: prodEvents k ps
  | .end_ r :: ps => .end_ r :: prodEvents k ps
  | .build :: ps => .build k :: prodEvents k ps

/-- run the table on a kind sequence (which should end with `EOF`), stop-at-first-error style:
    `none` as soon as a token is unexpected; otherwise the final state and all events. -/
def runAbs (T : Table) : Nat → List Kind → Option (Nat × List Ev)
  | s, [] => some (s, [])
  | s, k :: ks =>
    match stepAbs T s k ks with
    | none => none
    | some b =>
      match runAbs T b.target ks with
      | none => none
      | some (s', evs) => some (s', prodEvents b.kind b.prods ++ evs)

/-- a document (kinds of its lines, no `EOF` inside) is accepted -/
def acceptsAbs (T : Table) (ks : List Kind) : Bool := (runAbs T 0 (ks ++ [.EOF])).isSome

/-- events of an accepted document, bracketed by the start/end of the start rule as `parse` does -/
def eventsAbs (T : Table) (ks : List Kind) : Option (List Ev) :=
  (runAbs T 0 (ks ++ [.EOF])).map fun r => [.start T.startRule] ++ r.2 ++ [.end_ T.startRule]

/-- collecting mode: an unexpected token is dropped and the state kept (`errTarget`);
    returns the indices (0-based) of the unexpected tokens. -/
def errorsAbs (T : Table) : Nat → Nat → List Kind → List Nat
  | _, _, [] => []
  | s, i, k :: ks =>
    match stepAbs T s k ks with
    | some b => errorsAbs T b.target (i + 1) ks
    | none =>
      let s' := match T.row? s with | some row => row.errTarget | none => s
      i :: errorsAbs T s' (i + 1) ks

/-- collecting mode: the state in which each token is read, and the index of the branch taken
    (`none` = error tail) — used for coverage measurement and to aim searches. -/
def traceAbs (T : Table) : Nat → List Kind → List (Nat × Option Nat)
  | _, [] => []
  | s, k :: ks =>
    match T.row? s with
    | none => [(s, none)]
    | some row =>
      match pickBranch T k ks row.branches with
      | some b => (s, row.branches.findIdx? (· == b)) :: traceAbs T b.target ks
      | none => (s, none) :: traceAbs T row.errTarget ks

end GV
