/-
  Model/Md.lean — model of python/gherkin/token_matcher_markdown.py
  (GherkinInMarkdownTokenMatcher), line-level matching only: title lines, steps, table rows,
  tags.  Each regular expression the code uses is modelled as an explicit function that follows
  the backtracking order of `re` (greedy quantifiers first, alternatives in list order).
-/
import GherkinVerif.Model.Matcher
namespace GV.Md

/-- number of leading `#` -/
def hashes : Str → Nat
  | 35 :: cs => hashes cs + 1
  | _ => 0

/-- `^(#{1,6}\s)` on `s`: length of group 1.  `#{1,6}` must be followed by a whitespace code
    point, so only "all leading hashes, at most six" can succeed. -/
def headerPrefix (s : Str) : Option Nat :=
  let n := hashes s
  if 1 ≤ n ∧ n ≤ 6 then
    match s.drop n with
    | c :: _ => if isSpace c then some (n + 1) else none
    | [] => none
  else none

/-- first keyword (list order = alternation order) such that `rest` starts with it + suffix -/
def firstKeyword (kws : List Str) (suffix rest : Str) : Option Str :=
  kws.find? fun k => startsWith (k ++ suffix) rest

/-- `(.*)`: up to the first line feed -/
def dotStar (s : Str) : Str := s.takeWhile (· != 10)

structure TitleMatch where
  prefixLen : Nat
  keyword : Str
  text : Str
deriving Repr, DecidableEq

/-- `^(\s*[*+-]\s*)(kw…)(.*)`: `s` is the trimmed line, so the leading `\s*` is empty; the
    trailing `\s*` is greedy and backtracks from the whole whitespace run down to nothing. -/
def bulletMatch (kws : List Str) (s : Str) : Option TitleMatch :=
  match s with
  | b :: rest =>
    if b == 42 || b == 43 || b == 45 then
      let w := indentOf rest
      let rec try_ : Nat → Option TitleMatch
        | 0 =>
          (firstKeyword kws [] rest).map fun k => ⟨1, k, strip (dotStar (rest.drop k.length))⟩
        | j + 1 =>
          match firstKeyword kws [] (rest.drop (j + 1)) with
          | some k => some ⟨j + 2, k, strip (dotStar (rest.drop (j + 1 + k.length)))⟩
          | none => try_ j
      try_ w
    else none
  | [] => none

/-- `^(#{1,6}\s)(kw…):(.*)` on the trimmed line -/
def headerMatch (kws : List Str) (s : Str) : Option TitleMatch :=
  match headerPrefix s with
  | none => none
  | some p =>
    (firstKeyword kws [58] (s.drop p)).map fun k => ⟨p, k, strip (dotStar (s.drop (p + k.length + 1)))⟩

/-- `_match_title_line(prefix, keywords, suffix, token, type)` -/
def matchTitle (μ : MState) (t : Token) (l : Str) (ty : Kind) (m : Option TitleMatch) : Option Token :=
  m.map fun tm =>
    setMatched μ t ty (text := some tm.text) (keyword := some tm.keyword) (indent := some (lineIndent l + tm.prefixLen))

/-- `^:?-+:?$` (`$` also before a final line feed) -/
def isSeparatorCell (s : Str) : Bool :=
  let s1 := match s with | 58 :: r => r | _ => s
  let dashes := s1.takeWhile (· == 45)
  let r := s1.dropWhile (· == 45)
  let r1 := match r with | 58 :: r' => r' | _ => r
  !dashes.isEmpty && (r1 == [] || r1 == [10])

/-- `^\s\s\s?\s?\s?\|` on the full line: 2–5 whitespace code points, then `|` -/
def rowIndentOk (l : Str) : Bool :=
  let w := indentOf l
  2 ≤ w && w ≤ 5 && (l.drop w).head? == some 124

/-- all non-overlapping matches of `` `(@[^`]+)` `` in `s`, left to right: (start offset, group 1).
    `skip` code points of the current match remain to be passed over. -/
def tagSpansAux : Str → (pos skip : Nat) → List (Nat × Str)
  | [], _, _ => []
  | _ :: cs, pos, skip + 1 => tagSpansAux cs (pos + 1) skip
  | c :: cs, pos, 0 =>
    if c == 96 then
      match cs with
      | 64 :: rest =>
        let body := rest.takeWhile (· != 96)
        let after := rest.dropWhile (· != 96)
        if !body.isEmpty && after.head? == some 96 then
          (pos, 64 :: body) :: tagSpansAux cs (pos + 1) (body.length + 2)
        else tagSpansAux cs (pos + 1) 0
      | _ => tagSpansAux cs (pos + 1) 0
    else tagSpansAux cs (pos + 1) 0

def tagSpans (s : Str) : List (Nat × Str) := tagSpansAux s 0 0

/-- `GherkinInMarkdownTokenMatcher.match_<k>(token)` for the four line kinds C19 speaks about
    (and the title kinds); other kinds are not modelled (`none`). -/
def matchLine (k : Kind) (μ : MState) (t : Token) (l : Str) : Option (Option Token) :=
  let s := trimmed l
  match k with
  | .FeatureLine => some (matchTitle μ t l .FeatureLine (headerMatch μ.dialect.feature s))
  | .RuleLine => some (matchTitle μ t l .RuleLine (headerMatch μ.dialect.rule s))
  | .BackgroundLine => some (matchTitle μ t l .BackgroundLine (headerMatch μ.dialect.background s))
  | .ExamplesLine => some (matchTitle μ t l .ExamplesLine (headerMatch μ.dialect.examples s))
  | .ScenarioLine =>
    some ((matchTitle μ t l .ScenarioLine (headerMatch μ.dialect.scenario s)).orElse fun _ =>
      matchTitle μ t l .ScenarioLine (headerMatch μ.dialect.scenarioOutline s))
  | .StepLine => some (matchTitle μ t l .StepLine (bulletMatch μ.dialect.stepKeywords s))
  | .TableRow =>
    if rowIndentOk l then
      let cells := tableCells l
      if cells.any (fun c => isSeparatorCell c.2) then some none
      else some (some (setMatched μ t .TableRow (keyword := some [124]) (items := cells)))
    else some none
  | .TagLine =>
    let tags := (tagSpans s).map fun (st, tx) => (lineIndent l + st + 2, tx)
    if tags.isEmpty then some none else some (some (setMatched μ t .TagLine (items := tags)))
  | _ => none

end GV.Md
