/-
  Model/Json.lean — a minimal JSON value, its printer, and the message encodings
  (`toJson`) of documents, pickles, errors and tokens exactly as the Python dictionaries
  would serialise (`reject_nones`: absent optional fields are omitted, never null).
-/
import GherkinVerif.Model.Ast
namespace GV

inductive J
  | null
  | bool (b : Bool)
  | num (n : Nat)
  | str (s : Str)
  | arr (xs : List J)
  | obj (kvs : List (String × J))
deriving Inhabited, Repr

def hex4 (n : Nat) : String :=
  let d (k : Nat) : Char := "0123456789abcdef".toList.getD (k % 16) '0'
  String.ofList [d (n / 4096), d (n / 256), d (n / 16), d n]

/-- JSON string escape of one code point (non-BMP as a surrogate pair, lone surrogates kept). -/
def escCp (c : Nat) : String :=
  if c == 34 then "\\\"" else if c == 92 then "\\\\"
  else if 32 ≤ c && c < 127 then String.singleton (Char.ofNat c)
  else if c < 0x10000 then "\\u" ++ hex4 c
  else
    let v := c - 0x10000
    "\\u" ++ hex4 (0xD800 + v / 1024) ++ "\\u" ++ hex4 (0xDC00 + v % 1024)

def escStr (s : Str) : String := "\"" ++ String.join (s.map escCp) ++ "\""

partial def J.render : J → String
  | .null => "null"
  | .bool b => if b then "true" else "false"
  | .num n => toString n
  | .str s => escStr s
  | .arr xs => "[" ++ ",".intercalate (xs.map J.render) ++ "]"
  | .obj kvs => "{" ++ ",".intercalate (kvs.map fun (k, v) => "\"" ++ k ++ "\":" ++ v.render) ++ "}"

def J.ofOpt (k : String) : Option J → List (String × J)
  | some j => [(k, j)]
  | none => []

def idJ (n : Nat) : J := .str (natToStr n)

def Loc.toJ (l : Loc) : J :=
  .obj ([("line", .num l.line)] ++ J.ofOpt "column" (l.col.map J.num))

def Tag.toJ (t : Tag) : J := .obj [("id", idJ t.id), ("location", t.loc.toJ), ("name", .str t.name)]
def Cell.toJ (c : Cell) : J := .obj [("location", c.loc.toJ), ("value", .str c.value)]
def Row.toJ (r : Row) : J :=
  .obj [("id", idJ r.id), ("location", r.loc.toJ), ("cells", .arr (r.cells.map Cell.toJ))]
def DataTable.toJ (t : DataTable) : J :=
  .obj [("location", t.loc.toJ), ("rows", .arr (t.rows.map Row.toJ))]
def DocString.toJ (d : DocString) : J :=
  .obj ([("location", d.loc.toJ), ("content", .str d.content), ("delimiter", .str d.delimiter)] ++
        J.ofOpt "mediaType" (d.mediaType.map J.str))
def Step.toJ (s : Step) : J :=
  .obj ([("id", idJ s.id), ("location", s.loc.toJ), ("keyword", .str s.keyword),
         ("keywordType", .str (lit s.ktype.name)), ("text", .str s.text)] ++
        (match s.arg with
         | .none => []
         | .table t => [("dataTable", t.toJ)]
         | .doc d => [("docString", d.toJ)]))
def Background.toJ (b : Background) : J :=
  .obj [("id", idJ b.id), ("location", b.loc.toJ), ("keyword", .str b.keyword), ("name", .str b.name),
        ("description", .str b.description), ("steps", .arr (b.steps.map Step.toJ))]
def Examples.toJ (e : Examples) : J :=
  .obj ([("id", idJ e.id), ("tags", .arr (e.tags.map Tag.toJ)), ("location", e.loc.toJ),
         ("keyword", .str e.keyword), ("name", .str e.name), ("description", .str e.description)] ++
        J.ofOpt "tableHeader" (e.header.map Row.toJ) ++ [("tableBody", .arr (e.body.map Row.toJ))])
def Scenario.toJ (s : Scenario) : J :=
  .obj [("id", idJ s.id), ("tags", .arr (s.tags.map Tag.toJ)), ("location", s.loc.toJ),
        ("keyword", .str s.keyword), ("name", .str s.name), ("description", .str s.description),
        ("steps", .arr (s.steps.map Step.toJ)), ("examples", .arr (s.examples.map Examples.toJ))]
def RuleChild.toJ : RuleChild → J
  | .background b => .obj [("background", b.toJ)]
  | .scenario s => .obj [("scenario", s.toJ)]
def Rule.toJ (r : Rule) : J :=
  .obj [("id", idJ r.id), ("tags", .arr (r.tags.map Tag.toJ)), ("location", r.loc.toJ),
        ("keyword", .str r.keyword), ("name", .str r.name), ("description", .str r.description),
        ("children", .arr (r.children.map RuleChild.toJ))]
def FeatureChild.toJ : FeatureChild → J
  | .background b => .obj [("background", b.toJ)]
  | .scenario s => .obj [("scenario", s.toJ)]
  | .rule r => .obj [("rule", r.toJ)]
def Feature.toJ (f : Feature) : J :=
  .obj [("tags", .arr (f.tags.map Tag.toJ)), ("location", f.loc.toJ), ("language", .str f.language),
        ("keyword", .str f.keyword), ("name", .str f.name), ("description", .str f.description),
        ("children", .arr (f.children.map FeatureChild.toJ))]
def Comment.toJ (c : Comment) : J := .obj [("location", c.loc.toJ), ("text", .str c.text)]
def Doc.toJ (d : Doc) : J :=
  .obj (J.ofOpt "feature" (d.feature.map Feature.toJ) ++ [("comments", .arr (d.comments.map Comment.toJ))])

def PickleTag.toJ (t : PickleTag) : J := .obj [("astNodeId", idJ t.astNodeId), ("name", .str t.name)]
def PArg.toJ : PArg → Option J
  | .none => Option.none
  | .table rows => some (.obj [("dataTable", .obj [("rows", .arr (rows.map fun r =>
      .obj [("cells", .arr (r.map fun v => .obj [("value", .str v)]))]))])])
  | .doc c m => some (.obj [("docString", .obj ([("content", .str c)] ++ J.ofOpt "mediaType" (m.map J.str)))])
def PickleStep.toJ (s : PickleStep) : J :=
  .obj ([("astNodeIds", .arr (s.astNodeIds.map idJ)), ("id", idJ s.id), ("type", .str (lit s.type.name)),
         ("text", .str s.text)] ++ J.ofOpt "argument" s.arg.toJ)
def Pickle.toJ (p : Pickle) : J :=
  .obj [("astNodeIds", .arr (p.astNodeIds.map idJ)), ("id", idJ p.id), ("tags", .arr (p.tags.map PickleTag.toJ)),
        ("name", .str p.name), ("language", .str p.language), ("steps", .arr (p.steps.map PickleStep.toJ)),
        ("uri", .str p.uri)]

def ErrKind.name : ErrKind → String
  | .unexpectedToken => "UnexpectedTokenException" | .unexpectedEOF => "UnexpectedEOFException"
  | .tagWhitespace => "ParserException" | .noSuchLanguage => "NoSuchLanguageException"
  | .raggedTable => "AstBuilderException"

def PErr.toJ (e : PErr) : J :=
  .obj [("type", .str (lit e.kind.name)), ("location", e.loc.toJ), ("message", .str e.message)]

def optStrJ : Option Str → J
  | some s => .str s
  | none => .null

def Token.toJ (t : Token) : J :=
  .obj [("eof", .bool t.eof), ("line", .num t.lineNo), ("column", match t.col with | some c => .num c | none => .null),
        ("type", match t.mtype with | some k => .str (lit k.name) | none => .null),
        ("text", optStrJ t.text), ("keyword", optStrJ t.keyword),
        ("keywordType", match t.ktype with | some k => .str (lit k.name) | none => .null),
        ("indent", .num t.indent),
        ("items", .arr (t.items.map fun it => .obj [("column", .num it.1), ("text", .str it.2)])),
        ("dialect", .str t.dialect)]

end GV
