/-
  Model/Stream.lean — model of python/gherkin/stream/gherkin_events.py (GherkinEvents.enum)
  and stream/id_generator.py.  The stream owns one id counter shared by its parser's builder
  and its compiler; every `parse` call makes a fresh default-dialect ("en") token matcher.
-/
import GherkinVerif.Model.Parser
import GherkinVerif.Model.Compiler
import GherkinVerif.Model.Json
namespace GV

structure Opts where
  printSource : Bool
  printAst : Bool
  printPickles : Bool
deriving Repr, Inhabited, DecidableEq

inductive Envelope
  | source (uri data : Str)
  | gherkinDocument (uri : Str) (d : Doc)
  | pickle (p : Pickle)
  | parseError (uri : Str) (e : PErr)
  | crash (what : String)      -- a non-ParserError exception escaping `enum`
deriving Repr, Inhabited

def gherkinMediaType : Str := lit "text/x.cucumber.gherkin+plain"

/-- `GherkinEvents.enum(source_event)`: envelopes and the id counter afterwards. -/
def streamEnum (D : List Dialect) (T : Table) (opts : Opts) (ids : Nat) (uri data : Str) :
    List Envelope × Nat :=
  match MState.init D (lit "en") with
  | none => ([.crash "no default dialect"], ids)
  | some μ =>
    let (out, ctx) := parseWith D T false μ ids data
    match out with
    | .ok d =>
      let pre := (if opts.printSource then [Envelope.source uri data] else []) ++
                 (if opts.printAst then [Envelope.gherkinDocument uri d] else [])
      if opts.printPickles then
        match compile uri d ctx.ids with
        | some (ps, n') => (pre ++ ps.map Envelope.pickle, n')
        | none => (pre ++ [.crash "IndexError in compile"], ctx.ids)
      else (pre, ctx.ids)
    | .rejected es _ => (es.map (Envelope.parseError uri), ctx.ids)
    | .crash w => ([.crash w], ctx.ids)
    | .fuel => ([.crash "fuel"], ctx.ids)

def Envelope.toJ : Envelope → J
  | .source uri data => .obj [("source", .obj [("uri", .str uri), ("data", .str data), ("mediaType", .str gherkinMediaType)])]
  | .gherkinDocument uri d =>
    (match d.toJ with
     | .obj kvs => .obj [("gherkinDocument", .obj (kvs ++ [("uri", .str uri)]))]
     | j => j)
  | .pickle p => .obj [("pickle", p.toJ)]
  | .parseError uri e =>
    .obj [("parseError", .obj [("source", .obj [("uri", .str uri), ("location", e.loc.toJ)]), ("message", .str e.message)])]
  | .crash w => .obj [("crash", .str (lit w))]

/-- a sequence of sources through one stream -/
def streamAll (D : List Dialect) (T : Table) (opts : Opts) : List (Str × Str) → Nat → List (List Envelope)
  | [], _ => []
  | (uri, data) :: rest, ids =>
    let (es, ids') := streamEnum D T opts ids uri data
    es :: streamAll D T opts rest ids'

/-- `GherkinEvents.enum` when the stream's parser has been switched to `stop_at_first_error`
    (`events.parser.stop_at_first_error = True`; the attribute is public): the same function with the
    parser run in mode `stop`.  `streamEnum` is the instance `stop = false` (`streamEnumMode_false`). -/
def streamEnumMode (D : List Dialect) (T : Table) (stop : Bool) (opts : Opts) (ids : Nat) (uri data : Str) :
    List Envelope × Nat :=
  match MState.init D (lit "en") with
  | none => ([.crash "no default dialect"], ids)
  | some μ =>
    let (out, ctx) := parseWith D T stop μ ids data
    match out with
    | .ok d =>
      let pre := (if opts.printSource then [Envelope.source uri data] else []) ++
                 (if opts.printAst then [Envelope.gherkinDocument uri d] else [])
      if opts.printPickles then
        match compile uri d ctx.ids with
        | some (ps, n') => (pre ++ ps.map Envelope.pickle, n')
        | none => (pre ++ [.crash "IndexError in compile"], ctx.ids)
      else (pre, ctx.ids)
    | .rejected es _ => (es.map (Envelope.parseError uri), ctx.ids)
    | .crash w => ([.crash w], ctx.ids)
    | .fuel => ([.crash "fuel"], ctx.ids)

/-- a sequence of sources through one stream whose parser runs in mode `stop` -/
def streamAllMode (D : List Dialect) (T : Table) (stop : Bool) (opts : Opts) : List (Str × Str) → Nat → List (List Envelope)
  | [], _ => []
  | (uri, data) :: rest, ids =>
    let (es, ids') := streamEnumMode D T stop opts ids uri data
    es :: streamAllMode D T stop opts rest ids'

end GV
