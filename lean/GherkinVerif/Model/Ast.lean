/-
  Model/Ast.lean — the GherkinDocument message (python/gherkin/parser_types.py) and the Pickle
  message (python/gherkin/pickles/compiler.py) as typed structures.  Ids are natural numbers;
  they are printed as decimal strings (IdGenerator.get_next_id returns `str(counter)`).
-/
import GherkinVerif.Model.Token
namespace GV

structure Tag where
  id : Nat
  loc : Loc
  name : Str
deriving Repr, Inhabited, DecidableEq

structure Cell where
  loc : Loc
  value : Str
deriving Repr, Inhabited, DecidableEq

structure Row where
  id : Nat
  loc : Loc
  cells : List Cell
deriving Repr, Inhabited, DecidableEq

structure DataTable where
  loc : Loc
  rows : List Row
deriving Repr, Inhabited, DecidableEq

structure DocString where
  loc : Loc
  content : Str
  delimiter : Str
  mediaType : Option Str
deriving Repr, Inhabited, DecidableEq

inductive StepArg
  | none
  | table (t : DataTable)
  | doc (d : DocString)
deriving Repr, Inhabited, DecidableEq

structure Step where
  id : Nat
  loc : Loc
  keyword : Str
  ktype : KType
  text : Str
  arg : StepArg
deriving Repr, Inhabited, DecidableEq

structure Background where
  id : Nat
  loc : Loc
  keyword : Str
  name : Str
  description : Str
  steps : List Step
deriving Repr, Inhabited, DecidableEq

structure Examples where
  id : Nat
  tags : List Tag
  loc : Loc
  keyword : Str
  name : Str
  description : Str
  header : Option Row
  body : List Row
deriving Repr, Inhabited, DecidableEq

structure Scenario where
  id : Nat
  tags : List Tag
  loc : Loc
  keyword : Str
  name : Str
  description : Str
  steps : List Step
  examples : List Examples
deriving Repr, Inhabited, DecidableEq

inductive RuleChild
  | background (b : Background)
  | scenario (s : Scenario)
deriving Repr, Inhabited, DecidableEq

structure Rule where
  id : Nat
  tags : List Tag
  loc : Loc
  keyword : Str
  name : Str
  description : Str
  children : List RuleChild
deriving Repr, Inhabited, DecidableEq

inductive FeatureChild
  | background (b : Background)
  | scenario (s : Scenario)
  | rule (r : Rule)
deriving Repr, Inhabited, DecidableEq

structure Feature where
  tags : List Tag
  loc : Loc
  language : Str
  keyword : Str
  name : Str
  description : Str
  children : List FeatureChild
deriving Repr, Inhabited, DecidableEq

structure Comment where
  loc : Loc
  text : Str
deriving Repr, Inhabited, DecidableEq

structure Doc where
  feature : Option Feature
  comments : List Comment
deriving Repr, Inhabited, DecidableEq

/-! ### Pickles -/

structure PickleTag where
  astNodeId : Nat
  name : Str
deriving Repr, Inhabited, DecidableEq

inductive PArg
  | none
  | table (rows : List (List Str))
  | doc (content : Str) (mediaType : Option Str)
deriving Repr, Inhabited, DecidableEq

structure PickleStep where
  astNodeIds : List Nat
  id : Nat
  type : KType
  text : Str
  arg : PArg
deriving Repr, Inhabited, DecidableEq

structure Pickle where
  astNodeIds : List Nat
  id : Nat
  tags : List PickleTag
  name : Str
  language : Str
  steps : List PickleStep
  uri : Str
deriving Repr, Inhabited, DecidableEq

end GV
