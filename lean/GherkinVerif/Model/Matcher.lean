/-
  Model/Matcher.lean — model of python/gherkin/token_matcher.py (class TokenMatcher).

  The matcher's mutable fields are an explicit `MState`; each `match_<Kind>` returns the
  (possibly mutated) token, the new state and whether it matched, did not match, or raised.
  The model is of the *repaired* code (fix F7: the NoSuchLanguage error carries a copy of the
  token location taken when it is raised).
-/
import GherkinVerif.Model.Token
namespace GV

structure MState where
  defaultName : Str
  name : Str
  dialect : Dialect
  indentToRemove : Nat := 0
  activeSep : Option Str := none
deriving Repr, Inhabited

/-- `TokenMatcher(dialect_name)`; `none` when the constructor would raise. -/
def MState.init (D : List Dialect) (name : Str) : Option MState :=
  (findDialect D name).map fun d => { defaultName := name, name := name, dialect := d }

/-- `reset()` -/
def MState.reset (D : List Dialect) (μ : MState) : MState :=
  let μ' :=
    if μ.name != μ.defaultName then
      match findDialect D μ.defaultName with
      | some d => { μ with name := μ.defaultName, dialect := d }
      | none => μ   -- unreachable for states made by `init` (the constructor looked it up)
    else μ
  { μ' with indentToRemove := 0, activeSep := none }

inductive MRes | matched | no | raised (e : PErr)
deriving Repr, Inhabited

structure MOut where
  tok : Token
  μ : MState
  res : MRes
deriving Repr, Inhabited

/-- `_set_token_matched` -/
def setMatched (μ : MState) (t : Token) (ty : Kind) (text : Option Str := none)
    (keyword : Option Str := none) (ktype : Option KType := none) (indent : Option Nat := none)
    (items : List (Nat × Str) := []) : Token :=
  let ind := match indent with
    | some i => i
    | none => match t.line with
      | some l => lineIndent l
      | none => 0
  { t with mtype := some ty, text := text.map rstripCRLF, keyword := keyword, ktype := ktype,
           indent := ind, items := items, col := some (ind + 1), dialect := μ.name }

/-- `_match_title_line` -/
def matchTitle (μ : MState) (t : Token) (l : Str) (ty : Kind) (kws : List Str) : Option Token :=
  match kws.find? (fun k => lineStartsWithTitle l k) with
  | some k => some (setMatched μ t ty (text := some (restTrimmed l (k.length + 1))) (keyword := some k))
  | none => none

def isLangChar (c : Nat) : Bool :=
  (97 ≤ c && c ≤ 122) || (65 ≤ c && c ≤ 90) || c == 45 || c == 95

/-- `LANGUAGE_RE.match(s)`: `^\s*#\s*language\s*:\s*([a-zA-Z\-_]+)\s*$`, group 1.
    Adjacent pieces are over disjoint classes, so the greedy reading is the only one. -/
def languageRe (s : Str) : Option Str :=
  match lstrip s with
  | 35 :: s1 =>
    let s2 := lstrip s1
    if startsWith (lit "language") s2 then
      match lstrip (s2.drop 8) with
      | 58 :: s3 =>
        let s4 := lstrip s3
        let name := s4.takeWhile isLangChar
        if name.isEmpty then none
        else if (lstrip (s4.dropWhile isLangChar)).isEmpty then some name else none
      | _ => none
    else none
  | _ => none

def dq3 : Str := [34, 34, 34]
def bt3 : Str := [96, 96, 96]

/-- `_unescaped_docstring` -/
def unescapeDoc (sep : Option Str) (text : Str) : Str :=
  if sep == some dq3 then replaceAll [92, 34, 92, 34, 92, 34] dq3 text
  else if sep == some bt3 then replaceAll [92, 96, 92, 96, 92, 96] bt3 text
  else text

/-- `_match_DocStringSeparator(token, separator, is_open)` -/
def matchDocSep (μ : MState) (t : Token) (l : Str) (sep : Str) (isOpen : Bool) : Option (Token × MState) :=
  if lineStartsWith l sep then
    if isOpen then
      let μ' := { μ with activeSep := some sep, indentToRemove := lineIndent l }
      some (setMatched μ' t .DocStringSeparator (text := some (restTrimmed l sep.length)) (keyword := some sep), μ')
    else
      let μ' := { μ with activeSep := none, indentToRemove := 0 }
      some (setMatched μ' t .DocStringSeparator (text := none) (keyword := some sep), μ')
  else none

/-- keyword type of a matched step keyword: the single listed category, else `Unknown`. -/
def stepKType (d : Dialect) (kw : Str) : KType :=
  match d.keywordTypes kw with
  | [ty] => ty
  | _ => .Unknown

/-- `TokenMatcher.match_<k>(token)` for a token that is a line (`l`). -/
def matchLine (D : List Dialect) (k : Kind) (μ : MState) (t : Token) (l : Str) : MOut :=
  let no : MOut := ⟨t, μ, .no⟩
  let ofOpt (o : Option Token) : MOut := match o with
    | some t' => ⟨t', μ, .matched⟩
    | none => no
  match k with
  | .EOF => no
  | .FeatureLine => ofOpt (matchTitle μ t l .FeatureLine μ.dialect.feature)
  | .RuleLine => ofOpt (matchTitle μ t l .RuleLine μ.dialect.rule)
  | .ScenarioLine =>
    match matchTitle μ t l .ScenarioLine μ.dialect.scenario with
    | some t' => ⟨t', μ, .matched⟩
    | none => ofOpt (matchTitle μ t l .ScenarioLine μ.dialect.scenarioOutline)
  | .BackgroundLine => ofOpt (matchTitle μ t l .BackgroundLine μ.dialect.background)
  | .ExamplesLine => ofOpt (matchTitle μ t l .ExamplesLine μ.dialect.examples)
  | .TableRow =>
    if lineStartsWith l [124] then
      ⟨setMatched μ t .TableRow (items := tableCells l), μ, .matched⟩
    else no
  | .StepLine =>
    match μ.dialect.stepKeywords.find? (fun kw => lineStartsWith l kw) with
    | some kw =>
      ⟨setMatched μ t .StepLine (text := some (restTrimmed l kw.length)) (keyword := some kw)
        (ktype := some (stepKType μ.dialect kw)), μ, .matched⟩
    | none => no
  | .Comment =>
    if lineStartsWith l [35] then ⟨setMatched μ t .Comment (text := some l) (indent := some 0), μ, .matched⟩
    else no
  | .Empty =>
    if lineIsEmpty l then ⟨setMatched μ t .Empty (indent := some 0), μ, .matched⟩ else no
  | .Language =>
    match languageRe (lineText l none) with
    | none => no
    | some name =>
      let t' := setMatched μ t .Language (text := some name)
      match findDialect D name with
      | some d => ⟨t', { μ with name := name, dialect := d }, .matched⟩
      | none => ⟨t', μ, .raised ⟨.noSuchLanguage, t'.loc, lit "Language not supported: " ++ name⟩⟩
  | .TagLine =>
    if lineStartsWith l [64] then
      match lineTags l with
      | .ok items => ⟨setMatched μ t .TagLine (items := items), μ, .matched⟩
      | .error col => ⟨t, μ, .raised ⟨.tagWhitespace, ⟨t.lineNo, some col⟩, lit "A tag may not contain whitespace"⟩⟩
    else no
  | .DocStringSeparator =>
    let r := match μ.activeSep with
      | none =>
        (matchDocSep μ t l dq3 true).orElse fun _ => matchDocSep μ t l bt3 true
      | some sep =>
        if sep.isEmpty then
          (matchDocSep μ t l dq3 true).orElse fun _ => matchDocSep μ t l bt3 true
        else matchDocSep μ t l sep false
    match r with
    | some (t', μ') => ⟨t', μ', .matched⟩
    | none => no
  | .Other =>
    let text := lineText l (some μ.indentToRemove)
    ⟨setMatched μ t .Other (text := some (unescapeDoc μ.activeSep text)) (indent := some 0), μ, .matched⟩

/-- `TokenMatcher.match_EOF(token)` on any token, `match_<k>` on a line token.
    The second component says whether the matcher itself was invoked (the parser's wrappers
    return `False` on an end-of-file token without calling it). -/
def matchTok (D : List Dialect) (k : Kind) (μ : MState) (t : Token) : MOut × Bool :=
  match t.line with
  | none =>
    if k == .EOF then (⟨setMatched μ t .EOF, μ, .matched⟩, true) else (⟨t, μ, .no⟩, false)
  | some l => (matchLine D k μ t l, true)

end GV
