/-
  Model/Formatter.lean — model of python/gherkin/token_formatter_builder.py
  (`TokenFormatterBuilder`) and of `Parser(TokenFormatterBuilder()).parse(text, matcher)`: the run
  that prints the token listing of a document (testdata `*.feature.tokens`).

  The glue of `class Parser` is NOT transcribed a second time for this builder.  `BuilderI` is the
  interface the glue uses (`start_rule`, `end_rule`, `build` — each through `handle_ast_error` —
  and `get_result`); `runProdG … parseBodyG` are the builder-dependent glue functions of
  Model/Parser.lean with the builder as a parameter (the builder-independent ones — `readToken`,
  `addError`, `matchP`, `matchAny`, `lookaheadLoop`, `lookahead` — are used as they are).
  Lemmas/FormatterGlue.lean proves that the instance at `astBuilder` IS the existing
  `parseBody` / `parseWith` (equations, not simulations), so the formatter run below is the same
  glue with another builder plugged in.

  `fmtBuilder`: `start_rule` / `end_rule` do nothing, `build` appends the token to `_tokens`,
  `get_result` is `"\n".join(_format_token(t) for t in _tokens)`.  None of them can raise, so the
  `handle_ast_error` wrapper is the identity.  The builder's state `_tokens` is kept in the field
  `builds` of the context ("every token handed to `build`, in order" — for this builder that list
  is not a ghost, it is the whole state of the builder); `β` and `ids` of the context are not
  touched by this run and do not appear in its result `CtxF`.
-/
import GherkinVerif.Model.Parser
namespace GV

/-- `TokenFormatterBuilder._format_token` -/
def formatToken (t : Token) : Str :=
  match t.line with
  | none => lit "EOF"
  | some _ =>
    [40] ++ natToStr t.lineNo ++ [58] ++ natToStr (t.col.getD 0) ++ [41] ++
    lit ((t.mtype.map Kind.name).getD "None") ++ [58] ++
    (match t.keyword with
     | some kw => if kw.isEmpty then [] else [40] ++ lit ((t.ktype.map KType.name).getD "") ++ [41] ++ kw
     | none => []) ++ [47] ++ (t.text.getD []) ++ [47] ++
    joinWith [44] (t.items.map fun it => natToStr it.1 ++ [58] ++ it.2)

/-- `TokenFormatterBuilder.get_result` on the list `_tokens` -/
def formatListing (ts : List Token) : Str := joinWith [10] (ts.map formatToken)

/-- what the glue of `class Parser` needs of a builder; every operation already wrapped in
    `handle_ast_error` (so it lives in the glue monad: it may report or raise) -/
structure BuilderI (ρ : Type) where
  startRule : RuleType → PM Unit
  endRule : RuleType → PM Unit
  build : Token → PM Unit
  result : PM ρ

/-- `start_rule / end_rule / build` of the builder `B` -/
def runProdG {ρ} (B : BuilderI ρ) (t : Token) : Prod → PM Unit
  | .start r => B.startRule r
  | .end_ r => B.endRule r
  | .build => B.build t

def runProdsG {ρ} (B : BuilderI ρ) (t : Token) : List Prod → PM Unit
  | [] => pure ()
  | p :: ps => do runProdG B t p; runProdsG B t ps

/-- body of `match_token_at_N` (as `tryBranches`, builder `B`) -/
def tryBranchesG {ρ} (B : BuilderI ρ) (D : List Dialect) (T : Table) (stop : Bool) (row : StateRow) :
    List Branch → Token → PM Nat
  | [], t => do
    let e := unexpectedErr row t
    modify fun c => { c with unexpected := c.unexpected ++ [t.lineNo] }
    if stop then throw (.single e)
    else do addError T.errorCap e; pure row.errTarget
  | b :: bs, t => do
    let (m, t') ← matchP D T.errorCap stop b.kind t
    if m then
      let ok ← match b.guard with
        | none => pure true
        | some i =>
          match T.lookaheads[i]? with
          | some la => lookahead D T.errorCap stop la
          | none => throw (.crash "unknown look-ahead")
      if ok then do
        runProdsG B t' b.prods
        pure b.target
      else tryBranchesG B D T stop row bs t'
    else tryBranchesG B D T stop row bs t'

/-- `match_token(state, token, context)` -/
def matchTokenG {ρ} (B : BuilderI ρ) (D : List Dialect) (T : Table) (stop : Bool) (state : Nat) (t : Token) : PM Nat :=
  match T.row? state with
  | some row => tryBranchesG B D T stop row row.branches t
  | none => throw (.crash s!"RuntimeError: Unknown state: {state}")

/-- the `while True` loop of `parse` -/
def parseLoopG {ρ} (B : BuilderI ρ) (D : List Dialect) (T : Table) (stop : Bool) : Nat → Nat → PM Nat
  | 0, _ => throw .fuel
  | fuel + 1, state => do
    let t ← readToken
    modify fun c => { c with reads := c.reads ++ [t.lineNo] }
    let state' ← matchTokenG B D T stop state t
    if t.eof then pure state' else parseLoopG B D T stop fuel state'

/-- body of `Parser.parse` after the scanner/matcher have been chosen and the builder reset -/
def parseBodyG {ρ} (B : BuilderI ρ) (D : List Dialect) (T : Table) (stop : Bool) (nLines : Nat) : PM ρ := do
  B.startRule T.startRule
  let _ ← parseLoopG B D T stop (nLines + 2) 0
  B.endRule T.startRule
  let ctx ← get
  if !ctx.errors.isEmpty then throw (.composite ctx.errors)
  B.result

/-- the AST builder of Model/Builder.lean behind `handle_ast_error`, exactly as `runProd` and the
    end of `parseBody` use it -/
def astBuilder (cap : Nat) (stop : Bool) : BuilderI Doc where
  startRule r := runProd cap stop default (.start r)
  endRule r := runProd cap stop default (.end_ r)
  build t := runProd cap stop t .build
  result := do
    let ctx ← get
    match ctx.β.result with
    | .ok (some d) => pure d
    | .ok none => throw (.crash "get_result returned None")
    | .error (.crash w) => throw (.crash w)
    | .error (.ast e) => throw (.single e)

/-- `TokenFormatterBuilder` -/
def fmtBuilder : BuilderI Str where
  startRule _ := pure ()
  endRule _ := pure ()
  build t := modify fun c => { c with builds := c.builds ++ [t] }
  result := do
    let ctx ← get
    pure (formatListing ctx.builds)

inductive OutcomeF
  | ok (listing : Str)                             -- the printed token listing (lines joined by LF)
  | rejected (es : List PErr) (composite : Bool)   -- as `Outcome.rejected`
  | crash (what : String)
  | fuel
deriving DecidableEq, Repr, Inhabited

/-- final context of a formatter run: that of the AST-builder run without builder state and ids -/
structure CtxF where
  lines : List Str
  lineNo : Nat
  queue : List Token
  errors : List PErr
  μ : MState
  calls : Nat
  builds : List Token       -- the tokens handed to `build` = `TokenFormatterBuilder._tokens`
  reads : List Nat
  unexpected : List Nat
deriving Inhabited

def CtxF.ofCtx (c : Ctx) : CtxF :=
  ⟨c.lines, c.lineNo, c.queue, c.errors, c.μ, c.calls, c.builds, c.reads, c.unexpected⟩

/-- `Parser(TokenFormatterBuilder()).parse(text, matcher)` with an existing matcher state -/
def parseWithF (D : List Dialect) (T : Table) (stop : Bool) (μ : MState) (src : Str) : OutcomeF × CtxF :=
  let lines := splitLines src
  let ctx0 : Ctx := { lines := lines, μ := μ.reset D }
  match (parseBodyG fmtBuilder D T stop lines.length).run.run ctx0 with
  | (.ok s, ctx) => (.ok s, .ofCtx ctx)
  | (.error (.single e), ctx) => (.rejected [e] false, .ofCtx ctx)
  | (.error (.composite es), ctx) => (.rejected es true, .ofCtx ctx)
  | (.error (.crash w), ctx) => (.crash w, .ofCtx ctx)
  | (.error .fuel, ctx) => (.fuel, .ofCtx ctx)

end GV
