/-
  Lemmas/RoundtripScen.lean — property C03, round trip: the induction over the steps of a scenario
  and over the scenarios of a feature, between `feature_head` and `finish`.
-/
import GherkinVerif.Lemmas.RoundtripDoc
set_option linter.unusedSectionVars false
set_option linter.unusedSimpArgs false
set_option linter.unusedVariables false
namespace GV
namespace Lemmas
open Spec

/-- builder in state 10: the scenario node holds its keyword line and the finished steps `L` -/
def st10 (sd fi : List (Key × Val)) (tk : Token) (L : List Step) : BState :=
  ⟨⟨.Scenario, (.tok .ScenarioLine, .tok tk) :: stepItems L⟩ :: ⟨.ScenarioDefinition, sd⟩ :: ⟨.Feature, fi⟩ :: G0, []⟩

/-- builder in state 12: additionally an open step node holding the step line `ts` -/
def st12 (sd fi : List (Key × Val)) (tk : Token) (L : List Step) (ts : Token) : BState :=
  ⟨⟨.Step, [(.tok .StepLine, .tok ts)]⟩ :: ⟨.Scenario, (.tok .ScenarioLine, .tok tk) :: stepItems L⟩ ::
    ⟨.ScenarioDefinition, sd⟩ :: ⟨.Feature, fi⟩ :: G0, []⟩

def mkStep (μ : MState) (m i : Nat) (s : MStep) : Step :=
  { id := i, loc := ⟨m, some 3⟩, keyword := s.kw, ktype := stepKType μ.dialect s.kw, text := s.text, arg := .none }

/-- inside a scenario: in state 10, or in state 12 with an open step; `L`, `i1` are the finished steps
    and the counter once the open step (if any) is closed -/
def InSc (μ : MState) (sd fi : List (Key × Val)) (tk : Token) (s : Nat) (β : BState) (i : Nat)
    (L : List Step) (i1 : Nat) : Prop :=
  (s = 10 ∧ β = st10 sd fi tk L ∧ i1 = i) ∨
  (s = 12 ∧ ∃ L0 m s0, β = st12 sd fi tk L0 (stepTok μ m s0) ∧ L = L0 ++ [mkStep μ m i s0] ∧ i1 = i + 1)

section scen
variable {D' : List Dialect} (hf : keywordFacts D' = true) (hr : renderFacts D' = true)
variable (D : List Dialect) (stop : Bool) (T : Table) (RTf : RtTable T)
variable {μ : MState} (hμ : μ.dialect ∈ D') (hsep : μ.activeSep = none)
include hf hr RTf hμ hsep

theorem step_others_no (s : MStep) (hs : stepOK μ.dialect s = true) (t : Token)
    (hl : t.line = some (stepLineOf s ++ [10])) (K : Kind) (hK : K ≠ .StepLine) (hO : K ≠ .Other) :
    matchLine D K μ t (stepLineOf s ++ [10]) = ⟨t, μ, .no⟩ := by
  have hkm : s.kw ∈ μ.dialect.stepKeywords := by
    simp only [stepOK, Bool.and_eq_true, beq_iff_eq, firstStepKeyword] at hs
    exact List.mem_of_find?_eq_some hs.1
  obtain ⟨c, r, htr, hc⟩ := kwline_head hf hr μ hμ s.kw (mem_allKeywords_step hkm) [32, 32] (s.text ++ [10])
    (by intro c hc; simp at hc; subst hc; exact isSpace_32)
  have e : stepLineOf s ++ [10] = [32, 32] ++ s.kw ++ (s.text ++ [10]) := by simp [stepLineOf]
  rw [← e] at htr
  exact kwline_others_no hf hr D μ hμ hsep t _ c r htr hc .StepLine (.inr rfl) _ _
    (step_match hf hr D μ hμ s hs t t.lineNo hl rfl) K hK hO

/-- one step line, from state 10 or 12 -/
theorem step_line (sd fi : List (Key × Val)) (tk : Token) (st : MStep) (hst : stepOK μ.dialect st = true)
    (s : Nat) (β : BState) (i : Nat) (L : List Step) (i1 n fuel : Nat) (ls : List Str) (c : Ctx)
    (hin : InSc μ sd fi tk s β i L i1) (h : At c ((stepLineOf st ++ [10]) :: ls) n μ β i) :
    ∃ c', At c' ls (n + 1) μ (st12 sd fi tk L (stepTok μ (n + 1) st)) i1 ∧
      run (parseLinesPure D T stop (fuel + 1) s) c = run (parseLinesPure D T stop fuel 12) c' := by
  obtain ⟨row10, hrow10, hf10⟩ := RTf.r10
  obtain ⟨row12, hrow12, hf12⟩ := RTf.r12
  rcases hin with ⟨rfl, rfl, rfl⟩ | ⟨rfl, L0, m, s0, rfl, rfl, rfl⟩
  · exact lines_step D stop T fuel 10 12 _ h _ _ (by
      intro c1 h1
      simp only [matchTokenPure, hrow10]
      exact try_first D stop T row10 _ (stepTok μ (n + 1) st) _ rfl .StepLine _ hf10 rfl h1
        (fun K' h1' h2' => step_others_no hf hr D T RTf hμ hsep st hst _ rfl K' h1' h2')
        (step_match hf hr D μ hμ st hst _ (n + 1) rfl rfl) _ _ rfl)
  · exact lines_step D stop T fuel 12 12 _ h _ _ (by
      intro c1 h1
      simp only [matchTokenPure, hrow12]
      exact try_first D stop T row12 _ (stepTok μ (n + 1) st) _ rfl .StepLine _ hf12 rfl h1
        (fun K' h1' h2' => step_others_no hf hr D T RTf hμ hsep st hst _ rfl K' h1' h2')
        (step_match hf hr D μ hμ st hst _ (n + 1) rfl rfl) _ _
        (by
          have e2 : st12 sd fi tk (L0 ++ [mkStep μ m i s0]) (stepTok μ (n + 1) st) =
              ⟨⟨.Step, [(.tok .StepLine, .tok (stepTok μ (n + 1) st))]⟩ ::
                ⟨.Scenario, ((.tok .ScenarioLine, .tok tk) :: stepItems L0) ++ [(.rule .Step, .step (mkStep μ m i s0))]⟩ ::
                ⟨.ScenarioDefinition, sd⟩ :: ⟨.Feature, fi⟩ :: G0, []⟩ := by simp [st12, stepItems]
          rw [e2]
          simp only [prodOps, applyOps, applyOp, st12, endRule_step]
          rfl))

/-- the step lines of a scenario -/
theorem steps_loop (sd fi : List (Key × Val)) (tk : Token) (fuel : Nat) (rest : List Str) :
    ∀ (steps : List MStep) (hok : ∀ st ∈ steps, stepOK μ.dialect st = true)
      (s : Nat) (β : BState) (i : Nat) (L : List Step) (i1 n : Nat) (c : Ctx)
      (hin : InSc μ sd fi tk s β i L i1)
      (h : At c (steps.map (fun st => stepLineOf st ++ [10]) ++ rest) n μ β i),
    ∃ s' β' i' c', InSc μ sd fi tk s' β' i' (L ++ expSteps μ.dialect (n + 1) i1 steps) (i1 + steps.length) ∧
      At c' rest (n + steps.length) μ β' i' ∧
      run (parseLinesPure D T stop (fuel + steps.length) s) c = run (parseLinesPure D T stop fuel s') c' := by
  intro steps
  induction steps with
  | nil =>
    intro _ s β i L i1 n c hin h
    exact ⟨s, β, i, c, by simpa [expSteps] using hin, by simpa using h, rfl⟩
  | cons st steps ih =>
    intro hok s β i L i1 n c hin h
    simp only [List.map_cons, List.cons_append] at h
    obtain ⟨c1, h1, hrun1⟩ := step_line hf hr D stop T RTf hμ hsep sd fi tk st (hok st (by simp)) s β i L i1 n
      (fuel + steps.length) _ c hin h
    have hin1 : InSc μ sd fi tk 12 (st12 sd fi tk L (stepTok μ (n + 1) st)) i1 (L ++ [mkStep μ (n + 1) i1 st]) (i1 + 1) :=
      .inr ⟨rfl, L, n + 1, st, rfl, rfl, rfl⟩
    obtain ⟨s', β', i', c', hin', hc', hrun'⟩ := ih (fun x hx => hok x (by simp [hx])) 12 _ i1 _ (i1 + 1) (n + 1) c1 hin1 h1
    refine ⟨s', β', i', c', ?_, ?_, ?_⟩
    · have : L ++ [mkStep μ (n + 1) i1 st] ++ expSteps μ.dialect (n + 1 + 1) (i1 + 1) steps =
          L ++ expSteps μ.dialect (n + 1) i1 (st :: steps) := by
        simp [expSteps, mkStep]
      rw [this] at hin'
      have e : i1 + 1 + steps.length = i1 + (st :: steps).length := by simp; omega
      rwa [e] at hin'
    · have e : n + 1 + steps.length = n + (st :: steps).length := by simp; omega
      rwa [e] at hc'
    · have e : fuel + (st :: steps).length = fuel + steps.length + 1 := by simp; omega
      rw [e, hrun1, hrun']

omit hf hr RTf hμ hsep in
/-- closing an open scenario leaves the finished scenario in the `Feature` node -/
theorem insc_closes (nt m : Nat) (tags : List Str) (kw nm : Str) (fi : List (Key × Val))
    (s : Nat) (β : BState) (i : Nat) (L : List Step) (i1 : Nat)
    (hin : InSc μ (tagsItem μ nt tags) fi (titleTok μ m .ScenarioLine kw nm) s β i L i1) :
    Closes s β i (fi ++ [(.rule .ScenarioDefinition, Val.scenario (mkSc nt m i1 tags kw nm L))])
      (i1 + tags.length + 1) := by
  rcases hin with ⟨rfl, rfl, rfl⟩ | ⟨rfl, L0, m0, s0, rfl, rfl, rfl⟩
  · refine ⟨.inr (.inl rfl), fun t => ?_⟩
    simp only [closeOf, prodOps, applyOps, applyOp, st10, endRule_raw .Scenario (.inl rfl), endRule_scdef]
    rfl
  · refine ⟨.inr (.inr rfl), fun t => ?_⟩
    simp only [closeOf, prodOps, applyOps, applyOp, st12, endRule_step, List.cons_append, stepItems_snoc,
      endRule_raw .Scenario (.inl rfl), endRule_scdef]
    rfl

/-- **The scenario block**: from a state a scenario can follow, over the scenario's tag line (if
    any), keyword line and step lines, to such a state again, with the scenario added to the feature -/
theorem scenario_block (sc : MScenario) (hok : scenarioOK μ.dialect sc = true)
    (s : Nat) (β : BState) (i : Nat) (fi : List (Key × Val)) (i0 n fuel : Nat) (rest : List Str) (c : Ctx)
    (hcl : Closes s β i fi i0)
    (h : At c ((scenarioLines sc).map (· ++ [10]) ++ rest) n μ β i) :
    ∃ s' β' i' c',
      Closes s' β' i' (fi ++ [(.rule .ScenarioDefinition, Val.scenario (expScenario μ.dialect (n + 1) i0 sc))])
        (i0 + scIds sc) ∧
      At c' rest (n + scLines sc) μ β' i' ∧
      run (parseLinesPure D T stop (fuel + scLines sc) s) c = run (parseLinesPure D T stop fuel s') c' := by
  obtain ⟨tags, kw, nm, steps⟩ := sc
  simp only [scenarioOK, Bool.and_eq_true, List.all_eq_true, List.contains_eq_mem, decide_eq_true_eq] at hok
  obtain ⟨⟨⟨htags, hk⟩, hn⟩, hsteps⟩ := hok
  have hk' : kw ∈ μ.dialect.roleKeywords .ScenarioLine := hk
  obtain ⟨row, hrow, hp⟩ := rowHas_spec (RTf.mid s hcl.1)
  simp only [Bool.and_eq_true, beq_iff_eq] at hp
  obtain ⟨⟨hfs, hft⟩, -⟩ := hp
  obtain ⟨row9, hrow9, hf9⟩ := RTf.r9
  -- the scenario line's verdicts
  have hsno : ∀ (t : Token), t.line = some (titleLineOf kw nm ++ [10]) → ∀ K', K' ≠ .ScenarioLine → K' ≠ .Other →
      matchLine D K' μ t (titleLineOf kw nm ++ [10]) = ⟨t, μ, .no⟩ := fun t ht K' h1 h2 =>
    title_others_no hf hr D T RTf hμ hsep .ScenarioLine rfl kw nm hk' hn t ht K' h1 h2
  have hsyes : ∀ (t : Token) (k : Nat), t.line = some (titleLineOf kw nm ++ [10]) → t.lineNo = k →
      matchLine D .ScenarioLine μ t (titleLineOf kw nm ++ [10]) = ⟨titleTok μ k .ScenarioLine kw nm, μ, .matched⟩ :=
    fun t k ht hk2 => title_match hf hr D μ hμ .ScenarioLine rfl kw nm hk' hn t k ht hk2
  -- after the keyword line: state 10 with the scenario open
  have key : ∃ c1, At c1 (steps.map (fun st => stepLineOf st ++ [10]) ++ rest) (n + tagLines tags + 1) μ
        (st10 (tagsItem μ (n + 1) tags) fi (titleTok μ (n + tagLines tags + 1) .ScenarioLine kw nm) []) i0 ∧
      run (parseLinesPure D T stop (fuel + steps.length + (tagLines tags + 1)) s) c =
        run (parseLinesPure D T stop (fuel + steps.length) 10) c1 := by
    by_cases ht : tags = []
    · subst ht
      simp only [scenarioLines, tagLineOf, List.isEmpty_nil, if_true, List.nil_append, List.map_cons,
        List.cons_append, List.map_map] at h
      obtain ⟨c1, h1, hrun1⟩ := lines_step D stop T (fuel + steps.length) s 10 _ h
        (st10 [] fi (titleTok μ (n + 1) .ScenarioLine kw nm) []) i0
        (by
          intro c1 h1
          simp only [matchTokenPure, hrow]
          exact try_first D stop T row _ (titleTok μ (n + 1) .ScenarioLine kw nm) _ rfl .ScenarioLine _ hfs rfl h1
            (hsno _ rfl) (hsyes _ _ rfl rfl) _ _
            (by
              simp only [prodOps_append]
              rw [applyOps_append_ok _ _ _ _ _ _ (hcl.2 _)]
              rfl))
      exact ⟨c1, by simpa [tagLines, tagsItem, Function.comp_def] using h1, by simpa [tagLines] using hrun1⟩
    · have hemp : tags.isEmpty = false := by cases tags <;> simp_all
      have htl : tagLines tags = 1 := by simp [tagLines, hemp]
      simp only [scenarioLines, tagLineOf, hemp, Bool.false_eq_true, if_false, List.singleton_append,
        List.map_cons, List.cons_append, List.map_map] at h
      obtain ⟨c1, h1, hrun1⟩ := lines_step D stop T (fuel + steps.length + 1) s 9 _ h
        ⟨⟨.Tags, [(.tok .TagLine, .tok (tagTok μ (n + 1) tags))]⟩ :: ⟨.ScenarioDefinition, []⟩ :: ⟨.Feature, fi⟩ :: G0, []⟩ i0
        (by
          intro c1 h1
          simp only [matchTokenPure, hrow]
          exact try_tag0 D stop (titleLineOf kw nm ++ [10]) (titleTok μ (n + 1 + 1) .ScenarioLine kw nm)
            (hsno _ rfl) (hsyes _ _ rfl rfl) T row RTf.la _ (tagTok μ (n + 1) tags) rfl (n + 1) rfl
            (fun t K' h1' h2' => tagline_others_no hf hr D μ hμ tags ht htags hsep t K' h1' h2')
            (fun t ht' hn' => tag_match D μ tags ht htags t (n + 1) ht' hn') _ _ _ _ hft
            (by
              simp only [prodOps_append]
              rw [applyOps_append_ok _ _ _ _ _ _ (hcl.2 _)]
              rfl) _ c1 rfl rfl h1)
      obtain ⟨c2, h2, hrun2⟩ := lines_step D stop T (fuel + steps.length) 9 10 _ h1
        (st10 (tagsItem μ (n + 1) tags) fi (titleTok μ (n + 1 + 1) .ScenarioLine kw nm) []) i0
        (by
          intro c2 h2
          simp only [matchTokenPure, hrow9]
          exact try_first D stop T row9 _ (titleTok μ (n + 1 + 1) .ScenarioLine kw nm) _ rfl .ScenarioLine _ hf9 rfl h2
            (hsno _ rfl) (hsyes _ _ rfl rfl) _ _
            (by
              simp only [prodOps, applyOps, applyOp, endRule_raw .Tags (.inr (.inl rfl))]
              simp [tagsItem, hemp, st10]
              rfl))
      refine ⟨c2, ?_, ?_⟩
      · rw [htl]; simpa [Function.comp_def] using h2
      · rw [htl, hrun1, hrun2]
  obtain ⟨c1, h1, hrun1⟩ := key
  obtain ⟨s', β', i', c', hin', hc', hrun'⟩ := steps_loop hf hr D stop T RTf hμ hsep _ fi _ fuel rest steps hsteps
    10 _ i0 [] i0 _ c1 (.inl ⟨rfl, rfl, rfl⟩) h1
  have hcl' := insc_closes (n + 1) (n + tagLines tags + 1) tags kw nm fi s' β' i' _ _ hin'
  refine ⟨s', β', i', c', ?_, ?_, ?_⟩
  · have e1 : mkSc (n + 1) (n + tagLines tags + 1) (i0 + steps.length) tags kw nm
        ([] ++ expSteps μ.dialect (n + tagLines tags + 1 + 1) i0 steps) =
        expScenario μ.dialect (n + 1) i0 ⟨tags, kw, nm, steps⟩ := by
      simp [mkSc, expScenario, Nat.add_assoc, Nat.add_comm, Nat.add_left_comm]
    have e2 : i0 + steps.length + tags.length + 1 = i0 + scIds ⟨tags, kw, nm, steps⟩ := by
      simp [scIds]; omega
    rw [e1, e2] at hcl'
    exact hcl'
  · have e : n + tagLines tags + 1 + steps.length = n + scLines ⟨tags, kw, nm, steps⟩ := by simp [scLines]; omega
    rwa [e] at hc'
  · have e : fuel + scLines ⟨tags, kw, nm, steps⟩ = fuel + steps.length + (tagLines tags + 1) := by
      simp [scLines]; omega
    rw [e, hrun1, hrun']

/-- the scenarios of a feature -/
theorem scenarios_loop (hd : Key × Val) (fuel : Nat) (rest : List Str) :
    ∀ (scs : List MScenario) (hok : ∀ sc ∈ scs, scenarioOK μ.dialect sc = true)
      (s : Nat) (β : BState) (i : Nat) (S : List Scenario) (i0 n : Nat) (c : Ctx)
      (hcl : Closes s β i (hd :: scItems S) i0)
      (h : At c ((scs.flatMap scenarioLines).map (· ++ [10]) ++ rest) n μ β i),
    ∃ s' β' i' c',
      Closes s' β' i' (hd :: scItems (S ++ expScenarios μ.dialect (n + 1) i0 scs)) (i0 + idsOfScenarios scs) ∧
      At c' rest (n + (scs.map scLines).sum) μ β' i' ∧
      run (parseLinesPure D T stop (fuel + (scs.map scLines).sum) s) c = run (parseLinesPure D T stop fuel s') c' := by
  intro scs
  induction scs with
  | nil =>
    intro _ s β i S i0 n c hcl h
    exact ⟨s, β, i, c, by simpa [expScenarios, idsOfScenarios] using hcl, by simpa using h, rfl⟩
  | cons sc scs ih =>
    intro hok s β i S i0 n c hcl h
    simp only [List.flatMap_cons, List.map_append, List.append_assoc] at h
    obtain ⟨s1, β1, i1, c1, hcl1, h1, hrun1⟩ := scenario_block hf hr D stop T RTf hμ hsep sc (hok sc (by simp))
      s β i _ i0 n (fuel + (scs.map scLines).sum) _ c hcl h
    rw [List.cons_append, scItems_snoc] at hcl1
    obtain ⟨s', β', i', c', hcl', hc', hrun'⟩ := ih (fun x hx => hok x (by simp [hx])) s1 β1 i1 _ _ _ c1 hcl1 h1
    refine ⟨s', β', i', c', ?_, ?_, ?_⟩
    · have e1 : S ++ [expScenario μ.dialect (n + 1) i0 sc] ++
            expScenarios μ.dialect (n + scLines sc + 1) (i0 + scIds sc) scs =
          S ++ expScenarios μ.dialect (n + 1) i0 (sc :: scs) := by
        simp [expScenarios, Nat.add_right_comm]
      have e2 : i0 + scIds sc + idsOfScenarios scs = i0 + idsOfScenarios (sc :: scs) := by
        simp [idsOfScenarios]; omega
      rw [e1, e2] at hcl'
      exact hcl'
    · have e : n + scLines sc + (scs.map scLines).sum = n + ((sc :: scs).map scLines).sum := by simp; omega
      rwa [e] at hc'
    · have e : fuel + ((sc :: scs).map scLines).sum = fuel + (scs.map scLines).sum + scLines sc := by simp; omega
      rw [e, hrun1, hrun']

end scen

theorem scenarioLines_length (sc : MScenario) : (scenarioLines sc).length = scLines sc := by
  simp only [scenarioLines, scLines, tagLineOf, tagLines, List.length_append, List.length_cons, List.length_map]
  split <;> simp <;> omega

theorem flatMap_scenarioLines_length (scs : List MScenario) :
    (scs.flatMap scenarioLines).length = (scs.map scLines).sum := by
  induction scs with
  | nil => rfl
  | cons sc scs ih => simp [List.flatMap_cons, scenarioLines_length, ih]

theorem scenarioLines_noLF {D' : List Dialect} (hr : renderFacts D' = true) {d : Dialect} (hd : d ∈ D')
    (sc : MScenario) (hok : scenarioOK d sc = true) : ∀ b ∈ scenarioLines sc, ∀ x ∈ b, x ≠ 10 := by
  simp only [scenarioOK, Bool.and_eq_true, List.all_eq_true, List.contains_eq_mem, decide_eq_true_eq] at hok
  obtain ⟨⟨⟨htags, hk⟩, hn⟩, hsteps⟩ := hok
  intro b hb
  simp only [scenarioLines, List.mem_append, List.mem_cons, List.mem_map] at hb
  rcases hb with hb | rfl | ⟨st, hst, rfl⟩
  · exact tagLine_noLF sc.tags htags b hb
  · exact title_noLF hr hd sc.kw sc.name
      (mem_allKeywords_title (mem_titleKeywords_of_role _ .ScenarioLine sc.kw hk)) hn
  · have hs := hsteps st hst
    simp only [stepOK, Bool.and_eq_true, beq_iff_eq, firstStepKeyword] at hs
    obtain ⟨-, hk10⟩ := renderFacts_spec hr hd (mem_allKeywords_step (List.mem_of_find?_eq_some hs.1))
    obtain ⟨-, -, ht10⟩ := cleanText_spec hs.2
    intro x hx
    simp only [stepLineOf, List.mem_append, List.mem_cons, List.not_mem_nil, or_false] at hx
    rcases hx with ((rfl | rfl) | hx) | hx
    · decide
    · decide
    · exact hk10 x hx
    · exact ht10 x hx

/-- **Round trip, queue-free parse**: outcome and final id counter -/
theorem roundtrip_pure {D' : List Dialect} (hf : keywordFacts D' = true) (hr : renderFacts D' = true)
    (D : List Dialect) (T : Table) (RTf : RtTable T) (stop : Bool) (μ0 : MState) (hμ : (μ0.reset D).dialect ∈ D')
    (ids : Nat) (m : MFeature) (hwf : WF (μ0.reset D).dialect m = true) :
    (parseWithPure D T stop μ0 ids (render m)).1 =
      .ok (expectedDoc (μ0.reset D).dialect (μ0.reset D).name m ids) ∧
    (parseWithPure D T stop μ0 ids (render m)).2.ids = idsAfter m ids := by
  obtain ⟨tags, kw, name, scs⟩ := m
  simp only [WF, Bool.and_eq_true, List.all_eq_true, List.contains_eq_mem, decide_eq_true_eq] at hwf
  obtain ⟨⟨⟨htags, hk⟩, hn⟩, hscs⟩ := hwf
  have hka : kw ∈ (μ0.reset D).dialect.allKeywords :=
    mem_allKeywords_title (mem_titleKeywords_of_role _ .FeatureLine kw hk)
  have hsplit : splitLines (render ⟨tags, kw, name, scs⟩) =
      (tagLineOf tags ++ [titleLineOf kw name]).map (· ++ [10]) ++ (scs.flatMap scenarioLines).map (· ++ [10]) := by
    have : lineBodies ⟨tags, kw, name, scs⟩ = (tagLineOf tags ++ [titleLineOf kw name]) ++ scs.flatMap scenarioLines := by
      simp [lineBodies]
    rw [render, this, ← List.map_append]
    apply splitLines_flatMap
    intro b hb
    simp only [List.mem_append, List.mem_singleton, List.mem_flatMap] at hb
    rcases hb with (hb | rfl) | ⟨sc, hsc, hb⟩
    · exact tagLine_noLF tags htags b hb
    · exact title_noLF hr hμ kw name hka hn
    · exact scenarioLines_noLF hr hμ sc (hscs sc hsc) b hb
  have hlen : (splitLines (render ⟨tags, kw, name, scs⟩)).length + 2 =
      (2 + (scs.map scLines).sum) + (1 + tagLines tags) := by
    rw [hsplit]
    simp only [List.length_map, List.length_append, List.length_singleton, flatMap_scenarioLines_length,
      tagLineOf, tagLines]
    split <;> simp <;> omega
  have hexp : expectedDoc (μ0.reset D).dialect (μ0.reset D).name ⟨tags, kw, name, scs⟩ ids =
      ⟨some (mkFeat 1 (1 + tagLines tags) (ids + idsOfScenarios scs) tags (μ0.reset D).name kw name
        (expScenarios (μ0.reset D).dialect (1 + tagLines tags + 1) ids scs)), []⟩ := by
    have : 2 + tagLines tags = 1 + tagLines tags + 1 := by omega
    simp [expectedDoc, mkFeat, this]
  rw [hexp]
  have hid : idsAfter ⟨tags, kw, name, scs⟩ ids = ids + idsOfScenarios scs + tags.length := rfl
  rw [hid]
  apply pure_outcome_of_loop D T RTf.start
  intro c hc
  rw [hlen]
  rw [hsplit] at hc
  obtain ⟨c1, β1, h1, hcl, hrun1⟩ := feature_head hf hr D stop T RTf hμ (reset_activeSep D μ0) tags kw name htags hk hn
    _ ids (2 + (scs.map scLines).sum) c hc
  have h1' : At c1 ((scs.flatMap scenarioLines).map (· ++ [10]) ++ []) (1 + tagLines tags) (μ0.reset D) β1 ids := by
    rwa [List.append_nil]
  obtain ⟨s2, β2, i2, c2, hcl2, h2, hrun2⟩ := scenarios_loop hf hr D stop T RTf hμ (reset_activeSep D μ0)
    (hdrItem (μ0.reset D) tags kw name) 2 [] scs hscs 3 β1 ids [] ids (1 + tagLines tags) c1 hcl h1'
  rw [List.nil_append] at hcl2
  obtain ⟨c3, te, hrun3, h3⟩ := finish hf hr D stop T RTf hμ (reset_activeSep D μ0) s2 β2 i2 _ _ 1 tags kw name _
    hcl2 c2 h2
  exact ⟨c3, te, _, by rw [hrun1, hrun2, hrun3], h3⟩

end Lemmas
end GV
