/-
  Lemmas/Roundtrip3Bg.lean — round trip, third model: the steps of a BACKGROUND (states 5 / 7 / 8).
  The three step-block theorems are the ones of Lemmas/Roundtrip2Doc.lean (states 10 / 12 / 13) with the
  scenario node replaced by the background node; their proofs are the same line by line.
-/
import GherkinVerif.Spec.Render3
import GherkinVerif.Lemmas.Roundtrip2Doc
set_option linter.unusedSectionVars false
set_option linter.unusedSimpArgs false
set_option linter.unusedVariables false
namespace GV
namespace Lemmas
open Spec

/-- builder in state 5: the background node holds its keyword line and the finished steps `L`
    (`sd` is unused; it keeps the signatures parallel to the scenario case) -/
def bt5 (sd fi : List (Key × Val)) (tk : Token) (L : List Step) : BState :=
  ⟨⟨.Background, (.tok .BackgroundLine, .tok tk) :: stepItems L⟩ :: ⟨.Feature, fi⟩ :: G0, []⟩

def bt7 (sd fi : List (Key × Val)) (tk : Token) (L : List Step) (ts : Token) : BState :=
  ⟨⟨.Step, [(.tok .StepLine, .tok ts)]⟩ :: ⟨.Background, (.tok .BackgroundLine, .tok tk) :: stepItems L⟩ ::
    ⟨.Feature, fi⟩ :: G0, []⟩

def bt8 (sd fi : List (Key × Val)) (tk : Token) (L : List Step) (ts : Token) (toks : List Token) : BState :=
  ⟨⟨.DataTable, rowItems toks⟩ :: ⟨.Step, [(.tok .StepLine, .tok ts)]⟩ ::
    ⟨.Background, (.tok .BackgroundLine, .tok tk) :: stepItems L⟩ :: ⟨.Feature, fi⟩ :: G0, []⟩

def pendB : Nat → List Prod
  | 7 => [.end_ .Step]
  | 8 => [.end_ .DataTable, .end_ .Step]
  | _ => []

def InBg (sd fi : List (Key × Val)) (tk : Token) (s : Nat) (β : BState) (i : Nat) (L : List Step) (i1 : Nat) : Prop :=
  (s = 5 ∨ s = 7 ∨ s = 8) ∧ ∀ t, applyOps (prodOps t (pendB s)) β i = (.ok (), bt5 sd fi tk L, i1)

def stepRowOKB (T : Table) (s : Nat) : Bool :=
  rowHas T s fun row =>
    firstOf .StepLine row.branches == some ⟨.StepLine, none, pendB s ++ [.start .Step, .build], 7⟩

/-- the three branches by which a scenario or the end of file follows state `s`, closing with `cl` -/
def midG (T : Table) (s : Nat) (cl : List Prod) : Bool :=
  rowHas T s fun row =>
    firstOf .ScenarioLine row.branches ==
      some ⟨.ScenarioLine, none, cl ++ [.start .ScenarioDefinition, .start .Scenario, .build], 10⟩ &&
    firstTag0 row.branches ==
      some ⟨.TagLine, some 0, cl ++ [.start .ScenarioDefinition, .start .Tags, .build], 9⟩ &&
    row.branches.head? == some ⟨.EOF, none, cl ++ [.end_ .Feature, .build], 34⟩

def closeB (s : Nat) : List Prod := pendB s ++ [.end_ .Background]

/-- the table facts of the third round trip: those of the second, the background line in state 3, and
    for the background states 5 / 7 / 8 the step, table-row, scenario, tag and EOF branches -/
def rt3Facts (T : Table) : Bool :=
  rt2Facts T &&
  rowHas T 3 (fun row => firstOf .BackgroundLine row.branches ==
    some ⟨.BackgroundLine, none, [.end_ .FeatureHeader, .start .Background, .build], 5⟩) &&
  stepRowOKB T 5 && stepRowOKB T 7 && stepRowOKB T 8 &&
  rowHas T 7 (fun row => firstOf .TableRow row.branches == some ⟨.TableRow, none, [.start .DataTable, .build], 8⟩) &&
  rowHas T 8 (fun row => firstOf .TableRow row.branches == some ⟨.TableRow, none, [.build], 8⟩) &&
  midG T 5 (closeB 5) && midG T 7 (closeB 7) && midG T 8 (closeB 8)

structure RtTable3 (T : Table) : Prop where
  base2 : RtTable2 T
  bgline : ∃ row, T.row? 3 = some row ∧ firstOf .BackgroundLine row.branches =
    some ⟨.BackgroundLine, none, [.end_ .FeatureHeader, .start .Background, .build], 5⟩
  bstep : ∀ s, s = 5 ∨ s = 7 ∨ s = 8 → stepRowOKB T s = true
  t7 : ∃ row, T.row? 7 = some row ∧
    firstOf .TableRow row.branches = some ⟨.TableRow, none, [.start .DataTable, .build], 8⟩
  t8 : ∃ row, T.row? 8 = some row ∧ firstOf .TableRow row.branches = some ⟨.TableRow, none, [.build], 8⟩
  bmid : ∀ s, s = 5 ∨ s = 7 ∨ s = 8 → midG T s (closeB s) = true

theorem RtTable3.of_facts {T : Table} (h : rt3Facts T = true) : RtTable3 T := by
  simp only [rt3Facts, Bool.and_eq_true] at h
  obtain ⟨⟨⟨⟨⟨⟨⟨⟨⟨h0, h1⟩, h2⟩, h3⟩, h4⟩, h5⟩, h6⟩, h7⟩, h8⟩, h9⟩ := h
  refine ⟨RtTable2.of_facts h0, ?_, ?_, ?_, ?_, ?_⟩
  · obtain ⟨row, hr, hp⟩ := rowHas_spec h1
    simp only [beq_iff_eq] at hp
    exact ⟨row, hr, hp⟩
  · rintro s (rfl | rfl | rfl) <;> assumption
  · obtain ⟨row, hr, hp⟩ := rowHas_spec h5
    simp only [beq_iff_eq] at hp
    exact ⟨row, hr, hp⟩
  · obtain ⟨row, hr, hp⟩ := rowHas_spec h6
    simp only [beq_iff_eq] at hp
    exact ⟨row, hr, hp⟩
  · rintro s (rfl | rfl | rfl) <;> assumption

section bg
variable {D' : List Dialect} (hf : keywordFacts D' = true) (hr : renderFacts D' = true)
variable (D : List Dialect) (stop : Bool) (T : Table) (RT3 : RtTable3 T)
variable {μ : MState} (hμ : μ.dialect ∈ D') (hsep : μ.activeSep = none)
include hf hr RT3 hμ hsep

/-- further table rows in state 8 -/
theorem rows_loopB (sd fi : List (Key × Val)) (tk : Token) (L : List Step) (ts : Token) (i fuel : Nat)
    (rest : List Str) :
    ∀ (rs : List (List Str)) (hrs : ∀ r ∈ rs, ∀ c ∈ r, cellOK c = true) (toks : List Token) (n : Nat) (c : Ctx)
      (h : At c (rs.map (fun r => rowLineOf r ++ [10]) ++ rest) n μ (bt8 sd fi tk L ts toks) i),
    ∃ c', At c' rest (n + rs.length) μ (bt8 sd fi tk L ts (toks ++ rowToks μ (n + 1) rs)) i ∧
      run (parseLinesPure D T stop (fuel + rs.length) 8) c = run (parseLinesPure D T stop fuel 8) c' := by
  obtain ⟨row13, hrow13, hf13⟩ := RT3.t8
  intro rs
  induction rs with
  | nil => intro _ toks n c h; exact ⟨c, by simpa [rowToks] using h, rfl⟩
  | cons r rs ih =>
    intro hrs toks n c h
    simp only [List.map_cons, List.cons_append] at h
    obtain ⟨c1, h1, hrun1⟩ := lines_step D stop T (fuel + rs.length) 8 8 _ h
      (bt8 sd fi tk L ts (toks ++ [rowTok μ (n + 1) r])) i
      (by
        intro c1 h1
        simp only [matchTokenPure, hrow13]
        exact try_first D stop T row13 _ (rowTok μ (n + 1) r) _ rfl .TableRow _ hf13 rfl h1
          (fun K' h1' h2' => row_others_no hr D μ hμ hsep r _ K' h1' h2')
          (row_match D μ r (hrs r (by simp)) _ (n + 1) rfl rfl) _ _
          (by simp only [bt8, ← rowItems_snoc]; rfl))
    obtain ⟨c', hc', hrun'⟩ := ih (fun r' hr' => hrs r' (by simp [hr'])) _ (n + 1) c1 h1
    refine ⟨c', ?_, ?_⟩
    · have e : toks ++ [rowTok μ (n + 1) r] ++ rowToks μ (n + 1 + 1) rs = toks ++ rowToks μ (n + 1) (r :: rs) := by
        simp [rowToks]
      have e2 : n + 1 + rs.length = n + (r :: rs).length := by simp; omega
      rw [e, e2] at hc'
      exact hc'
    · have e : fuel + (r :: rs).length = fuel + rs.length + 1 := by simp; omega
      rw [e, hrun1, hrun']

/-- **the step block**: a step line and the rows of its table -/
theorem step_blockB (sd fi : List (Key × Val)) (tk : Token) (st : MStep2) (hst : stepOK2 μ.dialect st = true)
    (s : Nat) (β : BState) (i : Nat) (L : List Step) (i1 n fuel : Nat) (rest : List Str) (c : Ctx)
    (hin : InBg sd fi tk s β i L i1)
    (h : At c ((stepLines2 st).map (· ++ [10]) ++ rest) n μ β i) :
    ∃ s' β' c', InBg sd fi tk s' β' i1 (L ++ [expStep2 μ.dialect (n + 1) i1 st]) (i1 + stepIdCount st) ∧
      At c' rest (n + stepLineCount st) μ β' i1 ∧
      run (parseLinesPure D T stop (fuel + stepLineCount st) s) c = run (parseLinesPure D T stop fuel s') c' := by
  obtain ⟨kw, text, table⟩ := st
  simp only [stepOK2, Bool.and_eq_true] at hst
  obtain ⟨hcore, htab⟩ := hst
  have htab' := tableOK_spec htab
  obtain ⟨rowS, hrowS, hpS⟩ := rowHas_spec (RT3.bstep s hin.1)
  simp only [beq_iff_eq] at hpS
  obtain ⟨row12, hrow12, hf12⟩ := RT3.t7
  simp only [stepLines2, List.map_cons, List.cons_append, List.map_map] at h
  -- the step line
  obtain ⟨c1, h1, hrun1⟩ := lines_step D stop T (fuel + table.length) s 7 _ h
    (bt7 sd fi tk L (stepTok μ (n + 1) ⟨kw, text⟩)) i1
    (by
      intro c1 h1
      simp only [matchTokenPure, hrowS]
      exact try_first D stop T rowS _ (stepTok μ (n + 1) ⟨kw, text⟩) _ rfl .StepLine _ hpS rfl h1
        (fun K' h1' h2' => step_others_no hf hr D T RT3.base2.base hμ hsep ⟨kw, text⟩ hcore _ rfl K' h1' h2')
        (step_match hf hr D μ hμ ⟨kw, text⟩ hcore _ (n + 1) rfl rfl) _ _
        (by
          simp only [prodOps_append]
          rw [applyOps_append_ok _ _ _ _ _ _ (hin.2 _)]
          rfl))
  cases table with
  | nil =>
    refine ⟨7, _, c1, ⟨.inr (.inl rfl), fun t => ?_⟩, by simpa [stepLineCount] using h1,
      by simpa [stepLineCount] using hrun1⟩
    simp only [pendB, prodOps, applyOps, applyOp, bt7, endRule_step, List.cons_append, stepItems_snoc]
    simp [expStep2, expArg, bt5, stepIdCount, MStep2.core]
  | cons r rs =>
    simp only [List.map_cons, List.cons_append, Function.comp_def] at h1
    have hcells : ∀ r' ∈ r :: rs, ∀ c ∈ r', cellOK c = true := fun r' hr' => (htab' r' hr').2
    -- the first row opens the table
    obtain ⟨c2, h2, hrun2⟩ := lines_step D stop T (fuel + rs.length) 7 8 _ h1
      (bt8 sd fi tk L (stepTok μ (n + 1) ⟨kw, text⟩) [rowTok μ (n + 1 + 1) r]) i1
      (by
        intro c2 h2
        simp only [matchTokenPure, hrow12]
        exact try_first D stop T row12 _ (rowTok μ (n + 1 + 1) r) _ rfl .TableRow _ hf12 rfl h2
          (fun K' h1' h2' => row_others_no hr D μ hμ hsep r _ K' h1' h2')
          (row_match D μ r (hcells r (by simp)) _ (n + 1 + 1) rfl rfl) _ _ rfl)
    obtain ⟨c3, h3, hrun3⟩ := rows_loopB hf hr D stop T RT3 hμ hsep sd fi tk L _ i1 fuel rest rs
      (fun r' hr' => hcells r' (by simp [hr'])) _ (n + 1 + 1) c2 h2
    refine ⟨8, bt8 sd fi tk L (stepTok μ (n + 1) ⟨kw, text⟩) ([rowTok μ (n + 1 + 1) r] ++ rowToks μ (n + 1 + 1 + 1) rs), c3,
      ⟨.inr (.inr rfl), fun t => ?_⟩, ?_, ?_⟩
    · have hrect : ∀ t' ∈ rowToks μ (n + 1 + 1 + 1) rs, t'.items.length = (rowTok μ (n + 1 + 1) r).items.length := by
        have : ∀ (rs' : List (List Str)) (k : Nat), (∀ r' ∈ rs', r'.length = r.length) →
            ∀ t' ∈ rowToks μ k rs', t'.items.length = r.length := by
          intro rs'
          induction rs' with
          | nil => intro k _ t' ht'; cases ht'
          | cons a rs' ih' =>
            intro k hl t' ht'
            simp only [rowToks, List.mem_cons] at ht'
            rcases ht' with rfl | ht'
            · simp [rowTok, cellCols_length, hl a (by simp)]
            · exact ih' (k + 1) (fun r' hr' => hl r' (by simp [hr'])) t' ht'
        intro t' ht'
        rw [this rs _ (fun r' hr' => by
          have := (htab' r' (by simp [hr'])).1
          simpa using this) t' ht']
        simp [rowTok, cellCols_length]
      have e : [rowTok μ (n + 1 + 1) r] ++ rowToks μ (n + 1 + 1 + 1) rs = rowTok μ (n + 1 + 1) r :: rowToks μ (n + 1 + 1 + 1) rs := rfl
      simp only [pendB, prodOps, applyOps, applyOp, bt8, e, endRule_datatable _ _ hrect,
        List.cons_append, List.nil_append, endRule_step_table, stepItems_snoc]
      have e2 : rowTok μ (n + 1 + 1) r :: rowToks μ (n + 1 + 1 + 1) rs = rowToks μ (n + 1 + 1) (r :: rs) := rfl
      rw [e2, numberRows_rowToks]
      simp [expStep2, expArg, bt5, stepIdCount, rowToks_length, getLocation, rowTok, Token.loc, Nat.add_assoc]
    · have e : n + 1 + 1 + rs.length = n + stepLineCount ⟨kw, text, r :: rs⟩ := by simp [stepLineCount]; omega
      rwa [e] at h3
    · have e : fuel + stepLineCount ⟨kw, text, r :: rs⟩ = fuel + (r :: rs).length + 1 := by simp [stepLineCount]; omega
      have e2 : fuel + (r :: rs).length = fuel + rs.length + 1 := by simp; omega
      rw [e, hrun1, e2, hrun2, hrun3]

/-- the steps of a scenario -/
theorem steps_loopB (sd fi : List (Key × Val)) (tk : Token) (fuel : Nat) (rest : List Str) :
    ∀ (steps : List MStep2) (hok : ∀ st ∈ steps, stepOK2 μ.dialect st = true)
      (s : Nat) (β : BState) (i : Nat) (L : List Step) (i1 n : Nat) (c : Ctx)
      (hin : InBg sd fi tk s β i L i1)
      (h : At c ((steps.flatMap stepLines2).map (· ++ [10]) ++ rest) n μ β i),
    ∃ s' β' i' c', InBg sd fi tk s' β' i' (L ++ expSteps2 μ.dialect (n + 1) i1 steps) (i1 + stepsIds steps) ∧
      At c' rest (n + stepsLines steps) μ β' i' ∧
      run (parseLinesPure D T stop (fuel + stepsLines steps) s) c = run (parseLinesPure D T stop fuel s') c' := by
  intro steps
  induction steps with
  | nil =>
    intro _ s β i L i1 n c hin h
    exact ⟨s, β, i, c, by simpa [expSteps2, stepsIds] using hin, by simpa [stepsLines] using h, rfl⟩
  | cons st steps ih =>
    intro hok s β i L i1 n c hin h
    simp only [List.flatMap_cons, List.map_append, List.append_assoc] at h
    obtain ⟨s1, β1, c1, hin1, h1, hrun1⟩ := step_blockB hf hr D stop T RT3 hμ hsep sd fi tk st (hok st (by simp))
      s β i L i1 n (fuel + stepsLines steps) _ c hin h
    obtain ⟨s', β', i', c', hin', hc', hrun'⟩ := ih (fun x hx => hok x (by simp [hx])) s1 β1 i1 _ _ _ c1 hin1 h1
    refine ⟨s', β', i', c', ?_, ?_, ?_⟩
    · have e1 : L ++ [expStep2 μ.dialect (n + 1) i1 st] ++
            expSteps2 μ.dialect (n + stepLineCount st + 1) (i1 + stepIdCount st) steps =
          L ++ expSteps2 μ.dialect (n + 1) i1 (st :: steps) := by
        simp [expSteps2, Nat.add_right_comm]
      have e2 : i1 + stepIdCount st + stepsIds steps = i1 + stepsIds (st :: steps) := by simp [stepsIds]; omega
      rw [e1, e2] at hin'
      exact hin'
    · have e : n + stepLineCount st + stepsLines steps = n + stepsLines (st :: steps) := by simp [stepsLines]; omega
      rwa [e] at hc'
    · have e : fuel + stepsLines (st :: steps) = fuel + stepsLines steps + stepLineCount st := by
        simp [stepsLines]; omega
      rw [e, hrun1, hrun']

end bg

end Lemmas
end GV
