/-
  Lemmas/LayoutDoc4IndentSim.lean — property C16, goal G2b (i): the simulation of
  Lemmas/LayoutDoc3IndentSim.lean with the refined escape (`BadJ`: a moved line built neither as an
  indentable kind nor as a CLOSING doc-string delimiter), on top of `matchTok_ind2`.  The lemmas
  that do not mention the escape are those of Lemmas/LayoutDoc3IndentSim.lean.
-/
import GherkinVerif.Lemmas.LayoutDoc4Indent
namespace GV
namespace Layout4
open Lemmas Spec Layout3


/-- the original run has handed a moved line to the builder neither under an indentable kind nor
    as a closing doc-string delimiter -/
def BadJ (w : Nat → Nat) (c : Ctx) : Prop :=
  ∃ t ∈ c.builds, 0 < w (t.lineNo - 1) ∧ indentOkTok t = false

theorem growsB_bad2 {α} {m : PM α} (h : GrowsB m) {w : Nat → Nat} {c : Ctx} (hb : BadJ w c) : BadJ w (run m c).2 := by
  obtain ⟨suf, e⟩ := h c
  obtain ⟨t, ht, h1, h2⟩ := hb
  exact ⟨t, by rw [e]; exact List.mem_append_left _ ht, h1, h2⟩


section simJ
variable {w : Nat → Nat}


/-- … with the escape -/
def SimWV (w : Nat → Nat) {α} (R : α → α → Prop) (m1 m2 : PM α) : Prop :=
  ∀ c1 c2, CtxW w c1 c2 → PostW w R c1 c2 (run m1 c1) (run m2 c2) ∨ BadJ w (run m1 c1).2

theorem simW_toV {α} {R : α → α → Prop} {m1 m2 : PM α} (h : SimW w R m1 m2) : SimWV w R m1 m2 :=
  fun c1 c2 hc => .inl (h c1 c2 hc)


theorem SimWV.bind {α β} {R : α → α → Prop} {S : β → β → Prop} {m1 m2 : PM α} {f1 f2 : α → PM β}
    (h1 : SimWV w R m1 m2) (hg : ∀ a, GrowsB (f1 a)) (h2 : ∀ a1 a2, R a1 a2 → SimWV w S (f1 a1) (f2 a2)) :
    SimWV w S (m1 >>= f1) (m2 >>= f2) := by
  intro c1 c2 hc
  rcases h1 c1 c2 hc with (⟨a1, a2, c1', c2', e1, e2, hr, hc', fr1, fr2, hm1, hm2⟩ | ⟨e, c1', c2', e1, e2, hc'⟩) | hbad
  · rw [prun_bind, prun_bind, e1, e2]
    rcases h2 a1 a2 hr c1' c2' hc' with (⟨b1, b2, c1'', c2'', e1', e2', hs, hc'', fr1', fr2', hm1', hm2'⟩ | h) | hbad
    · exact .inl (.inl ⟨b1, b2, c1'', c2'', e1', e2', hs, hc'', fr1.trans fr1', fr2.trans fr2',
        hm1'.trans hm1, hm2'.trans hm2⟩)
    · exact .inl (.inr h)
    · exact .inr hbad
  · rw [prun_bind, prun_bind, e1, e2]; exact .inl (.inr ⟨e, c1', c2', rfl, rfl, hc'⟩)
  · refine .inr ?_
    rw [prun_bind]
    rcases hr : run m1 c1 with ⟨r, c1'⟩
    rw [hr] at hbad
    cases r with
    | error e => exact hbad
    | ok a => exact growsB_bad2 (hg a) hbad


/-- `build` of a bad pair: the first run records the token (escape), unless both crash alike -/
theorem build_bad2 (cap : Nat) (stop : Bool) {t1 t2 : Token} (ht : BadPair2 w t1 t2) (c1 c2 : Ctx)
    (hc : CtxW w c1 c2) :
    ErrW w (run (runProd cap stop t1 .build) c1) (run (runProd cap stop t2 .build) c2) ∨
    BadJ w (run (runProd cap stop t1 .build) c1).2 := by
  rw [run_runProd, run_runProd]
  simp only []
  obtain ⟨K, m1, m2, hK, hpos, htext⟩ := ht
  have bad : ∀ β', c1.β.build t1 = .ok β' →
      BadJ w (match c1.β.build t1 with
        | .ok β' => ((.ok () : Except Abort Unit), { c1 with β := β', builds := c1.builds ++ [t1] })
        | .error e => run (liftB cap stop (.error e)) c1).2 := by
    intro β' hb
    rw [hb]
    exact ⟨t1, by simp, hpos, hK⟩
  by_cases hKc : K = .Comment
  · subst hKc
    obtain ⟨x1, x2⟩ := htext rfl
    cases h1 : t1.text with
    | none => rw [h1] at x1; cases x1
    | some tx =>
      exact .inr (bad _ (by rw [layBuild_comment _ _ m1, h1]))
  · rw [layBuild_other _ _ K hKc m1, layBuild_other _ _ K hKc m2] at *
    have hst := hc.β.1
    revert hst bad
    generalize c1.β.stack = s1
    generalize c2.β.stack = s2
    intro bad hst
    cases hst with
    | nil =>
      left
      simp only [addToTop, run_liftB]
      exact ⟨_, c1, c2, rfl, rfl, hc⟩
    | cons _ _ => exact .inr (bad _ rfl)

/-- productions that hand a bad pair to the builder: both runs abort alike before that, or the
    first run records the token -/
theorem runProds_bad2 (cap : Nat) (stop : Bool) {t1 t2 : Token} (ht : BadPair2 w t1 t2) :
    ∀ (ps : List Prod), .build ∈ ps → ∀ c1 c2, CtxW w c1 c2 →
      ErrW w (run (runProds cap stop t1 ps) c1) (run (runProds cap stop t2 ps) c2) ∨
      BadJ w (run (runProds cap stop t1 ps) c1).2 := by
  intro ps
  induction ps with
  | nil => intro h; cases h
  | cons p ps ih =>
    intro hmem c1 c2 hc
    unfold runProds
    rw [prun_bind, prun_bind]
    by_cases hp : p = .build
    · subst hp
      rcases build_bad2 cap stop ht c1 c2 hc with h | hbad
      · obtain ⟨e, c1', c2', e1, e2, hc'⟩ := h
        rw [e1, e2]
        exact .inl ⟨e, c1', c2', rfl, rfl, hc'⟩
      · right
        rcases hr : run (runProd cap stop t1 .build) c1 with ⟨r, c1'⟩
        rw [hr] at hbad
        cases r with
        | error e => exact hbad
        | ok a => exact growsB_bad2 (growsB_runProds cap stop t1 ps) hbad
    · have hmem' : .build ∈ ps := by
        rcases List.mem_cons.1 hmem with h | h
        · exact absurd h.symm hp
        · exact h
      rcases simW_runProd (w := w) cap stop (t1 := t1) (t2 := t2) p (fun h => absurd h hp) c1 c2 hc with
        ⟨a1, a2, c1', c2', e1, e2, -, hc', -⟩ | ⟨e, c1', c2', e1, e2, hc'⟩
      · rw [e1, e2]
        exact ih hmem' c1' c2' hc'
      · rw [e1, e2]
        exact .inl ⟨e, c1', c2', rfl, rfl, hc'⟩

/-- … with the escape -/
def SimV (w : Nat → Nat) {α} (R : α → α → Prop) (m1 m2 : PM α) : Prop :=
  ∀ c1 c2, CtxI w c1 c2 → LinesRel w c1 c2 → PostI w R c1 c2 (run m1 c1) (run m2 c2) ∨ BadJ w (run m1 c1).2

theorem simI_toV {α} {R : α → α → Prop} {m1 m2 : PM α} (h : SimI w R m1 m2) : SimV w R m1 m2 :=
  fun c1 c2 hc hl => .inl (h c1 c2 hc hl)

/-- a strict step, then anything -/
theorem SimV.bindS {α β} {R : α → α → Prop} {S : β → β → Prop} {m1 m2 : PM α} {f1 f2 : α → PM β}
    (h1 : SimI w R m1 m2) (h2 : ∀ a1 a2, R a1 a2 → SimV w S (f1 a1) (f2 a2)) :
    SimV w S (m1 >>= f1) (m2 >>= f2) := by
  intro c1 c2 hc hl
  rcases h1 c1 c2 hc hl with ⟨a1, a2, c1', c2', e1, e2, hr, hc', fr1, fr2⟩ | ⟨e, c1', c2', e1, e2, hc'⟩
  · rw [prun_bind, prun_bind, e1, e2]
    rcases h2 a1 a2 hr c1' c2' hc' (hl.frame fr1 fr2) with (⟨b1, b2, c1'', c2'', e1', e2', hs, hc'', fr1', fr2'⟩ | h) | hb
    · exact .inl (.inl ⟨b1, b2, c1'', c2'', e1', e2', hs, hc'', fr1.trans fr1', fr2.trans fr2'⟩)
    · exact .inl (.inr h)
    · exact .inr hb
  · rw [prun_bind, prun_bind, e1, e2]; exact .inl (.inr ⟨e, c1', c2', rfl, rfl, hc'⟩)

/-- a step that may escape, then anything that only appends to the built tokens -/
theorem SimV.bindU {α β} {R : α → α → Prop} {S : β → β → Prop} {m1 m2 : PM α} {f1 f2 : α → PM β}
    (h1 : SimV w R m1 m2) (hg : ∀ a, GrowsB (f1 a)) (h2 : ∀ a1 a2, R a1 a2 → SimV w S (f1 a1) (f2 a2)) :
    SimV w S (m1 >>= f1) (m2 >>= f2) := by
  intro c1 c2 hc hl
  rcases h1 c1 c2 hc hl with (⟨a1, a2, c1', c2', e1, e2, hr, hc', fr1, fr2⟩ | ⟨e, c1', c2', e1, e2, hc'⟩) | hbad
  · rw [prun_bind, prun_bind, e1, e2]
    rcases h2 a1 a2 hr c1' c2' hc' (hl.frame fr1 fr2) with (⟨b1, b2, c1'', c2'', e1', e2', hs, hc'', fr1', fr2'⟩ | h) | hb
    · exact .inl (.inl ⟨b1, b2, c1'', c2'', e1', e2', hs, hc'', fr1.trans fr1', fr2.trans fr2'⟩)
    · exact .inl (.inr h)
    · exact .inr hb
  · rw [prun_bind, prun_bind, e1, e2]; exact .inl (.inr ⟨e, c1', c2', rfl, rfl, hc'⟩)
  · refine .inr ?_
    rw [prun_bind]
    rcases hr : run m1 c1 with ⟨r, c1'⟩
    rw [hr] at hbad
    cases r with
    | error e => exact hbad
    | ok a => exact growsB_bad2 (hg a) hbad

/-- what two related `match_<k>` calls return: the same verdict, and either everything stays
    related, or both succeeded with a kind that is not indentable on a moved line -/
def MatchPost2 (w : Nat → Nat) (K : Kind) (c1 c2 : Ctx) (x1 x2 : Except Abort (Bool × Token) × Ctx) : Prop :=
  (∃ m t1' t2' c1' c2', x1 = (.ok (m, t1'), c1') ∧ x2 = (.ok (m, t2'), c2') ∧ Frame c1 c1' ∧ Frame c2 c2' ∧
    CtxW w c1' c2' ∧
    ((c2'.μ = c1'.μ ∧ (m = false → TokInd w t1' t2') ∧ (m = true → BuildOK w t1' t2') ∧
        (m = true → K ∈ Spec.structural → TokInd w t1' t2')) ∨
      (m = true ∧ BadPair2 w t1' t2' ∧ indentable K = false ∧
        ((K ≠ .DocStringSeparator ∧ K ≠ .Language) → c2'.μ = c1'.μ)))) ∨
  ErrW w x1 x2

theorem ind2_matchP {D : List Dialect} (cap : Nat) (stop : Bool) (K : Kind) {t1 t2 : Token} (ht : TokInd w t1 t2)
    (c1 c2 : Ctx) (hc : CtxI w c1 c2) :
    MatchPost2 w K c1 c2 (run (matchP D cap stop K t1) c1) (run (matchP D cap stop K t2) c2) := by
  rw [run_matchP, run_matchP, hc.μ]
  obtain ⟨hinv, hgb⟩ := matchTok_ind2 w D K c1.μ ht
  simp only []
  have hcW : ∀ μ1 μ2 n1 n2, CtxW w { c1 with μ := μ1, calls := n1 } { c2 with μ := μ2, calls := n2 } :=
    fun _ _ _ _ => ⟨hc.errors, hc.errs0, hc.β, hc.ids, hc.unexpected⟩
  rcases hgb with hg | ⟨m1, m2, hbp, hK, hμ⟩
  · cases hr : (matchTok D K c1.μ t1).1.res with
    | matched =>
      have hr2 := hg.res; rw [hr] at hr2
      rw [hr2]
      exact .inl ⟨true, _, _, _, _, rfl, rfl, ⟨rfl, rfl⟩, ⟨rfl, rfl⟩, hcW _ _ _ _,
        .inl ⟨hg.μ, fun h => (by cases h), fun _ => hg.build (by rw [hr]; rfl),
          fun _ hK => hg.tokS (by rw [hr]; rfl) hK⟩⟩
    | no =>
      have hr2 := hg.res; rw [hr] at hr2
      rw [hr2]
      exact .inl ⟨false, _, _, _, _, rfl, rfl, ⟨rfl, rfl⟩, ⟨rfl, rfl⟩, hcW _ _ _ _,
        .inl ⟨hg.μ, fun _ => hg.tok (by rw [hr]; rfl), fun h => (by cases h), fun h => (by cases h)⟩⟩
    | raised e =>
      have hr2 := hg.res; rw [hr] at hr2
      rw [hr2]
      simp only [mapRes]
      cases stop with
      | true => exact .inr ⟨_, _, _, rfl, rfl, hcW _ _ _ _⟩
      | false =>
        simp only [Bool.false_eq_true, ↓reduceIte]
        rcases simW_addError cap e (matchTok_raised_col0 D K c1.μ t1 e hr) _ _ (hcW (matchTok D K c1.μ t1).1.μ
            (matchTok D K c1.μ t2).1.μ (c1.calls + if (matchTok D K c1.μ t1).2 = true then 1 else 0)
            (c2.calls + if (matchTok D K c1.μ t2).2 = true then 1 else 0)) with
          ⟨_, _, c1', c2', e1, e2, -, hc', fr1, fr2, hm1, hm2⟩ | ⟨e', c1', c2', e1, e2, hc'⟩
        · rw [e1, e2]
          refine .inl ⟨false, _, _, _, _, rfl, rfl, fr1, fr2, hc',
            .inl ⟨?_, fun _ => hg.tok (by rw [hr]; rfl), fun h => (by cases h), fun h => (by cases h)⟩⟩
          rw [hm2, hm1]; exact hg.μ
        · rw [e1, e2]
          exact .inr ⟨_, _, _, rfl, rfl, hc'⟩
  · rw [m1, m2]
    exact .inl ⟨true, _, _, _, _, rfl, rfl, ⟨rfl, rfl⟩, ⟨rfl, rfl⟩, hcW _ _ _ _, .inr ⟨rfl, hbp, hK, hμ⟩⟩

theorem ind2_matchAny {D : List Dialect} (cap : Nat) (stop : Bool) (ks : List Kind)
    (hks : ∀ K ∈ ks, K ≠ .DocStringSeparator ∧ K ≠ .Language) {t1 t2 : Token} (ht : TokInd w t1 t2) :
    SimI w (AnyRelI w) (matchAny D cap stop ks t1) (matchAny D cap stop ks t2) := by
  induction ks generalizing t1 t2 with
  | nil => exact SimI.pure ⟨rfl, fun _ => ht⟩
  | cons K ks ih =>
    intro c1 c2 hc hl
    unfold matchAny
    rw [prun_bind, prun_bind]
    rcases ind2_matchP (D := D) cap stop K ht c1 c2 hc with
      ⟨m, t1', t2', c1', c2', e1, e2, fr1, fr2, hcW, hcase⟩ | ⟨e, c1', c2', e1, e2, hc'⟩
    · rw [e1, e2]
      simp only []
      have hμ : c2'.μ = c1'.μ := by
        rcases hcase with ⟨h, -⟩ | ⟨-, -, -, h⟩
        · exact h
        · exact h (hks K List.mem_cons_self)
      cases m with
      | true =>
        simp only [↓reduceIte, prun_pure]
        exact .inl ⟨_, _, _, _, rfl, rfl, ⟨rfl, fun h => by cases h⟩, ⟨hcW, hμ⟩, fr1, fr2⟩
      | false =>
        simp only [Bool.false_eq_true, ↓reduceIte]
        have ht' : TokInd w t1' t2' := by
          rcases hcase with ⟨-, h, -⟩ | ⟨h, -⟩
          · exact h rfl
          · cases h
        exact (ih (fun K' hK' => hks K' (List.mem_cons_of_mem _ hK')) ht' c1' c2' ⟨hcW, hμ⟩ (hl.frame fr1 fr2)).frames
          fr1 fr2
    · rw [e1, e2]
      exact .inr ⟨e, c1', c2', rfl, rfl, hc'⟩

theorem ind2_peek {D : List Dialect} (cap : Nat) (stop : Bool) {la : LookAhead} (hla : LaOkI la) :
    ∀ (n : Nat) (ls1 ls2 : List Str), LinesInd w n ls1 ls2 →
      SimI w Eq (peekLoop D cap stop la ls1 (n + 1)) (peekLoop D cap stop la ls2 (n + 1)) := by
  intro n ls1 ls2 h
  induction h with
  | nil n =>
    unfold peekLoop
    refine SimI.bind (ind2_matchAny cap stop _ hla.1 (tokInd_eof (n + 1))) fun r1 r2 hr => ?_
    obtain ⟨m1, t1'⟩ := r1
    obtain ⟨m2, t2'⟩ := r2
    obtain ⟨hm, ht'⟩ := hr
    simp only at hm ht'
    subst hm
    dsimp only
    split
    · exact SimI.pure rfl
    · rename_i hm1
      have : m1 = false := by cases m1 <;> simp_all
      exact SimI.bind (ind2_matchAny cap stop _ hla.2 (ht' this)) fun _ _ _ => SimI.pure rfl
  | cons ws hws hlen _ ih =>
    unfold peekLoop
    refine SimI.bind (ind2_matchAny cap stop _ hla.1 (tokInd_fresh hws hlen)) fun r1 r2 hr => ?_
    obtain ⟨m1, t1'⟩ := r1
    obtain ⟨m2, t2'⟩ := r2
    obtain ⟨hm, ht'⟩ := hr
    simp only at hm ht'
    subst hm
    dsimp only
    split
    · exact SimI.pure rfl
    · rename_i hm1
      have : m1 = false := by cases m1 <;> simp_all
      refine SimI.bind (ind2_matchAny cap stop _ hla.2 (ht' this)) fun r1 r2 hr => ?_
      obtain ⟨s1, t1''⟩ := r1
      obtain ⟨s2, t2''⟩ := r2
      obtain ⟨hs, -⟩ := hr
      simp only at hs
      subst hs
      dsimp only
      split
      · exact ih
      · exact SimI.pure rfl

theorem ind2_lookaheadPure {D : List Dialect} (cap : Nat) (stop : Bool) {la : LookAhead} (hla : LaOkI la) :
    SimI w Eq (lookaheadPure D cap stop la) (lookaheadPure D cap stop la) := by
  intro c1 c2 hc hl
  unfold lookaheadPure
  rw [prun_bind, prun_bind, run_get, run_get]
  simp only []
  rw [hl.1]
  exact ind2_peek cap stop hla c1.lineNo c1.lines c2.lines hl.2 c1 c2 hc hl

theorem SimV.frames {α} {R : α → α → Prop} {c1 c2 d1 d2 : Ctx} {x1 x2 : Except Abort α × Ctx} {y : Ctx}
    (h : PostI w R d1 d2 x1 x2 ∨ BadJ w y) (f1 : Frame c1 d1) (f2 : Frame c2 d2) :
    PostI w R c1 c2 x1 x2 ∨ BadJ w y := by
  rcases h with h | h
  · exact .inl (h.frames f1 f2)
  · exact .inr h


theorem ind2_tryBranchesPure {D : List Dialect} {T : Table}
    (hL : ∀ (i : Nat) (la : LookAhead), T.lookaheads[i]? = some la → LaOkI la) (stop : Bool) (row : StateRow)
    (bs : List Branch) (hbs : BranchesOk bs) {t1 t2 : Token} (ht : TokInd w t1 t2) :
    SimV w Eq (tryBranchesPure D T stop row bs t1) (tryBranchesPure D T stop row bs t2) := by
  induction bs generalizing t1 t2 with
  | nil =>
    unfold tryBranchesPure
    obtain ⟨he, hcol, hno⟩ := unexpectedErr_ind (w := w) row ht
    rw [he, hno]
    refine simI_toV (SimW.toI (SimW.bind (R := fun _ _ => True) ?_ fun _ _ _ => ?_))
    · intro c1 c2 hc
      exact .inl ⟨⟨⟩, ⟨⟩, _, _, rfl, rfl, trivial,
        ⟨hc.errors, hc.errs0, hc.β, hc.ids, by simp [hc.unexpected]⟩, ⟨rfl, rfl⟩, ⟨rfl, rfl⟩, rfl, rfl⟩
    · cases stop with
      | true => exact fun c1 c2 hc => .inr ⟨_, c1, c2, rfl, rfl, hc⟩
      | false =>
        simp only [Bool.false_eq_true, ↓reduceIte]
        exact SimW.bind (simW_addError _ _ hcol) fun _ _ _ => SimW.pure rfl
  | cons br bs ih =>
    have hbs' : BranchesOk bs := fun b hb => hbs b (List.mem_cons_of_mem _ hb)
    obtain ⟨hguard, hbuild⟩ := hbs br List.mem_cons_self
    intro c1 c2 hc hl
    unfold tryBranchesPure
    rw [prun_bind, prun_bind]
    rcases ind2_matchP (D := D) T.errorCap stop br.kind ht c1 c2 hc with
      ⟨m, t1', t2', c1', c2', e1, e2, fr1, fr2, hcW, hcase⟩ | ⟨e, c1', c2', e1, e2, hc'⟩
    · rw [e1, e2]
      simp only []
      have hl' := hl.frame fr1 fr2
      cases m with
      | false =>
        simp only [Bool.false_eq_true, ↓reduceIte]
        rcases hcase with ⟨hμ, htok, -, -⟩ | ⟨h, -⟩
        · exact SimV.frames (ih hbs' (htok rfl) c1' c2' ⟨hcW, hμ⟩ hl') fr1 fr2
        · cases h
      | true =>
        simp only [↓reduceIte]
        rcases hcase with ⟨hμ, -, hbuildOK, htokS⟩ | ⟨-, hbp, hK, -⟩
        · -- everything related: the guard, then the productions or the next test
          have hcI : CtxI w c1' c2' := ⟨hcW, hμ⟩
          have take : SimV w Eq (do runProds T.errorCap stop t1' br.prods; Pure.pure br.target : PM Nat)
              (do runProds T.errorCap stop t2' br.prods; Pure.pure br.target : PM Nat) :=
            simI_toV (SimW.toI (SimW.bind (simW_runProds _ stop (hbuildOK rfl) _) fun _ _ _ => SimW.pure rfl))
          refine SimV.frames ?_ fr1 fr2
          cases hg : br.guard with
          | none =>
            simp only []
            refine SimV.bindS (R := fun o1 o2 => o1 = true ∧ o2 = true) (SimI.pure ⟨rfl, rfl⟩)
              (fun o1 o2 ho => ?_) c1' c2' hcI hl'
            obtain ⟨rfl, rfl⟩ := ho
            simp only [↓reduceIte]
            exact take
          | some i =>
            simp only []
            have hks := (hguard (by rw [hg]; exact fun h => by cases h)).1
            cases hla : T.lookaheads[i]? with
            | none =>
              exact SimV.bindS (R := fun _ _ => False) (SimI.throw (.crash _)) (fun _ _ h => h.elim) c1' c2' hcI hl'
            | some la =>
              simp only []
              refine SimV.bindS (ind2_lookaheadPure _ stop (hL i la hla)) (fun o1 o2 ho => ?_) c1' c2' hcI hl'
              subst ho
              split
              · exact take
              · exact ih hbs' (htokS rfl hks)
        · -- a kind that is not indentable has matched a moved line: unguarded, built
          have hg : br.guard = none := by
            cases hg : br.guard with
            | none => rfl
            | some i =>
              have := (hguard (by rw [hg]; exact fun h => by cases h)).2
              rw [hK] at this; cases this
          rw [hg]
          simp only []
          rw [prun_bind, prun_bind, prun_pure, prun_pure]
          simp only [↓reduceIte]
          rw [prun_bind, prun_bind]
          rcases runProds_bad2 T.errorCap stop hbp br.prods hbuild c1' c2' hcW with
            ⟨e, c1'', c2'', r1, r2, hc''⟩ | hbad
          · rw [r1, r2]
            exact .inl (.inr ⟨e, c1'', c2'', rfl, rfl, hc''⟩)
          · refine .inr ?_
            rcases hr : run (runProds T.errorCap stop t1' br.prods) c1' with ⟨r, c1''⟩
            rw [hr] at hbad
            cases r with
            | error e => exact hbad
            | ok a => exact hbad
    · rw [e1, e2]
      exact .inl (.inr ⟨e, c1', c2', rfl, rfl, hc'⟩)


theorem ind2_matchTokenPure {D : List Dialect} {T : Table} (hT : TableOkInd T) (stop : Bool) (state : Nat)
    {t1 t2 : Token} (ht : TokInd w t1 t2) :
    SimV w Eq (matchTokenPure D T stop state t1) (matchTokenPure D T stop state t2) := by
  unfold matchTokenPure
  cases hrow : T.row? state with
  | none => exact simI_toV (SimI.throw (.crash _))
  | some row =>
    exact ind2_tryBranchesPure hT.la stop row _ (hT.rows row (List.mem_of_find?_eq_some hrow)) ht

theorem ind2_lines {D : List Dialect} {T : Table} (hT : TableOkInd T) (stop : Bool) :
    ∀ (fuel s : Nat) (c1 c2 : Ctx), CtxI w c1 c2 → LinesRel w c1 c2 →
      PostLI w (run (parseLinesPure D T stop fuel s) c1) (run (parseLinesPure D T stop fuel s) c2) ∨
      BadJ w (run (parseLinesPure D T stop fuel s) c1).2 := by
  intro fuel
  induction fuel with
  | zero =>
    intro s c1 c2 hc _
    exact .inl (.inr ⟨.fuel, c1, c2, rfl, rfl, hc.toCtxW⟩)
  | succ fuel ih =>
    intro s c1 c2 hc hl
    obtain ⟨hno, hls⟩ := hl
    cases h1 : c1.lines with
    | nil =>
      rw [h1] at hls
      have h2 : c2.lines = [] := hls.nil_left
      rw [run_lines_nil T stop _ s c1 h1, run_lines_nil T stop _ s c2 h2, hno]
      have hc' : CtxI w { c1 with lineNo := c1.lineNo + 1, reads := c1.reads ++ [c1.lineNo + 1] }
          { c2 with lineNo := c1.lineNo + 1, reads := c2.reads ++ [c1.lineNo + 1] } :=
        ⟨⟨hc.errors, hc.errs0, hc.β, hc.ids, hc.unexpected⟩, hc.μ⟩
      have hl' : LinesRel w { c1 with lineNo := c1.lineNo + 1, reads := c1.reads ++ [c1.lineNo + 1] }
          { c2 with lineNo := c1.lineNo + 1, reads := c2.reads ++ [c1.lineNo + 1] } := by
        refine ⟨rfl, ?_⟩
        show LinesInd w (c1.lineNo + 1) c1.lines c2.lines
        rw [h1, h2]; exact .nil _
      rcases ind2_matchTokenPure hT stop s (tokInd_eof (c1.lineNo + 1)) _ _ hc' hl' with
        (⟨s1, s2, c1', c2', e1, e2, hs, hc'', -, -⟩ | ⟨e, c1', c2', e1, e2, hc''⟩) | hbad
      · rw [e1, e2]; subst hs
        exact .inl (.inl ⟨s1, c1', c2', rfl, rfl, hc''⟩)
      · rw [e1, e2]
        exact .inl (.inr ⟨e, c1', c2', rfl, rfl, hc''⟩)
      · exact .inr hbad
    | cons l ls =>
      rw [h1] at hls
      obtain ⟨ws, ls2, h2, hws, hlen, hrest⟩ := hls.cons_left
      rw [run_lines_cons T stop _ s c1 h1, run_lines_cons T stop _ s c2 h2, hno]
      have hc' : CtxI w { c1 with lines := ls, lineNo := c1.lineNo + 1, reads := c1.reads ++ [c1.lineNo + 1] }
          { c2 with lines := ls2, lineNo := c1.lineNo + 1, reads := c2.reads ++ [c1.lineNo + 1] } :=
        ⟨⟨hc.errors, hc.errs0, hc.β, hc.ids, hc.unexpected⟩, hc.μ⟩
      have hl' : LinesRel w { c1 with lines := ls, lineNo := c1.lineNo + 1, reads := c1.reads ++ [c1.lineNo + 1] }
          { c2 with lines := ls2, lineNo := c1.lineNo + 1, reads := c2.reads ++ [c1.lineNo + 1] } :=
        ⟨rfl, hrest⟩
      rcases ind2_matchTokenPure hT stop s (tokInd_fresh (l := l) hws hlen) _ _ hc' hl' with
        (⟨s1, s2, c1', c2', e1, e2, hs, hc'', fr1, fr2⟩ | ⟨e, c1', c2', e1, e2, hc''⟩) | hbad
      · rw [e1, e2]; subst hs
        exact ih s1 c1' c2' hc'' (LinesRel.frame hl' fr1 fr2)
      · rw [e1, e2]
        exact .inl (.inr ⟨e, c1', c2', rfl, rfl, hc''⟩)
      · refine .inr ?_
        rcases hr : run (matchTokenPure D T stop s { line := some l, lineNo := c1.lineNo + 1 })
          { c1 with lines := ls, lineNo := c1.lineNo + 1, reads := c1.reads ++ [c1.lineNo + 1] } with ⟨r, c1'⟩
        rw [hr] at hbad
        cases r with
        | error e => exact hbad
        | ok s' => exact growsB_bad2 (growsB_parseLinesPure D T stop fuel s') hbad

theorem ind2_body {D : List Dialect} {T : Table} (hT : TableOkInd T) (stop : Bool) (n : Nat) {c1 c2 : Ctx}
    (hc : CtxI w c1 c2) (hl : LinesRel w c1 c2) :
    ((∃ d c1' c2', run (parseBodyPure D T stop n) c1 = (.ok d, c1') ∧
        run (parseBodyPure D T stop n) c2 = (.ok (mapDoc (indentMap w) d), c2') ∧ CtxW w c1' c2') ∨
      ErrW w (run (parseBodyPure D T stop n) c1) (run (parseBodyPure D T stop n) c2)) ∨
    BadJ w (run (parseBodyPure D T stop n) c1).2 := by
  unfold parseBodyPure
  rw [prun_bind, prun_bind, run_modify, run_modify]
  simp only []
  rw [prun_bind, prun_bind]
  have hc0 : CtxI w { c1 with β := c1.β.startRule T.startRule } { c2 with β := c2.β.startRule T.startRule } :=
    ⟨⟨hc.errors, hc.errs0, hc.β.startRule _, hc.ids, hc.unexpected⟩, hc.μ⟩
  have hl0 : LinesRel w { c1 with β := c1.β.startRule T.startRule } { c2 with β := c2.β.startRule T.startRule } := hl
  -- the rest of the body only appends to the built tokens
  have tail_grows : ∀ a : Nat, GrowsB (do
      runProd T.errorCap stop default (.end_ T.startRule)
      let ctx ← get
      if !ctx.errors.isEmpty then throw (.composite ctx.errors)
      match ctx.β.result with
      | .ok (some d) => Pure.pure d
      | .ok none => throw (.crash "get_result returned None")
      | .error (.crash w) => throw (.crash w)
      | .error (.ast e) => throw (.single e) : PM Doc) := by
    intro _
    refine GrowsB.bind (growsB_runProd _ _ _ _) fun _ => GrowsB.bind GrowsB.get fun ctx => ?_
    dsimp only
    split
    · exact GrowsB.bind (GrowsB.throw _) fun _ => by split <;> first | exact GrowsB.pure _ | exact GrowsB.throw _
    · split <;> first | exact GrowsB.pure _ | exact GrowsB.throw _
  rcases ind2_lines hT stop (n + 2) 0 _ _ hc0 hl0 with (⟨a, c1', c2', r1, r2, hc'⟩ | ⟨e, c1', c2', r1, r2, hc'⟩) | hbad
  · rw [r1, r2]
    simp only []
    rw [prun_bind, prun_bind]
    rcases simW_runProd (w := w) T.errorCap stop (t1 := default) (t2 := default) (.end_ T.startRule)
        (fun h => by cases h) c1' c2' hc'.toCtxW with
      ⟨_, _, c1'', c2'', r1', r2', -, hc'', -, -, -, -⟩ | ⟨e, c1'', c2'', r1', r2', hc''⟩
    · rw [r1', r2']
      simp only []
      rw [prun_bind, prun_bind, run_get, run_get]
      simp only []
      have hemp : c2''.errors.isEmpty = c1''.errors.isEmpty := by rw [hc''.errors]; simp
      rw [hemp]
      by_cases he : (!c1''.errors.isEmpty) = true
      · rw [if_pos he, if_pos he, prun_bind, prun_bind, prun_throw, prun_throw]
        refine .inl (.inr ⟨_, _, _, rfl, ?_, hc''⟩)
        simp only [mapAbort, hc''.errors]
      · rw [if_neg he, if_neg he, hc''.β.result]
        cases hres : c1''.β.result with
        | error e =>
          cases e with
          | crash x => exact .inl (.inr ⟨_, _, _, rfl, rfl, hc''⟩)
          | ast e => exact absurd hres (result_not_ast _ _)
        | ok o =>
          cases o with
          | none => exact .inl (.inr ⟨_, _, _, rfl, rfl, hc''⟩)
          | some d => exact .inl (.inl ⟨_, _, _, rfl, rfl, hc''⟩)
    · rw [r1', r2']
      exact .inl (.inr ⟨_, _, _, rfl, rfl, hc''⟩)
  · rw [r1, r2]
    exact .inl (.inr ⟨_, _, _, rfl, rfl, hc'⟩)
  · refine .inr ?_
    rcases hr : run (parseLinesPure D T stop (n + 2) 0) { c1 with β := c1.β.startRule T.startRule } with ⟨r, c1'⟩
    rw [hr] at hbad
    cases r with
    | error e => exact hbad
    | ok a => exact growsB_bad2 (tail_grows a) hbad

/-- **Whole queue-free parse.**  The text whose lines are those of the original with blanks in
    front is parsed to the outcome of the original with the columns moved — or the original run
    has handed a moved line to the builder under a kind that is not indentable. -/
theorem parseWithPure_indent2 {D : List Dialect} {T : Table} (hT : TableOkInd T) (stop : Bool) (μ : MState)
    (ids : Nat) {src src' : Str} (hl : LinesInd w 0 (splitLines src) (splitLines src')) :
    ((parseWithPure D T stop μ ids src').1 = mapOutcome (indentMap w) (parseWithPure D T stop μ ids src).1 ∧
      CtxW w (parseWithPure D T stop μ ids src).2 (parseWithPure D T stop μ ids src').2) ∨
    BadJ w (parseWithPure D T stop μ ids src).2 := by
  unfold parseWithPure
  simp only []
  rw [← hl.length_eq]
  have hc0 : CtxI w { lines := splitLines src, μ := μ.reset D, β := BState.reset, ids := ids }
      { lines := splitLines src', μ := μ.reset D, β := BState.reset, ids := ids } :=
    ⟨⟨rfl, fun e he => (by cases he), BMap.reset, rfl, rfl⟩, rfl⟩
  have hl0 : LinesRel w ({ lines := splitLines src, μ := μ.reset D, β := BState.reset, ids := ids } : Ctx)
      { lines := splitLines src', μ := μ.reset D, β := BState.reset, ids := ids } := ⟨rfl, hl⟩
  rcases ind2_body hT stop (splitLines src).length hc0 hl0 with
    (⟨d, c1', c2', r1, r2, hc'⟩ | ⟨e, c1', c2', r1, r2, hc'⟩) | hbad
  · unfold run at r1 r2
    rw [r1, r2]
    exact .inl ⟨rfl, hc'⟩
  · unfold run at r1 r2
    rw [r1, r2]
    cases e <;> exact .inl ⟨rfl, hc'⟩
  · refine .inr ?_
    unfold run at hbad
    rcases hr : (parseBodyPure D T stop (splitLines src).length).run.run
      { lines := splitLines src, μ := μ.reset D, β := BState.reset, ids := ids } with ⟨r, c⟩
    rw [hr] at hbad
    cases r with
    | ok d => exact hbad
    | error e => cases e <;> exact hbad

end simJ


/-- **Indenting lines**, generic in the dialect table and the transition table. -/
theorem indent_parseWith2 {D : List Dialect} {T : Table}
    (hQD : Spec.queueDialectFacts D = true) (hQT : Spec.queueFacts T = true)
    (hCB : Spec.commentBlankTested T = true) (hT : TableOkInd T) (w : Nat → Nat) (stop : Bool) (μ : MState)
    (ids : Nat) {src src' : Str} (hl : LinesInd w 0 (splitLines src) (splitLines src'))
    (hμ : (μ.reset D).dialect ∈ D)
    (hok : ∀ t ∈ (parseWith D T stop μ ids src).2.builds, 0 < w (t.lineNo - 1) →
      indentOkTok t = true) :
    (parseWith D T stop μ ids src').1 = mapOutcome (indentMap w) (parseWith D T stop μ ids src).1 ∧
    (parseWith D T stop μ ids src').2.errors = (parseWith D T stop μ ids src).2.errors.map (mapErr (indentMap w)) ∧
    (parseWith D T stop μ ids src').2.ids = (parseWith D T stop μ ids src).2.ids ∧
    (parseWith D T stop μ ids src').2.unexpected = (parseWith D T stop μ ids src).2.unexpected := by
  have q1 := queue_refines_peek D T hQD hQT hCB stop μ ids src hμ
  have q2 := queue_refines_peek D T hQD hQT hCB stop μ ids src' hμ
  have o1 := congrArg Spec.Observed.outcome q1
  have o2 := congrArg Spec.Observed.outcome q2
  have e1 := congrArg Spec.Observed.errors q1
  have e2 := congrArg Spec.Observed.errors q2
  have i1 := congrArg Spec.Observed.ids q1
  have i2 := congrArg Spec.Observed.ids q2
  have u1 := congrArg Spec.Observed.unexpected q1
  have u2 := congrArg Spec.Observed.unexpected q2
  have b1 := congrArg Spec.Observed.builds q1
  simp only [Spec.observe] at o1 o2 e1 e2 i1 i2 u1 u2 b1
  rcases parseWithPure_indent2 (w := w) hT stop μ ids hl with ⟨ho, hc⟩ | ⟨t, ht, hpos, hK⟩
  · exact ⟨by rw [o1, o2]; exact ho, by rw [e1, e2]; exact hc.errors, by rw [i1, i2]; exact hc.ids,
      by rw [u1, u2]; exact hc.unexpected⟩
  · exfalso
    rw [← b1] at ht
    have := hok t ht hpos
    rw [hK] at this
    cases this

end Layout4
end GV
