/-
  Lemmas/FormatterGlue.lean — (1) the builder-parametrised glue of Model/Formatter.lean,
  instantiated at the AST builder, is the glue of Model/Parser.lean (equations);
  (2) the listing a formatter run returns is the formatted list of the tokens handed to `build`.
-/
import GherkinVerif.Model.Formatter
import GherkinVerif.Lemmas.GlueOutcome
namespace GV
namespace Lemmas

/-! ### the generic glue at the AST builder is the existing glue -/

theorem PM.ext {α} {m m' : PM α} (h : ∀ c, run m c = run m' c) : m = m' := funext h

theorem runProdG_ast (cap : Nat) (stop : Bool) (t : Token) (p : Prod) :
    runProdG (astBuilder cap stop) t p = runProd cap stop t p := by
  cases p <;> rfl

theorem runProdsG_ast (cap : Nat) (stop : Bool) (t : Token) (ps : List Prod) :
    runProdsG (astBuilder cap stop) t ps = runProds cap stop t ps := by
  induction ps with
  | nil => rfl
  | cons p ps ih => simp only [runProdsG, runProds, runProdG_ast, ih]

theorem tryBranchesG_nil {ρ} (B : BuilderI ρ) (D : List Dialect) (T : Table) (stop : Bool) (row : StateRow) (t : Token) :
    tryBranchesG B D T stop row [] t = tryBranches D T stop row [] t := by
  simp only [tryBranchesG, tryBranches]

theorem tryBranchesG_ast (D : List Dialect) (T : Table) (stop : Bool) (row : StateRow) (bs : List Branch) (t : Token) :
    tryBranchesG (astBuilder T.errorCap stop) D T stop row bs t = tryBranches D T stop row bs t := by
  induction bs generalizing t with
  | nil => exact tryBranchesG_nil ..
  | cons b bs ih =>
    simp only [tryBranchesG, tryBranches, runProdsG_ast, ih]
    rfl

theorem matchTokenG_ast (D : List Dialect) (T : Table) (stop : Bool) (state : Nat) (t : Token) :
    matchTokenG (astBuilder T.errorCap stop) D T stop state t = matchToken D T stop state t := by
  simp only [matchTokenG, matchToken, tryBranchesG_ast]
  rfl

theorem parseLoopG_ast (D : List Dialect) (T : Table) (stop : Bool) (fuel state : Nat) :
    parseLoopG (astBuilder T.errorCap stop) D T stop fuel state = parseLoop D T stop fuel state := by
  induction fuel generalizing state with
  | zero => rfl
  | succ n ih => simp only [parseLoopG, parseLoop, matchTokenG_ast, ih]

theorem parseBodyG_ast (D : List Dialect) (T : Table) (stop : Bool) (n : Nat) :
    parseBodyG (astBuilder T.errorCap stop) D T stop n = parseBody D T stop n := by
  unfold parseBodyG parseBody
  rw [parseLoopG_ast]
  apply PM.ext; intro c
  simp only [prun_bind, astBuilder, run_runProd, run_modify, run_get]
  rcases run (parseLoop D T stop (n + 2) 0) _ with ⟨r1, c1⟩
  cases r1 with
  | error e => rfl
  | ok a =>
    dsimp only
    rcases run (liftB T.errorCap stop _) _ with ⟨r2, c2⟩
    cases r2 with
    | error e => rfl
    | ok _ =>
      dsimp only
      split <;> (simp only [prun_bind, prun_throw, run_get]; try rfl)

/-- `parseWith` is the builder-parametrised parse at the AST builder -/
theorem parseWith_generic (D : List Dialect) (T : Table) (stop : Bool) (μ : MState) (ids : Nat) (src : Str) :
    parseWith D T stop μ ids src =
      match run (parseBodyG (astBuilder T.errorCap stop) D T stop (splitLines src).length) (ctx0 D μ ids src) with
      | (.ok d, ctx) => (.ok d, ctx)
      | (.error (.single e), ctx) => (.rejected [e] false, ctx)
      | (.error (.composite es), ctx) => (.rejected es true, ctx)
      | (.error (.crash w), ctx) => (.crash w, ctx)
      | (.error .fuel, ctx) => (.fuel, ctx) := by
  rw [parseBodyG_ast, parseWith_eq]
  rfl

/-! ### the formatter run -/

/-- the context `parseWithF` starts from -/
def ctx0F (D : List Dialect) (μ : MState) (src : Str) : Ctx := { lines := splitLines src, μ := μ.reset D }

theorem parseWithF_eq (D : List Dialect) (T : Table) (stop : Bool) (μ : MState) (src : Str) :
    parseWithF D T stop μ src =
      match run (parseBodyG fmtBuilder D T stop (splitLines src).length) (ctx0F D μ src) with
      | (.ok s, ctx) => (.ok s, .ofCtx ctx)
      | (.error (.single e), ctx) => (.rejected [e] false, .ofCtx ctx)
      | (.error (.composite es), ctx) => (.rejected es true, .ofCtx ctx)
      | (.error (.crash w), ctx) => (.crash w, .ofCtx ctx)
      | (.error .fuel, ctx) => (.fuel, .ofCtx ctx) := rfl

theorem Triple.trivial {α} (m : PM α) : Triple (fun _ => True) m (fun _ _ => True) (fun _ _ => True) :=
  fun _ _ => ⟨fun _ _ _ => True.intro, fun _ _ _ => True.intro⟩

/-- what `get_result` returns is the formatted `_tokens` = `builds` of the final context -/
theorem parseBodyG_fmt_listing (D : List Dialect) (T : Table) (stop : Bool) (n : Nat) :
    Triple (fun _ => True) (parseBodyG fmtBuilder D T stop n)
      (fun s c => s = formatListing c.builds) (fun _ _ => True) := by
  unfold parseBodyG
  refine Triple.bind (Triple.trivial _) fun _ => Triple.bind (Triple.trivial _) fun _ =>
    Triple.bind (Triple.trivial _) fun _ => Triple.bind (Triple.trivial _) fun c0 => ?_
  have hres : Triple (fun _ => True) fmtBuilder.result (fun s c => s = formatListing c.builds) (fun _ _ => True) := by
    refine Triple.bind Triple.get fun c1 => Triple.pure _ fun c hc => ?_
    rw [hc.1]
  dsimp only
  split
  · exact Triple.bind (Q := fun _ _ => False) (Triple.throw _ fun _ _ => True.intro) fun _ _ hf => hf.elim
  · exact hres

theorem listing_is_builds (D : List Dialect) (T : Table) (stop : Bool) (μ : MState) (src : Str) (s : Str)
    (h : (parseWithF D T stop μ src).1 = .ok s) :
    s = formatListing (parseWithF D T stop μ src).2.builds := by
  have key := parseWithF_eq D T stop μ src
  rcases hr : run (parseBodyG fmtBuilder D T stop (splitLines src).length) (ctx0F D μ src) with ⟨r, c⟩
  rw [hr] at key
  rw [key] at h ⊢
  cases r with
  | ok s' =>
    cases h
    exact ((parseBodyG_fmt_listing D T stop _) _ True.intro).1 _ _ hr
  | error a => cases a <;> cases h

end Lemmas
end GV
