/-
  Lemmas/QueuePure.lean — the token queue is an implementation detail: the parse with the
  look-ahead queue (`parseWith`) and the parse that only peeks at the unread lines
  (`Spec.parseWithPure`) agree on every observable (C18_queue_refines_peek).

  Simulation: the pure context is the imperative context with the scanner fields overwritten
  (`pureOf`: empty queue, unread lines = all lines after the `k` tokens the main loop has read).
  Tokens differ: a token that has been through the queue carries the fields a look-ahead match
  wrote.  A later successful match overwrites all of them (`setMatched_congr`), and the one field
  an error tail reads (`col`) is, for a queued token, either what a fresh token yields or the
  line is a comment / blank line, which never reaches an error tail (`commentBlankTested`).
-/
import GherkinVerif.Lemmas.QueueLoop
import GherkinVerif.Spec.PureParse
namespace GV
namespace Lemmas
open Spec

/-! ### tokens of the same line -/

def sameKey (t t' : Token) : Prop := t.line = t'.line ∧ t.lineNo = t'.lineNo

theorem sameKey.refl (t : Token) : sameKey t t := ⟨rfl, rfl⟩
theorem sameKey.trans {a b c : Token} (h1 : sameKey a b) (h2 : sameKey b c) : sameKey a c :=
  ⟨h1.1.trans h2.1, h1.2.trans h2.2⟩
theorem sameKey.symm {a b : Token} (h : sameKey a b) : sameKey b a := ⟨h.1.symm, h.2.symm⟩

/-- a successful match overwrites every field but the line and its number -/
theorem setMatched_congr {t t' : Token} (hk : sameKey t t') (μ : MState) (ty : Kind) (text : Option Str)
    (keyword : Option Str) (ktype : Option KType) (indent : Option Nat) (items : List (Nat × Str)) :
    setMatched μ t ty text keyword ktype indent items = setMatched μ t' ty text keyword ktype indent items := by
  obtain ⟨h1, h2⟩ := hk
  cases t; cases t'
  simp only at h1 h2
  subst h1 h2
  rfl

theorem matchTitle_congr {t t' : Token} (hk : sameKey t t') (μ : MState) (l : Str) (ty : Kind) (kws : List Str) :
    matchTitle μ t l ty kws = matchTitle μ t' l ty kws := by
  unfold matchTitle
  cases List.find? (fun k => lineStartsWithTitle l k) kws with
  | none => rfl
  | some k => simp only [setMatched_congr hk]

theorem matchDocSep_congr {t t' : Token} (hk : sameKey t t') (μ : MState) (l sep : Str) (o : Bool) :
    matchDocSep μ t l sep o = matchDocSep μ t' l sep o := by
  unfold matchDocSep
  simp only [setMatched_congr hk]

/-- relation between the outcomes of one test on two tokens of the same line: same matcher
    state, same verdict (same error), and the tokens afterwards are equal or both untouched -/
def OutRel (t t' : Token) (o o' : MOut) : Prop :=
  o.μ = o'.μ ∧ o.res = o'.res ∧ (o.tok = o'.tok ∨ (MRes.isMatched o.res = false ∧ o.tok = t ∧ o'.tok = t'))

theorem OutRel.same {t t' : Token} {o : MOut} : OutRel t t' o o := ⟨rfl, rfl, .inl rfl⟩
theorem OutRel.no {t t' : Token} {μ : MState} : OutRel t t' ⟨t, μ, .no⟩ ⟨t', μ, .no⟩ :=
  ⟨rfl, rfl, .inr ⟨rfl, rfl, rfl⟩⟩

theorem matchLine_rel (D : List Dialect) (K : Kind) (μ : MState) {t t' : Token} (hk : sameKey t t') (l : Str) :
    OutRel t t' (matchLine D K μ t l) (matchLine D K μ t' l) := by
  have hs := setMatched_congr hk
  have htitle : ∀ ty, ty.isTitle = true → OutRel t t' (matchLine D ty μ t l) (matchLine D ty μ t' l) := by
    intro ty hty
    rw [matchLine_title D ty hty, matchLine_title D ty hty, matchTitle_congr hk]
    cases matchTitle μ t' l ty (μ.dialect.roleKeywords ty) with
    | none => exact OutRel.no
    | some x => exact OutRel.same
  cases K
  case FeatureLine => exact htitle _ rfl
  case RuleLine => exact htitle _ rfl
  case BackgroundLine => exact htitle _ rfl
  case ScenarioLine => exact htitle _ rfl
  case ExamplesLine => exact htitle _ rfl
  case EOF => exact OutRel.no
  case Other => simp only [matchLine, hs]; exact OutRel.same
  case TableRow => simp only [matchLine, hs]; split; exact OutRel.same; exact OutRel.no
  case StepLine => simp only [matchLine, hs]; split; exact OutRel.same; exact OutRel.no
  case Comment => simp only [matchLine, hs]; split; exact OutRel.same; exact OutRel.no
  case Empty => simp only [matchLine, hs]; split; exact OutRel.same; exact OutRel.no
  case Language =>
    simp only [matchLine, hs]
    split
    · exact OutRel.no
    · split <;> exact OutRel.same
  case TagLine =>
    simp only [matchLine, hs]
    split
    · split
      · exact OutRel.same
      · refine ⟨rfl, ?_, .inr ⟨rfl, rfl, rfl⟩⟩
        rw [hk.2]
    · exact OutRel.no
  case DocStringSeparator =>
    simp only [matchLine, matchDocSep_congr hk]
    split
    · exact OutRel.same
    · exact OutRel.no

theorem matchTok_rel (D : List Dialect) (K : Kind) (μ : MState) {t t' : Token} (hk : sameKey t t') :
    OutRel t t' (matchTok D K μ t).1 (matchTok D K μ t').1 ∧ (matchTok D K μ t).2 = (matchTok D K μ t').2 := by
  unfold matchTok
  rw [← hk.1]
  cases t.line with
  | none =>
    dsimp only
    split
    · rw [setMatched_congr hk]; exact ⟨OutRel.same, rfl⟩
    · exact ⟨OutRel.no, rfl⟩
  | some l => exact ⟨matchLine_rel D K μ hk l, rfl⟩

/-! ### contexts that differ in the scanner fields only -/

/-- overwrite the scanner fields -/
def rf (c : Ctx) (q : List Token) (ls : List Str) (n : Nat) : Ctx := { c with queue := q, lines := ls, lineNo := n }

/-- the pure context for an imperative one: no queue, all lines after the `k` tokens read are unread -/
def pureOf (L : List Str) (k : Nat) (c : Ctx) : Ctx := rf c [] (L.drop k) k

/-- `m` neither reads nor writes the scanner fields -/
def QFrame {α} (m : PM α) : Prop :=
  ∀ c q ls n r c', run m c = (r, c') → run m (rf c q ls n) = (r, rf c' q ls n)

theorem QFrame.pure {α} (a : α) : QFrame (pure a : PM α) := by
  intro c q ls n r c' h; rw [prun_pure] at h ⊢; cases h; rfl
theorem QFrame.throw {α} (e : Abort) : QFrame (throw e : PM α) := by
  intro c q ls n r c' h; rw [prun_throw] at h ⊢; cases h; rfl

theorem QFrame.bind {α β} {m : PM α} {f : α → PM β} (h1 : QFrame m) (h2 : ∀ a, QFrame (f a)) : QFrame (m >>= f) := by
  intro c q ls n r c' h
  rw [prun_bind] at h ⊢
  rcases hr : run m c with ⟨r1, c1⟩
  rw [hr] at h
  rw [h1 c q ls n r1 c1 hr]
  cases r1 with
  | ok a => exact h2 a c1 q ls n r c' h
  | error e => cases h; rfl

theorem QFrame.addError (cap : Nat) (e : PErr) : QFrame (addError cap e) := by
  intro c q ls n r c' h
  rw [run_addError] at h ⊢
  dsimp only [rf] at h ⊢
  split at h
  · rename_i h1; simp only [h1, if_true]; cases h; rfl
  · rename_i h1
    simp only [h1]
    split at h
    · rename_i h2; simp only [h2, if_true]; cases h; rfl
    · rename_i h2; simp only [h2, if_false]; cases h; rfl

theorem QFrame.liftB (cap : Nat) (stop : Bool) (x : Except BErr Unit) : QFrame (liftB cap stop x) := by
  intro c q ls n r c' h
  rw [run_liftB] at h ⊢
  split at h
  · cases h; rfl
  · cases h; rfl
  · split at h
    · rename_i h1; simp only [h1, if_true]; cases h; rfl
    · rename_i h1; simp only [h1]; exact QFrame.addError cap _ c q ls n r c' h

theorem QFrame.runProd (cap : Nat) (stop : Bool) (t : Token) (p : Prod) : QFrame (runProd cap stop t p) := by
  intro c q ls n r c' h
  rw [run_runProd] at h ⊢
  cases p with
  | start rr => dsimp only at h ⊢; cases h; rfl
  | end_ rr => exact QFrame.liftB cap stop _ _ q ls n r c' h
  | build =>
    dsimp only [rf] at h ⊢
    cases hb : c.β.build t with
    | ok β' => rw [hb] at h; dsimp only at h ⊢; cases h; rfl
    | error e' => rw [hb] at h; dsimp only at h ⊢; exact QFrame.liftB cap stop _ c q ls n r c' h

theorem QFrame.runProds (cap : Nat) (stop : Bool) (t : Token) (ps : List Prod) : QFrame (runProds cap stop t ps) := by
  induction ps with
  | nil => exact QFrame.pure _
  | cons p ps ih => exact QFrame.bind (QFrame.runProd cap stop t p) fun _ => ih

/-- relation between the results of the same test on two tokens of the same line -/
def ResRel (t t' : Token) (r r' : Except Abort (Bool × Token)) : Prop :=
  match r, r' with
  | .ok (m, u), .ok (m', u') => m = m' ∧ (u = u' ∨ (m = false ∧ u = t ∧ u' = t'))
  | .error e, .error e' => e = e'
  | _, _ => False

/-- `matchP` on two tokens of the same line, from contexts that differ in the scanner fields only -/
theorem matchP_rel (D : List Dialect) (cap : Nat) (stop : Bool) (K : Kind) {t t' : Token} (hk : sameKey t t')
    (c : Ctx) (q : List Token) (ls : List Str) (n : Nat) {r : Except Abort (Bool × Token)} {c1 : Ctx}
    (h : run (matchP D cap stop K t) c = (r, c1)) :
    ∃ r', run (matchP D cap stop K t') (rf c q ls n) = (r', rf c1 q ls n) ∧ ResRel t t' r r' := by
  obtain ⟨⟨hμ, hres, htok⟩, hinv⟩ := matchTok_rel D K c.μ hk
  rw [run_matchP] at h ⊢
  have e1 : (rf c q ls n).μ = c.μ := rfl
  have e2 : (rf c q ls n).calls = c.calls := rfl
  simp only [e1, e2, ← hres, ← hinv, ← hμ]
  dsimp only at h
  cases hr : (matchTok D K c.μ t).1.res with
  | matched =>
    rw [hr] at h; dsimp only at h ⊢; cases h
    refine ⟨_, rfl, rfl, ?_⟩
    rcases htok with h | ⟨h, -⟩
    · exact .inl h
    · rw [hr] at h; cases h
  | no =>
    rw [hr] at h; dsimp only at h ⊢; cases h
    refine ⟨_, rfl, rfl, ?_⟩
    rcases htok with h | ⟨-, h1, h2⟩
    · exact .inl h
    · exact .inr ⟨rfl, h1, h2⟩
  | raised e =>
    rw [hr] at h; dsimp only at h ⊢
    cases stop with
    | true =>
      simp only [if_true] at h ⊢
      cases h
      exact ⟨_, rfl, rfl⟩
    | false =>
      simp only [Bool.false_eq_true, if_false] at h ⊢
      rcases ha : run (GV.addError cap e)
        { c with μ := (matchTok D K c.μ t).1.μ, calls := c.calls + (if (matchTok D K c.μ t).2 = true then 1 else 0) }
        with ⟨r2, c2⟩
      rw [ha] at h
      have hfr := QFrame.addError cap e _ q ls n r2 c2 ha
      dsimp only [rf] at hfr ⊢
      rw [hfr]
      cases r2 with
      | error e2 => cases h; exact ⟨_, rfl, rfl⟩
      | ok _ =>
        cases h
        refine ⟨_, rfl, rfl, ?_⟩
        rcases htok with h | ⟨-, h1, h2⟩
        · exact .inl h
        · exact .inr ⟨rfl, h1, h2⟩

/-- relation between the results of `matchAny` on two tokens of the same line -/
def ResRel2 (r r' : Except Abort (Bool × Token)) : Prop :=
  match r, r' with
  | .ok (m, u), .ok (m', u') => m = m' ∧ sameKey u u'
  | .error e, .error e' => e = e'
  | _, _ => False

theorem matchAny_rel (D : List Dialect) (cap : Nat) (stop : Bool) (ks : List Kind) {t t' : Token} (hk : sameKey t t')
    (c : Ctx) (q : List Token) (ls : List Str) (n : Nat) {r : Except Abort (Bool × Token)} {c1 : Ctx}
    (h : run (matchAny D cap stop ks t) c = (r, c1)) :
    ∃ r', run (matchAny D cap stop ks t') (rf c q ls n) = (r', rf c1 q ls n) ∧ ResRel2 r r' := by
  induction ks generalizing t t' c with
  | nil =>
    rw [GV.matchAny, prun_pure] at h ⊢
    cases h
    exact ⟨_, rfl, rfl, hk⟩
  | cons k ks ih =>
    rw [GV.matchAny, prun_bind] at h ⊢
    rcases hr : run (matchP D cap stop k t) c with ⟨r1, c2⟩
    rw [hr] at h
    obtain ⟨r1', hr', hrel⟩ := matchP_rel D cap stop k hk c q ls n hr
    rw [hr']
    cases r1 with
    | error e =>
      cases r1' with
      | error e' => cases h; cases hrel; exact ⟨_, rfl, rfl⟩
      | ok x => exact hrel.elim
    | ok x =>
      cases r1' with
      | error e' => exact hrel.elim
      | ok x' =>
        obtain ⟨m, u⟩ := x
        obtain ⟨m', u'⟩ := x'
        obtain ⟨hm, hu⟩ := hrel
        subst hm
        have hku : sameKey u u' := by
          rcases hu with rfl | ⟨-, rfl, rfl⟩
          · exact sameKey.refl _
          · exact hk
        dsimp only at h ⊢
        split at h
        · rename_i hm
          rw [if_pos hm, prun_pure] at *
          cases h
          exact ⟨_, rfl, rfl, hku⟩
        · rename_i hm
          rw [if_neg hm]
          exact ih hku c2 h

/-! ### what a queued token may carry -/

/-- the column of the token is unset or the one a fresh match would compute -/
def colOK (t : Token) : Prop :=
  match t.line with
  | none => t.col = none
  | some l => t.col = none ∨ t.col = some (lineIndent l + 1)

theorem unexpectedErr_colOK (row : StateRow) {t t' : Token} (hk : sameKey t t') (h : colOK t) (h' : colOK t') :
    unexpectedErr row t = unexpectedErr row t' := by
  obtain ⟨h1, h2⟩ := hk
  unfold colOK at h h'
  unfold unexpectedErr Token.loc
  rw [h1, h2]
  rw [h1] at h
  cases hl : t'.line with
  | none =>
    rw [hl] at h h'
    dsimp only at h h' ⊢
    rw [h, h']
  | some l =>
    rw [hl] at h h'
    dsimp only at h h' ⊢
    rcases h with h | h <;> rcases h' with h' | h' <;> rw [h, h'] <;> simp

/-- a comment line or a blank line -/
def cbLine (l : Option Str) : Prop :=
  ∃ s, l = some s ∧ (lineStartsWith s [35] = true ∨ lineIsEmpty s = true)

/-- what holds of every token in the queue -/
def TokInv (t : Token) : Prop := colOK t ∨ cbLine t.line

theorem colOK_setMatched_none (μ : MState) (t : Token) (ty : Kind) (text keyword : Option Str) (ktype : Option KType)
    (items : List (Nat × Str)) (l : Str) (hl : t.line = some l) :
    colOK (setMatched μ t ty text keyword ktype none items) := by
  unfold colOK setMatched
  simp only [hl]
  exact .inr trivial

theorem matchTok_tokinv (D : List Dialect) (K : Kind) (hK : stableKind K = true) (μ : MState) (t : Token)
    (h : TokInv t) : TokInv (matchTok D K μ t).1.tok := by
  rcases h with h | h
  · unfold matchTok
    split
    · rename_i hl
      split
      · rename_i hk
        cases K <;> first | exact absurd hK (by decide) | exact absurd hk (by decide)
      · exact .inl h
    · rename_i l hl
      dsimp only
      have htitle : ∀ ty, ty.isTitle = true → TokInv (matchLine D ty μ t l).tok := by
        intro ty hty
        rw [matchLine_title D ty hty]
        unfold matchTitle
        cases List.find? (fun k => lineStartsWithTitle l k) (μ.dialect.roleKeywords ty) with
        | none => exact .inl h
        | some k => exact .inl (colOK_setMatched_none _ _ _ _ _ _ _ l hl)
      cases K <;> first
        | exact absurd hK (by decide)
        | exact htitle _ rfl
        | skip
      · -- Empty
        simp only [matchLine]
        split
        · rename_i he
          exact .inr ⟨l, by simp [setMatched, hl], .inr he⟩
        · exact .inl h
      · -- Comment
        simp only [matchLine]
        split
        · rename_i he
          exact .inr ⟨l, by simp [setMatched, hl], .inl he⟩
        · exact .inl h
      · -- TagLine
        simp only [matchLine]
        split
        · split
          · exact .inl (colOK_setMatched_none _ _ _ _ _ _ _ l hl)
          · exact .inl h
        · exact .inl h
  · right
    rw [(matchTok_tok D K μ t).1]
    exact h

/-- the kind certainly matches the line, whatever the matcher state -/
def sure (K : Kind) (l : Option Str) : Prop :=
  ∃ s, l = some s ∧ (K = .Other ∨ (K = .Comment ∧ lineStartsWith s [35] = true) ∨ (K = .Empty ∧ lineIsEmpty s = true))

theorem sure_matched (D : List Dialect) (K : Kind) (μ : MState) (l : Option Str) (h : sure K l) : mm D K μ l = true := by
  obtain ⟨s, rfl, h⟩ := h
  unfold mm matchTok
  dsimp only
  rcases h with rfl | ⟨rfl, h⟩ | ⟨rfl, h⟩
  · rfl
  · simp only [matchLine, h, if_true]; rfl
  · simp only [matchLine, h, if_true]; rfl

/-! ### the look-ahead through the queue and the peek make the same tests -/

def LRel (r : Except Abort (Bool × List Token)) (r' : Except Abort Bool) : Prop :=
  match r, r' with
  | .ok (m, _), .ok m' => m = m'
  | .error e, .error e' => e = e'
  | _, _ => False

theorem drop_cases (L : List Str) (i : Nat) :
    (L.drop i = [] ∧ L[i]? = none) ∨ (∃ l ls, L.drop i = l :: ls ∧ L[i]? = some l ∧ L.drop (i + 1) = ls) := by
  cases h : L.drop i with
  | nil =>
    left
    refine ⟨rfl, ?_⟩
    rw [← List.head?_drop, h]; rfl
  | cons l ls =>
    right
    refine ⟨l, ls, rfl, ?_, ?_⟩
    · rw [← List.head?_drop, h]; rfl
    · rw [← List.tail_drop, h]; rfl

theorem la_sim (D : List Dialect) (cap : Nat) (stop : Bool) (la : LookAhead)
    (hsk : la.skip.all isSkipKind = true) (hexp : la.expected.all Kind.isTitle = true)
    (L : List Str) (q0 : List Token) (ls0 : List Str) (n0 : Nat) :
    ∀ (fuel : Nat) (acc : List Token) (c : Ctx) (i : Nat),
      c.queue.map key = (List.range' i c.queue.length).map (srcAt L) → c.lineNo = i + c.queue.length →
      c.lines = L.drop c.lineNo → i ≤ L.length → L.length + 1 ≤ fuel + i →
      ∀ r c', run (lookaheadLoop D cap stop la fuel acc) c = (r, c') →
        ∃ r', run (peekLoop D cap stop la (L.drop i) (i + 1)) (rf c q0 ls0 n0) = (r', rf c' q0 ls0 n0) ∧ LRel r r' := by
  have hexp' : la.expected.all stableKind = true := by
    rw [List.all_eq_true] at hexp ⊢
    intro K hK; simp [stableKind, hexp K hK]
  have hsk' : la.skip.all stableKind = true := by
    rw [List.all_eq_true] at hsk ⊢
    intro K hK; simp [stableKind, hsk K hK]
  intro fuel
  induction fuel with
  | zero => intro acc c i _ _ _ h1 h2; omega
  | succ fuel ih =>
    intro acc c i hq hln hlines hi hfuel r c' h
    rw [lookaheadLoop, prun_bind] at h
    obtain ⟨t, c1, hr0, hcase⟩ := readToken_cases c
    rw [hr0] at h
    dsimp only at h
    -- the token read is the token of line `i + 1`; the scanner fields afterwards
    have hstep : key t = srcAt L i ∧ rf c1 q0 ls0 n0 = rf c q0 ls0 n0 ∧ c1.μ = c.μ ∧
        c1.queue.map key = (List.range' (i + 1) c1.queue.length).map (srcAt L) ∧
        c1.lineNo = (i + 1) + c1.queue.length ∧ c1.lines = L.drop c1.lineNo := by
      rcases hcase with ⟨q, hcq, rfl⟩ | ⟨hcq, rfl, rfl⟩
      · rw [hcq, List.map_cons, List.length_cons, List.range'_succ, List.map_cons, List.cons.injEq] at hq
        rw [hcq, List.length_cons] at hln
        exact ⟨hq.1, rfl, rfl, hq.2, by dsimp only; omega, hlines⟩
      · rw [hcq] at hln
        simp only [List.length_nil, Nat.add_zero] at hln
        refine ⟨?_, rfl, rfl, by dsimp only; rw [hcq]; rfl, by dsimp only; rw [hcq, hln]; rfl, ?_⟩
        · unfold key srcAt
          dsimp only
          rw [hlines, List.head?_drop, hln]
        · dsimp only; rw [hlines, List.tail_drop]
    obtain ⟨hkey, hrf, hμ1, hq1, hln1, hlines1⟩ := hstep
    have htl : t.line = L[i]? := congrArg Prod.fst hkey
    have htn : t.lineNo = i + 1 := congrArg Prod.snd hkey
    rw [← hrf]
    rw [prun_bind] at h
    rcases hr1 : run (matchAny D cap stop la.expected t) c1 with ⟨r1, c2⟩
    rw [hr1] at h
    obtain ⟨hf1, hμ2, -, hv1⟩ := matchAny_spec la.expected hexp' hr1
    rcases drop_cases L i with ⟨hd, hnone⟩ | ⟨l, ls, hd, hsome, hd'⟩
    · -- end of file
      rw [hd, peekLoop, prun_bind]
      have hk : sameKey t { line := none, lineNo := i + 1 } := ⟨by rw [htl, hnone], htn⟩
      obtain ⟨r1', hr1', hrel1⟩ := matchAny_rel D cap stop la.expected hk c1 q0 ls0 n0 hr1
      rw [hr1']
      cases r1 with
      | error e =>
        cases r1' with
        | error e' => cases h; cases hrel1; exact ⟨_, rfl, rfl⟩
        | ok x => exact hrel1.elim
      | ok x =>
        cases r1' with
        | error e' => exact hrel1.elim
        | ok x' =>
          obtain ⟨m, u⟩ := x
          obtain ⟨m', u'⟩ := x'
          obtain ⟨hm, hu⟩ := hrel1
          subst hm
          obtain ⟨-, hul, -⟩ := hv1 m u rfl
          dsimp only at h ⊢
          split at h
          · rename_i hm
            rw [if_pos hm, prun_pure] at *
            cases h
            exact ⟨_, rfl, by simp [LRel]⟩
          · rename_i hm
            rw [if_neg hm]
            rw [prun_bind] at h ⊢
            rcases hr2 : run (matchAny D cap stop la.skip u) c2 with ⟨r2, c3⟩
            rw [hr2] at h
            obtain ⟨r2', hr2', hrel2⟩ := matchAny_rel D cap stop la.skip hu c2 q0 ls0 n0 hr2
            rw [hr2']
            obtain ⟨-, -, -, hv2⟩ := matchAny_spec la.skip hsk' hr2
            cases r2 with
            | error e =>
              cases r2' with
              | error e' => cases h; cases hrel2; exact ⟨_, rfl, rfl⟩
              | ok x => exact hrel2.elim
            | ok x =>
              cases r2' with
              | error e' => exact hrel2.elim
              | ok x' =>
                obtain ⟨s, u2⟩ := x
                obtain ⟨s', u2'⟩ := x'
                obtain ⟨hs, -, -⟩ := hv2 s u2 rfl
                have hs0 : s = false := by
                  rw [hs, hul, htl, hnone]
                  exact skipM_eof D la.skip hsk c2.μ
                subst hs0
                dsimp only at h ⊢
                simp only [Bool.false_eq_true, if_false] at h
                rw [prun_pure] at h ⊢
                cases h
                exact ⟨_, rfl, by simp [LRel]⟩
    · -- a line
      rw [hd, peekLoop, prun_bind]
      have hk : sameKey t { line := some l, lineNo := i + 1 } := ⟨by rw [htl, hsome], htn⟩
      obtain ⟨r1', hr1', hrel1⟩ := matchAny_rel D cap stop la.expected hk c1 q0 ls0 n0 hr1
      rw [hr1']
      cases r1 with
      | error e =>
        cases r1' with
        | error e' => cases h; cases hrel1; exact ⟨_, rfl, rfl⟩
        | ok x => exact hrel1.elim
      | ok x =>
        cases r1' with
        | error e' => exact hrel1.elim
        | ok x' =>
          obtain ⟨m, u⟩ := x
          obtain ⟨m', u'⟩ := x'
          obtain ⟨hm, hu⟩ := hrel1
          subst hm
          dsimp only at h ⊢
          split at h
          · rename_i hm
            rw [if_pos hm, prun_pure] at *
            cases h
            exact ⟨_, rfl, by simp [LRel]⟩
          · rename_i hm
            rw [if_neg hm]
            rw [prun_bind] at h ⊢
            rcases hr2 : run (matchAny D cap stop la.skip u) c2 with ⟨r2, c3⟩
            rw [hr2] at h
            obtain ⟨r2', hr2', hrel2⟩ := matchAny_rel D cap stop la.skip hu c2 q0 ls0 n0 hr2
            rw [hr2']
            obtain ⟨hf2, -, -, -⟩ := matchAny_spec la.skip hsk' hr2
            cases r2 with
            | error e =>
              cases r2' with
              | error e' => cases h; cases hrel2; exact ⟨_, rfl, rfl⟩
              | ok x => exact hrel2.elim
            | ok x =>
              cases r2' with
              | error e' => exact hrel2.elim
              | ok x' =>
                obtain ⟨s, u2⟩ := x
                obtain ⟨s', u2'⟩ := x'
                obtain ⟨hs, -⟩ := hrel2
                subst hs
                dsimp only at h ⊢
                split at h
                · rename_i hst
                  rw [if_pos hst]
                  have hlt : i < L.length := (List.getElem?_eq_some_iff.1 hsome).1
                  obtain ⟨_, _, _, rfl⟩ := hf1.trans hf2
                  have := (fun a b d => ih (acc ++ [u2]) _ (i + 1) a b d (by omega) (by omega) r c' h)
                    hq1 hln1 hlines1
                  rw [hd'] at this
                  exact this
                · rename_i hst
                  rw [if_neg hst]
                  rw [prun_pure] at h ⊢
                  cases h
                  exact ⟨_, rfl, by simp [LRel]⟩

/-- a whole look-ahead: the queue version from `c` and the peek from the pure context of `c`
    return the same verdict (or abort with the same error) and record the same errors and calls -/
theorem lookahead_rel (D D' : List Dialect) (cap : Nat) (stop : Bool) (la : LookAhead)
    (hsk : la.skip.all isSkipKind = true) (hexp : la.expected.all Kind.isTitle = true)
    {L : List Str} {k : Nat} {c : Ctx} (hqs : QS D' L k c) (hk : k ≤ L.length)
    {r : Except Abort Bool} {c' : Ctx} (h : run (lookahead D cap stop la) c = (r, c')) :
    run (lookaheadPure D cap stop la) (pureOf L k c) = (r, pureOf L k c') := by
  rw [lookaheadPure, prun_bind, run_get]
  show run (peekLoop D cap stop la (L.drop k) (k + 1)) (rf c [] (L.drop k) k) = _
  rw [lookahead, prun_bind, run_get] at h
  dsimp only at h
  rw [prun_bind] at h
  rcases hr : run (lookaheadLoop D cap stop la (c.queue.length + c.lines.length + 2) []) c with ⟨r1, c1⟩
  rw [hr] at h
  have hfuel : L.length + 1 ≤ c.queue.length + c.lines.length + 2 + k := by
    have h1 := hqs.lineNo
    have h2 := congrArg List.length hqs.lines
    rw [List.length_drop] at h2
    omega
  obtain ⟨r', hr', hrel⟩ := la_sim D cap stop la hsk hexp L [] (L.drop k) k _ [] c k hqs.queue hqs.lineNo hqs.lines
    hk hfuel r1 c1 hr
  rw [hr']
  cases r1 with
  | error e =>
    cases r' with
    | error e' => cases h; cases hrel; rfl
    | ok x => exact hrel.elim
  | ok x =>
    cases r' with
    | error e' => exact hrel.elim
    | ok m' =>
      obtain ⟨m, read⟩ := x
      have hm : m = m' := hrel
      subst hm
      dsimp only at h
      rw [prun_bind, run_modify] at h
      dsimp only at h
      rw [prun_pure] at h
      cases h
      rfl

/-! ### every queued token satisfies `TokInv` -/

theorem matchP_out {D : List Dialect} {cap : Nat} {stop : Bool} {K : Kind} {t : Token} {c : Ctx} {m : Bool}
    {t' : Token} {c' : Ctx} (h : run (matchP D cap stop K t) c = (.ok (m, t'), c')) :
    t' = (matchTok D K c.μ t).1.tok := by
  rw [run_matchP] at h
  dsimp only at h
  split at h
  · cases h; rfl
  · cases h; rfl
  · split at h
    · cases h
    · rcases hr : run (addError cap _) _ with ⟨r2, c2⟩
      rw [hr] at h
      cases r2 <;> cases h
      rfl

theorem matchAny_tokinv (D : List Dialect) (cap : Nat) (stop : Bool) (ks : List Kind)
    (hks : ks.all stableKind = true) {t : Token} (ht : TokInv t) {c : Ctx} {m : Bool} {t' : Token} {c' : Ctx}
    (h : run (matchAny D cap stop ks t) c = (.ok (m, t'), c')) : TokInv t' := by
  induction ks generalizing t c with
  | nil => rw [GV.matchAny, prun_pure] at h; cases h; exact ht
  | cons k ks ih =>
    rw [List.all_cons, Bool.and_eq_true] at hks
    rw [GV.matchAny, prun_bind] at h
    rcases hr : run (matchP D cap stop k t) c with ⟨r1, c1⟩
    rw [hr] at h
    cases r1 with
    | error e => cases h
    | ok x =>
      obtain ⟨m1, t1⟩ := x
      have ht1 : TokInv t1 := by
        rw [matchP_out hr]
        exact matchTok_tokinv D k hks.1 c.μ t ht
      dsimp only at h
      split at h
      · rw [prun_pure] at h; cases h; exact ht1
      · exact ih hks.2 ht1 h

theorem colOK_fresh (l : Option Str) (n : Nat) : colOK { line := l, lineNo := n } := by
  unfold colOK
  cases l with
  | none => rfl
  | some s => exact .inl rfl

/-- the tokens in the queue -/
def QI (c : Ctx) : Prop := ∀ t ∈ c.queue, TokInv t

theorem lookaheadLoop_tokinv (D : List Dialect) (cap : Nat) (stop : Bool) (la : LookAhead)
    (hsk : la.skip.all stableKind = true) (hexp : la.expected.all stableKind = true) :
    ∀ (fuel : Nat) (acc : List Token) (c : Ctx), QI c → (∀ x ∈ acc, TokInv x) →
      ∀ m read c', run (lookaheadLoop D cap stop la fuel acc) c = (.ok (m, read), c') →
        QI c' ∧ ∀ x ∈ read, TokInv x := by
  intro fuel
  induction fuel with
  | zero => intro acc c _ _ m read c' h; rw [lookaheadLoop, prun_throw] at h; cases h
  | succ fuel ih =>
    intro acc c hqi hacc m read c' h
    rw [lookaheadLoop, prun_bind] at h
    obtain ⟨t, c1, hr0, hcase⟩ := readToken_cases c
    rw [hr0] at h
    dsimp only at h
    have ht : TokInv t ∧ QI c1 := by
      rcases hcase with ⟨q, hcq, rfl⟩ | ⟨hcq, rfl, rfl⟩
      · exact ⟨hqi t (by rw [hcq]; exact List.mem_cons_self ..),
          fun x hx => hqi x (by rw [hcq]; exact List.mem_cons_of_mem _ hx)⟩
      · exact ⟨.inl (colOK_fresh _ _), hqi⟩
    rw [prun_bind] at h
    rcases hr1 : run (matchAny D cap stop la.expected t) c1 with ⟨r1, c2⟩
    rw [hr1] at h
    have hq2 : c2.queue = c1.queue := (matchAny_foot D cap stop _ _ _ _ _ hr1).scan.1
    cases r1 with
    | error e => cases h
    | ok x =>
      obtain ⟨m1, t1⟩ := x
      have ht1 := matchAny_tokinv D cap stop la.expected hexp ht.1 hr1
      have hadd : ∀ u, TokInv u → ∀ x ∈ acc ++ [u], TokInv x := by
        intro u hu x hx
        rcases List.mem_append.1 hx with hx | hx
        · exact hacc x hx
        · rw [List.mem_singleton] at hx; subst hx; exact hu
      dsimp only at h
      split at h
      · rw [prun_pure] at h; cases h
        exact ⟨fun x hx => ht.2 x (by rw [← hq2]; exact hx), hadd t1 ht1⟩
      · rw [prun_bind] at h
        rcases hr2 : run (matchAny D cap stop la.skip t1) c2 with ⟨r2, c3⟩
        rw [hr2] at h
        have hq3 : c3.queue = c2.queue := (matchAny_foot D cap stop _ _ _ _ _ hr2).scan.1
        cases r2 with
        | error e => cases h
        | ok x =>
          obtain ⟨s, t2⟩ := x
          have ht2 := matchAny_tokinv D cap stop la.skip hsk ht1 hr2
          have hqi3 : QI c3 := fun x hx => ht.2 x (by rw [← hq2, ← hq3]; exact hx)
          dsimp only at h
          split at h
          · exact ih _ _ hqi3 (hadd t2 ht2) m read c' h
          · rw [prun_pure] at h; cases h
            exact ⟨hqi3, hadd t2 ht2⟩

theorem lookahead_tokinv (D : List Dialect) (cap : Nat) (stop : Bool) (la : LookAhead)
    (hsk : la.skip.all stableKind = true) (hexp : la.expected.all stableKind = true) {c : Ctx} (hqi : QI c)
    {b : Bool} {c' : Ctx} (h : run (lookahead D cap stop la) c = (.ok b, c')) : QI c' := by
  rw [lookahead, prun_bind, run_get] at h
  dsimp only at h
  rw [prun_bind] at h
  rcases hr : run (lookaheadLoop D cap stop la (c.queue.length + c.lines.length + 2) []) c with ⟨r1, c1⟩
  rw [hr] at h
  cases r1 with
  | error e => cases h
  | ok x =>
    obtain ⟨m, read⟩ := x
    dsimp only at h
    rw [prun_bind, run_modify] at h
    dsimp only at h
    rw [prun_pure] at h
    cases h
    obtain ⟨h1, h2⟩ := lookaheadLoop_tokinv D cap stop la hsk hexp _ [] c hqi (fun x hx => by cases hx) _ _ c1 hr
    intro x hx
    dsimp only at hx
    rcases List.mem_append.1 hx with hx | hx
    · exact h1 x hx
    · exact h2 x hx

end Lemmas
end GV
