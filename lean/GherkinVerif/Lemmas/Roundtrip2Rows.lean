/-
  Lemmas/Roundtrip2Rows.lean — round trip, richer model: the rendered table row `    | a | bb |` is
  matched as a table row with the cells at their columns, and fails every other specific test.
-/
import GherkinVerif.Spec.Render2
import GherkinVerif.Lemmas.RoundtripScen
set_option linter.unusedSectionVars false
set_option linter.unusedSimpArgs false
set_option linter.unusedVariables false
namespace GV
namespace Lemmas
open Spec

theorem cellOK_spec {c : Str} (h : cellOK c = true) :
    noWsStart c = true ∧ noWsEnd c = true ∧ ∀ x ∈ c, x ≠ 124 ∧ x ≠ 92 ∧ x ≠ 10 := by
  simp only [cellOK, Bool.and_eq_true, List.all_eq_true, bne_iff_ne, ne_eq] at h
  exact ⟨h.1.1, h.1.2, fun x hx => ⟨(h.2 x hx).1.1, (h.2 x hx).1.2, (h.2 x hx).2⟩⟩

theorem noWsEnd_append_cons (s z : Str) (a : Nat) : noWsEnd (s ++ a :: z) = noWsEnd (a :: z) := by
  induction s with
  | nil => rfl
  | cons b s ihs =>
    cases s with
    | nil => simp [noWsEnd]
    | cons b' s' => simpa [noWsEnd] using ihs

theorem dropWhileEnd_noWsEnd' (p : Nat → Bool) (hp : ∀ x, p x = true → isSpace x = true) (s : Str)
    (h : noWsEnd s = true) : dropWhileEnd p s = s := by
  induction s with
  | nil => rfl
  | cons a s ih =>
    cases s with
    | nil =>
      have : isSpace a = false := by simpa [noWsEnd] using h
      have hpa : p a = false := by
        cases hpa : p a with
        | false => rfl
        | true => rw [hp a hpa] at this; cases this
      simp [dropWhileEnd, hpa]
    | cons c r =>
      have h' : noWsEnd (c :: r) = true := by simpa [noWsEnd] using h
      simp only [dropWhileEnd] at ih ⊢
      rw [ih h']

/-! ### `split_table_cells` on the rendered row -/

theorem splitCells_bar (rest : Str) (col start : Nat) (cell : Str) :
    splitCells (124 :: rest) col start cell false = (cell, start) :: splitCells rest (col + 1) (col + 2) [] false := by
  rw [splitCells.eq_def]; simp

theorem splitCells_bar_first (rest : Str) (col start : Nat) (cell : Str) :
    splitCells (124 :: rest) col start cell true = splitCells rest (col + 1) (col + 2) [] false := by
  rw [splitCells.eq_def]; simp

theorem splitCells_plain (x : Nat) (rest : Str) (col start : Nat) (cell : Str) (first : Bool)
    (h1 : x ≠ 124) (h2 : x ≠ 92) :
    splitCells (x :: rest) col start cell first = splitCells rest (col + 1) start (cell ++ [x]) first := by
  rw [splitCells.eq_def]; simp [h1, h2]

theorem splitCells_run (s rest : Str) (hs : ∀ x ∈ s, x ≠ 124 ∧ x ≠ 92) : ∀ (col start : Nat) (acc : Str),
    splitCells (s ++ 124 :: rest) col start acc false =
      (acc ++ s, start) :: splitCells rest (col + s.length + 1) (col + s.length + 2) [] false := by
  induction s with
  | nil => intro col start acc; rw [List.nil_append, splitCells_bar]; simp
  | cons x s ih =>
    intro col start acc
    obtain ⟨h1, h2⟩ := hs x (by simp)
    rw [List.cons_append, splitCells_plain _ _ _ _ _ _ h1 h2]
    rw [ih (fun y hy => hs y (by simp [hy]))]
    simp [Nat.add_assoc, Nat.add_comm 1]

/-- the raw cells (text between the bars, start column in the stripped row) -/
def rawCells : Nat → List Str → List (Str × Nat)
  | _, [] => []
  | st, c :: cs => (32 :: c ++ [32], st) :: rawCells (st + c.length + 3) cs

theorem splitCells_cells (cells : List Str) (h : ∀ c ∈ cells, ∀ x ∈ c, x ≠ 124 ∧ x ≠ 92) : ∀ col,
    splitCells (cells.flatMap fun c => 32 :: c ++ [32, 124]) col (col + 1) [] false = rawCells (col + 1) cells := by
  induction cells with
  | nil => intro col; rfl
  | cons c cs ih =>
    intro col
    have e : ((c :: cs).flatMap fun c => 32 :: c ++ [32, 124]) =
        (32 :: c ++ [32]) ++ 124 :: (cs.flatMap fun c => 32 :: c ++ [32, 124]) := by simp
    rw [e, splitCells_run _ _ (by
      intro x hx
      simp only [List.mem_cons, List.mem_append, List.mem_singleton, List.not_mem_nil, or_false] at hx
      rcases hx with (rfl | hx) | rfl
      · decide
      · exact h c (by simp) x hx
      · decide)]
    have hl : (32 :: c ++ [32]).length = c.length + 2 := by simp
    rw [hl, rawCells, List.nil_append]
    have e2 : col + (c.length + 2) + 2 = (col + (c.length + 2) + 1) + 1 := by omega
    rw [e2, ih (fun c' hc' => h c' (by simp [hc'])) (col + (c.length + 2) + 1)]
    have e3 : col + (c.length + 2) + 1 + 1 = col + 1 + c.length + 3 := by omega
    rw [e3]

theorem isBlank_32 : isBlank 32 = true := by decide

theorem cell_fields (c : Str) (h1 : noWsStart c = true) (h2 : noWsEnd c = true) :
    lstripBlank (32 :: c ++ [32]) = (if c.isEmpty then [] else c ++ [32]) ∧
    rstripBlank (lstripBlank (32 :: c ++ [32])) = c := by
  have hb : ∀ x, isBlank x = true → isSpace x = true := by
    intro x hx; simp only [isBlank, Bool.and_eq_true] at hx; exact hx.1
  cases c with
  | nil => simp [lstripBlank, isBlank_32, rstripBlank, dropWhileEnd]
  | cons a r =>
    have ha : isSpace a = false := by simpa [noWsStart] using h1
    have hba : isBlank a = false := by simp [isBlank, ha]
    have e : lstripBlank (32 :: (a :: r) ++ [32]) = (a :: r) ++ [32] := by
      simp [lstripBlank, isBlank_32, hba]
    refine ⟨by rw [e]; simp, ?_⟩
    rw [e, rstripBlank, dropWhileEnd_append_single _ _ _ isBlank_32, dropWhileEnd_noWsEnd' _ hb _ h2]

theorem map_rawCells (cells : List Str) (h : ∀ c ∈ cells, noWsStart c = true ∧ noWsEnd c = true) : ∀ st,
    (rawCells st cells).map (fun (p : Str × Nat) =>
      (p.2 + 4 + (p.1.length - (lstripBlank p.1).length), rstripBlank (lstripBlank p.1))) =
    cellCols (st + 4) cells := by
  induction cells with
  | nil => intro st; rfl
  | cons c cs ih =>
    intro st
    obtain ⟨h1, h2⟩ := h c (by simp)
    obtain ⟨e1, e2⟩ := cell_fields c h1 h2
    simp only [rawCells, List.map_cons, cellCols, e2]
    rw [ih (fun c' hc' => h c' (by simp [hc']))]
    have e3 : st + c.length + 3 + 4 = st + 4 + c.length + 3 := by omega
    rw [e3]
    congr 2
    rw [e1]
    cases c with
    | nil => simp
    | cons a r => simp <;> omega

theorem noWsEnd_rowBody (cells : List Str) : ∀ pre : Str,
    noWsEnd (pre ++ 124 :: cells.flatMap fun c => 32 :: c ++ [32, 124]) = true := by
  induction cells with
  | nil => intro pre; rw [List.flatMap_nil, noWsEnd_append_cons]; decide
  | cons c cs ih =>
    intro pre
    have := ih (pre ++ 124 :: 32 :: c ++ [32])
    simpa [List.append_assoc] using this

theorem rowBody_noLF (cells : List Str) (h : ∀ c ∈ cells, ∀ x ∈ c, x ≠ 10) : ∀ x ∈ rowLineOf cells, x ≠ 10 := by
  intro x hx
  simp only [rowLineOf, rowBody, List.mem_append, List.mem_cons, List.mem_flatMap, List.not_mem_nil, or_false] at hx
  rcases hx with (rfl | rfl | rfl | rfl) | rfl | ⟨c, hc, (rfl | hx) | rfl | rfl⟩
  all_goals first | decide | exact h c hc x hx

/-! ### the expected token -/

def rowTok (μ : MState) (n : Nat) (cells : List Str) : Token :=
  { line := some (rowLineOf cells ++ [10]), lineNo := n, col := some 5, mtype := some .TableRow,
    text := none, keyword := none, ktype := none, indent := 4, items := cellCols 6 cells, dialect := μ.name }

theorem row_trimmed (cells : List Str) : trimmed (rowLineOf cells ++ [10]) = rowBody cells ++ [10] := by
  have : rowLineOf cells ++ [10] = [32, 32, 32, 32] ++ (rowBody cells ++ [10]) := by simp [rowLineOf]
  rw [this]
  exact trimmed_ws_append _ _ (by intro c hc; simp at hc; subst hc; exact isSpace_32) (by simp [rowBody, noWsStart]; decide)

/-- the rendered table row is matched as a table row, cells at their columns -/
theorem row_match (D : List Dialect) (μ : MState) (cells : List Str) (h : ∀ c ∈ cells, cellOK c = true)
    (t : Token) (n : Nat) (hl : t.line = some (rowLineOf cells ++ [10])) (hno : t.lineNo = n) :
    matchLine D .TableRow μ t (rowLineOf cells ++ [10]) = ⟨rowTok μ n cells, μ, .matched⟩ := by
  have htr := row_trimmed cells
  have hind : lineIndent (rowLineOf cells ++ [10]) = 4 := by
    have : rowLineOf cells ++ [10] = [32, 32, 32, 32] ++ (rowBody cells ++ [10]) := by simp [rowLineOf]
    rw [this]
    exact indentOf_ws_append _ _ (by intro c hc; simp at hc; subst hc; exact isSpace_32)
      (by simp [rowBody, noWsStart]; decide)
  have hstrip : strip (rowBody cells ++ [10]) = rowBody cells := by
    have := strip_clean [] (rowBody cells) 10 isSpace_10 (by simp) (by simp [rowBody, noWsStart]; decide)
      (by have := noWsEnd_rowBody cells []; simpa [rowBody] using this)
    simpa using this
  have hcells : tableCells (rowLineOf cells ++ [10]) = cellCols 6 cells := by
    unfold tableCells
    rw [htr, hstrip, hind]
    have hs : splitCells (rowBody cells) 0 1 [] true = rawCells 2 cells := by
      have := splitCells_cells cells (fun c hc x hx => ⟨((cellOK_spec (h c hc)).2.2 x hx).1,
        ((cellOK_spec (h c hc)).2.2 x hx).2.1⟩) 1
      show splitCells (124 :: _) 0 1 [] true = _
      rw [splitCells_bar_first]
      simpa using this
    rw [hs]
    exact map_rawCells cells (fun c hc => ⟨(cellOK_spec (h c hc)).1, (cellOK_spec (h c hc)).2.1⟩) 2
  have hsw : lineStartsWith (rowLineOf cells ++ [10]) [124] = true := by
    rw [lineStartsWith, htr]; simp [rowBody, startsWith]
  cases t
  simp only at hl hno
  subst hl hno
  simp [matchLine, hsw, hcells, setMatched, rowTok, hind]

/-- … and fails every other specific test, token and matcher untouched -/
theorem row_others_no {D' : List Dialect} (hr : renderFacts D' = true) (D : List Dialect) (μ : MState)
    (hμ : μ.dialect ∈ D') (hsep : μ.activeSep = none) (cells : List Str) (t : Token) (K : Kind)
    (hK : K ≠ .TableRow) (hO : K ≠ .Other) : matchLine D K μ t (rowLineOf cells ++ [10]) = ⟨t, μ, .no⟩ := by
  have hy : trimmed (rowLineOf cells ++ [10]) = 124 :: ((cells.flatMap fun c => 32 :: c ++ [32, 124]) ++ [10]) := by
    rw [row_trimmed]; rfl
  have hkw : ∀ k ∈ μ.dialect.allKeywords, ∀ x y : Str, startsWith (k ++ x) (124 :: y) = false := by
    intro k hk x y
    obtain ⟨⟨c, r, rfl, -, -, -, hc, -⟩, -⟩ := renderFacts_spec hr hμ hk
    simp [startsWith, hc]
  by_cases hK2 : K.isTitle = true ∨ K = .StepLine
  · apply matchLine_foreign D μ t _ _ _ K hK2
    · intro k hk; rw [hy]; exact hkw k (mem_allKeywords_title hk) [58] _
    · intro k hk; rw [hy]
      have := hkw k (mem_allKeywords_step hk) [] ((cells.flatMap fun c => 32 :: c ++ [32, 124]) ++ [10])
      rwa [List.append_nil] at this
  · cases K
    case EOF => rfl
    case Empty => exact no_Empty D μ t _ _ _ hy
    case Comment => exact no_Comment D μ t _ _ _ hy (by decide)
    case TagLine => exact no_TagLine D μ t _ _ _ hy (by decide)
    case TableRow => exact absurd rfl hK
    case Language => exact no_Language D μ t _ _ _ hy (by decide)
    case DocStringSeparator => exact no_DocSep D μ t _ _ _ hsep hy (by decide) (by decide)
    case Other => exact absurd rfl hO
    all_goals exact absurd (by simp [Kind.isTitle]) hK2

end Lemmas
end GV
