/-
  Lemmas/Builder.lean — helper lemmas for the node-level parts of properties C03 and C11
  (Props/C03.lean, Props/C11Builder.lean): the algebra of the builder monad `BM`
  (`run_pure`, `run_bind`, `run_nextId`, `run_throw`, `run_mapM'` …), closed forms of
  `getTags` / `getTableRows` / `getDescription`, and for every rule type both directions of
  "`transformNode` succeeds with this value and this counter  ↔  the node's items have this shape".

  The first section is the small vocabulary the property statements are written in
  (pure readings of a node's item list); everything else lives in `GV.Lemmas`.
-/
import GherkinVerif.Model.Builder
namespace GV

/-! ### vocabulary of the property statements -/
namespace Spec

/-- the description a node carries: its first `Description` item, the empty string if it has
    none; `none` if that item is not a description string (`transformNode` never builds such). -/
def descOf (items : List (Key × Val)) : Option Str :=
  match getItems items (.rule .Description) with
  | [] => some []
  | .descr s :: _ => some s
  | _ => none

/-- the tag-line tokens of a node: those of its first `Tags` item, none if it has no `Tags`
    item; `none` if that item is not a raw node (never built). -/
def tagTokens (items : List (Key × Val)) : Option (List Token) :=
  match getSingle items (.rule .Tags) with
  | .raw _ tagNode => some (getTokens tagNode .TagLine)
  | .none => some []
  | _ => none

/-- all `(tag line, tag item)` pairs of the tag lines, line by line, left to right. -/
def tagPairs (toks : List Token) : List (Token × (Nat × Str)) :=
  toks.flatMap fun t => t.items.map fun it => (t, it)

/-- the tags of these tag lines, numbered consecutively from `n` in source order. -/
def numberTags (toks : List Token) (n : Nat) : List Tag :=
  ((tagPairs toks).zipIdx n).map fun p =>
    { id := p.2, loc := getLocation p.1.1 (some p.1.2.1), name := p.1.2.2 }

/-- the rows of these table-row tokens, numbered consecutively from `n` in source order. -/
def numberRows (toks : List Token) (n : Nat) : List Row :=
  (toks.zipIdx n).map fun p => { id := p.2, loc := getLocation p.1, cells := getCells p.1 }

/-- step argument: the `DataTable` item if present, else the `DocString` item, else none. -/
def stepArgOf (items : List (Key × Val)) : StepArg :=
  match getSingle items (.rule .DataTable) with
  | .dataTable d => .table d
  | _ => match getSingle items (.rule .DocString) with
    | .docString d => .doc d
    | _ => .none

/-- the finished `ExamplesDefinition` items, in order. -/
def getExamples (items : List (Key × Val)) : List Examples :=
  (getItems items (.rule .ExamplesDefinition)).filterMap fun v =>
    match v with | .examples e => some e | _ => Option.none

/-- the finished `Rule` items, in order. -/
def getRules (items : List (Key × Val)) : List Rule :=
  (getItems items (.rule .Rule)).filterMap fun v =>
    match v with | .rule r => some r | _ => Option.none

/-- the rows of the node's `ExamplesTable` item; no rows if it has none. -/
def tableOf (items : List (Key × Val)) : List Row :=
  match getSingle items (.rule .ExamplesTable) with
  | .rows rs => rs
  | _ => []

/-- the node's finished `Feature` item, if any. -/
def featureOf (items : List (Key × Val)) : Option Feature :=
  match getSingle items (.rule .Feature) with
  | .feature f => some f
  | _ => Option.none

/-- children of a rule: its background (if any) first, then its scenarios in order.
    (Written with the same `match` as the model; see `ruleChildren_eq` for the list form.) -/
def ruleChildren (items : List (Key × Val)) : List RuleChild :=
  (match getBackground items with | some b => [RuleChild.background b] | Option.none => []) ++
  (getScenarios items).map RuleChild.scenario

/-- children of a feature: background (if any), then scenarios, then rules, each in order. -/
def featureChildren (items : List (Key × Val)) : List FeatureChild :=
  (match getBackground items with | some b => [FeatureChild.background b] | Option.none => []) ++
  (getScenarios items).map FeatureChild.scenario ++ (getRules items).map FeatureChild.rule

/-- The ids one `transformNode` call draws, read off its result in the canonical local order:
    rows in order for tables; tags, then the node itself, for tagged nodes; the node itself for
    steps and backgrounds; a feature has no id of its own; nothing else draws ids. -/
def drawnIds : RuleType → Val → List Nat
  | .Step, .step s => [s.id]
  | .Background, .background b => [b.id]
  | .DataTable, .dataTable d => d.rows.map (·.id)
  | .ExamplesTable, .rows rs => rs.map (·.id)
  | .ScenarioDefinition, .scenario s => s.tags.map (·.id) ++ [s.id]
  | .ExamplesDefinition, .examples e => e.tags.map (·.id) ++ [e.id]
  | .Rule, .rule r => r.tags.map (·.id) ++ [r.id]
  | .Feature, .feature f => f.tags.map (·.id)
  | _, _ => []

/-- number of tags on these tag lines -/
def tagCount (toks : List Token) : Nat := (tagPairs toks).length

end Spec

namespace Lemmas
open Spec

/-! ### the builder monad: running a computation from a counter -/

theorem run_pure {α} (a : α) (n : Nat) : (pure a : BM α).run.run n = (.ok a, n) := rfl

theorem run_bind {α β} (x : BM α) (f : α → BM β) (n : Nat) :
    (x >>= f).run.run n =
      match x.run.run n with
      | (.ok a, n') => (f a).run.run n'
      | (.error e, n') => (.error e, n') := by
  simp only [bind, ExceptT.bind, ExceptT.mk, ExceptT.run, StateT.bind, StateT.run, ExceptT.bindCont]
  rcases x n with ⟨_ | _, _⟩ <;> rfl

theorem run_nextId (n : Nat) : nextId.run.run n = (.ok n, n + 1) := rfl
theorem run_throw {α} (e : BErr) (n : Nat) : (throw e : BM α).run.run n = (.error e, n) := rfl
theorem run_crash {α} (s : String) (n : Nat) : (crash s : BM α).run.run n = (.error (.crash s), n) := rfl

theorem run_need_some {α} (w : String) (a : α) (n : Nat) : (need w (some a)).run.run n = (.ok a, n) := rfl
theorem run_need_none {α} (w : String) (n : Nat) :
    (need w (Option.none : Option α)).run.run n = (.error (.crash s!"missing field {w}"), n) := rfl

/-- results are compared componentwise (the result type is `Id (_ × _)`, which hides the pair
    from `simp`'s own injectivity lemma) -/
theorem res_inj {α} (a a' : Except BErr α) (n n' : Nat) :
    @Eq (Id (Except BErr α × Nat)) (a, n) (a', n') ↔ a = a' ∧ n = n' :=
  Prod.mk.injEq a n a' n' ▸ Iff.rfl

/-- success of a bind, both ways -/
theorem run_bind_ok {α β} (x : BM α) (f : α → BM β) (n m : Nat) (v : β) :
    (x >>= f).run.run n = (.ok v, m) ↔
      ∃ a n₁, x.run.run n = (.ok a, n₁) ∧ (f a).run.run n₁ = (.ok v, m) := by
  rw [run_bind]
  rcases h : x.run.run n with ⟨e | a, n₁⟩
  · simp [res_inj]
  · simp only [res_inj, Except.ok.injEq]
    constructor
    · intro h'; exact ⟨a, n₁, ⟨rfl, rfl⟩, h'⟩
    · rintro ⟨a', n', ⟨rfl, rfl⟩, h'⟩; exact h'

theorem run_pure_ok {α} (a v : α) (n m : Nat) : (pure a : BM α).run.run n = (.ok v, m) ↔ v = a ∧ m = n := by
  rw [run_pure]; simp [res_inj, eq_comm]

theorem run_nextId_ok (n m v : Nat) : nextId.run.run n = (.ok v, m) ↔ v = n ∧ m = n + 1 := by
  rw [run_nextId]; simp [res_inj, eq_comm]

theorem run_crash_ok {α} (s : String) (n m : Nat) (v : α) : (crash s : BM α).run.run n = (.ok v, m) ↔ False := by
  rw [run_crash]; simp [res_inj]

theorem run_throw_ok {α} (e : BErr) (n m : Nat) (v : α) : (throw e : BM α).run.run n = (.ok v, m) ↔ False := by
  rw [run_throw]; simp [res_inj]

theorem run_need_ok {α} (w : String) (o : Option α) (n m : Nat) (v : α) :
    (need w o).run.run n = (.ok v, m) ↔ o = some v ∧ m = n := by
  cases o with
  | none => rw [run_need_none]; simp [res_inj]
  | some a => rw [run_need_some]; simp [res_inj, eq_comm]

theorem run_needToken_tok (items : List (Key × Val)) (k : Kind) (t : Token) (n : Nat)
    (h : getSingle items (.tok k) = .tok t) : (needToken items k).run.run n = (.ok t, n) := by
  simp only [needToken, h]; rfl

theorem run_needToken_ok (items : List (Key × Val)) (k : Kind) (n m : Nat) (t : Token) :
    (needToken items k).run.run n = (.ok t, m) ↔ getSingle items (.tok k) = .tok t ∧ m = n := by
  unfold needToken
  split
  · next t' h => rw [h, run_pure]; simp [res_inj, eq_comm]
  · next h =>
    rw [run_crash]
    constructor
    · intro h'; simp [res_inj] at h'
    · rintro ⟨h', -⟩; exact absurd h' (h t)

/-- `needToken` fails exactly when the first item of that key is not a token -/
theorem run_needToken_not (items : List (Key × Val)) (k : Kind) (n : Nat)
    (h : ∀ t, getSingle items (.tok k) ≠ .tok t) :
    ∃ s, (needToken items k).run.run n = (.error (.crash s), n) := by
  unfold needToken
  split
  · next t' h' => exact absurd h' (h t')
  · exact ⟨_, rfl⟩

/-! ### counters never go down; some computations draw no id at all -/

/-- the computation never decreases the counter, whatever its outcome -/
def Mono {α} (x : BM α) : Prop := ∀ n, n ≤ (x.run.run n).2
/-- the computation leaves the counter alone, whatever its outcome -/
def NoDraw {α} (x : BM α) : Prop := ∀ n, (x.run.run n).2 = n

theorem NoDraw.mono {α} {x : BM α} (h : NoDraw x) : Mono x := fun n => by rw [h n]; exact Nat.le_refl n

theorem noDraw_pure {α} (a : α) : NoDraw (pure a : BM α) := fun _ => rfl
theorem noDraw_crash {α} (s : String) : NoDraw (crash s : BM α) := fun _ => rfl
theorem noDraw_throw {α} (e : BErr) : NoDraw (throw e : BM α) := fun _ => rfl
theorem noDraw_need {α} (w : String) (o : Option α) : NoDraw (need w o) := by
  cases o <;> exact fun _ => rfl
theorem noDraw_needToken (items : List (Key × Val)) (k : Kind) : NoDraw (needToken items k) := by
  unfold needToken; split
  · exact noDraw_pure _
  · exact noDraw_crash _
theorem noDraw_getDescription (items : List (Key × Val)) : NoDraw (getDescription items) := by
  unfold getDescription; split
  · exact noDraw_pure _
  · exact noDraw_pure _
  · exact noDraw_crash _

theorem noDraw_bind {α β} {x : BM α} {f : α → BM β} (hx : NoDraw x) (hf : ∀ a, NoDraw (f a)) :
    NoDraw (x >>= f) := by
  intro n
  rw [run_bind]
  have := hx n
  rcases h : x.run.run n with ⟨e | a, n₁⟩
  · rw [h] at this; exact this
  · rw [h] at this; simp only at this ⊢; rw [this]; exact hf a n

theorem mono_pure {α} (a : α) : Mono (pure a : BM α) := (noDraw_pure a).mono
theorem mono_crash {α} (s : String) : Mono (crash s : BM α) := (noDraw_crash s).mono
theorem mono_throw {α} (e : BErr) : Mono (throw e : BM α) := (noDraw_throw e).mono
theorem mono_nextId : Mono nextId := fun n => Nat.le_succ n

theorem mono_bind {α β} {x : BM α} {f : α → BM β} (hx : Mono x) (hf : ∀ a, Mono (f a)) :
    Mono (x >>= f) := by
  intro n
  rw [run_bind]
  have := hx n
  rcases h : x.run.run n with ⟨e | a, n₁⟩
  · rw [h] at this; exact this
  · rw [h] at this; exact Nat.le_trans this (hf a n₁)

theorem noDraw_mapM' {α β} {f : α → BM β} (hf : ∀ a, NoDraw (f a)) : ∀ as, NoDraw (mapM' f as)
  | [] => noDraw_pure _
  | a :: as => by
    unfold mapM'
    exact noDraw_bind (hf a) fun _ => noDraw_bind (noDraw_mapM' hf as) fun _ => noDraw_pure _

theorem mono_mapM' {α β} {f : α → BM β} (hf : ∀ a, Mono (f a)) : ∀ as, Mono (mapM' f as)
  | [] => mono_pure _
  | a :: as => by
    unfold mapM'
    exact mono_bind (hf a) fun _ => mono_bind (mono_mapM' hf as) fun _ => mono_pure _

/-! ### `mapM'` -/

theorem run_mapM'_nil {α β} (f : α → BM β) (n : Nat) : (mapM' f []).run.run n = (.ok [], n) := rfl

theorem run_mapM'_cons {α β} (f : α → BM β) (a : α) (as : List α) (n : Nat) :
    (mapM' f (a :: as)).run.run n =
      match (f a).run.run n with
      | (.ok b, n') =>
        (match (mapM' f as).run.run n' with
         | (.ok bs, n'') => (.ok (b :: bs), n'')
         | (.error e, n'') => (.error e, n''))
      | (.error e, n') => (.error e, n') := by
  rw [mapM', run_bind]
  rcases (f a).run.run n with ⟨e | b, n'⟩
  · rfl
  · simp only [run_bind, run_pure]
    rcases (mapM' f as).run.run n' with ⟨e | bs, n''⟩ <;> rfl

/-- `mapM'` of a function that draws one id per element and cannot fail: the elements are
    numbered consecutively in list order, and the counter advances by the length. -/
theorem run_mapM'_numbered {α β} (g : Nat → α → β) : ∀ (as : List α) (n : Nat),
    (mapM' (fun a => do let id ← nextId; pure (g id a)) as).run.run n =
      (.ok ((as.zipIdx n).map fun p => g p.2 p.1), n + as.length)
  | [], n => rfl
  | a :: as, n => by
    rw [run_mapM'_cons, run_bind, run_nextId]
    simp only [run_pure, run_mapM'_numbered g as (n + 1), List.zipIdx_cons, List.map_cons, List.length_cons]
    congr 1; omega

/-- `mapM'` of `need` over fields that are all present returns them, drawing nothing -/
theorem run_mapM'_need {α β} (w : String) (g : α → Option β) : ∀ (as : List α) (bs : List β) (n : Nat),
    as.map g = bs.map some → (mapM' (fun a => need w (g a)) as).run.run n = (.ok bs, n)
  | [], [], _, _ => rfl
  | [], _ :: _, _, h => by simp at h
  | _ :: _, [], _, h => by simp at h
  | a :: as, b :: bs, n, h => by
    simp only [List.map_cons, List.cons.injEq] at h
    rw [run_mapM'_cons, h.1, run_need_some]
    simp only [run_mapM'_need w g as bs n h.2]

theorem run_mapM'_need_ok {α β} (w : String) (g : α → Option β) : ∀ (as : List α) (bs : List β) (n m : Nat),
    (mapM' (fun a => need w (g a)) as).run.run n = (.ok bs, m) → as.map g = bs.map some ∧ m = n
  | [], bs, n, m, h => by
    rw [run_mapM'_nil] at h
    simp only [res_inj, Except.ok.injEq] at h
    obtain ⟨rfl, rfl⟩ := h; exact ⟨rfl, rfl⟩
  | a :: as, bs, n, m, h => by
    rw [run_mapM'_cons] at h
    cases hg : g a with
    | none => rw [hg, run_need_none] at h; simp [res_inj] at h
    | some b =>
      rw [hg, run_need_some] at h
      simp only at h
      rcases hr : (mapM' (fun a => need w (g a)) as).run.run n with ⟨e | bs', n'⟩
      · rw [hr] at h; simp [res_inj] at h
      · rw [hr] at h
        simp only [res_inj, Except.ok.injEq] at h
        obtain ⟨rfl, rfl⟩ := h
        obtain ⟨h1, rfl⟩ := run_mapM'_need_ok w g as bs' n n' hr
        exact ⟨by simp [hg, h1], rfl⟩

/-! ### closed forms of the helper computations -/

theorem run_getDescription (items : List (Key × Val)) (n : Nat) :
    (getDescription items).run.run n =
      (match descOf items with
       | some d => .ok d
       | none => .error (.crash "get_description: not a string"), n) := by
  unfold getDescription descOf
  cases h : getItems items (.rule .Description) with
  | nil => rfl
  | cons v vs => cases v <;> rfl

theorem run_getDescription_some (items : List (Key × Val)) (d : Str) (n : Nat)
    (h : descOf items = some d) : (getDescription items).run.run n = (.ok d, n) := by
  rw [run_getDescription, h]

theorem run_getDescription_ok (items : List (Key × Val)) (d : Str) (n m : Nat) :
    (getDescription items).run.run n = (.ok d, m) ↔ descOf items = some d ∧ m = n := by
  rw [run_getDescription]
  cases descOf items <;> simp [res_inj, eq_comm]

/-! #### tags -/

theorem tagPairs_nil : tagPairs [] = [] := rfl
theorem tagPairs_cons (t : Token) (toks : List Token) :
    tagPairs (t :: toks) = t.items.map (fun it => (t, it)) ++ tagPairs toks := rfl

theorem tagCount_cons (t : Token) (toks : List Token) :
    tagCount (t :: toks) = t.items.length + tagCount toks := by
  simp [tagCount, tagPairs_cons]

theorem numberTags_nil (n : Nat) : numberTags [] n = [] := rfl

theorem numberTags_cons (t : Token) (toks : List Token) (n : Nat) :
    numberTags (t :: toks) n =
      ((t.items.zipIdx n).map fun p =>
        ({ id := p.2, loc := getLocation t (some p.1.1), name := p.1.2 } : Tag)) ++
      numberTags toks (n + t.items.length) := by
  simp only [numberTags, tagPairs_cons, List.zipIdx_append, List.map_append, List.zipIdx_map,
    List.map_map, List.length_map]
  rfl

theorem numberTags_length (toks : List Token) (n : Nat) : (numberTags toks n).length = tagCount toks := by
  simp [numberTags, tagCount]

/-- the ids of numbered tags are `n, n+1, …` in order -/
theorem numberTags_ids (toks : List Token) (n : Nat) :
    (numberTags toks n).map (·.id) = List.range' n (tagCount toks) := by
  simp only [numberTags, List.map_map, tagCount]
  rw [← List.zipIdx_map_snd n (tagPairs toks)]
  rfl

/-- their locations and names are those of the tag items, line by line, left to right -/
theorem numberTags_content (toks : List Token) (n : Nat) :
    (numberTags toks n).map (fun t => (t.loc, t.name)) =
      toks.flatMap fun t => t.items.map fun it => (getLocation t (some it.1), it.2) := by
  induction toks generalizing n with
  | nil => rfl
  | cons t toks ih =>
    rw [numberTags_cons, List.map_append, ih, List.flatMap_cons, List.map_map]
    congr 1
    have : ∀ (l : List (Nat × Str)) (k : Nat),
        List.map ((fun (t : Tag) => (t.loc, t.name)) ∘ fun p =>
          ({ id := p.2, loc := getLocation t (some p.1.1), name := p.1.2 } : Tag)) (l.zipIdx k) =
        l.map fun it => (getLocation t (some it.1), it.2) := by
      intro l
      induction l with
      | nil => intro k; rfl
      | cons a l ihl => intro k; simp only [List.zipIdx_cons, List.map_cons, ihl (k + 1)]; rfl
    exact this _ _

theorem run_tagLines (toks : List Token) : ∀ (n : Nat),
    ∃ perLine, (mapM' (fun (t : Token) =>
        mapM' (fun (it : Nat × Str) => do
          let id ← nextId
          pure ({ id := id, loc := getLocation t (some it.1), name := it.2 } : Tag)) t.items) toks).run.run n
      = (.ok perLine, n + tagCount toks) ∧ perLine.flatten = numberTags toks n := by
  induction toks with
  | nil => intro n; exact ⟨[], rfl, rfl⟩
  | cons t toks ih =>
    intro n
    obtain ⟨pl, h1, h2⟩ := ih (n + t.items.length)
    refine ⟨((t.items.zipIdx n).map fun p =>
        ({ id := p.2, loc := getLocation t (some p.1.1), name := p.1.2 } : Tag)) :: pl, ?_, ?_⟩
    · rw [run_mapM'_cons,
        run_mapM'_numbered (fun id (it : Nat × Str) =>
          ({ id := id, loc := getLocation t (some it.1), name := it.2 } : Tag)) t.items n]
      simp only [h1, tagCount_cons, Nat.add_assoc]
    · rw [List.flatten_cons, h2, numberTags_cons]

theorem run_getTags_some (items : List (Key × Val)) (toks : List Token) (n : Nat)
    (h : tagTokens items = some toks) :
    (getTags items).run.run n = (.ok (numberTags toks n), n + tagCount toks) := by
  unfold tagTokens at h
  unfold getTags
  split at h
  · next rt ti hs =>
    simp only [Option.some.injEq] at h
    subst h
    obtain ⟨pl, h1, h2⟩ := run_tagLines (getTokens ti .TagLine) n
    simp only [hs, run_bind, h1, run_pure, h2]
  · next hs =>
    simp only [Option.some.injEq] at h
    subst h
    simp only [hs]; rfl
  · simp at h

theorem run_getTags_none (items : List (Key × Val)) (n : Nat) (h : tagTokens items = none) :
    (getTags items).run.run n = (.error (.crash "get_tags: Tags is not a node"), n) := by
  unfold tagTokens at h
  unfold getTags
  split at h
  · simp at h
  · simp at h
  · next h1 h2 =>
    split
    · next hs => exact absurd hs (h1 _ _)
    · next hs => exact absurd hs h2
    · rfl

theorem run_getTags_ok (items : List (Key × Val)) (tags : List Tag) (n m : Nat) :
    (getTags items).run.run n = (.ok tags, m) ↔
      ∃ toks, tagTokens items = some toks ∧ tags = numberTags toks n ∧ m = n + tagCount toks := by
  cases h : tagTokens items with
  | none => rw [run_getTags_none items n h]; simp [res_inj]
  | some toks => rw [run_getTags_some items toks n h]; simp [res_inj, eq_comm]

/-! #### table rows -/

theorem numberRows_length (toks : List Token) (n : Nat) : (numberRows toks n).length = toks.length := by
  simp [numberRows]

theorem numberRows_ids (toks : List Token) (n : Nat) :
    (numberRows toks n).map (·.id) = List.range' n toks.length := by
  simp only [numberRows, List.map_map]
  rw [← List.zipIdx_map_snd n toks]
  rfl

theorem numberRows_content (toks : List Token) (n : Nat) :
    (numberRows toks n).map (fun r => (r.loc, r.cells)) = toks.map fun t => (getLocation t, getCells t) := by
  induction toks generalizing n with
  | nil => rfl
  | cons t toks ih =>
    have := ih (n + 1)
    simp only [numberRows, List.zipIdx_cons, List.map_cons, List.map_map] at this ⊢
    rw [this]

theorem numberRows_cons (t : Token) (toks : List Token) (n : Nat) :
    numberRows (t :: toks) n = { id := n, loc := getLocation t, cells := getCells t } :: numberRows toks (n + 1) := rfl

theorem getCells_length (t : Token) : (getCells t).length = t.items.length := by simp [getCells]

theorem mem_numberRows (toks : List Token) (n : Nat) (r : Row) (h : r ∈ numberRows toks n) :
    ∃ t ∈ toks, r.loc = getLocation t ∧ r.cells = getCells t := by
  induction toks generalizing n with
  | nil => simp [numberRows] at h
  | cons t toks ih =>
    rw [numberRows_cons, List.mem_cons] at h
    rcases h with rfl | h
    · exact ⟨t, List.mem_cons_self, rfl, rfl⟩
    · obtain ⟨t', ht', e⟩ := ih (n + 1) h
      exact ⟨t', List.mem_cons_of_mem _ ht', e⟩

/-- a table is rectangular iff all row tokens carry as many items as the first -/
theorem raggedRow_numberRows_none (t0 : Token) (toks : List Token) (n : Nat)
    (h : ∀ t ∈ toks, t.items.length = t0.items.length) :
    raggedRow (numberRows (t0 :: toks) n) = none := by
  rw [numberRows_cons, raggedRow]
  rw [List.find?_eq_none]
  intro r hr
  rw [← numberRows_cons] at hr
  obtain ⟨t, ht, -, hc⟩ := mem_numberRows _ _ _ hr
  have : t.items.length = t0.items.length := by
    rcases List.mem_cons.1 ht with rfl | ht
    · rfl
    · exact h t ht
  simp [hc, getCells_length, this]

theorem run_getTableRows (items : List (Key × Val)) (n : Nat) :
    (getTableRows items).run.run n =
      ((match raggedRow (numberRows (getTokens items .TableRow) n) with
        | some r => .error (.ast ⟨.raggedTable, r.loc, lit "inconsistent cell count within the table"⟩)
        | none => .ok (numberRows (getTokens items .TableRow) n)),
       n + (getTokens items .TableRow).length) := by
  unfold getTableRows
  rw [run_bind, run_mapM'_numbered (fun id (t : Token) => ({ id := id, loc := getLocation t, cells := getCells t } : Row))]
  show (match raggedRow (numberRows (getTokens items .TableRow) n) with
        | some r => _ | none => _ : BM _).run.run _ = _
  cases raggedRow (numberRows (getTokens items .TableRow) n) <;> rfl

theorem run_getTableRows_ok (items : List (Key × Val)) (rows : List Row) (n m : Nat) :
    (getTableRows items).run.run n = (.ok rows, m) ↔
      raggedRow (numberRows (getTokens items .TableRow) n) = none ∧
      rows = numberRows (getTokens items .TableRow) n ∧ m = n + (getTokens items .TableRow).length := by
  rw [run_getTableRows]
  cases raggedRow (numberRows (getTokens items .TableRow) n) <;> simp [res_inj, eq_comm]

/-! ### success of a bind whose first computation is one of the helpers -/

theorem bind_nextId_ok {β} (f : Nat → BM β) (n m : Nat) (v : β) :
    (nextId >>= f).run.run n = (.ok v, m) ↔ (f n).run.run (n + 1) = (.ok v, m) := by
  rw [run_bind, run_nextId]

theorem bind_need_ok {α β} (w : String) (o : Option α) (f : α → BM β) (n m : Nat) (v : β) :
    (need w o >>= f).run.run n = (.ok v, m) ↔ ∃ a, o = some a ∧ (f a).run.run n = (.ok v, m) := by
  rw [run_bind]
  cases o with
  | none => rw [run_need_none]; simp [res_inj]
  | some a => rw [run_need_some]; simp

theorem bind_needToken_ok {β} (items : List (Key × Val)) (k : Kind) (f : Token → BM β) (n m : Nat) (v : β) :
    (needToken items k >>= f).run.run n = (.ok v, m) ↔
      ∃ t, getSingle items (.tok k) = .tok t ∧ (f t).run.run n = (.ok v, m) := by
  rw [run_bind_ok]
  simp only [run_needToken_ok]
  constructor
  · rintro ⟨t, _, ⟨h, rfl⟩, h'⟩; exact ⟨t, h, h'⟩
  · rintro ⟨t, h, h'⟩; exact ⟨t, n, ⟨h, rfl⟩, h'⟩

theorem bind_getDescription_ok {β} (items : List (Key × Val)) (f : Str → BM β) (n m : Nat) (v : β) :
    (getDescription items >>= f).run.run n = (.ok v, m) ↔
      ∃ d, descOf items = some d ∧ (f d).run.run n = (.ok v, m) := by
  rw [run_bind_ok]
  simp only [run_getDescription_ok]
  constructor
  · rintro ⟨t, _, ⟨h, rfl⟩, h'⟩; exact ⟨t, h, h'⟩
  · rintro ⟨t, h, h'⟩; exact ⟨t, n, ⟨h, rfl⟩, h'⟩

theorem bind_getTags_ok {β} (items : List (Key × Val)) (f : List Tag → BM β) (n m : Nat) (v : β) :
    (getTags items >>= f).run.run n = (.ok v, m) ↔
      ∃ toks, tagTokens items = some toks ∧
        (f (numberTags toks n)).run.run (n + tagCount toks) = (.ok v, m) := by
  rw [run_bind_ok]
  simp only [run_getTags_ok]
  constructor
  · rintro ⟨_, _, ⟨toks, h, rfl, rfl⟩, h'⟩; exact ⟨toks, h, h'⟩
  · rintro ⟨toks, h, h'⟩; exact ⟨_, _, ⟨toks, h, rfl, rfl⟩, h'⟩

theorem bind_getTableRows_ok {β} (items : List (Key × Val)) (f : List Row → BM β) (n m : Nat) (v : β) :
    (getTableRows items >>= f).run.run n = (.ok v, m) ↔
      raggedRow (numberRows (getTokens items .TableRow) n) = none ∧
        (f (numberRows (getTokens items .TableRow) n)).run.run (n + (getTokens items .TableRow).length) = (.ok v, m) := by
  rw [run_bind_ok]
  simp only [run_getTableRows_ok]
  constructor
  · rintro ⟨_, _, ⟨h, rfl, rfl⟩, h'⟩; exact ⟨h, h'⟩
  · rintro ⟨h, h'⟩; exact ⟨_, _, ⟨h, rfl, rfl⟩, h'⟩

/-! ### `transformNode`, rule type by rule type: success ↔ shape of the items -/

theorem step_ok (cs : List Comment) (items : List (Key × Val)) (n m : Nat) (v : Val) :
    (transformNode cs ⟨.Step, items⟩).run.run n = (.ok v, m) ↔
      ∃ line, getSingle items (.tok .StepLine) = .tok line ∧ ∃ kw, line.keyword = some kw ∧
        ∃ kt, line.ktype = some kt ∧ ∃ tx, line.text = some tx ∧
        v = .step { id := n, loc := getLocation line, keyword := kw, ktype := kt, text := tx,
                    arg := stepArgOf items } ∧ m = n + 1 := by
  simp only [transformNode, bind_nextId_ok, bind_needToken_ok, bind_need_ok, run_pure_ok]
  exact Iff.rfl

theorem background_ok (cs : List Comment) (items : List (Key × Val)) (n m : Nat) (v : Val) :
    (transformNode cs ⟨.Background, items⟩).run.run n = (.ok v, m) ↔
      ∃ line, getSingle items (.tok .BackgroundLine) = .tok line ∧ ∃ d, descOf items = some d ∧
        ∃ kw, line.keyword = some kw ∧ ∃ nm, line.text = some nm ∧
        v = .background { id := n, loc := getLocation line, keyword := kw, name := nm,
                          description := d, steps := getSteps items } ∧ m = n + 1 := by
  simp only [transformNode, bind_nextId_ok, bind_needToken_ok, bind_need_ok, bind_getDescription_ok, run_pure_ok]

theorem dataTable_ok (cs : List Comment) (items : List (Key × Val)) (n m : Nat) (v : Val) :
    (transformNode cs ⟨.DataTable, items⟩).run.run n = (.ok v, m) ↔
      raggedRow (numberRows (getTokens items .TableRow) n) = none ∧
      ∃ t0 rest, getTokens items .TableRow = t0 :: rest ∧
        v = .dataTable { loc := getLocation t0, rows := numberRows (getTokens items .TableRow) n } ∧
        m = n + (getTokens items .TableRow).length := by
  simp only [transformNode, bind_getTableRows_ok]
  cases h : getTokens items .TableRow with
  | nil => simp [numberRows, run_crash_ok]
  | cons t0 rest =>
    simp only [numberRows_cons, run_pure_ok]
    constructor
    · rintro ⟨hr, hv, hm⟩; exact ⟨hr, t0, rest, rfl, hv, hm⟩
    · rintro ⟨hr, _, _, e, hv, hm⟩; cases e; exact ⟨hr, hv, hm⟩

theorem examplesTable_ok (cs : List Comment) (items : List (Key × Val)) (n m : Nat) (v : Val) :
    (transformNode cs ⟨.ExamplesTable, items⟩).run.run n = (.ok v, m) ↔
      raggedRow (numberRows (getTokens items .TableRow) n) = none ∧
        v = .rows (numberRows (getTokens items .TableRow) n) ∧
        m = n + (getTokens items .TableRow).length := by
  simp only [transformNode, bind_getTableRows_ok, run_pure_ok]

theorem scenario_ok (cs : List Comment) (items : List (Key × Val)) (n m : Nat) (v : Val) :
    (transformNode cs ⟨.ScenarioDefinition, items⟩).run.run n = (.ok v, m) ↔
      ∃ toks, tagTokens items = some toks ∧
        ∃ rt sc, getSingle items (.rule .Scenario) = .raw rt sc ∧
        ∃ line, getSingle sc (.tok .ScenarioLine) = .tok line ∧ ∃ d, descOf sc = some d ∧
        ∃ kw, line.keyword = some kw ∧ ∃ nm, line.text = some nm ∧
        v = .scenario { id := n + tagCount toks, tags := numberTags toks n, loc := getLocation line,
                        keyword := kw, name := nm, description := d, steps := getSteps sc,
                        examples := getExamples sc } ∧
        m = n + tagCount toks + 1 := by
  simp only [transformNode, bind_getTags_ok]
  cases hs : getSingle items (.rule .Scenario) with
  | raw rt sc =>
    simp only [bind_nextId_ok, bind_needToken_ok, bind_need_ok, bind_getDescription_ok, run_pure_ok]
    constructor
    · rintro ⟨toks, ht, rest⟩; exact ⟨toks, ht, rt, sc, rfl, rest⟩
    · rintro ⟨toks, ht, _, _, e, rest⟩; cases e; exact ⟨toks, ht, rest⟩
  | _ => simp [run_crash_ok]


theorem examples_ok (cs : List Comment) (items : List (Key × Val)) (n m : Nat) (v : Val) :
    (transformNode cs ⟨.ExamplesDefinition, items⟩).run.run n = (.ok v, m) ↔
      ∃ toks, tagTokens items = some toks ∧
        ∃ rt ex, getSingle items (.rule .Examples) = .raw rt ex ∧
        ∃ line, getSingle ex (.tok .ExamplesLine) = .tok line ∧ ∃ d, descOf ex = some d ∧
        ∃ kw, line.keyword = some kw ∧ ∃ nm, line.text = some nm ∧
        v = .examples { id := n + tagCount toks, tags := numberTags toks n, loc := getLocation line,
                        keyword := kw, name := nm, description := d,
                        header := (tableOf ex).head?, body := (tableOf ex).drop 1 } ∧
        m = n + tagCount toks + 1 := by
  simp only [transformNode, bind_getTags_ok]
  cases hs : getSingle items (.rule .Examples) with
  | raw rt ex =>
    simp only [bind_nextId_ok, bind_needToken_ok, bind_need_ok, bind_getDescription_ok, run_pure_ok]
    constructor
    · rintro ⟨toks, ht, rest⟩; exact ⟨toks, ht, rt, ex, rfl, rest⟩
    · rintro ⟨toks, ht, _, _, e, rest⟩; cases e; exact ⟨toks, ht, rest⟩
  | _ => simp [run_crash_ok]

theorem rule_ok (cs : List Comment) (items : List (Key × Val)) (n m : Nat) (v : Val) (hv : v ≠ .none) :
    (transformNode cs ⟨.Rule, items⟩).run.run n = (.ok v, m) ↔
      ∃ rt header, getSingle items (.rule .RuleHeader) = .raw rt header ∧
        ∃ toks, tagTokens header = some toks ∧
        ∃ line, getSingle header (.tok .RuleLine) = .tok line ∧ ∃ d, descOf header = some d ∧
        ∃ kw, line.keyword = some kw ∧ ∃ nm, line.text = some nm ∧
        v = .rule { id := n + tagCount toks, tags := numberTags toks n, loc := getLocation line,
                    keyword := kw, name := nm, description := d, children := ruleChildren items } ∧
        m = n + tagCount toks + 1 := by
  simp only [transformNode]
  cases hh : getSingle items (.rule .RuleHeader) with
  | raw rt header =>
    simp only [bind_getTags_ok]
    cases hl : getSingle header (.tok .RuleLine) with
    | tok line =>
      simp only [bind_nextId_ok, bind_need_ok, bind_getDescription_ok, run_pure_ok]
      constructor
      · rintro ⟨toks, ht, rest⟩; exact ⟨rt, header, rfl, toks, ht, line, hl, rest⟩
      · rintro ⟨_, _, e, toks, ht, _, e', rest⟩
        cases e; rw [hl] at e'; cases e'; exact ⟨toks, ht, rest⟩
    | _ =>
      simp only [run_pure_ok, hv, false_and, and_false, exists_false, false_iff]
      rintro ⟨_, _, e, toks, ht, _, e', rest⟩
      cases e; rw [hl] at e'; cases e'
  | _ =>
    simp only [run_pure_ok, hv, false_and, false_iff]
    rintro ⟨_, _, e, _⟩; cases e

theorem feature_ok (cs : List Comment) (items : List (Key × Val)) (n m : Nat) (v : Val) (hv : v ≠ .none) :
    (transformNode cs ⟨.Feature, items⟩).run.run n = (.ok v, m) ↔
      ∃ rt header, getSingle items (.rule .FeatureHeader) = .raw rt header ∧
        ∃ toks, tagTokens header = some toks ∧
        ∃ line, getSingle header (.tok .FeatureLine) = .tok line ∧ ∃ d, descOf header = some d ∧
        ∃ kw, line.keyword = some kw ∧ ∃ nm, line.text = some nm ∧
        v = .feature { tags := numberTags toks n, loc := getLocation line, language := line.dialect,
                       keyword := kw, name := nm, description := d, children := featureChildren items } ∧
        m = n + tagCount toks := by
  simp only [transformNode]
  cases hh : getSingle items (.rule .FeatureHeader) with
  | raw rt header =>
    simp only [bind_getTags_ok]
    cases hl : getSingle header (.tok .FeatureLine) with
    | tok line =>
      simp only [bind_need_ok, bind_getDescription_ok, run_pure_ok]
      constructor
      · rintro ⟨toks, ht, rest⟩; exact ⟨rt, header, rfl, toks, ht, line, hl, rest⟩
      · rintro ⟨_, _, e, toks, ht, _, e', rest⟩
        cases e; rw [hl] at e'; cases e'; exact ⟨toks, ht, rest⟩
    | _ =>
      simp only [run_pure_ok, hv, false_and, and_false, exists_false, false_iff]
      rintro ⟨_, _, e, toks, ht, _, e', rest⟩
      cases e; rw [hl] at e'; cases e'
  | _ =>
    simp only [run_pure_ok, hv, false_and, false_iff]
    rintro ⟨_, _, e, _⟩; cases e

/-! ### rule types that draw no id -/

theorem description_eq (cs : List Comment) (items : List (Key × Val)) (ls : List Str) (n : Nat)
    (h : (getTokens items .Other).map (·.text) = ls.map some) :
    (transformNode cs ⟨.Description, items⟩).run.run n =
      (.ok (.descr (joinWith [10] (trimDescLines ls))), n) := by
  simp only [transformNode, run_bind,
    run_mapM'_need "description line text" (fun t : Token => t.text) _ ls n h, run_pure]

theorem docString_eq (cs : List Comment) (items : List (Key × Val)) (sep : Token) (rest : List Token)
    (st dl : Str) (ls : List Str) (n : Nat)
    (hsep : getTokens items .DocStringSeparator = sep :: rest)
    (hst : sep.text = some st) (hdl : sep.keyword = some dl)
    (h : (getTokens items .Other).map (·.text) = ls.map some) :
    (transformNode cs ⟨.DocString, items⟩).run.run n =
      (.ok (.docString { loc := getLocation sep, content := joinWith [10] ls, delimiter := dl,
                         mediaType := if st.length > 0 then some st else none }), n) := by
  simp only [transformNode, hsep, hst, hdl, run_bind, run_need_some,
    run_mapM'_need "docstring line text" (fun t : Token => t.text) _ ls n h, run_pure]

theorem document_eq (cs : List Comment) (items : List (Key × Val)) (n : Nat) :
    (transformNode cs ⟨.GherkinDocument, items⟩).run.run n =
      (.ok (.doc { feature := featureOf items, comments := cs }), n) := by
  simp only [transformNode, run_pure]
  rfl

theorem noDraw_description (cs : List Comment) (items : List (Key × Val)) :
    NoDraw (transformNode cs ⟨.Description, items⟩) := by
  simp only [transformNode]
  exact noDraw_bind (noDraw_mapM' (fun _ => noDraw_need _ _) _) fun _ => noDraw_pure _

theorem noDraw_docString (cs : List Comment) (items : List (Key × Val)) :
    NoDraw (transformNode cs ⟨.DocString, items⟩) := by
  simp only [transformNode]
  split
  · exact noDraw_crash _
  · exact noDraw_bind (noDraw_need _ _) fun _ => noDraw_bind (noDraw_need _ _) fun _ =>
      noDraw_bind (noDraw_mapM' (fun _ => noDraw_need _ _) _) fun _ => noDraw_pure _

theorem noDraw_document (cs : List Comment) (items : List (Key × Val)) :
    NoDraw (transformNode cs ⟨.GherkinDocument, items⟩) := fun n => by rw [document_eq]

/-! ### no rule type ever decreases the counter -/

theorem mono_need {α} (w : String) (o : Option α) : Mono (need w o) := (noDraw_need w o).mono
theorem mono_needToken (items : List (Key × Val)) (k : Kind) : Mono (needToken items k) :=
  (noDraw_needToken items k).mono
theorem mono_getDescription (items : List (Key × Val)) : Mono (getDescription items) :=
  (noDraw_getDescription items).mono

theorem mono_getTags (items : List (Key × Val)) : Mono (getTags items) := by
  intro n
  cases h : tagTokens items with
  | none => rw [run_getTags_none items n h]; exact Nat.le_refl n
  | some toks => rw [run_getTags_some items toks n h]; exact Nat.le_add_right n _

theorem mono_getTableRows (items : List (Key × Val)) : Mono (getTableRows items) := by
  intro n; rw [run_getTableRows]; exact Nat.le_add_right n _

theorem mono_transformNode (cs : List Comment) (node : Node) : Mono (transformNode cs node) := by
  obtain ⟨rt, items⟩ := node
  cases rt <;> simp only [transformNode]
  all_goals
    repeat' first
      | with_reducible exact mono_pure _
      | with_reducible exact mono_crash _
      | with_reducible exact mono_nextId
      | with_reducible exact mono_need _ _
      | with_reducible exact mono_needToken _ _
      | with_reducible exact mono_getDescription _
      | with_reducible exact mono_getTags _
      | with_reducible exact mono_getTableRows _
      | with_reducible exact mono_mapM' (fun _ => mono_need _ _) _
      | with_reducible refine mono_bind ?_ (fun _ => ?_)
      | split

/-! ### the ids one call draws -/

theorem range'_snoc (n k : Nat) : List.range' n k ++ [n + k] = List.range' n (n + k + 1 - n) := by
  have : n + k + 1 - n = k + 1 := by omega
  rw [this, List.range'_concat, Nat.one_mul]

/-- For every rule type: on success the ids the call drew, read off the result in the canonical
    local order, are exactly `n, n+1, …, n'-1`. -/
theorem node_ids (cs : List Comment) (node : Node) (n n' : Nat) (v : Val) (hv : v ≠ .none)
    (h : (transformNode cs node).run.run n = (.ok v, n')) :
    drawnIds node.rt v = List.range' n (n' - n) ∧ n ≤ n' := by
  refine ⟨?_, by have := mono_transformNode cs node n; rw [h] at this; exact this⟩
  obtain ⟨rt, items⟩ := node
  cases rt
  case Step =>
    obtain ⟨line, -, kw, -, kt, -, tx, -, rfl, rfl⟩ := (step_ok cs items n n' v).1 h
    simp [drawnIds]
  case Background =>
    obtain ⟨line, -, d, -, kw, -, nm, -, rfl, rfl⟩ := (background_ok cs items n n' v).1 h
    simp [drawnIds]
  case DataTable =>
    obtain ⟨-, t0, rest, -, rfl, rfl⟩ := (dataTable_ok cs items n n' v).1 h
    simp [drawnIds, numberRows_ids]
  case ExamplesTable =>
    obtain ⟨-, rfl, rfl⟩ := (examplesTable_ok cs items n n' v).1 h
    simp [drawnIds, numberRows_ids]
  case ScenarioDefinition =>
    obtain ⟨toks, -, rt, sc, -, line, -, d, -, kw, -, nm, -, rfl, rfl⟩ := (scenario_ok cs items n n' v).1 h
    simp only [drawnIds, numberTags_ids]; exact range'_snoc n _
  case ExamplesDefinition =>
    obtain ⟨toks, -, rt, sc, -, line, -, d, -, kw, -, nm, -, rfl, rfl⟩ := (examples_ok cs items n n' v).1 h
    simp only [drawnIds, numberTags_ids]; exact range'_snoc n _
  case Rule =>
    obtain ⟨rt, hd, -, toks, -, line, -, d, -, kw, -, nm, -, rfl, rfl⟩ := (rule_ok cs items n n' v hv).1 h
    simp only [drawnIds, numberTags_ids]; exact range'_snoc n _
  case Feature =>
    obtain ⟨rt, hd, -, toks, -, line, -, d, -, kw, -, nm, -, rfl, rfl⟩ := (feature_ok cs items n n' v hv).1 h
    simp [drawnIds, numberTags_ids]
  case Description =>
    have := noDraw_description cs items n; rw [h] at this; simp only at this; subst this
    cases v <;> simp [drawnIds]
  case DocString =>
    have := noDraw_docString cs items n; rw [h] at this; simp only at this; subst this
    cases v <;> simp [drawnIds]
  case GherkinDocument =>
    have := noDraw_document cs items n; rw [h] at this; simp only at this; subst this
    cases v <;> simp [drawnIds]
  all_goals
    simp only [transformNode, run_pure_ok] at h
    obtain ⟨rfl, rfl⟩ := h
    simp [drawnIds]

/-! ### item lists keep insertion order -/

theorem getItems_append (xs ys : List (Key × Val)) (k : Key) :
    getItems (xs ++ ys) k = getItems xs k ++ getItems ys k := by
  simp [getItems, List.filter_append]

theorem getItems_snoc_same (items : List (Key × Val)) (k : Key) (v : Val) :
    getItems (items ++ [(k, v)]) k = getItems items k ++ [v] := by
  rw [getItems_append]; simp [getItems]

theorem getItems_snoc_other (items : List (Key × Val)) (k k' : Key) (v : Val) (h : k' ≠ k) :
    getItems (items ++ [(k', v)]) k = getItems items k := by
  rw [getItems_append]; simp [getItems, h]

theorem getItems_nil (k : Key) : getItems [] k = [] := rfl

theorem getSingle_eq_head (items : List (Key × Val)) (k : Key) :
    getSingle items k = (getItems items k).headD .none := by
  unfold getSingle; cases getItems items k <;> rfl

theorem getSingle_of_cons (items : List (Key × Val)) (k : Key) (v : Val) (vs : List Val)
    (h : getItems items k = v :: vs) : getSingle items k = v := by
  rw [getSingle_eq_head, h]; rfl

theorem getSingle_of_nil (items : List (Key × Val)) (k : Key)
    (h : getItems items k = []) : getSingle items k = .none := by
  rw [getSingle_eq_head, h]; rfl

/-- once a key has an item, later additions never change what `getSingle` returns -/
theorem getSingle_append_of_ne_nil (items more : List (Key × Val)) (k : Key)
    (h : getItems items k ≠ []) : getSingle (items ++ more) k = getSingle items k := by
  rw [getSingle_eq_head, getSingle_eq_head, getItems_append]
  cases hh : getItems items k with
  | nil => exact absurd hh h
  | cons v vs => rfl

theorem getTokens_snoc_same (items : List (Key × Val)) (k : Kind) (t : Token) :
    getTokens (items ++ [(.tok k, .tok t)]) k = getTokens items k ++ [t] := by
  simp [getTokens, getItems_snoc_same]

theorem getSteps_snoc (items : List (Key × Val)) (s : Step) :
    getSteps (items ++ [(.rule .Step, .step s)]) = getSteps items ++ [s] := by
  simp [getSteps, getItems_snoc_same]

theorem getScenarios_snoc (items : List (Key × Val)) (s : Scenario) :
    getScenarios (items ++ [(.rule .ScenarioDefinition, .scenario s)]) = getScenarios items ++ [s] := by
  simp [getScenarios, getItems_snoc_same]

theorem getExamples_snoc (items : List (Key × Val)) (e : Examples) :
    getExamples (items ++ [(.rule .ExamplesDefinition, .examples e)]) = getExamples items ++ [e] := by
  simp [getExamples, getItems_snoc_same]

theorem getRules_snoc (items : List (Key × Val)) (r : Rule) :
    getRules (items ++ [(.rule .Rule, .rule r)]) = getRules items ++ [r] := by
  simp [getRules, getItems_snoc_same]

theorem ruleChildren_eq (items : List (Key × Val)) :
    ruleChildren items =
      (getBackground items).toList.map RuleChild.background ++ (getScenarios items).map RuleChild.scenario := by
  unfold ruleChildren; cases getBackground items <;> rfl

theorem featureChildren_eq (items : List (Key × Val)) :
    featureChildren items =
      (getBackground items).toList.map FeatureChild.background ++
      (getScenarios items).map FeatureChild.scenario ++ (getRules items).map FeatureChild.rule := by
  unfold featureChildren; cases getBackground items <;> rfl

/-! ### the stack machine -/

theorem addToTop_cons (top : Node) (rest : List Node) (k : Key) (v : Val) :
    addToTop (top :: rest) k v = some (⟨top.rt, top.items ++ [(k, v)]⟩ :: rest) := rfl

theorem addToTop_nil (k : Key) (v : Val) : addToTop [] k v = none := rfl

theorem build_token (β : BState) (t : Token) (k : Kind) (top : Node) (rest : List Node)
    (hk : t.mtype = some k) (hc : k ≠ .Comment) (hs : β.stack = top :: rest) :
    β.build t = .ok { stack := ⟨top.rt, top.items ++ [(.tok k, .tok t)]⟩ :: rest, comments := β.comments } := by
  unfold BState.build
  rw [hk]
  cases k <;> first | exact absurd rfl hc | (simp only [hs, addToTop_cons])

theorem build_comment (β : BState) (t : Token) (tx : Str)
    (hk : t.mtype = some .Comment) (ht : t.text = some tx) :
    β.build t = .ok { stack := β.stack, comments := β.comments ++ [{ loc := getLocation t, text := tx }] } := by
  unfold BState.build
  rw [hk]; simp only [ht]

theorem endRule_ok (β : BState) (node parent : Node) (rest : List Node) (n n' : Nat) (v : Val)
    (hs : β.stack = node :: parent :: rest)
    (h : (transformNode β.comments node).run.run n = (.ok v, n')) :
    β.endRule n = (.ok (), { stack := ⟨parent.rt, parent.items ++ [(.rule node.rt, v)]⟩ :: rest,
                             comments := β.comments }, n') := by
  unfold BState.endRule
  simp only [hs, h, addToTop_cons]

theorem endRule_error (β : BState) (node : Node) (rest : List Node) (n n' : Nat) (e : BErr)
    (hs : β.stack = node :: rest)
    (h : (transformNode β.comments node).run.run n = (.error e, n')) :
    β.endRule n = (.error e, { stack := rest, comments := β.comments }, n') := by
  unfold BState.endRule
  simp only [hs, h]

theorem endRule_mono (β : BState) (n : Nat) : n ≤ (β.endRule n).2.2 := by
  unfold BState.endRule
  split
  · exact Nat.le_refl n
  · next node rest hs =>
    have hm := mono_transformNode β.comments node n
    split
    · next e n' h => rw [h] at hm; exact hm
    · next v n' h =>
      rw [h] at hm
      split <;> exact hm

/-! ### trimming the description -/

theorem trimDescLines_spec (ls : List Str) :
    (∃ dropped, ls = trimDescLines ls ++ dropped ∧ ∀ l ∈ dropped, (strip l).isEmpty = true) ∧
    (∀ l, (trimDescLines ls).getLast? = some l → (strip l).isEmpty = false) := by
  unfold trimDescLines
  constructor
  · refine ⟨(ls.reverse.takeWhile fun l => (strip l).isEmpty).reverse, ?_, ?_⟩
    · rw [← List.reverse_append, List.takeWhile_append_dropWhile, List.reverse_reverse]
    · intro l hl
      rw [List.mem_reverse] at hl
      exact List.all_eq_true.1 List.all_takeWhile l hl
  · intro l hl
    rw [List.getLast?_reverse] at hl
    have := List.head?_dropWhile_not (fun l => (strip l).isEmpty) ls.reverse
    rw [hl] at this
    exact this

/-- the two properties determine the result: it is the only prefix of `ls` whose complement is
    all whitespace-only and which does not itself end in a whitespace-only line -/
theorem trimDescLines_unique (ls r dropped : List Str) (h : ls = r ++ dropped)
    (hd : ∀ l ∈ dropped, (strip l).isEmpty = true)
    (hr : ∀ l, r.getLast? = some l → (strip l).isEmpty = false) : trimDescLines ls = r := by
  subst h
  unfold trimDescLines
  rw [List.reverse_append, List.dropWhile_append_of_pos (by intro l hl; exact hd l (List.mem_reverse.1 hl))]
  cases hrr : r.reverse with
  | nil => simp [List.reverse_eq_nil_iff.1 hrr]
  | cons x xs =>
    have : r.getLast? = some x := by rw [← List.head?_reverse, hrr]; rfl
    rw [List.dropWhile_cons_of_neg (by simp [hr x this]), ← hrr, List.reverse_reverse]

/-! ### which errors: steps and backgrounds only ever crash, and only for a missing field -/

/-- every error the computation can end in is a crash (never an `AstBuilderException`) -/
def OnlyCrash {α} (x : BM α) : Prop := ∀ n e, (x.run.run n).1 = .error e → ∃ s, e = .crash s

theorem onlyCrash_pure {α} (a : α) : OnlyCrash (pure a : BM α) := by
  intro n e h; rw [run_pure] at h; cases h
theorem onlyCrash_crash {α} (s : String) : OnlyCrash (crash s : BM α) := by
  intro n e h; rw [run_crash] at h; cases h; exact ⟨s, rfl⟩
theorem onlyCrash_nextId : OnlyCrash nextId := by
  intro n e h; rw [run_nextId] at h; cases h
theorem onlyCrash_need {α} (w : String) (o : Option α) : OnlyCrash (need w o) := by
  cases o
  · exact onlyCrash_crash _
  · exact onlyCrash_pure _
theorem onlyCrash_needToken (items : List (Key × Val)) (k : Kind) : OnlyCrash (needToken items k) := by
  unfold needToken; split
  · exact onlyCrash_pure _
  · exact onlyCrash_crash _
theorem onlyCrash_getDescription (items : List (Key × Val)) : OnlyCrash (getDescription items) := by
  unfold getDescription; split
  · exact onlyCrash_pure _
  · exact onlyCrash_pure _
  · exact onlyCrash_crash _
theorem onlyCrash_bind {α β} {x : BM α} {f : α → BM β} (hx : OnlyCrash x) (hf : ∀ a, OnlyCrash (f a)) :
    OnlyCrash (x >>= f) := by
  intro n e h
  rw [run_bind] at h
  have := hx n
  rcases hr : x.run.run n with ⟨e' | a, n₁⟩
  · rw [hr] at h this; simp only at h; cases h; exact this _ rfl
  · rw [hr] at h; exact hf a n₁ e h

theorem onlyCrash_step (cs : List Comment) (items : List (Key × Val)) :
    OnlyCrash (transformNode cs ⟨.Step, items⟩) := by
  simp only [transformNode]
  repeat' first
    | with_reducible exact onlyCrash_pure _
    | with_reducible exact onlyCrash_nextId
    | with_reducible exact onlyCrash_need _ _
    | with_reducible exact onlyCrash_needToken _ _
    | with_reducible refine onlyCrash_bind ?_ (fun _ => ?_)

theorem onlyCrash_background (cs : List Comment) (items : List (Key × Val)) :
    OnlyCrash (transformNode cs ⟨.Background, items⟩) := by
  simp only [transformNode]
  repeat' first
    | with_reducible exact onlyCrash_pure _
    | with_reducible exact onlyCrash_nextId
    | with_reducible exact onlyCrash_need _ _
    | with_reducible exact onlyCrash_needToken _ _
    | with_reducible exact onlyCrash_getDescription _
    | with_reducible refine onlyCrash_bind ?_ (fun _ => ?_)

theorem step_crash_iff (cs : List Comment) (items : List (Key × Val)) (n : Nat) :
    (∃ s, ((transformNode cs ⟨.Step, items⟩).run.run n).1 = .error (.crash s)) ↔
      ∀ line, getSingle items (.tok .StepLine) = .tok line →
        line.keyword = none ∨ line.ktype = none ∨ line.text = none := by
  constructor
  · rintro ⟨s, hs⟩ line hl
    cases hk : line.keyword with
    | none => exact Or.inl rfl
    | some kw =>
      cases hkt : line.ktype with
      | none => exact Or.inr (Or.inl rfl)
      | some kt =>
        cases ht : line.text with
        | none => exact Or.inr (Or.inr rfl)
        | some tx =>
          have := (step_ok cs items n (n + 1) _).2 ⟨line, hl, kw, hk, kt, hkt, tx, ht, rfl, rfl⟩
          rw [this] at hs; cases hs
  · intro h
    rcases hr : (transformNode cs ⟨.Step, items⟩).run.run n with ⟨e | v, m⟩
    · obtain ⟨s, rfl⟩ := onlyCrash_step cs items n e (by rw [hr])
      exact ⟨s, rfl⟩
    · obtain ⟨line, hl, kw, hk, kt, hkt, tx, ht, -, -⟩ := (step_ok cs items n m v).1 hr
      rcases h line hl with h | h | h
      · rw [hk] at h; cases h
      · rw [hkt] at h; cases h
      · rw [ht] at h; cases h

theorem background_crash_iff (cs : List Comment) (items : List (Key × Val)) (n : Nat) :
    (∃ s, ((transformNode cs ⟨.Background, items⟩).run.run n).1 = .error (.crash s)) ↔
      (descOf items = none ∨
       ∀ line, getSingle items (.tok .BackgroundLine) = .tok line →
        line.keyword = none ∨ line.text = none) := by
  constructor
  · rintro ⟨s, hs⟩
    cases hd : descOf items with
    | none => exact Or.inl rfl
    | some d =>
      refine Or.inr fun line hl => ?_
      cases hk : line.keyword with
      | none => exact Or.inl rfl
      | some kw =>
        cases ht : line.text with
        | none => exact Or.inr rfl
        | some tx =>
          have := (background_ok cs items n (n + 1) _).2 ⟨line, hl, d, hd, kw, hk, tx, ht, rfl, rfl⟩
          rw [this] at hs; cases hs
  · intro h
    rcases hr : (transformNode cs ⟨.Background, items⟩).run.run n with ⟨e | v, m⟩
    · obtain ⟨s, rfl⟩ := onlyCrash_background cs items n e (by rw [hr])
      exact ⟨s, rfl⟩
    · obtain ⟨line, hl, d, hd, kw, hk, tx, ht, -, -⟩ := (background_ok cs items n m v).1 hr
      rcases h with h | h
      · rw [hd] at h; cases h
      · rcases h line hl with h | h
        · rw [hk] at h; cases h
        · rw [ht] at h; cases h

/-! ### success equations under explicit hypotheses (the `←` halves, packaged) -/

theorem raggedRow_numberRows_of_rect (toks : List Token) (n : Nat)
    (h : ∀ t ∈ toks, ∀ t0, toks.head? = some t0 → t.items.length = t0.items.length) :
    raggedRow (numberRows toks n) = none := by
  cases toks with
  | nil => rfl
  | cons t0 rest =>
    exact raggedRow_numberRows_none t0 rest n fun t ht => h t (List.mem_cons_of_mem _ ht) t0 rfl

theorem step_eq (cs : List Comment) (items : List (Key × Val)) (n : Nat) (line : Token)
    (kw tx : Str) (kt : KType)
    (hl : getSingle items (.tok .StepLine) = .tok line)
    (hk : line.keyword = some kw) (hkt : line.ktype = some kt) (ht : line.text = some tx) :
    (transformNode cs ⟨.Step, items⟩).run.run n =
      (.ok (.step { id := n, loc := getLocation line, keyword := kw, ktype := kt, text := tx,
                    arg := stepArgOf items }), n + 1) :=
  (step_ok cs items n _ _).2 ⟨line, hl, kw, hk, kt, hkt, tx, ht, rfl, rfl⟩

theorem background_eq (cs : List Comment) (items : List (Key × Val)) (n : Nat) (line : Token)
    (kw nm d : Str)
    (hl : getSingle items (.tok .BackgroundLine) = .tok line) (hd : descOf items = some d)
    (hk : line.keyword = some kw) (hn : line.text = some nm) :
    (transformNode cs ⟨.Background, items⟩).run.run n =
      (.ok (.background { id := n, loc := getLocation line, keyword := kw, name := nm,
                          description := d, steps := getSteps items }), n + 1) :=
  (background_ok cs items n _ _).2 ⟨line, hl, d, hd, kw, hk, nm, hn, rfl, rfl⟩

theorem dataTable_eq (cs : List Comment) (items : List (Key × Val)) (n : Nat) (t0 : Token) (rest : List Token)
    (ht : getTokens items .TableRow = t0 :: rest)
    (hrect : ∀ t ∈ rest, t.items.length = t0.items.length) :
    (transformNode cs ⟨.DataTable, items⟩).run.run n =
      (.ok (.dataTable { loc := getLocation t0, rows := numberRows (t0 :: rest) n }), n + (rest.length + 1)) := by
  have := (dataTable_ok cs items n (n + (getTokens items .TableRow).length)
    (.dataTable { loc := getLocation t0, rows := numberRows (getTokens items .TableRow) n })).2
    ⟨by rw [ht]; exact raggedRow_numberRows_none t0 rest n hrect, t0, rest, ht, rfl, rfl⟩
  rw [ht] at this; exact this

theorem examplesTable_eq (cs : List Comment) (items : List (Key × Val)) (n : Nat)
    (hrect : ∀ t ∈ getTokens items .TableRow, ∀ t0, (getTokens items .TableRow).head? = some t0 →
      t.items.length = t0.items.length) :
    (transformNode cs ⟨.ExamplesTable, items⟩).run.run n =
      (.ok (.rows (numberRows (getTokens items .TableRow) n)), n + (getTokens items .TableRow).length) :=
  (examplesTable_ok cs items n _ _).2 ⟨raggedRow_numberRows_of_rect _ n hrect, rfl, rfl⟩

/-- a ragged table: the error carries the first deviating row's location, and the ids of all
    rows stay consumed -/
theorem tableRows_ragged (items : List (Key × Val)) (n : Nat) (r : Row)
    (h : raggedRow (numberRows (getTokens items .TableRow) n) = some r) :
    (getTableRows items).run.run n =
      (.error (.ast ⟨.raggedTable, r.loc, lit "inconsistent cell count within the table"⟩),
       n + (getTokens items .TableRow).length) := by
  rw [run_getTableRows, h]

theorem scenario_eq (cs : List Comment) (items sc : List (Key × Val)) (n : Nat) (toks : List Token)
    (rt : RuleType) (line : Token) (kw nm d : Str)
    (htags : tagTokens items = some toks)
    (hs : getSingle items (.rule .Scenario) = .raw rt sc)
    (hl : getSingle sc (.tok .ScenarioLine) = .tok line) (hd : descOf sc = some d)
    (hk : line.keyword = some kw) (hn : line.text = some nm) :
    (transformNode cs ⟨.ScenarioDefinition, items⟩).run.run n =
      (.ok (.scenario { id := n + tagCount toks, tags := numberTags toks n, loc := getLocation line,
                        keyword := kw, name := nm, description := d, steps := getSteps sc,
                        examples := getExamples sc }), n + tagCount toks + 1) :=
  (scenario_ok cs items n _ _).2 ⟨toks, htags, rt, sc, hs, line, hl, d, hd, kw, hk, nm, hn, rfl, rfl⟩

theorem examples_eq (cs : List Comment) (items ex : List (Key × Val)) (n : Nat) (toks : List Token)
    (rt : RuleType) (line : Token) (kw nm d : Str)
    (htags : tagTokens items = some toks)
    (hs : getSingle items (.rule .Examples) = .raw rt ex)
    (hl : getSingle ex (.tok .ExamplesLine) = .tok line) (hd : descOf ex = some d)
    (hk : line.keyword = some kw) (hn : line.text = some nm) :
    (transformNode cs ⟨.ExamplesDefinition, items⟩).run.run n =
      (.ok (.examples { id := n + tagCount toks, tags := numberTags toks n, loc := getLocation line,
                        keyword := kw, name := nm, description := d,
                        header := (tableOf ex).head?, body := (tableOf ex).drop 1 }),
       n + tagCount toks + 1) :=
  (examples_ok cs items n _ _).2 ⟨toks, htags, rt, ex, hs, line, hl, d, hd, kw, hk, nm, hn, rfl, rfl⟩

theorem rule_eq (cs : List Comment) (items header : List (Key × Val)) (n : Nat) (toks : List Token)
    (rt : RuleType) (line : Token) (kw nm d : Str)
    (hh : getSingle items (.rule .RuleHeader) = .raw rt header)
    (htags : tagTokens header = some toks)
    (hl : getSingle header (.tok .RuleLine) = .tok line) (hd : descOf header = some d)
    (hk : line.keyword = some kw) (hn : line.text = some nm) :
    (transformNode cs ⟨.Rule, items⟩).run.run n =
      (.ok (.rule { id := n + tagCount toks, tags := numberTags toks n, loc := getLocation line,
                    keyword := kw, name := nm, description := d,
                    children := (getBackground items).toList.map RuleChild.background ++
                                (getScenarios items).map RuleChild.scenario }),
       n + tagCount toks + 1) := by
  rw [← ruleChildren_eq]
  exact (rule_ok cs items n _ _ (fun h => by cases h)).2
    ⟨rt, header, hh, toks, htags, line, hl, d, hd, kw, hk, nm, hn, rfl, rfl⟩

theorem feature_eq (cs : List Comment) (items header : List (Key × Val)) (n : Nat) (toks : List Token)
    (rt : RuleType) (line : Token) (kw nm d : Str)
    (hh : getSingle items (.rule .FeatureHeader) = .raw rt header)
    (htags : tagTokens header = some toks)
    (hl : getSingle header (.tok .FeatureLine) = .tok line) (hd : descOf header = some d)
    (hk : line.keyword = some kw) (hn : line.text = some nm) :
    (transformNode cs ⟨.Feature, items⟩).run.run n =
      (.ok (.feature { tags := numberTags toks n, loc := getLocation line, language := line.dialect,
                       keyword := kw, name := nm, description := d,
                       children := (getBackground items).toList.map FeatureChild.background ++
                                   (getScenarios items).map FeatureChild.scenario ++
                                   (getRules items).map FeatureChild.rule }),
       n + tagCount toks) := by
  rw [← featureChildren_eq]
  exact (feature_ok cs items n _ _ (fun h => by cases h)).2
    ⟨rt, header, hh, toks, htags, line, hl, d, hd, kw, hk, nm, hn, rfl, rfl⟩

/-- a rule or feature header without its keyword line yields `None` — after the tag ids were drawn.
    (The grammar never produces such a header; this is why `node_ids` excludes the result `none`.) -/
theorem rule_none_after_tags (cs : List Comment) (items header : List (Key × Val)) (n : Nat)
    (toks : List Token) (rt : RuleType)
    (hh : getSingle items (.rule .RuleHeader) = .raw rt header)
    (htags : tagTokens header = some toks)
    (hl : getSingle header (.tok .RuleLine) = .none) :
    (transformNode cs ⟨.Rule, items⟩).run.run n = (.ok .none, n + tagCount toks) := by
  simp only [transformNode, hh, run_bind, run_getTags_some header toks n htags, hl, run_pure]


theorem descOf_none_iff (items : List (Key × Val)) :
    descOf items = none ↔ ∃ v vs, getItems items (.rule .Description) = v :: vs ∧ ∀ s, v ≠ .descr s := by
  unfold descOf
  cases h : getItems items (.rule .Description) with
  | nil => simp
  | cons v vs =>
    cases v <;> simp


theorem tagCount_eq_sum (toks : List Token) : tagCount toks = (toks.map (·.items.length)).sum := by
  induction toks with
  | nil => rfl
  | cons t toks ih => rw [tagCount_cons, ih]; rfl

/-- every outcome of `getTableRows`: the counter has advanced by the number of row tokens; the
    result is the numbered rows, or the ragged-table error located at one of them -/
theorem tableRows_outcome (items : List (Key × Val)) (n : Nat) :
    ((getTableRows items).run.run n).2 = n + (getTokens items .TableRow).length ∧
    (∀ rows, ((getTableRows items).run.run n).1 = .ok rows →
      rows = numberRows (getTokens items .TableRow) n) ∧
    (∀ e, ((getTableRows items).run.run n).1 = .error e →
      ∃ r ∈ numberRows (getTokens items .TableRow) n,
        e = .ast ⟨.raggedTable, r.loc, lit "inconsistent cell count within the table"⟩) := by
  rw [run_getTableRows]
  refine ⟨rfl, ?_, ?_⟩
  · intro rows h
    cases hr : raggedRow (numberRows (getTokens items .TableRow) n) with
    | none => rw [hr] at h; simp only [Except.ok.injEq] at h; exact h.symm
    | some r => rw [hr] at h; cases h
  · intro e h
    cases hr : raggedRow (numberRows (getTokens items .TableRow) n) with
    | none => rw [hr] at h; cases h
    | some r =>
      rw [hr] at h; simp only [Except.error.injEq] at h
      refine ⟨r, ?_, h.symm⟩
      unfold raggedRow at hr
      split at hr
      · cases hr
      · exact List.mem_of_find?_eq_some hr

theorem node_ids_count (cs : List Comment) (node : Node) (n n' : Nat) (v : Val) (hv : v ≠ .none)
    (h : (transformNode cs node).run.run n = (.ok v, n')) :
    n' = n + (drawnIds node.rt v).length := by
  obtain ⟨h1, h2⟩ := node_ids cs node n n' v hv h
  rw [h1, List.length_range']; omega

theorem transformNode_noDraw (cs : List Comment) (node : Node) (n : Nat)
    (h : node.rt = .Description ∨ node.rt = .DocString ∨ node.rt = .GherkinDocument) :
    ((transformNode cs node).run.run n).2 = n := by
  obtain ⟨rt, items⟩ := node
  rcases h with h | h | h <;> simp only at h <;> subst h
  · exact noDraw_description cs items n
  · exact noDraw_docString cs items n
  · exact noDraw_document cs items n


/-! ### small concrete tokens and nodes for the non-vacuity examples of the property files -/
namespace Ex

def stepTok : Token :=
  { line := some (lit "  Given x"), lineNo := 3, col := some 3, mtype := some .StepLine,
    text := some (lit "x"), keyword := some (lit "Given "), ktype := some .Context }
/-- a step line whose keyword type was never set -/
def badStepTok : Token := { stepTok with ktype := none }
def bgTok : Token :=
  { line := some (lit "Background: b"), lineNo := 2, col := some 1, mtype := some .BackgroundLine,
    text := some (lit "b"), keyword := some (lit "Background") }
def scTok : Token :=
  { line := some (lit "Scenario: s"), lineNo := 5, col := some 1, mtype := some .ScenarioLine,
    text := some (lit "s"), keyword := some (lit "Scenario") }
def exTok : Token :=
  { line := some (lit "Examples: e"), lineNo := 8, col := some 1, mtype := some .ExamplesLine,
    text := some (lit "e"), keyword := some (lit "Examples") }
def ruleTok : Token :=
  { line := some (lit "Rule: r"), lineNo := 4, col := some 1, mtype := some .RuleLine,
    text := some (lit "r"), keyword := some (lit "Rule") }
def featTok : Token :=
  { line := some (lit "Feature: f"), lineNo := 1, col := some 1, mtype := some .FeatureLine,
    text := some (lit "f"), keyword := some (lit "Feature"), dialect := lit "en" }
def tagTok1 : Token :=
  { line := some (lit "@a @b"), lineNo := 6, col := some 1, mtype := some .TagLine,
    items := [(1, lit "@a"), (4, lit "@b")] }
def tagTok2 : Token :=
  { line := some (lit "  @c"), lineNo := 7, col := some 3, mtype := some .TagLine, items := [(3, lit "@c")] }
def rowTok1 : Token :=
  { line := some (lit "| a | b |"), lineNo := 9, col := some 1, mtype := some .TableRow,
    items := [(3, lit "a"), (7, lit "b")] }
def rowTok2 : Token :=
  { line := some (lit "| 1 | 2 |"), lineNo := 10, col := some 1, mtype := some .TableRow,
    items := [(3, lit "1"), (7, lit "2")] }
/-- a row with one cell only -/
def rowTokShort : Token :=
  { line := some (lit "| 1 |"), lineNo := 11, col := some 1, mtype := some .TableRow, items := [(3, lit "1")] }
def otherTok (lineNo : Nat) (s : String) : Token :=
  { line := some (lit s), lineNo := lineNo, col := some 1, mtype := some .Other, text := some (lit s) }
def sepTok : Token :=
  { line := some (lit "```json"), lineNo := 12, col := some 1, mtype := some .DocStringSeparator,
    text := some (lit "json"), keyword := some (lit "```") }
def commentTok : Token :=
  { line := some (lit "# hi"), lineNo := 2, col := some 1, mtype := some .Comment, text := some (lit "# hi") }

/-- the items of a `Tags` node holding two tag lines -/
def tagsVal : Val := .raw .Tags [(.tok .TagLine, .tok tagTok1), (.tok .TagLine, .tok tagTok2)]

end Ex

end Lemmas
end GV
