/-
  Lemmas/LayoutDoc.lean — property C16 lifted from single lines to the whole parse.

  A lock-step simulation of two runs of the parser glue (`Model/Parser.lean`, the version with the
  look-ahead queue) on two texts whose physical lines agree pairwise up to their carriage-return /
  line-feed tail (`LineRel`).  The two contexts stay related by `CtxRel`: unread lines and queued
  tokens related pairwise, builder states related by `BSame` (Lemmas/LayoutBuilder.lean), tokens
  handed to the builder related by `TokSame`, everything else — error list, matcher state, id
  counter, number of matcher calls, ghost fields — EQUAL.  Both runs end the same way: same document
  or the same abort with the same error list.

  (Lemmas/GlueBase.lean cannot be imported together with Lemmas/Layout.lean — both declare
  `GV.Lemmas.TokSame` — so the few `run` equations needed are restated here as `lrun_*`.)
-/
import GherkinVerif.Lemmas.LayoutBuilder
import GherkinVerif.Spec.LayoutDocFacts
namespace GV
namespace Lemmas

/-! ### running the glue monad -/

/-- run a glue computation from a context -/
def lrun {α} (m : PM α) (c : Ctx) : Except Abort α × Ctx := m.run.run c

theorem lrun_pure {α} (a : α) (c : Ctx) : lrun (pure a : PM α) c = (.ok a, c) := rfl
theorem lrun_bind {α β} (m : PM α) (f : α → PM β) (c : Ctx) :
    lrun (m >>= f) c = match lrun m c with
      | (.ok a, c') => lrun (f a) c'
      | (.error e, c') => (.error e, c') := by
  simp only [lrun, bind, ExceptT.bind, ExceptT.mk, ExceptT.run, ExceptT.bindCont, StateT.bind, StateT.run]
  rcases h : m c with ⟨r, c'⟩
  cases r <;> rfl
theorem lrun_get (c : Ctx) : lrun (get : PM Ctx) c = (.ok c, c) := rfl
theorem lrun_set (c' c : Ctx) : lrun (set c' : PM PUnit) c = (.ok ⟨⟩, c') := rfl
theorem lrun_modify (f : Ctx → Ctx) (c : Ctx) : lrun (modify f : PM PUnit) c = (.ok ⟨⟩, f c) := rfl
theorem lrun_throw {α} (e : Abort) (c : Ctx) : lrun (throw e : PM α) c = (.error e, c) := rfl

theorem lrun_readToken (c : Ctx) : lrun readToken c =
    match c.queue with
    | t :: q => (.ok t, { c with queue := q })
    | [] => match c.lines with
      | l :: ls => (.ok { line := some l, lineNo := c.lineNo + 1 }, { c with lines := ls, lineNo := c.lineNo + 1 })
      | [] => (.ok { line := none, lineNo := c.lineNo + 1 }, { c with lineNo := c.lineNo + 1 }) := by
  unfold readToken
  simp only [lrun_bind, lrun_get]
  cases c.queue with
  | cons t q => simp only [lrun_bind, lrun_set, lrun_pure]
  | nil => cases c.lines <;> simp only [lrun_bind, lrun_set, lrun_pure]

theorem lrun_addError (cap : Nat) (e : PErr) (c : Ctx) : lrun (addError cap e) c =
    if c.errors.any (fun e' => e'.message == e.message) then (.ok (), c)
    else if (c.errors ++ [e]).length > cap then
      (.error (.composite (c.errors ++ [e])), { c with errors := c.errors ++ [e] })
    else (.ok (), { c with errors := c.errors ++ [e] }) := by
  unfold addError
  simp only [lrun_bind, lrun_get]
  split
  · rfl
  · simp only [lrun_bind, lrun_set]
    split <;> rfl

theorem lrun_matchP (D : List Dialect) (cap : Nat) (stop : Bool) (k : Kind) (t : Token) (c : Ctx) :
    lrun (matchP D cap stop k t) c =
      let out := (matchTok D k c.μ t).1
      let c1 : Ctx := { c with μ := out.μ, calls := c.calls + (if (matchTok D k c.μ t).2 then 1 else 0) }
      match out.res with
      | .matched => (.ok (true, out.tok), c1)
      | .no => (.ok (false, out.tok), c1)
      | .raised e =>
        if stop then (.error (.single e), c1)
        else match lrun (addError cap e) c1 with
          | (.ok _, c2) => (.ok (false, out.tok), c2)
          | (.error e, c2) => (.error e, c2) := by
  unfold matchP
  simp only [lrun_bind, lrun_get, lrun_set]
  cases h : (matchTok D k c.μ t).1.res with
  | matched => simp only [lrun_pure]
  | no => simp only [lrun_pure]
  | raised e =>
    cases stop
    · simp only [lrun_bind, Bool.false_eq_true, if_false]
      rcases lrun (addError cap e) _ with ⟨r, c2⟩
      cases r <;> simp [lrun_pure]
    · simp [lrun_throw]

theorem lrun_liftB (cap : Nat) (stop : Bool) (r : Except BErr Unit) (c : Ctx) :
    lrun (liftB cap stop r) c = match r with
      | .ok () => (.ok (), c)
      | .error (.crash w) => (.error (.crash w), c)
      | .error (.ast e) => if stop then (.error (.single e), c) else lrun (addError cap e) c := by
  unfold liftB
  split
  · rfl
  · rfl
  · cases stop <;> simp [lrun_throw]

theorem lrun_runProd (cap : Nat) (stop : Bool) (t : Token) (p : Prod) (c : Ctx) :
    lrun (runProd cap stop t p) c = match p with
      | .start r => (.ok (), { c with β := c.β.startRule r })
      | .end_ _ => lrun (liftB cap stop (c.β.endRule c.ids).1)
          { c with β := (c.β.endRule c.ids).2.1, ids := (c.β.endRule c.ids).2.2 }
      | .build => match c.β.build t with
        | .ok β' => (.ok (), { c with β := β', builds := c.builds ++ [t] })
        | .error e => lrun (liftB cap stop (.error e)) c := by
  unfold runProd
  simp only [lrun_bind, lrun_get]
  cases p with
  | start r => simp only [lrun_set]
  | end_ r => simp only [lrun_bind, lrun_set]
  | build =>
    simp only []
    cases c.β.build t <;> simp only [lrun_set]

/-! ### matching never changes the physical line of a token -/

theorem matchTitle_line {μ : MState} {t t' : Token} {l : Str} {ty : Kind} {kws : List Str}
    (h : matchTitle μ t l ty kws = some t') : t'.line = t.line := by
  unfold matchTitle at h
  split at h
  · cases h; rfl
  · cases h

theorem matchDocSep_line {μ μ' : MState} {t t' : Token} {l sep : Str} {o : Bool}
    (h : matchDocSep μ t l sep o = some (t', μ')) : t'.line = t.line := by
  unfold matchDocSep at h
  split at h
  · split at h <;> (cases h; rfl)
  · cases h

theorem matchLine_line (D : List Dialect) (k : Kind) (μ : MState) (t : Token) (l : Str) :
    (matchLine D k μ t l).tok.line = t.line := by
  have hopt : ∀ (o : Option Token), (∀ t', o = some t' → t'.line = t.line) →
      (match o with | some t' => (⟨t', μ, .matched⟩ : MOut) | none => ⟨t, μ, .no⟩).tok.line = t.line := by
    intro o ho
    cases o with
    | none => rfl
    | some t' => exact ho t' rfl
  have opening : ∀ r, ((matchDocSep μ t l dq3 true).orElse fun _ => matchDocSep μ t l bt3 true) = r →
      (match r with | some (t', μ') => (⟨t', μ', .matched⟩ : MOut) | none => ⟨t, μ, .no⟩).tok.line = t.line := by
    intro r hr
    cases r with
    | none => rfl
    | some x =>
      obtain ⟨t', μ'⟩ := x
      cases h1 : matchDocSep μ t l dq3 true with
      | some y => rw [h1] at hr; simp only [Option.orElse] at hr; cases hr; exact matchDocSep_line h1
      | none => rw [h1] at hr; simp only [Option.orElse] at hr; exact matchDocSep_line hr
  cases k with
  | EOF => rfl
  | FeatureLine => exact hopt _ fun t' h => matchTitle_line h
  | RuleLine => exact hopt _ fun t' h => matchTitle_line h
  | BackgroundLine => exact hopt _ fun t' h => matchTitle_line h
  | ExamplesLine => exact hopt _ fun t' h => matchTitle_line h
  | ScenarioLine =>
    simp only [matchLine]
    split
    · rename_i h; exact matchTitle_line h
    · exact hopt _ fun t' h => matchTitle_line h
  | TableRow => simp only [matchLine]; split <;> rfl
  | StepLine => simp only [matchLine]; split <;> rfl
  | Comment => simp only [matchLine]; split <;> rfl
  | Empty => simp only [matchLine]; split <;> rfl
  | Other => rfl
  | Language =>
    simp only [matchLine]
    split
    · rfl
    · split <;> rfl
  | TagLine =>
    simp only [matchLine]
    split
    · split <;> rfl
    · rfl
  | DocStringSeparator =>
    simp only [matchLine]
    cases hsep : μ.activeSep with
    | none => exact opening _ rfl
    | some sep =>
      simp only []
      cases sep.isEmpty with
      | true => exact opening _ rfl
      | false =>
        simp only [Bool.false_eq_true, ↓reduceIte]
        cases hm : matchDocSep μ t l sep false with
        | none => rfl
        | some x => exact matchDocSep_line hm

theorem matchTok_line (D : List Dialect) (k : Kind) (μ : MState) (t : Token) :
    (matchTok D k μ t).1.tok.line = t.line := by
  unfold matchTok
  split
  · split <;> rfl
  · exact matchLine_line D k μ t _

/-! ### lines and tokens that differ in their CR/LF tail only -/

/-- the same content followed by (possibly different) runs of carriage returns / line feeds -/
def LineRel (l1 l2 : Str) : Prop := ∃ s w1 w2, l1 = s ++ w1 ∧ l2 = s ++ w2 ∧ AllEol w1 ∧ AllEol w2

theorem LineRel.refl (l : Str) : LineRel l l := ⟨l, [], [], by simp, by simp, allEol_nil, allEol_nil⟩

def OLineRel : Option Str → Option Str → Prop
  | none, none => True
  | some l1, some l2 => LineRel l1 l2
  | _, _ => False

/-- two tokens: all matcher-written fields equal, physical lines related -/
def TokRel (t1 t2 : Token) : Prop := TokSame t1 t2 ∧ OLineRel t1.line t2.line

theorem tok_eq_withLine {t1 t2 : Token} {l : Str} (h : TokSame t1 t2) (hl : t2.line = some l) :
    t2 = withLine t1 l := by
  obtain ⟨a0, a1, a2, a3, a4, a5, a6, a7, a8, a9⟩ := t1
  obtain ⟨b0, b1, b2, b3, b4, b5, b6, b7, b8, b9⟩ := t2
  obtain ⟨h1, h2, h3, h4, h5, h6, h7, h8, h9⟩ := h
  simp only at h1 h2 h3 h4 h5 h6 h7 h8 h9 hl
  subst h1 h2 h3 h4 h5 h6 h7 h8 h9 hl
  rfl

/-- the line is whitespace only -/
def Blank (t : Token) : Prop := ∃ l, t.line = some l ∧ lstrip l = []

/-- the state of the matcher the per-line theorems need -/
def Sane (D : List Dialect) (μ : MState) : Prop := SepOk μ ∧ μ.dialect ∈ D

/-- One matcher call on related tokens in the same (sane) matcher state: same verdict (with a
    raised error), same new state, related tokens. -/
theorem matchTok_rel {D : List Dialect} (hD : Spec.stepKeywordsOk D = true) (k : Kind) {μ : MState}
    (hμ : Sane D μ) {t1 t2 : Token} (ht : TokRel t1 t2) :
    (matchTok D k μ t1).2 = (matchTok D k μ t2).2 ∧
    (matchTok D k μ t1).1.res = (matchTok D k μ t2).1.res ∧
    (matchTok D k μ t1).1.μ = (matchTok D k μ t2).1.μ ∧
    TokRel (matchTok D k μ t1).1.tok (matchTok D k μ t2).1.tok ∧
    Sane D (matchTok D k μ t1).1.μ := by
  obtain ⟨hs, hl⟩ := ht
  have hline : OLineRel (matchTok D k μ t1).1.tok.line (matchTok D k μ t2).1.tok.line := by
    rw [matchTok_line, matchTok_line]; exact hl
  cases h1 : t1.line with
  | none =>
    cases h2 : t2.line with
    | some l2 => rw [h1, h2] at hl; exact hl.elim
    | none =>
      have e1 : matchTok D k μ t1 =
          if k == .EOF then (⟨setMatched μ t1 .EOF, μ, .matched⟩, true) else (⟨t1, μ, .no⟩, false) := by
        unfold matchTok; rw [h1]
      have e2 : matchTok D k μ t2 =
          if k == .EOF then (⟨setMatched μ t2 .EOF, μ, .matched⟩, true) else (⟨t2, μ, .no⟩, false) := by
        unfold matchTok; rw [h2]
      rw [e1, e2] at hline ⊢
      by_cases hk : (k == .EOF) = true
      · simp only [hk, ↓reduceIte] at hline ⊢
        refine ⟨trivial, trivial, trivial, ⟨?_, hline⟩, hμ⟩
        obtain ⟨g1, g2, g3, g4, g5, g6, g7, g8, g9⟩ := hs
        simp only [TokSame, setMatched, h1, h2, g1, and_self]
      · simp only [hk, Bool.false_eq_true, ↓reduceIte] at hline ⊢
        exact ⟨trivial, trivial, trivial, ⟨hs, hline⟩, hμ⟩
  | some l1 =>
    cases h2 : t2.line with
    | none => rw [h1, h2] at hl; exact hl.elim
    | some l2 =>
      rw [h1, h2] at hl
      obtain ⟨s, w1, w2, rfl, rfl, hw1, hw2⟩ := hl
      have e1 : matchTok D k μ t1 = (matchLine D k μ t1 (s ++ w1), true) := by unfold matchTok; rw [h1]
      have e2 : matchTok D k μ t2 = (matchLine D k μ t2 (s ++ w2), true) := by unfold matchTok; rw [h2]
      rw [e1, e2] at hline ⊢
      have q1 : t1 = withLine t1 (s ++ w1) := tok_eq_withLine (TokSame.refl t1) h1
      have q2 : t2 = withLine t1 (s ++ w2) := tok_eq_withLine hs h2
      have key := sameMatch_eol2 D k μ t1 s w1 w2 hw1 hw2 (stepKwOk_of_mem hD hμ.2) hμ.1
      rw [← q1, ← q2] at key
      exact ⟨rfl, key.1, key.2.1, ⟨key.2.2, hline⟩, sane_matchLine D k μ t1 _ hμ⟩

/-- a whitespace-only line passes the tests `Empty` and `Other` -/
theorem matchTok_blank (D : List Dialect) {k : Kind} (hk : k = .Empty ∨ k = .Other) (μ : MState) {t : Token}
    (hb : Blank t) : (matchTok D k μ t).1.res = .matched := by
  obtain ⟨l, hl, hs⟩ := hb
  have e : matchTok D k μ t = (matchLine D k μ t l, true) := by unfold matchTok; rw [hl]
  rw [e]
  rcases hk with rfl | rfl
  · rw [matchLine_blank_empty D μ t hs]
  · rfl

/-- a line that is not whitespace-only (or the end of file) is reported as unexpected in the same
    way: same position, same quoted text -/
theorem unexpectedErr_rel (row : StateRow) {t1 t2 : Token} (ht : TokRel t1 t2) (hb : ¬ Blank t1) :
    unexpectedErr row t1 = unexpectedErr row t2 := by
  obtain ⟨hs, hl⟩ := ht
  cases h1 : t1.line with
  | none =>
    cases h2 : t2.line with
    | some l2 => rw [h1, h2] at hl; exact hl.elim
    | none => unfold unexpectedErr; rw [h1, h2]; simp only [hs.loc_eq]
  | some l1 =>
    cases h2 : t2.line with
    | none => rw [h1, h2] at hl; exact hl.elim
    | some l2 =>
      rw [h1, h2] at hl
      obtain ⟨s, w1, w2, rfl, rfl, hw1, hw2⟩ := hl
      have q1 : t1 = withLine t1 (s ++ w1) := tok_eq_withLine (TokSame.refl t1) h1
      have q2 : t2 = withLine t1 (s ++ w2) := tok_eq_withLine hs h2
      have hne : lstrip s ≠ [] := fun h0 => hb ⟨_, h1, lstrip_append_nil h0 hw1.allSpace⟩
      calc unexpectedErr row t1 = unexpectedErr row (withLine t1 (s ++ w1)) := congrArg _ q1
        _ = unexpectedErr row (withLine t1 s) := unexpectedErr_tail row t1 s w1 hw1.allSpace hne
        _ = unexpectedErr row (withLine t1 (s ++ w2)) := (unexpectedErr_tail row t1 s w2 hw2.allSpace hne).symm
        _ = unexpectedErr row t2 := (congrArg _ q2).symm

/-! ### related contexts, simulation -/

theorem All2.nil_left {α β} {R : α → β → Prop} {bs : List β} (h : All2 R [] bs) : bs = [] := by
  cases h; rfl
theorem All2.cons_left {α β} {R : α → β → Prop} {a : α} {as : List α} {bs : List β} (h : All2 R (a :: as) bs) :
    ∃ b bs', bs = b :: bs' ∧ R a b ∧ All2 R as bs' := by
  cases h with
  | cons hab ht => exact ⟨_, _, rfl, hab, ht⟩

/-- the two runs' contexts: unread lines and queued tokens related pairwise, builder states and
    built tokens equal up to physical lines, everything else equal; the matcher state is sane -/
structure CtxRel (D : List Dialect) (c1 c2 : Ctx) : Prop where
  lines : All2 LineRel c1.lines c2.lines
  lineNo : c1.lineNo = c2.lineNo
  queue : All2 TokRel c1.queue c2.queue
  errors : c1.errors = c2.errors
  μ : c1.μ = c2.μ
  β : BSame c1.β c2.β
  ids : c1.ids = c2.ids
  calls : c1.calls = c2.calls
  builds : All2 TokSame c1.builds c2.builds
  reads : c1.reads = c2.reads
  unexpected : c1.unexpected = c2.unexpected
  sane : Sane D c1.μ

/-- from related contexts the two computations end the same way — both return, with related
    results, or both abort, with the same `Abort` — in related contexts -/
def Sim (D : List Dialect) {α} (R : α → α → Prop) (m1 m2 : PM α) : Prop :=
  ∀ c1 c2, CtxRel D c1 c2 →
    (∃ a1 a2 c1' c2', lrun m1 c1 = (.ok a1, c1') ∧ lrun m2 c2 = (.ok a2, c2') ∧ R a1 a2 ∧ CtxRel D c1' c2') ∨
    (∃ e c1' c2', lrun m1 c1 = (.error e, c1') ∧ lrun m2 c2 = (.error e, c2') ∧ CtxRel D c1' c2')

section sim
variable {D : List Dialect}

theorem Sim.pure {α} {R : α → α → Prop} {a1 a2 : α} (h : R a1 a2) : Sim D R (pure a1) (pure a2) :=
  fun c1 c2 hc => .inl ⟨a1, a2, c1, c2, rfl, rfl, h, hc⟩

theorem Sim.throw {α} {R : α → α → Prop} (e : Abort) : Sim D R (throw e : PM α) (throw e) :=
  fun c1 c2 hc => .inr ⟨e, c1, c2, rfl, rfl, hc⟩

theorem Sim.bind {α β} {R : α → α → Prop} {S : β → β → Prop} {m1 m2 : PM α} {f1 f2 : α → PM β}
    (h1 : Sim D R m1 m2) (h2 : ∀ a1 a2, R a1 a2 → Sim D S (f1 a1) (f2 a2)) :
    Sim D S (m1 >>= f1) (m2 >>= f2) := by
  intro c1 c2 hc
  rcases h1 c1 c2 hc with ⟨a1, a2, c1', c2', e1, e2, hr, hc'⟩ | ⟨e, c1', c2', e1, e2, hc'⟩
  · rw [lrun_bind, lrun_bind, e1, e2]; exact h2 a1 a2 hr c1' c2' hc'
  · rw [lrun_bind, lrun_bind, e1, e2]; exact .inr ⟨e, c1', c2', rfl, rfl, hc'⟩

theorem Sim.mono {α} {R S : α → α → Prop} {m1 m2 : PM α} (h : Sim D R m1 m2) (hRS : ∀ a b, R a b → S a b) :
    Sim D S m1 m2 := by
  intro c1 c2 hc
  rcases h c1 c2 hc with ⟨a1, a2, c1', c2', e1, e2, hr, hc'⟩ | h
  · exact .inl ⟨a1, a2, c1', c2', e1, e2, hRS _ _ hr, hc'⟩
  · exact .inr h

theorem Sim.get : Sim D (CtxRel D) (get : PM Ctx) get :=
  fun c1 c2 hc => .inl ⟨c1, c2, c1, c2, rfl, rfl, hc, hc⟩

theorem Sim.modify {f1 f2 : Ctx → Ctx} (h : ∀ c1 c2, CtxRel D c1 c2 → CtxRel D (f1 c1) (f2 c2)) :
    Sim D (fun _ _ => True) (modify f1 : PM PUnit) (modify f2) :=
  fun c1 c2 hc => .inl ⟨⟨⟩, ⟨⟩, f1 c1, f2 c2, rfl, rfl, trivial, h c1 c2 hc⟩

theorem sim_readToken : Sim D TokRel readToken readToken := by
  intro c1 c2 hc
  rw [lrun_readToken, lrun_readToken]
  cases hq1 : c1.queue with
  | cons t1 q1 =>
    have hq0 := hc.queue
    rw [hq1] at hq0
    obtain ⟨t2, q2, hq2, ht, hq⟩ := All2.cons_left hq0
    rw [hq2]
    exact .inl ⟨_, _, _, _, rfl, rfl, ht,
      ⟨hc.lines, hc.lineNo, hq, hc.errors, hc.μ, hc.β, hc.ids, hc.calls, hc.builds, hc.reads, hc.unexpected, hc.sane⟩⟩
  | nil =>
    have hq0 := hc.queue
    rw [hq1] at hq0
    rw [All2.nil_left hq0]
    simp only []
    cases hl1 : c1.lines with
    | cons l1 ls1 =>
      have hl0 := hc.lines
      rw [hl1] at hl0
      obtain ⟨l2, ls2, hl2, hl, hls⟩ := All2.cons_left hl0
      rw [hl2, ← hc.lineNo]
      exact .inl ⟨_, _, _, _, rfl, rfl, ⟨⟨rfl, rfl, rfl, rfl, rfl, rfl, rfl, rfl, rfl⟩, hl⟩,
        ⟨hls, rfl, .nil, hc.errors, hc.μ, hc.β, hc.ids, hc.calls, hc.builds, hc.reads, hc.unexpected, hc.sane⟩⟩
    | nil =>
      have hl0 := hc.lines
      rw [hl1] at hl0
      rw [All2.nil_left hl0, ← hc.lineNo]
      exact .inl ⟨_, _, _, _, rfl, rfl, ⟨⟨rfl, rfl, rfl, rfl, rfl, rfl, rfl, rfl, rfl⟩, trivial⟩,
        ⟨.nil, rfl, .nil, hc.errors, hc.μ, hc.β, hc.ids, hc.calls, hc.builds, hc.reads, hc.unexpected, hc.sane⟩⟩

theorem sim_addError (cap : Nat) (e : PErr) : Sim D (fun _ _ => True) (addError cap e) (addError cap e) := by
  intro c1 c2 hc
  rw [lrun_addError, lrun_addError, ← hc.errors]
  have hc' : CtxRel D { c1 with errors := c1.errors ++ [e] } { c2 with errors := c1.errors ++ [e] } :=
    ⟨hc.lines, hc.lineNo, hc.queue, rfl, hc.μ, hc.β, hc.ids, hc.calls, hc.builds, hc.reads, hc.unexpected, hc.sane⟩
  split
  · exact .inl ⟨_, _, _, _, rfl, rfl, trivial, hc⟩
  · split
    · exact .inr ⟨_, _, _, rfl, rfl, hc'⟩
    · exact .inl ⟨_, _, _, _, rfl, rfl, trivial, hc'⟩

theorem sim_liftB (cap : Nat) (stop : Bool) (r : Except BErr Unit) :
    Sim D (fun _ _ => True) (liftB cap stop r) (liftB cap stop r) := by
  intro c1 c2 hc
  rw [lrun_liftB, lrun_liftB]
  split
  · exact .inl ⟨_, _, _, _, rfl, rfl, trivial, hc⟩
  · exact .inr ⟨_, _, _, rfl, rfl, hc⟩
  · split
    · exact .inr ⟨_, _, _, rfl, rfl, hc⟩
    · exact sim_addError cap _ c1 c2 hc

/-- what two related `match_<k>` calls return -/
def MatchRel (k : Kind) (t1 : Token) (r1 r2 : Bool × Token) : Prop :=
  r1.1 = r2.1 ∧ TokRel r1.2 r2.2 ∧ r1.2.line = t1.line ∧ (Blank t1 → (k = .Empty ∨ k = .Other) → r1.1 = true)

theorem sim_matchP (hD : Spec.stepKeywordsOk D = true) (cap : Nat) (stop : Bool) (k : Kind) {t1 t2 : Token}
    (ht : TokRel t1 t2) : Sim D (MatchRel k t1) (matchP D cap stop k t1) (matchP D cap stop k t2) := by
  intro c1 c2 hc
  rw [lrun_matchP, lrun_matchP, ← hc.μ, ← hc.calls]
  obtain ⟨hinv, hres, hμ', htok, hsane⟩ := matchTok_rel hD k hc.sane ht
  have hline := matchTok_line D k c1.μ t1
  simp only []
  rw [← hinv, ← hres, ← hμ']
  have hc' : CtxRel D
      { c1 with μ := (matchTok D k c1.μ t1).1.μ, calls := c1.calls + (if (matchTok D k c1.μ t1).2 then 1 else 0) }
      { c2 with μ := (matchTok D k c1.μ t1).1.μ, calls := c1.calls + (if (matchTok D k c1.μ t1).2 then 1 else 0) } :=
    ⟨hc.lines, hc.lineNo, hc.queue, hc.errors, rfl, hc.β, hc.ids, rfl, hc.builds, hc.reads, hc.unexpected, hsane⟩
  cases hr : (matchTok D k c1.μ t1).1.res with
  | matched => exact .inl ⟨_, _, _, _, rfl, rfl, ⟨rfl, htok, hline, fun _ _ => rfl⟩, hc'⟩
  | no =>
    refine .inl ⟨_, _, _, _, rfl, rfl, ⟨rfl, htok, hline, fun hb hk => ?_⟩, hc'⟩
    rw [matchTok_blank D hk c1.μ hb] at hr; cases hr
  | raised e =>
    simp only []
    cases stop with
    | true => exact .inr ⟨_, _, _, rfl, rfl, hc'⟩
    | false =>
      simp only [Bool.false_eq_true, ↓reduceIte]
      rcases sim_addError cap e _ _ hc' with ⟨_, _, c1', c2', e1, e2, -, hc''⟩ | ⟨e', c1', c2', e1, e2, hc''⟩
      · rw [e1, e2]
        refine .inl ⟨_, _, _, _, rfl, rfl, ⟨rfl, htok, hline, fun hb hk => ?_⟩, hc''⟩
        rw [matchTok_blank D hk c1.μ hb] at hr; cases hr
      · rw [e1, e2]
        exact .inr ⟨_, _, _, rfl, rfl, hc''⟩

theorem sim_runProd (cap : Nat) (stop : Bool) {t1 t2 : Token} (ht : TokSame t1 t2) (p : Prod) :
    Sim D (fun _ _ => True) (runProd cap stop t1 p) (runProd cap stop t2 p) := by
  intro c1 c2 hc
  rw [lrun_runProd, lrun_runProd]
  cases p with
  | start r =>
    exact .inl ⟨_, _, _, _, rfl, rfl, trivial,
      ⟨hc.lines, hc.lineNo, hc.queue, hc.errors, hc.μ, hc.β.startRule r, hc.ids, hc.calls, hc.builds, hc.reads,
        hc.unexpected, hc.sane⟩⟩
  | end_ r =>
    simp only []
    rw [← hc.ids]
    obtain ⟨h1, h2, h3⟩ := hc.β.endRule c1.ids
    rw [← h1, ← h3]
    exact sim_liftB cap stop _ _ _
      ⟨hc.lines, hc.lineNo, hc.queue, hc.errors, hc.μ, h2, rfl, hc.calls, hc.builds, hc.reads, hc.unexpected, hc.sane⟩
  | build =>
    simp only []
    rcases hc.β.build ht with ⟨e, e1, e2⟩ | ⟨β1, β2, e1, e2, hβ⟩
    · rw [e1, e2]
      exact sim_liftB cap stop _ _ _ hc
    · rw [e1, e2]
      exact .inl ⟨_, _, _, _, rfl, rfl, trivial,
        ⟨hc.lines, hc.lineNo, hc.queue, hc.errors, hc.μ, hβ, hc.ids, hc.calls,
          hc.builds.append (.cons ht .nil), hc.reads, hc.unexpected, hc.sane⟩⟩

theorem sim_runProds (cap : Nat) (stop : Bool) {t1 t2 : Token} (ht : TokSame t1 t2) (ps : List Prod) :
    Sim D (fun _ _ => True) (runProds cap stop t1 ps) (runProds cap stop t2 ps) := by
  induction ps with
  | nil => exact Sim.pure trivial
  | cons p ps ih =>
    unfold runProds
    exact Sim.bind (sim_runProd cap stop ht p) fun _ _ _ => ih

/-- result of `matchAny`: same verdict, related tokens, line unchanged -/
def AnyRel (t1 : Token) (r1 r2 : Bool × Token) : Prop :=
  r1.1 = r2.1 ∧ TokRel r1.2 r2.2 ∧ r1.2.line = t1.line

theorem sim_matchAny (hD : Spec.stepKeywordsOk D = true) (cap : Nat) (stop : Bool) (ks : List Kind) {t1 t2 : Token}
    (ht : TokRel t1 t2) : Sim D (AnyRel t1) (matchAny D cap stop ks t1) (matchAny D cap stop ks t2) := by
  induction ks generalizing t1 t2 with
  | nil => exact Sim.pure ⟨rfl, ht, rfl⟩
  | cons k ks ih =>
    unfold matchAny
    refine Sim.bind (sim_matchP hD cap stop k ht) fun r1 r2 hr => ?_
    obtain ⟨m1, t1'⟩ := r1
    obtain ⟨m2, t2'⟩ := r2
    obtain ⟨hm, ht', hl, -⟩ := hr
    simp only at hm ht' hl
    subst hm
    dsimp only
    split
    · exact Sim.pure ⟨rfl, ht', hl⟩
    · exact (ih ht').mono fun a b h => ⟨h.1, h.2.1, h.2.2.trans hl⟩

theorem sim_lookaheadLoop (hD : Spec.stepKeywordsOk D = true) (cap : Nat) (stop : Bool) (la : LookAhead) (fuel : Nat)
    {acc1 acc2 : List Token} (hacc : All2 TokRel acc1 acc2) :
    Sim D (fun r1 r2 => r1.1 = r2.1 ∧ All2 TokRel r1.2 r2.2)
      (lookaheadLoop D cap stop la fuel acc1) (lookaheadLoop D cap stop la fuel acc2) := by
  induction fuel generalizing acc1 acc2 with
  | zero => exact Sim.throw _
  | succ n ih =>
    unfold lookaheadLoop
    refine Sim.bind sim_readToken fun t1 t2 ht => ?_
    refine Sim.bind (sim_matchAny hD cap stop _ ht) fun r1 r2 hr => ?_
    obtain ⟨m1, t1'⟩ := r1
    obtain ⟨m2, t2'⟩ := r2
    obtain ⟨hm, ht', -⟩ := hr
    simp only at hm ht'
    subst hm
    dsimp only
    split
    · exact Sim.pure ⟨rfl, hacc.append (.cons ht' .nil)⟩
    · refine Sim.bind (sim_matchAny hD cap stop _ ht') fun r1 r2 hr => ?_
      obtain ⟨s1, t1''⟩ := r1
      obtain ⟨s2, t2''⟩ := r2
      obtain ⟨hs, ht'', -⟩ := hr
      simp only at hs ht''
      subst hs
      dsimp only
      split
      · exact ih (hacc.append (.cons ht'' .nil))
      · exact Sim.pure ⟨rfl, hacc.append (.cons ht'' .nil)⟩

theorem sim_lookahead (hD : Spec.stepKeywordsOk D = true) (cap : Nat) (stop : Bool) (la : LookAhead) :
    Sim D Eq (lookahead D cap stop la) (lookahead D cap stop la) := by
  unfold lookahead
  refine Sim.bind Sim.get fun c1 c2 hc => ?_
  rw [hc.queue.length_eq, hc.lines.length_eq]
  refine Sim.bind (sim_lookaheadLoop hD cap stop la _ .nil) fun r1 r2 hr => ?_
  obtain ⟨m1, rd1⟩ := r1
  obtain ⟨m2, rd2⟩ := r2
  obtain ⟨hm, hrd⟩ := hr
  simp only at hm hrd
  subst hm
  dsimp only
  refine Sim.bind (Sim.modify fun c1 c2 hc => ?_) fun _ _ _ => Sim.pure rfl
  exact ⟨hc.lines, hc.lineNo, hc.queue.append hrd, hc.errors, hc.μ, hc.β, hc.ids, hc.calls, hc.builds, hc.reads,
    hc.unexpected, hc.sane⟩

/-- a whitespace-only line will be consumed by one of the remaining branches -/
def Safe (t : Token) (bs : List Branch) : Prop :=
  Blank t → ∃ b ∈ bs, (b.kind = .Empty ∨ b.kind = .Other) ∧ b.guard = none

theorem sim_tryBranches (hD : Spec.stepKeywordsOk D = true) (T : Table) (stop : Bool) (row : StateRow)
    (bs : List Branch) {t1 t2 : Token} (ht : TokRel t1 t2) (hsafe : Safe t1 bs) :
    Sim D Eq (tryBranches D T stop row bs t1) (tryBranches D T stop row bs t2) := by
  induction bs generalizing t1 t2 with
  | nil =>
    unfold tryBranches
    have hb : ¬ Blank t1 := fun hb => by obtain ⟨b, hm, _⟩ := hsafe hb; cases hm
    rw [unexpectedErr_rel row ht hb, ht.1.lineNo_eq]
    refine Sim.bind (Sim.modify fun c1 c2 hc => ?_) fun _ _ _ => ?_
    · exact ⟨hc.lines, hc.lineNo, hc.queue, hc.errors, hc.μ, hc.β, hc.ids, hc.calls, hc.builds, hc.reads,
        by simp only [hc.unexpected], hc.sane⟩
    · split
      · exact Sim.throw _
      · exact Sim.bind (sim_addError _ _) fun _ _ _ => Sim.pure rfl
  | cons b bs ih =>
    unfold tryBranches
    refine Sim.bind (sim_matchP hD _ stop b.kind ht) fun r1 r2 hr => ?_
    obtain ⟨m1, t1'⟩ := r1
    obtain ⟨m2, t2'⟩ := r2
    obtain ⟨hm, ht', hl, hblank⟩ := hr
    simp only at hm ht' hl hblank
    subst hm
    dsimp only
    have hB : Blank t1' → Blank t1 := fun ⟨l, h1, h2⟩ => ⟨l, hl ▸ h1, h2⟩
    have hrec : (m1 = false ∨ b.guard ≠ none) → Safe t1' bs := by
      intro hcond hb'
      obtain ⟨b', hmem, hk, hg⟩ := hsafe (hB hb')
      rcases List.mem_cons.1 hmem with rfl | hmem
      · rcases hcond with hm | hg'
        · have := hblank (hB hb') hk
          rw [hm] at this; cases this
        · exact absurd hg hg'
      · exact ⟨b', hmem, hk, hg⟩
    split
    · cases hg : b.guard with
      | none =>
        simp only []
        refine Sim.bind (R := fun o1 o2 => o1 = true ∧ o2 = true) (Sim.pure ⟨rfl, rfl⟩) fun o1 o2 ho => ?_
        obtain ⟨rfl, rfl⟩ := ho
        simp only [↓reduceIte]
        exact Sim.bind (sim_runProds _ stop ht'.1 _) fun _ _ _ => Sim.pure rfl
      | some i =>
        simp only []
        cases T.lookaheads[i]? with
        | none => exact Sim.bind (R := fun _ _ => False) (Sim.throw _) fun _ _ h => h.elim
        | some la =>
          simp only []
          refine Sim.bind (sim_lookahead hD _ stop la) fun o1 o2 ho => ?_
          subst ho
          split
          · exact Sim.bind (sim_runProds _ stop ht'.1 _) fun _ _ _ => Sim.pure rfl
          · exact ih ht' (hrec (.inr (by rw [hg]; exact fun h0 => by cases h0)))
    · rename_i hm
      refine ih ht' (hrec (.inl ?_))
      cases m1 with
      | true => exact absurd rfl hm
      | false => rfl

theorem sim_matchToken (hD : Spec.stepKeywordsOk D = true) {T : Table} (hT : Spec.blankTaken T = true)
    (stop : Bool) (state : Nat) {t1 t2 : Token} (ht : TokRel t1 t2) :
    Sim D Eq (matchToken D T stop state t1) (matchToken D T stop state t2) := by
  unfold matchToken
  cases hrow : T.row? state with
  | none => exact Sim.throw _
  | some row =>
    simp only []
    refine sim_tryBranches hD T stop row _ ht fun _ => ?_
    have hmem : row ∈ T.rows := List.mem_of_find?_eq_some hrow
    unfold Spec.blankTaken at hT
    rw [List.all_eq_true] at hT
    have := hT row hmem
    rw [List.any_eq_true] at this
    obtain ⟨b, hb, hcond⟩ := this
    simp only [Bool.and_eq_true, Bool.or_eq_true, beq_iff_eq, Option.isNone_iff_eq_none] at hcond
    exact ⟨b, hb, hcond.1, hcond.2⟩

theorem sim_parseLoop (hD : Spec.stepKeywordsOk D = true) {T : Table} (hT : Spec.blankTaken T = true)
    (stop : Bool) (fuel state : Nat) :
    Sim D Eq (parseLoop D T stop fuel state) (parseLoop D T stop fuel state) := by
  induction fuel generalizing state with
  | zero => exact Sim.throw _
  | succ n ih =>
    unfold parseLoop
    refine Sim.bind sim_readToken fun t1 t2 ht => ?_
    refine Sim.bind (Sim.modify fun c1 c2 hc => ?_) fun _ _ _ => ?_
    · exact ⟨hc.lines, hc.lineNo, hc.queue, hc.errors, hc.μ, hc.β, hc.ids, hc.calls, hc.builds,
        by simp only [hc.reads, ht.1.lineNo_eq], hc.unexpected, hc.sane⟩
    refine Sim.bind (sim_matchToken hD hT stop state ht) fun s1 s2 hs => ?_
    subst hs
    have heof : t1.eof = t2.eof := by
      unfold Token.eof
      have := ht.2
      revert this
      cases t1.line <;> cases t2.line <;> intro h <;> first | rfl | exact h.elim
    rw [heof]
    split
    · exact Sim.pure rfl
    · exact ih _

theorem sim_parseBody (hD : Spec.stepKeywordsOk D = true) {T : Table} (hT : Spec.blankTaken T = true)
    (stop : Bool) (n : Nat) : Sim D Eq (parseBody D T stop n) (parseBody D T stop n) := by
  unfold parseBody
  refine Sim.bind (Sim.modify fun c1 c2 hc => ?_) fun _ _ _ => ?_
  · exact ⟨hc.lines, hc.lineNo, hc.queue, hc.errors, hc.μ, hc.β.startRule _, hc.ids, hc.calls, hc.builds,
      hc.reads, hc.unexpected, hc.sane⟩
  refine Sim.bind (sim_parseLoop hD hT stop _ _) fun _ _ _ => ?_
  refine Sim.bind (sim_runProd _ stop (TokSame.refl default) _) fun _ _ _ => ?_
  refine Sim.bind Sim.get fun c1 c2 hc => ?_
  rw [hc.errors, hc.β.result]
  dsimp only
  by_cases he : (!c2.errors.isEmpty) = true
  · rw [if_pos he]
    exact Sim.bind (R := fun _ _ => False) (Sim.throw _) fun _ _ h => h.elim
  · rw [if_neg he]
    split
    · exact Sim.pure rfl
    · exact Sim.throw _
    · exact Sim.throw _
    · exact Sim.throw _

end sim

/-- **Whole parse.**  Two texts whose physical lines agree pairwise up to their CR/LF tails are
    parsed to the same outcome — the same document, or the same rejection with the same error list
    (kinds, locations, messages) — and leave related contexts (in particular the same error list,
    matcher state, id counter, number of matcher calls, lines read, lines reported unexpected). -/
theorem parseWith_sim {D : List Dialect} (hD : Spec.stepKeywordsOk D = true) {T : Table}
    (hT : Spec.blankTaken T = true) (stop : Bool) (μ : MState) (ids : Nat) {src1 src2 : Str}
    (hl : All2 LineRel (splitLines src1) (splitLines src2)) (hμ : (μ.reset D).dialect ∈ D) :
    (parseWith D T stop μ ids src1).1 = (parseWith D T stop μ ids src2).1 ∧
    CtxRel D (parseWith D T stop μ ids src1).2 (parseWith D T stop μ ids src2).2 := by
  unfold parseWith
  simp only []
  rw [hl.length_eq]
  have hc0 : CtxRel D { lines := splitLines src1, μ := μ.reset D, β := BState.reset, ids := ids }
      { lines := splitLines src2, μ := μ.reset D, β := BState.reset, ids := ids } :=
    ⟨hl, rfl, .nil, rfl, rfl, BSame.refl _, rfl, rfl, .nil, rfl, rfl,
      ⟨(by intro sep hsep; unfold MState.reset at hsep; cases hsep), hμ⟩⟩
  rcases sim_parseBody hD hT stop (splitLines src2).length _ _ hc0 with
    ⟨d1, d2, c1', c2', e1, e2, hd, hc'⟩ | ⟨e, c1', c2', e1, e2, hc'⟩
  · unfold lrun at e1 e2
    rw [e1, e2]
    subst hd
    exact ⟨rfl, hc'⟩
  · unfold lrun at e1 e2
    rw [e1, e2]
    cases e <;> exact ⟨rfl, hc'⟩

/-! ### the two edits as line relations -/

/-- CRLF for every LF: the physical lines are pairwise the same up to their line ending -/
theorem lines_toCRLF (src : Str) : All2 LineRel (splitLines (toCRLF src)) (splitLines src) := by
  rw [splitLines_toCRLF]
  have key : ∀ ls : List Str, (∀ l ∈ ls, LineRel (toCRLF l) l) → All2 LineRel (ls.map toCRLF) ls := by
    intro ls
    induction ls with
    | nil => intro _; exact .nil
    | cons l ls ih =>
      intro h
      exact .cons (h l (List.mem_cons_self ..)) (ih fun l' hl' => h l' (List.mem_cons_of_mem _ hl'))
  refine key _ fun l hl => ?_
  obtain ⟨b, hb, h | h⟩ := splitLines_line_shape hl
  · subst h
    rw [toCRLF_line hb]
    exact ⟨b, [13, 10], [10], rfl, rfl, allEol_crlf, allEol_lf⟩
  · subst h
    rw [toCRLF_noLF hb]
    exact LineRel.refl _

/-- a final line break added to a text that does not end in one: same lines up to the ending of
    the last -/
theorem lines_append_lf {src : Str} (hne : src ≠ []) (hlast : src.getLast? ≠ some 10) :
    All2 LineRel (splitLines (src ++ [10])) (splitLines src) := by
  obtain ⟨init, last, e1, e2⟩ := splitLines_append_lf hne hlast
  rw [e1, e2]
  exact (All2.refl LineRel.refl init).append
    (.cons ⟨last, [10], [], rfl, by simp, allEol_lf, allEol_nil⟩ .nil)

end Lemmas
end GV
