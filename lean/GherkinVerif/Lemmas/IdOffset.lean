/-
  Lemmas/IdOffset.lean — C15, "up to the offset of ids drawn from a shared generator".

  Ids are drawn from a counter, stored, and never inspected.  `shiftDoc n` adds `n` to every id
  of a document (tags, rows, steps, backgrounds, scenarios, examples, rules), `shiftPickle n`
  to every id and AST reference of a pickle.  Proved by simulation: running the builder monad
  (`BM`) / parser monad (`PM`) from a counter `n` higher, on a builder stack whose stored ids
  are `n` higher, does the same thing with every id `n` higher; likewise the compiler's loops.
-/
import GherkinVerif.Lemmas.History
import GherkinVerif.Model.Stream
namespace GV

/-! ### Shifting ids -/

def shiftTag (n : Nat) (t : Tag) : Tag := { t with id := t.id + n }
def shiftRow (n : Nat) (r : Row) : Row := { r with id := r.id + n }
def shiftDataTable (n : Nat) (t : DataTable) : DataTable := { t with rows := t.rows.map (shiftRow n) }
def shiftStepArg (n : Nat) : StepArg → StepArg
  | .none => .none
  | .table t => .table (shiftDataTable n t)
  | .doc d => .doc d
def shiftStep (n : Nat) (s : Step) : Step := { s with id := s.id + n, arg := shiftStepArg n s.arg }
def shiftBackground (n : Nat) (b : Background) : Background :=
  { b with id := b.id + n, steps := b.steps.map (shiftStep n) }
def shiftExamples (n : Nat) (e : Examples) : Examples :=
  { e with id := e.id + n, tags := e.tags.map (shiftTag n), header := e.header.map (shiftRow n),
           body := e.body.map (shiftRow n) }
def shiftScenario (n : Nat) (s : Scenario) : Scenario :=
  { s with id := s.id + n, tags := s.tags.map (shiftTag n), steps := s.steps.map (shiftStep n),
           examples := s.examples.map (shiftExamples n) }
def shiftRuleChild (n : Nat) : RuleChild → RuleChild
  | .background b => .background (shiftBackground n b)
  | .scenario s => .scenario (shiftScenario n s)
def shiftRule (n : Nat) (r : Rule) : Rule :=
  { r with id := r.id + n, tags := r.tags.map (shiftTag n), children := r.children.map (shiftRuleChild n) }
def shiftFeatureChild (n : Nat) : FeatureChild → FeatureChild
  | .background b => .background (shiftBackground n b)
  | .scenario s => .scenario (shiftScenario n s)
  | .rule r => .rule (shiftRule n r)
def shiftFeature (n : Nat) (f : Feature) : Feature :=
  { f with tags := f.tags.map (shiftTag n), children := f.children.map (shiftFeatureChild n) }
def shiftDoc (n : Nat) (d : Doc) : Doc := { d with feature := d.feature.map (shiftFeature n) }

mutual
def shiftVal (n : Nat) : Val → Val
  | .tok t => .tok t
  | .none => .none
  | .step s => .step (shiftStep n s)
  | .docString d => .docString d
  | .dataTable d => .dataTable (shiftDataTable n d)
  | .background b => .background (shiftBackground n b)
  | .scenario s => .scenario (shiftScenario n s)
  | .examples e => .examples (shiftExamples n e)
  | .rows rs => .rows (rs.map (shiftRow n))
  | .descr s => .descr s
  | .rule r => .rule (shiftRule n r)
  | .feature f => .feature (shiftFeature n f)
  | .doc d => .doc (shiftDoc n d)
  | .raw rt items => .raw rt (shiftItems n items)
def shiftItems (n : Nat) : List (Key × Val) → List (Key × Val)
  | [] => []
  | kv :: rest => shiftItem n kv :: shiftItems n rest
def shiftItem (n : Nat) : Key × Val → Key × Val
  | (k, v) => (k, shiftVal n v)
end

theorem shiftItems_eq_map (n : Nat) (items : List (Key × Val)) :
    shiftItems n items = items.map fun kv => (kv.1, shiftVal n kv.2) := by
  induction items with
  | nil => simp [shiftItems]
  | cons kv rest ih => obtain ⟨k, v⟩ := kv; simp [shiftItems, shiftItem, ih]

def shiftNode (n : Nat) (nd : Node) : Node := ⟨nd.rt, shiftItems n nd.items⟩
def shiftBState (n : Nat) (β : BState) : BState := { β with stack := β.stack.map (shiftNode n) }
def shiftCtx (n : Nat) (c : Ctx) : Ctx := { c with β := shiftBState n c.β, ids := c.ids + n }

/-- the outcome with every id shifted: only an accepted document carries ids -/
def shiftOutcome (n : Nat) : Outcome → Outcome
  | .ok d => .ok (shiftDoc n d)
  | o => o

def shiftPStep (n : Nat) (s : PickleStep) : PickleStep :=
  { s with astNodeIds := s.astNodeIds.map (· + n), id := s.id + n }
def shiftPTag (n : Nat) (t : PickleTag) : PickleTag := { t with astNodeId := t.astNodeId + n }
def shiftPickle (n : Nat) (p : Pickle) : Pickle :=
  { p with astNodeIds := p.astNodeIds.map (· + n), id := p.id + n, tags := p.tags.map (shiftPTag n),
           steps := p.steps.map (shiftPStep n) }

/-- an envelope with every id shifted -/
def shiftEnvelope (n : Nat) : Envelope → Envelope
  | .gherkinDocument uri d => .gherkinDocument uri (shiftDoc n d)
  | .pickle p => .pickle (shiftPickle n p)
  | e => e

namespace Lemmas

def runBM {α} (m : BM α) (k : Nat) : Except BErr α × Nat := m.run.run k

theorem runBM_pure {α} (a : α) (k : Nat) : runBM (pure a) k = (.ok a, k) := rfl
theorem runBM_throw {α} (e : BErr) (k : Nat) : runBM (throw e : BM α) k = (.error e, k) := rfl
theorem runBM_bind {α β} (m : BM α) (f : α → BM β) (k : Nat) :
    runBM (m >>= f) k = match runBM m k with
      | (.ok a, k') => runBM (f a) k'
      | (.error e, k') => (.error e, k') := by
  simp only [runBM, ExceptT.run_bind, StateT.run_bind]
  show _ = _
  generalize (StateT.run (ExceptT.run m) k) = r
  obtain ⟨r, k'⟩ := r
  cases r <;> rfl
theorem runBM_nextId (k : Nat) : runBM nextId k = (.ok k, k + 1) := rfl

/-- `m2` run from a counter `n` higher does what `m1` does, with the result shifted by `S` -/
def BSim {α} (n : Nat) (S : α → α) (m2 m1 : BM α) : Prop :=
  ∀ k, runBM m2 (k + n) = ((runBM m1 k).1.map S, (runBM m1 k).2 + n)

theorem bsim_pure {α} {n : Nat} {S : α → α} {a2 a1 : α} (h : a2 = S a1) :
    BSim n S (pure a2) (pure a1) := by
  intro k; subst h; rfl
theorem bsim_throw {α} {n : Nat} {S : α → α} (e : BErr) : BSim n S (throw e : BM α) (throw e) := by
  intro k; rfl
theorem bsim_crash {α} {n : Nat} {S : α → α} (w : String) : BSim n S (crash w : BM α) (crash w) :=
  bsim_throw _
theorem bsim_bind {α β} {n : Nat} {S : α → α} {S' : β → β} {m2 m1 : BM α} {f2 f1 : α → BM β}
    (hm : BSim n S m2 m1) (hf : ∀ a, BSim n S' (f2 (S a)) (f1 a)) :
    BSim n S' (m2 >>= f2) (m1 >>= f1) := by
  intro k
  rw [runBM_bind, runBM_bind, hm k]
  generalize runBM m1 k = r
  obtain ⟨r, k'⟩ := r
  cases r with
  | ok a => exact hf a k'
  | error e => rfl
theorem bsim_nextId (n : Nat) : BSim n (· + n) nextId nextId := by
  intro k
  simp only [runBM_nextId, Except.map]
  congr 1
  omega
theorem bsim_need {α} {n : Nat} (w : String) (o : Option α) : BSim n id (need w o) (need w o) := by
  cases o with
  | none => exact bsim_crash _
  | some a => exact bsim_pure rfl

theorem bsim_mapM' {α β} {n : Nat} {S : β → β} {f2 f1 : α → BM β} (l : List α)
    (h : ∀ a, BSim n S (f2 a) (f1 a)) : BSim n (List.map S) (mapM' f2 l) (mapM' f1 l) := by
  induction l with
  | nil => exact bsim_pure rfl
  | cons a l ih =>
    unfold mapM'
    exact bsim_bind (h a) (fun b => bsim_bind ih (fun bs => bsim_pure rfl))

theorem bsim_mapM'_id {α β} {n : Nat} {f2 f1 : α → BM β} (l : List α)
    (h : ∀ a, BSim n id (f2 a) (f1 a)) : BSim n id (mapM' f2 l) (mapM' f1 l) := by
  have := bsim_mapM' (S := id) l h
  simpa using this

/-! items -/
theorem getItems_shift (n : Nat) (items : List (Key × Val)) (k : Key) :
    getItems (shiftItems n items) k = (getItems items k).map (shiftVal n) := by
  simp only [getItems, shiftItems_eq_map, List.filter_map, List.map_map]
  rfl

theorem getSingle_shift (n : Nat) (items : List (Key × Val)) (k : Key) :
    getSingle (shiftItems n items) k = shiftVal n (getSingle items k) := by
  simp only [getSingle, getItems_shift]
  cases getItems items k <;> simp [shiftVal]

theorem getTokens_shift (n : Nat) (items : List (Key × Val)) (k : Kind) :
    getTokens (shiftItems n items) k = getTokens items k := by
  simp only [getTokens, getItems_shift, List.filterMap_map]
  congr 1
  funext v
  cases v <;> simp [shiftVal]

theorem filterMap_shift_gen {β} (n : Nat) (g : Val → Option β) (S : β → β)
    (h : ∀ v, g (shiftVal n v) = (g v).map S) (vs : List Val) :
    List.filterMap (g ∘ shiftVal n) vs = List.map S (List.filterMap g vs) := by
  rw [List.map_filterMap]
  congr 1
  funext v
  exact h v

theorem bsim_needToken (n : Nat) (items : List (Key × Val)) (k : Kind) :
    BSim n id (needToken (shiftItems n items) k) (needToken items k) := by
  unfold needToken
  rw [getSingle_shift]
  cases getSingle items (.tok k) <;> first | exact bsim_pure rfl | exact bsim_crash _

theorem bsim_getTags (n : Nat) (items : List (Key × Val)) :
    BSim n (List.map (shiftTag n)) (getTags (shiftItems n items)) (getTags items) := by
  unfold getTags
  rw [getSingle_shift]
  cases getSingle items (.rule .Tags) <;> simp only [shiftVal] <;>
    first | exact bsim_pure rfl | exact bsim_crash _ | skip
  rename_i rt tagItems
  rw [getTokens_shift]
  refine bsim_bind (S := List.map (List.map (shiftTag n))) (bsim_mapM' _ (fun t => bsim_mapM' _ (fun it => ?_)))
    (fun perLine => bsim_pure ?_)
  · exact bsim_bind (bsim_nextId n) (fun id => bsim_pure rfl)
  · simp [List.map_flatten]

theorem raggedRow_shift (n : Nat) (rows : List Row) :
    raggedRow (rows.map (shiftRow n)) = (raggedRow rows).map (shiftRow n) := by
  cases rows with
  | nil => rfl
  | cons r0 rest =>
    simp only [raggedRow, List.map_cons]
    rw [← List.map_cons, List.find?_map]
    rfl

theorem bsim_getTableRows (n : Nat) (items : List (Key × Val)) :
    BSim n (List.map (shiftRow n)) (getTableRows (shiftItems n items)) (getTableRows items) := by
  unfold getTableRows
  rw [getTokens_shift]
  refine bsim_bind (bsim_mapM' (S := shiftRow n) _ (fun t => bsim_bind (bsim_nextId n) (fun id => bsim_pure rfl)))
    (fun rows => ?_)
  rw [raggedRow_shift]
  cases raggedRow rows with
  | none => exact bsim_pure rfl
  | some r => exact bsim_throw _

theorem bsim_getDescription (n : Nat) (items : List (Key × Val)) :
    BSim n id (getDescription (shiftItems n items)) (getDescription items) := by
  unfold getDescription
  rw [getItems_shift]
  cases getItems items (.rule .Description) with
  | nil => exact bsim_pure rfl
  | cons v rest =>
    cases v <;> simp only [List.map_cons, shiftVal] <;> first | exact bsim_pure rfl | exact bsim_crash _

theorem getSteps_shift (n : Nat) (items : List (Key × Val)) :
    getSteps (shiftItems n items) = (getSteps items).map (shiftStep n) := by
  simp only [getSteps, getItems_shift, List.filterMap_map, List.map_filterMap]
  congr 1
  funext v
  cases v <;> simp [shiftVal]

theorem getScenarios_shift (n : Nat) (items : List (Key × Val)) :
    getScenarios (shiftItems n items) = (getScenarios items).map (shiftScenario n) := by
  simp only [getScenarios, getItems_shift, List.filterMap_map, List.map_filterMap]
  congr 1
  funext v
  cases v <;> simp [shiftVal]

theorem getBackground_shift (n : Nat) (items : List (Key × Val)) :
    getBackground (shiftItems n items) = (getBackground items).map (shiftBackground n) := by
  simp only [getBackground, getSingle_shift]
  cases getSingle items (.rule .Background) <;> simp [shiftVal]

theorem bsim_transformNode (n : Nat) (cm : List Comment) (rt : RuleType) (items : List (Key × Val)) :
    BSim n (shiftVal n) (transformNode cm ⟨rt, shiftItems n items⟩) (transformNode cm ⟨rt, items⟩) := by
  unfold transformNode
  cases rt <;> dsimp only
  case Step =>
    refine bsim_bind (bsim_nextId n) (fun i => bsim_bind (bsim_needToken n items _) (fun line =>
      bsim_bind (bsim_need _ _) (fun kw => bsim_bind (bsim_need _ _) fun kt =>
        bsim_bind (bsim_need _ _) fun tx => bsim_pure ?_)))
    simp only [getSingle_shift, shiftVal, shiftStep, id]
    congr 2
    cases getSingle items (Key.rule RuleType.DataTable) <;> simp only [shiftVal, shiftStepArg] <;>
      cases getSingle items (Key.rule RuleType.DocString) <;> simp only [shiftVal]
  case DocString =>
    rw [getTokens_shift, getTokens_shift]
    cases getTokens items Kind.DocStringSeparator with
    | nil => exact bsim_crash _
    | cons sep tail =>
      exact bsim_bind (bsim_need _ _) (fun sepText => bsim_bind (bsim_need _ _) (fun delim =>
        bsim_bind (bsim_mapM'_id _ (fun t => bsim_need _ _)) (fun lines => bsim_pure rfl)))
  case DataTable =>
    refine bsim_bind (bsim_getTableRows n items) (fun rows => ?_)
    cases rows with
    | nil => exact bsim_crash _
    | cons r0 tail => exact bsim_pure rfl
  case Background =>
    refine bsim_bind (bsim_needToken n items _) (fun line => bsim_bind (bsim_getDescription n items)
      (fun description => bsim_bind (bsim_nextId n) (fun i => bsim_bind (bsim_need _ _) (fun kw =>
        bsim_bind (bsim_need _ _) (fun nm => bsim_pure ?_)))))
    simp only [getSteps_shift, shiftVal, shiftBackground, id]
  case ScenarioDefinition =>
    refine bsim_bind (bsim_getTags n items) (fun tags => ?_)
    rw [getSingle_shift]
    cases getSingle items (Key.rule RuleType.Scenario) <;> simp only [shiftVal] <;>
      first | exact bsim_crash _ | skip
    rename_i rt sc
    refine bsim_bind (bsim_needToken n sc _) (fun line => bsim_bind (bsim_getDescription n sc)
      (fun description => bsim_bind (bsim_nextId n) (fun i => bsim_bind (bsim_need _ _) (fun kw =>
        bsim_bind (bsim_need _ _) (fun nm => bsim_pure ?_)))))
    simp only [getSteps_shift, getItems_shift, shiftVal, shiftScenario, id, List.filterMap_map,
      List.map_filterMap]
    congr 3
    funext v
    cases v <;> simp [shiftVal]
  case ExamplesDefinition =>
    refine bsim_bind (bsim_getTags n items) (fun tags => ?_)
    rw [getSingle_shift]
    cases getSingle items (Key.rule RuleType.Examples) <;> simp only [shiftVal] <;>
      first | exact bsim_crash _ | skip
    rename_i rt ex
    refine bsim_bind (bsim_needToken n ex _) (fun line => bsim_bind (bsim_getDescription n ex)
      (fun description => bsim_bind (bsim_nextId n) (fun i => bsim_bind (bsim_need _ _) (fun kw =>
        bsim_bind (bsim_need _ _) (fun nm => bsim_pure ?_)))))
    simp only [getSingle_shift, shiftVal, shiftExamples, id]
    cases getSingle ex (Key.rule RuleType.ExamplesTable) <;> simp [shiftVal]
  case ExamplesTable =>
    exact bsim_bind (bsim_getTableRows n items) (fun rows => bsim_pure (by simp [shiftVal]))
  case Description =>
    rw [getTokens_shift]
    exact bsim_bind (bsim_mapM'_id _ (fun t => bsim_need _ _)) (fun lines => bsim_pure (by simp [shiftVal]))
  case Rule =>
    rw [getSingle_shift]
    cases getSingle items (Key.rule RuleType.RuleHeader) <;> simp only [shiftVal] <;>
      first | exact bsim_pure rfl | skip
    rename_i rt header
    refine bsim_bind (bsim_getTags n header) (fun tags => ?_)
    rw [getSingle_shift]
    cases getSingle header (Key.tok Kind.RuleLine) <;> simp only [shiftVal] <;>
      first | exact bsim_pure rfl | skip
    rename_i line
    refine bsim_bind (bsim_getDescription n header)
      (fun description => bsim_bind (bsim_nextId n) (fun i => bsim_bind (bsim_need _ _) (fun kw =>
        bsim_bind (bsim_need _ _) (fun nm => bsim_pure ?_))))
    simp only [getBackground_shift, getScenarios_shift, shiftVal, shiftRule, id]
    cases getBackground items <;> simp [shiftRuleChild]
  case Feature =>
    rw [getSingle_shift]
    cases getSingle items (Key.rule RuleType.FeatureHeader) <;> simp only [shiftVal] <;>
      first | exact bsim_pure rfl | skip
    rename_i rt header
    refine bsim_bind (bsim_getTags n header) (fun tags => ?_)
    rw [getSingle_shift]
    cases getSingle header (Key.tok Kind.FeatureLine) <;> simp only [shiftVal] <;>
      first | exact bsim_pure rfl | skip
    rename_i line
    refine bsim_bind (bsim_getDescription n header)
      (fun description => bsim_bind (bsim_need _ _) (fun kw =>
        bsim_bind (bsim_need _ _) (fun nm => bsim_pure ?_)))
    simp only [getBackground_shift, getScenarios_shift, getItems_shift, shiftVal, shiftFeature, id,
      List.filterMap_map]
    rw [filterMap_shift_gen n _ (shiftRule n) (fun v => by cases v <;> simp [shiftVal])]
    cases getBackground items <;> simp [shiftFeatureChild] <;> rfl
  case GherkinDocument =>
    refine bsim_pure ?_
    simp only [getSingle_shift, shiftVal, shiftDoc]
    cases getSingle items (Key.rule RuleType.Feature) <;> simp [shiftVal]
  all_goals exact bsim_pure (by simp [shiftVal])

/-! builder state -/

theorem shiftItems_append (n : Nat) (a b : List (Key × Val)) :
    shiftItems n (a ++ b) = shiftItems n a ++ shiftItems n b := by
  simp [shiftItems_eq_map]

theorem startRule_shift (n : Nat) (β : BState) (r : RuleType) :
    (shiftBState n β).startRule r = shiftBState n (β.startRule r) := by
  simp [BState.startRule, shiftBState, shiftNode, shiftItems]

theorem addToTop_shift (n : Nat) (stack : List Node) (k : Key) (v : Val) :
    addToTop (stack.map (shiftNode n)) k (shiftVal n v) =
      (addToTop stack k v).map (List.map (shiftNode n)) := by
  cases stack with
  | nil => rfl
  | cons top rest =>
    simp [addToTop, shiftNode, shiftItems_append, shiftItems, shiftItem]

theorem build_shift (n : Nat) (β : BState) (t : Token) :
    (shiftBState n β).build t = (β.build t).map (shiftBState n) := by
  unfold BState.build
  split
  · split <;> rfl
  · rename_i k _ _
    have := addToTop_shift n β.stack (.tok k) (.tok t)
    simp only [shiftVal] at this
    simp only [shiftBState, this]
    cases addToTop β.stack (.tok k) (.tok t) <;> rfl
  · rfl

theorem result_shift (n : Nat) (β : BState) :
    (shiftBState n β).result = β.result.map (Option.map (shiftDoc n)) := by
  unfold BState.result
  cases hs : β.stack with
  | nil => simp [shiftBState, hs]; rfl
  | cons top rest =>
    simp only [shiftBState, hs, List.map_cons, shiftNode, getSingle_shift]
    cases getSingle top.items (.rule .GherkinDocument) <;> simp only [shiftVal] <;> rfl

theorem endRule_shift (n : Nat) (β : BState) (k : Nat) :
    (shiftBState n β).endRule (k + n) =
      ((β.endRule k).1, shiftBState n (β.endRule k).2.1, (β.endRule k).2.2 + n) := by
  unfold BState.endRule
  cases hs : β.stack with
  | nil => simp [shiftBState, hs]
  | cons node rest =>
    simp only [shiftBState, hs, List.map_cons]
    have h := bsim_transformNode n β.comments node.rt node.items k
    unfold runBM at h
    simp only [shiftNode]
    rw [h]
    generalize (StateT.run (ExceptT.run (transformNode β.comments { rt := node.rt, items := node.items })) k) = r
    obtain ⟨r, k'⟩ := r
    cases r with
    | error e => rfl
    | ok v =>
      simp only [Except.map]
      rw [addToTop_shift]
      cases addToTop rest (.rule node.rt) v <;> rfl

/-! parser monad -/

/-- `m2` run from the shifted context does what `m1` does from `c`, result shifted by `S` -/
def Sim2 {α} (n : Nat) (S : α → α) (m2 m1 : PM α) (c : Ctx) : Prop :=
  runPM m2 (shiftCtx n c) = ((runPM m1 c).1.map S, shiftCtx n (runPM m1 c).2)

theorem sim2_pure {α} {n : Nat} {S : α → α} {a2 a1 : α} {c : Ctx} (h : a2 = S a1) :
    Sim2 n S (pure a2) (pure a1) c := by
  subst h; rfl
theorem sim2_throw {α} {n : Nat} {S : α → α} {e : Abort} {c : Ctx} :
    Sim2 n S (throw e : PM α) (throw e) c := rfl
theorem sim2_bind {α β} {n : Nat} {S : α → α} {S' : β → β} {m2 m1 : PM α} {f2 f1 : α → PM β} {c : Ctx}
    (hm : Sim2 n S m2 m1 c) (hf : ∀ a c', Sim2 n S' (f2 (S a)) (f1 a) c') :
    Sim2 n S' (m2 >>= f2) (m1 >>= f1) c := by
  unfold Sim2 at *
  rw [runPM_bind, runPM_bind, hm]
  generalize runPM m1 c = r
  obtain ⟨r, c'⟩ := r
  cases r with
  | ok a => exact hf a c'
  | error e => rfl
theorem sim2_get_bind {β} {n : Nat} {S : β → β} {f2 f1 : Ctx → PM β} {c : Ctx}
    (h : Sim2 n S (f2 (shiftCtx n c)) (f1 c) c) : Sim2 n S (get >>= f2) (get >>= f1) c := by
  unfold Sim2 at *
  rw [runPM_bind, runPM_bind, runPM_get, runPM_get]
  exact h
theorem sim2_set {n : Nat} {c2 c1 c : Ctx} (h : c2 = shiftCtx n c1) :
    Sim2 n id (set c2 : PM PUnit) (set c1) c := by
  subst h; rfl
theorem sim2_modify {n : Nat} {g2 g1 : Ctx → Ctx} {c : Ctx} (h : g2 (shiftCtx n c) = shiftCtx n (g1 c)) :
    Sim2 n id (modify g2 : PM PUnit) (modify g1) c := by
  unfold Sim2
  rw [runPM_modify, runPM_modify, h]
  rfl

theorem shiftCtx_queue (n : Nat) (c : Ctx) : (shiftCtx n c).queue = c.queue := rfl
theorem shiftCtx_lines (n : Nat) (c : Ctx) : (shiftCtx n c).lines = c.lines := rfl
theorem shiftCtx_lineNo (n : Nat) (c : Ctx) : (shiftCtx n c).lineNo = c.lineNo := rfl
theorem shiftCtx_errors (n : Nat) (c : Ctx) : (shiftCtx n c).errors = c.errors := rfl
theorem shiftCtx_μ (n : Nat) (c : Ctx) : (shiftCtx n c).μ = c.μ := rfl
theorem shiftCtx_calls (n : Nat) (c : Ctx) : (shiftCtx n c).calls = c.calls := rfl
theorem shiftCtx_β (n : Nat) (c : Ctx) : (shiftCtx n c).β = shiftBState n c.β := rfl
theorem shiftCtx_ids (n : Nat) (c : Ctx) : (shiftCtx n c).ids = c.ids + n := rfl

theorem sim_readToken (n : Nat) (c : Ctx) : Sim2 n id readToken readToken c := by
  unfold readToken
  apply sim2_get_bind
  simp only [shiftCtx_queue, shiftCtx_lines, shiftCtx_lineNo]
  cases c.queue with
  | cons t q => exact sim2_bind (sim2_set rfl) (fun _ _ => sim2_pure rfl)
  | nil =>
    cases c.lines with
    | cons l ls => exact sim2_bind (sim2_set rfl) (fun _ _ => sim2_pure rfl)
    | nil => exact sim2_bind (sim2_set rfl) (fun _ _ => sim2_pure rfl)

theorem sim2_ite {α} {n : Nat} {S : α → α} {p : Prop} [Decidable p] {a2 b2 a1 b1 : PM α} {c : Ctx}
    (ht : p → Sim2 n S a2 a1 c) (hf : ¬p → Sim2 n S b2 b1 c) :
    Sim2 n S (if p then a2 else b2) (if p then a1 else b1) c := by
  split
  · exact ht ‹_›
  · exact hf ‹_›

theorem sim_addError (n : Nat) (cap : Nat) (e : PErr) (c : Ctx) :
    Sim2 n id (addError cap e) (addError cap e) c := by
  unfold addError
  apply sim2_get_bind
  simp only [shiftCtx_errors]
  refine sim2_ite (fun _ => sim2_pure rfl) (fun _ => ?_)
  refine sim2_bind (sim2_set rfl) (fun _ _ => ?_)
  exact sim2_ite (fun _ => sim2_throw) (fun _ => sim2_pure rfl)

theorem sim_matchP (n : Nat) (D : List Dialect) (cap : Nat) (stop : Bool) (k : Kind) (t : Token) (c : Ctx) :
    Sim2 n id (matchP D cap stop k t) (matchP D cap stop k t) c := by
  unfold matchP
  apply sim2_get_bind
  rw [shiftCtx_μ]
  rcases matchTok D k c.μ t with ⟨out, invoked⟩
  dsimp only
  refine sim2_bind (sim2_set rfl) (fun _ c' => ?_)
  cases out.res with
  | matched => exact sim2_pure rfl
  | no => exact sim2_pure rfl
  | raised e =>
    dsimp only
    refine sim2_ite (fun _ => sim2_throw) (fun _ => ?_)
    exact sim2_bind (sim_addError n cap _ c') (fun _ _ => sim2_pure rfl)

theorem sim_liftB (n : Nat) (cap : Nat) (stop : Bool) (r : Except BErr Unit) (c : Ctx) :
    Sim2 n id (liftB cap stop r) (liftB cap stop r) c := by
  unfold liftB
  split
  · exact sim2_pure rfl
  · exact sim2_throw
  · exact sim2_ite (fun _ => sim2_throw) (fun _ => sim_addError n cap _ c)

theorem sim_runProd (n : Nat) (cap : Nat) (stop : Bool) (t : Token) (p : Prod) (c : Ctx) :
    Sim2 n id (runProd cap stop t p) (runProd cap stop t p) c := by
  unfold runProd
  apply sim2_get_bind
  cases p with
  | start r =>
    dsimp only
    exact sim2_set (by simp [shiftCtx, startRule_shift])
  | end_ r =>
    dsimp only
    rw [shiftCtx_β, shiftCtx_ids, endRule_shift]
    rcases c.β.endRule c.ids with ⟨r, β', n'⟩
    dsimp only
    exact sim2_bind (sim2_set rfl) (fun _ c' => sim_liftB n cap stop _ c')
  | build =>
    dsimp only
    rw [shiftCtx_β, build_shift]
    cases c.β.build t with
    | ok β' => exact sim2_set rfl
    | error e => exact sim_liftB n cap stop _ c

theorem sim_runProds (n : Nat) (cap : Nat) (stop : Bool) (t : Token) (ps : List Prod) (c : Ctx) :
    Sim2 n id (runProds cap stop t ps) (runProds cap stop t ps) c := by
  induction ps generalizing c with
  | nil => exact sim2_pure rfl
  | cons p ps ih =>
    unfold runProds
    exact sim2_bind (sim_runProd n cap stop t p c) (fun _ c' => ih c')

theorem sim_matchAny (n : Nat) (D : List Dialect) (cap : Nat) (stop : Bool) (ks : List Kind) (t : Token)
    (c : Ctx) : Sim2 n id (matchAny D cap stop ks t) (matchAny D cap stop ks t) c := by
  induction ks generalizing t c with
  | nil => exact sim2_pure rfl
  | cons k ks ih =>
    unfold matchAny
    refine sim2_bind (sim_matchP n D cap stop k t c) (fun a c' => ?_)
    obtain ⟨m, t'⟩ := a
    dsimp only [id]
    exact sim2_ite (fun _ => sim2_pure rfl) (fun _ => ih t' c')

theorem sim_lookaheadLoop (n : Nat) (D : List Dialect) (cap : Nat) (stop : Bool) (la : LookAhead)
    (fuel : Nat) (acc : List Token) (c : Ctx) :
    Sim2 n id (lookaheadLoop D cap stop la fuel acc) (lookaheadLoop D cap stop la fuel acc) c := by
  induction fuel generalizing acc c with
  | zero => exact sim2_throw
  | succ fuel ih =>
    unfold lookaheadLoop
    refine sim2_bind (sim_readToken n c) (fun t c1 => ?_)
    refine sim2_bind (sim_matchAny n D cap stop _ _ c1) (fun a c2 => ?_)
    obtain ⟨m, t1⟩ := a
    dsimp only [id]
    refine sim2_ite (fun _ => sim2_pure rfl) (fun _ => ?_)
    refine sim2_bind (sim_matchAny n D cap stop _ _ c2) (fun b c3 => ?_)
    obtain ⟨sk, t2⟩ := b
    dsimp only [id]
    exact sim2_ite (fun _ => ih _ c3) (fun _ => sim2_pure rfl)

theorem sim_lookahead (n : Nat) (D : List Dialect) (cap : Nat) (stop : Bool) (la : LookAhead) (c : Ctx) :
    Sim2 n id (lookahead D cap stop la) (lookahead D cap stop la) c := by
  unfold lookahead
  apply sim2_get_bind
  rw [shiftCtx_queue, shiftCtx_lines]
  refine sim2_bind (sim_lookaheadLoop n D cap stop la _ _ c) (fun a c1 => ?_)
  obtain ⟨m, read⟩ := a
  dsimp only [id]
  exact sim2_bind (sim2_modify rfl) (fun _ _ => sim2_pure rfl)

theorem sim_tryBranches (n : Nat) (D : List Dialect) (T : Table) (stop : Bool) (row : StateRow)
    (bs : List Branch) (t : Token) (c : Ctx) :
    Sim2 n id (tryBranches D T stop row bs t) (tryBranches D T stop row bs t) c := by
  induction bs generalizing t c with
  | nil =>
    unfold tryBranches
    refine sim2_bind (sim2_modify rfl) (fun _ c1 => ?_)
    refine sim2_ite (fun _ => sim2_throw) (fun _ => ?_)
    exact sim2_bind (sim_addError n _ _ c1) (fun _ _ => sim2_pure rfl)
  | cons b bs ih =>
    unfold tryBranches
    refine sim2_bind (sim_matchP n D _ stop b.kind t c) (fun a c1 => ?_)
    obtain ⟨m, t'⟩ := a
    dsimp only [id]
    refine sim2_ite (fun _ => ?_) (fun _ => ih t' c1)
    have hk : ∀ (ok : Bool) (c2 : Ctx),
        Sim2 n id (if ok = true then do
              runProds T.errorCap stop t' b.prods
              pure b.target
            else tryBranches D T stop row bs t')
          (if ok = true then do
              runProds T.errorCap stop t' b.prods
              pure b.target
            else tryBranches D T stop row bs t') c2 := by
      intro ok c2
      refine sim2_ite (fun _ => ?_) (fun _ => ih t' c2)
      exact sim2_bind (sim_runProds n _ stop _ _ c2) (fun _ _ => sim2_pure rfl)
    cases b.guard with
    | none => exact sim2_bind (sim2_pure rfl) hk
    | some i =>
      dsimp only
      cases T.lookaheads[i]? with
      | some la => exact sim2_bind (sim_lookahead n D _ stop la c1) hk
      | none => exact sim2_bind sim2_throw hk

theorem sim_matchToken (n : Nat) (D : List Dialect) (T : Table) (stop : Bool) (state : Nat) (t : Token)
    (c : Ctx) : Sim2 n id (matchToken D T stop state t) (matchToken D T stop state t) c := by
  unfold matchToken
  split
  · exact sim_tryBranches n D T stop _ _ t c
  · exact sim2_throw

theorem sim_parseLoop (n : Nat) (D : List Dialect) (T : Table) (stop : Bool) (fuel state : Nat) (c : Ctx) :
    Sim2 n id (parseLoop D T stop fuel state) (parseLoop D T stop fuel state) c := by
  induction fuel generalizing state c with
  | zero => exact sim2_throw
  | succ fuel ih =>
    unfold parseLoop
    refine sim2_bind (sim_readToken n c) (fun t c1 => ?_)
    refine sim2_bind (sim2_modify rfl) (fun _ c2 => ?_)
    refine sim2_bind (sim_matchToken n D T stop state _ c2) (fun s' c3 => ?_)
    exact sim2_ite (fun _ => sim2_pure rfl) (fun _ => ih _ c3)

theorem sim_parseBody (n : Nat) (D : List Dialect) (T : Table) (stop : Bool) (k : Nat) (c : Ctx) :
    Sim2 n (shiftDoc n) (parseBody D T stop k) (parseBody D T stop k) c := by
  unfold parseBody
  refine sim2_bind (sim2_modify (by simp [shiftCtx, startRule_shift])) (fun _ c1 => ?_)
  refine sim2_bind (sim_parseLoop n D T stop _ _ c1) (fun _ c2 => ?_)
  refine sim2_bind (sim_runProd n _ stop _ _ c2) (fun _ c3 => ?_)
  apply sim2_get_bind
  dsimp only
  rw [shiftCtx_errors, shiftCtx_β, result_shift]
  have hk : ∀ c4 : Ctx, Sim2 n (shiftDoc n)
      (match Except.map (Option.map (shiftDoc n)) c3.β.result with
        | .ok (some d) => pure d
        | .ok none => throw (.crash "get_result returned None")
        | .error (.crash w) => throw (.crash w)
        | .error (.ast e) => throw (.single e))
      (match c3.β.result with
        | .ok (some d) => pure d
        | .ok none => throw (.crash "get_result returned None")
        | .error (.crash w) => throw (.crash w)
        | .error (.ast e) => throw (.single e)) c4 := by
    intro c4
    rcases c3.β.result with (_ | _) | (_ | d)
    · exact sim2_throw
    · exact sim2_throw
    · exact sim2_throw
    · exact sim2_pure rfl
  refine sim2_ite (fun _ => ?_) (fun _ => hk c3)
  exact sim2_bind (S := id) sim2_throw (fun _ c4 => hk c4)

theorem shiftBState_reset (n : Nat) : shiftBState n BState.reset = BState.reset := by
  simp [shiftBState, BState.reset, shiftNode, shiftItems]

theorem parseWith_shift (D : List Dialect) (T : Table) (stop : Bool) (μ : MState) (k n : Nat) (src : Str) :
    parseWith D T stop μ (k + n) src =
      (shiftOutcome n (parseWith D T stop μ k src).1, shiftCtx n (parseWith D T stop μ k src).2) := by
  have h := sim_parseBody n D T stop (splitLines src).length
    { lines := splitLines src, μ := μ.reset D, β := BState.reset, ids := k }
  unfold Sim2 runPM at h
  have h0 : shiftCtx n { lines := splitLines src, μ := μ.reset D, β := BState.reset, ids := k } =
      { lines := splitLines src, μ := μ.reset D, β := BState.reset, ids := k + n } := by
    simp [shiftCtx, shiftBState_reset]
  rw [h0] at h
  unfold parseWith
  dsimp only
  rw [h]
  generalize StateT.run (ExceptT.run (parseBody D T stop (splitLines src).length))
    { lines := splitLines src, μ := μ.reset D, β := BState.reset, ids := k } = r
  obtain ⟨r, c⟩ := r
  rcases r with (_ | _ | _ | _) | d <;> rfl


/-! ### The compiler -/


theorem pickleArg_shift (n : Nat) (arg : StepArg) (hs vs : List Str) :
    pickleArg (shiftStepArg n arg) hs vs = pickleArg arg hs vs := by
  cases arg with
  | none => rfl
  | doc d => rfl
  | table t =>
    simp only [shiftStepArg, pickleArg, shiftDataTable]
    congr 1
    induction t.rows with
    | nil => rfl
    | cons r rs ih => simp only [List.map_cons, mapOpt, ih]; rfl

theorem nextType_shift (n : Nat) (last : KType) (s : Step) : nextType last (shiftStep n s) = nextType last s := rfl

theorem plainSteps_shift (n : Nat) (ss : List Step) (last : KType) (k : Nat) :
    plainSteps (ss.map (shiftStep n)) last (k + n) =
      (plainSteps ss last k).map fun r => (r.1.map (shiftPStep n), r.2.1, r.2.2 + n) := by
  induction ss generalizing last k with
  | nil => rfl
  | cons s ss ih =>
    simp only [List.map_cons, plainSteps, nextType_shift]
    have : (shiftStep n s).arg = shiftStepArg n s.arg := rfl
    rw [this, pickleArg_shift]
    cases pickleArg s.arg [] [] with
    | none => rfl
    | some arg =>
      have hk : k + n + 1 = k + 1 + n := by omega
      simp only [hk, ih]
      cases plainSteps ss (nextType last s) (k + 1) with
      | none => rfl
      | some r => rfl

theorem outlineSteps_shift (n : Nat) (rowId : Nat) (hs vs : List Str) (ss : List Step) (last : KType) (k : Nat) :
    outlineSteps (rowId + n) hs vs (ss.map (shiftStep n)) last (k + n) =
      (outlineSteps rowId hs vs ss last k).map fun r => (r.1.map (shiftPStep n), r.2.1, r.2.2 + n) := by
  induction ss generalizing last k with
  | nil => rfl
  | cons s ss ih =>
    simp only [List.map_cons, outlineSteps, nextType_shift]
    have : (shiftStep n s).arg = shiftStepArg n s.arg := rfl
    have ht : (shiftStep n s).text = s.text := rfl
    rw [this, pickleArg_shift, ht]
    cases interp s.text hs vs with
    | none => rfl
    | some text =>
      cases pickleArg s.arg hs vs with
      | none => rfl
      | some arg =>
        have hk : k + n + 1 = k + 1 + n := by omega
        simp only [hk, ih]
        cases outlineSteps rowId hs vs ss (nextType last s) (k + 1) with
        | none => rfl
        | some r => rfl

theorem pickleTags_shift (n : Nat) (tags : List Tag) :
    pickleTags (tags.map (shiftTag n)) = (pickleTags tags).map (shiftPTag n) := by
  simp [pickleTags, shiftTag, shiftPTag]

/-- result of a compile loop, shifted -/
def shiftRes (n : Nat) (r : List Pickle × Nat) : List Pickle × Nat := (r.1.map (shiftPickle n), r.2 + n)

theorem compileScenario_shift (n : Nat) (uri language : Str) (tags : List Tag) (bg : List Step)
    (sc : Scenario) (k : Nat) :
    compileScenario uri language (tags.map (shiftTag n)) (bg.map (shiftStep n)) (shiftScenario n sc) (k + n) =
      (compileScenario uri language tags bg sc k).map fun r => (shiftPickle n r.1, r.2 + n) := by
  simp only [compileScenario]
  have h1 : (shiftScenario n sc).steps = sc.steps.map (shiftStep n) := rfl
  rw [h1, ← List.map_append, plainSteps_shift]
  by_cases he : sc.steps = []
  · simp [he, shiftPickle, shiftScenario]
    exact ⟨by rw [← List.map_append, pickleTags_shift], by omega⟩
  · have he' : (sc.steps.map (shiftStep n)).isEmpty = false := by simpa using he
    have he'' : sc.steps.isEmpty = false := by simpa using he
    simp only [he', he'', Bool.false_eq_true, if_false]
    cases plainSteps (bg ++ sc.steps) .Unknown k with
    | none => rfl
    | some r =>
      obtain ⟨steps, l, n1⟩ := r
      simp [shiftPickle, shiftScenario]
      exact ⟨by rw [← List.map_append, pickleTags_shift], by omega⟩

theorem compileRow_shift (n : Nat) (uri language : Str) (tags : List Tag) (bg : List Step)
    (sc : Scenario) (ex : Examples) (header row : Row) (k : Nat) :
    compileRow uri language (tags.map (shiftTag n)) (bg.map (shiftStep n)) (shiftScenario n sc)
        (shiftExamples n ex) (shiftRow n header) (shiftRow n row) (k + n) =
      (compileRow uri language tags bg sc ex header row k).map fun r => (shiftPickle n r.1, r.2 + n) := by
  simp only [compileRow]
  have h1 : (shiftScenario n sc).steps = sc.steps.map (shiftStep n) := rfl
  have h2 : (shiftRow n header).cells = header.cells := rfl
  have h3 : (shiftRow n row).cells = row.cells := rfl
  have h4 : (shiftRow n row).id = row.id + n := rfl
  have h5 : (shiftScenario n sc).name = sc.name := rfl
  rw [h1, h2, h3, h4, h5, plainSteps_shift]
  have hb : (if (sc.steps.map (shiftStep n)).isEmpty = true then some (([] : List PickleStep), KType.Unknown, k + n)
        else (plainSteps bg KType.Unknown k).map fun r => (r.1.map (shiftPStep n), r.2.1, r.2.2 + n)) =
      (if sc.steps.isEmpty = true then some ([], KType.Unknown, k) else plainSteps bg KType.Unknown k).map
        fun r => (r.1.map (shiftPStep n), r.2.1, r.2.2 + n) := by
    cases sc.steps <;> simp
  rw [hb]
  cases (if sc.steps.isEmpty = true then some ([], KType.Unknown, k) else plainSteps bg KType.Unknown k) with
  | none => rfl
  | some r =>
    obtain ⟨bgSteps, last, n1⟩ := r
    simp only [Option.map_some, outlineSteps_shift]
    cases outlineSteps row.id (header.cells.map (·.value)) (row.cells.map (·.value)) sc.steps last n1 with
    | none => rfl
    | some r2 =>
      obtain ⟨own, l2, n2⟩ := r2
      simp only [Option.map_some]
      cases interp sc.name (header.cells.map (·.value)) (row.cells.map (·.value)) with
      | none => rfl
      | some name =>
        simp [shiftPickle, shiftScenario, shiftExamples]
        exact ⟨by rw [← List.map_append, ← List.map_append, pickleTags_shift], by omega⟩

theorem compileRows_shift (n : Nat) (uri language : Str) (tags : List Tag) (bg : List Step)
    (sc : Scenario) (ex : Examples) (header : Row) (rows : List Row) (k : Nat) :
    compileRows uri language (tags.map (shiftTag n)) (bg.map (shiftStep n)) (shiftScenario n sc)
        (shiftExamples n ex) (shiftRow n header) (rows.map (shiftRow n)) (k + n) =
      (compileRows uri language tags bg sc ex header rows k).map (shiftRes n) := by
  induction rows generalizing k with
  | nil => rfl
  | cons r rs ih =>
    simp only [List.map_cons, compileRows, compileRow_shift]
    cases compileRow uri language tags bg sc ex header r k with
    | none => rfl
    | some x =>
      obtain ⟨p, n1⟩ := x
      simp only [Option.map_some, ih]
      cases compileRows uri language tags bg sc ex header rs n1 with
      | none => rfl
      | some y => rfl

theorem compileOutline_shift (n : Nat) (uri language : Str) (tags : List Tag) (bg : List Step)
    (sc : Scenario) (exs : List Examples) (k : Nat) :
    compileOutline uri language (tags.map (shiftTag n)) (bg.map (shiftStep n)) (shiftScenario n sc)
        (exs.map (shiftExamples n)) (k + n) =
      (compileOutline uri language tags bg sc exs k).map (shiftRes n) := by
  induction exs generalizing k with
  | nil => rfl
  | cons ex exs ih =>
    simp only [List.map_cons, compileOutline]
    have hh : (shiftExamples n ex).header = ex.header.map (shiftRow n) := rfl
    have hbd : (shiftExamples n ex).body = ex.body.map (shiftRow n) := rfl
    rw [hh, hbd]
    cases ex.header with
    | none =>
      simp only [Option.map_none, ih]
      cases compileOutline uri language tags bg sc exs k with
      | none => rfl
      | some y => simp [shiftRes]
    | some h =>
      simp only [Option.map_some, compileRows_shift]
      cases compileRows uri language tags bg sc ex h ex.body k with
      | none => rfl
      | some x =>
        obtain ⟨ps, n1⟩ := x
        simp only [Option.map_some, shiftRes, ih]
        cases compileOutline uri language tags bg sc exs n1 with
        | none => rfl
        | some y => simp [shiftRes]

theorem compileScenarioDef_shift (n : Nat) (uri language : Str) (tags : List Tag) (bg : List Step)
    (sc : Scenario) (k : Nat) :
    compileScenarioDef uri language (tags.map (shiftTag n)) (bg.map (shiftStep n)) (shiftScenario n sc) (k + n) =
      (compileScenarioDef uri language tags bg sc k).map (shiftRes n) := by
  simp only [compileScenarioDef]
  have he : (shiftScenario n sc).examples = sc.examples.map (shiftExamples n) := rfl
  rw [he, compileScenario_shift, compileOutline_shift]
  cases sc.examples with
  | nil =>
    simp only [List.map_nil, List.isEmpty_nil, if_true]
    cases compileScenario uri language tags bg sc k <;> rfl
  | cons e es => rfl

theorem compileRuleChildren_shift (n : Nat) (uri language : Str) (tags : List Tag) (cs : List RuleChild)
    (bg : List Step) (k : Nat) :
    compileRuleChildren uri language (tags.map (shiftTag n)) (cs.map (shiftRuleChild n))
        (bg.map (shiftStep n)) (k + n) =
      (compileRuleChildren uri language tags cs bg k).map (shiftRes n) := by
  induction cs generalizing bg k with
  | nil => rfl
  | cons c cs ih =>
    cases c with
    | background b =>
      simp only [List.map_cons, shiftRuleChild, compileRuleChildren]
      have : (shiftBackground n b).steps = b.steps.map (shiftStep n) := rfl
      rw [this, ← List.map_append, ih]
    | scenario sc =>
      simp only [List.map_cons, shiftRuleChild, compileRuleChildren, compileScenarioDef_shift]
      cases compileScenarioDef uri language tags bg sc k with
      | none => rfl
      | some x =>
        obtain ⟨ps, n1⟩ := x
        simp only [Option.map_some, shiftRes, ih]
        cases compileRuleChildren uri language tags cs bg n1 with
        | none => rfl
        | some y => simp [shiftRes]

theorem compileFeatureChildren_shift (n : Nat) (uri language : Str) (ftags : List Tag)
    (cs : List FeatureChild) (bg : List Step) (k : Nat) :
    compileFeatureChildren uri language (ftags.map (shiftTag n)) (cs.map (shiftFeatureChild n))
        (bg.map (shiftStep n)) (k + n) =
      (compileFeatureChildren uri language ftags cs bg k).map (shiftRes n) := by
  induction cs generalizing bg k with
  | nil => rfl
  | cons c cs ih =>
    cases c with
    | background b =>
      simp only [List.map_cons, shiftFeatureChild, compileFeatureChildren]
      have : (shiftBackground n b).steps = b.steps.map (shiftStep n) := rfl
      rw [this, ← List.map_append, ih]
    | rule r =>
      simp only [List.map_cons, shiftFeatureChild, compileFeatureChildren]
      have h1 : (shiftRule n r).tags = r.tags.map (shiftTag n) := rfl
      have h2 : (shiftRule n r).children = r.children.map (shiftRuleChild n) := rfl
      rw [h1, h2, ← List.map_append, compileRuleChildren_shift]
      cases compileRuleChildren uri language (ftags ++ r.tags) r.children bg k with
      | none => rfl
      | some x =>
        obtain ⟨ps, n1⟩ := x
        simp only [Option.map_some, shiftRes, ih]
        cases compileFeatureChildren uri language ftags cs bg n1 with
        | none => rfl
        | some y => simp [shiftRes]
    | scenario sc =>
      simp only [List.map_cons, shiftFeatureChild, compileFeatureChildren, compileScenarioDef_shift]
      cases compileScenarioDef uri language ftags bg sc k with
      | none => rfl
      | some x =>
        obtain ⟨ps, n1⟩ := x
        simp only [Option.map_some, shiftRes, ih]
        cases compileFeatureChildren uri language ftags cs bg n1 with
        | none => rfl
        | some y => simp [shiftRes]

theorem compile_shift (n : Nat) (uri : Str) (doc : Doc) (k : Nat) :
    compile uri (shiftDoc n doc) (k + n) = (compile uri doc k).map (shiftRes n) := by
  simp only [compile, shiftDoc]
  cases doc.feature with
  | none => rfl
  | some f =>
    have := compileFeatureChildren_shift n uri f.language f.tags f.children [] k
    simpa [shiftFeature] using this


/-! ### The stream -/

theorem streamEnum_shift (D : List Dialect) (T : Table) (opts : Opts) (k n : Nat) (uri data : Str) :
    streamEnum D T opts (k + n) uri data =
      ((streamEnum D T opts k uri data).1.map (shiftEnvelope n), (streamEnum D T opts k uri data).2 + n) := by
  unfold streamEnum
  cases MState.init D (lit "en") with
  | none => rfl
  | some μ =>
    dsimp only
    rw [parseWith_shift]
    rcases parseWith D T false μ k data with ⟨out, ctx⟩
    cases out with
    | ok d =>
      simp only [shiftOutcome, shiftCtx_ids, compile_shift]
      cases opts.printPickles with
      | false =>
        cases opts.printSource <;> cases opts.printAst <;> simp [shiftEnvelope]
      | true =>
        cases compile uri d ctx.ids with
        | none => cases opts.printSource <;> cases opts.printAst <;> simp [shiftEnvelope]
        | some r =>
          obtain ⟨ps, n'⟩ := r
          cases opts.printSource <;> cases opts.printAst <;> simp [shiftEnvelope, shiftRes]
    | rejected es comp => simp [shiftOutcome, shiftEnvelope, shiftCtx_ids]
    | crash w => simp [shiftOutcome, shiftEnvelope, shiftCtx_ids]
    | fuel => simp [shiftOutcome, shiftEnvelope, shiftCtx_ids]

end Lemmas
end GV
