/-
  Lemmas/RaggedDocBase.lean — vocabulary and builder-side facts for the document-level
  ragged-table theorems (Props/C12Doc.lean).

  * `Spec.tableRuns builds`: the groups of `TableRow` tokens of the list of built tokens that
    belong to one table: comment and blank tokens do not interrupt a group, any other built token
    ends it.  `closedRuns` are the groups already ended by such a token, `openRun` the group
    still open at the end of the list.
  * `Spec.firstDeviating run`: the first token of a group whose number of cells (`items.length`)
    differs from that of the group's first token — `ensure_cell_count` on tokens.
  * `end_rule` on a node: an `AstBuilderException` is raised iff the node is a `DataTable` /
    `ExamplesTable` node whose `TableRow` tokens have a first deviating token, and it is located
    there (`endRule_cases`); `build` appends the token to the `TableRow` tokens of the top node
    iff it is a `TableRow` token (`build_cases`).
-/
import GherkinVerif.Lemmas.Builder
import GherkinVerif.Lemmas.GlueBuilder
import GherkinVerif.Lemmas.TextErrors
namespace GV
namespace Spec

/-- the token was handed to the builder as a table row -/
def isRowTok (t : Token) : Bool := t.mtype == some .TableRow

/-- comment and blank tokens: allowed between the rows of one table -/
def isSkipTok (t : Token) : Bool := t.mtype == some .Comment || t.mtype == some .Empty

def flushRun (cur : List Token) : List (List Token) := if cur.isEmpty then [] else [cur]

/-- one built token: a row extends the open group, a comment / blank token changes nothing, any
    other token closes the open group -/
def runStep (s : List (List Token) × List Token) (t : Token) : List (List Token) × List Token :=
  if isRowTok t then (s.1, s.2 ++ [t])
  else if isSkipTok t then s
  else (s.1 ++ flushRun s.2, [])

def runState (bs : List Token) : List (List Token) × List Token := bs.foldl runStep ([], [])

/-- the groups of row tokens that have been ended by a later built token that is neither a row
    nor a comment nor a blank line -/
def closedRuns (bs : List Token) : List (List Token) := (runState bs).1

/-- the row tokens built since the last built token that is neither row, comment nor blank -/
def openRun (bs : List Token) : List Token := (runState bs).2

/-- **the tables of a list of built tokens**: the maximal groups of `TableRow` tokens separated
    only by comment and blank tokens, in order -/
def tableRuns (bs : List Token) : List (List Token) := closedRuns bs ++ flushRun (openRun bs)

/-- number of cells of a row token -/
def cellCount (t : Token) : Nat := t.items.length

/-- the first token of the group whose cell count differs from the first token's -/
def firstDeviating (run : List Token) : Option Token :=
  match run with
  | [] => none
  | t0 :: _ => run.find? fun t => cellCount t != cellCount t0

/-- rule types whose node holds the rows of a table -/
def isTableRt (r : RuleType) : Bool := r == .DataTable || r == .ExamplesTable

/-- the ragged-table error at a row token -/
def raggedErrAt (t : Token) : PErr :=
  ⟨.raggedTable, t.loc, lit "inconsistent cell count within the table"⟩

end Spec

namespace Lemmas
open Spec

/-! ### groups of row tokens -/

theorem runState_snoc (bs : List Token) (t : Token) : runState (bs ++ [t]) = runStep (runState bs) t := by
  simp [runState, List.foldl_append]

theorem mem_flushRun {cur run : List Token} : run ∈ flushRun cur ↔ run = cur ∧ cur ≠ [] := by
  unfold flushRun
  cases cur with
  | nil => simp
  | cons a l => simp

theorem mem_tableRuns {bs : List Token} {run : List Token} :
    run ∈ tableRuns bs ↔ run ∈ closedRuns bs ∨ (run = openRun bs ∧ openRun bs ≠ []) := by
  unfold tableRuns
  rw [List.mem_append, mem_flushRun]

theorem firstDeviating_ne_nil {run : List Token} {t : Token} (h : firstDeviating run = some t) : run ≠ [] := by
  intro hn; subst hn; cases h

theorem firstDeviating_mem {run : List Token} {t : Token} (h : firstDeviating run = some t) : t ∈ run := by
  unfold firstDeviating at h
  split at h
  · cases h
  · exact List.mem_of_find?_eq_some h

/-- `C12_ragged_first` on tokens -/
theorem firstDeviating_spec {run : List Token} {t : Token} (h : firstDeviating run = some t) :
    ∃ pre post t0, run = pre ++ t :: post ∧ run.head? = some t0 ∧ cellCount t ≠ cellCount t0 ∧
      ∀ x ∈ pre, cellCount x = cellCount t0 := by
  unfold firstDeviating at h
  split at h
  · cases h
  · rename_i t0 rest
    obtain ⟨h1, pre, post, h2, h3⟩ := List.find?_eq_some_iff_append.1 h
    refine ⟨pre, post, t0, h2, rfl, by simpa using h1, fun x hx => ?_⟩
    simpa using h3 x hx

theorem firstDeviating_none {run : List Token} (h : firstDeviating run = none) :
    ∀ t ∈ run, ∀ t0, run.head? = some t0 → cellCount t = cellCount t0 := by
  intro t ht t0 h0
  unfold firstDeviating at h
  split at h
  · cases ht
  · rename_i t0' rest
    cases h0
    have := List.find?_eq_none.1 h t ht
    simpa using this

/-! ### `ensure_cell_count` on the numbered rows and on the tokens -/

theorem find_numberRows (toks : List Token) (n c0 : Nat) :
    ((numberRows toks n).find? (fun r => r.cells.length != c0)).map (·.loc) =
    (toks.find? (fun t => cellCount t != c0)).map (·.loc) := by
  induction toks generalizing n with
  | nil => rfl
  | cons t toks ih =>
    rw [numberRows_cons, List.find?_cons, List.find?_cons]
    simp only [getCells_length, cellCount]
    split
    · rfl
    · exact ih (n + 1)

theorem ragged_numberRows (toks : List Token) (n : Nat) :
    (raggedRow (numberRows toks n)).map (·.loc) = (firstDeviating toks).map (·.loc) := by
  cases toks with
  | nil => rfl
  | cons t0 rest =>
    have := find_numberRows (t0 :: rest) n (cellCount t0)
    rw [numberRows_cons] at this ⊢
    simp only [raggedRow, firstDeviating, getCells_length]
    exact this

theorem RB_eq : RB = lit "inconsistent cell count within the table" := rfl

theorem raggedErrAt_good (t : Token) : good (raggedErrAt t) := ⟨rfl, rfl⟩

/-! ### `transform_node` and the ragged-table error -/

theorem getTableRows_dev (items : List (Key × Val)) (n : Nat) :
    (∀ t, firstDeviating (getTokens items .TableRow) = some t →
      ((getTableRows items).run.run n).1 = .error (.ast (raggedErrAt t))) ∧
    (firstDeviating (getTokens items .TableRow) = none →
      ∃ rows, ((getTableRows items).run.run n).1 = .ok rows) := by
  rw [run_getTableRows]
  have h := ragged_numberRows (getTokens items .TableRow) n
  cases hr : raggedRow (numberRows (getTokens items .TableRow) n) with
  | none =>
    rw [hr] at h
    refine ⟨fun t ht => ?_, fun _ => ⟨_, rfl⟩⟩
    rw [ht] at h; cases h
  | some r =>
    rw [hr] at h
    refine ⟨fun t ht => ?_, fun hn => ?_⟩
    · rw [ht] at h
      simp only [Option.map_some, Option.some.injEq] at h
      simp only [raggedErrAt, h]
    · rw [hn] at h; cases h

theorem tableNode_run (cs : List Comment) (rt : RuleType) (items : List (Key × Val)) (n : Nat)
    (h : isTableRt rt = true) :
    (∀ t, firstDeviating (getTokens items .TableRow) = some t →
      ((transformNode cs ⟨rt, items⟩).run.run n).1 = .error (.ast (raggedErrAt t))) ∧
    (firstDeviating (getTokens items .TableRow) = none →
      ∀ e, ((transformNode cs ⟨rt, items⟩).run.run n).1 ≠ .error (.ast e)) := by
  obtain ⟨h1, h2⟩ := getTableRows_dev items n
  have hrt : rt = .DataTable ∨ rt = .ExamplesTable := by
    cases rt <;> simp [isTableRt] at h ⊢
  rcases hrt with rfl | rfl
  · simp only [transformNode, run_bind]
    refine ⟨fun t ht => ?_, fun hn e => ?_⟩
    · have := h1 t ht
      rcases hg : (getTableRows items).run.run n with ⟨r, n'⟩
      rw [hg] at this
      simp only at this
      subst this
      rfl
    · obtain ⟨rows, hrows⟩ := h2 hn
      rcases hg : (getTableRows items).run.run n with ⟨r, n'⟩
      rw [hg] at hrows
      simp only at hrows
      subst hrows
      simp only
      cases rows with
      | nil => rw [run_crash]; intro hc; cases hc
      | cons r0 rs => rw [run_pure]; intro hc; cases hc
  · simp only [transformNode, run_bind]
    refine ⟨fun t ht => ?_, fun hn e => ?_⟩
    · have := h1 t ht
      rcases hg : (getTableRows items).run.run n with ⟨r, n'⟩
      rw [hg] at this
      simp only at this
      subst this
      rfl
    · obtain ⟨rows, hrows⟩ := h2 hn
      rcases hg : (getTableRows items).run.run n with ⟨r, n'⟩
      rw [hg] at hrows
      simp only at hrows
      subst hrows
      simp only
      rw [run_pure]; intro hc; cases hc

theorem nonTable_noast (cs : List Comment) (node : Node) (h : isTableRt node.rt = false) :
    BSpec (transformNode cs node) (fun _ => True) (fun _ => False) := by
  obtain ⟨rt, items⟩ := node
  cases rt <;> simp [isTableRt] at h
  all_goals (unfold transformNode; dsimp only; bwalk')

/-! ### `end_rule` and `build` on the builder stack -/

theorem addToTop_rts {st st' : List Node} {k : Key} {v : Val} (h : addToTop st k v = some st') :
    st'.map (·.rt) = st.map (·.rt) := by
  unfold addToTop at h
  split at h
  · cases h; rfl
  · cases h

/-- `end_rule`: the node is popped; an `AstBuilderException` is raised exactly for a table node
    whose row tokens have a first deviating one, and carries that token's location -/
theorem endRule_cases (β : BState) (n : Nat) (node : Node) (rest : List Node) (hst : β.stack = node :: rest) :
    (β.endRule n).2.1.stack.map (·.rt) = rest.map (·.rt) ∧
    (∀ e, (β.endRule n).1 = .error (.ast e) → isTableRt node.rt = true ∧
      ∃ t, firstDeviating (getTokens node.items .TableRow) = some t ∧ e = raggedErrAt t) ∧
    (isTableRt node.rt = true → ∀ t, firstDeviating (getTokens node.items .TableRow) = some t →
      (β.endRule n).1 = .error (.ast (raggedErrAt t))) := by
  have hrun : ∀ e, ((transformNode β.comments node).run.run n).1 = .error (.ast e) →
      isTableRt node.rt = true ∧ ∃ t, firstDeviating (getTokens node.items .TableRow) = some t ∧ e = raggedErrAt t := by
    intro e he
    cases ht : isTableRt node.rt with
    | false =>
      rcases hq : (transformNode β.comments node).run.run n with ⟨r, n'⟩
      rw [hq] at he
      have := nonTable_noast β.comments node ht n r n' hq
      simp only at he
      subst he
      exact this.elim
    | true =>
      refine ⟨rfl, ?_⟩
      obtain ⟨h1, h2⟩ := tableNode_run β.comments node.rt node.items n ht
      cases hd : firstDeviating (getTokens node.items .TableRow) with
      | none => exact absurd he (h2 hd e)
      | some t =>
        have := h1 t hd
        rw [he] at this
        cases this
        exact ⟨t, rfl, rfl⟩
  unfold BState.endRule
  rw [hst]
  dsimp only
  rcases hr : (transformNode β.comments node).run.run n with ⟨r, n'⟩
  have hfst : ((transformNode β.comments node).run.run n).1 = r := by rw [hr]
  have hdev : ∀ t, isTableRt node.rt = true → firstDeviating (getTokens node.items .TableRow) = some t →
      r = .error (.ast (raggedErrAt t)) := by
    intro t ht hd
    have := (tableNode_run β.comments node.rt node.items n ht).1 t hd
    rw [show (⟨node.rt, node.items⟩ : Node) = node from rfl] at this
    exact hfst.symm.trans this
  cases r with
  | error e =>
    dsimp only
    refine ⟨rfl, fun e' he' => ?_, fun ht t hd => ?_⟩
    · cases he'
      exact hrun e' hfst
    · have := hdev t ht hd
      cases this
      rfl
  | ok v =>
    dsimp only
    have hno : ∀ t, isTableRt node.rt = true → firstDeviating (getTokens node.items .TableRow) = some t → False := by
      intro t ht hd
      cases hdev t ht hd
    split
    · rename_i st hadd
      exact ⟨addToTop_rts hadd, fun e he => (nomatch he), fun ht t hd => (hno t ht hd).elim⟩
    · exact ⟨rfl, fun e he => (nomatch he), fun ht t hd => (hno t ht hd).elim⟩

theorem getTokens_snoc (items : List (Key × Val)) (k k' : Kind) (t : Token) :
    getTokens (items ++ [(Key.tok k, Val.tok t)]) k' =
      if k = k' then getTokens items k' ++ [t] else getTokens items k' := by
  unfold getTokens getItems
  by_cases h : k = k'
  · subst h; simp [List.filter_append]
  · have : (Key.tok k == Key.tok k') = false := by simpa using h
    simp [List.filter_append, this, h]

/-- `build` of a token matched as kind `k`: the rule types of the stack stay; the row tokens of
    the top node grow by the token iff `k = TableRow` -/
theorem build_cases (β β' : BState) (t : Token) (k : Kind) (hk : t.mtype = some k) (hb : β.build t = .ok β') :
    β'.stack.map (·.rt) = β.stack.map (·.rt) ∧
    ∀ top rest, β.stack = top :: rest → ∃ top', β'.stack = top' :: rest ∧
      getTokens top'.items .TableRow =
        if k = .TableRow then getTokens top.items .TableRow ++ [t] else getTokens top.items .TableRow := by
  unfold BState.build at hb
  rw [hk] at hb
  by_cases hc : k = .Comment
  · subst hc
    dsimp only at hb
    split at hb
    · cases hb
      exact ⟨rfl, fun top rest hs => ⟨top, hs, by simp⟩⟩
    · cases hb
  · have hb' : (match addToTop β.stack (.tok k) (.tok t) with
        | some st => Except.ok { β with stack := st }
        | Option.none => Except.error (BErr.crash "IndexError: current_node of empty stack")) = .ok β' := by
      cases k <;> first | exact absurd rfl hc | exact hb
    split at hb'
    · rename_i st hadd
      cases hb'
      refine ⟨addToTop_rts hadd, fun top rest hs => ?_⟩
      unfold addToTop at hadd
      rw [hs] at hadd
      cases hadd
      exact ⟨_, rfl, getTokens_snoc _ _ _ _⟩
    · cases hb'

end Lemmas
end GV
