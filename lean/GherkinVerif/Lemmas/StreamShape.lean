/-
  Lemmas/StreamShape.lean — helper lemmas for C17: every `toJ` encoder produces a value of the
  Cucumber Messages shape (Spec/Messages.lean); the stream's envelope order; pickle step types
  the compiler produces are never `Conjunction`; `streamAll` is a left-to-right fold.
-/
import GherkinVerif.Spec.Messages
import GherkinVerif.Model.Stream
import GherkinVerif.Lemmas.Compile
namespace GV

/-- the id counter after a sequence of sources went through one stream -/
def counterAfter (D : List Dialect) (T : Table) (opts : Opts) : List (Str × Str) → Nat → Nat
  | [], n => n
  | (uri, data) :: rest, n => counterAfter D T opts rest (streamEnum D T opts n uri data).2

namespace Lemmas
open Spec

/-! ### JSON types of constructors and encoders -/

@[simp] theorem hasTy_str (s) : hasTy (.str s) .str = true := rfl
@[simp] theorem hasTy_num (s) : hasTy (.num s) .int = true := rfl
@[simp] theorem hasTy_arr (s) : hasTy (.arr s) .list = true := rfl
@[simp] theorem hasTy_obj (s) : hasTy (.obj s) .obj = true := rfl
@[simp] theorem isNull_str (s) : isNull (.str s) = false := rfl
@[simp] theorem isNull_num (s) : isNull (.num s) = false := rfl
@[simp] theorem isNull_arr (s) : isNull (.arr s) = false := rfl
@[simp] theorem isNull_obj (s) : isNull (.obj s) = false := rfl
@[simp] theorem isStr_str (s) : isStr (.str s) = true := rfl
@[simp] theorem isInt_num (s) : isInt (.num s) = true := rfl

@[simp] theorem hasTy_loc (l : Loc) : hasTy l.toJ .obj = true := rfl
@[simp] theorem isNull_loc (l : Loc) : isNull l.toJ = false := rfl
@[simp] theorem isNull_row (r : Row) : isNull r.toJ = false := rfl
@[simp] theorem isNull_dataTable (t : DataTable) : isNull t.toJ = false := rfl
@[simp] theorem isNull_docString (t : DocString) : isNull t.toJ = false := rfl
@[simp] theorem isNull_feature (f : Feature) : isNull f.toJ = false := rfl
@[simp] theorem isStr_idJ (n : Nat) : isStr (idJ n) = true := rfl

/-- every keyword type prints as a member of the `keywordType` vocabulary -/
theorem ktype_in_vocab (k : KType) : strIn keywordTypes (.str (lit k.name)) = true := by
  cases k <;> decide

/-- every keyword type but `Conjunction` prints as a member of the pickle step `type` vocabulary -/
theorem ktype_in_pickle_vocab (k : KType) (h : k ≠ .Conjunction) :
    strIn pickleStepTypes (.str (lit k.name)) = true := by
  cases k <;> first | decide | exact absurd rfl h

/-- … and `Conjunction` does not: the hypothesis of `shapePickleStep_toJ` is necessary. -/
theorem conjunction_not_in_pickle_vocab :
    strIn pickleStepTypes (.str (lit KType.Conjunction.name)) = false := by decide

/-! ### GherkinDocument encoders -/

theorem shapeLoc_toJ (l : Loc) : shapeLoc l.toJ = true := by
  cases l with | mk line col =>
  cases col <;> simp [Loc.toJ, J.ofOpt, shapeLoc, req, lookup, keysDistinct, optField]

theorem shapeTag_toJ (t : Tag) : shapeTag t.toJ = true := by
  simp [Tag.toJ, idJ, shapeTag, req, lookup, keysDistinct, field, shapeLoc_toJ]

theorem shapeCell_toJ (c : Cell) : shapeCell c.toJ = true := by
  simp [Cell.toJ, shapeCell, req, lookup, keysDistinct, field, shapeLoc_toJ]

theorem shapeRow_toJ (r : Row) : shapeRow r.toJ = true := by
  simp [Row.toJ, idJ, shapeRow, req, lookup, keysDistinct, field, listField, shapeLoc_toJ,
    shapeCell_toJ]

theorem shapeDataTable_toJ (t : DataTable) : shapeDataTable t.toJ = true := by
  simp [DataTable.toJ, shapeDataTable, req, lookup, keysDistinct, field, listField, shapeLoc_toJ,
    shapeRow_toJ]

theorem shapeDocString_toJ (d : DocString) : shapeDocString d.toJ = true := by
  cases d with | mk loc content delimiter mediaType =>
  cases mediaType <;>
    simp [DocString.toJ, J.ofOpt, shapeDocString, req, lookup, keysDistinct, field, optField,
      shapeLoc_toJ]

theorem shapeStep_toJ (s : Step) : shapeStep s.toJ = true := by
  cases s with | mk id loc keyword ktype text arg =>
  cases arg <;>
    simp [Step.toJ, idJ, shapeStep, req, lookup, keysDistinct, field, optField, shapeLoc_toJ,
      ktype_in_vocab, shapeDataTable_toJ, shapeDocString_toJ]

theorem shapeBackground_toJ (b : Background) : shapeBackground b.toJ = true := by
  simp [Background.toJ, idJ, shapeBackground, req, lookup, keysDistinct, field, listField,
    shapeLoc_toJ, shapeStep_toJ]

theorem shapeExamples_toJ (e : Examples) : shapeExamples e.toJ = true := by
  cases e with | mk id tags loc keyword name description header body =>
  cases header <;>
    simp [Examples.toJ, J.ofOpt, idJ, shapeExamples, req, lookup, keysDistinct, field, listField,
      optField, shapeLoc_toJ, shapeTag_toJ, shapeRow_toJ]

theorem shapeScenario_toJ (s : Scenario) : shapeScenario s.toJ = true := by
  simp [Scenario.toJ, idJ, shapeScenario, req, lookup, keysDistinct, field, listField,
    shapeLoc_toJ, shapeTag_toJ, shapeStep_toJ, shapeExamples_toJ]

theorem shapeRuleChild_toJ (c : RuleChild) : shapeRuleChild c.toJ = true := by
  cases c <;> simp [RuleChild.toJ, shapeRuleChild, shapeBackground_toJ, shapeScenario_toJ]

theorem shapeRule_toJ (r : Rule) : shapeRule r.toJ = true := by
  simp [Rule.toJ, idJ, shapeRule, req, lookup, keysDistinct, field, listField,
    shapeLoc_toJ, shapeTag_toJ, shapeRuleChild_toJ]

theorem shapeFeatureChild_toJ (c : FeatureChild) : shapeFeatureChild c.toJ = true := by
  cases c <;>
    simp [FeatureChild.toJ, shapeFeatureChild, shapeBackground_toJ, shapeScenario_toJ, shapeRule_toJ]

theorem shapeFeature_toJ (f : Feature) : shapeFeature f.toJ = true := by
  simp [Feature.toJ, shapeFeature, req, lookup, keysDistinct, field, listField,
    shapeLoc_toJ, shapeTag_toJ, shapeFeatureChild_toJ]

theorem shapeComment_toJ (c : Comment) : shapeComment c.toJ = true := by
  simp [Comment.toJ, shapeComment, req, lookup, keysDistinct, field, shapeLoc_toJ]

/-- the gherkinDocument envelope: the document's members followed by `uri` -/
theorem gherkinDocument_toJ (uri : Str) (d : Doc) :
    (Envelope.gherkinDocument uri d).toJ =
      .obj [("gherkinDocument", .obj (J.ofOpt "feature" (d.feature.map Feature.toJ) ++
        [("comments", .arr (d.comments.map Comment.toJ)), ("uri", .str uri)]))] := by
  simp [Envelope.toJ, Doc.toJ]

theorem shapeGherkinDocument_toJ (uri : Str) (d : Doc) :
    shapeGherkinDocument (.obj (J.ofOpt "feature" (d.feature.map Feature.toJ) ++
        [("comments", .arr (d.comments.map Comment.toJ)), ("uri", .str uri)])) = true := by
  cases d with | mk feature comments =>
  cases feature <;>
    simp [J.ofOpt, shapeGherkinDocument, req, lookup, keysDistinct, listField, optField,
      shapeComment_toJ, shapeFeature_toJ]

/-! ### Pickle encoders -/

theorem shapePickleTag_toJ (t : PickleTag) : shapePickleTag t.toJ = true := by
  simp [PickleTag.toJ, idJ, shapePickleTag, req, lookup, keysDistinct]

theorem shapePickleStep_toJ (s : PickleStep) (h : s.type ≠ .Conjunction) :
    shapePickleStep s.toJ = true := by
  cases s with | mk astNodeIds id type text arg =>
  cases arg with
  | none =>
    simp [PickleStep.toJ, PArg.toJ, J.ofOpt, idJ, shapePickleStep, req, lookup, keysDistinct,
      field, listField, optField, ktype_in_pickle_vocab _ h]
  | table rows =>
    simp [PickleStep.toJ, PArg.toJ, J.ofOpt, idJ, shapePickleStep, req, lookup, keysDistinct,
      field, listField, optField, ktype_in_pickle_vocab _ h, shapePickleArgument, shapePickleTable,
      shapePickleRow, shapePickleCell]
  | doc content mediaType =>
    cases mediaType <;>
      simp [PickleStep.toJ, PArg.toJ, J.ofOpt, idJ, shapePickleStep, req, lookup, keysDistinct,
        field, listField, optField, ktype_in_pickle_vocab _ h, shapePickleArgument,
        shapePickleDocString]

theorem shapePickle_toJ (p : Pickle) (h : ∀ s ∈ p.steps, s.type ≠ .Conjunction) :
    shapePickle p.toJ = true := by
  have hs : ∀ s ∈ p.steps, shapePickleStep s.toJ = true := fun s hs => shapePickleStep_toJ s (h s hs)
  simp [Pickle.toJ, idJ, shapePickle, req, lookup, keysDistinct, listField, shapePickleTag_toJ]
  exact hs

/-! ### Envelopes -/

theorem wellShaped_source (uri data : Str) : wellShaped (Envelope.source uri data).toJ = true := by
  have : strIn [Spec.gherkinMediaType] (.str GV.gherkinMediaType) = true := by decide
  simp [Envelope.toJ, wellShaped, shapeSource, req, lookup, keysDistinct, field, this]

theorem wellShaped_gherkinDocument (uri : Str) (d : Doc) :
    wellShaped (Envelope.gherkinDocument uri d).toJ = true := by
  rw [gherkinDocument_toJ]
  simp [wellShaped, shapeGherkinDocument_toJ]

theorem wellShaped_pickle (p : Pickle) (h : ∀ s ∈ p.steps, s.type ≠ .Conjunction) :
    wellShaped (Envelope.pickle p).toJ = true := by
  simp [Envelope.toJ, wellShaped, shapePickle_toJ p h]

theorem wellShaped_parseError (uri : Str) (e : PErr) :
    wellShaped (Envelope.parseError uri e).toJ = true := by
  simp [Envelope.toJ, wellShaped, shapeParseError, shapeSourceRef, req, lookup, keysDistinct, field,
    shapeLoc_toJ]

/-- the model's explicit "an exception escaped" outcome is not a message -/
theorem not_wellShaped_crash (w : String) : wellShaped (Envelope.crash w).toJ = false := by
  simp [Envelope.toJ, wellShaped]

theorem wellShaped_envelope (e : Envelope) (hc : ∀ w, e ≠ .crash w)
    (hp : ∀ p, e = .pickle p → ∀ s ∈ p.steps, s.type ≠ .Conjunction) :
    wellShaped e.toJ = true := by
  cases e with
  | source uri data => exact wellShaped_source uri data
  | gherkinDocument uri d => exact wellShaped_gherkinDocument uri d
  | pickle p => exact wellShaped_pickle p (hp p rfl)
  | parseError uri e => exact wellShaped_parseError uri e
  | crash w => exact absurd rfl (hc w)

/-! ### Envelope order (`GherkinEvents.enum`) -/

/-- the envelopes of an accepted source -/
def okEnvelopes (opts : Opts) (uri data : Str) (d : Doc) (ps : List Pickle) : List Envelope :=
  (if opts.printSource then [Envelope.source uri data] else []) ++
  (if opts.printAst then [Envelope.gherkinDocument uri d] else []) ++
  (if opts.printPickles then ps.map Envelope.pickle else [])

theorem streamEnum_ok_eq (D : List Dialect) (T : Table) (opts : Opts) (ids : Nat) (uri data : Str)
    (μ : MState) (hμ : MState.init D (lit "en") = some μ) (d : Doc)
    (h : (parseWith D T false μ ids data).1 = .ok d) (ps : List Pickle) (n' : Nat)
    (hc : opts.printPickles = true → compile uri d (parseWith D T false μ ids data).2.ids = some (ps, n')) :
    streamEnum D T opts ids uri data =
      (okEnvelopes opts uri data d ps,
       if opts.printPickles then n' else (parseWith D T false μ ids data).2.ids) := by
  unfold streamEnum
  simp only [hμ]
  generalize parseWith D T false μ ids data = r at h hc
  obtain ⟨out, ctx⟩ := r
  simp only at h hc
  subst h
  cases hp : opts.printPickles with
  | false => simp [okEnvelopes, hp]
  | true => simp [okEnvelopes, hp, hc hp]

theorem streamEnum_rejected_eq (D : List Dialect) (T : Table) (opts : Opts) (ids : Nat) (uri data : Str)
    (μ : MState) (hμ : MState.init D (lit "en") = some μ) (es : List PErr) (comp : Bool)
    (h : (parseWith D T false μ ids data).1 = .rejected es comp) :
    streamEnum D T opts ids uri data =
      (es.map (Envelope.parseError uri), (parseWith D T false μ ids data).2.ids) := by
  unfold streamEnum
  simp only [hμ]
  generalize parseWith D T false μ ids data = r at h
  obtain ⟨out, ctx⟩ := r
  simp only at h
  subst h
  rfl

/-! ### Pickle step types from the compiler are never `Conjunction` -/

/-- no step of any pickle in the list has type `Conjunction` -/
def NoConj (ps : List Pickle) : Prop := ∀ p ∈ ps, ∀ s ∈ p.steps, s.type ≠ .Conjunction

theorem noConj_nil : NoConj [] := by simp [NoConj]

theorem noConj_append {a b : List Pickle} (ha : NoConj a) (hb : NoConj b) : NoConj (a ++ b) := by
  intro p hp
  rcases List.mem_append.mp hp with h | h
  · exact ha p h
  · exact hb p h

theorem nextType_ne (last : KType) (s : Step) (hl : last ≠ .Conjunction) :
    nextType last s ≠ .Conjunction := by
  rw [nextType_eq]
  split <;> assumption

theorem plainSteps_noConj (ss : List Step) (last : KType) (n : Nat) (ps : List PickleStep)
    (last' : KType) (n' : Nat) (hl : last ≠ .Conjunction)
    (h : plainSteps ss last n = some (ps, last', n')) :
    (∀ s ∈ ps, s.type ≠ .Conjunction) ∧ last' ≠ .Conjunction := by
  induction ss generalizing last n ps last' n' with
  | nil =>
    simp only [plainSteps, Option.some.injEq, Prod.mk.injEq] at h
    obtain ⟨rfl, rfl, rfl⟩ := h
    simp [hl]
  | cons s ss ih =>
    simp only [plainSteps] at h
    split at h
    · simp at h
    · split at h
      · simp at h
      · rename_i arg _ rest l1 n1 hrest
        simp only [Option.some.injEq, Prod.mk.injEq] at h
        obtain ⟨rfl, rfl, rfl⟩ := h
        have := ih _ _ _ _ _ (nextType_ne last s hl) hrest
        refine ⟨?_, this.2⟩
        intro x hx
        rcases List.mem_cons.mp hx with rfl | hx
        · exact nextType_ne last s hl
        · exact this.1 x hx

theorem outlineSteps_noConj (rowId : Nat) (hs vs : List Str) (ss : List Step) (last : KType) (n : Nat)
    (ps : List PickleStep) (last' : KType) (n' : Nat) (hl : last ≠ .Conjunction)
    (h : outlineSteps rowId hs vs ss last n = some (ps, last', n')) :
    (∀ s ∈ ps, s.type ≠ .Conjunction) ∧ last' ≠ .Conjunction := by
  induction ss generalizing last n ps last' n' with
  | nil =>
    simp only [outlineSteps, Option.some.injEq, Prod.mk.injEq] at h
    obtain ⟨rfl, rfl, rfl⟩ := h
    simp [hl]
  | cons s ss ih =>
    simp only [outlineSteps] at h
    split at h
    · split at h
      · simp at h
      · rename_i text arg _ _ _ rest l1 n1 hrest
        simp only [Option.some.injEq, Prod.mk.injEq] at h
        obtain ⟨rfl, rfl, rfl⟩ := h
        have := ih _ _ _ _ _ (nextType_ne last s hl) hrest
        refine ⟨?_, this.2⟩
        intro x hx
        rcases List.mem_cons.mp hx with rfl | hx
        · exact nextType_ne last s hl
        · exact this.1 x hx
    · simp at h

theorem unknown_ne_conj : KType.Unknown ≠ .Conjunction := by decide

theorem compileScenario_noConj (uri language : Str) (tags : List Tag) (bg : List Step) (sc : Scenario)
    (n : Nat) (p : Pickle) (n' : Nat) (h : compileScenario uri language tags bg sc n = some (p, n')) :
    ∀ s ∈ p.steps, s.type ≠ .Conjunction := by
  simp only [compileScenario] at h
  split at h
  · simp at h
  · rename_i steps l n1 hst
    simp only [Option.some.injEq, Prod.mk.injEq] at h
    obtain ⟨rfl, rfl⟩ := h
    simp only
    split at hst
    · simp only [Option.some.injEq, Prod.mk.injEq] at hst
      obtain ⟨rfl, _, _⟩ := hst
      simp
    · exact (plainSteps_noConj _ _ _ _ _ _ unknown_ne_conj hst).1

theorem compileRow_noConj (uri language : Str) (tags : List Tag) (bg : List Step) (sc : Scenario)
    (ex : Examples) (header row : Row) (n : Nat) (p : Pickle) (n' : Nat)
    (h : compileRow uri language tags bg sc ex header row n = some (p, n')) :
    ∀ s ∈ p.steps, s.type ≠ .Conjunction := by
  simp only [compileRow] at h
  split at h
  · simp at h
  · rename_i bgSteps last n1 hbg
    split at h
    · simp at h
    · rename_i own l2 n2 hown
      split at h
      · simp at h
      · simp only [Option.some.injEq, Prod.mk.injEq] at h
        obtain ⟨rfl, rfl⟩ := h
        simp only
        have hb : (∀ s ∈ bgSteps, s.type ≠ .Conjunction) ∧ last ≠ .Conjunction := by
          split at hbg
          · simp only [Option.some.injEq, Prod.mk.injEq] at hbg
            obtain ⟨rfl, rfl, _⟩ := hbg
            simp
          · exact plainSteps_noConj _ _ _ _ _ _ unknown_ne_conj hbg
        have ho := outlineSteps_noConj _ _ _ _ _ _ _ _ _ hb.2 hown
        intro s hs
        rcases List.mem_append.mp hs with h1 | h1
        · exact hb.1 s h1
        · exact ho.1 s h1

theorem compileRows_noConj (uri language : Str) (tags : List Tag) (bg : List Step) (sc : Scenario)
    (ex : Examples) (header : Row) (rows : List Row) (n : Nat) (ps : List Pickle) (n' : Nat)
    (h : compileRows uri language tags bg sc ex header rows n = some (ps, n')) : NoConj ps := by
  induction rows generalizing n ps n' with
  | nil =>
    simp only [compileRows, Option.some.injEq, Prod.mk.injEq] at h
    obtain ⟨rfl, _⟩ := h
    exact noConj_nil
  | cons r rs ih =>
    simp only [compileRows] at h
    split at h
    · simp at h
    · rename_i p n1 hp
      split at h
      · simp at h
      · rename_i qs n2 hq
        simp only [Option.some.injEq, Prod.mk.injEq] at h
        obtain ⟨rfl, _⟩ := h
        intro x hx
        rcases List.mem_cons.mp hx with rfl | hx
        · exact compileRow_noConj _ _ _ _ _ _ _ _ _ _ _ hp
        · exact ih _ _ _ hq x hx

theorem compileOutline_noConj (uri language : Str) (tags : List Tag) (bg : List Step) (sc : Scenario)
    (exs : List Examples) (n : Nat) (ps : List Pickle) (n' : Nat)
    (h : compileOutline uri language tags bg sc exs n = some (ps, n')) : NoConj ps := by
  induction exs generalizing n ps n' with
  | nil =>
    simp only [compileOutline, Option.some.injEq, Prod.mk.injEq] at h
    obtain ⟨rfl, _⟩ := h
    exact noConj_nil
  | cons ex exs ih =>
    simp only [compileOutline] at h
    split at h
    · simp at h
    · rename_i here n1 hhere
      split at h
      · simp at h
      · rename_i qs n2 hq
        simp only [Option.some.injEq, Prod.mk.injEq] at h
        obtain ⟨rfl, _⟩ := h
        refine noConj_append ?_ (ih _ _ _ hq)
        split at hhere
        · simp only [Option.some.injEq, Prod.mk.injEq] at hhere
          obtain ⟨rfl, _⟩ := hhere
          exact noConj_nil
        · exact compileRows_noConj _ _ _ _ _ _ _ _ _ _ _ hhere

theorem compileScenarioDef_noConj (uri language : Str) (tags : List Tag) (bg : List Step) (sc : Scenario)
    (n : Nat) (ps : List Pickle) (n' : Nat)
    (h : compileScenarioDef uri language tags bg sc n = some (ps, n')) : NoConj ps := by
  simp only [compileScenarioDef] at h
  split at h
  · simp only [Option.map_eq_some_iff, Prod.mk.injEq] at h
    obtain ⟨⟨p, n1⟩, hp, rfl, _⟩ := h
    intro x hx
    simp only [List.mem_singleton] at hx
    subst hx
    exact compileScenario_noConj _ _ _ _ _ _ _ _ hp
  · exact compileOutline_noConj _ _ _ _ _ _ _ _ _ h

theorem compileRuleChildren_noConj (uri language : Str) (tags : List Tag) (cs : List RuleChild)
    (bg : List Step) (n : Nat) (ps : List Pickle) (n' : Nat)
    (h : compileRuleChildren uri language tags cs bg n = some (ps, n')) : NoConj ps := by
  induction cs generalizing bg n ps n' with
  | nil =>
    simp only [compileRuleChildren, Option.some.injEq, Prod.mk.injEq] at h
    obtain ⟨rfl, _⟩ := h
    exact noConj_nil
  | cons c cs ih =>
    cases c with
    | background b =>
      simp only [compileRuleChildren] at h
      exact ih _ _ _ _ h
    | scenario sc =>
      simp only [compileRuleChildren] at h
      split at h
      · simp at h
      · rename_i qs n1 hq
        split at h
        · simp at h
        · rename_i rs n2 hr
          simp only [Option.some.injEq, Prod.mk.injEq] at h
          obtain ⟨rfl, _⟩ := h
          exact noConj_append (compileScenarioDef_noConj _ _ _ _ _ _ _ _ hq) (ih _ _ _ _ hr)

theorem compileFeatureChildren_noConj (uri language : Str) (ftags : List Tag) (cs : List FeatureChild)
    (bg : List Step) (n : Nat) (ps : List Pickle) (n' : Nat)
    (h : compileFeatureChildren uri language ftags cs bg n = some (ps, n')) : NoConj ps := by
  induction cs generalizing bg n ps n' with
  | nil =>
    simp only [compileFeatureChildren, Option.some.injEq, Prod.mk.injEq] at h
    obtain ⟨rfl, _⟩ := h
    exact noConj_nil
  | cons c cs ih =>
    cases c with
    | background b =>
      simp only [compileFeatureChildren] at h
      exact ih _ _ _ _ h
    | rule r =>
      simp only [compileFeatureChildren] at h
      split at h
      · simp at h
      · rename_i qs n1 hq
        split at h
        · simp at h
        · rename_i rs n2 hr
          simp only [Option.some.injEq, Prod.mk.injEq] at h
          obtain ⟨rfl, _⟩ := h
          exact noConj_append (compileRuleChildren_noConj _ _ _ _ _ _ _ _ hq) (ih _ _ _ _ hr)
    | scenario sc =>
      simp only [compileFeatureChildren] at h
      split at h
      · simp at h
      · rename_i qs n1 hq
        split at h
        · simp at h
        · rename_i rs n2 hr
          simp only [Option.some.injEq, Prod.mk.injEq] at h
          obtain ⟨rfl, _⟩ := h
          exact noConj_append (compileScenarioDef_noConj _ _ _ _ _ _ _ _ hq) (ih _ _ _ _ hr)

/-- no pickle step the compiler produces has type `Conjunction` (for any document) -/
theorem compile_noConj (uri : Str) (doc : Doc) (n : Nat) (ps : List Pickle) (n' : Nat)
    (h : compile uri doc n = some (ps, n')) : NoConj ps := by
  simp only [compile] at h
  split at h
  · simp only [Option.some.injEq, Prod.mk.injEq] at h
    obtain ⟨rfl, _⟩ := h
    exact noConj_nil
  · exact compileFeatureChildren_noConj _ _ _ _ _ _ _ _ h

/-! ### Every envelope the stream emits, other than the explicit crash outcome, is well shaped -/

theorem pickle_not_mem_pre (a b : Bool) (uri data : Str) (d : Doc) (p : Pickle) :
    Envelope.pickle p ∉ (if a = true then [Envelope.source uri data] else []) ++
      (if b = true then [Envelope.gherkinDocument uri d] else []) := by
  cases a <;> cases b <;> simp

theorem streamEnum_wellShaped (D : List Dialect) (T : Table) (opts : Opts) (ids : Nat) (uri data : Str)
    (e : Envelope) (he : e ∈ (streamEnum D T opts ids uri data).1) (hc : ∀ w, e ≠ .crash w) :
    wellShaped e.toJ = true := by
  refine wellShaped_envelope e hc ?_
  intro p hp
  subst hp
  unfold streamEnum at he
  split at he
  · simp at he
  · rename_i μ hμ
    generalize parseWith D T false μ ids data = r at he
    obtain ⟨out, ctx⟩ := r
    simp only at he
    split at he
    · split at he
      · split at he
        · rename_i ps n' hcomp
          rcases List.mem_append.mp he with he | he
          · exact absurd he (pickle_not_mem_pre _ _ _ _ _ _)
          · simp only [List.mem_map] at he
            obtain ⟨q, hq, hqe⟩ := he
            cases hqe
            exact compile_noConj _ _ _ _ _ hcomp _ hq
        · rcases List.mem_append.mp he with he | he
          · exact absurd he (pickle_not_mem_pre _ _ _ _ _ _)
          · simp at he
      · exact absurd he (pickle_not_mem_pre _ _ _ _ _ _)
    · simp at he
    · simp at he
    · simp at he

/-! ### `streamAll` handles the sources in order, each from the running counter -/

theorem streamAll_length (D : List Dialect) (T : Table) (opts : Opts) (srcs : List (Str × Str)) (n : Nat) :
    (streamAll D T opts srcs n).length = srcs.length := by
  induction srcs generalizing n with
  | nil => rfl
  | cons x rest ih => simp [streamAll, ih]

theorem streamAll_append (D : List Dialect) (T : Table) (opts : Opts) (pre post : List (Str × Str)) (n : Nat) :
    streamAll D T opts (pre ++ post) n =
      streamAll D T opts pre n ++ streamAll D T opts post (counterAfter D T opts pre n) := by
  induction pre generalizing n with
  | nil => rfl
  | cons x rest ih =>
    obtain ⟨uri, data⟩ := x
    simp [streamAll, counterAfter, ih]

theorem counterAfter_append (D : List Dialect) (T : Table) (opts : Opts) (pre post : List (Str × Str)) (n : Nat) :
    counterAfter D T opts (pre ++ post) n = counterAfter D T opts post (counterAfter D T opts pre n) := by
  induction pre generalizing n with
  | nil => rfl
  | cons x rest ih =>
    obtain ⟨uri, data⟩ := x
    simp [counterAfter, ih]

theorem streamAll_locality (D : List Dialect) (T : Table) (opts : Opts) (pre post : List (Str × Str))
    (x : Str × Str) (n : Nat) :
    (streamAll D T opts (pre ++ [x] ++ post) n)[pre.length]? =
      some (streamEnum D T opts (counterAfter D T opts pre n) x.1 x.2).1 := by
  obtain ⟨uri, data⟩ := x
  rw [List.append_assoc, streamAll_append]
  rw [List.getElem?_append_right (by simp [streamAll_length])]
  simp [streamAll_length, streamAll]

end Lemmas
end GV
