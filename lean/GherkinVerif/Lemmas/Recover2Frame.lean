/-
  Lemmas/Recover2Frame.lean — property C14, recovery at document level, second part: single-run
  facts about the queue-free parse.  `match_token` (with its look-aheads, which only PEEK) leaves
  the unread lines and the line counter alone; so the prefix run for `p.length` lines of a text
  `p ++ q` ends with the lines `q` unread, at line number `p.length`, and has not seen the end of file.
-/
import GherkinVerif.Lemmas.RecoverMain
namespace GV
namespace Recover2
open Lemmas Spec Layout3 Recover

/-- `m` leaves the scanner fields (unread lines, line counter) alone -/
def Frm {α} (m : PM α) : Prop := ∀ c r c', run m c = (r, c') → c'.lines = c.lines ∧ c'.lineNo = c.lineNo

theorem Frm.pure {α} (a : α) : Frm (pure a : PM α) := by
  intro c r c' h; rw [prun_pure] at h; cases h; exact ⟨rfl, rfl⟩

theorem Frm.throw {α} (e : Abort) : Frm (throw e : PM α) := by
  intro c r c' h; rw [prun_throw] at h; cases h; exact ⟨rfl, rfl⟩

theorem Frm.bind {α β} {m : PM α} {f : α → PM β} (h1 : Frm m) (h2 : ∀ a, Frm (f a)) : Frm (m >>= f) := by
  intro c r c' h
  rw [prun_bind] at h
  rcases hr : run m c with ⟨r1, c1⟩
  rw [hr] at h
  obtain ⟨e1, e2⟩ := h1 c r1 c1 hr
  cases r1 with
  | ok a =>
    obtain ⟨e3, e4⟩ := h2 a c1 r c' h
    exact ⟨e3.trans e1, e4.trans e2⟩
  | error e => cases h; exact ⟨e1, e2⟩

theorem frm_addError (cap : Nat) (e : PErr) : Frm (addError cap e) := by
  intro c r c' h
  rw [run_addError] at h
  split at h
  · cases h; exact ⟨rfl, rfl⟩
  · split at h <;> (cases h; exact ⟨rfl, rfl⟩)

theorem frm_matchP (D : List Dialect) (cap : Nat) (stop : Bool) (K : Kind) (t : Token) : Frm (matchP D cap stop K t) := by
  intro c r c' h
  rw [run_matchP] at h
  simp only [] at h
  split at h
  · cases h; exact ⟨rfl, rfl⟩
  · cases h; exact ⟨rfl, rfl⟩
  · split at h
    · cases h; exact ⟨rfl, rfl⟩
    · rename_i e _ _
      rcases hr : run (addError cap e)
        { c with μ := (matchTok D K c.μ t).1.μ, calls := c.calls + (if (matchTok D K c.μ t).2 then 1 else 0) } with ⟨r2, c2⟩
      rw [hr] at h
      have := frm_addError cap e _ _ _ hr
      cases r2 <;> (cases h; exact this)

theorem frm_matchAny (D : List Dialect) (cap : Nat) (stop : Bool) (ks : List Kind) :
    ∀ t, Frm (matchAny D cap stop ks t) := by
  induction ks with
  | nil => intro t; exact Frm.pure _
  | cons K ks ih =>
    intro t
    unfold matchAny
    refine Frm.bind (frm_matchP D cap stop K t) fun r => ?_
    obtain ⟨m, t'⟩ := r
    dsimp only
    split
    · exact Frm.pure _
    · exact ih t'

theorem frm_peekLoop (D : List Dialect) (cap : Nat) (stop : Bool) (la : LookAhead) :
    ∀ (ls : List Str) (n : Nat), Frm (peekLoop D cap stop la ls n) := by
  intro ls
  induction ls with
  | nil =>
    intro n
    unfold peekLoop
    refine Frm.bind (frm_matchAny D cap stop _ _) fun r => ?_
    obtain ⟨m, t'⟩ := r
    dsimp only
    split
    · exact Frm.pure _
    · exact Frm.bind (frm_matchAny D cap stop _ _) fun _ => Frm.pure _
  | cons l ls ih =>
    intro n
    unfold peekLoop
    refine Frm.bind (frm_matchAny D cap stop _ _) fun r => ?_
    obtain ⟨m, t'⟩ := r
    dsimp only
    split
    · exact Frm.pure _
    · refine Frm.bind (frm_matchAny D cap stop _ _) fun r => ?_
      obtain ⟨s, t''⟩ := r
      dsimp only
      split
      · exact ih _
      · exact Frm.pure _

theorem frm_lookaheadPure (D : List Dialect) (cap : Nat) (stop : Bool) (la : LookAhead) :
    Frm (lookaheadPure D cap stop la) := by
  intro c r c' h
  unfold lookaheadPure at h
  rw [prun_bind, run_get] at h
  exact frm_peekLoop D cap stop la _ _ c r c' h

theorem frm_liftB (cap : Nat) (stop : Bool) (x : Except BErr Unit) : Frm (liftB cap stop x) := by
  intro c r c' h
  rw [run_liftB] at h
  rcases x with (w | e) | v
  · cases h; exact ⟨rfl, rfl⟩
  · simp only [] at h
    split at h
    · cases h; exact ⟨rfl, rfl⟩
    · exact frm_addError cap e c r c' h
  · cases h; exact ⟨rfl, rfl⟩

theorem frm_runProd (cap : Nat) (stop : Bool) (t : Token) (p : Prod) : Frm (runProd cap stop t p) := by
  intro c r c' h
  rw [run_runProd] at h
  cases p with
  | start r0 => cases h; exact ⟨rfl, rfl⟩
  | end_ r0 =>
    simp only [] at h
    exact frm_liftB cap stop _ _ r c' h |>.imp id id
  | build =>
    simp only [] at h
    split at h
    · cases h; exact ⟨rfl, rfl⟩
    · exact frm_liftB cap stop _ c r c' h

theorem frm_runProds (cap : Nat) (stop : Bool) (t : Token) (ps : List Prod) : Frm (runProds cap stop t ps) := by
  induction ps with
  | nil => exact Frm.pure _
  | cons p ps ih =>
    unfold runProds
    exact Frm.bind (frm_runProd cap stop t p) fun _ => ih

theorem frm_tryBranchesPure (D : List Dialect) (T : Table) (stop : Bool) (row : StateRow) (bs : List Branch) :
    ∀ t, Frm (tryBranchesPure D T stop row bs t) := by
  induction bs with
  | nil =>
    intro t
    unfold tryBranchesPure
    refine Frm.bind (m := modify _) ?_ fun _ => ?_
    · intro c r c' h; rw [run_modify] at h; cases h; exact ⟨rfl, rfl⟩
    · split
      · exact Frm.throw _
      · exact Frm.bind (frm_addError _ _) fun _ => Frm.pure _
  | cons b bs ih =>
    intro t
    unfold tryBranchesPure
    refine Frm.bind (frm_matchP D _ stop b.kind t) fun r => ?_
    obtain ⟨m, t'⟩ := r
    dsimp only
    have hfin : ∀ ok : Bool, Frm (if ok = true then (do runProds T.errorCap stop t' b.prods; pure b.target)
        else tryBranchesPure D T stop row bs t') := by
      intro ok
      split
      · exact Frm.bind (frm_runProds _ stop t' _) fun _ => Frm.pure _
      · exact ih t'
    split
    · split
      · exact Frm.bind (Frm.pure _) hfin
      · split
        · exact Frm.bind (frm_lookaheadPure D _ stop _) hfin
        · exact Frm.bind (Frm.throw _) hfin
    · exact ih t'

theorem frm_matchTokenPure (D : List Dialect) (T : Table) (stop : Bool) (s : Nat) (t : Token) :
    Frm (matchTokenPure D T stop s t) := by
  unfold matchTokenPure
  split
  · exact frm_tryBranchesPure D T stop _ _ t
  · exact Frm.throw _

/-- the prefix run for the lines `p` of a text `p ++ q`: if it returns, it has not read the end of
    file, the lines `q` are unread and the line counter stands at `p.length` (plus its start) -/
theorem prefix_lines {D : List Dialect} (T : Table) (stop : Bool) (q : List Str) :
    ∀ (p : List Str) (s : Nat) (c : Ctx) (s' : Nat) (fl : Bool) (c' : Ctx), c.lines = p ++ q →
      run (parsePrefixPure D T stop p.length s) c = (.ok (s', fl), c') →
      fl = false ∧ c'.lines = q ∧ c'.lineNo = c.lineNo + p.length := by
  intro p
  induction p with
  | nil =>
    intro s c s' fl c' hl h
    simp only [List.length_nil, parsePrefixPure, prun_pure] at h
    cases h
    exact ⟨rfl, hl, rfl⟩
  | cons l p ih =>
    intro s c s' fl c' hl h
    simp only [List.length_cons, List.cons_append] at h hl
    rw [run_prefix_cons T stop _ s c hl] at h
    rcases hr : run (matchTokenPure D T stop s { line := some l, lineNo := c.lineNo + 1 })
      { c with lines := p ++ q, lineNo := c.lineNo + 1, reads := c.reads ++ [c.lineNo + 1] } with ⟨r1, c1⟩
    rw [hr] at h
    obtain ⟨e1, e2⟩ := frm_matchTokenPure D T stop s _ _ _ _ hr
    cases r1 with
    | error e => cases h
    | ok s1 =>
      simp only [] at h
      obtain ⟨h1, h2, h3⟩ := ih s1 c1 s' fl c' e1 h
      refine ⟨h1, h2, ?_⟩
      rw [h3, e2]
      simp only [List.length_cons]
      omega

end Recover2
end GV
