/-
  Lemmas/IdsPipelineStream.lean — property C11 over a stream: the counter never decreases
  (whatever the outcome of a parse); the ids one source shows are a contiguous block inside the
  interval [counter given, counter left); over a sequence of sources the shown ids are strictly
  increasing; and dense when nothing is drawn and not shown.
-/
import GherkinVerif.Lemmas.IdsPipeline
import GherkinVerif.Spec.StreamIds
import GherkinVerif.Props.C17
import GherkinVerif.Props.C15
namespace GV
namespace Lemmas
namespace IdsP
open Spec

/-! ### the id counter never decreases, for every outcome of a parse -/

/-- the loop invariant: the counter is at least `n0` -/
def IdsGe (n0 : Nat) (c : Ctx) : Prop := n0 ≤ c.ids

theorem inv_of_ids {α} {n0 : Nat} {m : PM α} (h : ∀ c r c', run m c = (r, c') → c'.ids = c.ids) :
    Inv (IdsGe n0) (fun _ => IdsGe n0) m := by
  refine Triple.intro fun c r c' hc hr => ?_
  have hb := h c r c' hr
  have key : IdsGe n0 c' := by unfold IdsGe; rw [hb]; exact hc
  cases r <;> exact key

theorem runProd_ge (n0 cap : Nat) (stop : Bool) (t : Token) (p : Prod) :
    Inv (IdsGe n0) (fun _ => IdsGe n0) (runProd cap stop t p) := by
  refine Triple.intro fun c r c' hc hr => ?_
  have key : IdsGe n0 c' := by
    rw [run_runProd] at hr
    split at hr
    · cases hr; exact hc
    · obtain ⟨es, rfl⟩ := liftB_foot _ _ _ _ _ _ hr
      exact Nat.le_trans hc (endRule_mono c.β c.ids)
    · split at hr
      · cases hr; exact hc
      · obtain ⟨es, rfl⟩ := liftB_foot _ _ _ _ _ _ hr
        exact hc
  cases r <;> exact key

theorem tail_ge (n0 : Nat) (D : List Dialect) (T : Table) (stop : Bool) (row : StateRow) (t : Token) :
    Inv (IdsGe n0) (fun _ => IdsGe n0) (tryBranches D T stop row [] t) := by
  unfold GV.tryBranches
  refine Inv.bind (Triple.modify _ fun c hc => hc) fun _ => ?_
  split
  · exact Triple.throw _ fun _ h => h
  · refine Inv.bind (inv_of_ids fun c r c' h => ?_) fun _ => Inv.pure _
    obtain ⟨es, rfl⟩ := addError_foot _ _ c r c' h
    rfl

theorem prims_ge (n0 : Nat) (D : List Dialect) (T : Table) (stop : Bool) :
    Prims D T stop (IdsGe n0) (fun _ => IdsGe n0) :=
  { readToken := inv_of_ids fun c r c' h => by
      obtain ⟨_, _, _, _, _, _, rfl⟩ := readToken_foot c r c' h; rfl
    matchP := fun k t => inv_of_ids fun c r c' h => by
      obtain ⟨_, _, _, rfl⟩ := matchP_foot D T.errorCap stop k t c r c' h; rfl
    modQ := fun _ _ h => h
    fuel := fun _ h => h
    runProd := fun t p => runProd_ge n0 T.errorCap stop t p
    modR := fun _ _ h => h
    crash := fun _ _ h => h
    tail := fun row t => tail_ge n0 D T stop row t }

/-- **The id counter never decreases**: whatever the tables, the mode, the matcher state and the
    text, and whatever the outcome (accepted, rejected, crash, fuel), the counter in the final
    context is at least the incoming one. -/
theorem parseWith_ids_mono (D : List Dialect) (T : Table) (stop : Bool) (μ : MState) (ids : Nat) (src : Str) :
    ids ≤ (parseWith D T stop μ ids src).2.ids := by
  have hb := (prims_ge ids D T stop).parseBody (fun _ _ h => h) (fun _ h _ => h) (splitLines src).length
    { lines := splitLines src, μ := μ.reset D, β := BState.reset, ids := ids } (Nat.le_refl ids)
  unfold parseWith
  dsimp only
  rcases hr : (parseBody D T stop (splitLines src).length).run.run
    { lines := splitLines src, μ := μ.reset D, β := BState.reset, ids := ids } with ⟨r, c'⟩
  cases r with
  | ok d => exact (hb.1 d c' hr).1
  | error e =>
    have := hb.2 e c' hr
    cases e <;> exact this

/-! ### the matcher of the stream -/

theorem init_reset_mem (D : List Dialect) (name : Str) (μ : MState) (h : MState.init D name = some μ) :
    (μ.reset D).dialect ∈ D := by
  unfold MState.init at h
  cases hf : findDialect D name with
  | none => rw [hf] at h; cases h
  | some d =>
    rw [hf] at h
    simp only [Option.map_some, Option.some.injEq] at h
    subst h
    simp only [MState.reset, bne_self_eq_false, Bool.false_eq_true, if_false]
    exact (findDialect_some D name d hf).1

/-! ### the ids one source shows -/

theorem shownIds_append (a b : List Envelope) : shownIds (a ++ b) = shownIds a ++ shownIds b := by
  unfold shownIds; exact List.flatMap_append

theorem shownIds_pickles (ps : List Pickle) : shownIds (ps.map Envelope.pickle) = idOrder ps := by
  unfold shownIds idOrder
  rw [List.flatMap_map]
  rfl

theorem shownIds_source (b : Bool) (uri data : Str) :
    shownIds (if b then [Envelope.source uri data] else []) = [] := by
  cases b <;> rfl

theorem shownIds_doc (b : Bool) (uri : Str) (d : Doc) :
    shownIds (if b then [Envelope.gherkinDocument uri d] else []) = if b then canonicalIds d else [] := by
  cases b
  · rfl
  · simp [shownIds, envelopeIds]

theorem shownIds_errors (uri : Str) (es : List PErr) : shownIds (es.map (Envelope.parseError uri)) = [] := by
  unfold shownIds
  rw [List.flatMap_map]
  induction es with
  | nil => rfl
  | cons e es ih => rw [List.flatMap_cons]; exact ih

/-- accepted source: what is shown and where the counter ends, for every option set -/
theorem streamEnum_ids_ok (opts : Opts) (ids : Nat) (uri data : Str) (μ : MState)
    (hμ : MState.init Gen.dialects (lit "en") = some μ) (d : Doc)
    (h : (parseWith Gen.dialects Gen.parserTable false μ ids data).1 = .ok d) :
    shownIds (streamEnum Gen.dialects Gen.parserTable opts ids uri data).1 =
      (if opts.printAst then
         List.range' ids ((parseWith Gen.dialects Gen.parserTable false μ ids data).2.ids - ids) else []) ++
      (if opts.printPickles then
         List.range' (parseWith Gen.dialects Gen.parserTable false μ ids data).2.ids
           ((streamEnum Gen.dialects Gen.parserTable opts ids uri data).2 -
             (parseWith Gen.dialects Gen.parserTable false μ ids data).2.ids) else []) ∧
    ids ≤ (parseWith Gen.dialects Gen.parserTable false μ ids data).2.ids ∧
    (parseWith Gen.dialects Gen.parserTable false μ ids data).2.ids ≤
      (streamEnum Gen.dialects Gen.parserTable opts ids uri data).2 ∧
    (opts.printPickles = false → (streamEnum Gen.dialects Gen.parserTable opts ids uri data).2 =
      (parseWith Gen.dialects Gen.parserTable false μ ids data).2.ids) := by
  have hm := init_reset_mem _ _ _ hμ
  obtain ⟨ps, n', hc⟩ := C01_compile_parsed_total false μ ids data d h uri
  obtain ⟨ha, hle⟩ := parse_ids μ ids data hm d h
  obtain ⟨hp, hle'⟩ := C11_pickle_ids uri d _ ps n' hc
  rw [C17_order Gen.dialects Gen.parserTable opts ids uri data μ hμ d h ps n' (fun _ => hc)]
  dsimp only
  rw [shownIds_append, shownIds_append, shownIds_source, shownIds_doc, List.nil_append, ha]
  cases hpk : opts.printPickles
  · exact ⟨by simp [shownIds], hle, by simp, fun _ => by simp⟩
  · refine ⟨?_, hle, by simpa using hle', fun h => by cases h⟩
    simp only [↓reduceIte]
    rw [shownIds_pickles, hp]

/-- a source that is not accepted shows no ids; the counter is where the parser left it -/
theorem streamEnum_ids_not_ok (D : List Dialect) (T : Table) (opts : Opts) (ids : Nat) (uri data : Str)
    (h : ∀ μ d, MState.init D (lit "en") = some μ → (parseWith D T false μ ids data).1 ≠ .ok d) :
    shownIds (streamEnum D T opts ids uri data).1 = [] ∧ ids ≤ (streamEnum D T opts ids uri data).2 := by
  unfold streamEnum
  split
  · exact ⟨rfl, Nat.le_refl _⟩
  · rename_i μ hμ
    have hmono := parseWith_ids_mono D T false μ ids data
    have h' := h μ
    rcases hp : parseWith D T false μ ids data with ⟨out, ctx⟩
    rw [hp] at hmono h'
    dsimp only at hmono h' ⊢
    cases out with
    | ok d => exact absurd rfl (h' d hμ)
    | rejected es c => exact ⟨shownIds_errors uri es, hmono⟩
    | crash w => exact ⟨rfl, hmono⟩
    | fuel => exact ⟨rfl, hmono⟩

/-- every source, every option set: the ids shown are a contiguous block `a, …, a+b-1` inside
    the interval from the counter the source was given to the counter it left -/
theorem streamEnum_block (opts : Opts) (ids : Nat) (uri data : Str) :
    ∃ a b, shownIds (streamEnum Gen.dialects Gen.parserTable opts ids uri data).1 = List.range' a b ∧
      ids ≤ a ∧ a + b ≤ (streamEnum Gen.dialects Gen.parserTable opts ids uri data).2 := by
  by_cases hacc : ∃ μ d, MState.init Gen.dialects (lit "en") = some μ ∧
      (parseWith Gen.dialects Gen.parserTable false μ ids data).1 = .ok d
  · obtain ⟨μ, d, hμ, h⟩ := hacc
    obtain ⟨hs, h1, h2, h3⟩ := streamEnum_ids_ok opts ids uri data μ hμ d h
    rw [hs]
    cases hA : opts.printAst <;> cases hP : opts.printPickles <;>
      simp only [Bool.false_eq_true, if_false, if_true, List.nil_append, List.append_nil]
    · exact ⟨ids, 0, rfl, Nat.le_refl _, by omega⟩
    · exact ⟨_, _, rfl, h1, by omega⟩
    · exact ⟨_, _, rfl, Nat.le_refl _, by have := h3 hP; omega⟩
    · exact ⟨ids, _, range'_glue _ _ _ h1 h2, Nat.le_refl _, by omega⟩
  · have := streamEnum_ids_not_ok Gen.dialects Gen.parserTable opts ids uri data
      (fun μ d hμ h => hacc ⟨μ, d, hμ, h⟩)
    exact ⟨ids, 0, this.1, Nat.le_refl _, this.2⟩

/-! ### a sequence of sources -/

theorem streamIds_cons (es : List Envelope) (gs : List (List Envelope)) :
    streamIds (es :: gs) = shownIds es ++ streamIds gs := by
  simp [streamIds, List.flatMap_cons]

theorem streamAll_cons (D : List Dialect) (T : Table) (opts : Opts) (uri data : Str) (rest : List (Str × Str))
    (n : Nat) : streamAll D T opts ((uri, data) :: rest) n =
      (streamEnum D T opts n uri data).1 :: streamAll D T opts rest (streamEnum D T opts n uri data).2 := by
  simp only [streamAll]

/-- the shown ids of a whole stream are strictly increasing and lie between the first counter
    and the last -/
theorem streamAll_ids_increasing (opts : Opts) (srcs : List (Str × Str)) (n : Nat) :
    (streamIds (streamAll Gen.dialects Gen.parserTable opts srcs n)).Pairwise (· < ·) ∧
    (∀ i ∈ streamIds (streamAll Gen.dialects Gen.parserTable opts srcs n),
      n ≤ i ∧ i < counterAfter Gen.dialects Gen.parserTable opts srcs n) ∧
    n ≤ counterAfter Gen.dialects Gen.parserTable opts srcs n := by
  induction srcs generalizing n with
  | nil => refine ⟨?_, ?_, ?_⟩ <;> simp [streamAll, streamIds, counterAfter]
  | cons s rest ih =>
    obtain ⟨uri, data⟩ := s
    obtain ⟨a, b, hs, h1, h2⟩ := streamEnum_block opts n uri data
    obtain ⟨ihp, ihm, ihle⟩ := ih (streamEnum Gen.dialects Gen.parserTable opts n uri data).2
    rw [streamAll_cons, streamIds_cons, hs]
    simp only [counterAfter]
    refine ⟨List.pairwise_append.2 ⟨List.pairwise_lt_range' 1, ihp, ?_⟩, ?_, by omega⟩
    · intro x hx y hy
      have := List.mem_range'_1.1 hx
      have := ihm y hy
      omega
    · intro i hi
      rcases List.mem_append.1 hi with hi | hi
      · have := List.mem_range'_1.1 hi
        omega
      · have := ihm i hi
        omega

theorem streamAll_ids (opts : Opts) (srcs : List (Str × Str)) (n : Nat) :
    (streamIds (streamAll Gen.dialects Gen.parserTable opts srcs n)).Pairwise (· < ·) ∧
    (streamIds (streamAll Gen.dialects Gen.parserTable opts srcs n)).Nodup ∧
    (∀ i ∈ streamIds (streamAll Gen.dialects Gen.parserTable opts srcs n),
      n ≤ i ∧ i < counterAfter Gen.dialects Gen.parserTable opts srcs n) ∧
    n ≤ counterAfter Gen.dialects Gen.parserTable opts srcs n := by
  obtain ⟨h1, h2, h3⟩ := streamAll_ids_increasing opts srcs n
  exact ⟨h1, h1.imp (fun h => Nat.ne_of_lt h), h2, h3⟩

/-- the stream accepts the text (a property of the text alone: stated at counter 0) -/
def StreamAccepts (data : Str) : Prop :=
  ∃ μ d, MState.init Gen.dialects (lit "en") = some μ ∧
    (parseWith Gen.dialects Gen.parserTable false μ 0 data).1 = .ok d

theorem accepts_any_counter (data : Str) (h : StreamAccepts data) (n : Nat) :
    ∃ μ d, MState.init Gen.dialects (lit "en") = some μ ∧
      (parseWith Gen.dialects Gen.parserTable false μ n data).1 = .ok d := by
  obtain ⟨μ, d, hμ, hd⟩ := h
  refine ⟨μ, shiftDoc n d, hμ, ?_⟩
  rw [(C15_id_offset_zero Gen.dialects Gen.parserTable false μ n data).1, hd]
  rfl

/-- one source, all options on, accepted or drawing nothing: the block is the whole interval -/
theorem streamEnum_dense (opts : Opts) (hA : opts.printAst = true) (hP : opts.printPickles = true)
    (n : Nat) (uri data : Str)
    (h : StreamAccepts data ∨ (streamEnum Gen.dialects Gen.parserTable opts 0 uri data).2 = 0) :
    shownIds (streamEnum Gen.dialects Gen.parserTable opts n uri data).1 =
      List.range' n ((streamEnum Gen.dialects Gen.parserTable opts n uri data).2 - n) ∧
    n ≤ (streamEnum Gen.dialects Gen.parserTable opts n uri data).2 := by
  rcases h with h | h
  · obtain ⟨μ, d, hμ, hd⟩ := accepts_any_counter data h n
    obtain ⟨hs, h1, h2, -⟩ := streamEnum_ids_ok opts n uri data μ hμ d hd
    rw [hs, hA, hP]
    simp only [if_true]
    exact ⟨range'_glue _ _ _ h1 h2, Nat.le_trans h1 h2⟩
  · have hsh := C15_stream_id_offset Gen.dialects Gen.parserTable opts 0 n uri data
    rw [Nat.zero_add] at hsh
    have h2 : (streamEnum Gen.dialects Gen.parserTable opts n uri data).2 = n := by
      rw [hsh]; dsimp only; omega
    obtain ⟨a, b, hs, h3, h4⟩ := streamEnum_block opts n uri data
    have hb : b = 0 := by omega
    rw [hs, h2, hb, Nat.sub_self]
    exact ⟨rfl, Nat.le_refl _⟩

/-- all options on, every source accepted or drawing nothing: the shown ids are all ids -/
theorem streamAll_ids_dense (opts : Opts) (hA : opts.printAst = true) (hP : opts.printPickles = true)
    (srcs : List (Str × Str)) (n : Nat)
    (h : ∀ x ∈ srcs, StreamAccepts x.2 ∨ (streamEnum Gen.dialects Gen.parserTable opts 0 x.1 x.2).2 = 0) :
    streamIds (streamAll Gen.dialects Gen.parserTable opts srcs n) =
      List.range' n (counterAfter Gen.dialects Gen.parserTable opts srcs n - n) := by
  induction srcs generalizing n with
  | nil => simp [streamAll, streamIds, counterAfter]
  | cons s rest ih =>
    obtain ⟨uri, data⟩ := s
    obtain ⟨hs, hle⟩ := streamEnum_dense opts hA hP n uri data (h (uri, data) (List.mem_cons_self))
    have ih' := ih (streamEnum Gen.dialects Gen.parserTable opts n uri data).2
      (fun x hx => h x (List.mem_cons_of_mem _ hx))
    have hle' := (streamAll_ids_increasing opts rest
      (streamEnum Gen.dialects Gen.parserTable opts n uri data).2).2.2
    rw [streamAll_cons, streamIds_cons, hs, ih']
    simp only [counterAfter]
    exact range'_glue _ _ _ hle hle'

end IdsP
end Lemmas
end GV
