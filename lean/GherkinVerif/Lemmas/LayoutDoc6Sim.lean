/-
  Lemmas/LayoutDoc6Sim.lean — case (b2) of goal G3 of property C16: the SAME program run from two
  contexts that agree outside the builder and whose builder states are related by `BD` (the second
  has extra empty-description items).  Matchers and look-aheads do not look at the builder
  (`Indep`); `start_rule`, `build` and `end_rule` keep `BD` — the side condition of `BD.endRule` (no node
  receives a second `Description` item) comes from the invariant `StackA` of the second run
  (Lemmas/LayoutDoc6Flags.lean).  Result: `simD_lines` (the main loop) and `simD_bodyTail` (the final
  `end_rule` and `get_result`): both runs end alike, with EQUAL documents.
-/
import GherkinVerif.Lemmas.LayoutDoc6Flags
import GherkinVerif.Lemmas.LayoutDoc6Indep
namespace GV
namespace Layout6
open Lemmas Spec Layout3 Layout4 Layout5

/-- builder states related by `BD`, contexts equal otherwise, the second run's stack described by `fs` -/
def RD (fs : List ANode) (c c' : Ctx) : Prop := CtxD c c' ∧ StackA c'.β.stack fs

theorem CtxD.keep {c c' d d' : Ctx} (h : CtxD c c') (hE : CtxE d d') (h1 : d.β = c.β) (h2 : d'.β = c'.β) : CtxD d d' :=
  ⟨hE, by rw [h1, h2]; exact h.2⟩

theorem RD.keep {fs : List ANode} {c c' d d' : Ctx} (h : RD fs c c') (hE : CtxE d d') (h1 : d.β = c.β) (h2 : d'.β = c'.β) :
    RD fs d d' := ⟨h.1.keep hE h1 h2, by rw [h2]; exact h.2⟩

theorem Indep.simD {α} {m : PM α} (h : Indep m) : SimG CtxD (fun _ d d' => CtxD d d') m m :=
  h.simG (fun _ _ hr => hr.1) fun _ _ _ _ hr hE h1 h2 => hr.keep hE h1 h2

theorem Indep.simRD {α} {m : PM α} (h : Indep m) (fs : List ANode) : SimG (RD fs) (fun _ d d' => RD fs d d') m m :=
  h.simG (fun _ _ hr => hr.1.1) fun _ _ _ _ hr hE h1 h2 => hr.keep hE h1 h2

/-- a fact about the second run's result may be added to the postcondition -/
theorem SimG.and_right {α} {R : Ctx → Ctx → Prop} {Q : α → Ctx → Ctx → Prop} {m1 m2 : PM α} (h : SimG R Q m1 m2)
    {P : α → Ctx → Prop} (hP : ∀ c c' a d', R c c' → run m2 c' = (.ok a, d') → P a d') :
    SimG R (fun a d d' => Q a d d' ∧ P a d') m1 m2 := by
  intro c c' hr
  have h1 := h c c' hr
  have h2 := hP c c'
  revert h1 h2
  rcases run m1 c with ⟨r1, d⟩
  rcases run m2 c' with ⟨r2, d'⟩
  intro h1 h2
  cases r1 <;> cases r2 <;> simp only [PostG] at h1 ⊢
  · exact h1
  · obtain ⟨rfl, hq⟩ := h1
    exact ⟨rfl, hq, h2 _ _ hr rfl⟩

/-- the first run does a step of its own -/
theorem SimG.skip_left {α β} {R R' : Ctx → Ctx → Prop} {Q : β → Ctx → Ctx → Prop} {m1 : PM α} {f1 : α → PM β}
    {m2 : PM β} (a : α) (h : ∀ c c', R c c' → ∃ d, run m1 c = (.ok a, d) ∧ R' d c') (hs : SimG R' Q (f1 a) m2) :
    SimG R Q (m1 >>= f1) m2 := by
  intro c c' hr
  obtain ⟨d, hd, hr'⟩ := h c c' hr
  have e := prun_bind m1 f1 c
  rw [e, hd]
  exact hs d c' hr'

/-- the second run does a step of its own -/
theorem SimG.skip_right {α β} {R R' : Ctx → Ctx → Prop} {Q : β → Ctx → Ctx → Prop} {m1 : PM β} {m2 : PM α}
    {f2 : α → PM β} (a : α) (h : ∀ c c', R c c' → ∃ d', run m2 c' = (.ok a, d') ∧ R' c d') (hs : SimG R' Q m1 (f2 a)) :
    SimG R Q m1 (m2 >>= f2) := by
  intro c c' hr
  obtain ⟨d', hd, hr'⟩ := h c c' hr
  have e := prun_bind m2 f2 c'
  rw [e, hd]
  exact hs c d' hr'

/-! ### productions -/

theorem simD_runProd (cap : Nat) (stop : Bool) (t : Token) (p : Prod) {fs fs' : List ANode}
    (hp : applyProdA p fs = some fs') :
    SimG (RD fs) (fun _ d d' => RD fs' d d') (runProd cap stop t p) (runProd cap stop t p) := by
  have key : SimG (RD fs) (fun _ d d' => CtxD d d') (runProd cap stop t p) (runProd cap stop t p) := by
    intro c c' hr
    obtain ⟨⟨hE, hB⟩, hA⟩ := hr
    rw [run_runProd, run_runProd]
    cases p with
    | start r =>
      exact ⟨rfl, ⟨hE.lines, hE.lineNo, hE.errors, hE.μ, hE.ids, hE.unexpected⟩, hB.startRule r⟩
    | end_ X =>
      simp only []
      obtain ⟨h1, h2, h3⟩ := hB.endRule c.ids (endRule_safe hA (by rw [hp]; rfl))
      rw [hE.ids, h1, h3]
      exact (indep_liftB cap stop _).simD _ _
        ⟨⟨hE.lines, hE.lineNo, hE.errors, hE.μ, rfl, hE.unexpected⟩, h2⟩
    | build =>
      simp only []
      rcases hB.build t with ⟨e, e1, e2⟩ | ⟨β1', β2', e1, e2, hb⟩
      · rw [e1, e2]
        exact (indep_liftB cap stop _).simD _ _ ⟨hE, hB⟩
      · rw [e1, e2]
        exact ⟨rfl, ⟨hE.lines, hE.lineNo, hE.errors, hE.μ, hE.ids, hE.unexpected⟩, hb⟩
  exact key.and_right fun c c' a d' hr hrun => stackA_runProd cap stop t p hr.2 hp hrun

theorem simD_runProds (cap : Nat) (stop : Bool) (t : Token) : ∀ (ps : List Prod) {fs fs' : List ANode},
    applyProdsA ps fs = some fs' →
    SimG (RD fs) (fun _ d d' => RD fs' d d') (runProds cap stop t ps) (runProds cap stop t ps)
  | [], fs, fs', hp => by
    simp only [applyProdsA, Option.some.injEq] at hp
    subst hp
    exact SimG.pure _ fun _ _ h => h
  | p :: ps, fs, fs', hp => by
    simp only [applyProdsA] at hp
    cases h1 : applyProdA p fs with
    | none => rw [h1] at hp; cases hp
    | some fs1 =>
      rw [h1] at hp
      simp only [Option.bind_some] at hp
      unfold runProds
      exact SimG.bind (simD_runProd cap stop t p h1) fun _ => simD_runProds cap stop t ps hp

/-! ### `match_token` -/

theorem simD_tryBranchesPure (D : List Dialect) (T : Table) (stop : Bool) (row : StateRow) (fs : List ANode) :
    ∀ (bs : List Branch), (∀ b ∈ bs, ∃ d, applyProdsA b.prods fs = some d) → ∀ (t : Token),
      SimG (RD fs) (fun _ d d' => CtxD d d') (tryBranchesPure D T stop row bs t) (tryBranchesPure D T stop row bs t) := by
  intro bs
  induction bs with
  | nil =>
    intro _ t
    unfold tryBranchesPure
    refine SimG.bind (Q := fun _ d d' => CtxD d d') ?_ fun _ => ?_
    · intro c c' hr
      rw [run_modify, run_modify]
      exact ⟨rfl, ⟨hr.1.1.lines, hr.1.1.lineNo, hr.1.1.errors, hr.1.1.μ, hr.1.1.ids,
        by simp only [hr.1.1.unexpected]⟩, hr.1.2⟩
    · cases stop with
      | true => exact SimG.throw _ fun _ _ h => h.1
      | false =>
        simp only [Bool.false_eq_true, ↓reduceIte]
        exact SimG.bind (indep_addError _ _).simD fun _ => SimG.pure _ fun _ _ h => h
  | cons b bs ih =>
    intro hbs t
    have hbs' : ∀ b' ∈ bs, ∃ d, applyProdsA b'.prods fs = some d := fun b' h => hbs b' (List.mem_cons_of_mem _ h)
    obtain ⟨d0, hd0⟩ := hbs b List.mem_cons_self
    unfold tryBranchesPure
    refine SimG.bind ((indep_matchP D T.errorCap stop b.kind t).simRD fs) fun mt => ?_
    obtain ⟨m, t'⟩ := mt
    dsimp only
    cases m with
    | false =>
      simp only [Bool.false_eq_true, ↓reduceIte]
      exact ih hbs' t'
    | true =>
      simp only [↓reduceIte]
      have cont : ∀ ok : Bool, SimG (RD fs) (fun _ d d' => CtxD d d')
          (if ok = true then (do runProds T.errorCap stop t' b.prods; Pure.pure b.target : PM Nat)
            else tryBranchesPure D T stop row bs t')
          (if ok = true then (do runProds T.errorCap stop t' b.prods; Pure.pure b.target : PM Nat)
            else tryBranchesPure D T stop row bs t') := by
        intro ok
        cases ok with
        | false =>
          simp only [Bool.false_eq_true, ↓reduceIte]
          exact ih hbs' t'
        | true =>
          simp only [↓reduceIte]
          exact SimG.bind (simD_runProds T.errorCap stop t' b.prods hd0) fun _ => SimG.pure _ fun _ _ h => h.1
      cases b.guard with
      | none => exact SimG.bind (SimG.pure _ fun _ _ h => h) cont
      | some i =>
        simp only []
        cases T.lookaheads[i]? with
        | none => exact SimG.bind (SimG.throw _ fun _ _ h => h.1.1) cont
        | some la => exact SimG.bind ((indep_lookaheadPure D T.errorCap stop la).simRD fs) cont

theorem simD_matchTokenPure (D : List Dialect) {T : Table} {fl : List (Nat × List ANode)}
    (h : descStacksOk T fl = true) (stop : Bool) (s : Nat) (t : Token) :
    SimG (RD (absAt fl s)) (fun a d d' => RD (absAt fl a) d d') (matchTokenPure D T stop s t) (matchTokenPure D T stop s t) := by
  have key : SimG (RD (absAt fl s)) (fun _ d d' => CtxD d d') (matchTokenPure D T stop s t) (matchTokenPure D T stop s t) := by
    unfold matchTokenPure
    cases hrow : T.row? s with
    | none => exact SimG.throw _ fun _ _ h => h.1.1
    | some row =>
      simp only []
      obtain ⟨-, -, -, h4⟩ := descStacksOk_row h hrow
      exact simD_tryBranchesPure D T stop row _ row.branches (fun b hb => by
        obtain ⟨d, hd, -⟩ := h4 b hb
        exact ⟨d, hd⟩) t
  exact key.and_right fun c c' a d' hr hrun => stackA_matchTokenPure D h stop s t c' a d' hr.2 hrun

/-! ### the main loop -/

theorem simD_lines (D : List Dialect) {T : Table} {fl : List (Nat × List ANode)} (h : descStacksOk T fl = true)
    (stop : Bool) : ∀ (fuel s : Nat),
      SimG (RD (absAt fl s)) (fun a d d' => RD (absAt fl a) d d') (parseLinesPure D T stop fuel s) (parseLinesPure D T stop fuel s) := by
  intro fuel
  induction fuel with
  | zero =>
    intro s
    unfold parseLinesPure
    exact SimG.throw _ fun _ _ h => h.1.1
  | succ fuel ih =>
    intro s c c' hr
    obtain ⟨⟨hE, hB⟩, hA⟩ := hr
    cases h1 : c.lines with
    | nil =>
      have h2 : c'.lines = [] := by rw [hE.lines, h1]
      rw [run_lines_nil T stop _ s c h1, run_lines_nil T stop _ s c' h2, hE.lineNo]
      exact simD_matchTokenPure D h stop s _ _ _
        ⟨⟨⟨hE.lines, rfl, hE.errors, hE.μ, hE.ids, hE.unexpected⟩, hB⟩, hA⟩
    | cons l ls =>
      have h2 : c'.lines = l :: ls := by rw [hE.lines, h1]
      rw [run_lines_cons T stop _ s c h1, run_lines_cons T stop _ s c' h2, hE.lineNo]
      have hm := simD_matchTokenPure D h stop s { line := some l, lineNo := c.lineNo + 1 }
        { c with lines := ls, lineNo := c.lineNo + 1, reads := c.reads ++ [c.lineNo + 1] }
        { c' with lines := ls, lineNo := c.lineNo + 1, reads := c'.reads ++ [c.lineNo + 1] }
        ⟨⟨⟨rfl, rfl, hE.errors, hE.μ, hE.ids, hE.unexpected⟩, hB⟩, hA⟩
      revert hm
      generalize run (matchTokenPure D T stop s { line := some l, lineNo := c.lineNo + 1 })
        { c with lines := ls, lineNo := c.lineNo + 1, reads := c.reads ++ [c.lineNo + 1] } = x1
      generalize run (matchTokenPure D T stop s { line := some l, lineNo := c.lineNo + 1 })
        { c' with lines := ls, lineNo := c.lineNo + 1, reads := c'.reads ++ [c.lineNo + 1] } = x2
      intro hm
      obtain ⟨r1, d⟩ := x1
      obtain ⟨r2, d'⟩ := x2
      cases r1 <;> cases r2 <;> simp only [PostG] at hm ⊢
      · exact hm
      · obtain ⟨rfl, hq⟩ := hm
        exact ih _ d d' hq

/-! ### the end of `parse` -/

/-- `parse` after the main loop: the final `end_rule`, the error check, `get_result` -/
def bodyTail (T : Table) (stop : Bool) : PM Doc := do
  runProd T.errorCap stop default (.end_ T.startRule)
  let ctx ← get
  if !ctx.errors.isEmpty then throw (.composite ctx.errors)
  match ctx.β.result with
  | .ok (some d) => pure d
  | .ok none => throw (.crash "get_result returned None")
  | .error (.crash w) => throw (.crash w)
  | .error (.ast e) => throw (.single e)

theorem parseBodyPure_eq (D : List Dialect) (T : Table) (stop : Bool) (n : Nat) :
    parseBodyPure D T stop n = (do
      modify fun c => { c with β := c.β.startRule T.startRule }
      let _ ← parseLinesPure D T stop (n + 2) 0
      bodyTail T stop) := rfl

theorem simD_bodyTail (T : Table) (stop : Bool) (fs : List ANode) (ht : topOkA fs = true) :
    SimG (RD fs) (fun _ d d' => CtxE d d') (bodyTail T stop) (bodyTail T stop) := by
  unfold bodyTail
  refine SimG.bind (Q := fun _ d d' => CtxD d d') ?_ fun _ => ?_
  · intro c c' hr
    obtain ⟨⟨hE, hB⟩, hA⟩ := hr
    rw [run_runProd, run_runProd]
    simp only []
    obtain ⟨h1, h2, h3⟩ := hB.endRule c.ids (topOk_safe hA ht)
    rw [hE.ids, h1, h3]
    exact (indep_liftB T.errorCap stop _).simD _ _
      ⟨⟨hE.lines, hE.lineNo, hE.errors, hE.μ, rfl, hE.unexpected⟩, h2⟩
  · intro c c' hr
    obtain ⟨hE, hB⟩ := hr
    rw [prun_bind, prun_bind, run_get, run_get]
    simp only []
    rw [hE.errors, hB.result]
    by_cases he : (!c.errors.isEmpty) = true
    · rw [if_pos he, prun_bind, prun_bind, prun_throw, prun_throw]
      exact ⟨rfl, hE⟩
    · rw [if_neg he]
      cases c.β.result with
      | error e =>
        cases e with
        | crash w => exact ⟨rfl, hE⟩
        | ast e => exact ⟨rfl, hE⟩
      | ok o =>
        cases o with
        | none => exact ⟨rfl, hE⟩
        | some d => exact ⟨rfl, hE⟩

end Layout6
end GV
