/-
  Lemmas/ErrorsDocRun.lean — the run invariant behind `C14_errors_classified`
  (Props/C14ErrorsDoc.lean): on the queue-free parse (Spec/PureParse.lean), at every point of every
  run, every error in `ctx.errors` is classified against the source lines (`Spec.ErrClass`, Lemmas/
  ErrorsDocBase.lean), and so is the single error of a stop-mode abort and every error of a
  composite abort.

  Errors enter the list through `addError` only, called from three places:
    * `matchP` when the matcher raises — on a token carrying a source line that is a
      tag-whitespace or an unknown-language error of that line (`matchTok_raised_cls`); this covers
      the tests of the main loop and those of a look-ahead (`peekLoop` over the unread lines);
    * the error tail of `tryBranchesPure` — the token in hand carries its source line (or is the
      end-of-file token numbered `|L| + 1`), holds no column or the column indent + 1 (`ColOK`:
      tests that do not match leave the token alone, except `Language`, which writes indent + 1;
      guarded tests, which may match and still fall through, are `TagLine` tests — table fact
      `guardsOnTagLine` — and write indent + 1), and is not whitespace-only (table fact
      `blankTaken`: every state has an unguarded `Empty` or `Other` test, which such a line passes);
    * `liftB` — the builder's only error is the ragged-table error (`endRule_good`).
-/
import GherkinVerif.Lemmas.ErrorsDocBase
namespace GV
namespace ErrorsDoc
open Lemmas Spec AnyRun

theorem Triple.with_fact {α} {P : Ctx → Prop} {m : PM α} {Q : α → Ctx → Prop} {E} {F : α → Prop}
    (h : Triple P m Q E) (hf : ∀ c a c', run m c = (.ok a, c') → F a) :
    Triple P m (fun a c => Q a c ∧ F a) E :=
  fun c hc => ⟨fun a c' hr => ⟨(h c hc).1 a c' hr, hf c a c' hr⟩, (h c hc).2⟩

theorem Triple.of_false {α} {P : Ctx → Prop} {m : PM α} {Q : α → Ctx → Prop} {E} (h : ∀ c, P c → False) :
    Triple P m Q E := fun c hc => (h c hc).elim

/-! ### the invariant -/

structure EInv (D : List Dialect) (T : Table) (L : List Str) (n : Nat) (c : Ctx) : Prop where
  le : n ≤ L.length + 1
  lineNo : c.lineNo = n
  lines : c.lines = L.drop n
  errs : ∀ e ∈ c.errors, ErrClass D T L c.unexpected e

/-- aborts: the single error of stop mode and every error of a composite abort are classified -/
def EAb (D : List Dialect) (T : Table) (L : List Str) (a : Abort) (c : Ctx) : Prop :=
  (∀ e, a = .single e → ErrClass D T L c.unexpected e) ∧
  (∀ es, a = .composite es → ∀ e ∈ es, ErrClass D T L c.unexpected e)

section
variable {D : List Dialect} {T : Table} {L : List Str} {n : Nat}

theorem EInv.same {c c' : Ctx} (h : EInv D T L n c) (h1 : c'.lineNo = c.lineNo) (h2 : c'.lines = c.lines)
    (h3 : c'.errors = c.errors) (h4 : c'.unexpected = c.unexpected) : EInv D T L n c' :=
  ⟨h.le, h1.trans h.lineNo, h2.trans h.lines, by rw [h3, h4]; exact h.errs⟩

theorem eab_other {a : Abort} {c : Ctx} (h1 : ∀ e, a ≠ .single e) (h2 : ∀ es, a ≠ .composite es) : EAb D T L a c :=
  ⟨fun e he => absurd he (h1 e), fun es he => absurd he (h2 es)⟩

theorem eab_crash (w : String) (c : Ctx) : EAb D T L (.crash w) c :=
  eab_other (fun _ h => by cases h) (fun _ h => by cases h)

theorem eab_fuel (c : Ctx) : EAb D T L .fuel c :=
  eab_other (fun _ h => by cases h) (fun _ h => by cases h)

theorem eab_single {e : PErr} {c : Ctx} (h : ErrClass D T L c.unexpected e) : EAb D T L (.single e) c :=
  ⟨fun e' he => by cases he; exact h, fun es he => by cases he⟩

theorem addError_e (cap : Nat) (e : PErr) :
    Triple (fun c => EInv D T L n c ∧ ErrClass D T L c.unexpected e) (addError cap e)
      (fun _ => EInv D T L n) (EAb D T L) := by
  refine Triple.intro fun c r c' hc hr => ?_
  rw [run_addError] at hr
  have hall : ∀ x ∈ c.errors ++ [e], ErrClass D T L c.unexpected x := by
    intro x hx
    rcases List.mem_append.1 hx with hx | hx
    · exact hc.1.errs x hx
    · rw [List.mem_singleton] at hx; subst hx; exact hc.2
  split at hr
  · cases hr; exact hc.1
  · split at hr
    · cases hr
      exact ⟨fun e' he => (by cases he), fun es he => by cases he; exact hall⟩
    · cases hr
      exact ⟨hc.1.le, hc.1.lineNo, hc.1.lines, hall⟩

theorem matchP_e (cap : Nat) (stop : Bool) (k : Kind) (t : Token) (ht : LineOf L t) :
    Triple (EInv D T L n) (matchP D cap stop k t)
      (fun r c => EInv D T L n c ∧ ∃ μ0, r.2 = (matchTok D k μ0 t).1.tok ∧
        (r.1 = false → (matchTok D k μ0 t).1.res ≠ .matched)) (EAb D T L) := by
  refine Triple.intro fun c r c' hc hr => ?_
  rw [run_matchP] at hr
  dsimp only at hr
  have hc1' : ∀ (μ' : MState) (m : Nat), EInv D T L n { c with μ := μ', calls := m } :=
    fun _ _ => hc.same rfl rfl rfl rfl
  have hc1 := hc1' (matchTok D k c.μ t).1.μ (c.calls + (if (matchTok D k c.μ t).2 then 1 else 0))
  split at hr
  · rename_i hres
    cases hr
    exact ⟨hc1, c.μ, rfl, fun h => by cases h⟩
  · rename_i hres
    cases hr
    exact ⟨hc1, c.μ, rfl, fun _ => by rw [hres]; intro h; cases h⟩
  · rename_i e hres
    have hcls : ErrClass D T L c.unexpected e := .inr (.inr (matchTok_raised_cls ht hres))
    split at hr
    · cases hr
      exact eab_single hcls
    · rcases hr2 : run (addError cap e) _ with ⟨r2, c2⟩
      rw [hr2] at hr
      have ha := addError_e (D := D) (T := T) (L := L) (n := n) cap e _ ⟨hc1, hcls⟩
      cases r2 with
      | ok u =>
        cases hr
        exact ⟨ha.1 _ _ hr2, c.μ, rfl, fun _ => by rw [hres]; intro h; cases h⟩
      | error x => cases hr; exact ha.2 _ _ hr2

theorem matchAny_e (cap : Nat) (stop : Bool) (ks : List Kind) (t : Token) (ht : LineOf L t) :
    Inv (EInv D T L n) (EAb D T L) (matchAny D cap stop ks t) := by
  induction ks generalizing t with
  | nil => exact Inv.pure _
  | cons k ks ih =>
    unfold GV.matchAny
    refine Triple.bind (matchP_e cap stop k t ht) fun r => ?_
    obtain ⟨m, t'⟩ := r
    dsimp only
    refine assumeT (φ := LineOf L t') (fun c hc => by
      obtain ⟨μ0, h, -⟩ := hc.2
      have := matchTok_tok D k μ0 t
      exact lineOf_of_keep ht (by rw [h]; exact this.1) (by rw [h]; exact this.2)) fun hφ => ?_
    refine Triple.conseq (P := EInv D T L n) ?_ (fun c hc => hc.1) (fun _ _ h => h) (fun _ _ h => h)
    split
    · exact Inv.pure _
    · exact ih _ hφ

/-- … with the fact that the token handed on is still the same line -/
theorem matchAny_e' (cap : Nat) (stop : Bool) (ks : List Kind) (t : Token) (ht : LineOf L t) :
    Triple (EInv D T L n) (matchAny D cap stop ks t)
      (fun r c => EInv D T L n c ∧ LineOf L r.2) (EAb D T L) :=
  Triple.with_fact (matchAny_e cap stop ks t ht) fun c a c' hr =>
    lineOf_of_keep ht (matchAny_tok D cap stop ks t c a c' hr).1 (matchAny_tok D cap stop ks t c a c' hr).2

theorem getElem?_of_drop_cons {α} {L : List α} {k : Nat} {l : α} {ls : List α} (h : L.drop k = l :: ls) :
    L[k]? = some l ∧ L.drop (k + 1) = ls := by
  constructor
  · have := List.getElem?_drop (xs := L) (i := k) (j := 0)
    rw [h] at this
    simpa using this.symm
  · rw [← List.tail_drop, h]; rfl

theorem peekLoop_e (cap : Nat) (stop : Bool) (la : LookAhead) (ls : List Str) (m : Nat)
    (hls : L.drop (m - 1) = ls) (hm : 1 ≤ m) :
    Inv (EInv D T L n) (EAb D T L) (peekLoop D cap stop la ls m) := by
  induction ls generalizing m with
  | nil =>
    unfold peekLoop
    refine Triple.bind (matchAny_e' cap stop _ _ (lineOf_eof m)) fun r => ?_
    obtain ⟨b, t1⟩ := r
    dsimp only
    refine assumeT (φ := LineOf L t1) (fun c hc => hc.2) fun hφ => ?_
    refine Triple.conseq (P := EInv D T L n) ?_ (fun c hc => hc.1) (fun _ _ h => h) (fun _ _ h => h)
    split
    · exact Inv.pure _
    · exact Inv.bind (matchAny_e _ _ _ _ hφ) fun _ => Inv.pure _
  | cons l ls ih =>
    obtain ⟨hget, hrest⟩ := getElem?_of_drop_cons hls
    have ht : LineOf L { line := some l, lineNo := m } := by
      intro l' hl'
      cases hl'
      exact ⟨hget, hm⟩
    unfold peekLoop
    refine Triple.bind (matchAny_e' cap stop _ _ ht) fun r => ?_
    obtain ⟨b, t1⟩ := r
    dsimp only
    refine assumeT (φ := LineOf L t1) (fun c hc => hc.2) fun hφ => ?_
    refine Triple.conseq (P := EInv D T L n) ?_ (fun c hc => hc.1) (fun _ _ h => h) (fun _ _ h => h)
    split
    · exact Inv.pure _
    · refine Inv.bind (matchAny_e _ _ _ _ hφ) fun r => ?_
      obtain ⟨s, t2⟩ := r
      dsimp only
      split
      · exact ih (m + 1) (by rw [Nat.add_sub_cancel]; rw [← hrest]; congr 1; omega) (by omega)
      · exact Inv.pure _

theorem lookaheadPure_e (cap : Nat) (stop : Bool) (la : LookAhead) :
    Inv (EInv D T L n) (EAb D T L) (lookaheadPure D cap stop la) := by
  unfold lookaheadPure
  refine Triple.bind Triple.get fun c0 => ?_
  refine assumeT (φ := c0.lines = L.drop n ∧ c0.lineNo = n) (fun c hc => by
    obtain ⟨rfl, h⟩ := hc; exact ⟨h.lines, h.lineNo⟩) fun hφ => ?_
  refine Triple.conseq (peekLoop_e cap stop la c0.lines (c0.lineNo + 1) ?_ (by omega))
    (fun _ h => h.2) (fun _ _ h => h) (fun _ _ h => h)
  rw [Nat.add_sub_cancel, hφ.1, hφ.2]

theorem good_ragged {e : PErr} (h : good e) : ErrClassM D L e := .inr (.inr ⟨h.1, h.2⟩)

theorem liftB_e (cap : Nat) (stop : Bool) (x : Except BErr Unit) (hx : ∀ e, x = .error (.ast e) → good e) :
    Inv (EInv D T L n) (EAb D T L) (liftB cap stop x) := by
  refine Triple.intro fun c r c' hc hr => ?_
  rw [run_liftB] at hr
  split at hr
  · cases hr; exact hc
  · cases hr; exact eab_crash _ _
  · rename_i e
    have hcls : ErrClass D T L c.unexpected e := .inr (.inr (good_ragged (hx e rfl)))
    split at hr
    · cases hr; exact eab_single hcls
    · have ha := addError_e (D := D) (T := T) (L := L) (n := n) cap e _ ⟨hc, hcls⟩
      cases r with
      | ok u => exact ha.1 _ _ hr
      | error x => exact ha.2 _ _ hr

theorem runProd_e (cap : Nat) (stop : Bool) (t : Token) (p : Prod) :
    Inv (EInv D T L n) (EAb D T L) (runProd cap stop t p) := by
  refine Triple.intro fun c r c' hc hr => ?_
  rw [run_runProd] at hr
  cases p with
  | start rr =>
    dsimp only at hr
    cases hr
    exact hc.same rfl rfl rfl rfl
  | end_ rr =>
    dsimp only at hr
    have hc1 : EInv D T L n { c with β := (c.β.endRule c.ids).2.1, ids := (c.β.endRule c.ids).2.2 } :=
      hc.same rfl rfl rfl rfl
    have ha := liftB_e (D := D) (T := T) (L := L) (n := n) cap stop (c.β.endRule c.ids).1
      (fun e he => endRule_good c.β c.ids e he) _ hc1
    cases r with
    | ok u => exact ha.1 _ _ hr
    | error x => exact ha.2 _ _ hr
  | build =>
    dsimp only at hr
    split at hr
    · cases hr
      exact hc.same rfl rfl rfl rfl
    · rename_i e he
      obtain ⟨w, rfl⟩ := build_error _ _ _ he
      rw [run_liftB] at hr
      cases hr
      exact eab_crash _ _

theorem runProds_e (cap : Nat) (stop : Bool) (t : Token) (ps : List Prod) :
    Inv (EInv D T L n) (EAb D T L) (runProds cap stop t ps) :=
  Inv.runProds ps fun p _ => runProd_e cap stop t p

/-! ### `match_token` -/

/-- the error of the error tail, classified -/
theorem tail_cls {row : StateRow} (hrow : row ∈ T.rows) {t : Token} (hs : SrcTok L t) (hc : ColOK t)
    (hb : ∀ l, t.line = some l → lineIsEmpty l = false) {un : List Nat} (hun : t.lineNo ∈ un) :
    ErrClass D T L un (unexpectedErr row t) := by
  rcases hs with ⟨hl, hn⟩ | ⟨l, hL, h1, hl⟩
  · rw [unexpectedErr_eof row t hl hc, hn]
    exact .inr (.inl ⟨row, hrow, by rw [← hn]; exact hun, rfl⟩)
  · rw [unexpectedErr_line row t l hl hc]
    exact .inl ⟨t.lineNo, l, row, hL, h1, hun, hrow, hb l hl, rfl⟩

theorem tail_e (stop : Bool) {row : StateRow} (hrow : row ∈ T.rows) (t : Token) (hs : SrcTok L t) (hc : ColOK t)
    (hb : ∀ l, t.line = some l → lineIsEmpty l = false) :
    Triple (EInv D T L n) (tryBranchesPure D T stop row [] t) (fun _ => EInv D T L n) (EAb D T L) := by
  unfold tryBranchesPure
  refine Triple.bind (Q := fun _ c => EInv D T L n c ∧ ErrClass D T L c.unexpected (unexpectedErr row t))
    (Triple.modify _ fun c hc' => ?_) fun _ => ?_
  · refine ⟨⟨hc'.le, hc'.lineNo, hc'.lines, fun e he => ?_⟩, ?_⟩
    · exact (hc'.errs e he).mono fun i hi => List.mem_append_left _ hi
    · exact tail_cls hrow hs hc hb (List.mem_append_right _ (List.mem_singleton.2 rfl))
  · split
    · exact Triple.throw _ fun c hc' => eab_single hc'.2
    · exact Triple.bind (addError_e _ _) fun _ => Triple.pure _ fun _ h => h

/-- a whitespace-only line in hand still has an unguarded `Empty` / `Other` test ahead -/
def BlankAhead (t : Token) (bs : List Branch) : Prop :=
  ∀ l, t.line = some l → lineIsEmpty l = true →
    ∃ b ∈ bs, b.guard = none ∧ (b.kind = .Empty ∨ b.kind = .Other)

theorem tryBranchesPure_e (stop : Bool) {row : StateRow} (hrow : row ∈ T.rows) (bs : List Branch)
    (hg : ∀ b ∈ bs, b.guard ≠ none → b.kind = .TagLine) (t : Token) (hs : SrcTok L t) (hc : ColOK t)
    (hb : BlankAhead t bs) :
    Triple (EInv D T L n) (tryBranchesPure D T stop row bs t) (fun _ => EInv D T L n) (EAb D T L) := by
  induction bs generalizing t with
  | nil =>
    refine tail_e stop hrow t hs hc fun l hl => ?_
    cases hE : lineIsEmpty l with
    | false => rfl
    | true =>
      obtain ⟨b, hb', -⟩ := hb l hl hE
      cases hb'
  | cons b bs ih =>
    have ih' := ih fun b hb => hg b (List.mem_cons_of_mem _ hb)
    unfold tryBranchesPure
    refine Triple.bind (matchP_e T.errorCap stop b.kind t (SrcTok.lineOf hs)) fun r => ?_
    obtain ⟨m, t'⟩ := r
    dsimp only
    refine assumeT (φ := SrcTok L t' ∧ ((m = false ∨ b.guard ≠ none) → ColOK t' ∧ BlankAhead t' bs))
      (fun c hc' => by
        obtain ⟨μ0, h1, h2⟩ := hc'.2
        subst h1
        refine ⟨srcTok_match hs, fun hm => ⟨colOK_match hc ?_, fun l hl hE => ?_⟩⟩
        · rcases hm with hm | hm
          · exact .inl (h2 hm)
          · exact .inr (hg b List.mem_cons_self hm)
        · have hl' : t.line = some l := (matchTok_tok D b.kind μ0 t).1.symm.trans hl
          obtain ⟨b', hb', hg', hk'⟩ := hb l hl' hE
          rcases List.mem_cons.1 hb' with rfl | hb'
          · rcases hm with hm | hm
            · exact absurd (blank_matches D _ μ0 t l hl' hE hk') (h2 hm)
            · exact absurd hg' hm
          · exact ⟨b', hb', hg', hk'⟩) fun hφ => ?_
    obtain ⟨hs', hnext⟩ := hφ
    refine Triple.conseq (P := EInv D T L n) ?_ (fun c hc' => hc'.1) (fun _ _ h => h) (fun _ _ h => h)
    cases m with
    | false =>
      simp only [Bool.false_eq_true, if_false]
      exact ih' t' hs' (hnext (.inl rfl)).1 (hnext (.inl rfl)).2
    | true =>
      simp only [if_true]
      have cont : ∀ ok : Bool, (ok = false → b.guard ≠ none) → Triple (EInv D T L n)
          (if ok = true then do
              GV.runProds T.errorCap stop t' b.prods
              pure b.target
            else tryBranchesPure D T stop row bs t') (fun _ => EInv D T L n) (EAb D T L) := by
        intro ok hok
        cases ok with
        | false =>
          simp only [Bool.false_eq_true, if_false]
          exact ih' t' hs' (hnext (.inr (hok rfl))).1 (hnext (.inr (hok rfl))).2
        | true =>
          simp only [if_true]
          exact Triple.bind (runProds_e T.errorCap stop t' b.prods) fun _ => Triple.pure _ fun _ h => h
      split
      · refine Triple.bind (Q := fun a c => a = true ∧ EInv D T L n c) (Triple.pure _ fun _ h => ⟨rfl, h⟩)
          fun ok => ?_
        cases ok with
        | false => exact Triple.of_false fun c hc' => by cases hc'.1
        | true => exact Triple.conseq (cont true (fun h => by cases h)) (fun c hc' => hc'.2) (fun _ _ h => h) (fun _ _ h => h)
      · rename_i i hgi
        have hne : b.guard ≠ none := by rw [hgi]; intro h; cases h
        split
        · exact Triple.bind (lookaheadPure_e _ _ _) fun ok => cont ok fun _ => hne
        · exact Triple.bind (Q := fun _ => EInv D T L n)
            (Triple.throw _ fun c _ => eab_crash _ _) fun ok => cont ok fun _ => hne

theorem matchTokenPure_e (hG : guardsOnTagLine T = true) (hB : blankTaken T = true) (stop : Bool) (s : Nat)
    (t : Token) (hs : SrcTok L t) (hc : ColOK t) :
    Triple (EInv D T L n) (matchTokenPure D T stop s t) (fun _ => EInv D T L n) (EAb D T L) := by
  unfold matchTokenPure
  split
  · rename_i row hrow
    have hmem : row ∈ T.rows := List.mem_of_find?_eq_some hrow
    refine tryBranchesPure_e stop hmem row.branches ?_ t hs hc ?_
    · intro b hb hne
      simp only [guardsOnTagLine, List.all_eq_true] at hG
      have := hG row hmem b hb
      cases hgd : b.guard with
      | none => exact absurd hgd hne
      | some i =>
        rw [hgd] at this
        simp only [Bool.and_eq_true, beq_iff_eq] at this
        exact this.1
    · intro l _ _
      simp only [blankTaken, List.all_eq_true, List.any_eq_true, Bool.and_eq_true, Bool.or_eq_true,
        beq_iff_eq, Option.isNone_iff_eq_none] at hB
      obtain ⟨b, hb, hk, hgd⟩ := hB row hmem
      exact ⟨b, hb, hgd, hk⟩
  · exact Triple.throw _ fun c _ => eab_crash _ _

end

/-! ### the main loop -/

theorem parseLinesPure_e {D : List Dialect} {L : List Str} {T : Table} (hG : guardsOnTagLine T = true)
    (hB : blankTaken T = true) (stop : Bool) :
    ∀ (fuel s : Nat) (c : Ctx) (n : Nat), n ≤ L.length → EInv D T L n c →
      ∀ r c', run (parseLinesPure D T stop fuel s) c = (r, c') →
        match r with
        | .ok _ => EInv D T L (L.length + 1) c'
        | .error e => EAb D T L e c' := by
  intro fuel
  induction fuel with
  | zero =>
    intro s c n _ hc r c' hr
    rw [parseLinesPure, prun_throw] at hr
    cases hr
    exact eab_fuel _
  | succ fuel ih =>
    intro s c n hn hc r c' hr
    have hln := hc.lineNo
    cases hl : c.lines with
    | nil =>
      rw [run_lines_nil D T stop fuel s c hl] at hr
      have hdrop : L.drop n = [] := by rw [← hc.lines]; exact hl
      have hnL : n = L.length := by
        have := List.drop_eq_nil_iff.1 hdrop
        omega
      have hc1 : EInv D T L (n + 1) { c with lineNo := c.lineNo + 1, reads := c.reads ++ [c.lineNo + 1] } := by
        refine ⟨by omega, ?_, ?_, hc.errs⟩
        · show c.lineNo + 1 = n + 1; rw [hln]
        · show c.lines = L.drop (n + 1)
          rw [hl]; exact (List.drop_eq_nil_iff.2 (by omega)).symm
      have hs : SrcTok L { line := none, lineNo := c.lineNo + 1 } := .inl ⟨rfl, by show c.lineNo + 1 = _; omega⟩
      have ha := matchTokenPure_e (D := D) (L := L) (n := n + 1) hG hB stop s _ hs rfl _ hc1
      cases r with
      | ok a => rw [← hnL]; exact ha.1 _ _ hr
      | error e => exact ha.2 _ _ hr
    | cons l ls =>
      rw [run_lines_cons D T stop fuel s c hl] at hr
      have hdrop : L.drop n = l :: ls := by rw [← hc.lines]; exact hl
      have hnL : n < L.length := by
        rcases Nat.lt_or_ge n L.length with h | h
        · exact h
        · rw [List.drop_eq_nil_iff.2 h] at hdrop; cases hdrop
      obtain ⟨hget, hrest⟩ := getElem?_of_drop_cons hdrop
      have hc1 : EInv D T L (n + 1)
          { c with lines := ls, lineNo := c.lineNo + 1, reads := c.reads ++ [c.lineNo + 1] } := by
        refine ⟨by omega, ?_, hrest.symm, hc.errs⟩
        show c.lineNo + 1 = n + 1; rw [hln]
      have hs : SrcTok L { line := some l, lineNo := c.lineNo + 1 } :=
        .inr ⟨l, by show L[c.lineNo + 1 - 1]? = some l; rw [hln]; simpa using hget, Nat.le_add_left _ _, rfl⟩
      have hcol : ColOK { line := some l, lineNo := c.lineNo + 1 } := .inl rfl
      have ha := matchTokenPure_e (D := D) (L := L) (n := n + 1) hG hB stop s _ hs hcol _ hc1
      rcases hr1 : run (matchTokenPure D T stop s { line := some l, lineNo := c.lineNo + 1 })
          { c with lines := ls, lineNo := c.lineNo + 1, reads := c.reads ++ [c.lineNo + 1] } with ⟨r1, c1⟩
      rw [hr1] at hr
      cases r1 with
      | ok s' =>
        dsimp only at hr
        exact ih s' c1 (n + 1) hnL (ha.1 _ _ hr1) r c' hr
      | error e =>
        dsimp only at hr
        cases hr
        exact ha.2 _ _ hr1

theorem parseBodyPure_e {D : List Dialect} {L : List Str} {T : Table} (hG : guardsOnTagLine T = true)
    (hB : blankTaken T = true) (stop : Bool) (k : Nat) :
    Triple (EInv D T L 0) (parseBodyPure D T stop k) (fun _ => EInv D T L (L.length + 1)) (EAb D T L) := by
  unfold parseBodyPure
  refine Triple.bind (Q := fun _ => EInv D T L 0)
    (Triple.modify _ fun c hc => hc.same rfl rfl rfl rfl) fun _ => ?_
  refine Triple.bind (Q := fun _ => EInv D T L (L.length + 1))
    (Triple.intro fun c r c' hc hr => by
      have := parseLinesPure_e hG hB stop _ _ c 0 (Nat.zero_le _) hc r c' hr
      cases r <;> exact this) fun _ => ?_
  refine Triple.bind (runProd_e _ _ _ _) fun _ => ?_
  refine Triple.bind Triple.get fun c0 => ?_
  dsimp only
  split
  · refine Triple.bind (Q := fun _ _ => False) (Triple.throw _ fun c hc => ?_) fun _ _ hf => hf.elim
    obtain ⟨rfl, hc⟩ := hc
    exact ⟨fun e he => (by cases he), fun es he => by cases he; exact hc.errs⟩
  · split
    · exact Triple.pure _ fun c hc => hc.2
    · exact Triple.throw _ fun c _ => eab_crash _ _
    · exact Triple.throw _ fun c _ => eab_crash _ _
    · rename_i e he
      exact absurd he (result_not_ast _ e)

/-! ### the whole parse -/

/-- queue-free parse: every error of a rejected outcome is classified -/
theorem errors_pure {D : List Dialect} {T : Table} (hG : guardsOnTagLine T = true) (hB : blankTaken T = true)
    (stop : Bool) (μ : MState) (ids : Nat) (src : Str) (es : List PErr) (comp : Bool)
    (h : (parseWithPure D T stop μ ids src).1 = .rejected es comp) :
    ∀ e ∈ es, ErrClass D T (splitLines src) (parseWithPure D T stop μ ids src).2.unexpected e := by
  have h0 : EInv D T (splitLines src) 0 (ctx0 D μ ids src) :=
    ⟨Nat.zero_le _, rfl, rfl, fun e he => by cases he⟩
  have hb := parseBodyPure_e (L := splitLines src) hG hB stop (splitLines src).length (ctx0 D μ ids src) h0
  rw [parseWithPure_eq] at h ⊢
  rcases hr : run (parseBodyPure D T stop (splitLines src).length) (ctx0 D μ ids src) with ⟨r, c⟩
  rw [hr] at h
  cases r with
  | ok d => cases h
  | error a =>
    have ha := hb.2 _ _ hr
    cases a with
    | crash w => cases h
    | fuel => cases h
    | single e =>
      cases h
      intro e' he'
      rw [List.mem_singleton] at he'
      subst he'
      exact ha.1 _ rfl
    | composite es' =>
      cases h
      exact ha.2 _ rfl

end ErrorsDoc
end GV
