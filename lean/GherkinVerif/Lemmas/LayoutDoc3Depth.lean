/-
  Lemmas/LayoutDoc3Depth.lean — the builder always has an open node while the main loop of the
  queue-free parse stands in a state of the table: the number of open nodes is the depth the
  table fact `Spec.depthsOk` assigns to the state (Spec/StackDepth.lean).
-/
import GherkinVerif.Lemmas.GlueBase
import GherkinVerif.Spec.PrefixRun
import GherkinVerif.Spec.StackDepth
namespace GV
namespace Layout3
open Lemmas Spec

/-- the computation leaves the builder state alone -/
def KeepsB {α} (m : PM α) : Prop := ∀ c, (run m c).2.β = c.β

theorem KeepsB.pure {α} (a : α) : KeepsB (pure a : PM α) := fun _ => rfl
theorem KeepsB.throw {α} (e : Abort) : KeepsB (throw e : PM α) := fun _ => rfl
theorem KeepsB.get : KeepsB (get : PM Ctx) := fun _ => rfl
theorem KeepsB.modify {f : Ctx → Ctx} (h : ∀ c, (f c).β = c.β) : KeepsB (modify f : PM PUnit) := fun c => h c

theorem KeepsB.bind {α β} {m : PM α} {f : α → PM β} (h1 : KeepsB m) (h2 : ∀ a, KeepsB (f a)) : KeepsB (m >>= f) := by
  intro c
  rw [prun_bind]
  have e1 := h1 c
  rcases hr : run m c with ⟨r, c'⟩
  rw [hr] at e1
  cases r with
  | error e => exact e1
  | ok a => exact (h2 a c').trans e1

theorem keepsB_addError (cap : Nat) (e : PErr) : KeepsB (addError cap e) := by
  intro c
  rw [run_addError]
  split
  · rfl
  · split <;> rfl

theorem keepsB_matchP (D : List Dialect) (cap : Nat) (stop : Bool) (k : Kind) (t : Token) :
    KeepsB (matchP D cap stop k t) := by
  intro c
  rw [run_matchP]
  simp only []
  split
  · rfl
  · rfl
  · split
    · rfl
    · rename_i e _ _
      have := keepsB_addError cap e
        { c with μ := (matchTok D k c.μ t).1.μ, calls := c.calls + (if (matchTok D k c.μ t).2 then 1 else 0) }
      rcases hr : run (addError cap e)
        { c with μ := (matchTok D k c.μ t).1.μ, calls := c.calls + (if (matchTok D k c.μ t).2 then 1 else 0) }
        with ⟨r, c2⟩
      rw [hr] at this
      cases r <;> exact this

theorem keepsB_matchAny (D : List Dialect) (cap : Nat) (stop : Bool) (ks : List Kind) (t : Token) :
    KeepsB (matchAny D cap stop ks t) := by
  induction ks generalizing t with
  | nil => exact KeepsB.pure _
  | cons k ks ih =>
    unfold matchAny
    refine KeepsB.bind (keepsB_matchP D cap stop k t) fun r => ?_
    obtain ⟨m, t'⟩ := r
    dsimp only
    split
    · exact KeepsB.pure _
    · exact ih _

theorem keepsB_peekLoop (D : List Dialect) (cap : Nat) (stop : Bool) (la : LookAhead) (ls : List Str) (n : Nat) :
    KeepsB (peekLoop D cap stop la ls n) := by
  induction ls generalizing n with
  | nil =>
    unfold peekLoop
    refine KeepsB.bind (keepsB_matchAny _ _ _ _ _) fun r => ?_
    obtain ⟨m, t1⟩ := r
    dsimp only
    split
    · exact KeepsB.pure _
    · exact KeepsB.bind (keepsB_matchAny _ _ _ _ _) fun _ => KeepsB.pure _
  | cons l ls ih =>
    unfold peekLoop
    refine KeepsB.bind (keepsB_matchAny _ _ _ _ _) fun r => ?_
    obtain ⟨m, t1⟩ := r
    dsimp only
    split
    · exact KeepsB.pure _
    · refine KeepsB.bind (keepsB_matchAny _ _ _ _ _) fun r => ?_
      obtain ⟨s, t2⟩ := r
      dsimp only
      split
      · exact ih _
      · exact KeepsB.pure _

theorem keepsB_lookaheadPure (D : List Dialect) (cap : Nat) (stop : Bool) (la : LookAhead) :
    KeepsB (lookaheadPure D cap stop la) := by
  unfold lookaheadPure
  exact KeepsB.bind KeepsB.get fun _ => keepsB_peekLoop _ _ _ _ _ _

theorem keepsB_liftB (cap : Nat) (stop : Bool) (r : Except BErr Unit) : KeepsB (liftB cap stop r) := by
  intro c
  rw [run_liftB]
  split
  · rfl
  · rfl
  · split
    · rfl
    · exact keepsB_addError cap _ c

/-- the number of open nodes after a computation that returns -/
def DepthTo {α} (m : PM α) (g : α → Nat → Nat) : Prop :=
  ∀ c a c', run m c = (.ok a, c') → c'.β.stack.length = g a c.β.stack.length

theorem KeepsB.depthTo {α} {m : PM α} (h : KeepsB m) : DepthTo m fun _ d => d := by
  intro c a c' hr
  have := h c
  rw [hr] at this
  exact congrArg (fun β => β.stack.length) this

theorem DepthTo.bind {α β} {m : PM α} {f : α → PM β} {g1 : α → Nat → Nat} {g2 : β → Nat → Nat}
    {g : β → Nat → Nat} (h1 : DepthTo m g1) (h2 : ∀ a, DepthTo (f a) g2)
    (hg : ∀ a b d, g2 b (g1 a d) = g b d) : DepthTo (m >>= f) g := by
  intro c b c' hr
  rw [prun_bind] at hr
  rcases hm : run m c with ⟨r, c1⟩
  rw [hm] at hr
  cases r with
  | error e => cases hr
  | ok a =>
    simp only at hr
    rw [h2 a c1 b c' hr, h1 c a c1 hm, hg]

theorem endRule_depth (β : BState) (n : Nat) :
    (β.endRule n).2.1.stack.length = β.stack.length - 1 ∨ ∃ w, (β.endRule n).1 = .error (.crash w) := by
  unfold BState.endRule
  cases hs : β.stack with
  | nil => exact .inr ⟨_, rfl⟩
  | cons node rest =>
    simp only []
    rcases (transformNode β.comments node).run.run n with ⟨r, n'⟩
    cases r with
    | error e => exact .inl (by simp)
    | ok v =>
      simp only []
      cases rest with
      | nil => exact .inr ⟨_, rfl⟩
      | cons top rest' => exact .inl (by simp [addToTop])

theorem build_depth (β β' : BState) (t : Token) (h : β.build t = .ok β') : β'.stack.length = β.stack.length := by
  unfold BState.build at h
  split at h
  · split at h
    · cases h; rfl
    · cases h
  · split at h
    · rename_i st hst
      cases h
      unfold addToTop at hst
      split at hst
      · rename_i hstack
        cases hst; simp [hstack]
      · cases hst
    · cases h
  · cases h

theorem depthTo_runProd (cap : Nat) (stop : Bool) (t : Token) (p : Prod) :
    DepthTo (runProd cap stop t p) fun _ d => applyProd p d := by
  intro c a c' hr
  rw [run_runProd] at hr
  cases p with
  | start r => cases hr; simp [BState.startRule, applyProd]
  | end_ r =>
    simp only [] at hr
    have hk := keepsB_liftB cap stop (c.β.endRule c.ids).1
      { c with β := (c.β.endRule c.ids).2.1, ids := (c.β.endRule c.ids).2.2 }
    rw [hr] at hk
    simp only at hk
    rcases endRule_depth c.β c.ids with h | ⟨w, h⟩
    · rw [hk, h]; rfl
    · rw [h, run_liftB] at hr
      cases hr
  | build =>
    simp only [] at hr
    cases hb : c.β.build t with
    | ok β' =>
      rw [hb] at hr
      cases hr
      exact build_depth _ _ _ hb
    | error e =>
      rw [hb] at hr
      simp only [] at hr
      have hk := keepsB_liftB cap stop (.error e) c
      rw [hr] at hk
      simp only at hk
      rw [hk]; rfl

theorem depthTo_runProds (cap : Nat) (stop : Bool) (t : Token) (ps : List Prod) :
    DepthTo (runProds cap stop t ps) fun _ d => applyProds ps d := by
  induction ps with
  | nil => exact (KeepsB.pure _).depthTo
  | cons p ps ih =>
    unfold runProds
    exact DepthTo.bind (depthTo_runProd cap stop t p) (fun _ => ih) fun _ _ _ => rfl

/-- `match_token` in a row: the new state and depth are those of one of the branches, or the
    error tail's -/
theorem depth_tryBranchesPure (D : List Dialect) (T : Table) (stop : Bool) (row : StateRow) (bs : List Branch) (t : Token) :
    ∀ c s' c', run (tryBranchesPure D T stop row bs t) c = (.ok s', c') →
      (∃ b ∈ bs, s' = b.target ∧ c'.β.stack.length = applyProds b.prods c.β.stack.length) ∨
      (s' = row.errTarget ∧ c'.β.stack.length = c.β.stack.length) := by
  induction bs generalizing t with
  | nil =>
    intro c s' c' hr
    unfold tryBranchesPure at hr
    rw [prun_bind, run_modify] at hr
    simp only [] at hr
    cases stop with
    | true => simp only [↓reduceIte, prun_throw] at hr; cases hr
    | false =>
      simp only [Bool.false_eq_true, ↓reduceIte] at hr
      rw [prun_bind] at hr
      have hk := keepsB_addError T.errorCap (unexpectedErr row t) { c with unexpected := c.unexpected ++ [t.lineNo] }
      rcases ha : run (addError T.errorCap (unexpectedErr row t)) { c with unexpected := c.unexpected ++ [t.lineNo] }
        with ⟨r, c1⟩
      rw [ha] at hr hk
      cases r with
      | error e => cases hr
      | ok u =>
        simp only [prun_pure] at hr
        cases hr
        exact .inr ⟨rfl, congrArg (fun β => β.stack.length) hk⟩
  | cons b bs ih =>
    intro c s' c' hr
    unfold tryBranchesPure at hr
    rw [prun_bind] at hr
    have hk := keepsB_matchP D T.errorCap stop b.kind t c
    rcases hm : run (matchP D T.errorCap stop b.kind t) c with ⟨r, c1⟩
    rw [hm] at hr hk
    cases r with
    | error e => cases hr
    | ok mt =>
      obtain ⟨m, t'⟩ := mt
      simp only at hr hk
      have hd1 : c1.β.stack.length = c.β.stack.length := congrArg (fun β => β.stack.length) hk
      have hrec : ∀ c2, c2.β.stack.length = c.β.stack.length →
          run (tryBranchesPure D T stop row bs t') c2 = (.ok s', c') →
          (∃ b' ∈ b :: bs, s' = b'.target ∧ c'.β.stack.length = applyProds b'.prods c.β.stack.length) ∨
          (s' = row.errTarget ∧ c'.β.stack.length = c.β.stack.length) := by
        intro c2 hc2 hr2
        rcases ih t' c2 s' c' hr2 with ⟨b', hb', h1, h2⟩ | ⟨h1, h2⟩
        · exact .inl ⟨b', List.mem_cons_of_mem _ hb', h1, by rw [h2, hc2]⟩
        · exact .inr ⟨h1, by rw [h2, hc2]⟩
      have htake : ∀ c2, c2.β.stack.length = c.β.stack.length →
          run (do runProds T.errorCap stop t' b.prods; Pure.pure b.target : PM Nat) c2 = (.ok s', c') →
          (∃ b' ∈ b :: bs, s' = b'.target ∧ c'.β.stack.length = applyProds b'.prods c.β.stack.length) ∨
          (s' = row.errTarget ∧ c'.β.stack.length = c.β.stack.length) := by
        intro c2 hc2 hr2
        rw [prun_bind] at hr2
        rcases hp : run (runProds T.errorCap stop t' b.prods) c2 with ⟨r, c3⟩
        rw [hp] at hr2
        cases r with
        | error e => cases hr2
        | ok u =>
          simp only [prun_pure] at hr2
          cases hr2
          exact .inl ⟨b, List.mem_cons_self, rfl, by rw [depthTo_runProds _ _ _ _ c2 u _ hp, hc2]⟩
      cases m with
      | false => exact hrec c1 hd1 (by simpa using hr)
      | true =>
        simp only [↓reduceIte] at hr
        cases hg : b.guard with
        | none =>
          rw [hg] at hr
          simp only [] at hr
          rw [prun_bind, prun_pure] at hr
          simp only [↓reduceIte] at hr
          exact htake c1 hd1 hr
        | some i =>
          rw [hg] at hr
          simp only [] at hr
          cases hla : T.lookaheads[i]? with
          | none =>
            rw [hla] at hr
            simp only [] at hr
            rw [prun_bind, prun_throw] at hr
            cases hr
          | some la =>
            rw [hla] at hr
            simp only [] at hr
            rw [prun_bind] at hr
            have hk2 := keepsB_lookaheadPure D T.errorCap stop la c1
            rcases hl : run (lookaheadPure D T.errorCap stop la) c1 with ⟨r, c2⟩
            rw [hl] at hr hk2
            cases r with
            | error e => cases hr
            | ok ok =>
              simp only at hr hk2
              have hd2 : c2.β.stack.length = c.β.stack.length := by
                rw [← hd1]; exact congrArg (fun β => β.stack.length) hk2
              cases ok with
              | true => exact htake c2 hd2 (by simpa using hr)
              | false => exact hrec c2 hd2 (by simpa using hr)

theorem depthsOk_row {T : Table} {ds : List (Nat × Nat)} (h : depthsOk T ds = true) {s : Nat} {row : StateRow}
    (hrow : T.row? s = some row) :
    1 ≤ depthAt ds s ∧ depthAt ds row.errTarget = depthAt ds s ∧
    ∀ b ∈ row.branches, depthAt ds b.target = applyProds b.prods (depthAt ds s) := by
  have hmem : row ∈ T.rows := List.mem_of_find?_eq_some hrow
  have hid : row.id = s := by
    have := List.find?_some hrow
    simpa using this
  unfold depthsOk at h
  simp only [Bool.and_eq_true, beq_iff_eq, List.all_eq_true, decide_eq_true_eq] at h
  obtain ⟨⟨h1, h2⟩, h3⟩ := h.2 row hmem
  rw [hid] at h1 h2 h3
  exact ⟨h1, h2, h3⟩

theorem depth_matchTokenPure (D : List Dialect) {T : Table} {ds : List (Nat × Nat)} (h : depthsOk T ds = true)
    (stop : Bool) (s : Nat) (t : Token) (c : Ctx) (s' : Nat) (c' : Ctx)
    (hd : c.β.stack.length = depthAt ds s) (hr : run (matchTokenPure D T stop s t) c = (.ok s', c')) :
    c'.β.stack.length = depthAt ds s' := by
  unfold matchTokenPure at hr
  cases hrow : T.row? s with
  | none => rw [hrow] at hr; cases hr
  | some row =>
    rw [hrow] at hr
    simp only [] at hr
    obtain ⟨-, h2, h3⟩ := depthsOk_row h hrow
    rcases depth_tryBranchesPure D T stop row _ t c s' c' hr with ⟨b, hb, e1, e2⟩ | ⟨e1, e2⟩
    · rw [e2, e1, h3 b hb, hd]
    · rw [e2, e1, h2, hd]

theorem run_prefix_cons {D : List Dialect} (T : Table) (stop : Bool) (j s : Nat) (c : Ctx) {l : Str} {ls : List Str} (hl : c.lines = l :: ls) :
    run (parsePrefixPure D T stop (j + 1) s) c =
      match run (matchTokenPure D T stop s { line := some l, lineNo := c.lineNo + 1 })
          { c with lines := ls, lineNo := c.lineNo + 1, reads := c.reads ++ [c.lineNo + 1] } with
      | (.ok s', c') => run (parsePrefixPure D T stop j s') c'
      | (.error e, c') => (.error e, c') := by
  conv => lhs; unfold parsePrefixPure
  simp only [prun_bind, run_get, hl, run_set, prun_pure, run_modify]
  have he : ({ line := some l, lineNo := c.lineNo + 1 } : Token).eof = false := rfl
  simp only [he, Bool.false_eq_true, if_false]
  rcases run (matchTokenPure D T stop s { line := some l, lineNo := c.lineNo + 1 }) _ with ⟨r, c'⟩
  cases r <;> rfl

theorem run_prefix_nil {D : List Dialect} (T : Table) (stop : Bool) (j s : Nat) (c : Ctx) (hl : c.lines = []) :
    run (parsePrefixPure D T stop (j + 1) s) c =
      match run (matchTokenPure D T stop s { line := none, lineNo := c.lineNo + 1 })
          { c with lineNo := c.lineNo + 1, reads := c.reads ++ [c.lineNo + 1] } with
      | (.ok s', c') => (.ok (s', true), c')
      | (.error e, c') => (.error e, c') := by
  conv => lhs; unfold parsePrefixPure
  simp only [prun_bind, run_get, hl, run_set, prun_pure, run_modify]
  rcases run (matchTokenPure D T stop s { line := none, lineNo := c.lineNo + 1 }) _ with ⟨r, c'⟩
  cases r <;> rfl

theorem depth_prefix (D : List Dialect) {T : Table} {ds : List (Nat × Nat)} (h : depthsOk T ds = true)
    (stop : Bool) : ∀ (j s : Nat) (c : Ctx) (r : Nat × Bool) (c' : Ctx), c.β.stack.length = depthAt ds s →
      run (parsePrefixPure D T stop j s) c = (.ok r, c') → c'.β.stack.length = depthAt ds r.1 := by
  intro j
  induction j with
  | zero =>
    intro s c r c' hd hr
    cases hr
    exact hd
  | succ j ih =>
    intro s c r c' hd hr
    cases hl : c.lines with
    | nil =>
      rw [run_prefix_nil T stop j s c hl] at hr
      rcases hm : run (matchTokenPure D T stop s { line := none, lineNo := c.lineNo + 1 })
        { c with lineNo := c.lineNo + 1, reads := c.reads ++ [c.lineNo + 1] } with ⟨x, c1⟩
      rw [hm] at hr
      cases x with
      | error e => cases hr
      | ok s1 =>
        cases hr
        exact depth_matchTokenPure D h stop s _ { c with lineNo := c.lineNo + 1, reads := c.reads ++ [c.lineNo + 1] } s1 _ hd hm
    | cons l ls =>
      rw [run_prefix_cons T stop j s c hl] at hr
      rcases hm : run (matchTokenPure D T stop s { line := some l, lineNo := c.lineNo + 1 })
        { c with lines := ls, lineNo := c.lineNo + 1, reads := c.reads ++ [c.lineNo + 1] } with ⟨x, c1⟩
      rw [hm] at hr
      cases x with
      | error e => cases hr
      | ok s1 =>
        simp only at hr
        exact ih s1 c1 r c' (depth_matchTokenPure D h stop s _
          { c with lines := ls, lineNo := c.lineNo + 1, reads := c.reads ++ [c.lineNo + 1] } s1 _ hd hm) hr

/-- **The builder has an open node** whenever the main loop of the queue-free parse stands in a
    state of the table, after any number of lines. -/
theorem stack_ne_nil_of_depths {D : List Dialect} {T : Table} {ds : List (Nat × Nat)} (h : depthsOk T ds = true)
    (stop : Bool) (μ : MState) (ids : Nat) (src : Str) (k s : Nat) (c : Ctx)
    (hr : runAfter D T stop μ ids src k = some (s, c)) (hs : (T.row? s).isSome = true) : c.β.stack ≠ [] := by
  unfold runAfter at hr
  rcases hp : (parsePrefixPure D T stop k 0).run.run (startCtx D T μ ids src) with ⟨x, c'⟩
  rw [hp] at hr
  cases x with
  | error e => cases hr
  | ok r =>
    simp only [Option.some.injEq, Prod.mk.injEq] at hr
    obtain ⟨rfl, rfl⟩ := hr
    have h0 : depthAt ds 0 = 2 := by
      unfold depthsOk at h
      simp only [Bool.and_eq_true, beq_iff_eq] at h
      exact h.1
    have hd := depth_prefix D h stop k 0 (startCtx D T μ ids src) r c' (by rw [h0]; rfl) hp
    cases hrow : T.row? r.1 with
    | none => rw [hrow] at hs; cases hs
    | some row =>
      have := (depthsOk_row h hrow).1
      intro hnil
      rw [hnil] at hd
      simp at hd
      omega

end Layout3
end GV
