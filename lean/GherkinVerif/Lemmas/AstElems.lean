/-
  Lemmas/AstElems.lean — the elements of the AST WITH their fields (keyword, name, step text,
  keyword type, tag names, cells, doc-string delimiter and media type), read off in source order,
  are the elements carried by the lines of a grammar-shaped tree in line order (property C03,
  `elems_once_in_order`).  A refinement of Lemmas/AstLocs.lean (`leaves_once_in_order`), with the
  same structure: `valElems` extends `Spec.srcElems` to all intermediate values (a token:
  `Spec.leafElems`; a raw node: the elements of its items in order); for every rule type, if the
  items of a node have the shape `Spec.nodeShape` prescribes, `transformNode`'s result `v`
  satisfies `valElems v = elements of the items in order` (`NodeElems`; for a doc string: the first
  of them); the rest is an induction over the tree.  The generic splitting of a reading of an
  item list by key (`itemsMap_by_keys`, `mapAt_single`, `flatMap_typed`) and the typing of items
  (`TypedItemL`, `KeyLine`) are those of Lemmas/AstLocs.lean.
-/
import GherkinVerif.Lemmas.AstLocs
import GherkinVerif.Spec.AstElems
namespace GV
namespace Lemmas
open Spec

/-! ### elements of intermediate values -/

mutual
/-- the elements inside a value of the builder, in source order -/
def valElems : Val → List Elem
  | .tok t => leafElems t
  | .step s => stepElems s
  | .docString d => [docStringElem d]
  | .dataTable d => rowElems d.rows
  | .background b => backgroundElems b
  | .scenario s => scenarioElems s
  | .examples e => examplesElems e
  | .rows rs => rowElems rs
  | .rule r => ruleElems r
  | .feature f => featureElems f
  | .doc d => srcElems d
  | .raw _ items => itemsElems items
  | .none => []
  | .descr _ => []
def itemsElems : List (Key × Val) → List Elem
  | [] => []
  | (_, v) :: rest => valElems v ++ itemsElems rest
end

theorem itemsElems_eq (is : List (Key × Val)) : itemsElems is = itemsMap valElems is := by
  induction is with
  | nil => rw [itemsElems]; rfl
  | cons kv l ih => obtain ⟨k, v⟩ := kv; rw [itemsElems, ih, itemsMap_cons]
theorem itemsElems_nil : itemsElems [] = [] := by rw [itemsElems]
theorem itemsElems_cons (kv : Key × Val) (l : List (Key × Val)) :
    itemsElems (kv :: l) = valElems kv.2 ++ itemsElems l := by
  obtain ⟨k, v⟩ := kv; rw [itemsElems]
theorem itemsElems_append (a b : List (Key × Val)) : itemsElems (a ++ b) = itemsElems a ++ itemsElems b := by
  induction a with
  | nil => simp [itemsElems_nil]
  | cons kv a ih => rw [List.cons_append, itemsElems_cons, itemsElems_cons, ih, List.append_assoc]
theorem itemsElems_singleton (k : Key) (v : Val) : itemsElems [(k, v)] = valElems v := by
  rw [itemsElems_cons, itemsElems_nil, List.append_nil]
theorem valElems_raw (rt : RuleType) (is : List (Key × Val)) : valElems (.raw rt is) = itemsElems is := by
  rw [valElems]

/-- the elements under one key -/
abbrev elemsAt (k : Key) (is : List (Key × Val)) : List Elem := mapAt valElems k is

/-! ### what a line carries -/

/-- the tags on these tag lines -/
def tagLineElems (toks : List Token) : List Elem :=
  toks.flatMap fun t => t.items.map fun it => Elem.tag (getLocation t (some it.1)) it.2

/-- the rows of these table-row lines -/
def rowLineElems (toks : List Token) : List Elem := toks.map fun t => Elem.row t.loc (itemPairs t)

theorem leafElems_tagLine (t : Token) (h : t.mtype = some .TagLine) :
    leafElems t = t.items.map fun it => Elem.tag (getLocation t (some it.1)) it.2 := by
  simp only [leafElems, h]

theorem leafElems_nonElem (t : Token) (k : Kind) (h : t.mtype = some k) (hk : k ∉ elemKinds) :
    leafElems t = [] := by
  unfold leafElems
  rw [h]
  cases k <;> first | exact absurd (by decide) hk | rfl

theorem leafElems_none (t : Token) (h : t.mtype = none) : leafElems t = [] := by
  unfold leafElems; rw [h]

/-- a keyword line carrying its keyword and text -/
theorem leafElems_title (t : Token) (k : Kind) (kw nm : Str)
    (hk : k ∈ [Kind.FeatureLine, .RuleLine, .BackgroundLine, .ScenarioLine, .ExamplesLine])
    (h : t.mtype = some k) (hkw : t.keyword = some kw) (hnm : t.text = some nm) :
    leafElems t = [.keywordLine k t.loc kw nm] := by
  unfold leafElems
  rw [h, hkw, hnm]
  cases k <;> first | exact absurd hk (by decide) | rfl

theorem leafElems_step (t : Token) (kw tx : Str) (kt : KType) (h : t.mtype = some .StepLine)
    (hkw : t.keyword = some kw) (hkt : t.ktype = some kt) (htx : t.text = some tx) :
    leafElems t = [.step t.loc kw kt tx] := by
  unfold leafElems
  rw [h, hkw, hkt, htx]
  rfl

theorem leafElems_row (t : Token) (h : t.mtype = some .TableRow) : leafElems t = [.row t.loc (itemPairs t)] := by
  unfold leafElems; rw [h]

theorem leafElems_docSep (t : Token) (dl st : Str) (h : t.mtype = some .DocStringSeparator)
    (hkw : t.keyword = some dl) (hst : t.text = some st) :
    leafElems t = [.docString t.loc dl (mediaOf st)] := by
  unfold leafElems; rw [h, hkw, hst]; rfl

/-- the tags numbered by `getTags` carry the location and name of the items of their tag lines -/
theorem tagElems_numberTags (toks : List Token) (n : Nat) : tagElems (numberTags toks n) = tagLineElems toks := by
  have := congrArg (List.map fun (p : Loc × Str) => Elem.tag p.1 p.2) (numberTags_content toks n)
  simp only [List.map_map] at this
  rw [tagElems, tagLineElems]
  refine Eq.trans ?_ (this.trans ?_)
  · rfl
  · simp [List.map_flatMap, Function.comp_def]

theorem cellPairs_getCells (t : Token) : cellPairs (getCells t) = itemPairs t := by
  simp [cellPairs, getCells, itemPairs, List.map_map, Function.comp_def]

/-- the rows numbered by `getTableRows` carry the location and the cells of their row lines -/
theorem rowElems_numberRows (toks : List Token) (n : Nat) : rowElems (numberRows toks n) = rowLineElems toks := by
  have := congrArg (List.map fun (p : Loc × List Cell) => Elem.row p.1 (cellPairs p.2)) (numberRows_content toks n)
  simp only [List.map_map] at this
  rw [rowElems, rowLineElems]
  refine Eq.trans ?_ (this.trans ?_)
  · rfl
  · apply List.map_congr_left
    intro t _
    simp only [Function.comp_def, cellPairs_getCells]
    rfl

/-! ### typed items, for elements -/

/-- the tag elements of a node: those of the tag lines of its (first) `Tags` item -/
def tagElemsOf (is : List (Key × Val)) : List Elem :=
  match tagTokens is with
  | some toks => tagLineElems toks
  | none => []

/-- what the parent's transformation needs to know about the elements in a raw node (the typing
    itself is `LTyped`) -/
def ETyped : RuleType → Val → Prop
  | .Tags, v => ∀ rt is, v = .raw rt is → itemsElems is = tagLineElems (getTokens is .TagLine)
  | .Scenario, v => ∀ rt sc, v = .raw rt sc →
      itemsElems sc = (getTokens sc .ScenarioLine).flatMap leafElems ++
        ((getSteps sc).flatMap stepElems ++ (getExamples sc).flatMap examplesElems)
  | .Examples, v => ∀ rt ex, v = .raw rt ex →
      itemsElems ex = (getTokens ex .ExamplesLine).flatMap leafElems ++ rowElems (tableOf ex)
  | .RuleHeader, v => ∀ rt hd, v = .raw rt hd →
      itemsElems hd = tagElemsOf hd ++ (getTokens hd .RuleLine).flatMap leafElems
  | .FeatureHeader, v => ∀ rt hd, v = .raw rt hd →
      itemsElems hd = tagElemsOf hd ++ (getTokens hd .FeatureLine).flatMap leafElems
  | _, _ => True

def TypedItemE (kv : Key × Val) : Prop :=
  match kv.1 with
  | .tok _ => True
  | .rule r => ETyped r kv.2

theorem etyped_of_mem_getItems {is : List (Key × Val)} (hte : ∀ kv ∈ is, TypedItemE kv) {r : RuleType} {v : Val}
    (h : v ∈ getItems is (.rule r)) : ETyped r v :=
  hte (.rule r, v) (mem_getItems is _ v h)

/-- the elements under a token key are those of the lines -/
theorem elemsAt_tok {is : List (Key × Val)} (hty : ∀ kv ∈ is, TypedItemL kv) (k : Kind) :
    elemsAt (.tok k) is = (getTokens is k).flatMap leafElems := by
  have hall : ∀ v ∈ getItems is (.tok k), ∃ t, v = .tok t ∧ t.mtype = some k := fun v hv =>
    hty (.tok k, v) (mem_getItems is _ v hv)
  unfold elemsAt mapAt getTokens
  generalize getItems is (.tok k) = vs at hall
  induction vs with
  | nil => rfl
  | cons v vs ih =>
    obtain ⟨t, rfl, hm⟩ := hall v List.mem_cons_self
    have h3 := ih fun v hv => hall v (List.mem_cons_of_mem _ hv)
    simp only [List.flatMap_cons, List.filterMap_cons]; rw [h3, valElems]

/-- the keyword line of a node: `getSingle` returns it and it is the only token under its key -/
theorem keyLine_tokens {is : List (Key × Val)} {k : Kind} (hk : KeyLine k is) {line : Token}
    (hs : getSingle is (.tok k) = .tok line) : getTokens is k = [line] ∧ line.mtype = some k := by
  rw [getSingle_eq_head, hk.2.2] at hs
  cases hg : getTokens is k with
  | nil => rw [hg] at hs; cases hs
  | cons t ts =>
    rw [hg] at hs
    simp only [List.map_cons, List.headD_cons, Val.tok.injEq] at hs
    subst hs
    have hl := hk.2.1
    rw [hg] at hl
    have hts : ts = [] := List.eq_nil_of_length_eq_zero (by simp only [List.length_cons] at hl; omega)
    subst hts
    exact ⟨rfl, hk.1 t (by rw [hg]; exact List.mem_cons_self)⟩

/-! ### helpers for the per-rule lemmas -/

/-- items under keys outside `ks` carry no element, when `ks` lists all element-carrying lines
    and all nodes but descriptions that may occur -/
theorem others_nil_elems {R : RuleType} {is : List (Key × Val)} (hok : ItemsOK R is)
    (hty : ∀ kv ∈ is, TypedItemL kv) (ks : List Key)
    (hlines : ∀ k ∈ (nodeShape R).lines, Key.tok k ∈ ks)
    (hall : ∀ r' ∈ (nodeShape R).allowed, Key.rule r' ∈ ks ∨ r' = .Description) :
    ∀ kv ∈ is, kv.1 ∉ ks → valElems kv.2 = [] := by
  intro kv hkv hne
  have ht := hty kv hkv
  obtain ⟨key, v⟩ := kv
  cases key with
  | tok k =>
    obtain ⟨t, hv, hm⟩ := ht
    simp only at hv; subst hv
    rw [valElems]
    by_cases hel : k ∈ elemKinds
    · exact absurd (hlines k (hok.lines _ hkv k rfl hel)) hne
    · exact leafElems_nonElem t k hm hel
  | rule r' =>
    rcases hall r' (hok.allowed _ hkv r' rfl) with h | rfl
    · exact absurd h hne
    · obtain ⟨s, hv⟩ := ht
      simp only at hv; subst hv; rw [valElems]

/-- the split of the item elements by the keys `ks` -/
theorem itemsElems_by_keys {R : RuleType} {is : List (Key × Val)} (hok : ItemsOK R is)
    (hty : ∀ kv ∈ is, TypedItemL kv) (ks : List Key) (hnd : ks.Nodup)
    (hlines : ∀ k ∈ (nodeShape R).lines, Key.tok k ∈ ks)
    (hall : ∀ r' ∈ (nodeShape R).allowed, Key.rule r' ∈ ks ∨ r' = .Description)
    (hord : ks.Pairwise fun a b => noBefore (keyIs a) (keyIs b) is = true) :
    itemsElems is = ks.flatMap fun k => elemsAt k is := by
  rw [itemsElems_eq]
  exact itemsMap_by_keys valElems ks hnd is (others_nil_elems hok hty ks hlines hall) hord

theorem flatMap_leafElems_tagLine (toks : List Token) (h : ∀ t ∈ toks, t.mtype = some .TagLine) :
    toks.flatMap leafElems = tagLineElems toks := by
  rw [tagLineElems]
  exact flatMap_congr_mem _ _ _ fun t ht => leafElems_tagLine t (h t ht)

theorem flatMap_leafElems_row (toks : List Token) (h : ∀ t ∈ toks, t.mtype = some .TableRow) :
    toks.flatMap leafElems = rowLineElems toks := by
  induction toks with
  | nil => rfl
  | cons t toks ih =>
    rw [List.flatMap_cons, leafElems_row t (h t List.mem_cons_self),
      ih fun t' ht' => h t' (List.mem_cons_of_mem _ ht')]
    rfl

theorem elemsAt_steps (is : List (Key × Val)) (hty : ∀ kv ∈ is, TypedItemL kv) :
    elemsAt (.rule .Step) is = (getSteps is).flatMap stepElems :=
  flatMap_typed valElems Val.step _ stepElems (fun _ => rfl) (fun _ => by rw [valElems]) _
    fun _ hv => ltyped_of_mem_getItems hty hv

theorem elemsAt_scenarios (is : List (Key × Val)) (hty : ∀ kv ∈ is, TypedItemL kv) :
    elemsAt (.rule .ScenarioDefinition) is = (getScenarios is).flatMap scenarioElems :=
  flatMap_typed valElems Val.scenario _ scenarioElems (fun _ => rfl) (fun _ => by rw [valElems]) _
    fun _ hv => ltyped_of_mem_getItems hty hv

theorem elemsAt_examples (is : List (Key × Val)) (hty : ∀ kv ∈ is, TypedItemL kv) :
    elemsAt (.rule .ExamplesDefinition) is = (getExamples is).flatMap examplesElems :=
  flatMap_typed valElems Val.examples _ examplesElems (fun _ => rfl) (fun _ => by rw [valElems]) _
    fun _ hv => ltyped_of_mem_getItems hty hv

theorem elemsAt_rules (is : List (Key × Val)) (hty : ∀ kv ∈ is, TypedItemL kv) :
    elemsAt (.rule .Rule) is = (getRules is).flatMap ruleElems :=
  flatMap_typed valElems Val.rule _ ruleElems (fun _ => rfl) (fun _ => by rw [valElems]) _
    fun _ hv => ltyped_of_mem_getItems hty hv

theorem elemsAt_background (is : List (Key × Val)) (hty : ∀ kv ∈ is, TypedItemL kv)
    (h : noBefore (keyIs (.rule .Background)) (keyIs (.rule .Background)) is = true) :
    elemsAt (.rule .Background) is = (getBackground is).toList.flatMap backgroundElems := by
  rcases mapAt_single valElems is _ h with ⟨_, h2, h3⟩ | ⟨v, h1, h2, h3⟩
  · rw [elemsAt, h3, getBackground, h2]; rfl
  · obtain ⟨b, rfl⟩ : LTyped .Background v := ltyped_of_mem_getItems hty (by rw [h1]; exact List.mem_cons_self)
    rw [elemsAt, h3, getBackground, h2, valElems]; simp

theorem elemsAt_tags (is : List (Key × Val)) (hty : ∀ kv ∈ is, TypedItemL kv) (hte : ∀ kv ∈ is, TypedItemE kv)
    (h : noBefore (keyIs (.rule .Tags)) (keyIs (.rule .Tags)) is = true) :
    elemsAt (.rule .Tags) is = tagElemsOf is := by
  rcases mapAt_single valElems is _ h with ⟨_, h2, h3⟩ | ⟨v, h1, h2, h3⟩
  · rw [elemsAt, h3, tagElemsOf, tagTokens, h2]; rfl
  · have hmem : v ∈ getItems is (.rule .Tags) := by rw [h1]; exact List.mem_cons_self
    obtain ⟨tis, rfl, -⟩ : LTyped .Tags v := ltyped_of_mem_getItems hty hmem
    have he : ETyped .Tags (.raw .Tags tis) := etyped_of_mem_getItems hte hmem
    rw [elemsAt, h3, tagElemsOf, tagTokens, h2, valElems_raw, he _ _ rfl]

theorem tagElemsOf_some {is : List (Key × Val)} {toks : List Token} (h : tagTokens is = some toks) :
    tagElemsOf is = tagLineElems toks := by
  rw [tagElemsOf, h]

theorem rowElems_head_drop (rs : List Row) : rowElems rs.head?.toList ++ rowElems (rs.drop 1) = rowElems rs := by
  cases rs <;> simp [rowElems]

/-! ### one node -/

/-- what is to be shown for each rule type: the elements of the value are those of the items in
    order — for a doc string the first of them — and a raw node keeps what its parent needs -/
def NodeElems (R : RuleType) : Prop :=
  ∀ (cs : List Comment) (is : List (Key × Val)) (n m : Nat) (v : Val),
    ItemsOK R is → (∀ kv ∈ is, TypedItemL kv) → (∀ kv ∈ is, TypedItemE kv) →
    (transformNode cs ⟨R, is⟩).run.run n = (.ok v, m) →
    ETyped R v ∧ valElems v = if R = .DocString then (itemsElems is).head?.toList else itemsElems is

theorem nodeElems_tags : NodeElems .Tags := by
  intro cs is n m v hok hty hte h
  obtain ⟨rfl, rfl⟩ := raw_ok cs _ is n m v rfl h
  refine ⟨?_, by rw [valElems_raw]; rfl⟩
  intro rt is' e
  cases e
  rw [itemsElems_by_keys hok hty [.tok .TagLine] (by decide) (by decide) (by decide) (by simp)]
  simp only [List.flatMap_cons, List.flatMap_nil, List.append_nil]
  obtain ⟨-, h2, -⟩ := tokens_of_typed hty .TagLine
  rw [elemsAt_tok hty, flatMap_leafElems_tagLine _ h2]

theorem itemsElems_rows {R : RuleType} {is : List (Key × Val)} (hok : ItemsOK R is)
    (hty : ∀ kv ∈ is, TypedItemL kv) (hl : (nodeShape R).lines = [.TableRow]) (ha : (nodeShape R).allowed = []) :
    itemsElems is = rowLineElems (getTokens is .TableRow) := by
  rw [itemsElems_by_keys hok hty [.tok .TableRow] (by decide) (by rw [hl]; decide) (by rw [ha]; decide) (by simp)]
  simp only [List.flatMap_cons, List.flatMap_nil, List.append_nil]
  obtain ⟨-, h2, -⟩ := tokens_of_typed hty .TableRow
  rw [elemsAt_tok hty, flatMap_leafElems_row _ h2]

theorem nodeElems_dataTable : NodeElems .DataTable := by
  intro cs is n m v hok hty hte h
  obtain ⟨-, t0, rest, -, rfl, rfl⟩ := (dataTable_ok cs is n m v).1 h
  refine ⟨trivial, ?_⟩
  rw [valElems, rowElems_numberRows, itemsElems_rows hok hty rfl rfl]; rfl

theorem nodeElems_examplesTable : NodeElems .ExamplesTable := by
  intro cs is n m v hok hty hte h
  obtain ⟨-, rfl, rfl⟩ := (examplesTable_ok cs is n m v).1 h
  refine ⟨trivial, ?_⟩
  rw [valElems, rowElems_numberRows, itemsElems_rows hok hty rfl rfl]; rfl

theorem nodeElems_description : NodeElems .Description := by
  intro cs is n m v hok hty hte h
  simp only [transformNode] at h
  rw [run_bind_ok] at h
  obtain ⟨ls, n1, -, h2⟩ := h
  rw [run_pure_ok] at h2
  obtain ⟨rfl, rfl⟩ := h2
  refine ⟨trivial, ?_⟩
  rw [valElems, itemsElems_by_keys hok hty [] (by decide) (by decide) (by decide) (by simp)]; rfl

theorem nodeElems_docString : NodeElems .DocString := by
  intro cs is n m v hok hty hte h
  simp only [transformNode] at h
  split at h
  · rw [run_crash_ok] at h; cases h
  · next sep tail heq =>
    simp only [run_bind_ok, run_need_ok, run_pure_ok] at h
    obtain ⟨st, _, ⟨hst, -⟩, dl, _, ⟨hdl, -⟩, _, _, -, rfl, -⟩ := h
    refine ⟨trivial, ?_⟩
    rw [valElems, itemsElems_by_keys hok hty [.tok .DocStringSeparator] (by decide) (by decide) (by decide) (by simp)]
    simp only [List.flatMap_cons, List.flatMap_nil, List.append_nil]
    obtain ⟨-, h2, -⟩ := tokens_of_typed hty .DocStringSeparator
    rw [elemsAt_tok hty, heq, List.flatMap_cons,
      leafElems_docSep sep dl st (h2 sep (by rw [heq]; exact List.mem_cons_self)) hdl hst]
    rfl

theorem nodeElems_other (R : RuleType) (hR : ∀ cs is, transformNode cs ⟨R, is⟩ = pure (.raw R is))
    (hT : ∀ v, ETyped R v) (hD : R ≠ .DocString) : NodeElems R := by
  intro cs is n m v hok hty hte h
  obtain ⟨rfl, rfl⟩ := raw_ok cs _ is n m v (hR cs is) h
  exact ⟨hT _, by rw [valElems_raw, if_neg hD]⟩

theorem nodeElems_step : NodeElems .Step := by
  intro cs is n m v hok hty hte h
  obtain ⟨line, hl, kw, hkw, kt, hkt, tx, htx, rfl, rfl⟩ := (step_ok cs is n m v).1 h
  refine ⟨trivial, ?_⟩
  rw [if_neg (by decide), itemsElems_by_keys hok hty [.tok .StepLine, .rule .DataTable, .rule .DocString]
    (by decide) (by decide) (by decide)
    (pairwise3 _ _ _ _ (hok.order (.tok .StepLine, .rule .DataTable) (by decide))
      (hok.order (.tok .StepLine, .rule .DocString) (by decide))
      (hok.order (.rule .DataTable, .rule .DocString) (by decide)))]
  simp only [List.flatMap_cons, List.flatMap_nil, List.append_nil]
  have hkl := keyLine_of_once hty .StepLine (hok.order (.tok .StepLine, .tok .StepLine) (by decide))
  obtain ⟨hts, hmt⟩ := keyLine_tokens hkl hl
  rw [elemsAt_tok hty, hts, List.flatMap_cons, List.flatMap_nil, List.append_nil,
    leafElems_step line kw tx kt hmt hkw hkt htx, valElems, stepElems]
  show Elem.step line.loc kw kt tx :: _ = _
  rw [List.singleton_append]
  congr 1
  simp only [stepArgOf]
  rcases mapAt_single valElems is (.rule .DataTable) (hok.order (.rule .DataTable, .rule .DataTable) (by decide)) with
    ⟨_, a2, a3⟩ | ⟨v, a1, a2, a3⟩
  · rw [elemsAt, a3]; simp only [a2]
    rcases mapAt_single valElems is (.rule .DocString) (hok.order (.rule .DocString, .rule .DocString) (by decide)) with
      ⟨_, b2, b3⟩ | ⟨w, b1, b2, b3⟩
    · rw [elemsAt, b3]; simp only [b2]; rfl
    · obtain ⟨d, rfl⟩ : LTyped .DocString w := ltyped_of_mem_getItems hty (by rw [b1]; exact List.mem_cons_self)
      rw [elemsAt, b3]; simp only [b2]; rw [valElems]; rfl
  · obtain ⟨d, rfl⟩ : LTyped .DataTable v := ltyped_of_mem_getItems hty (by rw [a1]; exact List.mem_cons_self)
    have hex : getItems is (.rule .DocString) = [] := by
      rcases exclusive_keys is (.rule .DataTable) (.rule .DocString) (by decide)
        (hok.order (.rule .DataTable, .rule .DocString) (by decide))
        (hok.order (.rule .DocString, .rule .DataTable) (by decide)) with e | e
      · rw [a1] at e; cases e
      · exact e
    have hds : elemsAt (.rule .DocString) is = [] := by rw [elemsAt, mapAt, hex]; rfl
    rw [hds, elemsAt, a3]; simp only [a2]; rw [valElems]; simp [argElems]

theorem nodeElems_background : NodeElems .Background := by
  intro cs is n m v hok hty hte h
  obtain ⟨line, hl, d, -, kw, hkw, nm, hnm, rfl, rfl⟩ := (background_ok cs is n m v).1 h
  refine ⟨trivial, ?_⟩
  rw [if_neg (by decide), itemsElems_by_keys hok hty [.tok .BackgroundLine, .rule .Step]
    (by decide) (by decide) (by decide)
    (pairwise2 _ _ _ (hok.order (.tok .BackgroundLine, .rule .Step) (by decide)))]
  simp only [List.flatMap_cons, List.flatMap_nil, List.append_nil]
  have hkl := keyLine_of_once hty .BackgroundLine (hok.order (.tok .BackgroundLine, .tok .BackgroundLine) (by decide))
  obtain ⟨hts, hmt⟩ := keyLine_tokens hkl hl
  rw [elemsAt_tok hty, hts, List.flatMap_cons, List.flatMap_nil, List.append_nil,
    leafElems_title line _ kw nm (by decide) hmt hkw hnm, elemsAt_steps is hty, valElems, backgroundElems]
  rfl

theorem nodeElems_scenarioRaw : NodeElems .Scenario := by
  intro cs is n m v hok hty hte h
  obtain ⟨rfl, rfl⟩ := raw_ok cs _ is n m v rfl h
  refine ⟨?_, by rw [valElems_raw]; rfl⟩
  intro rt sc e
  cases e
  rw [itemsElems_by_keys hok hty [.tok .ScenarioLine, .rule .Step, .rule .ExamplesDefinition]
    (by decide) (by decide) (by decide)
    (pairwise3 _ _ _ _ (hok.order (.tok .ScenarioLine, .rule .Step) (by decide))
      (hok.order (.tok .ScenarioLine, .rule .ExamplesDefinition) (by decide))
      (hok.order (.rule .Step, .rule .ExamplesDefinition) (by decide)))]
  simp only [List.flatMap_cons, List.flatMap_nil, List.append_nil]
  rw [elemsAt_tok hty, elemsAt_steps _ hty, elemsAt_examples _ hty]

theorem nodeElems_examplesRaw : NodeElems .Examples := by
  intro cs is n m v hok hty hte h
  obtain ⟨rfl, rfl⟩ := raw_ok cs _ is n m v rfl h
  refine ⟨?_, by rw [valElems_raw]; rfl⟩
  intro rt ex e
  cases e
  rw [itemsElems_by_keys hok hty [.tok .ExamplesLine, .rule .ExamplesTable]
    (by decide) (by decide) (by decide)
    (pairwise2 _ _ _ (hok.order (.tok .ExamplesLine, .rule .ExamplesTable) (by decide)))]
  simp only [List.flatMap_cons, List.flatMap_nil, List.append_nil]
  rw [elemsAt_tok hty]
  congr 1
  simp only [tableOf]
  rcases mapAt_single valElems is (.rule .ExamplesTable) (hok.order (.rule .ExamplesTable, .rule .ExamplesTable) (by decide)) with
    ⟨_, a2, a3⟩ | ⟨v, a1, a2, a3⟩
  · rw [elemsAt, a3]; simp only [a2]; rfl
  · obtain ⟨rs, rfl⟩ : LTyped .ExamplesTable v := ltyped_of_mem_getItems hty (by rw [a1]; exact List.mem_cons_self)
    rw [elemsAt, a3]; simp only [a2]; rw [valElems]

/-- a header node (`Tags`, then the keyword line) -/
theorem header_elems {R : RuleType} {is : List (Key × Val)} (hok : ItemsOK R is)
    (hty : ∀ kv ∈ is, TypedItemL kv) (hte : ∀ kv ∈ is, TypedItemE kv) (k : Kind)
    (hlines : (nodeShape R).lines = [k]) (hall : (nodeShape R).allowed = [.Tags, .Description])
    (h1 : (Sym.rule .Tags, Sym.rule .Tags) ∈ (nodeShape R).order)
    (h3 : (Sym.rule .Tags, Sym.tok k) ∈ (nodeShape R).order) :
    itemsElems is = tagElemsOf is ++ (getTokens is k).flatMap leafElems := by
  rw [itemsElems_by_keys hok hty [.rule .Tags, .tok k] (by simp) (by rw [hlines]; simp) (by rw [hall]; simp)
    (pairwise2 _ _ _ (hok.order _ h3))]
  simp only [List.flatMap_cons, List.flatMap_nil, List.append_nil]
  rw [elemsAt_tags is hty hte (hok.order _ h1), elemsAt_tok hty]

theorem nodeElems_ruleHeader : NodeElems .RuleHeader := by
  intro cs is n m v hok hty hte h
  obtain ⟨rfl, rfl⟩ := raw_ok cs _ is n m v rfl h
  refine ⟨?_, by rw [valElems_raw]; rfl⟩
  intro rt hd e
  cases e
  exact header_elems hok hty hte .RuleLine rfl rfl (by decide) (by decide)

theorem nodeElems_featureHeader : NodeElems .FeatureHeader := by
  intro cs is n m v hok hty hte h
  obtain ⟨rfl, rfl⟩ := raw_ok cs _ is n m v rfl h
  refine ⟨?_, by rw [valElems_raw]; rfl⟩
  intro rt hd e
  cases e
  exact header_elems hok hty hte .FeatureLine rfl rfl (by decide) (by decide)

/-- a definition node (`Tags`, then the raw node `x`): the item elements are the tag elements,
    then those of the single `x` item -/
theorem definition_elems {R : RuleType} {is : List (Key × Val)} (hok : ItemsOK R is)
    (hty : ∀ kv ∈ is, TypedItemL kv) (hte : ∀ kv ∈ is, TypedItemE kv) (x : RuleType) (hx : x ≠ .Tags)
    (hall : (nodeShape R).allowed = [.Tags, x]) (hlines : (nodeShape R).lines = [])
    (h1 : (Sym.rule .Tags, Sym.rule .Tags) ∈ (nodeShape R).order)
    (h2 : (Sym.rule x, Sym.rule x) ∈ (nodeShape R).order)
    (h3 : (Sym.rule .Tags, Sym.rule x) ∈ (nodeShape R).order)
    {rt : RuleType} {inner : List (Key × Val)} (hs : getSingle is (.rule x) = .raw rt inner) :
    itemsElems is = tagElemsOf is ++ itemsElems inner ∧ ETyped x (.raw rt inner) := by
  rw [itemsElems_by_keys hok hty [.rule .Tags, .rule x] (by simp [Ne.symm hx]) (by rw [hlines]; simp)
    (by rw [hall]; simp) (pairwise2 _ _ _ (hok.order _ h3))]
  simp only [List.flatMap_cons, List.flatMap_nil, List.append_nil]
  rw [elemsAt_tags is hty hte (hok.order _ h1)]
  rcases mapAt_single valElems is (.rule x) (hok.order _ h2) with ⟨_, a2, a3⟩ | ⟨v, a1, a2, a3⟩
  · rw [hs] at a2; cases a2
  · rw [hs] at a2; subst a2
    rw [elemsAt, a3, valElems_raw]
    exact ⟨rfl, etyped_of_mem_getItems hte (by rw [a1]; exact List.mem_cons_self)⟩

theorem nodeElems_scenario : NodeElems .ScenarioDefinition := by
  intro cs is n m v hok hty hte h
  obtain ⟨toks, htags, rt, sc, hs, line, hl, d, -, kw, hkw, nm, hnm, rfl, rfl⟩ := (scenario_ok cs is n m v).1 h
  refine ⟨trivial, ?_⟩
  obtain ⟨-, sc', e2, hkl, -⟩ := definition_locs hok hty .Scenario (by decide) rfl rfl (by decide) (by decide) (by decide) hs
  cases e2
  obtain ⟨e1, e3⟩ := definition_elems hok hty hte .Scenario (by decide) rfl rfl (by decide) (by decide) (by decide) hs
  obtain ⟨hts, hmt⟩ := keyLine_tokens hkl hl
  rw [if_neg (by decide), e1, e3 _ _ rfl, tagElemsOf_some htags, hts, List.flatMap_cons, List.flatMap_nil,
    List.append_nil, leafElems_title line _ kw nm (by decide) hmt hkw hnm, valElems, scenarioElems,
    tagElems_numberTags]
  rfl

theorem nodeElems_examples : NodeElems .ExamplesDefinition := by
  intro cs is n m v hok hty hte h
  obtain ⟨toks, htags, rt, ex, hs, line, hl, d, -, kw, hkw, nm, hnm, rfl, rfl⟩ := (examples_ok cs is n m v).1 h
  refine ⟨trivial, ?_⟩
  obtain ⟨-, ex', e2, hkl, -⟩ := definition_locs hok hty .Examples (by decide) rfl rfl (by decide) (by decide) (by decide) hs
  cases e2
  obtain ⟨e1, e3⟩ := definition_elems hok hty hte .Examples (by decide) rfl rfl (by decide) (by decide) (by decide) hs
  obtain ⟨hts, hmt⟩ := keyLine_tokens hkl hl
  rw [if_neg (by decide), e1, e3 _ _ rfl, tagElemsOf_some htags, hts, List.flatMap_cons, List.flatMap_nil,
    List.append_nil, leafElems_title line _ kw nm (by decide) hmt hkw hnm, valElems, examplesElems,
    tagElems_numberTags, rowElems_head_drop]
  rfl

/-- the required header of a rule / feature -/
theorem header_single_elems {R : RuleType} {is : List (Key × Val)} (hok : ItemsOK R is)
    (hte : ∀ kv ∈ is, TypedItemE kv) (x : RuleType) (hx : Sym.rule x ∈ (nodeShape R).needs)
    (hone : (Sym.rule x, Sym.rule x) ∈ (nodeShape R).order) :
    ETyped x (getSingle is (.rule x)) ∧ elemsAt (.rule x) is = valElems (getSingle is (.rule x)) := by
  obtain ⟨kv, hkv, e⟩ := hok.needs (.rule x) hx
  simp only [symKey] at e
  have hne := getItems_ne_nil_of_mem is kv hkv
  rw [e] at hne
  rcases mapAt_single valElems is (.rule x) (hok.order _ hone) with ⟨a1, _, _⟩ | ⟨v, a1, a2, a3⟩
  · exact absurd a1 hne
  · rw [a2, elemsAt, a3]
    exact ⟨etyped_of_mem_getItems hte (by rw [a1]; exact List.mem_cons_self), rfl⟩

theorem nodeElems_rule : NodeElems .Rule := by
  intro cs is n m v hok hty hte h
  obtain ⟨⟨hd, hh, hkl, -, line, hl⟩, -⟩ := header_single_locs hok hty .RuleHeader (by decide) (by decide)
  obtain ⟨hE, hat⟩ := header_single_elems hok hte .RuleHeader (by decide) (by decide)
  have hv : v ≠ .none := by
    simp only [transformNode, hh, hl, bind_getTags_ok, bind_getDescription_ok, bind_nextId_ok,
      bind_need_ok, run_pure_ok] at h
    obtain ⟨_, -, _, -, _, -, _, -, rfl, -⟩ := h
    exact fun h => by cases h
  obtain ⟨rt, hd', hh', toks, htags, line', hl', d, -, kw, hkw, nm, hnm, rfl, rfl⟩ := (rule_ok cs is n m v hv).1 h
  rw [hh] at hh'; cases hh'
  refine ⟨trivial, ?_⟩
  obtain ⟨hts, hmt⟩ := keyLine_tokens hkl hl'
  rw [hh] at hE
  rw [if_neg (by decide), itemsElems_by_keys hok hty [.rule .RuleHeader, .rule .Background, .rule .ScenarioDefinition]
    (by decide) (by decide) (by decide)
    (pairwise3 _ _ _ _ (hok.order (.rule .RuleHeader, .rule .Background) (by decide))
      (hok.order (.rule .RuleHeader, .rule .ScenarioDefinition) (by decide))
      (hok.order (.rule .Background, .rule .ScenarioDefinition) (by decide)))]
  simp only [List.flatMap_cons, List.flatMap_nil, List.append_nil]
  rw [hat, hh, valElems_raw, hE _ _ rfl, tagElemsOf_some htags, hts, List.flatMap_cons, List.flatMap_nil,
    List.append_nil, leafElems_title line' _ kw nm (by decide) hmt hkw hnm,
    elemsAt_background is hty (hok.order (.rule .Background, .rule .Background) (by decide)),
    elemsAt_scenarios is hty, valElems, ruleElems, tagElems_numberTags, ruleChildren_eq]
  simp only [List.flatMap_append, flatMap_map, ruleChildElems, List.append_assoc]
  rfl

theorem nodeElems_feature : NodeElems .Feature := by
  intro cs is n m v hok hty hte h
  obtain ⟨⟨hd, hh, hkl, -, line, hl⟩, -⟩ := header_single_locs hok hty .FeatureHeader (by decide) (by decide)
  obtain ⟨hE, hat⟩ := header_single_elems hok hte .FeatureHeader (by decide) (by decide)
  have hv : v ≠ .none := by
    simp only [transformNode, hh, hl, bind_getTags_ok, bind_getDescription_ok,
      bind_need_ok, run_pure_ok] at h
    obtain ⟨_, -, _, -, _, -, _, -, rfl, -⟩ := h
    exact fun h => by cases h
  obtain ⟨rt, hd', hh', toks, htags, line', hl', d, -, kw, hkw, nm, hnm, rfl, rfl⟩ := (feature_ok cs is n m v hv).1 h
  rw [hh] at hh'; cases hh'
  refine ⟨trivial, ?_⟩
  obtain ⟨hts, hmt⟩ := keyLine_tokens hkl hl'
  rw [hh] at hE
  rw [if_neg (by decide), itemsElems_by_keys hok hty
    [.rule .FeatureHeader, .rule .Background, .rule .ScenarioDefinition, .rule .Rule]
    (by decide) (by decide) (by decide)
    (pairwise4 _ _ _ _ _ (hok.order (.rule .FeatureHeader, .rule .Background) (by decide))
      (hok.order (.rule .FeatureHeader, .rule .ScenarioDefinition) (by decide))
      (hok.order (.rule .FeatureHeader, .rule .Rule) (by decide))
      (hok.order (.rule .Background, .rule .ScenarioDefinition) (by decide))
      (hok.order (.rule .Background, .rule .Rule) (by decide))
      (hok.order (.rule .ScenarioDefinition, .rule .Rule) (by decide)))]
  simp only [List.flatMap_cons, List.flatMap_nil, List.append_nil]
  rw [hat, hh, valElems_raw, hE _ _ rfl, tagElemsOf_some htags, hts, List.flatMap_cons, List.flatMap_nil,
    List.append_nil, leafElems_title line' _ kw nm (by decide) hmt hkw hnm,
    elemsAt_background is hty (hok.order (.rule .Background, .rule .Background) (by decide)),
    elemsAt_scenarios is hty, elemsAt_rules is hty, valElems, featureElems, tagElems_numberTags, featureChildren_eq]
  simp only [List.flatMap_append, flatMap_map, featureChildElems, List.append_assoc]
  rfl

theorem nodeElems_document : NodeElems .GherkinDocument := by
  intro cs is n m v hok hty hte h
  rw [document_eq] at h
  simp only [res_inj, Except.ok.injEq] at h
  obtain ⟨rfl, rfl⟩ := h
  refine ⟨trivial, ?_⟩
  rw [if_neg (by decide), itemsElems_by_keys hok hty [.rule .Feature] (by decide) (by decide) (by decide) (by simp)]
  simp only [List.flatMap_cons, List.flatMap_nil, List.append_nil]
  rw [valElems, srcElems, featureOf]
  rcases mapAt_single valElems is (.rule .Feature) (hok.order (.rule .Feature, .rule .Feature) (by decide)) with
    ⟨_, a2, a3⟩ | ⟨v, a1, a2, a3⟩
  · rw [elemsAt, a3]; simp only [a2]
  · obtain ⟨f, rfl⟩ : LTyped .Feature v := ltyped_of_mem_getItems hty (by rw [a1]; exact List.mem_cons_self)
    rw [elemsAt, a3]; simp only [a2]; rw [valElems]

theorem nodeElems_all (R : RuleType) : NodeElems R := by
  cases R
  case None_ => exact nodeElems_other _ (fun _ _ => rfl) (fun _ => trivial) (by decide)
  case StepArg => exact nodeElems_other _ (fun _ _ => rfl) (fun _ => trivial) (by decide)
  case DescriptionHelper => exact nodeElems_other _ (fun _ _ => rfl) (fun _ => trivial) (by decide)
  case GherkinDocument => exact nodeElems_document
  case Feature => exact nodeElems_feature
  case FeatureHeader => exact nodeElems_featureHeader
  case Rule => exact nodeElems_rule
  case RuleHeader => exact nodeElems_ruleHeader
  case Background => exact nodeElems_background
  case ScenarioDefinition => exact nodeElems_scenario
  case Scenario => exact nodeElems_scenarioRaw
  case ExamplesDefinition => exact nodeElems_examples
  case Examples => exact nodeElems_examplesRaw
  case ExamplesTable => exact nodeElems_examplesTable
  case Step => exact nodeElems_step
  case DataTable => exact nodeElems_dataTable
  case DocString => exact nodeElems_docString
  case Tags => exact nodeElems_tags
  case Description => exact nodeElems_description

/-! ### the induction over the tree -/

def ElemsSpec (t : TTree) : Prop :=
  shaped t = true → ∀ (cs : List Comment) (n : Nat) (is : List (Key × Val)) (n' : Nat),
    (itemsOf cs t).run.run n = (.ok is, n') →
    (∀ kv ∈ is, TypedItemE kv) ∧ itemsElems is = elemsOfTree t

def ElemsSpecList (ts : List TTree) : Prop :=
  shapedList ts = true → ∀ (cs : List Comment) (n : Nat) (is : List (Key × Val)) (n' : Nat),
    (itemsOfList cs ts).run.run n = (.ok is, n') →
    (∀ kv ∈ is, TypedItemE kv) ∧ itemsElems is = elemsOfTreeList ts

theorem leafElems_comment (t : Token) (h : keyOf (.leaf t) = none) : leafElems t = [] := by
  simp only [keyOf] at h
  cases hm : t.mtype with
  | none => exact leafElems_none t hm
  | some k =>
    rw [hm] at h
    cases k <;> first | (simp at h; done) | exact leafElems_nonElem t _ hm (by decide)

theorem elemsSpec_leaf (t : Token) : ElemsSpec (.leaf t) := by
  intro _ cs n is n' h
  rw [itemsOf] at h
  obtain ⟨rfl, rfl⟩ := run_leafItems_ok t n n' is h
  rw [elemsOfTree]
  cases hko : keyOf (.leaf t) with
  | none =>
    refine ⟨fun _ h => ?_, ?_⟩
    · cases h
    · simp only [Option.toList, List.map_nil]; rw [itemsElems_nil, leafElems_comment t hko]
  | some key =>
    simp only [Option.toList, List.map_cons, List.map_nil]
    refine ⟨?_, by rw [itemsElems_singleton, valElems]⟩
    intro kv hkv
    simp only [List.mem_singleton] at hkv
    subst hkv
    cases key with
    | tok k => trivial
    | rule r => obtain ⟨ch, e⟩ := (keyOf_rule_iff _ r).1 hko; cases e

theorem elemsSpec_nil : ElemsSpecList [] := by
  intro _ cs n is n' h
  rw [itemsOfList, run_pure_ok] at h
  obtain ⟨rfl, rfl⟩ := h
  refine ⟨fun _ h => ?_, ?_⟩
  · cases h
  · rw [itemsElems_nil, elemsOfTreeList]

theorem elemsSpec_cons (c : TTree) (ts : List TTree) (hc : ElemsSpec c) (hts : ElemsSpecList ts) :
    ElemsSpecList (c :: ts) := by
  intro hs cs n is n' h
  simp only [shapedList, Bool.and_eq_true] at hs
  rw [run_itemsOfList_cons] at h
  rcases h1 : (itemsOf cs c).run.run n with ⟨e | i, n₁⟩
  · rw [h1] at h; simp [res_inj] at h
  · rw [h1] at h
    simp only at h
    rcases h2 : (itemsOfList cs ts).run.run n₁ with ⟨e | is', n₂⟩
    · rw [h2] at h; simp [res_inj] at h
    · rw [h2] at h
      simp only [res_inj, Except.ok.injEq] at h
      obtain ⟨rfl, rfl⟩ := h
      obtain ⟨a1, a2⟩ := hc hs.1 cs n i n₁ h1
      obtain ⟨b1, b2⟩ := hts hs.2 cs n₁ is' n₂ h2
      refine ⟨?_, ?_⟩
      · intro kv hkv
        rcases List.mem_append.1 hkv with h | h
        · exact a1 kv h
        · exact b1 kv h
      · rw [itemsElems_append, a2, b2, elemsOfTreeList]

theorem elemsSpec_node (r : RuleType) (ch : List TTree) (hch : ElemsSpecList ch) : ElemsSpec (.node r ch) := by
  intro hs cs n is n' h
  simp only [shaped, Bool.and_eq_true] at hs
  rw [run_itemsOf_node] at h
  rcases h1 : (itemsOfList cs ch).run.run n with ⟨e | is₁, n₁⟩
  · rw [h1] at h; simp [res_inj] at h
  · rw [h1] at h
    simp only at h
    rcases h2 : (transformNode cs ⟨r, is₁⟩).run.run n₁ with ⟨e | v, n₂⟩
    · rw [h2] at h; simp [res_inj] at h
    · rw [h2] at h
      simp only [res_inj, Except.ok.injEq] at h
      obtain ⟨rfl, rfl⟩ := h
      obtain ⟨a1, a2⟩ := hch hs.2 cs n is₁ n₁ h1
      obtain ⟨l1, -, l4⟩ := locsSpecList_all ch hs.2 cs n is₁ n₁ h1
      obtain ⟨b1, b2⟩ := nodeElems_all r cs is₁ n₁ n₂ v (itemsOK_of_nodeOK r ch is₁ l4 hs.1) l1 a1 h2
      refine ⟨?_, ?_⟩
      · intro kv hkv
        simp only [List.mem_singleton] at hkv
        subst hkv
        exact b1
      · rw [itemsElems_singleton, b2, a2, elemsOfTree]

mutual
theorem elemsSpec_all : ∀ t : TTree, ElemsSpec t
  | .leaf t => elemsSpec_leaf t
  | .node r ch => elemsSpec_node r ch (elemsSpecList_all ch)
theorem elemsSpecList_all : ∀ ts : List TTree, ElemsSpecList ts
  | [] => elemsSpec_nil
  | c :: ts => elemsSpec_cons c ts (elemsSpec_all c) (elemsSpecList_all ts)
end

/-- the elements of the value of a grammar-shaped node tree are those of its element-carrying
    lines, in order -/
theorem valElems_astOf (r : RuleType) (ch : List TTree) (hs : shaped (.node r ch) = true) (cs : List Comment)
    (n n' : Nat) (v : Val) (h : (astOf cs (.node r ch)).run.run n = (.ok v, n')) :
    valElems v = elemsOfTree (.node r ch) := by
  obtain ⟨-, a2⟩ := elemsSpec_all _ hs cs n _ n' (itemsOf_node_ok cs r ch n n' v h)
  rw [itemsElems_singleton] at a2
  exact a2

/-- **Every element once, in order, with its exact fields.**  If the fold of a grammar-shaped token
    tree is the document `d`, the elements of `d` read off in source order (`srcElems`) are exactly
    the elements carried by the lines of the tree in line order (`elemsOfTree`): same number, same
    order, and each with the keyword / name / text / keyword type / cells / delimiter / media type
    of its token. -/
theorem elems_once_in_order (t : TTree) (hs : shaped t = true) (cs : List Comment) (n n' : Nat) (d : Doc)
    (h : (astOf cs t).run.run n = (.ok (.doc d), n')) : srcElems d = elemsOfTree t := by
  cases t with
  | leaf tk => have := astOf_leaf_ok cs tk n n' _ h; cases this
  | node r ch =>
    have := valElems_astOf r ch hs cs n n' _ h
    rwa [valElems] at this

/-! ### consistency with the locations -/

theorem leafLocs_eq_map (t : Token) : leafLocs t = (leafElems t).map Elem.loc := by
  unfold leafLocs leafElems
  cases t.mtype with
  | none => rfl
  | some k => cases k <;> simp [elemKinds, Elem.loc, Function.comp_def]

mutual
theorem elemLocs_eq_map : ∀ t : TTree, elemLocs t = (elemsOfTree t).map Elem.loc
  | .leaf t => by rw [elemLocs, elemsOfTree, leafLocs_eq_map]
  | .node r ch => by
    rw [elemLocs, elemsOfTree, elemLocsList_eq_map ch]
    split
    · cases elemsOfTreeList ch <;> rfl
    · rfl
theorem elemLocsList_eq_map : ∀ ts : List TTree, elemLocsList ts = (elemsOfTreeList ts).map Elem.loc
  | [] => by rw [elemLocsList, elemsOfTreeList]; rfl
  | c :: cs => by rw [elemLocsList, elemsOfTreeList, List.map_append, elemLocs_eq_map c, elemLocsList_eq_map cs]
end

/-! ## the free text: descriptions and doc-string contents

  Same method, for `Spec.srcTexts` / `Spec.textsOfTree`.  What a node owns (`Spec.ownTexts`) is read
  off its child lines by kind and the strings of its `Description` children; on the builder's side
  these are `getTokens items` and `itemDescrs items`, and the induction carries that the two views
  agree (`TextsSpec`, last two components). -/

/-- the description strings among the items of a node, in order -/
def itemDescrs (items : List (Key × Val)) : List Str :=
  items.filterMap fun kv =>
    match kv with
    | (.rule .Description, .descr s) => some s
    | _ => none

mutual
/-- the free text inside a value of the builder, in source order -/
def valTexts : Val → List (Loc × Str)
  | .tok _ => []
  | .step s => stepTexts s
  | .docString d => [(d.loc, d.content)]
  | .dataTable _ => []
  | .background b => backgroundTexts b
  | .scenario s => scenarioTexts s
  | .examples e => examplesTexts e
  | .rows _ => []
  | .rule r => ruleTexts r
  | .feature f => featureTexts f
  | .doc d => srcTexts d
  | .raw rt items => ownTexts rt (getTokens items) (itemDescrs items) ++ itemsTexts items
  | .none => []
  | .descr _ => []
def itemsTexts : List (Key × Val) → List (Loc × Str)
  | [] => []
  | (_, v) :: rest => valTexts v ++ itemsTexts rest
end

theorem itemsTexts_eq (is : List (Key × Val)) : itemsTexts is = itemsMap valTexts is := by
  induction is with
  | nil => rw [itemsTexts]; rfl
  | cons kv l ih => obtain ⟨k, v⟩ := kv; rw [itemsTexts, ih, itemsMap_cons]
theorem itemsTexts_nil : itemsTexts [] = [] := by rw [itemsTexts]
theorem itemsTexts_cons (kv : Key × Val) (l : List (Key × Val)) :
    itemsTexts (kv :: l) = valTexts kv.2 ++ itemsTexts l := by
  obtain ⟨k, v⟩ := kv; rw [itemsTexts]
theorem itemsTexts_append (a b : List (Key × Val)) : itemsTexts (a ++ b) = itemsTexts a ++ itemsTexts b := by
  induction a with
  | nil => simp [itemsTexts_nil]
  | cons kv a ih => rw [List.cons_append, itemsTexts_cons, itemsTexts_cons, ih, List.append_assoc]
theorem itemsTexts_singleton (k : Key) (v : Val) : itemsTexts [(k, v)] = valTexts v := by
  rw [itemsTexts_cons, itemsTexts_nil, List.append_nil]
theorem valTexts_raw (rt : RuleType) (is : List (Key × Val)) :
    valTexts (.raw rt is) = ownTexts rt (getTokens is) (itemDescrs is) ++ itemsTexts is := by
  rw [valTexts]

abbrev textsAt (k : Key) (is : List (Key × Val)) : List (Loc × Str) := mapAt valTexts k is

/-- what the parent's transformation needs to know about the free text in a raw node -/
def TTyped : RuleType → Val → Prop
  | .Tags, v => ∀ rt is, v = .raw rt is → itemsTexts is = []
  | .Scenario, v => ∀ rt sc, v = .raw rt sc →
      itemsTexts sc = (getSteps sc).flatMap stepTexts ++ (getExamples sc).flatMap examplesTexts
  | .Examples, v => ∀ rt ex, v = .raw rt ex → itemsTexts ex = []
  | .RuleHeader, v => ∀ rt hd, v = .raw rt hd → itemsTexts hd = []
  | .FeatureHeader, v => ∀ rt hd, v = .raw rt hd → itemsTexts hd = []
  | _, _ => True

def TypedItemT (kv : Key × Val) : Prop :=
  match kv.1 with
  | .tok _ => True
  | .rule r => TTyped r kv.2

theorem ttyped_of_mem_getItems {is : List (Key × Val)} (htt : ∀ kv ∈ is, TypedItemT kv) {r : RuleType} {v : Val}
    (h : v ∈ getItems is (.rule r)) : TTyped r v :=
  htt (.rule r, v) (mem_getItems is _ v h)

/-- the rule types whose value carries no free text -/
def noTextRules : List RuleType := [.Description, .Tags, .DataTable, .ExamplesTable]

theorem ownTexts_nil (r : RuleType) (toks : Kind → List Token) (descrs : List Str)
    (h : r ∉ [RuleType.DocString, .Background, .Scenario, .Examples, .RuleHeader, .FeatureHeader]) :
    ownTexts r toks descrs = [] := by
  cases r <;> first | rfl | exact absurd (by decide) h

/-- `ownTexts` never reads the comment lines -/
theorem ownTexts_congr (r : RuleType) (toks toks' : Kind → List Token) (descrs : List Str)
    (h : ∀ k, k ≠ .Comment → toks k = toks' k) : ownTexts r toks descrs = ownTexts r toks' descrs := by
  cases r <;> simp only [ownTexts, h _ (by decide : Kind.DocStringSeparator ≠ .Comment), h _ (by decide : Kind.Other ≠ .Comment),
    h _ (by decide : Kind.BackgroundLine ≠ .Comment), h _ (by decide : Kind.ScenarioLine ≠ .Comment),
    h _ (by decide : Kind.ExamplesLine ≠ .Comment), h _ (by decide : Kind.RuleLine ≠ .Comment),
    h _ (by decide : Kind.FeatureLine ≠ .Comment)]

theorem ownTexts_key (r : RuleType) (k : Kind)
    (h : (r, k) ∈ [(RuleType.Background, Kind.BackgroundLine), (.Scenario, .ScenarioLine), (.Examples, .ExamplesLine),
      (.RuleHeader, .RuleLine), (.FeatureHeader, .FeatureLine)])
    (toks : Kind → List Token) (descrs : List Str) (line : Token) (ht : toks k = [line]) :
    ownTexts r toks descrs = [(line.loc, descrs.headD [])] := by
  simp only [List.mem_cons, Prod.mk.injEq, List.not_mem_nil, or_false] at h
  rcases h with ⟨rfl, rfl⟩ | ⟨rfl, rfl⟩ | ⟨rfl, rfl⟩ | ⟨rfl, rfl⟩ | ⟨rfl, rfl⟩ <;> simp only [ownTexts, ht]

theorem others_nil_texts {R : RuleType} {is : List (Key × Val)} (hok : ItemsOK R is)
    (hty : ∀ kv ∈ is, TypedItemL kv) (htt : ∀ kv ∈ is, TypedItemT kv) (ks : List Key)
    (hall : ∀ r' ∈ (nodeShape R).allowed, Key.rule r' ∈ ks ∨ r' ∈ noTextRules) :
    ∀ kv ∈ is, kv.1 ∉ ks → valTexts kv.2 = [] := by
  intro kv hkv hne
  have ht := hty kv hkv
  have ht' := htt kv hkv
  obtain ⟨key, v⟩ := kv
  cases key with
  | tok k =>
    obtain ⟨t, hv, -⟩ := ht
    simp only at hv; subst hv
    rw [valTexts]
  | rule r' =>
    rcases hall r' (hok.allowed _ hkv r' rfl) with h | h
    · exact absurd h hne
    · simp only [noTextRules, List.mem_cons, List.not_mem_nil, or_false] at h
      rcases h with rfl | rfl | rfl | rfl
      · obtain ⟨s, hv⟩ := ht
        simp only at hv; subst hv; rw [valTexts]
      · obtain ⟨tis, hv, -⟩ := ht
        simp only at hv; subst hv
        have h0 : itemsTexts tis = [] := ht' _ _ rfl
        rw [valTexts_raw, h0, ownTexts_nil _ _ _ (by decide)]; rfl
      · obtain ⟨d, hv⟩ := ht
        simp only at hv; subst hv; rw [valTexts]
      · obtain ⟨rs, hv⟩ := ht
        simp only at hv; subst hv; rw [valTexts]

theorem itemsTexts_by_keys {R : RuleType} {is : List (Key × Val)} (hok : ItemsOK R is)
    (hty : ∀ kv ∈ is, TypedItemL kv) (htt : ∀ kv ∈ is, TypedItemT kv) (ks : List Key) (hnd : ks.Nodup)
    (hall : ∀ r' ∈ (nodeShape R).allowed, Key.rule r' ∈ ks ∨ r' ∈ noTextRules)
    (hord : ks.Pairwise fun a b => noBefore (keyIs a) (keyIs b) is = true) :
    itemsTexts is = ks.flatMap fun k => textsAt k is := by
  rw [itemsTexts_eq]
  exact itemsMap_by_keys valTexts ks hnd is (others_nil_texts hok hty htt ks hall) hord

/-- a node all of whose children are lines or nodes without free text -/
theorem itemsTexts_nil_of {R : RuleType} {is : List (Key × Val)} (hok : ItemsOK R is)
    (hty : ∀ kv ∈ is, TypedItemL kv) (htt : ∀ kv ∈ is, TypedItemT kv)
    (hall : ∀ r' ∈ (nodeShape R).allowed, r' ∈ noTextRules) : itemsTexts is = [] := by
  rw [itemsTexts_by_keys hok hty htt [] (by simp) (fun r' hr' => .inr (hall r' hr')) (by simp)]
  rfl

theorem textsAt_steps (is : List (Key × Val)) (hty : ∀ kv ∈ is, TypedItemL kv) :
    textsAt (.rule .Step) is = (getSteps is).flatMap stepTexts :=
  flatMap_typed valTexts Val.step _ stepTexts (fun _ => rfl) (fun _ => by rw [valTexts]) _
    fun _ hv => ltyped_of_mem_getItems hty hv

theorem textsAt_scenarios (is : List (Key × Val)) (hty : ∀ kv ∈ is, TypedItemL kv) :
    textsAt (.rule .ScenarioDefinition) is = (getScenarios is).flatMap scenarioTexts :=
  flatMap_typed valTexts Val.scenario _ scenarioTexts (fun _ => rfl) (fun _ => by rw [valTexts]) _
    fun _ hv => ltyped_of_mem_getItems hty hv

theorem textsAt_examples (is : List (Key × Val)) (hty : ∀ kv ∈ is, TypedItemL kv) :
    textsAt (.rule .ExamplesDefinition) is = (getExamples is).flatMap examplesTexts :=
  flatMap_typed valTexts Val.examples _ examplesTexts (fun _ => rfl) (fun _ => by rw [valTexts]) _
    fun _ hv => ltyped_of_mem_getItems hty hv

theorem textsAt_rules (is : List (Key × Val)) (hty : ∀ kv ∈ is, TypedItemL kv) :
    textsAt (.rule .Rule) is = (getRules is).flatMap ruleTexts :=
  flatMap_typed valTexts Val.rule _ ruleTexts (fun _ => rfl) (fun _ => by rw [valTexts]) _
    fun _ hv => ltyped_of_mem_getItems hty hv

theorem textsAt_background (is : List (Key × Val)) (hty : ∀ kv ∈ is, TypedItemL kv)
    (h : noBefore (keyIs (.rule .Background)) (keyIs (.rule .Background)) is = true) :
    textsAt (.rule .Background) is = (getBackground is).toList.flatMap backgroundTexts := by
  rcases mapAt_single valTexts is _ h with ⟨_, h2, h3⟩ | ⟨v, h1, h2, h3⟩
  · rw [textsAt, h3, getBackground, h2]; rfl
  · obtain ⟨b, rfl⟩ : LTyped .Background v := ltyped_of_mem_getItems hty (by rw [h1]; exact List.mem_cons_self)
    rw [textsAt, h3, getBackground, h2, valTexts]; simp

/-- the description strings are the `Description` items that are strings -/
theorem itemDescrs_eq (is : List (Key × Val)) :
    itemDescrs is = (getItems is (.rule .Description)).filterMap fun v =>
      match v with | .descr s => some s | _ => none := by
  induction is with
  | nil => rfl
  | cons kv l ih =>
    obtain ⟨k, v⟩ := kv
    by_cases hk : k = .rule .Description
    · subst hk
      rw [getItems_cons_same (Key.rule .Description, v) l, List.filterMap_cons, ← ih]
      cases v <;> simp [itemDescrs]
    · rw [getItems_cons_ne (k, v) l _ hk, ← ih]
      unfold itemDescrs
      rw [List.filterMap_cons]
      cases k with
      | tok k' => rfl
      | rule r' => cases r' <;> first | exact absurd rfl hk | rfl

/-- the description `getDescription` reads is the first description string (the empty one if none) -/
theorem descOf_headD {is : List (Key × Val)} {d : Str} (h : descOf is = some d) : (itemDescrs is).headD [] = d := by
  rw [itemDescrs_eq]
  unfold descOf at h
  split at h
  · next h0 => rw [h0]; cases h; rfl
  · next s rest h0 => rw [h0]; cases h; rfl
  · cases h

theorem map_some_getD {α} (as : List (Option α)) (bs : List α) (dflt : α) (h : as = bs.map some) :
    bs = as.map (·.getD dflt) := by
  subst h; simp [List.map_map, Function.comp_def]

/-! ### one node -/

def NodeTexts (R : RuleType) : Prop :=
  ∀ (cs : List Comment) (is : List (Key × Val)) (n m : Nat) (v : Val),
    ItemsOK R is → (∀ kv ∈ is, TypedItemL kv) → (∀ kv ∈ is, TypedItemT kv) →
    (transformNode cs ⟨R, is⟩).run.run n = (.ok v, m) →
    TTyped R v ∧ valTexts v = ownTexts R (getTokens is) (itemDescrs is) ++ itemsTexts is

/-- a rule type that stays a raw node -/
theorem nodeTexts_raw (R : RuleType) (hR : ∀ cs is, transformNode cs ⟨R, is⟩ = pure (.raw R is))
    (hT : ∀ is, ItemsOK R is → (∀ kv ∈ is, TypedItemL kv) → (∀ kv ∈ is, TypedItemT kv) → TTyped R (.raw R is)) :
    NodeTexts R := by
  intro cs is n m v hok hty htt h
  obtain ⟨rfl, rfl⟩ := raw_ok cs _ is n m v (hR cs is) h
  exact ⟨hT is hok hty htt, valTexts_raw _ _⟩

theorem nodeTexts_tags : NodeTexts .Tags :=
  nodeTexts_raw _ (fun _ _ => rfl) fun is hok hty htt rt is' e => by
    cases e; exact itemsTexts_nil_of hok hty htt (by decide)

theorem nodeTexts_examplesRaw : NodeTexts .Examples :=
  nodeTexts_raw _ (fun _ _ => rfl) fun is hok hty htt rt is' e => by
    cases e; exact itemsTexts_nil_of hok hty htt (by decide)

theorem nodeTexts_ruleHeader : NodeTexts .RuleHeader :=
  nodeTexts_raw _ (fun _ _ => rfl) fun is hok hty htt rt is' e => by
    cases e; exact itemsTexts_nil_of hok hty htt (by decide)

theorem nodeTexts_featureHeader : NodeTexts .FeatureHeader :=
  nodeTexts_raw _ (fun _ _ => rfl) fun is hok hty htt rt is' e => by
    cases e; exact itemsTexts_nil_of hok hty htt (by decide)

theorem nodeTexts_scenarioRaw : NodeTexts .Scenario :=
  nodeTexts_raw _ (fun _ _ => rfl) fun is hok hty htt rt is' e => by
    cases e
    rw [itemsTexts_by_keys hok hty htt [.rule .Step, .rule .ExamplesDefinition] (by decide) (by decide)
      (pairwise2 _ _ _ (hok.order (.rule .Step, .rule .ExamplesDefinition) (by decide)))]
    simp only [List.flatMap_cons, List.flatMap_nil, List.append_nil]
    rw [textsAt_steps _ hty, textsAt_examples _ hty]

theorem nodeTexts_dataTable : NodeTexts .DataTable := by
  intro cs is n m v hok hty htt h
  obtain ⟨-, t0, rest, -, rfl, rfl⟩ := (dataTable_ok cs is n m v).1 h
  refine ⟨trivial, ?_⟩
  rw [valTexts, itemsTexts_nil_of hok hty htt (by decide), ownTexts_nil _ _ _ (by decide)]; rfl

theorem nodeTexts_examplesTable : NodeTexts .ExamplesTable := by
  intro cs is n m v hok hty htt h
  obtain ⟨-, rfl, rfl⟩ := (examplesTable_ok cs is n m v).1 h
  refine ⟨trivial, ?_⟩
  rw [valTexts, itemsTexts_nil_of hok hty htt (by decide), ownTexts_nil _ _ _ (by decide)]; rfl

theorem nodeTexts_description : NodeTexts .Description := by
  intro cs is n m v hok hty htt h
  simp only [transformNode] at h
  rw [run_bind_ok] at h
  obtain ⟨ls, n1, -, h2⟩ := h
  rw [run_pure_ok] at h2
  obtain ⟨rfl, rfl⟩ := h2
  refine ⟨trivial, ?_⟩
  rw [valTexts, itemsTexts_nil_of hok hty htt (by decide), ownTexts_nil _ _ _ (by decide)]; rfl

/-- the value of a `Description` node, in terms of its `Other` lines -/
theorem description_value (cs : List Comment) (is : List (Key × Val)) (n m : Nat) (v : Val)
    (h : (transformNode cs ⟨.Description, is⟩).run.run n = (.ok v, m)) :
    v = .descr (joinWith [10] (trimDescLines ((getTokens is .Other).map fun t => t.text.getD []))) := by
  simp only [transformNode] at h
  rw [run_bind_ok] at h
  obtain ⟨ls, n1, h1, h2⟩ := h
  rw [run_pure_ok] at h2
  obtain ⟨rfl, -⟩ := h2
  obtain ⟨hm, -⟩ := run_mapM'_need_ok "description line text" (fun t : Token => t.text) _ ls n n1 h1
  rw [map_some_getD _ ls [] hm, List.map_map]
  rfl

theorem nodeTexts_docString : NodeTexts .DocString := by
  intro cs is n m v hok hty htt h
  simp only [transformNode] at h
  split at h
  · rw [run_crash_ok] at h; cases h
  · next sep tail heq =>
    simp only [run_bind_ok, run_need_ok, run_pure_ok] at h
    obtain ⟨st, _, -, dl, _, -, ls, n3, hls, rfl, -⟩ := h
    refine ⟨trivial, ?_⟩
    obtain ⟨hm, -⟩ := run_mapM'_need_ok "docstring line text" (fun t : Token => t.text) _ ls _ n3 hls
    rw [valTexts, itemsTexts_nil_of hok hty htt (by decide), List.append_nil]
    simp only [ownTexts, heq]
    rw [map_some_getD _ ls [] hm, List.map_map]
    rfl

theorem nodeTexts_step : NodeTexts .Step := by
  intro cs is n m v hok hty htt h
  obtain ⟨line, hl, kw, hkw, kt, hkt, tx, htx, rfl, rfl⟩ := (step_ok cs is n m v).1 h
  refine ⟨trivial, ?_⟩
  rw [ownTexts_nil _ _ _ (by decide), List.nil_append,
    itemsTexts_by_keys hok hty htt [.rule .DocString] (by decide) (by decide) (by simp)]
  simp only [List.flatMap_cons, List.flatMap_nil, List.append_nil]
  rw [valTexts, stepTexts]
  simp only [stepArgOf]
  rcases mapAt_single valTexts is (.rule .DataTable) (hok.order (.rule .DataTable, .rule .DataTable) (by decide)) with
    ⟨_, a2, -⟩ | ⟨v, a1, a2, -⟩
  · simp only [a2]
    rcases mapAt_single valTexts is (.rule .DocString) (hok.order (.rule .DocString, .rule .DocString) (by decide)) with
      ⟨_, b2, b3⟩ | ⟨w, b1, b2, b3⟩
    · rw [textsAt, b3]; simp only [b2]; rfl
    · obtain ⟨d, rfl⟩ : LTyped .DocString w := ltyped_of_mem_getItems hty (by rw [b1]; exact List.mem_cons_self)
      rw [textsAt, b3]; simp only [b2]; rw [valTexts]; rfl
  · obtain ⟨d, rfl⟩ : LTyped .DataTable v := ltyped_of_mem_getItems hty (by rw [a1]; exact List.mem_cons_self)
    have hex : getItems is (.rule .DocString) = [] := by
      rcases exclusive_keys is (.rule .DataTable) (.rule .DocString) (by decide)
        (hok.order (.rule .DataTable, .rule .DocString) (by decide))
        (hok.order (.rule .DocString, .rule .DataTable) (by decide)) with e | e
      · rw [a1] at e; cases e
      · exact e
    have hds : textsAt (.rule .DocString) is = [] := by rw [textsAt, mapAt, hex]; rfl
    rw [hds]; simp only [a2]; rfl

theorem nodeTexts_background : NodeTexts .Background := by
  intro cs is n m v hok hty htt h
  obtain ⟨line, hl, d, hd, kw, -, nm, -, rfl, rfl⟩ := (background_ok cs is n m v).1 h
  refine ⟨trivial, ?_⟩
  have hkl := keyLine_of_once hty .BackgroundLine (hok.order (.tok .BackgroundLine, .tok .BackgroundLine) (by decide))
  obtain ⟨hts, -⟩ := keyLine_tokens hkl hl
  rw [ownTexts_key .Background .BackgroundLine (by decide) _ _ line hts, descOf_headD hd,
    itemsTexts_by_keys hok hty htt [.rule .Step] (by decide) (by decide) (by simp)]
  simp only [List.flatMap_cons, List.flatMap_nil, List.append_nil]
  rw [textsAt_steps is hty, valTexts, backgroundTexts]
  rfl

/-- a definition node (`Tags`, then the raw node `x` with keyword line `k`): its free text is what
    the `x` node owns, then that of `x`'s items -/
theorem definition_texts {R : RuleType} {is : List (Key × Val)} (hok : ItemsOK R is)
    (hty : ∀ kv ∈ is, TypedItemL kv) (htt : ∀ kv ∈ is, TypedItemT kv) (x : RuleType)
    (hall : (nodeShape R).allowed = [.Tags, x])
    (h2 : (Sym.rule x, Sym.rule x) ∈ (nodeShape R).order)
    {rt : RuleType} {inner : List (Key × Val)} (hs : getSingle is (.rule x) = .raw rt inner) :
    itemsTexts is = valTexts (.raw rt inner) ∧ TTyped x (.raw rt inner) := by
  rw [itemsTexts_by_keys hok hty htt [.rule x] (by simp) (by rw [hall]; simp [noTextRules]) (by simp)]
  simp only [List.flatMap_cons, List.flatMap_nil, List.append_nil]
  rcases mapAt_single valTexts is (.rule x) (hok.order _ h2) with ⟨_, a2, a3⟩ | ⟨v, a1, a2, a3⟩
  · rw [hs] at a2; cases a2
  · rw [hs] at a2; subst a2
    rw [textsAt, a3]
    exact ⟨rfl, ttyped_of_mem_getItems htt (by rw [a1]; exact List.mem_cons_self)⟩

theorem nodeTexts_scenario : NodeTexts .ScenarioDefinition := by
  intro cs is n m v hok hty htt h
  obtain ⟨toks, htags, rt, sc, hs, line, hl, d, hd, kw, -, nm, -, rfl, rfl⟩ := (scenario_ok cs is n m v).1 h
  refine ⟨trivial, ?_⟩
  obtain ⟨-, sc', e2, hkl, -⟩ := definition_locs hok hty .Scenario (by decide) rfl rfl (by decide) (by decide) (by decide) hs
  cases e2
  obtain ⟨e1, e3⟩ := definition_texts hok hty htt .Scenario rfl (by decide) hs
  obtain ⟨hts, -⟩ := keyLine_tokens hkl hl
  rw [ownTexts_nil _ _ _ (by decide), List.nil_append, e1, valTexts_raw, e3 _ _ rfl,
    ownTexts_key .Scenario .ScenarioLine (by decide) _ _ line hts, descOf_headD hd, valTexts, scenarioTexts]
  rfl

theorem nodeTexts_examples : NodeTexts .ExamplesDefinition := by
  intro cs is n m v hok hty htt h
  obtain ⟨toks, htags, rt, ex, hs, line, hl, d, hd, kw, -, nm, -, rfl, rfl⟩ := (examples_ok cs is n m v).1 h
  refine ⟨trivial, ?_⟩
  obtain ⟨-, ex', e2, hkl, -⟩ := definition_locs hok hty .Examples (by decide) rfl rfl (by decide) (by decide) (by decide) hs
  cases e2
  obtain ⟨e1, e3⟩ := definition_texts hok hty htt .Examples rfl (by decide) hs
  obtain ⟨hts, -⟩ := keyLine_tokens hkl hl
  rw [ownTexts_nil _ _ _ (by decide), List.nil_append, e1, valTexts_raw, e3 _ _ rfl,
    ownTexts_key .Examples .ExamplesLine (by decide) _ _ line hts, descOf_headD hd, valTexts, examplesTexts]
  rfl

/-- the required header of a rule / feature -/
theorem header_single_texts {R : RuleType} {is : List (Key × Val)} (hok : ItemsOK R is)
    (htt : ∀ kv ∈ is, TypedItemT kv) (x : RuleType) (hx : Sym.rule x ∈ (nodeShape R).needs)
    (hone : (Sym.rule x, Sym.rule x) ∈ (nodeShape R).order) :
    TTyped x (getSingle is (.rule x)) ∧ textsAt (.rule x) is = valTexts (getSingle is (.rule x)) := by
  obtain ⟨kv, hkv, e⟩ := hok.needs (.rule x) hx
  simp only [symKey] at e
  have hne := getItems_ne_nil_of_mem is kv hkv
  rw [e] at hne
  rcases mapAt_single valTexts is (.rule x) (hok.order _ hone) with ⟨a1, _, _⟩ | ⟨v, a1, a2, a3⟩
  · exact absurd a1 hne
  · rw [a2, textsAt, a3]
    exact ⟨ttyped_of_mem_getItems htt (by rw [a1]; exact List.mem_cons_self), rfl⟩

theorem nodeTexts_rule : NodeTexts .Rule := by
  intro cs is n m v hok hty htt h
  obtain ⟨⟨hd, hh, hkl, -, line, hl⟩, -⟩ := header_single_locs hok hty .RuleHeader (by decide) (by decide)
  obtain ⟨hE, hat⟩ := header_single_texts hok htt .RuleHeader (by decide) (by decide)
  have hv : v ≠ .none := by
    simp only [transformNode, hh, hl, bind_getTags_ok, bind_getDescription_ok, bind_nextId_ok,
      bind_need_ok, run_pure_ok] at h
    obtain ⟨_, -, _, -, _, -, _, -, rfl, -⟩ := h
    exact fun h => by cases h
  obtain ⟨rt, hd', hh', toks, htags, line', hl', d, hdesc, kw, -, nm, -, rfl, rfl⟩ := (rule_ok cs is n m v hv).1 h
  rw [hh] at hh'; cases hh'
  refine ⟨trivial, ?_⟩
  obtain ⟨hts, -⟩ := keyLine_tokens hkl hl'
  rw [hh] at hE
  rw [ownTexts_nil _ _ _ (by decide), List.nil_append,
    itemsTexts_by_keys hok hty htt [.rule .RuleHeader, .rule .Background, .rule .ScenarioDefinition]
    (by decide) (by decide)
    (pairwise3 _ _ _ _ (hok.order (.rule .RuleHeader, .rule .Background) (by decide))
      (hok.order (.rule .RuleHeader, .rule .ScenarioDefinition) (by decide))
      (hok.order (.rule .Background, .rule .ScenarioDefinition) (by decide)))]
  simp only [List.flatMap_cons, List.flatMap_nil, List.append_nil]
  rw [hat, hh, valTexts_raw, hE _ _ rfl, List.append_nil,
    ownTexts_key .RuleHeader .RuleLine (by decide) _ _ line' hts, descOf_headD hdesc,
    textsAt_background is hty (hok.order (.rule .Background, .rule .Background) (by decide)),
    textsAt_scenarios is hty, valTexts, ruleTexts, ruleChildren_eq]
  simp only [List.flatMap_append, flatMap_map, ruleChildTexts]
  rfl

theorem nodeTexts_feature : NodeTexts .Feature := by
  intro cs is n m v hok hty htt h
  obtain ⟨⟨hd, hh, hkl, -, line, hl⟩, -⟩ := header_single_locs hok hty .FeatureHeader (by decide) (by decide)
  obtain ⟨hE, hat⟩ := header_single_texts hok htt .FeatureHeader (by decide) (by decide)
  have hv : v ≠ .none := by
    simp only [transformNode, hh, hl, bind_getTags_ok, bind_getDescription_ok,
      bind_need_ok, run_pure_ok] at h
    obtain ⟨_, -, _, -, _, -, _, -, rfl, -⟩ := h
    exact fun h => by cases h
  obtain ⟨rt, hd', hh', toks, htags, line', hl', d, hdesc, kw, -, nm, -, rfl, rfl⟩ := (feature_ok cs is n m v hv).1 h
  rw [hh] at hh'; cases hh'
  refine ⟨trivial, ?_⟩
  obtain ⟨hts, -⟩ := keyLine_tokens hkl hl'
  rw [hh] at hE
  rw [ownTexts_nil _ _ _ (by decide), List.nil_append,
    itemsTexts_by_keys hok hty htt
    [.rule .FeatureHeader, .rule .Background, .rule .ScenarioDefinition, .rule .Rule]
    (by decide) (by decide)
    (pairwise4 _ _ _ _ _ (hok.order (.rule .FeatureHeader, .rule .Background) (by decide))
      (hok.order (.rule .FeatureHeader, .rule .ScenarioDefinition) (by decide))
      (hok.order (.rule .FeatureHeader, .rule .Rule) (by decide))
      (hok.order (.rule .Background, .rule .ScenarioDefinition) (by decide))
      (hok.order (.rule .Background, .rule .Rule) (by decide))
      (hok.order (.rule .ScenarioDefinition, .rule .Rule) (by decide)))]
  simp only [List.flatMap_cons, List.flatMap_nil, List.append_nil]
  rw [hat, hh, valTexts_raw, hE _ _ rfl, List.append_nil,
    ownTexts_key .FeatureHeader .FeatureLine (by decide) _ _ line' hts, descOf_headD hdesc,
    textsAt_background is hty (hok.order (.rule .Background, .rule .Background) (by decide)),
    textsAt_scenarios is hty, textsAt_rules is hty, valTexts, featureTexts, featureChildren_eq]
  simp only [List.flatMap_append, flatMap_map, featureChildTexts, List.append_assoc]
  rfl

theorem nodeTexts_document : NodeTexts .GherkinDocument := by
  intro cs is n m v hok hty htt h
  rw [document_eq] at h
  simp only [res_inj, Except.ok.injEq] at h
  obtain ⟨rfl, rfl⟩ := h
  refine ⟨trivial, ?_⟩
  rw [ownTexts_nil _ _ _ (by decide), List.nil_append,
    itemsTexts_by_keys hok hty htt [.rule .Feature] (by decide) (by decide) (by simp)]
  simp only [List.flatMap_cons, List.flatMap_nil, List.append_nil]
  rw [valTexts, srcTexts, featureOf]
  rcases mapAt_single valTexts is (.rule .Feature) (hok.order (.rule .Feature, .rule .Feature) (by decide)) with
    ⟨_, a2, a3⟩ | ⟨v, a1, a2, a3⟩
  · rw [textsAt, a3]; simp only [a2]
  · obtain ⟨f, rfl⟩ : LTyped .Feature v := ltyped_of_mem_getItems hty (by rw [a1]; exact List.mem_cons_self)
    rw [textsAt, a3]; simp only [a2]; rw [valTexts]

theorem nodeTexts_all (R : RuleType) : NodeTexts R := by
  cases R
  case None_ => exact nodeTexts_raw _ (fun _ _ => rfl) (fun _ _ _ _ => trivial)
  case StepArg => exact nodeTexts_raw _ (fun _ _ => rfl) (fun _ _ _ _ => trivial)
  case DescriptionHelper => exact nodeTexts_raw _ (fun _ _ => rfl) (fun _ _ _ _ => trivial)
  case GherkinDocument => exact nodeTexts_document
  case Feature => exact nodeTexts_feature
  case FeatureHeader => exact nodeTexts_featureHeader
  case Rule => exact nodeTexts_rule
  case RuleHeader => exact nodeTexts_ruleHeader
  case Background => exact nodeTexts_background
  case ScenarioDefinition => exact nodeTexts_scenario
  case Scenario => exact nodeTexts_scenarioRaw
  case ExamplesDefinition => exact nodeTexts_examples
  case Examples => exact nodeTexts_examplesRaw
  case ExamplesTable => exact nodeTexts_examplesTable
  case Step => exact nodeTexts_step
  case DataTable => exact nodeTexts_dataTable
  case DocString => exact nodeTexts_docString
  case Tags => exact nodeTexts_tags
  case Description => exact nodeTexts_description

/-! ### the induction over the tree -/

theorem getTokens_append' (a b : List (Key × Val)) (k : Kind) : getTokens (a ++ b) k = getTokens a k ++ getTokens b k := by
  simp [getTokens, getItems_append]

theorem itemDescrs_append (a b : List (Key × Val)) : itemDescrs (a ++ b) = itemDescrs a ++ itemDescrs b := by
  simp [itemDescrs]

theorem childToks_cons (k : Kind) (c : TTree) (ts : List TTree) : childToks k (c :: ts) = childToks k [c] ++ childToks k ts := by
  simp only [childToks, List.filterMap_cons, List.filterMap_nil]
  split <;> rfl

theorem childDescrs_cons (c : TTree) (ts : List TTree) : childDescrs (c :: ts) = childDescrs [c] ++ childDescrs ts := by
  simp only [childDescrs, List.filterMap_cons, List.filterMap_nil]
  split <;> rfl

def TextsSpec (t : TTree) : Prop :=
  shaped t = true → ∀ (cs : List Comment) (n : Nat) (is : List (Key × Val)) (n' : Nat),
    (itemsOf cs t).run.run n = (.ok is, n') →
    (∀ kv ∈ is, TypedItemT kv) ∧ itemsTexts is = textsOfTree t ∧
    (∀ k, k ≠ .Comment → getTokens is k = childToks k [t]) ∧ itemDescrs is = childDescrs [t]

def TextsSpecList (ts : List TTree) : Prop :=
  shapedList ts = true → ∀ (cs : List Comment) (n : Nat) (is : List (Key × Val)) (n' : Nat),
    (itemsOfList cs ts).run.run n = (.ok is, n') →
    (∀ kv ∈ is, TypedItemT kv) ∧ itemsTexts is = textsOfTreeList ts ∧
    (∀ k, k ≠ .Comment → getTokens is k = childToks k ts) ∧ itemDescrs is = childDescrs ts

theorem textsSpec_leaf (t : Token) : TextsSpec (.leaf t) := by
  intro _ cs n is n' h
  rw [itemsOf] at h
  obtain ⟨rfl, rfl⟩ := run_leafItems_ok t n n' is h
  rw [textsOfTree]
  cases hko : keyOf (.leaf t) with
  | none =>
    refine ⟨(fun _ h => by cases h), (by simp only [Option.toList, List.map_nil]; rw [itemsTexts_nil]), ?_, rfl⟩
    intro k hk
    simp only [Option.toList, List.map_nil, childToks, List.filterMap_cons, List.filterMap_nil]
    have : t.mtype ≠ some k := by
      intro hm
      rw [keyOf_leaf_token t k hm hk] at hko; cases hko
    rw [if_neg this]; rfl
  | some key =>
    simp only [Option.toList, List.map_cons, List.map_nil]
    cases key with
    | rule r => obtain ⟨ch, e⟩ := (keyOf_rule_iff _ r).1 hko; cases e
    | tok k' =>
      obtain ⟨t', e, hm, hc⟩ := (keyOf_tok_iff _ k').1 hko
      cases e
      refine ⟨?_, by rw [itemsTexts_singleton, valTexts], ?_, rfl⟩
      · intro kv hkv
        simp only [List.mem_singleton] at hkv
        subst hkv
        trivial
      · intro k _
        simp only [childToks, List.filterMap_cons, List.filterMap_nil, hm, Option.some.injEq]
        by_cases hkk : k' = k
        · subst hkk
          simp [getTokens, getItems]
        · rw [if_neg hkk]
          have : (Key.tok k' == Key.tok k) = false := by simp [hkk]
          simp [getTokens, getItems, this]

theorem textsSpec_nil : TextsSpecList [] := by
  intro _ cs n is n' h
  rw [itemsOfList, run_pure_ok] at h
  obtain ⟨rfl, rfl⟩ := h
  refine ⟨(fun _ h => by cases h), (by rw [itemsTexts_nil, textsOfTreeList]), fun _ _ => rfl, rfl⟩

theorem textsSpec_cons (c : TTree) (ts : List TTree) (hc : TextsSpec c) (hts : TextsSpecList ts) :
    TextsSpecList (c :: ts) := by
  intro hs cs n is n' h
  simp only [shapedList, Bool.and_eq_true] at hs
  rw [run_itemsOfList_cons] at h
  rcases h1 : (itemsOf cs c).run.run n with ⟨e | i, n₁⟩
  · rw [h1] at h; simp [res_inj] at h
  · rw [h1] at h
    simp only at h
    rcases h2 : (itemsOfList cs ts).run.run n₁ with ⟨e | is', n₂⟩
    · rw [h2] at h; simp [res_inj] at h
    · rw [h2] at h
      simp only [res_inj, Except.ok.injEq] at h
      obtain ⟨rfl, rfl⟩ := h
      obtain ⟨a1, a2, a3, a4⟩ := hc hs.1 cs n i n₁ h1
      obtain ⟨b1, b2, b3, b4⟩ := hts hs.2 cs n₁ is' n₂ h2
      refine ⟨?_, ?_, ?_, ?_⟩
      · intro kv hkv
        rcases List.mem_append.1 hkv with h | h
        · exact a1 kv h
        · exact b1 kv h
      · rw [itemsTexts_append, a2, b2, textsOfTreeList]
      · intro k hk
        rw [getTokens_append', a3 k hk, b3 k hk, ← childToks_cons]
      · rw [itemDescrs_append, a4, b4, ← childDescrs_cons]

theorem textsSpec_node (r : RuleType) (ch : List TTree) (hch : TextsSpecList ch) : TextsSpec (.node r ch) := by
  intro hs cs n is n' h
  simp only [shaped, Bool.and_eq_true] at hs
  rw [run_itemsOf_node] at h
  rcases h1 : (itemsOfList cs ch).run.run n with ⟨e | is₁, n₁⟩
  · rw [h1] at h; simp [res_inj] at h
  · rw [h1] at h
    simp only at h
    rcases h2 : (transformNode cs ⟨r, is₁⟩).run.run n₁ with ⟨e | v, n₂⟩
    · rw [h2] at h; simp [res_inj] at h
    · rw [h2] at h
      simp only [res_inj, Except.ok.injEq] at h
      obtain ⟨rfl, rfl⟩ := h
      obtain ⟨a1, a2, a3, a4⟩ := hch hs.2 cs n is₁ n₁ h1
      obtain ⟨l1, -, l4⟩ := locsSpecList_all ch hs.2 cs n is₁ n₁ h1
      obtain ⟨b1, b2⟩ := nodeTexts_all r cs is₁ n₁ n₂ v (itemsOK_of_nodeOK r ch is₁ l4 hs.1) l1 a1 h2
      refine ⟨?_, ?_, ?_, ?_⟩
      · intro kv hkv
        simp only [List.mem_singleton] at hkv
        subst hkv
        exact b1
      · rw [itemsTexts_singleton, b2, a2, a4, textsOfTree, ownTexts_congr r _ _ _ a3]
      · intro k _
        simp [getTokens, getItems, childToks]
      · by_cases hr : r = .Description
        · subst hr
          rw [description_value cs is₁ n₁ n₂ v h2, a3 .Other (by decide)]
          rfl
        · simp only [itemDescrs, childDescrs, List.filterMap_cons, List.filterMap_nil]
          cases r <;> first | exact absurd rfl hr | rfl

mutual
theorem textsSpec_all : ∀ t : TTree, TextsSpec t
  | .leaf t => textsSpec_leaf t
  | .node r ch => textsSpec_node r ch (textsSpecList_all ch)
theorem textsSpecList_all : ∀ ts : List TTree, TextsSpecList ts
  | [] => textsSpec_nil
  | c :: ts => textsSpec_cons c ts (textsSpec_all c) (textsSpecList_all ts)
end

theorem valTexts_astOf (r : RuleType) (ch : List TTree) (hs : shaped (.node r ch) = true) (cs : List Comment)
    (n n' : Nat) (v : Val) (h : (astOf cs (.node r ch)).run.run n = (.ok v, n')) :
    valTexts v = textsOfTree (.node r ch) := by
  obtain ⟨-, a2, -, -⟩ := textsSpec_all _ hs cs n _ n' (itemsOf_node_ok cs r ch n n' v h)
  rw [itemsTexts_singleton] at a2
  exact a2

/-- **Descriptions and doc-string contents, once, in order.**  If the fold of a grammar-shaped token
    tree is the document `d`: the descriptions of the features, rules, backgrounds, scenarios and
    examples blocks of `d` and the contents of its doc strings, in source order and each with the
    location of its owner, are exactly what the nodes of the tree own: a description is the texts
    of the `Other` lines of the node's (first) `Description` child, trailing whitespace-only lines
    dropped, joined by line feeds — the empty string without such a child; a doc string's content
    is the texts of the `Other` lines of its `DocString` node joined by line feeds. -/
theorem texts_once_in_order (t : TTree) (hs : shaped t = true) (cs : List Comment) (n n' : Nat) (d : Doc)
    (h : (astOf cs t).run.run n = (.ok (.doc d), n')) : srcTexts d = textsOfTree t := by
  cases t with
  | leaf tk => have := astOf_leaf_ok cs tk n n' _ h; cases this
  | node r ch =>
    have := valTexts_astOf r ch hs cs n n' _ h
    rwa [valTexts] at this

/-! ### … and on the AST side -/

theorem tagLocs_eq_map (ts : List Tag) : tagLocs ts = (tagElems ts).map Elem.loc := by
  simp [tagLocs, tagElems, List.map_map, Function.comp_def, Elem.loc]
theorem rowLocs_eq_map (rs : List Row) : rowLocs rs = (rowElems rs).map Elem.loc := by
  simp [rowLocs, rowElems, List.map_map, Function.comp_def, Elem.loc]
theorem argLocs_eq_map (a : StepArg) : argLocs a = (argElems a).map Elem.loc := by
  cases a <;> simp [argLocs, argElems, rowLocs_eq_map, docStringElem, Elem.loc]
theorem stepLocs_eq_map (s : Step) : stepLocs s = (stepElems s).map Elem.loc := by
  simp [stepLocs, stepElems, argLocs_eq_map, Elem.loc]
theorem flatMap_map_loc {α} (l : List α) (f : α → List Loc) (g : α → List Elem)
    (h : ∀ a, f a = (g a).map Elem.loc) : l.flatMap f = (l.flatMap g).map Elem.loc := by
  rw [List.map_flatMap]; congr 1; funext a; exact h a
theorem backgroundLocs_eq_map (b : Background) : backgroundLocs b = (backgroundElems b).map Elem.loc := by
  simp [backgroundLocs, backgroundElems, flatMap_map_loc _ _ _ stepLocs_eq_map, Elem.loc]
theorem examplesLocs_eq_map (e : Examples) : examplesLocs e = (examplesElems e).map Elem.loc := by
  simp [examplesLocs, examplesElems, tagLocs_eq_map, rowLocs_eq_map, Elem.loc]
theorem scenarioLocs_eq_map (s : Scenario) : scenarioLocs s = (scenarioElems s).map Elem.loc := by
  simp [scenarioLocs, scenarioElems, tagLocs_eq_map, flatMap_map_loc _ _ _ stepLocs_eq_map,
    flatMap_map_loc _ _ _ examplesLocs_eq_map, Elem.loc]
theorem ruleChildLocs_eq_map (c : RuleChild) : ruleChildLocs c = (ruleChildElems c).map Elem.loc := by
  cases c <;> simp [ruleChildLocs, ruleChildElems, backgroundLocs_eq_map, scenarioLocs_eq_map]
theorem ruleLocs_eq_map (r : Rule) : ruleLocs r = (ruleElems r).map Elem.loc := by
  simp [ruleLocs, ruleElems, tagLocs_eq_map, flatMap_map_loc _ _ _ ruleChildLocs_eq_map, Elem.loc]
theorem featureChildLocs_eq_map (c : FeatureChild) : featureChildLocs c = (featureChildElems c).map Elem.loc := by
  cases c <;> simp [featureChildLocs, featureChildElems, backgroundLocs_eq_map, scenarioLocs_eq_map, ruleLocs_eq_map]
theorem featureLocs_eq_map (f : Feature) : featureLocs f = (featureElems f).map Elem.loc := by
  simp [featureLocs, featureElems, tagLocs_eq_map, flatMap_map_loc _ _ _ featureChildLocs_eq_map, Elem.loc]
/-- the locations of `Spec.srcLocs` are those of the elements of `Spec.srcElems`, in the same order -/
theorem srcLocs_eq_map (d : Doc) : srcLocs d = (srcElems d).map Elem.loc := by
  unfold srcLocs srcElems
  cases d.feature with
  | none => rfl
  | some f => exact featureLocs_eq_map f

end Lemmas
end GV
