/-
  Lemmas/RoundtripTags.lean — property C03, round trip: the rendered tag line `@a @b` is matched
  as a tag line with the tags at their columns, and fails every other specific test.
-/
import GherkinVerif.Lemmas.RoundtripLines
set_option linter.unusedSectionVars false
set_option linter.unusedSimpArgs false
namespace GV
namespace Lemmas
open Spec

theorem tagOK_spec {t : Str} (h : tagOK t = true) :
    ∃ b, t = 64 :: b ∧ (∀ c ∈ b, isSpace c = false) ∧ (∀ c ∈ b, c ≠ 64) := by
  cases t with
  | nil => simp [tagOK] at h
  | cons a b =>
    by_cases ha : a = 64
    · subst ha
      simp only [tagOK, List.all_eq_true, Bool.and_eq_true, Bool.not_eq_true', bne_iff_ne, ne_eq] at h
      exact ⟨b, rfl, fun c hc => (h c hc).1, fun c hc => (h c hc).2⟩
    · unfold tagOK at h
      split at h
      · next heq => cases heq; exact absurd rfl ha
      · cases h

theorem isSpace_64 : isSpace 64 = false := by decide

theorem nospace_clean (b : Str) (h : ∀ c ∈ b, isSpace c = false) : noWsStart b = true ∧ noWsEnd b = true := by
  induction b with
  | nil => exact ⟨rfl, rfl⟩
  | cons a b ih =>
    have ha : isSpace a = false := h a (by simp)
    refine ⟨by simp [noWsStart, ha], ?_⟩
    cases b with
    | nil => simp [noWsEnd, ha]
    | cons c r =>
      have := (ih fun x hx => h x (by simp [hx])).2
      simpa [noWsEnd] using this

theorem bwh_nospace (s : Str) (h : ∀ c ∈ s, isSpace c = false) (x : Str) :
    beforeWsHash (s ++ x) = s ++ beforeWsHash x := by
  induction s with
  | nil => rfl
  | cons a s ih =>
    have ha : isSpace a = false := h a (by simp)
    have ih' := ih fun c hc => h c (by simp [hc])
    show beforeWsHash (a :: (s ++ x)) = a :: (s ++ beforeWsHash x)
    rw [← ih']
    cases hsx : s ++ x with
    | nil => simp [beforeWsHash]
    | cons d rest => simp [beforeWsHash, ha]

theorem bwh_sep (y : Str) : beforeWsHash (32 :: 64 :: y) = 32 :: beforeWsHash (64 :: y) := by
  simp [beforeWsHash]

theorem tag_nospace {t : Str} (h : tagOK t = true) : ∀ c ∈ t, isSpace c = false := by
  obtain ⟨b, rfl, h1, -⟩ := tagOK_spec h
  intro c hc
  simp only [List.mem_cons] at hc
  rcases hc with rfl | hc
  · exact isSpace_64
  · exact h1 c hc

theorem joinWith_cons2 (sep t u : Str) (r : List Str) :
    joinWith sep (t :: u :: r) = t ++ sep ++ joinWith sep (u :: r) := rfl

/-- the joined tag line starts with `@` -/
theorem join_head (tags : List Str) (hne : tags ≠ []) (h : ∀ t ∈ tags, tagOK t = true) :
    ∃ y, joinWith [32] tags = 64 :: y := by
  cases tags with
  | nil => exact absurd rfl hne
  | cons t r =>
    obtain ⟨b, rfl, -, -⟩ := tagOK_spec (h t (by simp))
    cases r with
    | nil => exact ⟨b, rfl⟩
    | cons u r => exact ⟨_, by rw [joinWith_cons2]; rfl⟩

theorem bwh_join (tags : List Str) (h : ∀ t ∈ tags, tagOK t = true) :
    beforeWsHash (joinWith [32] tags) = joinWith [32] tags := by
  induction tags with
  | nil => rfl
  | cons t r ih =>
    cases r with
    | nil =>
      have := bwh_nospace t (tag_nospace (h t (by simp))) []
      simpa [joinWith, beforeWsHash] using this
    | cons u r =>
      have ih' := ih fun x hx => h x (by simp [hx])
      obtain ⟨y, hy⟩ := join_head (u :: r) (by simp) fun x hx => h x (by simp [hx])
      rw [joinWith_cons2, List.append_assoc, bwh_nospace t (tag_nospace (h t (by simp)))]
      rw [hy] at ih' ⊢
      show t ++ beforeWsHash (32 :: 64 :: y) = _
      rw [bwh_sep, ih']
      rfl

theorem join_noWs (tags : List Str) (hne : tags ≠ []) (h : ∀ t ∈ tags, tagOK t = true) :
    noWsStart (joinWith [32] tags) = true ∧ noWsEnd (joinWith [32] tags) = true ∧
    ∀ x ∈ joinWith [32] tags, x ≠ 10 := by
  obtain ⟨y, hy⟩ := join_head tags hne h
  refine ⟨by rw [hy]; simp [noWsStart, isSpace_64], ?_, ?_⟩
  · clear hy
    induction tags with
    | nil => exact absurd rfl hne
    | cons t r ih =>
      cases r with
      | nil => exact (nospace_clean t (tag_nospace (h t (by simp)))).2
      | cons u r =>
        have ih' := ih (by simp) fun x hx => h x (by simp [hx])
        obtain ⟨y, hy⟩ := join_head (u :: r) (by simp) fun x hx => h x (by simp [hx])
        rw [hy] at ih'
        rw [joinWith_cons2, hy]
        have : ∀ (s : Str) (z : Str) (a : Nat), noWsEnd (s ++ a :: z) = noWsEnd (a :: z) := by
          intro s z a
          induction s with
          | nil => rfl
          | cons b s ihs =>
            cases s with
            | nil => simp [noWsEnd]
            | cons b' s' => simpa [noWsEnd] using ihs
        rw [List.append_assoc]
        show noWsEnd (t ++ 32 :: 64 :: y) = true
        rw [this]
        simpa [noWsEnd] using ih'
  · clear hy
    induction tags with
    | nil => exact absurd rfl hne
    | cons t r ih =>
      have ht : ∀ x ∈ t, x ≠ 10 := fun x hx hx10 => by
        have := tag_nospace (h t (by simp)) x hx
        rw [hx10, isSpace_10] at this; cases this
      cases r with
      | nil => exact ht
      | cons u r =>
        have ih' := ih (by simp) fun x hx => h x (by simp [hx])
        rw [joinWith_cons2]
        intro x hx
        simp only [List.mem_append, List.mem_singleton] at hx
        rcases hx with (hx | rfl) | hx
        · exact ht x hx
        · decide
        · exact ih' x hx

theorem split_free (s x : Str) (y0 : Str) (ys0 : List Str) (hs : ∀ c ∈ s, c ≠ 64)
    (hx : splitOnChar 64 x = y0 :: ys0) : splitOnChar 64 (s ++ x) = (s ++ y0) :: ys0 := by
  induction s with
  | nil => exact hx
  | cons a s ih =>
    have ha : a ≠ 64 := hs a (by simp)
    have ih' := ih fun c hc => hs c (by simp [hc])
    simp only [List.cons_append, splitOnChar, beq_iff_eq, ha, if_false, ih']

/-- splitting the joined tags at `@` and running the tag loop gives the tags at their columns -/
theorem split_join (tags : List Str) (hne : tags ≠ []) (h : ∀ t ∈ tags, tagOK t = true) :
    ∃ items, splitOnChar 64 (joinWith [32] tags) = [] :: items ∧
      ∀ col, tagItems items col = .ok (tagCols col tags) := by
  induction tags with
  | nil => exact absurd rfl hne
  | cons t r ih =>
    obtain ⟨b, rfl, hb1, hb2⟩ := tagOK_spec (h t (by simp))
    have hbc := nospace_clean b hb1
    have hv : ((64 :: b).any isSpace) = false := by
      simp only [List.any_cons, isSpace_64, Bool.false_or, List.any_eq_false]
      intro x hx; simp [hb1 x hx]
    cases r with
    | nil =>
      refine ⟨[b], ?_, fun col => ?_⟩
      · have := split_free b [] [] [] hb2 rfl
        simp only [List.append_nil] at this
        simp [joinWith, splitOnChar, this]
      · simp only [tagItems, strip_id b hbc.1 hbc.2, hv, tagCols]
        rfl
    | cons u r =>
      obtain ⟨items', hsp, hti⟩ := ih (by simp) fun x hx => h x (by simp [hx])
      refine ⟨(b ++ [32]) :: items', ?_, fun col => ?_⟩
      · rw [joinWith_cons2]
        have := split_free (b ++ [32]) _ _ _ (by
          intro c hc
          simp only [List.mem_append, List.mem_singleton] at hc
          rcases hc with hc | rfl
          · exact hb2 c hc
          · decide) hsp
        simp only [List.cons_append, List.append_assoc, List.append_nil] at this ⊢
        simp only [splitOnChar, beq_self_eq_true, if_true, this]
      · have hst : strip (b ++ [32]) = b := by
          have := strip_clean [] b 32 isSpace_32 (by simp) hbc.1 hbc.2
          simpa using this
        simp only [tagItems, hst, hv, tagCols, hti]
        simp [Nat.add_assoc]

section tagline
variable {D' : List Dialect} (hf : keywordFacts D' = true) (hr : renderFacts D' = true)
variable (D : List Dialect) (μ : MState) (hμ : μ.dialect ∈ D')
variable (tags : List Str) (hne : tags ≠ []) (h : ∀ t ∈ tags, tagOK t = true)
include hne h

theorem tagline_trimmed : ∃ y, trimmed (joinWith [32] tags ++ [10]) = 64 :: y := by
  obtain ⟨y, hy⟩ := join_head tags hne h
  refine ⟨y ++ [10], ?_⟩
  rw [hy]
  simp [trimmed, lstrip, isSpace_64]

/-- the rendered tag line is matched as a tag line, tags at their columns -/
theorem tag_match (t : Token) (n : Nat) (hl : t.line = some (joinWith [32] tags ++ [10])) (hno : t.lineNo = n) :
    matchLine D .TagLine μ t (joinWith [32] tags ++ [10]) = ⟨tagTok μ n tags, μ, .matched⟩ := by
  obtain ⟨y, hy⟩ := join_head tags hne h
  obtain ⟨hj1, hj2, -⟩ := join_noWs tags hne h
  have htr : trimmed (joinWith [32] tags ++ [10]) = joinWith [32] tags ++ [10] := by
    rw [hy]; simp [trimmed, lstrip, isSpace_64]
  have hind : lineIndent (joinWith [32] tags ++ [10]) = 0 := by
    rw [hy]; simp [lineIndent, indentOf, isSpace_64]
  have hstrip : strip (joinWith [32] tags ++ [10]) = joinWith [32] tags := by
    have := strip_clean [] _ 10 isSpace_10 (by simp) hj1 hj2
    simpa using this
  obtain ⟨items, hsp, hti⟩ := split_join tags hne h
  have htags : lineTags (joinWith [32] tags ++ [10]) = .ok (tagCols 1 tags) := by
    simp only [lineTags, htr, hstrip, bwh_join tags h, strip_id _ hj1 hj2, hsp, hind,
      List.drop_succ_cons, List.drop_zero, Nat.zero_add]
    exact hti 1
  have hsw : lineStartsWith (joinWith [32] tags ++ [10]) [64] = true := by
    rw [lineStartsWith, htr, hy]; simp [startsWith]
  cases t
  simp only at hl hno
  subst hl hno
  simp [matchLine, hsw, htags, setMatched, tagTok, hind]

include hf hr hμ

/-- … and fails every other specific test, token and matcher untouched -/
theorem tagline_others_no (hsep : μ.activeSep = none) (t : Token) (K : Kind) (hK : K ≠ .TagLine)
    (hO : K ≠ .Other) : matchLine D K μ t (joinWith [32] tags ++ [10]) = ⟨t, μ, .no⟩ := by
  obtain ⟨y, hy⟩ := tagline_trimmed tags hne h
  have hkw : ∀ k ∈ μ.dialect.allKeywords, ∀ x : Str, startsWith (k ++ x) (64 :: y) = false := by
    intro k hk x
    obtain ⟨⟨c, r, rfl, -, -, hc, -⟩, -⟩ := renderFacts_spec hr hμ hk
    simp [startsWith, hc]
  by_cases hK2 : K.isTitle = true ∨ K = .StepLine
  · apply matchLine_foreign D μ t _ _ _ K hK2
    · intro k hk; rw [hy]; exact hkw k (mem_allKeywords_title hk) [58]
    · intro k hk; rw [hy]
      have := hkw k (mem_allKeywords_step hk) []
      rwa [List.append_nil] at this
  · cases K
    case EOF => rfl
    case Empty => exact no_Empty D μ t _ _ _ hy
    case Comment => exact no_Comment D μ t _ _ _ hy (by decide)
    case TagLine => exact absurd rfl hK
    case TableRow => exact no_TableRow D μ t _ _ _ hy (by decide)
    case Language => exact no_Language D μ t _ _ _ hy (by decide)
    case DocStringSeparator => exact no_DocSep D μ t _ _ _ hsep hy (by decide) (by decide)
    case Other => exact absurd rfl hO
    all_goals exact absurd (by simp [Kind.isTitle]) hK2

end tagline

end Lemmas
end GV
