/-
  Lemmas/TextMain.lean — one line of the queue-free parse against one step of the text-level
  acceptor, the whole loop, and the acceptance theorem (C02_text_accept_iff).
-/
import GherkinVerif.Lemmas.TextParse
import GherkinVerif.Lemmas.GlueTerm
namespace GV
namespace Lemmas
open Spec

/-! ### what one `match_token` must achieve -/

/-- something other than a ragged-table error has been recorded (or the model crashed) -/
def Unclean (r : Except Abort Nat) (c' : Ctx) : Prop := NR c' ∨ ∃ w, r = .error (.crash w)

/-- branch `b` was taken without a raise: new state and matcher state as the acceptor computes them;
    the error list is still clean, or a peek met a raising tag line and the acceptor rejects the rest -/
def Clean (D : List Dialect) (T : Table) (μ : MState) (l : Str) (ls : List Str) (b : Branch)
    (r : Except Abort Nat) (c' : Ctx) : Prop :=
  (∀ s', r = .ok s' → s' = b.target ∧ c'.μ = muAfter D μ l b.kind) ∧
  (AR c' ∨ (NR c' ∧ textAccepts D T b.target (muAfter D μ l b.kind) ls = false))

def LinePost (D : List Dialect) (T : Table) (μ : MState) (l : Str) (ls : List Str) (bs : List Branch)
    (r : Except Abort Nat) (c' : Ctx) : Prop :=
  match pickBranch T (intrinsicKind D μ l) (kindsOf D μ ls) bs with
  | none => Unclean r c'
  | some b => if raisesBefore D μ l b bs = true then Unclean r c' else Clean D T μ l ls b r c'

section
variable {D : List Dialect} {T : Table} {μ : MState} {l : Str} {ls : List Str} {b0 : Branch} {rest : List Branch}
  {r : Except Abort Nat} {c' : Ctx}

theorem linePost_raise (hz : raises D μ l b0.kind = true) (hu : Unclean r c') :
    LinePost D T μ l ls (b0 :: rest) r c' := by
  unfold LinePost
  cases pickBranch T (intrinsicKind D μ l) (kindsOf D μ ls) (b0 :: rest) with
  | none => exact hu
  | some b =>
    dsimp only
    rw [raisesBefore, hz, Bool.true_or, if_pos rfl]
    exact hu

theorem linePost_skip
    (hfail : (passes (intrinsicKind D μ l) b0.kind && guardOkAbs T b0 (kindsOf D μ ls)) = false)
    (hz : raises D μ l b0.kind = false) (h : LinePost D T μ l ls rest r c') :
    LinePost D T μ l ls (b0 :: rest) r c' := by
  unfold LinePost at h ⊢
  rw [pickBranch, hfail]
  simp only [Bool.false_eq_true, if_false]
  cases hp : pickBranch T (intrinsicKind D μ l) (kindsOf D μ ls) rest with
  | none => rw [hp] at h; exact h
  | some b =>
    rw [hp] at h
    dsimp only at h ⊢
    have hne : (b0 == b) = false := by
      cases hb : b0 == b with
      | false => rfl
      | true =>
        exfalso
        have hbb : b0 = b := by simpa using hb
        obtain ⟨-, h1, h2⟩ := pick_mem hp
        rw [hbb, h1, h2] at hfail
        cases hfail
    rw [raisesBefore, hz, hne]
    simpa using h

theorem linePost_take
    (hok : (passes (intrinsicKind D μ l) b0.kind && guardOkAbs T b0 (kindsOf D μ ls)) = true)
    (hz : raises D μ l b0.kind = false) (h : Clean D T μ l ls b0 r c') :
    LinePost D T μ l ls (b0 :: rest) r c' := by
  unfold LinePost
  rw [pickBranch, hok]
  simp only [if_true]
  rw [raisesBefore, hz]
  simp only [beq_self_eq_true, Bool.not_true, Bool.false_and, Bool.or_false, Bool.false_eq_true, if_false]
  exact h

end

theorem rb_tagNext {D : List Dialect} {T : Table} {μ : MState} {l : Str} {fut : List Kind}
    (hz : raises D μ l .TagLine = false) : ∀ {bs : List Branch} {b : Branch},
    tagNext T bs = true → guardTail T bs = true → pickBranch T .TagLine fut bs = some b →
      raisesBefore D μ l b bs = false := by
  intro bs
  induction bs with
  | nil => intro b h; cases h
  | cons b1 bs ih =>
    intro b hn hgt h
    simp only [tagNext, Bool.and_eq_true, beq_iff_eq] at hn
    simp only [guardTail, Bool.and_eq_true, Bool.or_eq_true, beq_iff_eq] at hgt
    rw [raisesBefore, hn.1, hz, Bool.false_or]
    unfold pickBranch at h
    split at h
    · cases h; simp
    · rename_i hc
      have hpass : passes .TagLine b1.kind = true := by rw [hn.1]; rfl
      have hgo : guardOkAbs T b1 fut = false := by simpa [hpass] using hc
      rcases hgt.1 with hg | hg
      · rw [guardOk_unguarded (by simpa using hg)] at hgo; cases hgo
      · rw [ih hg.2 hgt.2 h, Bool.and_false]

theorem unexpectedErr_bad (row : StateRow) (t : Token) : badE (unexpectedErr row t) := by
  have h1 : lit "unexpected end of file, expected: " = 117 :: lit "nexpected end of file, expected: " := by decide
  have h2 : lit "expected: " = 101 :: lit "xpected: " := by decide
  unfold unexpectedErr
  split
  · refine ⟨(by intro h; cases h), ?_⟩
    show (lit "unexpected end of file, expected: " ++ _).head? ≠ some 105
    rw [h1]; simp
  · refine ⟨(by intro h; cases h), ?_⟩
    show (lit "expected: " ++ _ ++ _ ++ _ ++ _).head? ≠ some 105
    rw [h2]; simp

/-! ### `match_token` of the queue-free parse leaves the scanner alone -/

def ScanM {α} (m : PM α) : Prop := ∀ c r c', run m c = (r, c') → ScanEq c c'

theorem ScanEq.rfl' (c : Ctx) : ScanEq c c := ⟨rfl, rfl, rfl⟩

theorem FootB'.scanEq {c c' : Ctx} (h : FootB' c c') : ScanEq c c' := by
  obtain ⟨_, _, _, _, rfl⟩ := h; exact ⟨rfl, rfl, rfl⟩

theorem ScanM.pure {α} (a : α) : ScanM (Pure.pure a : PM α) := by
  intro c r c' h; rw [prun_pure] at h; cases h; exact ScanEq.rfl' _
theorem ScanM.throw {α} (e : Abort) : ScanM (throw e : PM α) := by
  intro c r c' h; rw [prun_throw] at h; cases h; exact ScanEq.rfl' _
theorem ScanM.bind {α β} {m : PM α} {f : α → PM β} (h1 : ScanM m) (h2 : ∀ a, ScanM (f a)) : ScanM (m >>= f) := by
  intro c r c' h
  rw [prun_bind] at h
  rcases hr : run m c with ⟨r1, c1⟩
  rw [hr] at h
  have e1 := h1 c r1 c1 hr
  cases r1 with
  | ok a => exact e1.trans (h2 a c1 r c' h)
  | error e => cases h; exact e1

theorem ScanM.matchAny (D : List Dialect) (cap : Nat) (stop : Bool) (ks : List Kind) (t : Token) :
    ScanM (matchAny D cap stop ks t) := fun c r c' h => (matchAny_foot D cap stop ks t c r c' h).scan

theorem ScanM.peekLoop (D : List Dialect) (cap : Nat) (stop : Bool) (la : LookAhead) : ∀ (ls : List Str) (n : Nat),
    ScanM (peekLoop D cap stop la ls n) := by
  intro ls
  induction ls with
  | nil =>
    intro n
    unfold Spec.peekLoop
    refine ScanM.bind (ScanM.matchAny D cap stop _ _) fun x => ?_
    obtain ⟨m, t1⟩ := x
    dsimp only
    split
    · exact ScanM.pure _
    · exact ScanM.bind (ScanM.matchAny D cap stop _ _) fun _ => ScanM.pure _
  | cons l ls ih =>
    intro n
    unfold Spec.peekLoop
    refine ScanM.bind (ScanM.matchAny D cap stop _ _) fun x => ?_
    obtain ⟨m, t1⟩ := x
    dsimp only
    split
    · exact ScanM.pure _
    · refine ScanM.bind (ScanM.matchAny D cap stop _ _) fun y => ?_
      obtain ⟨s, t2⟩ := y
      dsimp only
      split
      · exact ih _
      · exact ScanM.pure _

theorem run_lookaheadPure (D : List Dialect) (cap : Nat) (stop : Bool) (la : LookAhead) (c : Ctx) :
    run (lookaheadPure D cap stop la) c = run (peekLoop D cap stop la c.lines (c.lineNo + 1)) c := by
  rw [lookaheadPure, prun_bind, run_get]

theorem ScanM.lookaheadPure (D : List Dialect) (cap : Nat) (stop : Bool) (la : LookAhead) :
    ScanM (Spec.lookaheadPure D cap stop la) := by
  intro c r c' h
  rw [run_lookaheadPure] at h
  exact ScanM.peekLoop D cap stop la _ _ c r c' h

theorem ScanM.tryBranchesPure (D : List Dialect) (T : Table) (stop : Bool) (row : StateRow) (bs : List Branch)
    (t : Token) : ScanM (Spec.tryBranchesPure D T stop row bs t) := by
  induction bs generalizing t with
  | nil =>
    intro c r c' h
    rw [tail_pure_eq D T stop row (t := t) (t' := t) rfl rfl] at h
    obtain ⟨⟨es, un, rfl⟩, -⟩ := tail_spec D T stop row t h
    exact ⟨rfl, rfl, rfl⟩
  | cons b bs ih =>
    unfold Spec.tryBranchesPure
    refine ScanM.bind (fun c r c' h => (matchP_foot D _ stop _ _ c r c' h).scan) fun x => ?_
    obtain ⟨m, t'⟩ := x
    dsimp only
    split
    · have cont : ∀ ok : Bool, ScanM (if ok = true then do
            GV.runProds T.errorCap stop t' b.prods
            Pure.pure b.target
          else Spec.tryBranchesPure D T stop row bs t') := by
        intro ok
        split
        · exact ScanM.bind (fun c r c' h => (runProds_foot' _ stop t' b.prods c r c' h).scanEq) fun _ => ScanM.pure _
        · exact ih _
      split
      · exact ScanM.bind (ScanM.pure _) cont
      · split
        · exact ScanM.bind (ScanM.lookaheadPure D _ stop _) cont
        · exact ScanM.bind (ScanM.throw _) cont
    · exact ih _

/-! ### one line -/

/-- `runProds …; pure target` from a context in which the branch has just matched -/
theorem finish_clean {D : List Dialect} {T : Table} {μ : MState} {l : Str} {ls : List Str} {b : Branch}
    {t1 : Token} {c1 : Ctx} {r : Except Abort Nat} {c' : Ctx}
    (h : run (do runProds T.errorCap false t1 b.prods; Pure.pure b.target : PM Nat) c1 = (r, c'))
    (hμ1 : c1.μ = muAfter D μ l b.kind)
    (hpre : AR c1 ∨ (NR c1 ∧ textAccepts D T b.target (muAfter D μ l b.kind) ls = false)) :
    (c'.lines = c1.lines ∧ c'.lineNo = c1.lineNo) ∧ Clean D T μ l ls b r c' := by
  rw [prun_bind] at h
  rcases hr2 : run (runProds T.errorCap false t1 b.prods) c1 with ⟨r2, c2⟩
  rw [hr2] at h
  obtain ⟨hf2, heff2, har2⟩ := runProds_spec b.prods hr2
  have hsc := hf2.scanEq
  have hμ2 : c2.μ = c1.μ := hf2.same.2.1
  have hpost : AR c2 ∨ (NR c2 ∧ textAccepts D T b.target (muAfter D μ l b.kind) ls = false) := by
    rcases hpre with h1 | ⟨h1, h2⟩
    · exact .inl (har2 h1)
    · exact .inr ⟨heff2.1.nr h1, h2⟩
  cases r2 with
  | error a =>
    cases h
    exact ⟨⟨hsc.2.1, hsc.2.2⟩, ⟨(fun s' hs => by cases hs), hpost⟩⟩
  | ok _ =>
    dsimp only at h
    rw [prun_pure] at h
    cases h
    exact ⟨⟨hsc.2.1, hsc.2.2⟩, ⟨(fun s' hs => by cases hs; exact ⟨rfl, hμ2.trans hμ1⟩), hpost⟩⟩

theorem line_step {D : List Dialect} {T : Table} (hf : textDialectFacts D = true) (F : QF D T) (row : StateRow)
    (μ : MState) (hμ : MuOK D μ) (l : Str) (ls : List Str) :
    ∀ (bs : List Branch), guardTail T bs = true → ∀ (t : Token), t.line = some l →
      ∀ (c : Ctx), c.μ = μ → c.lines = ls →
      (AR c ∨ (NR c ∧ Doomed D T μ ls ∧ intrinsicKind D μ l = .TagLine ∧ tagNext T bs = true)) →
      ∀ r c', run (tryBranchesPure D T false row bs t) c = (r, c') →
        (c'.lines = ls ∧ c'.lineNo = c.lineNo) ∧ LinePost D T μ l ls bs r c' := by
  intro bs
  induction bs with
  | nil =>
    intro _ t _ c _ hcl hpre r c' h
    rw [tail_pure_eq D T false row (t := t) (t' := t) rfl rfl] at h
    obtain ⟨⟨es, un, rfl⟩, -⟩ := tail_spec D T false row t h
    refine ⟨⟨hcl, rfl⟩, ?_⟩
    unfold LinePost
    rw [pickBranch]
    left
    rcases hpre with hc | ⟨-, -, -, hn⟩
    · -- the unexpected-line error is recorded
      rw [tryBranches, prun_bind, run_modify] at h
      dsimp only at h
      simp only [Bool.false_eq_true, if_false] at h
      rw [prun_bind] at h
      rcases ha : run (addError T.errorCap (unexpectedErr row t)) { c with unexpected := c.unexpected ++ [t.lineNo] }
        with ⟨r2, c2⟩
      rw [ha] at h
      have hnr := addError_bad ha (unexpectedErr_bad row t) hc
      cases r2 with
      | ok _ => dsimp only at h; rw [prun_pure] at h; cases h; exact hnr
      | error a => cases h; exact hnr
    · cases hn
  | cons b0 rest ih =>
    intro hgt t hl c hcμ hcl hpre r c' h
    simp only [guardTail, Bool.and_eq_true, Bool.or_eq_true, beq_iff_eq] at hgt
    obtain ⟨hhead, hgt'⟩ := hgt
    rw [tryBranchesPure, prun_bind] at h
    rcases hr1 : run (matchP D T.errorCap false b0.kind t) c with ⟨r1, c1⟩
    rw [hr1] at h
    obtain ⟨hf1, heff1, hyes, hno⟩ := matchP_text hl hr1
    rw [hcμ] at hyes hno
    have hsc1 := hf1.scan
    have hl1' : c1.lines = ls := hsc1.2.1.trans hcl
    have hvp : verdict D μ l b0.kind = passes (intrinsicKind D μ l) b0.kind := kind_unique hf D μ hμ.1 hμ.2 l b0.kind
    cases hv : verdict D μ l b0.kind with
    | false =>
      obtain ⟨hμ1, hval, hnz, hz⟩ := hno hv
      have hpass : passes (intrinsicKind D μ l) b0.kind = false := by rw [← hvp]; exact hv
      have hfail : (passes (intrinsicKind D μ l) b0.kind && guardOkAbs T b0 (kindsOf D μ ls)) = false := by
        rw [hpass]; rfl
      -- the dirty precondition is impossible here: the next test would be a tag-line test that passes
      have hAR : AR c := by
        rcases hpre with hc | ⟨-, -, hk, hn⟩
        · exact hc
        · exfalso
          simp only [tagNext, Bool.and_eq_true, beq_iff_eq] at hn
          rw [hk, hn.1] at hpass
          cases hpass
      cases hzz : raises D μ l b0.kind with
      | true =>
        have hnr1 : NR c1 := hz hzz hAR
        cases r1 with
        | error a => cases h; exact ⟨⟨hl1', hsc1.2.2⟩, linePost_raise hzz (.inl hnr1)⟩
        | ok x =>
          obtain ⟨m1, t1⟩ := x
          obtain ⟨hm1, ht1⟩ := hval _ rfl
          dsimp only at hm1 ht1 h
          subst hm1
          simp only [Bool.false_eq_true, if_false] at h
          have hgrow := (EffM.tryBranchesPure D T row rest t1 c1 r c' h).1
          have hsc := ScanM.tryBranchesPure D T false row rest t1 c1 r c' h
          exact ⟨⟨hsc.2.1.trans hl1', hsc.2.2.trans hsc1.2.2⟩, linePost_raise hzz (.inl (hgrow.nr hnr1))⟩
      | false =>
        obtain ⟨he1, x, rfl⟩ := hnz hzz
        obtain ⟨m1, t1⟩ := x
        obtain ⟨hm1, ht1⟩ := hval _ rfl
        dsimp only at hm1 ht1 h
        subst hm1
        simp only [Bool.false_eq_true, if_false] at h
        have hAR1 : AR c1 := fun e he => by rw [he1] at he; exact hAR e he
        obtain ⟨hsc, hpost⟩ := ih hgt' t1 ht1 c1 hμ1 hl1' (.inl hAR1) r c' h
        exact ⟨⟨hsc.1, hsc.2.trans hsc1.2.2⟩, linePost_skip hfail hzz hpost⟩
    | true =>
      obtain ⟨hμ1, he1, t1, rfl, ht1⟩ := hyes hv
      have hpass : passes (intrinsicKind D μ l) b0.kind = true := by rw [← hvp]; exact hv
      have hzz : raises D μ l b0.kind = false := by
        cases hz : raises D μ l b0.kind with
        | false => rfl
        | true => rw [(raises_imp D μ l b0.kind hz).2] at hv; cases hv
      -- error list after the test: as before
      have hpre1 : AR c1 ∨ (NR c1 ∧ Doomed D T μ ls ∧ intrinsicKind D μ l = .TagLine ∧ tagNext T (b0 :: rest) = true) := by
        rcases hpre with hc | ⟨hn, hd⟩
        · exact .inl fun e he => by rw [he1] at he; exact hc e he
        · exact .inr ⟨heff1.1.nr hn, hd⟩
      dsimp only at h
      simp only [if_true] at h
      cases hg : b0.guard with
      | none =>
        rw [hg] at h
        dsimp only at h
        rw [prun_bind, prun_pure] at h
        dsimp only at h
        simp only [if_true] at h
        have hok : (passes (intrinsicKind D μ l) b0.kind && guardOkAbs T b0 (kindsOf D μ ls)) = true := by
          rw [hpass, guardOk_unguarded hg]; rfl
        have hpre2 : AR c1 ∨ (NR c1 ∧ textAccepts D T b0.target (muAfter D μ l b0.kind) ls = false) := by
          rcases hpre1 with h1 | ⟨h1, hd, hk, hn⟩
          · exact .inl h1
          · simp only [tagNext, Bool.and_eq_true, beq_iff_eq] at hn
            refine .inr ⟨h1, ?_⟩
            rw [hn.1, muAfter_stable D μ l .TagLine rfl]
            exact hd _ hn.2
        obtain ⟨hsc, hclean⟩ := finish_clean h hμ1 hpre2
        exact ⟨⟨hsc.1.trans hl1', hsc.2.trans hsc1.2.2⟩, linePost_take hok hzz hclean⟩
      | some i =>
        rw [hg] at h
        dsimp only at h
        obtain ⟨⟨hkind, htag⟩, hnext⟩ : (b0.kind = .TagLine ∧ isTag T b0.target = true) ∧ tagNext T rest = true := by
          rcases hhead with hh | hh
          · rw [hg] at hh; cases hh
          · exact hh
        have hk : intrinsicKind D μ l = .TagLine := passes_tagLine (by rw [← hkind]; exact hpass)
        have hmu : muAfter D μ l b0.kind = μ := by rw [hkind]; exact muAfter_stable D μ l .TagLine rfl
        have hzT : raises D μ l .TagLine = false := by rw [← hkind]; exact hzz
        rw [hmu] at hμ1
        -- whatever is picked later in this run of tag-line tests leads to a tag state
        have hlater : ∀ b, pickBranch T (intrinsicKind D μ l) (kindsOf D μ ls) rest = some b →
            b.kind = .TagLine ∧ isTag T b.target = true ∧ raisesBefore D μ l b rest = false := by
          intro b hb
          rw [hk] at hb
          obtain ⟨h1, h2⟩ := pick_tagNext hnext hgt' hb
          exact ⟨h1, h2, rb_tagNext hzT hnext hgt' hb⟩
        cases hla : T.lookaheads[i]? with
        | none =>
          rw [hla] at h
          dsimp only at h
          rw [prun_bind, prun_throw] at h
          cases h
          have hgo : guardOkAbs T b0 (kindsOf D μ ls) = false := by unfold guardOkAbs; rw [hg]; dsimp only; rw [hla]
          have hfail : (passes (intrinsicKind D μ l) b0.kind && guardOkAbs T b0 (kindsOf D μ ls)) = false := by
            rw [hgo, Bool.and_false]
          refine ⟨⟨hl1', hsc1.2.2⟩, linePost_skip hfail hzz ?_⟩
          unfold LinePost
          cases hp : pickBranch T (intrinsicKind D μ l) (kindsOf D μ ls) rest with
          | none => exact .inr ⟨_, rfl⟩
          | some b =>
            obtain ⟨hbk, hbt, hrb⟩ := hlater b hp
            dsimp only
            rw [hrb]
            simp only [Bool.false_eq_true, if_false]
            refine ⟨(fun s' hs => by cases hs), ?_⟩
            rcases hpre1 with h1 | ⟨h1, hd, -, -⟩
            · exact .inl h1
            · exact .inr ⟨h1, by rw [hbk, muAfter_stable D μ l .TagLine rfl]; exact hd _ hbt⟩
        | some la =>
          rw [hla] at h
          dsimp only at h
          rw [prun_bind] at h
          rcases hrl : run (lookaheadPure D T.errorCap false la) c1 with ⟨r2, c2⟩
          rw [hrl] at h
          have hgrow2 := (EffM.lookaheadPure D T.errorCap la c1 r2 c2 hrl).1
          rw [run_lookaheadPure, hl1'] at hrl
          obtain ⟨hf2, hμ2, hval2, hcase2⟩ := peek_text hf F hla ls _ c1 (by rw [hμ1]; exact hμ) r2 c2 hrl
          rw [hμ1] at hval2 hcase2
          have hsc2 := hf2.scan
          have hgoeq : guardOkAbs T b0 (kindsOf D μ ls) = peekAbs la (kindsOf D μ ls) := by
            unfold guardOkAbs; rw [hg]; dsimp only; rw [hla]
          -- the error list after the peek: clean, or dirty and doomed
          have hD2 : AR c2 ∨ (NR c2 ∧ Doomed D T μ ls) := by
            rcases hpre1 with h1 | ⟨h1, hd, -, -⟩
            · exact hcase2 h1
            · exact .inr ⟨hgrow2.nr h1, hd⟩
          have hdoom : ∀ b : Branch, b.kind = .TagLine → isTag T b.target = true →
              AR c2 ∨ (NR c2 ∧ textAccepts D T b.target (muAfter D μ l b.kind) ls = false) := by
            intro b hbk hbt
            rcases hD2 with h1 | ⟨h1, hd⟩
            · exact .inl h1
            · exact .inr ⟨h1, by rw [hbk, muAfter_stable D μ l .TagLine rfl]; exact hd _ hbt⟩
          have hl2' : c2.lines = ls := hsc2.2.1.trans hl1'
          have hn2 : c2.lineNo = c.lineNo := hsc2.2.2.trans hsc1.2.2
          cases hgo : peekAbs la (kindsOf D μ ls) with
          | true =>
            have hok : (passes (intrinsicKind D μ l) b0.kind && guardOkAbs T b0 (kindsOf D μ ls)) = true := by
              rw [hpass, hgoeq, hgo]; rfl
            cases r2 with
            | error a =>
              cases h
              exact ⟨⟨hl2', hn2⟩, linePost_take hok hzz ⟨(fun s' hs => by cases hs), hdoom b0 hkind htag⟩⟩
            | ok ok =>
              have := hval2 ok rfl
              rw [hgo] at this
              subst this
              dsimp only at h
              simp only [if_true] at h
              obtain ⟨hsc, hclean⟩ := finish_clean (μ := μ) (l := l) (ls := ls) h (by rw [hmu]; exact hμ2.trans hμ1)
                (hdoom b0 hkind htag)
              exact ⟨⟨hsc.1.trans hl2', hsc.2.trans hn2⟩, linePost_take hok hzz hclean⟩
          | false =>
            have hfail : (passes (intrinsicKind D μ l) b0.kind && guardOkAbs T b0 (kindsOf D μ ls)) = false := by
              rw [hgoeq, hgo, Bool.and_false]
            cases r2 with
            | error a =>
              cases h
              refine ⟨⟨hl2', hn2⟩, linePost_skip hfail hzz ?_⟩
              unfold LinePost
              obtain ⟨b, hp⟩ := pick_total_tag (fut := kindsOf D μ ls) hnext hgt'
              rw [hk, hp]
              rw [← hk] at hp
              obtain ⟨hbk, hbt, hrb⟩ := hlater b hp
              dsimp only
              rw [hrb]
              simp only [Bool.false_eq_true, if_false]
              exact ⟨(fun s' hs => by cases hs), hdoom b hbk hbt⟩
            | ok ok =>
              have := hval2 ok rfl
              rw [hgo] at this
              subst this
              dsimp only at h
              simp only [Bool.false_eq_true, if_false] at h
              have hpre3 : AR c2 ∨ (NR c2 ∧ Doomed D T μ ls ∧ intrinsicKind D μ l = .TagLine ∧ tagNext T rest = true) := by
                rcases hD2 with h1 | ⟨h1, hd⟩
                · exact .inl h1
                · exact .inr ⟨h1, hd, hk, hnext⟩
              obtain ⟨hsc, hpost⟩ := ih hgt' t1 ht1 c2 (hμ2.trans hμ1) hl2' hpre3 r c' h
              exact ⟨⟨hsc.1, hsc.2.trans hn2⟩, linePost_skip hfail hzz hpost⟩

/-! ### the matcher state stays one the parse can be in -/

theorem docsep_mu {μ μ' : MState} {t t' : Token} {l sep : Str} {o : Bool}
    (h : matchDocSep μ t l sep o = some (t', μ')) :
    μ'.activeSep = (if o then some sep else none) ∧ μ'.dialect = μ.dialect := by
  unfold matchDocSep at h
  split at h
  · cases o <;> (simp only [Bool.false_eq_true, if_false, if_true] at h ⊢; cases h; exact ⟨rfl, rfl⟩)
  · cases h

theorem muAfter_ok (D : List Dialect) (μ : MState) (hμ : MuOK D μ) (l : Str) (K : Kind) : MuOK D (muAfter D μ l K) := by
  refine ⟨matchTok_dialect D K μ (probe l) hμ.1, ?_⟩
  by_cases hK : stableKind K = true
  · rw [muAfter_stable D μ l K hK]; exact hμ.2
  · unfold muAfter
    cases K <;> first | exact absurd rfl hK | skip
    · exact hμ.2
    · simp only [matchLine]; split <;> exact hμ.2
    · -- DocStringSeparator
      have hor : ∀ t' μ', ((matchDocSep μ (probe l) l dq3 true).orElse fun _ => matchDocSep μ (probe l) l bt3 true) = some (t', μ') →
          sepOK μ' = true := by
        intro t' μ' hm
        cases ha : matchDocSep μ (probe l) l dq3 true with
        | some x =>
          rw [ha] at hm; simp only [Option.orElse] at hm; cases hm
          simp [sepOK, (docsep_mu ha).1]
        | none =>
          rw [ha] at hm; simp only [Option.orElse] at hm
          simp [sepOK, (docsep_mu hm).1]
      simp only [matchLine]
      split
      · rename_i t' μ' hr
        dsimp only
        split at hr
        · exact hor _ _ hr
        · split at hr
          · exact hor _ _ hr
          · simp [sepOK, (docsep_mu hr).1]
      · exact hμ.2
    · simp only [matchLine]; split <;> exact hμ.2
    · -- Language
      simp only [matchLine]
      split
      · exact hμ.2
      · split
        · exact hμ.2
        · exact hμ.2
    · exact hμ.2

/-! ### the end-of-file token -/

theorem passes_EOF (K : Kind) : passes .EOF K = (K == .EOF) := by cases K <;> rfl

theorem eof_step {D : List Dialect} {T : Table} (row : StateRow) :
    ∀ (bs : List Branch), guardTail T bs = true → ∀ (t : Token), t.line = none →
      ∀ (c : Ctx), AR c → ∀ r c', run (tryBranchesPure D T false row bs t) c = (r, c') →
        match pickBranch T .EOF [] bs with
        | none => NR c'
        | some _ => AR c' := by
  intro bs
  induction bs with
  | nil =>
    intro _ t _ c hc r c' h
    rw [tail_pure_eq D T false row (t := t) (t' := t) rfl rfl, tryBranches, prun_bind, run_modify] at h
    dsimp only at h
    simp only [Bool.false_eq_true, if_false] at h
    rw [prun_bind] at h
    rcases ha : run (addError T.errorCap (unexpectedErr row t)) { c with unexpected := c.unexpected ++ [t.lineNo] }
      with ⟨r2, c2⟩
    rw [ha] at h
    have hnr := addError_bad ha (unexpectedErr_bad row t) hc
    rw [pickBranch]
    cases r2 with
    | ok _ => dsimp only at h; rw [prun_pure] at h; cases h; exact hnr
    | error a => cases h; exact hnr
  | cons b0 rest ih =>
    intro hgt t hl c hc r c' h
    simp only [guardTail, Bool.and_eq_true, Bool.or_eq_true, beq_iff_eq] at hgt
    rw [tryBranchesPure, prun_bind] at h
    rcases hr1 : run (matchP D T.errorCap false b0.kind t) c with ⟨r1, c1⟩
    rw [hr1] at h
    obtain ⟨hf1, hμ1, he1, t1, rfl, hl1⟩ := matchP_eofTok hl hr1
    have hAR1 : AR c1 := fun e he => by rw [he1] at he; exact hc e he
    rw [pickBranch, passes_EOF]
    cases hk : b0.kind == Kind.EOF with
    | false =>
      rw [hk] at h
      dsimp only at h
      simp only [Bool.false_eq_true, if_false, Bool.false_and] at h ⊢
      exact ih hgt.2 t1 hl1 c1 hAR1 r c' h
    | true =>
      rw [hk] at h
      dsimp only at h
      simp only [if_true] at h
      have hg : b0.guard = none := by
        rcases hgt.1 with hn | hn
        · simpa using hn
        · rw [hn.1.1] at hk; cases hk
      rw [hg] at h
      dsimp only at h
      rw [prun_bind, prun_pure] at h
      dsimp only at h
      simp only [if_true] at h
      rw [guardOk_unguarded hg]
      simp only [Bool.and_self, if_true]
      rw [prun_bind] at h
      rcases hr2 : run (runProds T.errorCap false t1 b0.prods) c1 with ⟨r2, c2⟩
      rw [hr2] at h
      obtain ⟨-, -, har2⟩ := runProds_spec b0.prods hr2
      cases r2 with
      | error a => cases h; exact har2 hAR1
      | ok _ => dsimp only at h; rw [prun_pure] at h; cases h; exact har2 hAR1

/-! ### the whole loop -/

/-- the run was cut short: a crash of the model, fuel, or the error limit -/
def Aborted {α} (cap : Nat) (r : Except Abort α) : Prop :=
  ∃ a, r = .error a ∧ ((∃ w, a = .crash w) ∨ a = .fuel ∨ ∃ es, a = .composite es ∧ cap < es.length)

theorem Aborted.of_abOK {α} {cap : Nat} {a : Abort} {c' : Ctx} (h : AbOK cap a c') :
    Aborted cap (.error a : Except Abort α) := by
  rcases h with ⟨h1, h2⟩ | h | h
  · exact ⟨a, rfl, .inr (.inr ⟨_, h1, h2⟩)⟩
  · exact ⟨a, rfl, .inl h⟩
  · exact ⟨a, rfl, .inr (.inl h)⟩

theorem textAccepts_cons {D : List Dialect} {T : Table} {s : Nat} {row : StateRow} (hrow : T.row? s = some row)
    (μ : MState) (l : Str) (ls : List Str) :
    textAccepts D T s μ (l :: ls) =
      match pickBranch T (intrinsicKind D μ l) (kindsOf D μ ls) row.branches with
      | none => false
      | some b => !raisesBefore D μ l b row.branches && textAccepts D T b.target (muAfter D μ l b.kind) ls := by
  simp only [textAccepts, hrow]
  rfl

theorem lines_sim {D : List Dialect} {T : Table} (hf : textDialectFacts D = true) (F : QF D T) :
    ∀ (fuel s : Nat) (p : Ctx), MuOK D p.μ → AR p →
      ∀ r c', run (parseLinesPure D T false fuel s) p = (r, c') →
        (textAccepts D T s p.μ p.lines = true → AR c') ∧
        (textAccepts D T s p.μ p.lines = false → NR c' ∨ Aborted T.errorCap r) := by
  intro fuel
  induction fuel with
  | zero =>
    intro s p _ hp r c' h
    rw [parseLinesPure, prun_throw] at h
    cases h
    exact ⟨fun _ => hp, fun _ => .inr ⟨_, rfl, .inr (.inl rfl)⟩⟩
  | succ fuel ih =>
    intro s p hμ hp r c' h
    rw [pure_step, prun_bind] at h
    rcases hr1 : run (matchTokenPure D T false s { line := p.lines.head?, lineNo := p.lineNo + 1 })
      { p with lines := p.lines.tail, lineNo := p.lineNo + 1, reads := p.reads ++ [p.lineNo + 1] } with ⟨r1, c1⟩
    rw [hr1] at h
    have heff1 := EffM.matchTokenPure D T s _ _ _ _ hr1
    -- what the rest of the run does to a dirty error list
    have hrest_nr : ∀ s', NR c1 → run (if ({ line := p.lines.head?, lineNo := p.lineNo + 1 } : Token).eof = true
        then Pure.pure s' else parseLinesPure D T false fuel s') c1 = (r, c') → NR c' := by
      intro s' hn hrun
      split at hrun
      · rw [prun_pure] at hrun; cases hrun; exact hn
      · exact (EffM.parseLinesPure D T fuel s' c1 r c' hrun).1.nr hn
    unfold matchTokenPure at hr1
    cases hrow : T.row? s with
    | none =>
      rw [hrow] at hr1
      dsimp only at hr1
      rw [prun_throw] at hr1
      cases hr1
      cases h
      have hta : textAccepts D T s p.μ p.lines = false := by
        cases hl : p.lines with
        | nil => simp [textAccepts, stepAbs, hrow]
        | cons l ls => simp [textAccepts, hrow]
      rw [hta]
      exact ⟨(fun hh => by cases hh), fun _ => .inr ⟨_, rfl, .inl ⟨_, rfl⟩⟩⟩
    | some row =>
      rw [hrow] at hr1
      dsimp only at hr1
      have hgt := (F.rows s row hrow).1
      cases hl : p.lines with
      | nil =>
        rw [hl] at hr1 h
        have hstep := (fun hc => eof_step row row.branches hgt _ rfl _ hc r1 c1 hr1) hp
        have hta : textAccepts D T s p.μ [] = (pickBranch T .EOF [] row.branches).isSome := by
          simp [textAccepts, stepAbs, hrow]
        rw [hta]
        -- after the end-of-file token the loop ends
        have hfin : c' = c1 := by
          cases r1 with
          | error a => cases h; rfl
          | ok s' =>
            dsimp only at h
            have : ({ line := ([] : List Str).head?, lineNo := p.lineNo + 1 } : Token).eof = true := rfl
            rw [if_pos this, prun_pure] at h
            cases h; rfl
        subst hfin
        cases hp' : pickBranch T .EOF [] row.branches with
        | none =>
          rw [hp'] at hstep
          exact ⟨(fun hh => by cases hh), fun _ => .inl hstep⟩
        | some b =>
          rw [hp'] at hstep
          exact ⟨fun _ => hstep, (fun hh => by cases hh)⟩
      | cons l ls =>
        rw [hl] at hr1 h
        have hline := line_step hf F row p.μ hμ l ls row.branches hgt
          { line := (l :: ls).head?, lineNo := p.lineNo + 1 } rfl
          { p with lines := (l :: ls).tail, lineNo := p.lineNo + 1, reads := p.reads ++ [p.lineNo + 1] }
          rfl rfl (.inl hp) r1 c1 hr1
        obtain ⟨⟨hlines1, -⟩, hpost⟩ := hline
        rw [textAccepts_cons hrow]
        unfold LinePost at hpost
        have hneof : ({ line := (l :: ls).head?, lineNo := p.lineNo + 1 } : Token).eof = false := rfl
        -- the unclean case
        have hunclean : Unclean r1 c1 → NR c' ∨ Aborted T.errorCap r := by
          intro hu
          cases r1 with
          | error a =>
            cases h
            rcases hu with hn | ⟨w, hw⟩
            · exact .inl hn
            · cases hw; exact .inr ⟨_, rfl, .inl ⟨_, rfl⟩⟩
          | ok s' =>
            dsimp only at h
            rcases hu with hn | ⟨w, hw⟩
            · exact .inl (hrest_nr s' hn (by rw [hl]; exact h))
            · cases hw
        cases hpk : pickBranch T (intrinsicKind D p.μ l) (kindsOf D p.μ ls) row.branches with
        | none =>
          rw [hpk] at hpost
          exact ⟨(fun hh => by cases hh), fun _ => hunclean hpost⟩
        | some b =>
          rw [hpk] at hpost
          dsimp only at hpost ⊢
          cases hrb : raisesBefore D p.μ l b row.branches with
          | true =>
            rw [hrb] at hpost
            simp only [if_true] at hpost
            simp only [Bool.not_true, Bool.false_and]
            exact ⟨(fun hh => by cases hh), fun _ => hunclean hpost⟩
          | false =>
            rw [hrb] at hpost
            simp only [Bool.false_eq_true, if_false] at hpost
            simp only [Bool.not_false, Bool.true_and]
            obtain ⟨hval, hcl⟩ := hpost
            cases r1 with
            | error a =>
              cases h
              refine ⟨fun hta => ?_, fun hta => ?_⟩
              · rcases hcl with h1 | ⟨-, h2⟩
                · exact h1
                · rw [hta] at h2; cases h2
              · rcases hcl with h1 | ⟨h1, -⟩
                · exact .inr (Aborted.of_abOK (heff1.2 _ rfl))
                · exact .inl h1
            | ok s' =>
              obtain ⟨hs', hμ1⟩ := hval s' rfl
              subst hs'
              dsimp only at h
              rw [if_neg (by rw [hneof]; simp)] at h
              rcases hcl with h1 | ⟨h1, h2⟩
              · have := ih b.target c1 (by rw [hμ1]; exact muAfter_ok D p.μ hμ l b.kind) h1 r c' h
                rw [hμ1, hlines1] at this
                exact this
              · rw [h2]
                exact ⟨(fun hh => by cases hh), fun _ => .inl ((EffM.parseLinesPure D T fuel b.target c1 r c' h).1.nr h1)⟩

/-! ### the whole parse -/

/-- outcome when the text-level acceptor accepts -/
def OutA (r : Except Abort Doc) : Prop :=
  match r with
  | .ok _ => True
  | .error (.composite es) => ∀ e ∈ es, e.kind = .raggedTable
  | .error (.single _) => False
  | .error (.crash _) => True
  | .error .fuel => True

/-- outcome when the text-level acceptor rejects -/
def OutB (cap : Nat) (r : Except Abort Doc) : Prop :=
  match r with
  | .ok _ => False
  | .error (.composite es) => (∃ e ∈ es, e.kind ≠ .raggedTable) ∨ cap < es.length
  | .error (.single _) => False
  | .error (.crash _) => True
  | .error .fuel => True

theorem outA_of_abOK {cap : Nat} {a : Abort} {c : Ctx} (h : AbOK cap a c) (hc : AR c) : OutA (.error a) := by
  rcases h with ⟨rfl, -⟩ | ⟨w, rfl⟩ | rfl
  · exact fun e he => (hc e he).1
  · trivial
  · trivial

theorem outB_of_abOK {cap : Nat} {a : Abort} {c : Ctx} (h : AbOK cap a c) : OutB cap (.error a) := by
  rcases h with ⟨rfl, hl⟩ | ⟨w, rfl⟩ | rfl
  · exact .inr hl
  · trivial
  · trivial

theorem body_sim {D : List Dialect} {T : Table} (hf : textDialectFacts D = true) (F : QF D T) (n : Nat) (p : Ctx)
    (hμ : MuOK D p.μ) (hp : AR p) {r : Except Abort Doc} {c' : Ctx}
    (h : run (parseBodyPure D T false n) p = (r, c')) :
    (textAccepts D T 0 p.μ p.lines = true → OutA r) ∧
    (textAccepts D T 0 p.μ p.lines = false → OutB T.errorCap r) := by
  rw [parseBodyPure, prun_bind, run_modify] at h
  dsimp only at h
  rw [prun_bind] at h
  rcases hr1 : run (parseLinesPure D T false (n + 2) 0) { p with β := p.β.startRule T.startRule } with ⟨r1, c1⟩
  rw [hr1] at h
  have hsim := lines_sim hf F (n + 2) 0 { p with β := p.β.startRule T.startRule } hμ hp r1 c1 hr1
  have heff1 := EffM.parseLinesPure D T (n + 2) 0 _ _ _ hr1
  dsimp only at hsim
  cases r1 with
  | error a =>
    cases h
    exact ⟨fun hta => outA_of_abOK (heff1.2 _ rfl) (hsim.1 hta), fun _ => outB_of_abOK (heff1.2 _ rfl)⟩
  | ok s1 =>
    dsimp only at h
    rw [prun_bind] at h
    rcases hr2 : run (runProd T.errorCap false default (.end_ T.startRule)) c1 with ⟨r2, c2⟩
    rw [hr2] at h
    obtain ⟨-, heff2, har2⟩ := runProd_spec hr2
    have hA2 : textAccepts D T 0 p.μ p.lines = true → AR c2 := fun hta => har2 (hsim.1 hta)
    have hB2 : textAccepts D T 0 p.μ p.lines = false → NR c2 := by
      intro hta
      rcases hsim.2 hta with hn | ⟨a, ha, -⟩
      · exact heff2.1.nr hn
      · cases ha
    cases r2 with
    | error a =>
      cases h
      exact ⟨fun hta => outA_of_abOK (heff2.2 _ rfl) (hA2 hta), fun _ => outB_of_abOK (heff2.2 _ rfl)⟩
    | ok _ =>
      dsimp only at h
      rw [prun_bind, run_get] at h
      dsimp only at h
      split at h
      · rename_i hne
        rw [prun_bind, prun_throw] at h
        cases h
        refine ⟨fun hta e he => (hA2 hta e he).1, fun hta => ?_⟩
        obtain ⟨e, he, hk⟩ := hB2 hta
        exact .inl ⟨e, he, hk⟩
      · rename_i hne
        have hemp : c2.errors = [] := by
          cases he : c2.errors with
          | nil => rfl
          | cons a l => simp [he] at hne
        have hnoB : textAccepts D T 0 p.μ p.lines = false → False := by
          intro hta
          obtain ⟨e, he, -⟩ := hB2 hta
          rw [hemp] at he; cases he
        split at h
        · rw [prun_pure] at h; cases h; exact ⟨fun _ => trivial, fun hta => (hnoB hta).elim⟩
        · rw [prun_throw] at h; cases h; exact ⟨fun _ => trivial, fun _ => trivial⟩
        · rw [prun_throw] at h; cases h; exact ⟨fun _ => trivial, fun _ => trivial⟩
        · rename_i e he
          exact absurd he (result_not_ast _ _)

theorem parseWithPure_eq (D : List Dialect) (T : Table) (stop : Bool) (μ : MState) (ids : Nat) (src : Str) :
    parseWithPure D T stop μ ids src =
      match run (parseBodyPure D T stop (splitLines src).length) (ctx0 D μ ids src) with
      | (.ok d, ctx) => (.ok d, ctx)
      | (.error (.single e), ctx) => (.rejected [e] false, ctx)
      | (.error (.composite es), ctx) => (.rejected es true, ctx)
      | (.error (.crash w), ctx) => (.crash w, ctx)
      | (.error .fuel, ctx) => (.fuel, ctx) := rfl

theorem reset_sepOK (D : List Dialect) (μ : MState) : sepOK (μ.reset D) = true := by
  unfold MState.reset sepOK
  rfl

/-- the outcome of the queue-free parse, collecting mode, against the text-level acceptor -/
theorem pure_outcome {D : List Dialect} {T : Table} (hf : textDialectFacts D = true) (F : QF D T)
    (μ : MState) (ids : Nat) (src : Str) (hμ : (μ.reset D).dialect ∈ D) :
    let out := (parseWithPure D T false μ ids src).1
    let ta := textAccepts D T 0 (μ.reset D) (splitLines src)
    (ta = true → (∃ d, out = .ok d) ∨ (∃ es, out = .rejected es true ∧ ∀ e ∈ es, e.kind = .raggedTable) ∨
        (∃ w, out = .crash w) ∨ out = .fuel) ∧
    (ta = false → (∃ es, out = .rejected es true ∧ ((∃ e ∈ es, e.kind ≠ .raggedTable) ∨ T.errorCap < es.length)) ∨
        (∃ w, out = .crash w) ∨ out = .fuel) := by
  intro out ta
  rcases hr : run (parseBodyPure D T false (splitLines src).length) (ctx0 D μ ids src) with ⟨r, c⟩
  have hb := body_sim hf F (splitLines src).length (ctx0 D μ ids src) ⟨hμ, reset_sepOK D μ⟩
    (fun e he => by cases he) hr
  have hpw := parseWithPure_eq D T false μ ids src
  rw [hr] at hpw
  have hb1 := hb.1
  have hb2 := hb.2
  clear hb hr
  cases r with
  | ok d =>
    have hout : out = .ok d := by show (parseWithPure D T false μ ids src).1 = _; rw [hpw]
    exact ⟨fun _ => .inl ⟨d, hout⟩, fun hta => (hb2 hta).elim⟩
  | error e =>
    cases e with
    | single e => exact ⟨fun hta => (hb1 hta).elim, fun hta => (hb2 hta).elim⟩
    | composite es =>
      have hout : out = .rejected es true := by show (parseWithPure D T false μ ids src).1 = _; rw [hpw]
      exact ⟨fun hta => .inr (.inl ⟨es, hout, hb1 hta⟩), fun hta => .inl ⟨es, hout, hb2 hta⟩⟩
    | crash w =>
      have hout : out = .crash w := by show (parseWithPure D T false μ ids src).1 = _; rw [hpw]
      exact ⟨fun _ => .inr (.inr (.inl ⟨w, hout⟩)), fun _ => .inr (.inl ⟨w, hout⟩)⟩
    | fuel =>
      have hout : out = .fuel := by show (parseWithPure D T false μ ids src).1 = _; rw [hpw]
      exact ⟨fun _ => .inr (.inr (.inr hout)), fun _ => .inr (.inr hout)⟩

/-! ### the statements for the parser with its queue -/

theorem queueDialectFacts_of_text {D : List Dialect} (hf : textDialectFacts D = true) : queueDialectFacts D = true := by
  simp only [textDialectFacts, Bool.and_eq_true] at hf
  exact (keywordFacts_spec hf.1).2.1

section
variable {D : List Dialect} {T : Table} (hf : textDialectFacts D = true) (hT : queueFacts T = true)
  (hCB : commentBlankTested T = true) (hE : lookaheadsStopAtEOF T = true)
include hf hT hCB hE

omit hE in
theorem parse_outcome_eq_pure (μ : MState) (ids : Nat) (src : Str) (hμ : (μ.reset D).dialect ∈ D) :
    (parseWith D T false μ ids src).1 = (parseWithPure D T false μ ids src).1 :=
  congrArg Spec.Observed.outcome
    (queue_refines_peek D T (queueDialectFacts_of_text hf) hT hCB false μ ids src hμ)

/-- accepted at text level ⇒ accepted, or rejected with ragged-table errors only (or a crash of the
    model, which `C01_no_crash` would exclude) -/
theorem text_accept_A (μ : MState) (ids : Nat) (src : Str) (hμ : (μ.reset D).dialect ∈ D)
    (hta : textAccepts D T 0 (μ.reset D) (splitLines src) = true) :
    (∃ d, (parseWith D T false μ ids src).1 = .ok d) ∨
    (∃ es, (parseWith D T false μ ids src).1 = .rejected es true ∧ ∀ e ∈ es, e.kind = .raggedTable) ∨
    (∃ w, (parseWith D T false μ ids src).1 = .crash w) := by
  have F := QF.of_facts (queueDialectFacts_of_text hf) hT
  have hnf := parse_terminates D T hE false μ ids src
  rw [parse_outcome_eq_pure hf hT hCB μ ids src hμ] at hnf ⊢
  rcases (pure_outcome hf F μ ids src hμ).1 hta with h | h | h | h
  · exact .inl h
  · exact .inr (.inl h)
  · exact .inr (.inr h)
  · exact absurd h hnf

/-- rejected at text level ⇒ rejected with an error that is not a ragged-table error, or cut short
    by the error limit (or a crash of the model) -/
theorem text_accept_B (μ : MState) (ids : Nat) (src : Str) (hμ : (μ.reset D).dialect ∈ D)
    (hta : textAccepts D T 0 (μ.reset D) (splitLines src) = false) :
    (∃ es, (parseWith D T false μ ids src).1 = .rejected es true ∧
      ((∃ e ∈ es, e.kind ≠ .raggedTable) ∨ T.errorCap < es.length)) ∨
    (∃ w, (parseWith D T false μ ids src).1 = .crash w) := by
  have F := QF.of_facts (queueDialectFacts_of_text hf) hT
  have hnf := parse_terminates D T hE false μ ids src
  rw [parse_outcome_eq_pure hf hT hCB μ ids src hμ] at hnf ⊢
  rcases (pure_outcome hf F μ ids src hμ).2 hta with h | h | h
  · exact .inl h
  · exact .inr h
  · exact absurd h hnf

/-- the acceptance theorem: when the model does not crash and the error limit is not hit, the
    document is accepted, or rejected with ragged-table errors only, iff the text-level acceptor
    accepts it -/
theorem text_accept_iff (μ : MState) (ids : Nat) (src : Str) (hμ : (μ.reset D).dialect ∈ D)
    (hnc : ∀ w, (parseWith D T false μ ids src).1 ≠ .crash w)
    (hcap : ∀ es comp, (parseWith D T false μ ids src).1 = .rejected es comp → es.length ≤ T.errorCap) :
    ((∃ d, (parseWith D T false μ ids src).1 = .ok d) ∨
     (∃ es comp, (parseWith D T false μ ids src).1 = .rejected es comp ∧ ∀ e ∈ es, e.kind = .raggedTable)) ↔
    textAccepts D T 0 (μ.reset D) (splitLines src) = true := by
  constructor
  · intro hl
    cases hta : textAccepts D T 0 (μ.reset D) (splitLines src) with
    | true => rfl
    | false =>
      exfalso
      rcases text_accept_B hf hT hCB hE μ ids src hμ hta with ⟨es, hes, hbad⟩ | ⟨w, hw⟩
      · rcases hl with ⟨d, hd⟩ | ⟨es', comp, hes', hall⟩
        · rw [hd] at hes; cases hes
        · rw [hes'] at hes
          cases hes
          rcases hbad with ⟨e, he, hk⟩ | hlen
          · exact hk (hall e he)
          · have := hcap _ _ hes'
            omega
      · exact hnc w hw
  · intro hta
    rcases text_accept_A hf hT hCB hE μ ids src hμ hta with h | ⟨es, hes, hall⟩ | ⟨w, hw⟩
    · exact .inl h
    · exact .inr ⟨es, true, hes, hall⟩
    · exact absurd hw (hnc w)

end

end Lemmas
end GV
