/-
  Lemmas/QueueMatch.lean — what the look-ahead queue argument needs from the token matcher:
  whether a kind matches a token depends only on the token's line and the matcher state; skip
  and title kinds leave the matcher state alone; a line that matches a skip kind matches no title
  kind.  Plus the run equations of `matchP` / `matchAny` in that form.
-/
import GherkinVerif.Lemmas.GlueBase
import GherkinVerif.Lemmas.Keywords
import GherkinVerif.Spec.QueueFacts
namespace GV
namespace Lemmas
open Spec

def MRes.isMatched : MRes → Bool
  | .matched => true
  | _ => false

/-- does kind `K` match a token whose line is `l` (`none`: end of file) in matcher state `μ` -/
def mm (D : List Dialect) (K : Kind) (μ : MState) (l : Option Str) : Bool :=
  MRes.isMatched (matchTok D K μ { line := l, lineNo := 0 }).1.res

theorem matchTitle_isSome (μ : MState) (t t' : Token) (l : Str) (ty : Kind) (kws : List Str) :
    (matchTitle μ t l ty kws).isSome = (matchTitle μ t' l ty kws).isSome := by
  unfold matchTitle
  cases List.find? (fun k => lineStartsWithTitle l k) kws <;> rfl

theorem matchDocSep_isSome (μ : MState) (t t' : Token) (l sep : Str) (o : Bool) :
    (matchDocSep μ t l sep o).isSome = (matchDocSep μ t' l sep o).isSome := by
  unfold matchDocSep
  split
  · split <;> rfl
  · rfl

/-- the decision of `match_<k>` does not look at the token fields -/
theorem matchLine_res_indep (D : List Dialect) (k : Kind) (μ : MState) (t t' : Token) (l : Str) :
    MRes.isMatched (matchLine D k μ t l).res = MRes.isMatched (matchLine D k μ t' l).res := by
  cases k
  case EOF => rfl
  case Other => rfl
  case TableRow => simp only [matchLine]; split <;> rfl
  case StepLine => simp only [matchLine]; split <;> rfl
  case Comment => simp only [matchLine]; split <;> rfl
  case Empty => simp only [matchLine]; split <;> rfl
  case Language =>
    simp only [matchLine]
    split
    · rfl
    · split <;> rfl
  case TagLine =>
    simp only [matchLine]
    split
    · split <;> rfl
    · rfl
  case FeatureLine =>
    rw [matchLine_title D _ rfl, matchLine_title D _ rfl]
    have := matchTitle_isSome μ t t' l .FeatureLine (μ.dialect.roleKeywords .FeatureLine)
    cases h1 : matchTitle μ t l .FeatureLine (μ.dialect.roleKeywords .FeatureLine) <;>
      cases h2 : matchTitle μ t' l .FeatureLine (μ.dialect.roleKeywords .FeatureLine) <;>
      simp_all
  case RuleLine =>
    rw [matchLine_title D _ rfl, matchLine_title D _ rfl]
    have := matchTitle_isSome μ t t' l .RuleLine (μ.dialect.roleKeywords .RuleLine)
    cases h1 : matchTitle μ t l .RuleLine (μ.dialect.roleKeywords .RuleLine) <;>
      cases h2 : matchTitle μ t' l .RuleLine (μ.dialect.roleKeywords .RuleLine) <;>
      simp_all
  case BackgroundLine =>
    rw [matchLine_title D _ rfl, matchLine_title D _ rfl]
    have := matchTitle_isSome μ t t' l .BackgroundLine (μ.dialect.roleKeywords .BackgroundLine)
    cases h1 : matchTitle μ t l .BackgroundLine (μ.dialect.roleKeywords .BackgroundLine) <;>
      cases h2 : matchTitle μ t' l .BackgroundLine (μ.dialect.roleKeywords .BackgroundLine) <;>
      simp_all
  case ScenarioLine =>
    rw [matchLine_title D _ rfl, matchLine_title D _ rfl]
    have := matchTitle_isSome μ t t' l .ScenarioLine (μ.dialect.roleKeywords .ScenarioLine)
    cases h1 : matchTitle μ t l .ScenarioLine (μ.dialect.roleKeywords .ScenarioLine) <;>
      cases h2 : matchTitle μ t' l .ScenarioLine (μ.dialect.roleKeywords .ScenarioLine) <;>
      simp_all
  case ExamplesLine =>
    rw [matchLine_title D _ rfl, matchLine_title D _ rfl]
    have := matchTitle_isSome μ t t' l .ExamplesLine (μ.dialect.roleKeywords .ExamplesLine)
    cases h1 : matchTitle μ t l .ExamplesLine (μ.dialect.roleKeywords .ExamplesLine) <;>
      cases h2 : matchTitle μ t' l .ExamplesLine (μ.dialect.roleKeywords .ExamplesLine) <;>
      simp_all
  case DocStringSeparator =>
    simp only [matchLine]
    have h1 := matchDocSep_isSome μ t t' l dq3 true
    have h2 := matchDocSep_isSome μ t t' l bt3 true
    have hor : ((matchDocSep μ t l dq3 true).orElse fun _ => matchDocSep μ t l bt3 true).isSome =
        ((matchDocSep μ t' l dq3 true).orElse fun _ => matchDocSep μ t' l bt3 true).isSome := by
      cases ha : matchDocSep μ t l dq3 true <;> cases hb : matchDocSep μ t' l dq3 true <;>
        simp_all [Option.orElse]
    have key : ∀ (o o' : Option (Token × MState)), o.isSome = o'.isSome →
        MRes.isMatched (match o with | some (a, b) => (⟨a, b, .matched⟩ : MOut) | none => ⟨t, μ, .no⟩).res =
        MRes.isMatched (match o' with | some (a, b) => (⟨a, b, .matched⟩ : MOut) | none => ⟨t', μ, .no⟩).res := by
      intro o o' h
      cases o <;> cases o' <;> simp_all [MRes.isMatched]
    apply key
    split
    · exact hor
    · split
      · exact hor
      · exact matchDocSep_isSome ..

theorem matchTok_isMatched (D : List Dialect) (K : Kind) (μ : MState) (t : Token) :
    MRes.isMatched (matchTok D K μ t).1.res = mm D K μ t.line := by
  unfold mm matchTok
  dsimp only
  cases t.line with
  | none => dsimp only; split <;> rfl
  | some l => exact matchLine_res_indep D K μ t _ l

/-- skip and title kinds leave the matcher state alone -/
theorem matchTok_mu_stable (D : List Dialect) (K : Kind) (hK : stableKind K = true) (μ : MState) (t : Token) :
    (matchTok D K μ t).1.μ = μ := by
  unfold matchTok
  split
  · split <;> rfl
  · rename_i l hl
    dsimp only
    cases K <;> first
      | exact absurd hK (by decide)
      | (rw [matchLine_title D _ rfl]; split <;> rfl)
      | (simp only [matchLine]; split <;> rfl)
      | skip
    simp only [matchLine]
    split
    · split <;> rfl
    · rfl

/-- any kind keeps the dialect inside the table -/
theorem matchTok_dialect (D : List Dialect) (K : Kind) (μ : MState) (t : Token) (h : μ.dialect ∈ D) :
    (matchTok D K μ t).1.μ.dialect ∈ D := by
  by_cases hK : stableKind K = true
  · rw [matchTok_mu_stable D K hK]; exact h
  · unfold matchTok
    split
    · split <;> exact h
    · rename_i l hl
      dsimp only
      cases K <;> first
        | exact absurd rfl hK
        | (simp only [matchLine]; split <;> exact h)
        | exact h
        | skip
      · -- DocStringSeparator
        simp only [matchLine]
        split
        · rename_i t' μ' hr
          have hd : ∀ sep o, matchDocSep μ t l sep o = some (t', μ') → μ'.dialect = μ.dialect := by
            intro sep o hm
            unfold matchDocSep at hm
            split at hm
            · split at hm <;> (cases hm; rfl)
            · cases hm
          have hor : ((matchDocSep μ t l dq3 true).orElse fun _ => matchDocSep μ t l bt3 true) = some (t', μ') →
              μ'.dialect = μ.dialect := by
            intro hm
            cases ha : matchDocSep μ t l dq3 true with
            | some x => rw [ha] at hm; simp only [Option.orElse] at hm; cases hm; exact hd _ _ ha
            | none => rw [ha] at hm; simp only [Option.orElse] at hm; exact hd _ _ hm
          have : μ'.dialect = μ.dialect := by
            split at hr
            · exact hor hr
            · split at hr
              · exact hor hr
              · exact hd _ _ hr
          dsimp only
          rw [this]; exact h
        · exact h
      · -- Language
        simp only [matchLine]
        split
        · exact h
        · split
          · rename_i d hf
            exact List.mem_of_find?_eq_some hf
          · exact h

/-! ### a line that matches a skip kind matches no title kind -/

theorem startsWith_cons_head {p : Str} {c a : Nat} {r : Str} (h : startsWith (a :: p) (c :: r) = true) : a = c := by
  simp only [startsWith, Bool.and_eq_true, beq_iff_eq] at h
  exact h.1

/-- a skip kind matches only a line whose trimmed text is empty or starts with `#` or `@` -/
theorem skip_head (D : List Dialect) (K : Kind) (hK : isSkipKind K = true) (μ : MState) (s : Str)
    (h : mm D K μ (some s) = true) : trimmed s = [] ∨ ∃ r, trimmed s = 35 :: r ∨ trimmed s = 64 :: r := by
  unfold mm matchTok at h
  dsimp only at h
  cases K <;> first | exact absurd hK (by decide) | skip
  · -- Empty
    simp only [matchLine] at h
    split at h
    · rename_i he
      left
      simpa [lineIsEmpty] using he
    · cases h
  · -- Comment
    simp only [matchLine] at h
    split at h
    · rename_i he
      right
      obtain ⟨r, hr⟩ := (startsWith_iff _ _).1 he
      exact ⟨r, .inl hr⟩
    · cases h
  · -- TagLine
    simp only [matchLine] at h
    split at h
    · rename_i he
      right
      obtain ⟨r, hr⟩ := (startsWith_iff _ _).1 he
      exact ⟨r, .inr hr⟩
    · cases h

/-- a title kind matches only a line whose trimmed text starts with a keyword and `:` -/
theorem title_head (D : List Dialect) (K : Kind) (hK : K.isTitle = true) (μ : MState) (s : Str)
    (h : mm D K μ (some s) = true) :
    ∃ k ∈ μ.dialect.roleKeywords K, startsWith (k ++ [58]) (trimmed s) = true := by
  unfold mm matchTok at h
  dsimp only at h
  rcases matchLine_title_matched D K hK μ { line := some s, lineNo := 0 } s with ⟨t', he, k, hk, hs, -⟩ | ⟨he, -⟩
  · exact ⟨k, hk, hs⟩
  · rw [he] at h; cases h

theorem skip_not_title (D D' : List Dialect) (hD : keywordsPlainStart D' = true) (μ : MState) (hμ : μ.dialect ∈ D')
    (K K' : Kind) (hK : isSkipKind K = true) (hK' : K'.isTitle = true) (l : Option Str)
    (h : mm D K μ l = true) : mm D K' μ l = false := by
  cases l with
  | none =>
    unfold mm matchTok
    dsimp only
    have : (K' == Kind.EOF) = false := by cases K' <;> first | rfl | exact absurd hK' (by decide)
    rw [this]; rfl
  | some s =>
    cases h' : mm D K' μ (some s) with
    | false => rfl
    | true =>
      exfalso
      obtain ⟨k, hk, hs⟩ := title_head D K' hK' μ s h'
      have hp := keywordsPlainStart_spec hD hμ (mem_allKeywords_title (mem_titleKeywords_of_role _ _ _ hk))
      simp only [plainStart, Bool.and_eq_true, Bool.not_eq_true'] at hp
      obtain ⟨⟨⟨⟨⟨-, h35⟩, h64⟩, -⟩, -⟩, -⟩ := hp
      rcases skip_head D K hK μ s h with he | ⟨r, he | he⟩
      · rw [he] at hs
        cases k <;> simp [startsWith] at hs
      · rw [he] at hs
        cases k with
        | nil => simp [startsWith] at hs
        | cons a k =>
          have := startsWith_cons_head hs
          subst this
          simp [startsWith] at h35
      · rw [he] at hs
        cases k with
        | nil => simp [startsWith] at hs
        | cons a k =>
          have := startsWith_cons_head hs
          subst this
          simp [startsWith] at h64

/-- the line is stepped over by a look-ahead with skip list `sk` -/
def skipM (D : List Dialect) (sk : List Kind) (μ : MState) (l : Option Str) : Bool :=
  sk.any fun K => mm D K μ l

theorem skipM_not_title (D D' : List Dialect) (hD : keywordsPlainStart D' = true) (μ : MState) (hμ : μ.dialect ∈ D')
    (sk : List Kind) (hsk : sk.all isSkipKind = true) (K' : Kind) (hK' : K'.isTitle = true) (l : Option Str)
    (h : skipM D sk μ l = true) : mm D K' μ l = false := by
  simp only [skipM, List.any_eq_true] at h
  obtain ⟨K, hK, hm⟩ := h
  exact skip_not_title D D' hD μ hμ K K' (List.all_eq_true.1 hsk K hK) hK' l hm

theorem skipM_not_titles (D D' : List Dialect) (hD : keywordsPlainStart D' = true) (μ : MState) (hμ : μ.dialect ∈ D')
    (sk : List Kind) (hsk : sk.all isSkipKind = true) (ks : List Kind) (hks : ks.all Kind.isTitle = true)
    (l : Option Str) (h : skipM D sk μ l = true) : (ks.any fun K => mm D K μ l) = false := by
  rw [List.any_eq_false]
  intro K hK
  rw [skipM_not_title D D' hD μ hμ sk hsk K (List.all_eq_true.1 hks K hK) l h]
  simp

/-- an end-of-file token is never stepped over -/
theorem skipM_eof (D : List Dialect) (sk : List Kind) (hsk : sk.all isSkipKind = true) (μ : MState) :
    skipM D sk μ none = false := by
  simp only [skipM, List.any_eq_false]
  intro K hK
  have hs := List.all_eq_true.1 hsk K hK
  unfold mm matchTok
  dsimp only
  have : (K == Kind.EOF) = false := by cases K <;> first | rfl | exact absurd hs (by decide)
  rw [this]; simp [MRes.isMatched]

/-! ### `matchP` and `matchAny`, run form -/

theorem matchP_spec {D : List Dialect} {cap : Nat} {stop : Bool} {K : Kind} {t : Token} {c : Ctx}
    {r : Except Abort (Bool × Token)} {c' : Ctx} (h : run (matchP D cap stop K t) c = (r, c')) :
    FootM c c' ∧ c'.μ = (matchTok D K c.μ t).1.μ ∧ c'.calls ≤ c.calls + 1 ∧
    ∀ m t', r = .ok (m, t') → m = mm D K c.μ t.line ∧ t'.line = t.line ∧ t'.lineNo = t.lineNo := by
  have hfoot := matchP_foot D cap stop K t c r c' h
  refine ⟨hfoot, ?_⟩
  rw [run_matchP] at h
  dsimp only at h
  have hm := matchTok_isMatched D K c.μ t
  have ht := matchTok_tok D K c.μ t
  have hcalls : c.calls + (if (matchTok D K c.μ t).2 = true then 1 else 0) ≤ c.calls + 1 := by
    split <;> omega
  split at h
  · rename_i hres
    cases h
    rw [hres] at hm
    exact ⟨rfl, hcalls, fun m t' he => by cases he; exact ⟨hm, ht⟩⟩
  · rename_i hres
    cases h
    rw [hres] at hm
    exact ⟨rfl, hcalls, fun m t' he => by cases he; exact ⟨hm, ht⟩⟩
  · rename_i e hres
    rw [hres] at hm
    split at h
    · cases h
      exact ⟨rfl, hcalls, fun m t' he => by cases he⟩
    · rcases hr : run (addError cap e) _ with ⟨r2, c2⟩
      rw [hr] at h
      obtain ⟨es, rfl⟩ := addError_foot _ _ _ _ _ hr
      cases r2 with
      | ok _ => cases h; exact ⟨rfl, hcalls, fun m t' he => by cases he; exact ⟨hm, ht⟩⟩
      | error e2 => cases h; exact ⟨rfl, hcalls, fun m t' he => by cases he⟩

theorem matchAny_spec {D : List Dialect} {cap : Nat} {stop : Bool} (ks : List Kind)
    (hks : ks.all stableKind = true) {t : Token} {c : Ctx}
    {r : Except Abort (Bool × Token)} {c' : Ctx} (h : run (matchAny D cap stop ks t) c = (r, c')) :
    FootM c c' ∧ c'.μ = c.μ ∧ c'.calls ≤ c.calls + ks.length ∧
    ∀ m t', r = .ok (m, t') → m = (ks.any fun K => mm D K c.μ t.line) ∧ t'.line = t.line ∧ t'.lineNo = t.lineNo := by
  induction ks generalizing t c with
  | nil =>
    rw [GV.matchAny, prun_pure] at h
    cases h
    exact ⟨FootM.refl _, rfl, Nat.le_refl _, fun m t' he => by cases he; exact ⟨rfl, rfl, rfl⟩⟩
  | cons k ks ih =>
    rw [List.all_cons, Bool.and_eq_true] at hks
    rw [GV.matchAny, prun_bind] at h
    rcases hr : run (matchP D cap stop k t) c with ⟨r1, c1⟩
    rw [hr] at h
    obtain ⟨hf1, hμ1, hc1, hv1⟩ := matchP_spec hr
    rw [matchTok_mu_stable D k hks.1] at hμ1
    cases r1 with
    | error e =>
      cases h
      exact ⟨hf1, hμ1, by simp only [List.length_cons]; omega, fun m t' he => by cases he⟩
    | ok r1 =>
      obtain ⟨m1, t1⟩ := r1
      obtain ⟨hm1, hl1, hn1⟩ := hv1 m1 t1 rfl
      dsimp only at h
      split at h
      · rename_i hm
        rw [prun_pure] at h
        cases h
        refine ⟨hf1, hμ1, by simp only [List.length_cons]; omega, fun m t' he => ?_⟩
        cases he
        refine ⟨?_, hl1, hn1⟩
        rw [List.any_cons, ← hm1, hm]; rfl
      · rename_i hm
        obtain ⟨hf2, hμ2, hc2, hv2⟩ := ih hks.2 h
        refine ⟨hf1.trans hf2, hμ2.trans hμ1, by simp only [List.length_cons]; omega, fun m t' he => ?_⟩
        obtain ⟨hm2, hl2, hn2⟩ := hv2 m t' he
        refine ⟨?_, hl2.trans hl1, hn2.trans hn1⟩
        have hm1' : mm D k c.μ t.line = false := by
          rw [← hm1]; simpa using hm
        rw [List.any_cons, hm1', Bool.false_or, hm2, hμ1, hl1]

end Lemmas
end GV
