/-
  Lemmas/LayoutDoc6Base.lean — case (b2) of goal G3 of property C16: two runs of the queue-free parse
  on THE SAME text whose contexts agree in everything a run can observe except the builder state
  (and the ghost counters `calls`, `reads`, `builds`).  `SimG R Q m1 m2`: from `R`-related contexts
  the two computations end alike — both return the same value, in `Q`-related contexts, or both
  abort with the same error, in contexts that agree outside the builder.
-/
import GherkinVerif.Lemmas.LayoutDoc5
import GherkinVerif.Lemmas.LayoutDoc6Builder
namespace GV
namespace Layout6
open Lemmas Spec Layout3 Layout4 Layout5

/-- the two contexts agree in everything but the builder state and the ghost fields -/
structure CtxE (c c' : Ctx) : Prop where
  lines : c'.lines = c.lines
  lineNo : c'.lineNo = c.lineNo
  errors : c'.errors = c.errors
  μ : c'.μ = c.μ
  ids : c'.ids = c.ids
  unexpected : c'.unexpected = c.unexpected

theorem CtxE.refl (c : Ctx) : CtxE c c := ⟨rfl, rfl, rfl, rfl, rfl, rfl⟩

/-- … and the second builder state is the first with extra empty-description items -/
def CtxD (c c' : Ctx) : Prop := CtxE c c' ∧ BD c.β c'.β

/-- how two runs end -/
def PostG {α} (Q : α → Ctx → Ctx → Prop) : Except Abort α × Ctx → Except Abort α × Ctx → Prop
  | (.ok a, d), (.ok a', d') => a' = a ∧ Q a d d'
  | (.error e, d), (.error e', d') => e' = e ∧ CtxE d d'
  | (.ok _, _), (.error _, _) => False
  | (.error _, _), (.ok _, _) => False

def SimG {α} (R : Ctx → Ctx → Prop) (Q : α → Ctx → Ctx → Prop) (m1 m2 : PM α) : Prop :=
  ∀ c c', R c c' → PostG Q (run m1 c) (run m2 c')

theorem PostG.mono {α} {Q Q' : α → Ctx → Ctx → Prop} (h : ∀ a d d', Q a d d' → Q' a d d')
    {x y : Except Abort α × Ctx} (hp : PostG Q x y) : PostG Q' x y := by
  obtain ⟨r1, d⟩ := x
  obtain ⟨r2, d'⟩ := y
  cases r1 <;> cases r2 <;> simp only [PostG] at hp ⊢
  · exact hp
  · exact ⟨hp.1, h _ _ _ hp.2⟩

theorem SimG.pure {α} {R : Ctx → Ctx → Prop} {Q : α → Ctx → Ctx → Prop} (a : α) (h : ∀ c c', R c c' → Q a c c') :
    SimG R Q (pure a) (pure a) := fun c c' hR => ⟨rfl, h c c' hR⟩

theorem SimG.throw {α} {R : Ctx → Ctx → Prop} {Q : α → Ctx → Ctx → Prop} (e : Abort) (h : ∀ c c', R c c' → CtxE c c') :
    SimG R Q (throw e : PM α) (throw e) := fun c c' hR => ⟨rfl, h c c' hR⟩

theorem SimG.bind {α β} {R : Ctx → Ctx → Prop} {Q : α → Ctx → Ctx → Prop} {S : β → Ctx → Ctx → Prop}
    {m1 m2 : PM α} {f1 f2 : α → PM β} (h1 : SimG R Q m1 m2) (h2 : ∀ a, SimG (Q a) S (f1 a) (f2 a)) :
    SimG R S (m1 >>= f1) (m2 >>= f2) := by
  intro c c' hR
  have h := h1 c c' hR
  rw [prun_bind, prun_bind]
  revert h
  rcases run m1 c with ⟨r1, d⟩
  rcases run m2 c' with ⟨r2, d'⟩
  intro h
  cases r1 <;> cases r2 <;> simp only [PostG] at h ⊢
  · exact h
  · obtain ⟨rfl, hq⟩ := h
    exact h2 _ d d' hq

theorem SimG.weaken {α} {R R' : Ctx → Ctx → Prop} {Q Q' : α → Ctx → Ctx → Prop} {m1 m2 : PM α}
    (h : SimG R Q m1 m2) (hR : ∀ c c', R' c c' → R c c') (hQ : ∀ a d d', Q a d d' → Q' a d d') :
    SimG R' Q' m1 m2 := fun c c' hr => (h c c' (hR c c' hr)).mono hQ

/-- the computation neither reads nor writes the builder state (nor the ghost fields) -/
def Indep {α} (m : PM α) : Prop :=
  SimG CtxE (fun _ d d' => CtxE d d') m m ∧ KeepsB m

theorem Indep.pure {α} (a : α) : Indep (pure a : PM α) := ⟨SimG.pure a fun _ _ h => h, KeepsB.pure a⟩
theorem Indep.throw {α} (e : Abort) : Indep (throw e : PM α) := ⟨SimG.throw e fun _ _ h => h, KeepsB.throw e⟩
theorem Indep.bind {α β} {m : PM α} {f : α → PM β} (h1 : Indep m) (h2 : ∀ a, Indep (f a)) : Indep (m >>= f) :=
  ⟨SimG.bind h1.1 fun a => (h2 a).1, KeepsB.bind h1.2 fun a => (h2 a).2⟩

/-- a builder-independent computation keeps every relation that speaks about the builder states and
    the observable fields only -/
theorem Indep.simG {α} {m : PM α} (h : Indep m) {R : Ctx → Ctx → Prop} (hE : ∀ c c', R c c' → CtxE c c')
    (hR : ∀ c c' d d', R c c' → CtxE d d' → d.β = c.β → d'.β = c'.β → R d d') :
    SimG R (fun _ d d' => R d d') m m := by
  intro c c' hr
  have h1 := h.1 c c' (hE c c' hr)
  have k1 := h.2 c
  have k2 := h.2 c'
  revert h1 k1 k2
  rcases run m c with ⟨r1, d⟩
  rcases run m c' with ⟨r2, d'⟩
  intro h1 k1 k2
  cases r1 <;> cases r2 <;> simp only [PostG] at h1 ⊢
  · exact h1
  · exact ⟨h1.1, hR c c' d d' hr h1.2 k1 k2⟩

end Layout6
end GV
