/-
  Lemmas/ParseDocString.lean — document-level corollaries of the link, part 3 (property C13 at
  document level, line form): in an accepted document every OPENING doc-string separator line is
  followed by content lines — read as `Other`, none of which starts (after blanks) with the
  delimiter, each with the text `C13_content_line` gives under the opening's delimiter and
  indentation — up to the first line that starts with the delimiter, which is read as the CLOSING
  separator; the document does not end inside a doc string.

  Composition of `parse_tokens` (`LineToks`: inside a doc string a line is read as a separator, or as
  `Other` after the separator test failed) with `docsep_open`, `docsep_close`, `docsep_active_iff`,
  `other_text` of Lemmas/DocString.lean (property C13).
-/
import GherkinVerif.Lemmas.ParseDoc
import GherkinVerif.Lemmas.DocString
namespace GV
namespace Spec

/-- the lines `ls` / tokens `toks` that follow an opening separator with delimiter `sep` on a line
    indented by `ind`: `k` content lines, then the closing separator -/
def DocBody (sep : Str) (ind : Nat) (ls : List Str) (toks : List Token) (k : Nat) : Prop :=
  (∀ j, j < k → ∃ lj tj, ls[j]? = some lj ∧ toks[j]? = some tj ∧
    startsWith sep (trimmed lj) = false ∧ tj.mtype = some .Other ∧
    tj.text = some (rstripCRLF (unescapeDoc (some sep) (lj.drop (min ind (lineIndent lj)))))) ∧
  ∃ lc tc, ls[k]? = some lc ∧ toks[k]? = some tc ∧ startsWith sep (trimmed lc) = true ∧
    tc.mtype = some .DocStringSeparator ∧ tc.text = none ∧ tc.keyword = some sep

end Spec

namespace Lemmas
open Spec

theorem inDoc_of_sep {μ : MState} {sep : Str} (h : μ.activeSep = some sep) (hne : sep ≠ []) :
    μ.inDocString = true := by
  unfold MState.inDocString
  rw [h]
  cases sep with
  | nil => exact absurd rfl hne
  | cons a s => rfl

theorem LineToks.drop {D : List Dialect} {μ μf : MState} {n : Nat} {ls : List Str} {toks : List Token}
    (h : LineToks D μ n ls toks μf) : ∀ i, ∃ μi, LineToks D μi (n + i) (ls.drop i) (toks.drop i) μf := by
  induction h with
  | nil μ n => intro i; exact ⟨μ, by simpa using LineToks.nil μ (n + i)⟩
  | @cons μ n l ls toks μf K hd hs hres hp hdoc htail ih =>
    intro i
    cases i with
    | zero => exact ⟨μ, .cons K hd hs hres hp hdoc htail⟩
    | succ i =>
      obtain ⟨μi, hi⟩ := ih i
      have : n + 1 + i = n + (i + 1) := by omega
      rw [this] at hi
      exact ⟨μi, by simpa using hi⟩

/-- inside a doc string opened with `sep`: content lines up to the closing separator -/
theorem LineToks.inside {D : List Dialect} {μ μf : MState} {n : Nat} {ls : List Str} {toks : List Token}
    (h : LineToks D μ n ls toks μf) (sep : Str) (hsep : μ.activeSep = some sep) (hne : sep ≠ [])
    (hf : μf.inDocString = false) : ∃ k, DocBody sep μ.indentToRemove ls toks k := by
  induction h with
  | nil μ n => rw [inDoc_of_sep hsep hne] at hf; cases hf
  | @cons μ n l ls toks μf K hd hs hres hp hdoc htail ih =>
    rcases hdoc (inDoc_of_sep hsep hne) with rfl | ⟨rfl, hv⟩
    · obtain ⟨-, h2, h3, h4⟩ := docsep_close D μ (freshTok l n) l sep hsep hne hres
      exact ⟨0, fun j hj => absurd hj (Nat.not_lt_zero j), l, _, rfl, rfl,
        (docsep_active_iff D μ (freshTok l n) l sep hsep hne).1 hres, h4, h2, h3⟩
    · have hμ' : muAfter D μ l .Other = μ := rfl
      rw [hμ'] at htail ih
      obtain ⟨k, hcont, lc, tc, h1, h2, h3⟩ := ih hsep hf
      have hns : startsWith sep (trimmed l) = false := by
        cases hst : startsWith sep (trimmed l) with
        | false => rfl
        | true =>
          have := (docsep_active_iff D μ (probe l) l sep hsep hne).2 hst
          unfold verdict at hv
          rw [this] at hv
          cases hv
      refine ⟨k + 1, fun j hj => ?_, lc, tc, by simpa using h1, by simpa using h2, h3⟩
      cases j with
      | zero =>
        refine ⟨l, _, rfl, rfl, hns, rfl, ?_⟩
        rw [other_text, hsep]
      | succ j =>
        obtain ⟨lj, tj, a1, a2, a3⟩ := hcont j (by omega)
        exact ⟨lj, tj, by simpa using a1, by simpa using a2, a3⟩

theorem sepOK_notInDoc {μ : MState} (hs : sepOK μ = true) (h : μ.inDocString = false) : μ.activeSep = none := by
  simp only [sepOK, Bool.or_eq_true, beq_iff_eq] at hs
  rcases hs with (h0 | h0) | h0
  · exact h0
  · rw [inDoc_of_sep h0 (by decide)] at h; cases h
  · rw [inDoc_of_sep h0 (by decide)] at h; cases h

/-- an opening separator line and what follows it -/
theorem LineToks.docstring {D : List Dialect} {μ μf : MState} {n : Nat} {l : Str} {ls : List Str} {tk : Token}
    {toks : List Token} (h : LineToks D μ n (l :: ls) (tk :: toks) μf)
    (hk : tk.mtype = some .DocStringSeparator) (hopen : tk.text.isSome = true) (hf : μf.inDocString = false) :
    ∃ sep k, (sep = dq3 ∨ sep = bt3) ∧ startsWith sep (trimmed l) = true ∧ tk.keyword = some sep ∧
      tk.text = some (rstripCRLF (strip ((trimmed l).drop 3))) ∧ DocBody sep (lineIndent l) ls toks k := by
  cases h with
  | cons K hd hs hres hp hdoc htail =>
    have hK : K = .DocStringSeparator := by
      have := (match_well_matched D K μ (freshTok l n) l hres).1
      rw [hk] at this
      exact (Option.some.inj this).symm
    subst hK
    obtain ⟨-, -, h3, -⟩ := docsep_match D μ (freshTok l n) l hres
    have hin : μ.inDocString = false := by
      rw [hopen] at h3
      cases hh : μ.inDocString with
      | false => rfl
      | true => rw [hh] at h3; cases h3
    have hnone := sepOK_notInDoc hs hin
    obtain ⟨sep, hsepc, hst, hμ', htext, hkw, -⟩ := docsep_open D μ (freshTok l n) l (.inl hnone) hres
    have hmu : muAfter D μ l .DocStringSeparator = { μ with activeSep := some sep, indentToRemove := lineIndent l } := by
      rw [← hμ']
      exact ((matchLine_indep D .DocStringSeparator μ (freshTok l n) (probe l) l).1).symm
    rw [hmu] at htail
    obtain ⟨k, hbody⟩ := LineToks.inside htail sep rfl (by rcases hsepc with rfl | rfl <;> decide) hf
    exact ⟨sep, k, hsepc, hst, hkw, htext, hbody⟩

/-- **C13 at document level, line form.**  `toks` are the tokens built for the lines of an accepted
    document.  If the token of line `i` is an opening doc-string separator (its text is set), then
    the line starts (after blanks) with a delimiter `sep`, reported as the token's keyword, the
    token's text is the media type; `k` content lines follow, each read as `Other`, not starting
    with `sep`, with the `C13_content_line` text under `sep` and the opening line's indentation;
    and line `i + 1 + k` starts with `sep` and is read as the closing separator. -/
theorem docstring_lines {D : List Dialect} {μ μf : MState} {lines : List Str} {toks : List Token}
    (h : LineToks D μ 1 lines toks μf) (hf : μf.inDocString = false) (i : Nat) (tk : Token)
    (hi : toks[i]? = some tk) (hk : tk.mtype = some .DocStringSeparator) (hopen : tk.text.isSome = true) :
    ∃ l sep k, lines[i]? = some l ∧ (sep = dq3 ∨ sep = bt3) ∧ startsWith sep (trimmed l) = true ∧
      tk.keyword = some sep ∧ tk.text = some (rstripCRLF (strip ((trimmed l).drop 3))) ∧
      DocBody sep (lineIndent l) (lines.drop (i + 1)) (toks.drop (i + 1)) k := by
  obtain ⟨μi, hdrop⟩ := LineToks.drop h i
  have hlen := LineToks.length h
  have hit : i < toks.length := (List.getElem?_eq_some_iff.1 hi).1
  have hil : i < lines.length := hlen ▸ hit
  have h1 : toks.drop i = tk :: toks.drop (i + 1) := by
    rw [List.drop_eq_getElem_cons hit]
    congr 1
    exact (List.getElem?_eq_some_iff.1 hi).2
  have h2 : lines.drop i = lines[i] :: lines.drop (i + 1) := List.drop_eq_getElem_cons hil
  rw [h1, h2] at hdrop
  obtain ⟨sep, k, a1, a2, a3, a4, a5⟩ := LineToks.docstring hdrop hk hopen hf
  exact ⟨lines[i], sep, k, List.getElem?_eq_getElem hil, a1, a2, a3, a4, a5⟩

end Lemmas
end GV
