/-
  Lemmas/AstLocs.lean — the locations of the AST's elements, read off in source order, are the
  locations of the element-carrying lines of a grammar-shaped tree in line order (property C03,
  `C03_leaves_once_in_order`).

  Method, as in Lemmas/AstIds.lean: `valLocs` extends `Spec.srcLocs` to all intermediate values
  (a token: `Spec.leafLocs`; a raw node: the locations of its items in order).  For every rule
  type, if the items of a node have the shape `Spec.nodeShape` prescribes, `transformNode`'s
  result `v` satisfies `valLocs v = locations of the items in order` (`node_valLocs`; for a doc
  string: the first of them); the rest is an induction over the tree.
-/
import GherkinVerif.Lemmas.AstIds
namespace GV
namespace Lemmas
open Spec

theorem flatMap_congr_mem {α β} (l : List α) (f g : α → List β) (h : ∀ a ∈ l, f a = g a) :
    l.flatMap f = l.flatMap g := by
  induction l with
  | nil => rfl
  | cons a l ih =>
    rw [List.flatMap_cons, List.flatMap_cons, h a List.mem_cons_self,
      ih fun b hb => h b (List.mem_cons_of_mem _ hb)]

/-! ### splitting a reading of an item list by key, generically -/
section generic
variable {α : Type} (g : Val → List α)

/-- a reading of the items of a node, item by item -/
def itemsMap (is : List (Key × Val)) : List α := is.flatMap fun kv => g kv.2
/-- … of the items under one key -/
def mapAt (k : Key) (is : List (Key × Val)) : List α := (getItems is k).flatMap g

theorem itemsMap_nil : itemsMap g [] = [] := rfl
theorem itemsMap_cons (kv : Key × Val) (l : List (Key × Val)) :
    itemsMap g (kv :: l) = g kv.2 ++ itemsMap g l := by simp [itemsMap]
theorem mapAt_cons_same (kv : Key × Val) (l : List (Key × Val)) :
    mapAt g kv.1 (kv :: l) = g kv.2 ++ mapAt g kv.1 l := by
  simp [mapAt, getItems_cons_same]
theorem mapAt_cons_ne (kv : Key × Val) (l : List (Key × Val)) (k : Key) (h : kv.1 ≠ k) :
    mapAt g k (kv :: l) = mapAt g k l := by
  simp [mapAt, getItems_cons_ne _ _ _ h]
theorem mapAt_eq_nil (l : List (Key × Val)) (k : Key) (h : ∀ kv ∈ l, keyIs k kv = false) :
    mapAt g k l = [] := by
  rw [mapAt, getItems_eq_nil l k h]; rfl

/-- If only the items under the keys `ks` contribute, and for `a` before `b` in `ks` no `b` item
    stands before an `a` item, then the reading of the list is the concatenation, in the order of
    `ks`, of the readings under each key. -/
theorem itemsMap_by_keys (ks : List Key) (hnd : ks.Nodup) (is : List (Key × Val))
    (hother : ∀ kv ∈ is, kv.1 ∉ ks → g kv.2 = [])
    (hord : ks.Pairwise fun a b => noBefore (keyIs a) (keyIs b) is = true) :
    itemsMap g is = ks.flatMap fun k => mapAt g k is := by
  induction is with
  | nil => simp [itemsMap_nil, mapAt, getItems_nil]
  | cons kv l ih =>
    have hord' : ks.Pairwise fun a b => noBefore (keyIs a) (keyIs b) l = true :=
      hord.imp fun h => ((noBefore_cons _ _ _ _).1 h).2
    have ih' := ih (fun y hy => hother y (List.mem_cons_of_mem _ hy)) hord'
    rw [itemsMap_cons, ih']
    by_cases hk : kv.1 ∈ ks
    · obtain ⟨pre, post, rfl⟩ := List.append_of_mem hk
      have hnd' := List.nodup_append.1 hnd
      have hnpre : ∀ k ∈ pre, kv.1 ≠ k := fun k hkp e => hnd'.2.2 k hkp kv.1 List.mem_cons_self e.symm
      have hnpost : ∀ k ∈ post, kv.1 ≠ k := fun k hkp e =>
        (List.nodup_cons.1 hnd'.2.1).1 (e ▸ hkp)
      have hpre0 : ∀ k ∈ pre, mapAt g k l = [] := by
        intro k hkp
        have := (List.pairwise_append.1 hord).2.2 k hkp kv.1 List.mem_cons_self
        exact mapAt_eq_nil g l k (((noBefore_cons _ _ _ _).1 this).1 ((keyIs_iff _ _).2 rfl))
      simp only [List.flatMap_append, List.flatMap_cons]
      have e1 : pre.flatMap (fun k => mapAt g k (kv :: l)) = [] := by
        rw [List.flatMap_eq_nil_iff]; intro k hkp
        rw [mapAt_cons_ne g kv l k (hnpre k hkp)]; exact hpre0 k hkp
      have e2 : pre.flatMap (fun k => mapAt g k l) = [] := by
        rw [List.flatMap_eq_nil_iff]; exact hpre0
      have e3 : post.flatMap (fun k => mapAt g k (kv :: l)) = post.flatMap (fun k => mapAt g k l) := by
        apply flatMap_congr_mem _ _ _
        intro k hkp; exact mapAt_cons_ne g kv l k (hnpost k hkp)
      rw [e1, e2, e3, mapAt_cons_same]
      simp only [List.nil_append, List.append_assoc]
    · rw [hother kv List.mem_cons_self hk, List.nil_append]
      apply flatMap_congr_mem _ _ _
      intro k hkk
      exact (mapAt_cons_ne g kv l k (fun e => hk (e ▸ hkk))).symm

/-- the single optional item of a key -/
theorem mapAt_single (is : List (Key × Val)) (k : Key) (h : noBefore (keyIs k) (keyIs k) is = true) :
    (getItems is k = [] ∧ getSingle is k = .none ∧ mapAt g k is = []) ∨
    (∃ v, getItems is k = [v] ∧ getSingle is k = v ∧ mapAt g k is = g v) := by
  rcases getItems_le_one is k h with h0 | ⟨v, hv⟩
  · exact Or.inl ⟨h0, getSingle_of_nil is k h0, by rw [mapAt, h0]; rfl⟩
  · exact Or.inr ⟨v, hv, getSingle_of_cons is k v [] hv, by rw [mapAt, hv]; simp⟩

/-- values that all have constructor `C`: their reading is that of the projected list -/
theorem flatMap_typed {β} (C : β → Val) (proj : Val → Option β) (f : β → List α)
    (hproj : ∀ a, proj (C a) = some a) (hf : ∀ a, g (C a) = f a) (vs : List Val)
    (h : ∀ v ∈ vs, ∃ a, v = C a) : vs.flatMap g = (vs.filterMap proj).flatMap f := by
  induction vs with
  | nil => rfl
  | cons v vs ih =>
    obtain ⟨a, rfl⟩ := h _ List.mem_cons_self
    rw [List.flatMap_cons, List.filterMap_cons_some (hproj a), List.flatMap_cons, hf,
      ih fun v hv => h v (List.mem_cons_of_mem _ hv)]

end generic

/-- the converse of `noBefore_of_splits` is in Lemmas/AstShape.lean; this direction: in a list
    with no `B` before an `A`, an `A` element has no `B` element before it -/
theorem noBefore_split {α} (A B : α → Bool) (l : List α) (h : noBefore A B l = true) :
    ∀ p y q, l = p ++ y :: q → A y = true → ∀ x ∈ p, B x = false := by
  induction l with
  | nil => intro p y q e; simp at e
  | cons z l ih =>
    intro p y q e hA x hx
    rw [noBefore_cons] at h
    cases p with
    | nil => cases hx
    | cons z' p' =>
      simp only [List.cons_append, List.cons.injEq] at e
      obtain ⟨rfl, e⟩ := e
      rcases List.mem_cons.1 hx with rfl | hx
      · cases hB : B x with
        | false => rfl
        | true =>
          have := h.1 hB y (by rw [e]; simp)
          rw [hA] at this; cases this
      · exact ih h.2 p' y q e hA x hx

/-- two keys that exclude each other (no `a` before `b`, no `b` before `a`): not both present -/
theorem exclusive_keys (is : List (Key × Val)) (a b : Key) (hab : a ≠ b)
    (h1 : noBefore (keyIs a) (keyIs b) is = true) (h2 : noBefore (keyIs b) (keyIs a) is = true) :
    getItems is a = [] ∨ getItems is b = [] := by
  induction is with
  | nil => exact Or.inl rfl
  | cons kv l ih =>
    rw [noBefore_cons] at h1 h2
    by_cases ha : kv.1 = a
    · right
      have hb : kv.1 ≠ b := fun e => hab (ha.symm.trans e)
      rw [getItems_cons_ne _ _ _ hb]
      exact getItems_eq_nil l b (h2.1 ((keyIs_iff _ _).2 ha))
    · by_cases hb : kv.1 = b
      · left
        rw [getItems_cons_ne _ _ _ ha]
        exact getItems_eq_nil l a (h1.1 ((keyIs_iff _ _).2 hb))
      · rw [getItems_cons_ne _ _ _ ha, getItems_cons_ne _ _ _ hb]
        exact ih h1.2 h2.2

/-! ### locations of intermediate values -/

mutual
/-- the element locations inside a value of the builder, in source order -/
def valLocs : Val → List Loc
  | .tok t => leafLocs t
  | .step s => stepLocs s
  | .docString d => [d.loc]
  | .dataTable d => rowLocs d.rows
  | .background b => backgroundLocs b
  | .scenario s => scenarioLocs s
  | .examples e => examplesLocs e
  | .rows rs => rowLocs rs
  | .rule r => ruleLocs r
  | .feature f => featureLocs f
  | .doc d => srcLocs d
  | .raw _ items => itemsLocs items
  | .none => []
  | .descr _ => []
def itemsLocs : List (Key × Val) → List Loc
  | [] => []
  | (_, v) :: rest => valLocs v ++ itemsLocs rest
end

theorem itemsLocs_eq (is : List (Key × Val)) : itemsLocs is = itemsMap valLocs is := by
  induction is with
  | nil => rw [itemsLocs]; rfl
  | cons kv l ih => obtain ⟨k, v⟩ := kv; rw [itemsLocs, ih, itemsMap_cons]
theorem itemsLocs_nil : itemsLocs [] = [] := by rw [itemsLocs]
theorem itemsLocs_cons (kv : Key × Val) (l : List (Key × Val)) :
    itemsLocs (kv :: l) = valLocs kv.2 ++ itemsLocs l := by
  obtain ⟨k, v⟩ := kv; rw [itemsLocs]
theorem itemsLocs_append (a b : List (Key × Val)) : itemsLocs (a ++ b) = itemsLocs a ++ itemsLocs b := by
  induction a with
  | nil => simp [itemsLocs_nil]
  | cons kv a ih => rw [List.cons_append, itemsLocs_cons, itemsLocs_cons, ih, List.append_assoc]
theorem itemsLocs_singleton (k : Key) (v : Val) : itemsLocs [(k, v)] = valLocs v := by
  rw [itemsLocs_cons, itemsLocs_nil, List.append_nil]
theorem valLocs_raw (rt : RuleType) (is : List (Key × Val)) : valLocs (.raw rt is) = itemsLocs is := by
  rw [valLocs]

/-- the locations under one key -/
abbrev locsAt (k : Key) (is : List (Key × Val)) : List Loc := mapAt valLocs k is

/-! ### what a line carries -/

/-- the locations of the tags on these tag lines -/
def tagLineLocs (toks : List Token) : List Loc :=
  toks.flatMap fun t => t.items.map fun it => getLocation t (some it.1)

theorem leafLocs_tagLine (t : Token) (h : t.mtype = some .TagLine) :
    leafLocs t = t.items.map fun it => getLocation t (some it.1) := by
  simp only [leafLocs, h]

theorem leafLocs_elem (t : Token) (k : Kind) (h : t.mtype = some k) (hk : k ∈ elemKinds) (hk' : k ≠ .TagLine) :
    leafLocs t = [t.loc] := by
  unfold leafLocs
  rw [h]
  cases k <;> first | exact absurd rfl hk' | exact absurd hk (by decide) | rfl

theorem leafLocs_nonElem (t : Token) (k : Kind) (h : t.mtype = some k) (hk : k ∉ elemKinds) :
    leafLocs t = [] := by
  unfold leafLocs
  rw [h]
  cases k <;> first | exact absurd (by decide) hk | rfl

/-- the tags numbered by `getTags` sit where their tag lines say -/
theorem tagLocs_numberTags (toks : List Token) (n : Nat) : tagLocs (numberTags toks n) = tagLineLocs toks := by
  have := congrArg (List.map Prod.fst) (numberTags_content toks n)
  simp only [List.map_map] at this
  rw [tagLocs, tagLineLocs]
  refine Eq.trans ?_ (this.trans ?_)
  · rfl
  · simp [List.map_flatMap, Function.comp_def]

theorem rowLocs_numberRows (toks : List Token) (n : Nat) : rowLocs (numberRows toks n) = toks.map (·.loc) := by
  have := congrArg (List.map Prod.fst) (numberRows_content toks n)
  simp only [List.map_map] at this
  rw [rowLocs]
  refine Eq.trans ?_ (this.trans ?_)
  · rfl
  · rfl

/-! ### typed items, for locations -/

/-- the tokens under key `k` really are lines of kind `k`, and there is at most one -/
def KeyLine (k : Kind) (is : List (Key × Val)) : Prop :=
  (∀ t ∈ getTokens is k, t.mtype = some k) ∧ (getTokens is k).length ≤ 1 ∧
  getItems is (.tok k) = (getTokens is k).map Val.tok

/-- the tag locations of a node: those of the tag lines of its (first) `Tags` item -/
def tagLocsOf (is : List (Key × Val)) : List Loc :=
  match tagTokens is with
  | some toks => tagLineLocs toks
  | none => []

/-- as `ValTyped`, with what the parent's transformation needs to know about the locations in
    a raw node -/
def LTyped : RuleType → Val → Prop
  | .Step, v => ∃ s, v = .step s
  | .DataTable, v => ∃ d, v = .dataTable d
  | .DocString, v => ∃ d, v = .docString d
  | .Background, v => ∃ b, v = .background b
  | .ScenarioDefinition, v => ∃ s, v = .scenario s
  | .ExamplesDefinition, v => ∃ e, v = .examples e
  | .ExamplesTable, v => ∃ rs, v = .rows rs
  | .Description, v => ∃ s, v = .descr s
  | .Rule, v => ∃ r, v = .rule r
  | .Feature, v => ∃ f, v = .feature f
  | .GherkinDocument, v => ∃ d, v = .doc d
  | .Tags, v => ∃ is, v = .raw .Tags is ∧ itemsLocs is = tagLineLocs (getTokens is .TagLine)
  | .Scenario, v => ∃ sc, v = .raw .Scenario sc ∧ KeyLine .ScenarioLine sc ∧
      itemsLocs sc = (getTokens sc .ScenarioLine).flatMap leafLocs ++
        ((getSteps sc).flatMap stepLocs ++ (getExamples sc).flatMap examplesLocs)
  | .Examples, v => ∃ ex, v = .raw .Examples ex ∧ KeyLine .ExamplesLine ex ∧
      itemsLocs ex = (getTokens ex .ExamplesLine).flatMap leafLocs ++ rowLocs (tableOf ex)
  | .RuleHeader, v => ∃ hd, v = .raw .RuleHeader hd ∧ KeyLine .RuleLine hd ∧
      itemsLocs hd = tagLocsOf hd ++ (getTokens hd .RuleLine).flatMap leafLocs ∧
      ∃ line, getSingle hd (.tok .RuleLine) = .tok line
  | .FeatureHeader, v => ∃ hd, v = .raw .FeatureHeader hd ∧ KeyLine .FeatureLine hd ∧
      itemsLocs hd = tagLocsOf hd ++ (getTokens hd .FeatureLine).flatMap leafLocs ∧
      ∃ line, getSingle hd (.tok .FeatureLine) = .tok line
  | _, _ => True

/-- a token of the right kind under a token key, an `LTyped` value under a rule key -/
def TypedItemL (kv : Key × Val) : Prop :=
  match kv.1 with
  | .tok k => ∃ t, kv.2 = .tok t ∧ t.mtype = some k
  | .rule r => LTyped r kv.2

theorem ltyped_of_mem_getItems {is : List (Key × Val)} (hty : ∀ kv ∈ is, TypedItemL kv) {r : RuleType} {v : Val}
    (h : v ∈ getItems is (.rule r)) : LTyped r v :=
  hty (.rule r, v) (mem_getItems is _ v h)

/-- the items under a token key are tokens of that kind; their locations are those of the lines -/
theorem tokens_of_typed {is : List (Key × Val)} (hty : ∀ kv ∈ is, TypedItemL kv) (k : Kind) :
    getItems is (.tok k) = (getTokens is k).map Val.tok ∧ (∀ t ∈ getTokens is k, t.mtype = some k) ∧
    locsAt (.tok k) is = (getTokens is k).flatMap leafLocs := by
  have hall : ∀ v ∈ getItems is (.tok k), ∃ t, v = .tok t ∧ t.mtype = some k := fun v hv =>
    hty (.tok k, v) (mem_getItems is _ v hv)
  unfold locsAt mapAt getTokens
  generalize getItems is (.tok k) = vs at hall
  induction vs with
  | nil =>
    refine ⟨rfl, fun _ h => ?_, rfl⟩
    cases h
  | cons v vs ih =>
    obtain ⟨t, rfl, hm⟩ := hall v List.mem_cons_self
    obtain ⟨h1, h2, h3⟩ := ih fun v hv => hall v (List.mem_cons_of_mem _ hv)
    refine ⟨?_, ?_, ?_⟩
    · simp only [List.filterMap_cons, List.map_cons]; rw [← h1]
    · intro t' ht'
      simp only [List.filterMap_cons, List.mem_cons] at ht'
      rcases ht' with rfl | ht'
      · exact hm
      · exact h2 t' ht'
    · simp only [List.flatMap_cons, List.filterMap_cons]; rw [h3, valLocs]

/-- the keyword line of a node: `getSingle` returns it and its location is all there is under
    its key -/
theorem keyLine_loc {is : List (Key × Val)} {k : Kind} (hk : KeyLine k is) (hel : k ∈ elemKinds)
    (hnt : k ≠ .TagLine) {line : Token} (hs : getSingle is (.tok k) = .tok line) :
    (getTokens is k).flatMap leafLocs = [line.loc] := by
  rw [getSingle_eq_head, hk.2.2] at hs
  cases hg : getTokens is k with
  | nil => rw [hg] at hs; cases hs
  | cons t ts =>
    rw [hg] at hs
    simp only [List.map_cons, List.headD_cons, Val.tok.injEq] at hs
    subst hs
    have hl := hk.2.1
    rw [hg] at hl
    have hts : ts = [] := List.eq_nil_of_length_eq_zero (by simp only [List.length_cons] at hl; omega)
    subst hts
    simp only [List.flatMap_cons, List.flatMap_nil, List.append_nil]
    exact leafLocs_elem t k (hk.1 t (by rw [hg]; exact List.mem_cons_self)) hel hnt


/-! ### helpers for the per-rule lemmas -/

/-- items under keys outside `ks` carry no location, when `ks` lists all element-carrying lines
    and all nodes but descriptions that may occur -/
theorem others_nil_locs {R : RuleType} {is : List (Key × Val)} (hok : ItemsOK R is)
    (hty : ∀ kv ∈ is, TypedItemL kv) (ks : List Key)
    (hlines : ∀ k ∈ (nodeShape R).lines, Key.tok k ∈ ks)
    (hall : ∀ r' ∈ (nodeShape R).allowed, Key.rule r' ∈ ks ∨ r' = .Description) :
    ∀ kv ∈ is, kv.1 ∉ ks → valLocs kv.2 = [] := by
  intro kv hkv hne
  have ht := hty kv hkv
  obtain ⟨key, v⟩ := kv
  cases key with
  | tok k =>
    obtain ⟨t, hv, hm⟩ := ht
    simp only at hv; subst hv
    rw [valLocs]
    by_cases hel : k ∈ elemKinds
    · exact absurd (hlines k (hok.lines _ hkv k rfl hel)) hne
    · exact leafLocs_nonElem t k hm hel
  | rule r' =>
    rcases hall r' (hok.allowed _ hkv r' rfl) with h | rfl
    · exact absurd h hne
    · obtain ⟨s, hv⟩ := ht
      simp only at hv; subst hv; rw [valLocs]

/-- the split of the item locations by the keys `ks` -/
theorem itemsLocs_by_keys {R : RuleType} {is : List (Key × Val)} (hok : ItemsOK R is)
    (hty : ∀ kv ∈ is, TypedItemL kv) (ks : List Key) (hnd : ks.Nodup)
    (hlines : ∀ k ∈ (nodeShape R).lines, Key.tok k ∈ ks)
    (hall : ∀ r' ∈ (nodeShape R).allowed, Key.rule r' ∈ ks ∨ r' = .Description)
    (hord : ks.Pairwise fun a b => noBefore (keyIs a) (keyIs b) is = true) :
    itemsLocs is = ks.flatMap fun k => locsAt k is := by
  rw [itemsLocs_eq]
  exact itemsMap_by_keys valLocs ks hnd is (others_nil_locs hok hty ks hlines hall) hord

theorem keyLine_of_once {is : List (Key × Val)} (hty : ∀ kv ∈ is, TypedItemL kv) (k : Kind)
    (h : noBefore (keyIs (.tok k)) (keyIs (.tok k)) is = true) : KeyLine k is := by
  obtain ⟨h1, h2, -⟩ := tokens_of_typed hty k
  refine ⟨h2, ?_, h1⟩
  have := congrArg List.length h1
  rw [List.length_map] at this
  rw [← this]
  rcases getItems_le_one is _ h with h0 | ⟨v, hv⟩
  · rw [h0]; exact Nat.zero_le _
  · rw [hv]; exact Nat.le_refl _

theorem flatMap_leafLocs_elem (toks : List Token) (k : Kind) (h : ∀ t ∈ toks, t.mtype = some k)
    (hel : k ∈ elemKinds) (hnt : k ≠ .TagLine) : toks.flatMap leafLocs = toks.map (·.loc) := by
  induction toks with
  | nil => rfl
  | cons t toks ih =>
    rw [List.flatMap_cons, leafLocs_elem t k (h t List.mem_cons_self) hel hnt,
      ih fun t' ht' => h t' (List.mem_cons_of_mem _ ht')]
    rfl

theorem flatMap_leafLocs_tagLine (toks : List Token) (h : ∀ t ∈ toks, t.mtype = some .TagLine) :
    toks.flatMap leafLocs = tagLineLocs toks := by
  rw [tagLineLocs]
  exact flatMap_congr_mem _ _ _ fun t ht => leafLocs_tagLine t (h t ht)

theorem locsAt_steps (is : List (Key × Val)) (hty : ∀ kv ∈ is, TypedItemL kv) :
    locsAt (.rule .Step) is = (getSteps is).flatMap stepLocs :=
  flatMap_typed valLocs Val.step _ stepLocs (fun _ => rfl) (fun _ => by rw [valLocs]) _
    fun _ hv => ltyped_of_mem_getItems hty hv

theorem locsAt_scenarios (is : List (Key × Val)) (hty : ∀ kv ∈ is, TypedItemL kv) :
    locsAt (.rule .ScenarioDefinition) is = (getScenarios is).flatMap scenarioLocs :=
  flatMap_typed valLocs Val.scenario _ scenarioLocs (fun _ => rfl) (fun _ => by rw [valLocs]) _
    fun _ hv => ltyped_of_mem_getItems hty hv

theorem locsAt_examples (is : List (Key × Val)) (hty : ∀ kv ∈ is, TypedItemL kv) :
    locsAt (.rule .ExamplesDefinition) is = (getExamples is).flatMap examplesLocs :=
  flatMap_typed valLocs Val.examples _ examplesLocs (fun _ => rfl) (fun _ => by rw [valLocs]) _
    fun _ hv => ltyped_of_mem_getItems hty hv

theorem locsAt_rules (is : List (Key × Val)) (hty : ∀ kv ∈ is, TypedItemL kv) :
    locsAt (.rule .Rule) is = (getRules is).flatMap ruleLocs :=
  flatMap_typed valLocs Val.rule _ ruleLocs (fun _ => rfl) (fun _ => by rw [valLocs]) _
    fun _ hv => ltyped_of_mem_getItems hty hv

theorem locsAt_background (is : List (Key × Val)) (hty : ∀ kv ∈ is, TypedItemL kv)
    (h : noBefore (keyIs (.rule .Background)) (keyIs (.rule .Background)) is = true) :
    locsAt (.rule .Background) is = (getBackground is).toList.flatMap backgroundLocs := by
  rcases mapAt_single valLocs is _ h with ⟨_, h2, h3⟩ | ⟨v, h1, h2, h3⟩
  · rw [locsAt, h3, getBackground, h2]; rfl
  · obtain ⟨b, rfl⟩ : LTyped .Background v := ltyped_of_mem_getItems hty (by rw [h1]; exact List.mem_cons_self)
    rw [locsAt, h3, getBackground, h2, valLocs]; simp

theorem locsAt_tags (is : List (Key × Val)) (hty : ∀ kv ∈ is, TypedItemL kv)
    (h : noBefore (keyIs (.rule .Tags)) (keyIs (.rule .Tags)) is = true) :
    locsAt (.rule .Tags) is = tagLocsOf is := by
  rcases mapAt_single valLocs is _ h with ⟨_, h2, h3⟩ | ⟨v, h1, h2, h3⟩
  · rw [locsAt, h3, tagLocsOf, tagTokens, h2]; rfl
  · obtain ⟨tis, rfl, ht⟩ : LTyped .Tags v := ltyped_of_mem_getItems hty (by rw [h1]; exact List.mem_cons_self)
    rw [locsAt, h3, tagLocsOf, tagTokens, h2, valLocs_raw, ht]

theorem tagLocsOf_some {is : List (Key × Val)} {toks : List Token} (h : tagTokens is = some toks) :
    tagLocsOf is = tagLineLocs toks := by
  rw [tagLocsOf, h]

theorem pairwise2 {α} (R : α → α → Prop) (a b : α) (h : R a b) : [a, b].Pairwise R := by
  simp [h]
theorem pairwise3 {α} (R : α → α → Prop) (a b c : α) (hab : R a b) (hac : R a c) (hbc : R b c) :
    [a, b, c].Pairwise R := by
  simp [hab, hac, hbc]
theorem pairwise4 {α} (R : α → α → Prop) (a b c d : α) (hab : R a b) (hac : R a c) (had : R a d)
    (hbc : R b c) (hbd : R b d) (hcd : R c d) : [a, b, c, d].Pairwise R := by
  simp [hab, hac, had, hbc, hbd, hcd]

theorem rowLocs_head_drop (rs : List Row) : rowLocs rs.head?.toList ++ rowLocs (rs.drop 1) = rowLocs rs := by
  cases rs <;> simp [rowLocs]

/-! ### one node -/

/-- what is to be shown for each rule type: the value is typed, and its locations are those of
    the items in order — for a doc string the first of them -/
def NodeLocs (R : RuleType) : Prop :=
  ∀ (cs : List Comment) (is : List (Key × Val)) (n m : Nat) (v : Val),
    ItemsOK R is → (∀ kv ∈ is, TypedItemL kv) → (transformNode cs ⟨R, is⟩).run.run n = (.ok v, m) →
    LTyped R v ∧ valLocs v = if R = .DocString then (itemsLocs is).head?.toList else itemsLocs is

theorem nodeLocs_tags : NodeLocs .Tags := by
  intro cs is n m v hok hty h
  obtain ⟨rfl, rfl⟩ := raw_ok cs _ is n m v rfl h
  refine ⟨⟨_, rfl, ?_⟩, by rw [valLocs_raw]; rfl⟩
  rw [itemsLocs_by_keys hok hty [.tok .TagLine] (by decide) (by decide) (by decide) (by simp)]
  simp only [List.flatMap_cons, List.flatMap_nil, List.append_nil]
  obtain ⟨-, h2, h3⟩ := tokens_of_typed hty .TagLine
  rw [h3, flatMap_leafLocs_tagLine _ h2]

theorem itemsLocs_rows {R : RuleType} {is : List (Key × Val)} (hok : ItemsOK R is)
    (hty : ∀ kv ∈ is, TypedItemL kv) (hl : (nodeShape R).lines = [.TableRow]) (ha : (nodeShape R).allowed = []) :
    itemsLocs is = (getTokens is .TableRow).map (·.loc) := by
  rw [itemsLocs_by_keys hok hty [.tok .TableRow] (by decide) (by rw [hl]; decide) (by rw [ha]; decide) (by simp)]
  simp only [List.flatMap_cons, List.flatMap_nil, List.append_nil]
  obtain ⟨-, h2, h3⟩ := tokens_of_typed hty .TableRow
  rw [h3, flatMap_leafLocs_elem _ .TableRow h2 (by decide) (by decide)]

theorem nodeLocs_dataTable : NodeLocs .DataTable := by
  intro cs is n m v hok hty h
  obtain ⟨-, t0, rest, -, rfl, rfl⟩ := (dataTable_ok cs is n m v).1 h
  refine ⟨⟨_, rfl⟩, ?_⟩
  rw [valLocs, rowLocs_numberRows, itemsLocs_rows hok hty rfl rfl]; rfl

theorem nodeLocs_examplesTable : NodeLocs .ExamplesTable := by
  intro cs is n m v hok hty h
  obtain ⟨-, rfl, rfl⟩ := (examplesTable_ok cs is n m v).1 h
  refine ⟨⟨_, rfl⟩, ?_⟩
  rw [valLocs, rowLocs_numberRows, itemsLocs_rows hok hty rfl rfl]; rfl

theorem nodeLocs_description : NodeLocs .Description := by
  intro cs is n m v hok hty h
  simp only [transformNode] at h
  rw [run_bind_ok] at h
  obtain ⟨ls, n1, -, h2⟩ := h
  rw [run_pure_ok] at h2
  obtain ⟨rfl, rfl⟩ := h2
  refine ⟨⟨_, rfl⟩, ?_⟩
  rw [valLocs, itemsLocs_by_keys hok hty [] (by decide) (by decide) (by decide) (by simp)]; rfl

theorem nodeLocs_docString : NodeLocs .DocString := by
  intro cs is n m v hok hty h
  simp only [transformNode] at h
  split at h
  · rw [run_crash_ok] at h; cases h
  · next sep tail heq =>
    simp only [run_bind_ok, run_pure_ok] at h
    obtain ⟨_, _, -, _, _, -, _, _, -, rfl, -⟩ := h
    refine ⟨⟨_, rfl⟩, ?_⟩
    rw [valLocs, itemsLocs_by_keys hok hty [.tok .DocStringSeparator] (by decide) (by decide) (by decide) (by simp)]
    simp only [List.flatMap_cons, List.flatMap_nil, List.append_nil]
    obtain ⟨-, h2, h3⟩ := tokens_of_typed hty .DocStringSeparator
    rw [h3, flatMap_leafLocs_elem _ .DocStringSeparator h2 (by decide) (by decide), heq]
    rfl

theorem nodeLocs_other (R : RuleType) (hR : ∀ cs is, transformNode cs ⟨R, is⟩ = pure (.raw R is))
    (hT : ∀ v, LTyped R v) (hD : R ≠ .DocString) : NodeLocs R := by
  intro cs is n m v hok hty h
  obtain ⟨rfl, rfl⟩ := raw_ok cs _ is n m v (hR cs is) h
  exact ⟨hT _, by rw [valLocs_raw, if_neg hD]⟩

theorem nodeLocs_step : NodeLocs .Step := by
  intro cs is n m v hok hty h
  obtain ⟨line, hl, kw, -, kt, -, tx, -, rfl, rfl⟩ := (step_ok cs is n m v).1 h
  refine ⟨⟨_, rfl⟩, ?_⟩
  rw [if_neg (by decide), itemsLocs_by_keys hok hty [.tok .StepLine, .rule .DataTable, .rule .DocString]
    (by decide) (by decide) (by decide)
    (pairwise3 _ _ _ _ (hok.order (.tok .StepLine, .rule .DataTable) (by decide))
      (hok.order (.tok .StepLine, .rule .DocString) (by decide))
      (hok.order (.rule .DataTable, .rule .DocString) (by decide)))]
  simp only [List.flatMap_cons, List.flatMap_nil, List.append_nil]
  have hkl := keyLine_of_once hty .StepLine (hok.order (.tok .StepLine, .tok .StepLine) (by decide))
  rw [(tokens_of_typed hty .StepLine).2.2, keyLine_loc hkl (by decide) (by decide) hl, valLocs, stepLocs]
  show line.loc :: _ = _
  rw [List.singleton_append]
  congr 1
  simp only [stepArgOf]
  rcases mapAt_single valLocs is (.rule .DataTable) (hok.order (.rule .DataTable, .rule .DataTable) (by decide)) with
    ⟨_, a2, a3⟩ | ⟨v, a1, a2, a3⟩
  · rw [locsAt, a3]; simp only [a2]
    rcases mapAt_single valLocs is (.rule .DocString) (hok.order (.rule .DocString, .rule .DocString) (by decide)) with
      ⟨_, b2, b3⟩ | ⟨w, b1, b2, b3⟩
    · rw [locsAt, b3]; simp only [b2]; rfl
    · obtain ⟨d, rfl⟩ : LTyped .DocString w := ltyped_of_mem_getItems hty (by rw [b1]; exact List.mem_cons_self)
      rw [locsAt, b3]; simp only [b2]; rw [valLocs]; rfl
  · obtain ⟨d, rfl⟩ : LTyped .DataTable v := ltyped_of_mem_getItems hty (by rw [a1]; exact List.mem_cons_self)
    have hex : getItems is (.rule .DocString) = [] := by
      rcases exclusive_keys is (.rule .DataTable) (.rule .DocString) (by decide)
        (hok.order (.rule .DataTable, .rule .DocString) (by decide))
        (hok.order (.rule .DocString, .rule .DataTable) (by decide)) with e | e
      · rw [a1] at e; cases e
      · exact e
    have hds : locsAt (.rule .DocString) is = [] := by rw [locsAt, mapAt, hex]; rfl
    rw [hds, locsAt, a3]; simp only [a2]; rw [valLocs]; simp [argLocs]

theorem nodeLocs_background : NodeLocs .Background := by
  intro cs is n m v hok hty h
  obtain ⟨line, hl, d, -, kw, -, nm, -, rfl, rfl⟩ := (background_ok cs is n m v).1 h
  refine ⟨⟨_, rfl⟩, ?_⟩
  rw [if_neg (by decide), itemsLocs_by_keys hok hty [.tok .BackgroundLine, .rule .Step]
    (by decide) (by decide) (by decide)
    (pairwise2 _ _ _ (hok.order (.tok .BackgroundLine, .rule .Step) (by decide)))]
  simp only [List.flatMap_cons, List.flatMap_nil, List.append_nil]
  have hkl := keyLine_of_once hty .BackgroundLine (hok.order (.tok .BackgroundLine, .tok .BackgroundLine) (by decide))
  rw [(tokens_of_typed hty .BackgroundLine).2.2, keyLine_loc hkl (by decide) (by decide) hl,
    locsAt_steps is hty, valLocs, backgroundLocs]
  rfl

theorem nodeLocs_scenarioRaw : NodeLocs .Scenario := by
  intro cs is n m v hok hty h
  obtain ⟨rfl, rfl⟩ := raw_ok cs _ is n m v rfl h
  have hkl := keyLine_of_once hty .ScenarioLine (hok.order (.tok .ScenarioLine, .tok .ScenarioLine) (by decide))
  refine ⟨⟨_, rfl, hkl, ?_⟩, by rw [valLocs_raw]; rfl⟩
  rw [itemsLocs_by_keys hok hty [.tok .ScenarioLine, .rule .Step, .rule .ExamplesDefinition]
    (by decide) (by decide) (by decide)
    (pairwise3 _ _ _ _ (hok.order (.tok .ScenarioLine, .rule .Step) (by decide))
      (hok.order (.tok .ScenarioLine, .rule .ExamplesDefinition) (by decide))
      (hok.order (.rule .Step, .rule .ExamplesDefinition) (by decide)))]
  simp only [List.flatMap_cons, List.flatMap_nil, List.append_nil]
  rw [(tokens_of_typed hty .ScenarioLine).2.2, locsAt_steps is hty, locsAt_examples is hty]

theorem nodeLocs_examplesRaw : NodeLocs .Examples := by
  intro cs is n m v hok hty h
  obtain ⟨rfl, rfl⟩ := raw_ok cs _ is n m v rfl h
  have hkl := keyLine_of_once hty .ExamplesLine (hok.order (.tok .ExamplesLine, .tok .ExamplesLine) (by decide))
  refine ⟨⟨_, rfl, hkl, ?_⟩, by rw [valLocs_raw]; rfl⟩
  rw [itemsLocs_by_keys hok hty [.tok .ExamplesLine, .rule .ExamplesTable]
    (by decide) (by decide) (by decide)
    (pairwise2 _ _ _ (hok.order (.tok .ExamplesLine, .rule .ExamplesTable) (by decide)))]
  simp only [List.flatMap_cons, List.flatMap_nil, List.append_nil]
  rw [(tokens_of_typed hty .ExamplesLine).2.2]
  congr 1
  simp only [tableOf]
  rcases mapAt_single valLocs is (.rule .ExamplesTable) (hok.order (.rule .ExamplesTable, .rule .ExamplesTable) (by decide)) with
    ⟨_, a2, a3⟩ | ⟨v, a1, a2, a3⟩
  · rw [locsAt, a3]; simp only [a2]; rfl
  · obtain ⟨rs, rfl⟩ : LTyped .ExamplesTable v := ltyped_of_mem_getItems hty (by rw [a1]; exact List.mem_cons_self)
    rw [locsAt, a3]; simp only [a2]; rw [valLocs]

/-- a header node (`Tags`, then the keyword line) -/
theorem header_locs {R : RuleType} {is : List (Key × Val)} (hok : ItemsOK R is)
    (hty : ∀ kv ∈ is, TypedItemL kv) (k : Kind)
    (hlines : (nodeShape R).lines = [k]) (hall : (nodeShape R).allowed = [.Tags, .Description])
    (h1 : (Sym.rule .Tags, Sym.rule .Tags) ∈ (nodeShape R).order)
    (h2 : (Sym.tok k, Sym.tok k) ∈ (nodeShape R).order)
    (h3 : (Sym.rule .Tags, Sym.tok k) ∈ (nodeShape R).order)
    (h4 : Sym.tok k ∈ (nodeShape R).needs) :
    KeyLine k is ∧ itemsLocs is = tagLocsOf is ++ (getTokens is k).flatMap leafLocs ∧
      ∃ line, getSingle is (.tok k) = .tok line := by
  have hkl := keyLine_of_once hty k (hok.order _ h2)
  refine ⟨hkl, ?_, ?_⟩
  · rw [itemsLocs_by_keys hok hty [.rule .Tags, .tok k] (by simp) (by rw [hlines]; simp) (by rw [hall]; simp)
      (pairwise2 _ _ _ (hok.order _ h3))]
    simp only [List.flatMap_cons, List.flatMap_nil, List.append_nil]
    rw [locsAt_tags is hty (hok.order _ h1), (tokens_of_typed hty k).2.2]
  · obtain ⟨kv, hkv, e⟩ := hok.needs _ h4
    simp only [symKey] at e
    have hne := getItems_ne_nil_of_mem is kv hkv
    rw [e, hkl.2.2] at hne
    cases hg : getTokens is k with
    | nil => rw [hg] at hne; exact absurd rfl hne
    | cons t ts =>
      refine ⟨t, ?_⟩
      rw [getSingle_eq_head, hkl.2.2, hg]; rfl

theorem nodeLocs_ruleHeader : NodeLocs .RuleHeader := by
  intro cs is n m v hok hty h
  obtain ⟨rfl, rfl⟩ := raw_ok cs _ is n m v rfl h
  obtain ⟨a, b, c⟩ := header_locs hok hty .RuleLine rfl rfl (by decide) (by decide) (by decide) (by decide)
  exact ⟨⟨_, rfl, a, b, c⟩, by rw [valLocs_raw]; rfl⟩

theorem nodeLocs_featureHeader : NodeLocs .FeatureHeader := by
  intro cs is n m v hok hty h
  obtain ⟨rfl, rfl⟩ := raw_ok cs _ is n m v rfl h
  obtain ⟨a, b, c⟩ := header_locs hok hty .FeatureLine rfl rfl (by decide) (by decide) (by decide) (by decide)
  exact ⟨⟨_, rfl, a, b, c⟩, by rw [valLocs_raw]; rfl⟩

/-- a definition node (`Tags`, then the raw node `x`): the item locations are the tag locations,
    then those of the single `x` item -/
theorem definition_locs {R : RuleType} {is : List (Key × Val)} (hok : ItemsOK R is)
    (hty : ∀ kv ∈ is, TypedItemL kv) (x : RuleType) (hx : x ≠ .Tags)
    (hall : (nodeShape R).allowed = [.Tags, x]) (hlines : (nodeShape R).lines = [])
    (h1 : (Sym.rule .Tags, Sym.rule .Tags) ∈ (nodeShape R).order)
    (h2 : (Sym.rule x, Sym.rule x) ∈ (nodeShape R).order)
    (h3 : (Sym.rule .Tags, Sym.rule x) ∈ (nodeShape R).order)
    {rt : RuleType} {inner : List (Key × Val)} (hs : getSingle is (.rule x) = .raw rt inner) :
    itemsLocs is = tagLocsOf is ++ itemsLocs inner ∧ LTyped x (.raw rt inner) := by
  rw [itemsLocs_by_keys hok hty [.rule .Tags, .rule x] (by simp [Ne.symm hx]) (by rw [hlines]; simp)
    (by rw [hall]; simp) (pairwise2 _ _ _ (hok.order _ h3))]
  simp only [List.flatMap_cons, List.flatMap_nil, List.append_nil]
  rw [locsAt_tags is hty (hok.order _ h1)]
  rcases mapAt_single valLocs is (.rule x) (hok.order _ h2) with ⟨_, a2, a3⟩ | ⟨v, a1, a2, a3⟩
  · rw [hs] at a2; cases a2
  · rw [hs] at a2; subst a2
    rw [locsAt, a3, valLocs_raw]
    exact ⟨rfl, ltyped_of_mem_getItems hty (by rw [a1]; exact List.mem_cons_self)⟩

theorem nodeLocs_scenario : NodeLocs .ScenarioDefinition := by
  intro cs is n m v hok hty h
  obtain ⟨toks, htags, rt, sc, hs, line, hl, d, -, kw, -, nm, -, rfl, rfl⟩ := (scenario_ok cs is n m v).1 h
  refine ⟨⟨_, rfl⟩, ?_⟩
  obtain ⟨e1, sc', e2, hkl, e3⟩ := definition_locs hok hty .Scenario (by decide) rfl rfl (by decide) (by decide) (by decide) hs
  cases e2
  rw [if_neg (by decide), e1, e3, tagLocsOf_some htags, keyLine_loc hkl (by decide) (by decide) hl, valLocs,
    scenarioLocs, tagLocs_numberTags]
  rfl

theorem nodeLocs_examples : NodeLocs .ExamplesDefinition := by
  intro cs is n m v hok hty h
  obtain ⟨toks, htags, rt, ex, hs, line, hl, d, -, kw, -, nm, -, rfl, rfl⟩ := (examples_ok cs is n m v).1 h
  refine ⟨⟨_, rfl⟩, ?_⟩
  obtain ⟨e1, ex', e2, hkl, e3⟩ := definition_locs hok hty .Examples (by decide) rfl rfl (by decide) (by decide) (by decide) hs
  cases e2
  rw [if_neg (by decide), e1, e3, tagLocsOf_some htags, keyLine_loc hkl (by decide) (by decide) hl, valLocs,
    examplesLocs, tagLocs_numberTags, rowLocs_head_drop]
  rfl

/-- the required header of a rule / feature -/
theorem header_single_locs {R : RuleType} {is : List (Key × Val)} (hok : ItemsOK R is)
    (hty : ∀ kv ∈ is, TypedItemL kv) (x : RuleType) (hx : Sym.rule x ∈ (nodeShape R).needs)
    (hone : (Sym.rule x, Sym.rule x) ∈ (nodeShape R).order) :
    LTyped x (getSingle is (.rule x)) ∧ locsAt (.rule x) is = valLocs (getSingle is (.rule x)) := by
  obtain ⟨kv, hkv, e⟩ := hok.needs (.rule x) hx
  simp only [symKey] at e
  have hne := getItems_ne_nil_of_mem is kv hkv
  rw [e] at hne
  rcases mapAt_single valLocs is (.rule x) (hok.order _ hone) with ⟨a1, _, _⟩ | ⟨v, a1, a2, a3⟩
  · exact absurd a1 hne
  · rw [a2, locsAt, a3]
    exact ⟨ltyped_of_mem_getItems hty (by rw [a1]; exact List.mem_cons_self), rfl⟩

theorem nodeLocs_rule : NodeLocs .Rule := by
  intro cs is n m v hok hty h
  obtain ⟨⟨hd, hh, hkl, hlocs, line, hl⟩, hat⟩ := header_single_locs hok hty .RuleHeader (by decide) (by decide)
  have hv : v ≠ .none := by
    simp only [transformNode, hh, hl, bind_getTags_ok, bind_getDescription_ok, bind_nextId_ok,
      bind_need_ok, run_pure_ok] at h
    obtain ⟨_, -, _, -, _, -, _, -, rfl, -⟩ := h
    exact fun h => by cases h
  obtain ⟨rt, hd', hh', toks, htags, line', hl', d, -, kw, -, nm, -, rfl, rfl⟩ := (rule_ok cs is n m v hv).1 h
  rw [hh] at hh'; cases hh'
  refine ⟨⟨_, rfl⟩, ?_⟩
  rw [if_neg (by decide), itemsLocs_by_keys hok hty [.rule .RuleHeader, .rule .Background, .rule .ScenarioDefinition]
    (by decide) (by decide) (by decide)
    (pairwise3 _ _ _ _ (hok.order (.rule .RuleHeader, .rule .Background) (by decide))
      (hok.order (.rule .RuleHeader, .rule .ScenarioDefinition) (by decide))
      (hok.order (.rule .Background, .rule .ScenarioDefinition) (by decide)))]
  simp only [List.flatMap_cons, List.flatMap_nil, List.append_nil]
  rw [hat, hh, valLocs_raw, hlocs, tagLocsOf_some htags, keyLine_loc hkl (by decide) (by decide) hl',
    locsAt_background is hty (hok.order (.rule .Background, .rule .Background) (by decide)),
    locsAt_scenarios is hty, valLocs, ruleLocs, tagLocs_numberTags, ruleChildren_eq]
  simp only [List.flatMap_append, flatMap_map, ruleChildLocs, List.append_assoc]
  rfl

theorem nodeLocs_feature : NodeLocs .Feature := by
  intro cs is n m v hok hty h
  obtain ⟨⟨hd, hh, hkl, hlocs, line, hl⟩, hat⟩ := header_single_locs hok hty .FeatureHeader (by decide) (by decide)
  have hv : v ≠ .none := by
    simp only [transformNode, hh, hl, bind_getTags_ok, bind_getDescription_ok,
      bind_need_ok, run_pure_ok] at h
    obtain ⟨_, -, _, -, _, -, _, -, rfl, -⟩ := h
    exact fun h => by cases h
  obtain ⟨rt, hd', hh', toks, htags, line', hl', d, -, kw, -, nm, -, rfl, rfl⟩ := (feature_ok cs is n m v hv).1 h
  rw [hh] at hh'; cases hh'
  refine ⟨⟨_, rfl⟩, ?_⟩
  rw [if_neg (by decide), itemsLocs_by_keys hok hty
    [.rule .FeatureHeader, .rule .Background, .rule .ScenarioDefinition, .rule .Rule]
    (by decide) (by decide) (by decide)
    (pairwise4 _ _ _ _ _ (hok.order (.rule .FeatureHeader, .rule .Background) (by decide))
      (hok.order (.rule .FeatureHeader, .rule .ScenarioDefinition) (by decide))
      (hok.order (.rule .FeatureHeader, .rule .Rule) (by decide))
      (hok.order (.rule .Background, .rule .ScenarioDefinition) (by decide))
      (hok.order (.rule .Background, .rule .Rule) (by decide))
      (hok.order (.rule .ScenarioDefinition, .rule .Rule) (by decide)))]
  simp only [List.flatMap_cons, List.flatMap_nil, List.append_nil]
  rw [hat, hh, valLocs_raw, hlocs, tagLocsOf_some htags, keyLine_loc hkl (by decide) (by decide) hl',
    locsAt_background is hty (hok.order (.rule .Background, .rule .Background) (by decide)),
    locsAt_scenarios is hty, locsAt_rules is hty, valLocs, featureLocs, tagLocs_numberTags, featureChildren_eq]
  simp only [List.flatMap_append, flatMap_map, featureChildLocs, List.append_assoc]
  rfl

theorem nodeLocs_document : NodeLocs .GherkinDocument := by
  intro cs is n m v hok hty h
  rw [document_eq] at h
  simp only [res_inj, Except.ok.injEq] at h
  obtain ⟨rfl, rfl⟩ := h
  refine ⟨⟨_, rfl⟩, ?_⟩
  rw [if_neg (by decide), itemsLocs_by_keys hok hty [.rule .Feature] (by decide) (by decide) (by decide) (by simp)]
  simp only [List.flatMap_cons, List.flatMap_nil, List.append_nil]
  rw [valLocs, srcLocs, featureOf]
  rcases mapAt_single valLocs is (.rule .Feature) (hok.order (.rule .Feature, .rule .Feature) (by decide)) with
    ⟨_, a2, a3⟩ | ⟨v, a1, a2, a3⟩
  · rw [locsAt, a3]; simp only [a2]
  · obtain ⟨f, rfl⟩ : LTyped .Feature v := ltyped_of_mem_getItems hty (by rw [a1]; exact List.mem_cons_self)
    rw [locsAt, a3]; simp only [a2]; rw [valLocs]

theorem nodeLocs_all (R : RuleType) : NodeLocs R := by
  cases R
  case None_ => exact nodeLocs_other _ (fun _ _ => rfl) (fun _ => trivial) (by decide)
  case StepArg => exact nodeLocs_other _ (fun _ _ => rfl) (fun _ => trivial) (by decide)
  case DescriptionHelper => exact nodeLocs_other _ (fun _ _ => rfl) (fun _ => trivial) (by decide)
  case GherkinDocument => exact nodeLocs_document
  case Feature => exact nodeLocs_feature
  case FeatureHeader => exact nodeLocs_featureHeader
  case Rule => exact nodeLocs_rule
  case RuleHeader => exact nodeLocs_ruleHeader
  case Background => exact nodeLocs_background
  case ScenarioDefinition => exact nodeLocs_scenario
  case Scenario => exact nodeLocs_scenarioRaw
  case ExamplesDefinition => exact nodeLocs_examples
  case Examples => exact nodeLocs_examplesRaw
  case ExamplesTable => exact nodeLocs_examplesTable
  case Step => exact nodeLocs_step
  case DataTable => exact nodeLocs_dataTable
  case DocString => exact nodeLocs_docString
  case Tags => exact nodeLocs_tags
  case Description => exact nodeLocs_description

/-! ### the induction over the tree -/

def LocsSpec (t : TTree) : Prop :=
  shaped t = true → ∀ (cs : List Comment) (n : Nat) (is : List (Key × Val)) (n' : Nat),
    (itemsOf cs t).run.run n = (.ok is, n') →
    (∀ kv ∈ is, TypedItemL kv) ∧ itemsLocs is = elemLocs t ∧ is.map (·.1) = (keyOf t).toList

def LocsSpecList (ts : List TTree) : Prop :=
  shapedList ts = true → ∀ (cs : List Comment) (n : Nat) (is : List (Key × Val)) (n' : Nat),
    (itemsOfList cs ts).run.run n = (.ok is, n') →
    (∀ kv ∈ is, TypedItemL kv) ∧ itemsLocs is = elemLocsList ts ∧ is.map (·.1) = ts.filterMap keyOf

theorem leafLocs_comment (t : Token) (h : keyOf (.leaf t) = none) : leafLocs t = [] := by
  simp only [keyOf] at h
  cases hm : t.mtype with
  | none => simp only [leafLocs, hm]
  | some k =>
    rw [hm] at h
    cases k <;> first | (simp at h; done) | exact leafLocs_nonElem t _ hm (by decide)

theorem locsSpec_leaf (t : Token) : LocsSpec (.leaf t) := by
  intro _ cs n is n' h
  rw [itemsOf] at h
  obtain ⟨rfl, rfl⟩ := run_leafItems_ok t n n' is h
  rw [elemLocs]
  cases hko : keyOf (.leaf t) with
  | none =>
    refine ⟨fun _ h => ?_, ?_, rfl⟩
    · cases h
    · simp only [Option.toList, List.map_nil]; rw [itemsLocs_nil, leafLocs_comment t hko]
  | some key =>
    simp only [Option.toList, List.map_cons, List.map_nil]
    refine ⟨?_, by rw [itemsLocs_singleton, valLocs], trivial⟩
    intro kv hkv
    simp only [List.mem_singleton] at hkv
    subst hkv
    cases key with
    | tok k =>
      obtain ⟨t', e, hm, -⟩ := (keyOf_tok_iff _ k).1 hko
      cases e; exact ⟨t, rfl, hm⟩
    | rule r => obtain ⟨ch, e⟩ := (keyOf_rule_iff _ r).1 hko; cases e

theorem locsSpec_nil : LocsSpecList [] := by
  intro _ cs n is n' h
  rw [itemsOfList, run_pure_ok] at h
  obtain ⟨rfl, rfl⟩ := h
  refine ⟨fun _ h => ?_, ?_, rfl⟩
  · cases h
  · rw [itemsLocs_nil, elemLocsList]

theorem locsSpec_cons (c : TTree) (ts : List TTree) (hc : LocsSpec c) (hts : LocsSpecList ts) :
    LocsSpecList (c :: ts) := by
  intro hs cs n is n' h
  simp only [shapedList, Bool.and_eq_true] at hs
  rw [run_itemsOfList_cons] at h
  rcases h1 : (itemsOf cs c).run.run n with ⟨e | i, n₁⟩
  · rw [h1] at h; simp [res_inj] at h
  · rw [h1] at h
    simp only at h
    rcases h2 : (itemsOfList cs ts).run.run n₁ with ⟨e | is', n₂⟩
    · rw [h2] at h; simp [res_inj] at h
    · rw [h2] at h
      simp only [res_inj, Except.ok.injEq] at h
      obtain ⟨rfl, rfl⟩ := h
      obtain ⟨a1, a2, a4⟩ := hc hs.1 cs n i n₁ h1
      obtain ⟨b1, b2, b4⟩ := hts hs.2 cs n₁ is' n₂ h2
      refine ⟨?_, ?_, ?_⟩
      · intro kv hkv
        rcases List.mem_append.1 hkv with h | h
        · exact a1 kv h
        · exact b1 kv h
      · rw [itemsLocs_append, a2, b2, elemLocsList]
      · rw [List.map_append, a4, b4, filterMap_keyOf_cons]

theorem locsSpec_node (r : RuleType) (ch : List TTree) (hch : LocsSpecList ch) : LocsSpec (.node r ch) := by
  intro hs cs n is n' h
  simp only [shaped, Bool.and_eq_true] at hs
  rw [run_itemsOf_node] at h
  rcases h1 : (itemsOfList cs ch).run.run n with ⟨e | is₁, n₁⟩
  · rw [h1] at h; simp [res_inj] at h
  · rw [h1] at h
    simp only at h
    rcases h2 : (transformNode cs ⟨r, is₁⟩).run.run n₁ with ⟨e | v, n₂⟩
    · rw [h2] at h; simp [res_inj] at h
    · rw [h2] at h
      simp only [res_inj, Except.ok.injEq] at h
      obtain ⟨rfl, rfl⟩ := h
      obtain ⟨a1, a2, a4⟩ := hch hs.2 cs n is₁ n₁ h1
      obtain ⟨b1, b2⟩ := nodeLocs_all r cs is₁ n₁ n₂ v (itemsOK_of_nodeOK r ch is₁ a4 hs.1) a1 h2
      refine ⟨?_, ?_, rfl⟩
      · intro kv hkv
        simp only [List.mem_singleton] at hkv
        subst hkv
        exact b1
      · rw [itemsLocs_singleton, b2, a2, elemLocs]

mutual
theorem locsSpec_all : ∀ t : TTree, LocsSpec t
  | .leaf t => locsSpec_leaf t
  | .node r ch => locsSpec_node r ch (locsSpecList_all ch)
theorem locsSpecList_all : ∀ ts : List TTree, LocsSpecList ts
  | [] => locsSpec_nil
  | c :: ts => locsSpec_cons c ts (locsSpec_all c) (locsSpecList_all ts)
end

/-- the element locations of the value of a grammar-shaped node tree are those of its
    element-carrying lines, in order -/
theorem valLocs_astOf (r : RuleType) (ch : List TTree) (hs : shaped (.node r ch) = true) (cs : List Comment)
    (n n' : Nat) (v : Val) (h : (astOf cs (.node r ch)).run.run n = (.ok v, n')) :
    valLocs v = elemLocs (.node r ch) := by
  obtain ⟨-, a2, -⟩ := locsSpec_all _ hs cs n _ n' (itemsOf_node_ok cs r ch n n' v h)
  rw [itemsLocs_singleton] at a2
  exact a2

theorem leaves_once_in_order (t : TTree) (hs : shaped t = true) (cs : List Comment) (n n' : Nat) (d : Doc)
    (h : (astOf cs t).run.run n = (.ok (.doc d), n')) : srcLocs d = elemLocs t := by
  cases t with
  | leaf tk => have := astOf_leaf_ok cs tk n n' _ h; cases this
  | node r ch =>
    have := valLocs_astOf r ch hs cs n n' _ h
    rwa [valLocs] at this


theorem lines_once_in_order (t : TTree) (hs : shaped t = true) (cs : List Comment) (n n' : Nat) (d : Doc)
    (h : (astOf cs t).run.run n = (.ok (.doc d), n')) : srcLines d = elemLines t := by
  rw [srcLines, elemLines, leaves_once_in_order t hs cs n n' d h]

end Lemmas
end GV
