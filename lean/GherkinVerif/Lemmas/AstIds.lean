/-
  Lemmas/AstIds.lean — the ids of the AST of a grammar-shaped tree are consecutive from the
  incoming counter in the canonical order (property C11, `C11_ast_ids_canonical`).

  Method: `valIds` extends `Spec.canonicalIds` to all intermediate values of the builder (a raw
  node = the ids of its items in order).  For every rule type, if the items of a node have the
  shape `Spec.nodeShape` prescribes and values of the expected constructors (`ValTyped`), then
  `transformNode`'s result `v` satisfies `valIds v = (ids of the items, in order) ++ (ids drawn
  by this call)` (`node_valIds`); the rest is an induction over the tree.
-/
import GherkinVerif.Lemmas.AstOf
namespace GV
namespace Lemmas
open Spec

/-! ### ids of intermediate values -/

mutual
/-- the ids inside a value of the builder, in canonical order -/
def valIds : Val → List Nat
  | .step s => stepIds s
  | .dataTable d => rowIds d.rows
  | .background b => backgroundIds b
  | .scenario s => scenarioIds s
  | .examples e => examplesIds e
  | .rows rs => rowIds rs
  | .rule r => ruleIds r
  | .feature f => featureIds f
  | .doc d => canonicalIds d
  | .raw _ items => itemsIds items
  | .tok _ => []
  | .none => []
  | .docString _ => []
  | .descr _ => []
/-- the ids inside the items of a node, item by item -/
def itemsIds : List (Key × Val) → List Nat
  | [] => []
  | (_, v) :: rest => valIds v ++ itemsIds rest
end

theorem itemsIds_nil : itemsIds [] = [] := by rw [itemsIds]
theorem itemsIds_cons (kv : Key × Val) (l : List (Key × Val)) :
    itemsIds (kv :: l) = valIds kv.2 ++ itemsIds l := by
  obtain ⟨k, v⟩ := kv; rw [itemsIds]
theorem itemsIds_append (a b : List (Key × Val)) : itemsIds (a ++ b) = itemsIds a ++ itemsIds b := by
  induction a with
  | nil => simp [itemsIds_nil]
  | cons kv a ih => rw [List.cons_append, itemsIds_cons, itemsIds_cons, ih, List.append_assoc]
theorem itemsIds_singleton (k : Key) (v : Val) : itemsIds [(k, v)] = valIds v := by
  rw [itemsIds_cons, itemsIds_nil, List.append_nil]
theorem valIds_raw (rt : RuleType) (is : List (Key × Val)) : valIds (.raw rt is) = itemsIds is := by
  rw [valIds]

/-- the ids of the items under one key -/
def idsAt (k : Key) (is : List (Key × Val)) : List Nat := (getItems is k).flatMap valIds

theorem getItems_cons_same (kv : Key × Val) (l : List (Key × Val)) :
    getItems (kv :: l) kv.1 = kv.2 :: getItems l kv.1 := by
  simp [getItems]
theorem getItems_cons_ne (kv : Key × Val) (l : List (Key × Val)) (k : Key) (h : kv.1 ≠ k) :
    getItems (kv :: l) k = getItems l k := by
  simp [getItems, h]

theorem idsAt_nil (k : Key) : idsAt k [] = [] := rfl
theorem idsAt_cons_same (kv : Key × Val) (l : List (Key × Val)) :
    idsAt kv.1 (kv :: l) = valIds kv.2 ++ idsAt kv.1 l := by
  simp [idsAt, getItems_cons_same]
theorem idsAt_cons_ne (kv : Key × Val) (l : List (Key × Val)) (k : Key) (h : kv.1 ≠ k) :
    idsAt k (kv :: l) = idsAt k l := by
  simp [idsAt, getItems_cons_ne _ _ _ h]

/-! ### `noBefore` -/

/-- `kv`'s key is `k` -/
def keyIs (k : Key) (kv : Key × Val) : Bool := kv.1 == k

theorem keyIs_iff (k : Key) (kv : Key × Val) : keyIs k kv = true ↔ kv.1 = k := by simp [keyIs]

theorem noBefore_cons {α} (A B : α → Bool) (x : α) (l : List α) :
    noBefore A B (x :: l) = true ↔ (B x = true → ∀ y ∈ l, A y = false) ∧ noBefore A B l = true := by
  simp only [noBefore, Bool.and_eq_true]
  constructor
  · rintro ⟨h1, h2⟩
    refine ⟨fun hb y hy => ?_, h2⟩
    rw [hb] at h1; simp only [if_true, List.all_eq_true] at h1
    simpa using h1 y hy
  · rintro ⟨h1, h2⟩
    refine ⟨?_, h2⟩
    split
    · next hb => simp only [List.all_eq_true]; intro y hy; simp [h1 hb y hy]
    · rfl

theorem noBefore_of_no_B {α} (A B : α → Bool) (l : List α) (h : ∀ x ∈ l, B x = false) :
    noBefore A B l = true := by
  induction l with
  | nil => rfl
  | cons x l ih =>
    rw [noBefore_cons]
    refine ⟨fun hb => ?_, ih fun y hy => h y (List.mem_cons_of_mem _ hy)⟩
    rw [h x List.mem_cons_self] at hb; cases hb

theorem noBefore_map {α β} (f : α → β) (A B : β → Bool) (l : List α) :
    noBefore A B (l.map f) = noBefore (fun x => A (f x)) (fun x => B (f x)) l := by
  induction l with
  | nil => rfl
  | cons x l ih => simp only [List.map_cons, noBefore, ih, List.all_map]; rfl

theorem noBefore_filterMap {α β} (g : α → Option β) (A B : β → Bool) (A' B' : α → Bool)
    (hA : ∀ x y, g x = some y → A y = A' x) (hB : ∀ x y, g x = some y → B y = B' x) (l : List α)
    (h : noBefore A' B' l = true) : noBefore A B (l.filterMap g) = true := by
  induction l with
  | nil => rfl
  | cons x l ih =>
    rw [noBefore_cons] at h
    cases hg : g x with
    | none => rw [List.filterMap_cons_none hg]; exact ih h.2
    | some y =>
      rw [List.filterMap_cons_some hg, noBefore_cons]
      refine ⟨fun hb z hz => ?_, ih h.2⟩
      obtain ⟨x', hx', hgx'⟩ := List.mem_filterMap.1 hz
      rw [hA x' z hgx']
      exact h.1 (by rw [← hB x y hg]; exact hb) x' hx'

theorem getItems_eq_nil (l : List (Key × Val)) (k : Key) (h : ∀ kv ∈ l, keyIs k kv = false) :
    getItems l k = [] := by
  induction l with
  | nil => rfl
  | cons kv l ih =>
    have h1 : kv.1 ≠ k := by
      have := h kv List.mem_cons_self
      simpa [keyIs] using this
    rw [getItems_cons_ne _ _ _ h1]
    exact ih fun y hy => h y (List.mem_cons_of_mem _ hy)

theorem idsAt_eq_nil (l : List (Key × Val)) (k : Key) (h : ∀ kv ∈ l, keyIs k kv = false) :
    idsAt k l = [] := by
  rw [idsAt, getItems_eq_nil l k h]; rfl

/-- at most one item of key `k` -/
theorem getItems_le_one (l : List (Key × Val)) (k : Key) (h : noBefore (keyIs k) (keyIs k) l = true) :
    getItems l k = [] ∨ ∃ v, getItems l k = [v] := by
  induction l with
  | nil => exact Or.inl rfl
  | cons kv l ih =>
    rw [noBefore_cons] at h
    by_cases hk : kv.1 = k
    · right
      subst hk
      rw [getItems_cons_same, getItems_eq_nil l _ (h.1 (by simp [keyIs]))]
      exact ⟨_, rfl⟩
    · rw [getItems_cons_ne _ _ _ hk]; exact ih h.2

theorem mem_getItems (l : List (Key × Val)) (k : Key) (v : Val) (h : v ∈ getItems l k) : (k, v) ∈ l := by
  simp only [getItems, List.mem_map, List.mem_filter, beq_iff_eq] at h
  obtain ⟨⟨k', v'⟩, ⟨hm, hk⟩, rfl⟩ := h
  simp only at hk; subst hk; exact hm

theorem getItems_ne_nil_of_mem (l : List (Key × Val)) (kv : Key × Val) (h : kv ∈ l) :
    getItems l kv.1 ≠ [] := by
  intro he
  have : kv.2 ∈ getItems l kv.1 := by
    simp only [getItems, List.mem_map, List.mem_filter, beq_iff_eq]
    exact ⟨kv, ⟨h, rfl⟩, rfl⟩
  rw [he] at this; cases this

/-! ### splitting the ids of an item list by key -/

/-- if only the items of key `k` carry ids, the ids of the list are theirs -/
theorem itemsIds_one_key (k : Key) (is : List (Key × Val))
    (hother : ∀ kv ∈ is, kv.1 ≠ k → valIds kv.2 = []) : itemsIds is = idsAt k is := by
  induction is with
  | nil => rw [itemsIds_nil, idsAt_nil]
  | cons kv l ih =>
    have ih' := ih fun y hy => hother y (List.mem_cons_of_mem _ hy)
    rw [itemsIds_cons, ih']
    by_cases hk : kv.1 = k
    · subst hk; rw [idsAt_cons_same]
    · rw [idsAt_cons_ne _ _ _ hk, hother kv List.mem_cons_self hk, List.nil_append]

/-- if only the items of three keys carry ids, and in the list no `k₂`, `k₃` item stands before a
    `k₁` item and no `k₃` item before a `k₂` item, then the ids of the list are those under `k₁`,
    then those under `k₂`, then those under `k₃` -/
theorem itemsIds_three_keys (k₁ k₂ k₃ : Key) (h12 : k₁ ≠ k₂) (h13 : k₁ ≠ k₃) (h23 : k₂ ≠ k₃)
    (is : List (Key × Val))
    (hother : ∀ kv ∈ is, kv.1 ≠ k₁ → kv.1 ≠ k₂ → kv.1 ≠ k₃ → valIds kv.2 = [])
    (o12 : noBefore (keyIs k₁) (keyIs k₂) is = true)
    (o13 : noBefore (keyIs k₁) (keyIs k₃) is = true)
    (o23 : noBefore (keyIs k₂) (keyIs k₃) is = true) :
    itemsIds is = idsAt k₁ is ++ idsAt k₂ is ++ idsAt k₃ is := by
  induction is with
  | nil => simp [itemsIds_nil, idsAt_nil]
  | cons kv l ih =>
    rw [noBefore_cons] at o12 o13 o23
    have ih' := ih (fun y hy => hother y (List.mem_cons_of_mem _ hy)) o12.2 o13.2 o23.2
    rw [itemsIds_cons, ih']
    by_cases e1 : kv.1 = k₁
    · have e2 : kv.1 ≠ k₂ := fun e => h12 (e1.symm.trans e)
      have e3 : kv.1 ≠ k₃ := fun e => h13 (e1.symm.trans e)
      rw [idsAt_cons_ne _ _ _ e2, idsAt_cons_ne _ _ _ e3, ← e1, idsAt_cons_same]
      simp only [List.append_assoc]
    · by_cases e2 : kv.1 = k₂
      · have e3 : kv.1 ≠ k₃ := fun e => h23 (e2.symm.trans e)
        have hn1 : idsAt k₁ l = [] := idsAt_eq_nil l k₁ (o12.1 ((keyIs_iff _ _).2 e2))
        rw [idsAt_cons_ne _ _ _ e1, idsAt_cons_ne _ _ _ e3, hn1, ← e2, idsAt_cons_same]
        simp only [List.nil_append, List.append_assoc]
      · by_cases e3 : kv.1 = k₃
        · have hn1 : idsAt k₁ l = [] := idsAt_eq_nil l k₁ (o13.1 ((keyIs_iff _ _).2 e3))
          have hn2 : idsAt k₂ l = [] := idsAt_eq_nil l k₂ (o23.1 ((keyIs_iff _ _).2 e3))
          rw [idsAt_cons_ne _ _ _ e1, idsAt_cons_ne _ _ _ e2, hn1, hn2, ← e3, idsAt_cons_same]
          simp only [List.nil_append]
        · rw [idsAt_cons_ne _ _ _ e1, idsAt_cons_ne _ _ _ e2, idsAt_cons_ne _ _ _ e3,
            hother kv List.mem_cons_self e1 e2 e3, List.nil_append]

/-- two keys: the instance of the above with a third key that does not occur -/
theorem itemsIds_two_keys (k₁ k₂ k₃ : Key) (h12 : k₁ ≠ k₂) (h13 : k₁ ≠ k₃) (h23 : k₂ ≠ k₃)
    (is : List (Key × Val)) (hno : ∀ kv ∈ is, kv.1 ≠ k₃)
    (hother : ∀ kv ∈ is, kv.1 ≠ k₁ → kv.1 ≠ k₂ → valIds kv.2 = [])
    (o12 : noBefore (keyIs k₁) (keyIs k₂) is = true) :
    itemsIds is = idsAt k₁ is ++ idsAt k₂ is := by
  have hf : ∀ kv ∈ is, keyIs k₃ kv = false := fun kv hkv => by
    simpa [keyIs] using hno kv hkv
  rw [itemsIds_three_keys k₁ k₂ k₃ h12 h13 h23 is (fun kv hkv a b _ => hother kv hkv a b) o12
    (noBefore_of_no_B _ _ _ hf) (noBefore_of_no_B _ _ _ hf), idsAt_eq_nil is k₃ hf, List.append_nil]

/-! ### typed items -/

/-- the value a node of rule type `r` is transformed into has the constructor belonging to `r`;
    for the rule types that stay raw nodes: what the parent's transformation relies on -/
def ValTyped : RuleType → Val → Prop
  | .Step, v => ∃ s, v = .step s
  | .DataTable, v => ∃ d, v = .dataTable d
  | .DocString, v => ∃ d, v = .docString d
  | .Background, v => ∃ b, v = .background b
  | .ScenarioDefinition, v => ∃ s, v = .scenario s
  | .ExamplesDefinition, v => ∃ e, v = .examples e
  | .ExamplesTable, v => ∃ rs, v = .rows rs
  | .Description, v => ∃ s, v = .descr s
  | .Rule, v => ∃ r, v = .rule r
  | .Feature, v => ∃ f, v = .feature f
  | .GherkinDocument, v => ∃ d, v = .doc d
  | .Tags, v => ∃ is, v = .raw .Tags is ∧ itemsIds is = []
  | .Scenario, v => ∃ sc, v = .raw .Scenario sc ∧
      itemsIds sc = (getSteps sc).flatMap stepIds ++ (getExamples sc).flatMap examplesIds
  | .Examples, v => ∃ ex, v = .raw .Examples ex ∧ itemsIds ex = rowIds (tableOf ex)
  | .RuleHeader, v => ∃ hd, v = .raw .RuleHeader hd ∧ itemsIds hd = [] ∧
      ∃ line, getSingle hd (.tok .RuleLine) = .tok line
  | .FeatureHeader, v => ∃ hd, v = .raw .FeatureHeader hd ∧ itemsIds hd = [] ∧
      ∃ line, getSingle hd (.tok .FeatureLine) = .tok line
  | _, _ => True

/-- an item is typed: a token under a token key, a `ValTyped` value under a rule key -/
def TypedItem (kv : Key × Val) : Prop :=
  match kv.1 with
  | .tok _ => ∃ t, kv.2 = .tok t
  | .rule r => ValTyped r kv.2

/-- the key under which a child with this grammar symbol is stored -/
def symKey : Sym → Key
  | .tok k => .tok k
  | .rule r => .rule r

/-- the shape of `Spec.nodeShape`, read on the items of the node -/
structure ItemsOK (r : RuleType) (is : List (Key × Val)) : Prop where
  allowed : ∀ kv ∈ is, ∀ r', kv.1 = .rule r' → r' ∈ (nodeShape r).allowed
  lines : ∀ kv ∈ is, ∀ k, kv.1 = .tok k → k ∈ elemKinds → k ∈ (nodeShape r).lines
  order : ∀ p ∈ (nodeShape r).order, noBefore (keyIs (symKey p.1)) (keyIs (symKey p.2)) is = true
  needs : ∀ x ∈ (nodeShape r).needs, ∃ kv ∈ is, kv.1 = symKey x

theorem typed_of_mem_getItems {is : List (Key × Val)} (hty : ∀ kv ∈ is, TypedItem kv) {r : RuleType} {v : Val}
    (h : v ∈ getItems is (.rule r)) : ValTyped r v :=
  hty (.rule r, v) (mem_getItems is _ v h)

/-- items under keys that never carry ids -/
theorem valIds_nil_of_typed (kv : Key × Val) (h : TypedItem kv)
    (hk : (∃ k, kv.1 = .tok k) ∨ kv.1 = .rule .Tags ∨ kv.1 = .rule .Description ∨ kv.1 = .rule .DocString ∨
      kv.1 = .rule .RuleHeader ∨ kv.1 = .rule .FeatureHeader) : valIds kv.2 = [] := by
  obtain ⟨k, v⟩ := kv
  simp only at hk
  rcases hk with ⟨k', rfl⟩ | rfl | rfl | rfl | rfl | rfl
  · obtain ⟨t, ht⟩ := h; simp only at ht; subst ht; rw [valIds]
  · obtain ⟨is, ht, h0⟩ := h; simp only at ht; subst ht; rw [valIds_raw, h0]
  · obtain ⟨s, ht⟩ := h; simp only at ht; subst ht; rw [valIds]
  · obtain ⟨s, ht⟩ := h; simp only at ht; subst ht; rw [valIds]
  · obtain ⟨is, ht, h0, _⟩ := h; simp only at ht; subst ht; rw [valIds_raw, h0]
  · obtain ⟨is, ht, h0, _⟩ := h; simp only at ht; subst ht; rw [valIds_raw, h0]

/-- a node whose rule type allows no child nodes: its items carry no ids -/
theorem itemsIds_nil_of_leaves (is : List (Key × Val)) (hty : ∀ kv ∈ is, TypedItem kv)
    (h : ∀ kv ∈ is, ∃ k, kv.1 = .tok k) : itemsIds is = [] := by
  induction is with
  | nil => exact itemsIds_nil
  | cons kv l ih =>
    rw [itemsIds_cons, valIds_nil_of_typed kv (hty kv List.mem_cons_self) (Or.inl (h kv List.mem_cons_self)),
      ih (fun y hy => hty y (List.mem_cons_of_mem _ hy)) (fun y hy => h y (List.mem_cons_of_mem _ hy))]
    rfl

theorem keys_tok_of_allowed_nil {r : RuleType} {is : List (Key × Val)} (hok : ItemsOK r is)
    (h : (nodeShape r).allowed = []) : ∀ kv ∈ is, ∃ k, kv.1 = .tok k := by
  intro kv hkv
  cases hk : kv.1 with
  | tok k => exact ⟨k, rfl⟩
  | rule r' => have := hok.allowed kv hkv r' hk; rw [h] at this; cases this

/-- values under one key that all have constructor `C`: their ids are those of the projected list -/
theorem flatMap_valIds_typed {α} (C : α → Val) (proj : Val → Option α) (f : α → List Nat)
    (hproj : ∀ a, proj (C a) = some a) (hf : ∀ a, valIds (C a) = f a) (vs : List Val)
    (h : ∀ v ∈ vs, ∃ a, v = C a) : vs.flatMap valIds = (vs.filterMap proj).flatMap f := by
  induction vs with
  | nil => rfl
  | cons v vs ih =>
    obtain ⟨a, rfl⟩ := h _ List.mem_cons_self
    rw [List.flatMap_cons, List.filterMap_cons_some (hproj a), List.flatMap_cons, hf,
      ih fun v hv => h v (List.mem_cons_of_mem _ hv)]

theorem idsAt_steps (is : List (Key × Val)) (hty : ∀ kv ∈ is, TypedItem kv) :
    idsAt (.rule .Step) is = (getSteps is).flatMap stepIds :=
  flatMap_valIds_typed Val.step _ stepIds (fun _ => rfl) (fun _ => by rw [valIds]) _
    fun _ hv => typed_of_mem_getItems hty hv

theorem idsAt_scenarios (is : List (Key × Val)) (hty : ∀ kv ∈ is, TypedItem kv) :
    idsAt (.rule .ScenarioDefinition) is = (getScenarios is).flatMap scenarioIds :=
  flatMap_valIds_typed Val.scenario _ scenarioIds (fun _ => rfl) (fun _ => by rw [valIds]) _
    fun _ hv => typed_of_mem_getItems hty hv

theorem idsAt_examples (is : List (Key × Val)) (hty : ∀ kv ∈ is, TypedItem kv) :
    idsAt (.rule .ExamplesDefinition) is = (getExamples is).flatMap examplesIds :=
  flatMap_valIds_typed Val.examples _ examplesIds (fun _ => rfl) (fun _ => by rw [valIds]) _
    fun _ hv => typed_of_mem_getItems hty hv

theorem idsAt_rules (is : List (Key × Val)) (hty : ∀ kv ∈ is, TypedItem kv) :
    idsAt (.rule .Rule) is = (getRules is).flatMap ruleIds :=
  flatMap_valIds_typed Val.rule _ ruleIds (fun _ => rfl) (fun _ => by rw [valIds]) _
    fun _ hv => typed_of_mem_getItems hty hv

/-- the single optional item of a key: `getSingle` sees all of it -/
theorem idsAt_single (is : List (Key × Val)) (k : Key) (h : noBefore (keyIs k) (keyIs k) is = true) :
    (getItems is k = [] ∧ getSingle is k = .none ∧ idsAt k is = []) ∨
    (∃ v, getItems is k = [v] ∧ getSingle is k = v ∧ idsAt k is = valIds v) := by
  rcases getItems_le_one is k h with h0 | ⟨v, hv⟩
  · exact Or.inl ⟨h0, getSingle_of_nil is k h0, by rw [idsAt, h0]; rfl⟩
  · exact Or.inr ⟨v, hv, getSingle_of_cons is k v [] hv, by rw [idsAt, hv]; simp⟩

theorem idsAt_background (is : List (Key × Val)) (hty : ∀ kv ∈ is, TypedItem kv)
    (h : noBefore (keyIs (.rule .Background)) (keyIs (.rule .Background)) is = true) :
    idsAt (.rule .Background) is = (getBackground is).toList.flatMap backgroundIds := by
  rcases idsAt_single is _ h with ⟨_, h2, h3⟩ | ⟨v, h1, h2, h3⟩
  · rw [h3, getBackground, h2]; rfl
  · obtain ⟨b, rfl⟩ : ValTyped .Background v := typed_of_mem_getItems hty (by rw [h1]; exact List.mem_cons_self)
    rw [h3, getBackground, h2, valIds]; simp


/-! ### one node: the ids of the result are the ids of the items, then the ids drawn -/

/-- the rule types whose values carry no ids -/
def noIdRules : List RuleType := [.Tags, .Description, .DocString, .RuleHeader, .FeatureHeader]

theorem valIds_nil_of_noIdRule (kv : Key × Val) (h : TypedItem kv)
    (hk : ∀ r', kv.1 = .rule r' → r' ∈ noIdRules) : valIds kv.2 = [] := by
  apply valIds_nil_of_typed kv h
  cases hk1 : kv.1 with
  | tok k => exact Or.inl ⟨k, rfl⟩
  | rule r' =>
    have := hk r' hk1
    simp only [noIdRules, List.mem_cons, List.not_mem_nil, or_false] at this
    rcases this with rfl | rfl | rfl | rfl | rfl <;> simp

/-- what is to be shown for each rule type -/
def NodeIds (R : RuleType) : Prop :=
  ∀ (cs : List Comment) (is : List (Key × Val)) (n m : Nat) (v : Val),
    ItemsOK R is → (∀ kv ∈ is, TypedItem kv) → (transformNode cs ⟨R, is⟩).run.run n = (.ok v, m) →
    ValTyped R v ∧ valIds v = itemsIds is ++ drawnIds R v ∧ v ≠ .none

theorem nodeIds_step : NodeIds .Step := by
  intro cs is n m v hok hty h
  obtain ⟨line, -, kw, -, kt, -, tx, -, rfl, rfl⟩ := (step_ok cs is n m v).1 h
  refine ⟨⟨_, rfl⟩, ?_, fun h => by cases h⟩
  have hone : itemsIds is = idsAt (.rule .DataTable) is := by
    apply itemsIds_one_key
    intro kv hkv hne
    apply valIds_nil_of_noIdRule kv (hty kv hkv)
    intro r' e
    have := hok.allowed kv hkv r' e
    simp only [nodeShape, List.mem_cons, List.not_mem_nil, or_false] at this
    rcases this with rfl | rfl
    · exact absurd e hne
    · simp [noIdRules]
  rw [valIds, stepIds, drawnIds, hone]
  congr 1
  simp only [stepArgOf]
  rcases idsAt_single is (.rule .DataTable) (hok.order (.rule .DataTable, .rule .DataTable) (by decide)) with
    ⟨_, h2, h3⟩ | ⟨v, h1, h2, h3⟩
  · rw [h3]; simp only [h2]; split <;> rfl
  · obtain ⟨d, rfl⟩ : ValTyped .DataTable v := typed_of_mem_getItems hty (by rw [h1]; exact List.mem_cons_self)
    rw [h3]; simp only [h2]; rw [valIds]; rfl

theorem others_nil {R : RuleType} {is : List (Key × Val)} (hok : ItemsOK R is)
    (hty : ∀ kv ∈ is, TypedItem kv) (keep : List RuleType)
    (hsub : ∀ r' ∈ (nodeShape R).allowed, r' ∈ keep ∨ r' ∈ noIdRules) :
    ∀ kv ∈ is, (∀ r' ∈ keep, kv.1 ≠ .rule r') → valIds kv.2 = [] := by
  intro kv hkv hne
  apply valIds_nil_of_noIdRule kv (hty kv hkv)
  intro r' e
  rcases hsub r' (hok.allowed kv hkv r' e) with h | h
  · exact absurd e (hne r' h)
  · exact h

theorem itemsIds_nil_of_allowed_nil {R : RuleType} {is : List (Key × Val)} (hok : ItemsOK R is)
    (hty : ∀ kv ∈ is, TypedItem kv) (h : (nodeShape R).allowed = []) : itemsIds is = [] :=
  itemsIds_nil_of_leaves is hty (keys_tok_of_allowed_nil hok h)

theorem nodeIds_dataTable : NodeIds .DataTable := by
  intro cs is n m v hok hty h
  obtain ⟨-, t0, rest, -, rfl, rfl⟩ := (dataTable_ok cs is n m v).1 h
  refine ⟨⟨_, rfl⟩, ?_, fun h => by cases h⟩
  rw [valIds, itemsIds_nil_of_allowed_nil hok hty rfl]; rfl

theorem nodeIds_examplesTable : NodeIds .ExamplesTable := by
  intro cs is n m v hok hty h
  obtain ⟨-, rfl, rfl⟩ := (examplesTable_ok cs is n m v).1 h
  refine ⟨⟨_, rfl⟩, ?_, fun h => by cases h⟩
  rw [valIds, itemsIds_nil_of_allowed_nil hok hty rfl]; rfl

theorem nodeIds_description : NodeIds .Description := by
  intro cs is n m v hok hty h
  simp only [transformNode] at h
  rw [run_bind_ok] at h
  obtain ⟨ls, n1, -, h2⟩ := h
  rw [run_pure_ok] at h2
  obtain ⟨rfl, rfl⟩ := h2
  refine ⟨⟨_, rfl⟩, ?_, fun h => by cases h⟩
  rw [valIds, itemsIds_nil_of_allowed_nil hok hty rfl]; rfl

theorem nodeIds_docString : NodeIds .DocString := by
  intro cs is n m v hok hty h
  simp only [transformNode] at h
  split at h
  · rw [run_crash_ok] at h; cases h
  · simp only [run_bind_ok, run_pure_ok] at h
    obtain ⟨_, _, -, _, _, -, _, _, -, rfl, -⟩ := h
    refine ⟨⟨_, rfl⟩, ?_, fun h => by cases h⟩
    rw [valIds, itemsIds_nil_of_allowed_nil hok hty rfl]; rfl

theorem raw_ok (cs : List Comment) (R : RuleType) (is : List (Key × Val)) (n m : Nat) (v : Val)
    (hR : transformNode cs ⟨R, is⟩ = pure (.raw R is))
    (h : (transformNode cs ⟨R, is⟩).run.run n = (.ok v, m)) : v = .raw R is ∧ m = n := by
  rw [hR, run_pure_ok] at h; exact h

theorem nodeIds_tags : NodeIds .Tags := by
  intro cs is n m v hok hty h
  obtain ⟨rfl, rfl⟩ := raw_ok cs _ is n m v rfl h
  have h0 := itemsIds_nil_of_allowed_nil hok hty rfl
  refine ⟨⟨_, rfl, h0⟩, ?_, fun h => by cases h⟩
  rw [valIds_raw]; simp [drawnIds]

theorem nodeIds_scenarioRaw : NodeIds .Scenario := by
  intro cs is n m v hok hty h
  obtain ⟨rfl, rfl⟩ := raw_ok cs _ is n m v rfl h
  refine ⟨⟨_, rfl, ?_⟩, by rw [valIds_raw]; simp [drawnIds], fun h => by cases h⟩
  rw [← idsAt_steps is hty, ← idsAt_examples is hty]
  apply itemsIds_two_keys _ _ (.rule .None_) (by decide) (by decide) (by decide)
  · intro kv hkv e
    have := hok.allowed kv hkv _ e
    revert this; decide
  · intro kv hkv h1 h2
    apply others_nil hok hty [.Step, .ExamplesDefinition] (by decide) kv hkv
    intro r' hr'
    simp only [List.mem_cons, List.not_mem_nil, or_false] at hr'
    rcases hr' with rfl | rfl <;> assumption
  · exact hok.order (.rule .Step, .rule .ExamplesDefinition) (by decide)

theorem rowIds_head_drop (rs : List Row) : rowIds rs.head?.toList ++ rowIds (rs.drop 1) = rowIds rs := by
  cases rs <;> simp [rowIds]

theorem nodeIds_examplesRaw : NodeIds .Examples := by
  intro cs is n m v hok hty h
  obtain ⟨rfl, rfl⟩ := raw_ok cs _ is n m v rfl h
  refine ⟨⟨_, rfl, ?_⟩, by rw [valIds_raw]; simp [drawnIds], fun h => by cases h⟩
  rw [itemsIds_one_key (.rule .ExamplesTable) is (fun kv hkv hne =>
    others_nil hok hty [.ExamplesTable] (by decide) kv hkv (fun r' hr' => by
      simp only [List.mem_cons, List.not_mem_nil, or_false] at hr'; subst hr'; exact hne))]
  simp only [tableOf]
  rcases idsAt_single is (.rule .ExamplesTable) (hok.order (.rule .ExamplesTable, .rule .ExamplesTable) (by decide)) with
    ⟨_, h2, h3⟩ | ⟨v, h1, h2, h3⟩
  · rw [h3]; simp only [h2]; rfl
  · obtain ⟨d, rfl⟩ : ValTyped .ExamplesTable v := typed_of_mem_getItems hty (by rw [h1]; exact List.mem_cons_self)
    rw [h3]; simp only [h2]; rw [valIds]

/-- a header node: no ids in it, and its keyword line is there -/
theorem header_facts {R : RuleType} {is : List (Key × Val)} (hok : ItemsOK R is)
    (hty : ∀ kv ∈ is, TypedItem kv) (k : Kind)
    (hal : ∀ r' ∈ (nodeShape R).allowed, r' ∈ noIdRules) (hk : Sym.tok k ∈ (nodeShape R).needs) :
    itemsIds is = [] ∧ ∃ line, getSingle is (.tok k) = .tok line := by
  constructor
  · rw [itemsIds_one_key (.rule .None_) is (fun kv hkv _ =>
      others_nil hok hty [] (fun r' hr' => Or.inr (hal r' hr')) kv hkv (fun _ h => by cases h))]
    apply idsAt_eq_nil
    intro kv hkv
    cases hk1 : kv.1 with
    | tok k => simp [keyIs, hk1]
    | rule r' =>
      have := hal r' (hok.allowed kv hkv r' hk1)
      simp only [keyIs, hk1, beq_eq_false_iff_ne, ne_eq, Key.rule.injEq]
      rintro rfl; revert this; decide
  · obtain ⟨kv, hkv, e⟩ := hok.needs (.tok k) hk
    simp only [symKey] at e
    have hne := getItems_ne_nil_of_mem is kv hkv
    rw [e] at hne
    cases hg : getItems is (.tok k) with
    | nil => exact absurd hg hne
    | cons v vs =>
      have hv : v ∈ getItems is (.tok k) := by rw [hg]; exact List.mem_cons_self
      obtain ⟨line, hl⟩ := hty _ (mem_getItems is _ v hv)
      simp only at hl; subst hl
      exact ⟨line, getSingle_of_cons is _ _ vs hg⟩

theorem nodeIds_ruleHeader : NodeIds .RuleHeader := by
  intro cs is n m v hok hty h
  obtain ⟨rfl, rfl⟩ := raw_ok cs _ is n m v rfl h
  obtain ⟨h0, hl⟩ := header_facts hok hty .RuleLine (by decide) (by decide)
  exact ⟨⟨_, rfl, h0, hl⟩, by rw [valIds_raw]; simp [drawnIds], fun h => by cases h⟩

theorem nodeIds_featureHeader : NodeIds .FeatureHeader := by
  intro cs is n m v hok hty h
  obtain ⟨rfl, rfl⟩ := raw_ok cs _ is n m v rfl h
  obtain ⟨h0, hl⟩ := header_facts hok hty .FeatureLine (by decide) (by decide)
  exact ⟨⟨_, rfl, h0, hl⟩, by rw [valIds_raw]; simp [drawnIds], fun h => by cases h⟩

theorem nodeIds_background : NodeIds .Background := by
  intro cs is n m v hok hty h
  obtain ⟨line, -, d, -, kw, -, nm, -, rfl, rfl⟩ := (background_ok cs is n m v).1 h
  refine ⟨⟨_, rfl⟩, ?_, fun h => by cases h⟩
  rw [valIds, backgroundIds, drawnIds, ← idsAt_steps is hty,
    itemsIds_one_key (.rule .Step) is (fun kv hkv hne =>
      others_nil hok hty [.Step] (by decide) kv hkv (fun r' hr' => by
        simp only [List.mem_cons, List.not_mem_nil, or_false] at hr'; subst hr'; exact hne))]

/-- the one required raw child of a definition node: `getSingle` returns it, it is the only item
    with ids, and it is typed -/
theorem itemsIds_via_single {R : RuleType} {is : List (Key × Val)} (hok : ItemsOK R is)
    (hty : ∀ kv ∈ is, TypedItem kv) (x : RuleType)
    (hsub : ∀ r' ∈ (nodeShape R).allowed, r' ∈ [x] ∨ r' ∈ noIdRules)
    (hord : (Sym.rule x, Sym.rule x) ∈ (nodeShape R).order) :
    (getSingle is (.rule x) = .none ∧ itemsIds is = []) ∨
    (itemsIds is = valIds (getSingle is (.rule x)) ∧ ValTyped x (getSingle is (.rule x))) := by
  rw [itemsIds_one_key (.rule x) is (fun kv hkv hne =>
    others_nil hok hty [x] hsub kv hkv (fun r' hr' => by
      simp only [List.mem_cons, List.not_mem_nil, or_false] at hr'; subst hr'; exact hne))]
  rcases idsAt_single is (.rule x) (hok.order (.rule x, .rule x) hord) with ⟨_, h2, h3⟩ | ⟨v, h1, h2, h3⟩
  · exact Or.inl ⟨h2, h3⟩
  · right
    rw [h2, h3]
    exact ⟨rfl, typed_of_mem_getItems hty (by rw [h1]; exact List.mem_cons_self)⟩

theorem nodeIds_scenario : NodeIds .ScenarioDefinition := by
  intro cs is n m v hok hty h
  obtain ⟨toks, -, rt, sc, hs, line, -, d, -, kw, -, nm, -, rfl, rfl⟩ := (scenario_ok cs is n m v).1 h
  refine ⟨⟨_, rfl⟩, ?_, fun h => by cases h⟩
  rcases itemsIds_via_single hok hty .Scenario (by decide) (by decide) with ⟨h1, -⟩ | ⟨h1, h2⟩
  · rw [hs] at h1; cases h1
  · rw [hs] at h1 h2
    obtain ⟨sc', e, hsc⟩ := h2
    cases e
    rw [h1, valIds_raw, hsc, valIds, scenarioIds, drawnIds]
    simp only [List.append_assoc]

theorem nodeIds_examples : NodeIds .ExamplesDefinition := by
  intro cs is n m v hok hty h
  obtain ⟨toks, -, rt, ex, hs, line, -, d, -, kw, -, nm, -, rfl, rfl⟩ := (examples_ok cs is n m v).1 h
  refine ⟨⟨_, rfl⟩, ?_, fun h => by cases h⟩
  rcases itemsIds_via_single hok hty .Examples (by decide) (by decide) with ⟨h1, -⟩ | ⟨h1, h2⟩
  · rw [hs] at h1; cases h1
  · rw [hs] at h1 h2
    obtain ⟨ex', e, hex⟩ := h2
    cases e
    rw [h1, valIds_raw, hex, valIds, examplesIds, drawnIds]
    simp only [rowIds_head_drop, List.append_assoc]

/-- the required header of a rule / feature -/
theorem header_single {R : RuleType} {is : List (Key × Val)} (hok : ItemsOK R is)
    (hty : ∀ kv ∈ is, TypedItem kv) (x : RuleType) (hx : Sym.rule x ∈ (nodeShape R).needs) :
    ValTyped x (getSingle is (.rule x)) := by
  obtain ⟨kv, hkv, e⟩ := hok.needs (.rule x) hx
  simp only [symKey] at e
  have hne := getItems_ne_nil_of_mem is kv hkv
  rw [e] at hne
  cases hg : getItems is (.rule x) with
  | nil => exact absurd hg hne
  | cons v vs =>
    rw [getSingle_of_cons is _ _ vs hg]
    exact typed_of_mem_getItems hty (by rw [hg]; exact List.mem_cons_self)

theorem flatMap_map {α β γ} (f : α → β) (g : β → List γ) (l : List α) :
    (l.map f).flatMap g = l.flatMap (fun a => g (f a)) := by
  induction l with
  | nil => rfl
  | cons a l ih => simp only [List.map_cons, List.flatMap_cons, ih]

theorem nodeIds_rule : NodeIds .Rule := by
  intro cs is n m v hok hty h
  obtain ⟨hd, hh, h0, line, hl⟩ := header_single hok hty .RuleHeader (by decide)
  have hv : v ≠ .none := by
    simp only [transformNode, hh, hl, bind_getTags_ok, bind_getDescription_ok, bind_nextId_ok,
      bind_need_ok, run_pure_ok] at h
    obtain ⟨_, -, _, -, _, -, _, -, rfl, -⟩ := h
    exact fun h => by cases h
  obtain ⟨rt, hd', -, toks, -, line', -, d, -, kw, -, nm, -, rfl, rfl⟩ := (rule_ok cs is n m v hv).1 h
  refine ⟨⟨_, rfl⟩, ?_, hv⟩
  have hids : itemsIds is = idsAt (.rule .Background) is ++ idsAt (.rule .ScenarioDefinition) is := by
    apply itemsIds_two_keys _ _ (.rule .None_) (by decide) (by decide) (by decide)
    · intro kv hkv e
      have := hok.allowed kv hkv _ e
      revert this; decide
    · intro kv hkv h1 h2
      apply others_nil hok hty [.Background, .ScenarioDefinition] (by decide) kv hkv
      intro r' hr'
      simp only [List.mem_cons, List.not_mem_nil, or_false] at hr'
      rcases hr' with rfl | rfl <;> assumption
    · exact hok.order (.rule .Background, .rule .ScenarioDefinition) (by decide)
  rw [hids, idsAt_background is hty (hok.order (.rule .Background, .rule .Background) (by decide)),
    idsAt_scenarios is hty, valIds, ruleIds, drawnIds, ruleChildren_eq]
  simp only [List.flatMap_append, flatMap_map, ruleChildIds, List.append_assoc]

theorem nodeIds_feature : NodeIds .Feature := by
  intro cs is n m v hok hty h
  obtain ⟨hd, hh, h0, line, hl⟩ := header_single hok hty .FeatureHeader (by decide)
  have hv : v ≠ .none := by
    simp only [transformNode, hh, hl, bind_getTags_ok, bind_getDescription_ok,
      bind_need_ok, run_pure_ok] at h
    obtain ⟨_, -, _, -, _, -, _, -, rfl, -⟩ := h
    exact fun h => by cases h
  obtain ⟨rt, hd', -, toks, -, line', -, d, -, kw, -, nm, -, rfl, rfl⟩ := (feature_ok cs is n m v hv).1 h
  refine ⟨⟨_, rfl⟩, ?_, hv⟩
  have hids : itemsIds is = idsAt (.rule .Background) is ++ idsAt (.rule .ScenarioDefinition) is ++
      idsAt (.rule .Rule) is := by
    apply itemsIds_three_keys _ _ _ (by decide) (by decide) (by decide)
    · intro kv hkv h1 h2 h3
      apply others_nil hok hty [.Background, .ScenarioDefinition, .Rule] (by decide) kv hkv
      intro r' hr'
      simp only [List.mem_cons, List.not_mem_nil, or_false] at hr'
      rcases hr' with rfl | rfl | rfl <;> assumption
    · exact hok.order (.rule .Background, .rule .ScenarioDefinition) (by decide)
    · exact hok.order (.rule .Background, .rule .Rule) (by decide)
    · exact hok.order (.rule .ScenarioDefinition, .rule .Rule) (by decide)
  rw [hids, idsAt_background is hty (hok.order (.rule .Background, .rule .Background) (by decide)),
    idsAt_scenarios is hty, idsAt_rules is hty, valIds, featureIds, drawnIds, featureChildren_eq]
  simp only [List.flatMap_append, flatMap_map, featureChildIds, List.append_assoc]

theorem nodeIds_document : NodeIds .GherkinDocument := by
  intro cs is n m v hok hty h
  rw [document_eq] at h
  simp only [res_inj, Except.ok.injEq] at h
  obtain ⟨rfl, rfl⟩ := h
  refine ⟨⟨_, rfl⟩, ?_, fun h => by cases h⟩
  rw [valIds, canonicalIds, featureOf]
  rcases itemsIds_via_single hok hty .Feature (by decide) (by decide) with ⟨h1, h2⟩ | ⟨h1, h2⟩
  · rw [h2]; simp only [h1]; rfl
  · obtain ⟨f, hf⟩ := h2
    rw [h1]; simp only [hf]; rw [valIds]; simp [drawnIds]

theorem nodeIds_other (R : RuleType) (hR : ∀ cs is, transformNode cs ⟨R, is⟩ = pure (.raw R is))
    (hT : ∀ v, ValTyped R v) (hD : ∀ v, drawnIds R v = []) : NodeIds R := by
  intro cs is n m v hok hty h
  obtain ⟨rfl, rfl⟩ := raw_ok cs _ is n m v (hR cs is) h
  exact ⟨hT _, by rw [valIds_raw, hD]; simp, fun h => by cases h⟩

theorem nodeIds_all (R : RuleType) : NodeIds R := by
  cases R
  case None_ => exact nodeIds_other _ (fun _ _ => rfl) (fun _ => trivial) (fun _ => rfl)
  case StepArg => exact nodeIds_other _ (fun _ _ => rfl) (fun _ => trivial) (fun _ => rfl)
  case DescriptionHelper => exact nodeIds_other _ (fun _ _ => rfl) (fun _ => trivial) (fun _ => rfl)
  case GherkinDocument => exact nodeIds_document
  case Feature => exact nodeIds_feature
  case FeatureHeader => exact nodeIds_featureHeader
  case Rule => exact nodeIds_rule
  case RuleHeader => exact nodeIds_ruleHeader
  case Background => exact nodeIds_background
  case ScenarioDefinition => exact nodeIds_scenario
  case Scenario => exact nodeIds_scenarioRaw
  case ExamplesDefinition => exact nodeIds_examples
  case Examples => exact nodeIds_examplesRaw
  case ExamplesTable => exact nodeIds_examplesTable
  case Step => exact nodeIds_step
  case DataTable => exact nodeIds_dataTable
  case DocString => exact nodeIds_docString
  case Tags => exact nodeIds_tags
  case Description => exact nodeIds_description

theorem range'_append_le (n n₁ n₂ : Nat) (h1 : n ≤ n₁) (h2 : n₁ ≤ n₂) :
    List.range' n (n₁ - n) ++ List.range' n₁ (n₂ - n₁) = List.range' n (n₂ - n) := by
  have : n₁ = n + 1 * (n₁ - n) := by omega
  conv => lhs; arg 2; rw [this]
  rw [List.range'_append]
  congr 1; omega

/-- one node: the value is typed, its ids are those of the items followed by `n, …, m-1` -/
theorem node_valIds (R : RuleType) (cs : List Comment) (is : List (Key × Val)) (n m : Nat) (v : Val)
    (hok : ItemsOK R is) (hty : ∀ kv ∈ is, TypedItem kv)
    (h : (transformNode cs ⟨R, is⟩).run.run n = (.ok v, m)) :
    ValTyped R v ∧ valIds v = itemsIds is ++ List.range' n (m - n) ∧ n ≤ m := by
  obtain ⟨h1, h2, h3⟩ := nodeIds_all R cs is n m v hok hty h
  obtain ⟨h4, h5⟩ := node_ids cs ⟨R, is⟩ n m v h3 h
  exact ⟨h1, by rw [h2, h4], h5⟩


/-! ### from the children of a node to its items -/

/-- the key under which a tree is stored in its parent (a comment line is not stored) -/
def keyOf : TTree → Option Key
  | .leaf t =>
    match t.mtype with
    | some .Comment => none
    | some k => some (.tok k)
    | none => none
  | .node r _ => some (.rule r)

theorem keyOf_leaf_token (t : Token) (k : Kind) (hk : t.mtype = some k) (hc : k ≠ .Comment) :
    keyOf (.leaf t) = some (.tok k) := by
  cases k <;> first | exact absurd rfl hc | simp only [keyOf, hk]

theorem run_leafItems_ok (t : Token) (n n' : Nat) (is : List (Key × Val))
    (h : (leafItems t).run.run n = (.ok is, n')) :
    n' = n ∧ is = (keyOf (.leaf t)).toList.map fun k => (k, Val.tok t) := by
  cases hm : t.mtype with
  | none => unfold leafItems at h; rw [hm] at h; simp only [run_crash_ok] at h
  | some k =>
    by_cases hc : k = .Comment
    · subst hc
      unfold leafItems at h; rw [hm] at h; simp only at h
      cases ht : t.text with
      | none => rw [ht] at h; simp only [run_crash_ok] at h
      | some tx =>
        rw [ht] at h; simp only [run_pure_ok] at h
        obtain ⟨rfl, rfl⟩ := h
        refine ⟨rfl, ?_⟩
        simp only [keyOf, hm]; rfl
    · rw [run_leafItems_token t k n hm hc] at h
      simp only [res_inj, Except.ok.injEq] at h
      obtain ⟨rfl, rfl⟩ := h
      rw [keyOf_leaf_token t k hm hc]
      exact ⟨rfl, rfl⟩

theorem filterMap_keyOf_cons (c : TTree) (ts : List TTree) :
    (c :: ts).filterMap keyOf = (keyOf c).toList ++ ts.filterMap keyOf := by
  cases h : keyOf c with
  | none => rw [List.filterMap_cons_none h]; rfl
  | some k => rw [List.filterMap_cons_some h]; rfl

theorem keyOf_rule_iff (c : TTree) (r : RuleType) : keyOf c = some (.rule r) ↔ ∃ ch, c = .node r ch := by
  cases c with
  | leaf t =>
    simp only [keyOf, reduceCtorEq, exists_false, iff_false]
    split <;> simp
  | node r' ch => simp [keyOf]

theorem keyOf_tok_iff (c : TTree) (k : Kind) :
    keyOf c = some (.tok k) ↔ ∃ t, c = .leaf t ∧ t.mtype = some k ∧ k ≠ .Comment := by
  cases c with
  | node r ch => simp [keyOf]
  | leaf t =>
    simp only [keyOf, TTree.leaf.injEq, exists_eq_left']
    cases hm : t.mtype with
    | none => simp
    | some k' => cases k' <;> simp <;> (try (intro h; subst h; simp))

theorem keyIs_sym_of_keyOf (c : TTree) (key : Key) (a : Sym) (h : keyOf c = some key) :
    (key == symKey a) = c.isSym a := by
  rw [Bool.eq_iff_iff, beq_iff_eq]
  cases key with
  | rule r =>
    obtain ⟨ch, rfl⟩ := (keyOf_rule_iff c r).1 h
    cases a with
    | tok k => simp [symKey, TTree.isSym]
    | rule r' => simp only [symKey, TTree.isSym, Key.rule.injEq, beq_iff_eq]
  | tok k =>
    obtain ⟨t, rfl, hm, -⟩ := (keyOf_tok_iff c k).1 h
    cases a with
    | rule r' => simp [symKey, TTree.isSym]
    | tok k' => simp only [symKey, TTree.isSym, Key.tok.injEq, beq_iff_eq, hm, Option.some.injEq]

theorem comment_not_needed (r : RuleType) : Sym.tok .Comment ∉ (nodeShape r).needs := by
  cases r <;> decide

theorem itemsOK_of_nodeOK (r : RuleType) (ch : List TTree) (is : List (Key × Val))
    (hkeys : is.map (·.1) = ch.filterMap keyOf) (h : nodeOK r ch = true) : ItemsOK r is := by
  simp only [nodeOK, Bool.and_eq_true, List.all_eq_true] at h
  obtain ⟨⟨hal, hord⟩, hnn⟩ := h
  have hmem : ∀ k, (∃ kv ∈ is, kv.1 = k) ↔ ∃ c ∈ ch, keyOf c = some k := by
    intro k
    have : k ∈ is.map (·.1) ↔ k ∈ ch.filterMap keyOf := by rw [hkeys]
    simpa [List.mem_map, List.mem_filterMap] using this
  constructor
  · intro kv hkv r' e
    obtain ⟨c, hc, hk⟩ := (hmem (.rule r')).1 ⟨kv, hkv, e⟩
    obtain ⟨ch', rfl⟩ := (keyOf_rule_iff c r').1 hk
    have := hal _ hc
    simpa using this
  · intro kv hkv k e hel
    obtain ⟨c, hc, hk⟩ := (hmem (.tok k)).1 ⟨kv, hkv, e⟩
    obtain ⟨t, rfl, hm, -⟩ := (keyOf_tok_iff c k).1 hk
    have := hal _ hc
    simp only [hm, Bool.or_eq_true, Bool.not_eq_true', List.contains_iff_mem] at this
    rcases this with h1 | h1
    · rw [← List.contains_iff_mem, h1] at hel; cases hel
    · exact h1
  · intro p hp
    have h1 := hord p hp
    have h2 := noBefore_filterMap keyOf (fun key => key == symKey p.1) (fun key => key == symKey p.2)
      (TTree.isSym p.1) (TTree.isSym p.2) (fun c key hk => keyIs_sym_of_keyOf c key p.1 hk)
      (fun c key hk => keyIs_sym_of_keyOf c key p.2 hk) ch h1
    rw [← hkeys, noBefore_map] at h2
    exact h2
  · intro x hx
    have := hnn x hx
    simp only [List.any_eq_true] at this
    obtain ⟨c, hc, hcx⟩ := this
    apply (hmem _).2
    refine ⟨c, hc, ?_⟩
    cases x with
    | rule x =>
      cases c with
      | leaf t => simp [TTree.isSym] at hcx
      | node r' ch' => simp only [TTree.isSym, beq_iff_eq] at hcx; subst hcx; rfl
    | tok k =>
      cases c with
      | leaf t =>
        simp only [TTree.isSym, beq_iff_eq] at hcx
        exact keyOf_leaf_token t k hcx (fun e => comment_not_needed r (e ▸ hx))
      | node r' ch' => simp [TTree.isSym] at hcx

/-! ### the induction over the tree -/

/-- for one tree: the items it contributes are typed, their ids are `n, …, n'-1` in order, and
    their keys are the tree's key -/
def IdsSpec (t : TTree) : Prop :=
  shaped t = true → ∀ (cs : List Comment) (n : Nat) (is : List (Key × Val)) (n' : Nat),
    (itemsOf cs t).run.run n = (.ok is, n') →
    (∀ kv ∈ is, TypedItem kv) ∧ itemsIds is = List.range' n (n' - n) ∧ n ≤ n' ∧
      is.map (·.1) = (keyOf t).toList

def IdsSpecList (ts : List TTree) : Prop :=
  shapedList ts = true → ∀ (cs : List Comment) (n : Nat) (is : List (Key × Val)) (n' : Nat),
    (itemsOfList cs ts).run.run n = (.ok is, n') →
    (∀ kv ∈ is, TypedItem kv) ∧ itemsIds is = List.range' n (n' - n) ∧ n ≤ n' ∧
      is.map (·.1) = ts.filterMap keyOf

theorem idsSpec_leaf (t : Token) : IdsSpec (.leaf t) := by
  intro _ cs n is n' h
  rw [itemsOf] at h
  obtain ⟨rfl, rfl⟩ := run_leafItems_ok t n n' is h
  refine ⟨?_, ?_, Nat.le_refl _, ?_⟩
  · intro kv hkv
    simp only [List.mem_map] at hkv
    obtain ⟨k, hk, rfl⟩ := hkv
    cases hko : keyOf (.leaf t) with
    | none => rw [hko] at hk; cases hk
    | some k' =>
      rw [hko] at hk; simp only [Option.toList, List.mem_singleton] at hk; subst hk
      cases k with
      | tok k => exact ⟨t, rfl⟩
      | rule r =>
        simp only [keyOf] at hko
        split at hko <;> simp at hko
  · rw [Nat.sub_self, List.range'_zero]
    cases keyOf (.leaf t) with
    | none => exact itemsIds_nil
    | some k => simp only [Option.toList, List.map_cons, List.map_nil]; rw [itemsIds_singleton, valIds]
  · simp [List.map_map, Function.comp_def]

theorem idsSpec_nil : IdsSpecList [] := by
  intro _ cs n is n' h
  rw [itemsOfList, run_pure_ok] at h
  obtain ⟨rfl, rfl⟩ := h
  refine ⟨fun _ h => ?_, ?_, Nat.le_refl _, rfl⟩
  · cases h
  · rw [Nat.sub_self, List.range'_zero, itemsIds_nil]

theorem idsSpec_cons (c : TTree) (ts : List TTree) (hc : IdsSpec c) (hts : IdsSpecList ts) :
    IdsSpecList (c :: ts) := by
  intro hs cs n is n' h
  simp only [shapedList, Bool.and_eq_true] at hs
  rw [run_itemsOfList_cons] at h
  rcases h1 : (itemsOf cs c).run.run n with ⟨e | i, n₁⟩
  · rw [h1] at h; simp [res_inj] at h
  · rw [h1] at h
    simp only at h
    rcases h2 : (itemsOfList cs ts).run.run n₁ with ⟨e | is', n₂⟩
    · rw [h2] at h; simp [res_inj] at h
    · rw [h2] at h
      simp only [res_inj, Except.ok.injEq] at h
      obtain ⟨rfl, rfl⟩ := h
      obtain ⟨a1, a2, a3, a4⟩ := hc hs.1 cs n i n₁ h1
      obtain ⟨b1, b2, b3, b4⟩ := hts hs.2 cs n₁ is' n₂ h2
      refine ⟨?_, ?_, Nat.le_trans a3 b3, ?_⟩
      · intro kv hkv
        rcases List.mem_append.1 hkv with h | h
        · exact a1 kv h
        · exact b1 kv h
      · rw [itemsIds_append, a2, b2, range'_append_le n n₁ n₂ a3 b3]
      · rw [List.map_append, a4, b4, filterMap_keyOf_cons]

theorem idsSpec_node (r : RuleType) (ch : List TTree) (hch : IdsSpecList ch) : IdsSpec (.node r ch) := by
  intro hs cs n is n' h
  simp only [shaped, Bool.and_eq_true] at hs
  rw [run_itemsOf_node] at h
  rcases h1 : (itemsOfList cs ch).run.run n with ⟨e | is₁, n₁⟩
  · rw [h1] at h; simp [res_inj] at h
  · rw [h1] at h
    simp only at h
    rcases h2 : (transformNode cs ⟨r, is₁⟩).run.run n₁ with ⟨e | v, n₂⟩
    · rw [h2] at h; simp [res_inj] at h
    · rw [h2] at h
      simp only [res_inj, Except.ok.injEq] at h
      obtain ⟨rfl, rfl⟩ := h
      obtain ⟨a1, a2, a3, a4⟩ := hch hs.2 cs n is₁ n₁ h1
      obtain ⟨b1, b2, b3⟩ := node_valIds r cs is₁ n₁ n₂ v (itemsOK_of_nodeOK r ch is₁ a4 hs.1) a1 h2
      refine ⟨?_, ?_, Nat.le_trans a3 b3, rfl⟩
      · intro kv hkv
        simp only [List.mem_singleton] at hkv
        subst hkv
        exact b1
      · rw [itemsIds_singleton, b2, a2, range'_append_le n n₁ n₂ a3 b3]

mutual
theorem idsSpec_all : ∀ t : TTree, IdsSpec t
  | .leaf t => idsSpec_leaf t
  | .node r ch => idsSpec_node r ch (idsSpecList_all ch)
theorem idsSpecList_all : ∀ ts : List TTree, IdsSpecList ts
  | [] => idsSpec_nil
  | c :: ts => idsSpec_cons c ts (idsSpec_all c) (idsSpecList_all ts)
end

/-- the ids of a value computed from a grammar-shaped tree are consecutive from the incoming
    counter, in canonical order -/
theorem valIds_astOf (t : TTree) (hs : shaped t = true) (cs : List Comment) (n n' : Nat) (v : Val)
    (hnode : ∃ r ch, t = .node r ch)
    (h : (astOf cs t).run.run n = (.ok v, n')) : valIds v = List.range' n (n' - n) ∧ n ≤ n' := by
  obtain ⟨r, ch, rfl⟩ := hnode
  obtain ⟨-, a2, a3, -⟩ := idsSpec_all _ hs cs n _ n' (itemsOf_node_ok cs r ch n n' v h)
  rw [itemsIds_singleton] at a2
  exact ⟨a2, a3⟩

theorem astOf_leaf_ok (cs : List Comment) (t : Token) (n n' : Nat) (v : Val)
    (h : (astOf cs (.leaf t)).run.run n = (.ok v, n')) : v = .tok t := by
  rw [astOf, run_bind_ok] at h
  obtain ⟨_, _, -, h2⟩ := h
  rw [run_pure_ok] at h2
  exact h2.1

theorem ast_ids_canonical (t : TTree) (hs : shaped t = true) (cs : List Comment) (n n' : Nat) (d : Doc)
    (h : (astOf cs t).run.run n = (.ok (.doc d), n')) :
    canonicalIds d = List.range' n (n' - n) ∧ n ≤ n' := by
  cases t with
  | leaf tk => have := astOf_leaf_ok cs tk n n' _ h; cases this
  | node r ch =>
    have := valIds_astOf _ hs cs n n' _ ⟨r, ch, rfl⟩ h
    rwa [valIds] at this


end Lemmas
end GV
