/-
  Lemmas/TextKinds.lean — every physical line has exactly one intrinsic kind (C02_kind_unique):
  under the dialect facts, the tests a line passes are exactly the fallback chain of its intrinsic
  kind (`passes (intrinsicKind …)`): its own kind, `Comment` too for a valid language header,
  `Other` always.
-/
import GherkinVerif.Spec.TextLevel
import GherkinVerif.Spec.TextFacts
import GherkinVerif.Lemmas.Keywords
namespace GV
namespace Lemmas
open Spec

/-! ### the verdict of each test, unfolded -/

theorem verdict_EOF (D : List Dialect) (μ : MState) (l : Str) : verdict D μ l .EOF = false := rfl
theorem verdict_Other (D : List Dialect) (μ : MState) (l : Str) : verdict D μ l .Other = true := rfl

theorem verdict_Empty (D : List Dialect) (μ : MState) (l : Str) : verdict D μ l .Empty = lineIsEmpty l := by
  cases h : lineIsEmpty l <;> simp [verdict, matchLine, h]

theorem verdict_Comment (D : List Dialect) (μ : MState) (l : Str) :
    verdict D μ l .Comment = lineStartsWith l [35] := by
  cases h : lineStartsWith l [35] <;> simp [verdict, matchLine, h]

theorem verdict_TableRow (D : List Dialect) (μ : MState) (l : Str) :
    verdict D μ l .TableRow = lineStartsWith l [124] := by
  cases h : lineStartsWith l [124] <;> simp [verdict, matchLine, h]

theorem verdict_TagLine_start (D : List Dialect) (μ : MState) (l : Str) (h : verdict D μ l .TagLine = true) :
    lineStartsWith l [64] = true := by
  cases hc : lineStartsWith l [64] with
  | true => rfl
  | false => simp [verdict, matchLine, hc] at h

theorem verdict_Language_start (D : List Dialect) (μ : MState) (l : Str) (h : verdict D μ l .Language = true) :
    lineStartsWith l [35] = true := by
  simp only [verdict, matchLine] at h
  cases hre : languageRe (lineText l none) with
  | none => rw [hre] at h; cases h
  | some name =>
    unfold languageRe at hre
    have hl : lstrip (lineText l none) = trimmed l := by
      simp only [lineText, trimmed]; exact lstrip_lstrip l
    rw [hl] at hre
    unfold lineStartsWith
    cases ht : trimmed l with
    | nil => rw [ht] at hre; cases hre
    | cons c r =>
      rw [ht] at hre
      by_cases hc : c = 35
      · subst hc; simp [startsWith]
      · exfalso
        split at hre
        · rename_i s1 heq
          cases heq
          exact hc rfl
        · cases hre

theorem res_of_opt (o : Option (Token × MState)) (t : Token) (μ : MState) :
    (match (match o with | some (t', μ') => (⟨t', μ', .matched⟩ : MOut) | none => ⟨t, μ, .no⟩).res with
      | .matched => true | _ => false) = o.isSome := by
  cases o with
  | none => rfl
  | some x => cases x; rfl

/-- the doc-string test in terms of the delimiter tests -/
theorem verdict_DocSep (D : List Dialect) (μ : MState) (l : Str) :
    verdict D μ l .DocStringSeparator =
      (match μ.activeSep with
        | none => (matchDocSep μ (probe l) l dq3 true).orElse fun _ => matchDocSep μ (probe l) l bt3 true
        | some sep =>
          if sep.isEmpty then (matchDocSep μ (probe l) l dq3 true).orElse fun _ => matchDocSep μ (probe l) l bt3 true
          else matchDocSep μ (probe l) l sep false).isSome := by
  simp only [verdict, matchLine]
  exact res_of_opt _ _ _

theorem matchDocSep_isSome_iff (μ : MState) (t : Token) (l sep : Str) (o : Bool) :
    (matchDocSep μ t l sep o).isSome = lineStartsWith l sep := by
  unfold matchDocSep
  cases lineStartsWith l sep with
  | false => rfl
  | true => cases o <;> rfl

theorem verdict_DocSep_start (D : List Dialect) (μ : MState) (hμ : sepOK μ = true) (l : Str)
    (h : verdict D μ l .DocStringSeparator = true) :
    lineStartsWith l dq3 = true ∨ lineStartsWith l bt3 = true := by
  have hor : ((matchDocSep μ (probe l) l dq3 true).orElse fun _ => matchDocSep μ (probe l) l bt3 true).isSome = true →
      lineStartsWith l dq3 = true ∨ lineStartsWith l bt3 = true := by
    intro hs
    cases ha : matchDocSep μ (probe l) l dq3 true with
    | some x => left; rw [← matchDocSep_isSome_iff μ (probe l) l dq3 true, ha]; rfl
    | none =>
      rw [ha] at hs
      simp only [Option.orElse] at hs
      right; rw [← matchDocSep_isSome_iff μ (probe l) l bt3 true]; exact hs
  rw [verdict_DocSep] at h
  simp only [sepOK, Bool.or_eq_true, beq_iff_eq] at hμ
  rcases hμ with (h0 | h0) | h0
  · rw [h0] at h; exact hor h
  · rw [h0] at h
    have : (dq3.isEmpty) = false := rfl
    simp only [this, Bool.false_eq_true, if_false] at h
    left; rw [← matchDocSep_isSome_iff μ (probe l) l dq3 false]; exact h
  · rw [h0] at h
    have : (bt3.isEmpty) = false := rfl
    simp only [this, Bool.false_eq_true, if_false] at h
    right; rw [← matchDocSep_isSome_iff μ (probe l) l bt3 false]; exact h

theorem verdict_Step_kw (D : List Dialect) (μ : MState) (l : Str) (h : verdict D μ l .StepLine = true) :
    ∃ kw ∈ μ.dialect.stepKeywords, startsWith kw (trimmed l) = true := by
  rcases matchLine_step_cases D μ (probe l) l with ⟨pre, kw, post, hsp, hp, _, _⟩ | ⟨_, hno⟩
  · exact ⟨kw, by simp [hsp], hp⟩
  · simp only [verdict, hno] at h; cases h

theorem verdict_Title_kw (D : List Dialect) (μ : MState) (l : Str) (K : Kind) (hK : K.isTitle = true)
    (h : verdict D μ l K = true) : ∃ k ∈ μ.dialect.roleKeywords K, startsWith (k ++ [58]) (trimmed l) = true := by
  rcases matchLine_title_matched D K hK μ (probe l) l with ⟨t', he, k, hk, hs, -⟩ | ⟨he, -⟩
  · exact ⟨k, hk, hs⟩
  · simp only [verdict, he] at h; cases h

/-! ### the class of a line by its first non-blank code point -/

def headClass : Str → Nat
  | [] => 0
  | c :: _ => if c == 35 then 1 else if c == 64 then 2 else if c == 124 then 3
      else if c == 34 || c == 96 then 4 else 5

def kindClass : Kind → Nat
  | .Empty => 0 | .Language => 1 | .Comment => 1 | .TagLine => 2 | .TableRow => 3
  | .DocStringSeparator => 4 | _ => 5

theorem headClass_of_startsWith {p s : Str} {a : Nat} {r : Str} (hp : p = a :: r) (h : startsWith p s = true) :
    headClass s = headClass [a] := by
  subst hp
  cases s with
  | nil => simp [startsWith] at h
  | cons c s =>
    simp only [startsWith, Bool.and_eq_true, beq_iff_eq] at h
    rw [← h.1]; rfl

theorem headClass_keyword {D : List Dialect} (hf : textDialectFacts D = true) {d : Dialect} (hd : d ∈ D)
    {k : Str} (hk : k ∈ d.allKeywords) (suffix s : Str) (h : startsWith (k ++ suffix) s = true) :
    headClass s = 5 := by
  simp only [textDialectFacts, Bool.and_eq_true] at hf
  obtain ⟨hne, hps, -⟩ := keywordFacts_spec hf.1
  have hp := keywordsPlainStart_spec hps hd hk
  have hn := noEmptyKeyword_spec hne hd hk
  have hq : (!startsWith [34] k && !startsWith [96] k) = true := by
    have := hf.2
    simp only [noQuoteStart, List.all_eq_true] at this
    exact this d hd k hk
  cases k with
  | nil => exact absurd rfl hn
  | cons a k =>
    rw [headClass_of_startsWith (List.cons_append ..) h]
    simp only [plainStart, startsWith, Bool.and_eq_true, Bool.not_eq_true', Bool.and_true, beq_eq_false_iff_ne, ne_eq] at hp hq
    obtain ⟨⟨⟨⟨⟨-, h35⟩, h64⟩, h124⟩, -⟩, -⟩ := hp
    obtain ⟨h34, h96⟩ := hq
    simp only [headClass]
    have e1 : (a == 35) = false := by simpa using fun e => h35 e.symm
    have e2 : (a == 64) = false := by simpa using fun e => h64 e.symm
    have e3 : (a == 124) = false := by simpa using fun e => h124 e.symm
    have e4 : (a == 34) = false := by simpa using fun e => h34 e.symm
    have e5 : (a == 96) = false := by simpa using fun e => h96 e.symm
    simp [e1, e2, e3, e4, e5]

theorem mem_priority_iff (K : Kind) : K ∈ kindPriority ↔ K ≠ .EOF ∧ K ≠ .Other := by
  cases K <;> simp [kindPriority]

/-- a test of the priority list succeeds only on a line of its class -/
theorem verdict_class {D' : List Dialect} (hf : textDialectFacts D' = true) (D : List Dialect) (μ : MState)
    (hμ : μ.dialect ∈ D') (hsep : sepOK μ = true) (l : Str) (K : Kind) (hK : K ∈ kindPriority)
    (h : verdict D μ l K = true) : headClass (trimmed l) = kindClass K := by
  have hstart : ∀ a : Nat, lineStartsWith l [a] = true → headClass (trimmed l) = headClass [a] := fun a ha =>
    headClass_of_startsWith rfl ha
  cases K
  case EOF => simp [kindPriority] at hK
  case Other => simp [kindPriority] at hK
  case Empty =>
    rw [verdict_Empty] at h
    have : trimmed l = [] := by simpa [lineIsEmpty] using h
    rw [this]; rfl
  case Comment => rw [verdict_Comment] at h; exact hstart 35 h
  case Language => exact hstart 35 (verdict_Language_start D μ l h)
  case TagLine => exact hstart 64 (verdict_TagLine_start D μ l h)
  case TableRow => rw [verdict_TableRow] at h; exact hstart 124 h
  case DocStringSeparator =>
    rcases verdict_DocSep_start D μ hsep l h with h1 | h1
    · exact headClass_of_startsWith (p := dq3) rfl h1
    · exact headClass_of_startsWith (p := bt3) rfl h1
  case StepLine =>
    obtain ⟨kw, hkw, hp⟩ := verdict_Step_kw D μ l h
    have := headClass_keyword hf hμ (mem_allKeywords_step hkw) [] (trimmed l) (by rw [List.append_nil]; exact hp)
    rw [this]; rfl
  all_goals
    obtain ⟨k, hk, hp⟩ := verdict_Title_kw D μ l _ rfl h
    have := headClass_keyword hf hμ (mem_allKeywords_title (mem_titleKeywords_of_role _ _ _ hk)) [58] (trimmed l) hp
    rw [this]; rfl

theorem verdict_keyword_exclusive {D' : List Dialect} (hf : textDialectFacts D' = true) (D : List Dialect) (μ : MState)
    (hμ : μ.dialect ∈ D') (l : Str) (K1 K2 : Kind)
    (h1 : K1.isTitle = true ∨ K1 = .StepLine) (h2 : K2.isTitle = true ∨ K2 = .StepLine) (hne : K1 ≠ K2)
    (hv1 : verdict D μ l K1 = true) : verdict D μ l K2 = false := by
  simp only [textDialectFacts, Bool.and_eq_true] at hf
  cases hm : matchLine D K1 μ (probe l) l with
  | mk t' μ' res =>
    cases res with
    | matched =>
      have := keyword_kinds_exclusive D D' hf.1 μ hμ (probe l) l K1 K2 h1 h2 hne t' μ' hm
      simp only [verdict, this]
    | no => simp only [verdict, hm] at hv1; cases hv1
    | raised e => simp only [verdict, hm] at hv1; cases hv1

/-- two different tests of the priority list succeed on the same line only if they are `Language`
    and `Comment` -/
theorem verdict_exclusive {D' : List Dialect} (hf : textDialectFacts D' = true) (D : List Dialect) (μ : MState)
    (hμ : μ.dialect ∈ D') (hsep : sepOK μ = true) (l : Str) (K1 K2 : Kind) (hK1 : K1 ∈ kindPriority)
    (hK2 : K2 ∈ kindPriority) (h1 : verdict D μ l K1 = true) (hne : K1 ≠ K2)
    (hlc : ¬(K1 = .Language ∧ K2 = .Comment)) (hcl : ¬(K1 = .Comment ∧ K2 = .Language)) :
    verdict D μ l K2 = false := by
  cases h2 : verdict D μ l K2 with
  | false => rfl
  | true =>
    exfalso
    have c1 := verdict_class hf D μ hμ hsep l K1 hK1 h1
    have c2 := verdict_class hf D μ hμ hsep l K2 hK2 h2
    have hc : kindClass K1 = kindClass K2 := c1.symm.trans c2
    have key : (K1.isTitle = true ∨ K1 = .StepLine) ∧ (K2.isTitle = true ∨ K2 = .StepLine) := by
      cases K1 <;> cases K2 <;> first
        | exact absurd rfl hne
        | exact absurd hc (by decide)
        | exact absurd ⟨rfl, rfl⟩ hlc
        | exact absurd ⟨rfl, rfl⟩ hcl
        | exact absurd hK1 (by decide)
        | exact absurd hK2 (by decide)
        | exact ⟨by decide, by decide⟩
    have := verdict_keyword_exclusive hf D μ hμ l K1 K2 key.1 key.2 hne h1
    rw [h2] at this; cases this

/-- the combinatorial core: a truth assignment to the tests that is exclusive up to
    `Language`/`Comment` is the fallback chain of the first test (in priority order) it satisfies -/
theorem passes_of_exclusive (v : Kind → Bool) (hEOF : v .EOF = false) (hOther : v .Other = true)
    (hex : ∀ K1 K2, K1 ∈ kindPriority → K2 ∈ kindPriority → v K1 = true → K1 ≠ K2 →
      ¬(K1 = .Language ∧ K2 = .Comment) → ¬(K1 = .Comment ∧ K2 = .Language) → v K2 = false)
    (hLC : v .Language = true → v .Comment = true) (K : Kind) :
    v K = passes ((kindPriority.find? v).getD .Other) K := by
  have hx : ∀ K1 K2, v K1 = true → (K1 ∈ kindPriority ∧ K2 ∈ kindPriority ∧ K1 ≠ K2 ∧
      ¬(K1 = .Language ∧ K2 = .Comment) ∧ ¬(K1 = .Comment ∧ K2 = .Language)) → v K2 = false :=
    fun K1 K2 h1 h => hex K1 K2 h.1 h.2.1 h1 h.2.2.1 h.2.2.2.1 h.2.2.2.2
  simp only [kindPriority, List.find?]
  cases h1 : v .Empty with
  | true => cases K <;> (first | exact h1 | exact hEOF | exact hOther | exact hx _ _ h1 (by decide))
  | false =>
  cases h2 : v .Language with
  | true =>
    cases K <;> (first | exact h1 | exact h2 | exact hLC h2 | exact hEOF | exact hOther | exact hx _ _ h2 (by decide))
  | false =>
  cases h3 : v .Comment with
  | true =>
    cases K <;> (first | exact h1 | exact h2 | exact h3 | exact hEOF | exact hOther | exact hx _ _ h3 (by decide))
  | false =>
  cases h4 : v .TagLine with
  | true =>
    cases K <;> (first | exact h1 | exact h2 | exact h3 | exact h4 | exact hEOF | exact hOther | exact hx _ _ h4 (by decide))
  | false =>
  cases h5 : v .TableRow with
  | true =>
    cases K <;> (first | exact h1 | exact h2 | exact h3 | exact h4 | exact h5 | exact hEOF | exact hOther | exact hx _ _ h5 (by decide))
  | false =>
  cases h6 : v .DocStringSeparator with
  | true =>
    cases K <;> (first | exact h1 | exact h2 | exact h3 | exact h4 | exact h5 | exact h6 | exact hEOF | exact hOther | exact hx _ _ h6 (by decide))
  | false =>
  cases h7 : v .StepLine with
  | true =>
    cases K <;> (first | exact h1 | exact h2 | exact h3 | exact h4 | exact h5 | exact h6 | exact h7 | exact hEOF | exact hOther | exact hx _ _ h7 (by decide))
  | false =>
  cases h8 : v .FeatureLine with
  | true =>
    cases K <;> (first | exact h1 | exact h2 | exact h3 | exact h4 | exact h5 | exact h6 | exact h7 | exact h8 | exact hEOF | exact hOther | exact hx _ _ h8 (by decide))
  | false =>
  cases h9 : v .RuleLine with
  | true =>
    cases K <;> (first | exact h1 | exact h2 | exact h3 | exact h4 | exact h5 | exact h6 | exact h7 | exact h8 | exact h9 | exact hEOF | exact hOther | exact hx _ _ h9 (by decide))
  | false =>
  cases h10 : v .BackgroundLine with
  | true =>
    cases K <;> (first | exact h1 | exact h2 | exact h3 | exact h4 | exact h5 | exact h6 | exact h7 | exact h8 | exact h9 | exact h10 | exact hEOF | exact hOther | exact hx _ _ h10 (by decide))
  | false =>
  cases h11 : v .ScenarioLine with
  | true =>
    cases K <;> (first | exact h1 | exact h2 | exact h3 | exact h4 | exact h5 | exact h6 | exact h7 | exact h8 | exact h9 | exact h10 | exact h11 | exact hEOF | exact hOther | exact hx _ _ h11 (by decide))
  | false =>
  cases h12 : v .ExamplesLine with
  | true =>
    cases K <;> (first | exact h1 | exact h2 | exact h3 | exact h4 | exact h5 | exact h6 | exact h7 | exact h8 | exact h9 | exact h10 | exact h11 | exact h12 | exact hEOF | exact hOther)
  | false =>
    cases K <;> (first | exact h1 | exact h2 | exact h3 | exact h4 | exact h5 | exact h6 | exact h7 | exact h8 | exact h9 | exact h10 | exact h11 | exact h12 | exact hEOF | exact hOther)

/-- **C02_kind_unique.**  Under the dialect facts, for a matcher state whose dialect is one of
    the table and whose doc-string mode is one the matcher can produce, each test succeeds on a
    line exactly when it is in the fallback chain of the line's intrinsic kind. -/
theorem kind_unique {D' : List Dialect} (hf : textDialectFacts D' = true) (D : List Dialect) (μ : MState)
    (hμ : μ.dialect ∈ D') (hsep : sepOK μ = true) (l : Str) (K : Kind) :
    verdict D μ l K = passes (intrinsicKind D μ l) K := by
  unfold intrinsicKind
  refine passes_of_exclusive (verdict D μ l) (verdict_EOF D μ l) (verdict_Other D μ l)
    (fun K1 K2 h1 h2 hv hne hlc hcl => verdict_exclusive hf D μ hμ hsep l K1 K2 h1 h2 hv hne hlc hcl)
    (fun h => ?_) K
  rw [verdict_Comment]
  exact verdict_Language_start D μ l h

theorem intrinsicKind_ne_EOF (D : List Dialect) (μ : MState) (l : Str) : intrinsicKind D μ l ≠ .EOF := by
  unfold intrinsicKind
  cases h : kindPriority.find? (verdict D μ l) with
  | none => simp
  | some k =>
    have := List.mem_of_find?_eq_some h
    simp only [Option.getD_some]
    exact ((mem_priority_iff k).1 this).1

end Lemmas
end GV
