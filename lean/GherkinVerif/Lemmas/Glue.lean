/-
  Lemmas/Glue.lean — lemmas about the hand-written glue of the generated parser
  (Model/Parser.lean) and the stream (Model/Stream.lean) used by Props/C01, C14, C18.

  The proofs live in
    GlueBase       run equations of the monad stack, Hoare triples, footprints, generic invariants
    GlueOutcome    parse_outcome, unexpectedErr_form, stream_kinds, stream_rejected
    GluePartition  partition, accepted_builds_eq_reads, lookahead_conserves
    GlueTerm       parse_terminates
    GlueBuilder    location of builder errors, tokens held by the builder stack
    GlueLines      parse_error_lines
  This module collects them and restates each with the type the property files use.

  Not here: a linear bound on `Ctx.calls` for an arbitrary table.  It is false — a guarded branch
  can fire on every line and its look-ahead rescans the whole rest of the queue.  With
    rows       = [⟨0, "", [⟨.EOF, none, [.build], 1⟩, ⟨.TagLine, some 0, [.build], 0⟩,
                           ⟨.TagLine, none, [.build], 0⟩], [], 0⟩]
    lookaheads = [⟨[.FeatureLine], [.TagLine]⟩]
  (`lookaheadsStopAtEOF` and `oneBuildLast` hold) and a source of n lines "@a" the model makes
  (n+1)² matcher calls on an accepted parse: 36 for n = 5, 1681 for n = 40, against the claimed
  (maxTests + lookaheadCost) · (n+1) = 30 and 205.
-/
import GherkinVerif.Model.Stream
import GherkinVerif.Spec.TableFacts
import GherkinVerif.Lemmas.GlueOutcome
import GherkinVerif.Lemmas.GluePartition
import GherkinVerif.Lemmas.GlueTerm
import GherkinVerif.Lemmas.GlueLines
namespace GV
namespace Lemmas

/-- matcher calls one visit of a line costs in each look-ahead of the table -/
def lookaheadCost (T : Table) : Nat :=
  (T.lookaheads.map fun la => la.expected.length + la.skip.length).sum

/-! the statements, as used by the property files -/

example (D : List Dialect) (T : Table) (stop : Bool) (μ : MState) (ids : Nat) (src : Str)
    (es : List PErr) (comp : Bool) (h : (parseWith D T stop μ ids src).1 = .rejected es comp) :
    (stop = true → es.length = 1 ∧ comp = false) ∧
    (stop = false → comp = true ∧ 1 ≤ es.length ∧ es.length ≤ T.errorCap + 1 ∧ (es.map PErr.message).Nodup) :=
  parse_outcome D T stop μ ids src es comp h

example (D : List Dialect) (T : Table) (hT : Spec.lookaheadsStopAtEOF T = true)
    (stop : Bool) (μ : MState) (ids : Nat) (src : Str) :
    (parseWith D T stop μ ids src).1 ≠ .fuel :=
  parse_terminates D T hT stop μ ids src

example (D : List Dialect) (T : Table) (hT : Spec.lookaheadsStopAtEOF T = true)
    (stop : Bool) (μ : MState) (ids : Nat) (src : Str) (es : List PErr) (comp : Bool)
    (h : (parseWith D T stop μ ids src).1 = .rejected es comp) :
    ∀ e ∈ es, 1 ≤ e.loc.line ∧ e.loc.line ≤ (splitLines src).length + 1 :=
  parse_error_lines D T hT stop μ ids src es comp h

example (D : List Dialect) (T : Table) (opts : Opts) (ids : Nat) (uri data : Str) :
    ∀ e ∈ (streamEnum D T opts ids uri data).1,
      (∃ u d, e = .source u d) ∨ (∃ u d, e = .gherkinDocument u d) ∨ (∃ p, e = .pickle p) ∨
      (∃ u x, e = .parseError u x) ∨ (∃ w, e = .crash w) :=
  stream_kinds D T opts ids uri data

example (row : StateRow) (t : Token) :
    (∀ l, t.line = some l →
      (unexpectedErr row t).body = lit "expected: " ++ joinWith (lit ", ") (row.expected.map lit) ++
        lit ", got '" ++ strip (trimmed l) ++ lit "'" ∧ (unexpectedErr row t).loc.line = t.lineNo) ∧
    (t.line = none →
      (unexpectedErr row t).body = lit "unexpected end of file, expected: " ++ joinWith (lit ", ") (row.expected.map lit) ∧
      (unexpectedErr row t).loc = t.loc) :=
  unexpectedErr_form row t

example (D : List Dialect) (T : Table) (opts : Opts) (ids : Nat) (uri data : Str)
    (μ : MState) (hμ : MState.init D (lit "en") = some μ) (es : List PErr) (comp : Bool)
    (h : (parseWith D T false μ ids data).1 = .rejected es comp) :
    (streamEnum D T opts ids uri data).1 = es.map (Envelope.parseError uri) :=
  stream_rejected D T opts ids uri data μ hμ es comp h

example (D : List Dialect) (T : Table) (hT : Spec.oneBuildLast T = true)
    (stop : Bool) (μ : MState) (ids : Nat) (src : Str) (d : Doc)
    (h : (parseWith D T stop μ ids src).1 = .ok d) :
    (parseWith D T stop μ ids src).2.builds.map (·.lineNo) = (parseWith D T stop μ ids src).2.reads ∧
    (parseWith D T stop μ ids src).2.unexpected = [] :=
  accepted_builds_eq_reads D T hT stop μ ids src d h

example (D : List Dialect) (T : Table) (hT : Spec.oneBuildLast T = true)
    (stop : Bool) (μ : MState) (ids : Nat) (src : Str) :
    let ctx := (parseWith D T stop μ ids src).2
    ((ctx.builds.map (·.lineNo) ++ ctx.unexpected).Perm ctx.reads ∨
     (ctx.builds.map (·.lineNo) ++ ctx.unexpected).Perm ctx.reads.dropLast) ∧
    (ctx.builds.map (·.lineNo)).Sublist ctx.reads ∧ ctx.unexpected.Sublist ctx.reads :=
  partition D T hT stop μ ids src

example (D : List Dialect) (cap : Nat) (stop : Bool) (la : LookAhead) (ctx : Ctx) (b : Bool) (ctx' : Ctx)
    (h : (lookahead D cap stop la).run.run ctx = (.ok b, ctx')) :
    (ctx'.queue.map (·.lineNo)).Perm (ctx.queue.map (·.lineNo) ++
      (List.range' (ctx.lineNo + 1) (ctx'.lineNo - ctx.lineNo))) ∧
    ctx'.lines = ctx.lines.drop (ctx'.lineNo - ctx.lineNo) ∧ ctx.lineNo ≤ ctx'.lineNo ∧
    ctx'.builds = ctx.builds ∧ ctx'.reads = ctx.reads :=
  lookahead_conserves D cap stop la ctx b ctx' h

end Lemmas
end GV
