/-
  Lemmas/Replace.lean — helper lemmas for property C09 (literal placeholder replacement):
  `replaceAll` (the model of `str.replace`) and `interp` (the model of `_interpolate`).
-/
import GherkinVerif.Model.Compiler
namespace GV

/-- `p` occurs in `t` at offset `k` -/
def OccursAt (p t : Str) (k : Nat) : Prop := startsWith p (t.drop k) = true ∧ k + p.length ≤ t.length

/-- the placeholder for header `h` -/
def placeholder (h : Str) : Str := [60] ++ h ++ [62]

namespace Lemmas

theorem startsWith_length : ∀ (p s : Str), startsWith p s = true → p.length ≤ s.length
  | [], _, _ => by simp
  | _ :: _, [], h => by simp [startsWith] at h
  | a :: p, b :: s, h => by
    simp only [startsWith, Bool.and_eq_true] at h
    have := startsWith_length p s h.2
    simp only [List.length_cons]; omega

theorem startsWith_append_self : ∀ (p s : Str), startsWith p (p ++ s) = true
  | [], _ => by simp [startsWith]
  | a :: p, s => by simp [startsWith, startsWith_append_self p s]

/-- a match at offset 0 is an occurrence at offset 0 -/
theorem occursAt_zero (p t : Str) (h : startsWith p t = true) : OccursAt p t 0 := by
  refine ⟨by simpa using h, ?_⟩
  have := startsWith_length p t h
  omega

theorem occursAt_succ (p : Str) (c : Nat) (t : Str) (k : Nat) :
    OccursAt p (c :: t) (k + 1) ↔ OccursAt p t k := by
  simp only [OccursAt, List.drop_succ_cons, List.length_cons]
  constructor <;> rintro ⟨h1, h2⟩ <;> exact ⟨h1, by omega⟩

theorem replaceAux_no_occurrence (p v : Str) :
    ∀ t : Str, (∀ k, ¬ OccursAt p t k) → replaceAux p v t 0 = t
  | [], _ => by simp [replaceAux]
  | c :: cs, h => by
    have h0 : ¬ (startsWith p (c :: cs) = true ∧ p ≠ []) := fun hc => h 0 (occursAt_zero p _ hc.1)
    have ih := replaceAux_no_occurrence p v cs (fun k hk => h (k + 1) ((occursAt_succ p c cs k).2 hk))
    simp only [replaceAux, h0, if_false, ih]

theorem replaceAll_no_occurrence (p v t : Str) (h : ∀ k, ¬ OccursAt p t k) : replaceAll p v t = t :=
  replaceAux_no_occurrence p v t h

/-- the `skip` counter drops exactly the rest of the matched occurrence -/
theorem replaceAux_skip (p v : Str) : ∀ (x b : Str), replaceAux p v (x ++ b) x.length = replaceAux p v b 0
  | [], b => by simp
  | c :: x, b => by
    simp only [List.cons_append, List.length_cons, replaceAux]
    exact replaceAux_skip p v x b

theorem replaceAux_at_occurrence (p v b : Str) (hp : p ≠ []) :
    replaceAux p v (p ++ b) 0 = v ++ replaceAux p v b 0 := by
  have hs := startsWith_append_self p b
  cases p with
  | nil => exact absurd rfl hp
  | cons c p' =>
    simp only [List.cons_append] at hs ⊢
    simp only [replaceAux, hs, true_and]
    simp only [ne_eq, reduceCtorEq, not_false_eq_true, if_true, List.length_cons, Nat.add_sub_cancel]
    rw [replaceAux_skip]

theorem replaceAll_first_occurrence (p v : Str) : ∀ (a b : Str), p ≠ [] →
    (∀ k, k < a.length → ¬ OccursAt p (a ++ p ++ b) k) →
    replaceAll p v (a ++ p ++ b) = a ++ v ++ replaceAll p v b
  | [], b, hp, _ => by
    simp only [replaceAll, List.nil_append]
    exact replaceAux_at_occurrence p v b hp
  | c :: a, b, hp, h => by
    have h0 : ¬ (startsWith p (c :: (a ++ p ++ b)) = true ∧ p ≠ []) :=
      fun hc => h 0 (by simp) (by simpa using occursAt_zero p _ hc.1)
    have ih := replaceAll_first_occurrence p v a b hp (fun k hk hocc =>
      h (k + 1) (by simp only [List.length_cons]; omega)
        (by simpa using (occursAt_succ p c (a ++ p ++ b) k).2 hocc))
    simp only [replaceAll] at ih ⊢
    simp only [List.cons_append, replaceAux, h0, if_false, ih]

theorem interp_short : ∀ (t : Str) (hs vs : List Str), vs.length < hs.length → interp t hs vs = none
  | _, [], _, h => by simp at h
  | _, _ :: _, [], _ => by simp [interp]
  | t, x :: hs, v :: vs, h => by
    simp only [interp]
    exact interp_short _ hs vs (by simpa using h)

theorem interp_no_placeholder : ∀ (t : Str) (hs vs : List Str), hs.length ≤ vs.length →
    (∀ hd ∈ hs, ∀ k, ¬ OccursAt (placeholder hd) t k) → interp t hs vs = some t
  | _, [], _, _, _ => by simp [interp]
  | _, _ :: _, [], hl, _ => by simp at hl
  | t, x :: hs, v :: vs, hl, h => by
    have hx := replaceAll_no_occurrence (placeholder x) v t (h x (by simp))
    simp only [placeholder] at hx
    simp only [interp, hx]
    exact interp_no_placeholder t hs vs (by simpa using hl) (fun hd hm => h hd (by simp [hm]))

end Lemmas
end GV
