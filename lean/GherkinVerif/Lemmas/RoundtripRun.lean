/-
  Lemmas/RoundtripRun.lean — property C03, round trip: forward simulation of the queue-free parse
  (`Spec.parseWithPure`) on lines whose matcher verdicts are known.  `At c ls n μ β i` fixes the
  observable core of a context (unread lines, line number, matcher, builder, id counter, no errors)
  and leaves the ghost fields (calls, reads, builds …) free.
-/
import GherkinVerif.Lemmas.RoundtripBuilder
import GherkinVerif.Lemmas.GlueBase
import GherkinVerif.Lemmas.QueuePureLoop
import GherkinVerif.Spec.PureParse
set_option linter.unusedSectionVars false
set_option linter.unusedSimpArgs false
set_option linter.unusedVariables false
namespace GV
namespace Lemmas
open Spec

structure At (c : Ctx) (ls : List Str) (n : Nat) (μ : MState) (β : BState) (i : Nat) : Prop where
  lines : c.lines = ls
  lineNo : c.lineNo = n
  mu : c.μ = μ
  beta : c.β = β
  ids : c.ids = i
  errs : c.errors = []

section step
variable (D : List Dialect) (cap : Nat) (stop : Bool)
variable {c : Ctx} {ls : List Str} {n : Nat} {μ : MState} {β : BState} {i : Nat}

theorem matchP_line (h : At c ls n μ β i) (K : Kind) (t t' : Token) (l : Str) (hl : t.line = some l) (b : Bool)
    (hm : matchLine D K μ t l = ⟨t', μ, if b then .matched else .no⟩) :
    ∃ c', run (matchP D cap stop K t) c = (.ok (b, t'), c') ∧ At c' ls n μ β i := by
  refine ⟨{ c with μ := μ, calls := c.calls + 1 }, ?_, ⟨h.lines, h.lineNo, rfl, h.beta, h.ids, h.errs⟩⟩
  have hmt : matchTok D K c.μ t = (⟨t', μ, if b then .matched else .no⟩, true) := by
    unfold matchTok; rw [hl, h.mu]; simp only [hm]
  rw [run_matchP]
  simp only [hmt]
  cases b <;> rfl

theorem matchP_eof (h : At c ls n μ β i) (K : Kind) (t : Token) (hl : t.line = none) (hK : K ≠ .EOF) :
    ∃ c', run (matchP D cap stop K t) c = (.ok (false, t), c') ∧ At c' ls n μ β i := by
  refine ⟨{ c with μ := c.μ, calls := c.calls + 0 }, ?_, ⟨h.lines, h.lineNo, h.mu, h.beta, h.ids, h.errs⟩⟩
  have hmt : matchTok D K c.μ t = (⟨t, c.μ, .no⟩, false) := by
    unfold matchTok; rw [hl]; cases K <;> first | exact absurd rfl hK | rfl
  rw [run_matchP]
  simp only [hmt]
  rfl

theorem matchP_eof_yes (h : At c ls n μ β i) (t : Token) (hl : t.line = none) :
    ∃ c', run (matchP D cap stop .EOF t) c = (.ok (true, setMatched μ t .EOF), c') ∧ At c' ls n μ β i := by
  refine ⟨{ c with μ := μ, calls := c.calls + 1 }, ?_, ⟨h.lines, h.lineNo, rfl, h.beta, h.ids, h.errs⟩⟩
  have hmt : matchTok D .EOF c.μ t = (⟨setMatched μ t .EOF, μ, .matched⟩, true) := by
    unfold matchTok; rw [hl, h.mu]; simp
  rw [run_matchP]
  simp only [hmt]
  rfl

theorem runProds_ok (t : Token) (ps : List Prod) : ∀ {c : Ctx} {β : BState} {i : Nat} (h : At c ls n μ β i)
    (β' : BState) (i' : Nat) (hops : applyOps (prodOps t ps) β i = (.ok (), β', i')),
    ∃ c', run (runProds cap stop t ps) c = (.ok (), c') ∧ At c' ls n μ β' i' := by
  induction ps with
  | nil =>
    intro c β i h β' i' hops
    simp only [prodOps, applyOps] at hops
    cases hops
    exact ⟨c, rfl, h⟩
  | cons p ps ih =>
    intro c β i h β' i' hops
    rw [runProds, prun_bind, run_runProd]
    cases p with
    | start r =>
      simp only [prodOps, applyOps, applyOp] at hops
      have h1 : At { c with β := c.β.startRule r } ls n μ (β.startRule r) i :=
        ⟨h.lines, h.lineNo, h.mu, by simp [h.beta], h.ids, h.errs⟩
      obtain ⟨c', hr, hc'⟩ := ih h1 β' i' hops
      exact ⟨c', by simpa using hr, hc'⟩
    | end_ r =>
      simp only [prodOps, applyOps, applyOp] at hops
      rcases he : β.endRule i with ⟨res, β1, i1⟩
      rw [he] at hops
      cases res with
      | error e => simp at hops
      | ok u =>
        simp only at hops
        have h1 : At { c with β := β1, ids := i1 } ls n μ β1 i1 := ⟨h.lines, h.lineNo, h.mu, rfl, rfl, h.errs⟩
        obtain ⟨c', hr, hc'⟩ := ih h1 β' i' hops
        refine ⟨c', ?_, hc'⟩
        simp only [h.beta, h.ids, he, run_liftB]
        exact hr
    | build =>
      simp only [prodOps, applyOps, applyOp] at hops
      cases hb : β.build t with
      | error e => rw [hb] at hops; simp at hops
      | ok β1 =>
        rw [hb] at hops
        simp only at hops
        have h1 : At { c with β := β1, builds := c.builds ++ [t] } ls n μ β1 i :=
          ⟨h.lines, h.lineNo, h.mu, rfl, h.ids, h.errs⟩
        obtain ⟨c', hr, hc'⟩ := ih h1 β' i' hops
        refine ⟨c', ?_, hc'⟩
        simp only [h.beta, hb]
        exact hr

variable (T : Table) (row : StateRow)

theorem try_skip (t : Token) (l : Str) (hl : t.line = some l) (pre rest : List Branch) :
    ∀ {c : Ctx} (h : At c ls n μ β i) (hpre : ∀ b ∈ pre, matchLine D b.kind μ t l = ⟨t, μ, .no⟩),
    ∃ c', At c' ls n μ β i ∧ run (tryBranchesPure D T stop row (pre ++ rest) t) c =
      run (tryBranchesPure D T stop row rest t) c' := by
  induction pre with
  | nil => intro c h _; exact ⟨c, h, rfl⟩
  | cons b pre ih =>
    intro c h hpre
    obtain ⟨c1, hr, h1⟩ := matchP_line D T.errorCap stop h b.kind t t l hl false (hpre b (by simp))
    obtain ⟨c', hc', hr'⟩ := ih h1 fun b' hb' => hpre b' (by simp [hb'])
    refine ⟨c', hc', ?_⟩
    rw [List.cons_append, tryBranchesPure, prun_bind, hr]
    simpa using hr'

theorem try_take (t t' : Token) (l : Str) (hl : t.line = some l) (b : Branch) (rest : List Branch)
    (hg : b.guard = none) (h : At c ls n μ β i) (hm : matchLine D b.kind μ t l = ⟨t', μ, .matched⟩)
    (β' : BState) (i' : Nat) (hops : applyOps (prodOps t' b.prods) β i = (.ok (), β', i')) :
    ∃ c', run (tryBranchesPure D T stop row (b :: rest) t) c = (.ok b.target, c') ∧ At c' ls n μ β' i' := by
  obtain ⟨c1, hr, h1⟩ := matchP_line D T.errorCap stop h b.kind t t' l hl true hm
  obtain ⟨c', hr', hc'⟩ := runProds_ok T.errorCap stop t' b.prods h1 β' i' hops
  refine ⟨c', ?_, hc'⟩
  rw [tryBranchesPure, prun_bind, hr]
  simp only [hg, if_true, prun_bind, prun_pure, hr']

/-- the first branch testing `K`, provided no `Other` test comes before it -/
def firstOf (K : Kind) : List Branch → Option Branch
  | [] => none
  | b :: bs => if b.kind == K then some b else if b.kind == .Other then none else firstOf K bs

theorem firstOf_spec (K : Kind) : ∀ (bs : List Branch) (b : Branch), firstOf K bs = some b →
    ∃ pre post, bs = pre ++ b :: post ∧ (∀ b' ∈ pre, b'.kind ≠ K ∧ b'.kind ≠ .Other) ∧ b.kind = K := by
  intro bs
  induction bs with
  | nil => intro b h; cases h
  | cons a bs ih =>
    intro b h
    simp only [firstOf] at h
    split at h
    · next hk => cases h; exact ⟨[], bs, rfl, by simp, by simpa using hk⟩
    · next hk =>
      split at h
      · cases h
      · next ho =>
        obtain ⟨pre, post, rfl, hp, hb⟩ := ih b h
        refine ⟨a :: pre, post, rfl, ?_, hb⟩
        intro b' hb'
        simp only [List.mem_cons] at hb'
        rcases hb' with rfl | hb'
        · exact ⟨by simpa using hk, by simpa using ho⟩
        · exact hp b' hb'

/-- a line of kind `K` (every other specific test fails, `K` matches) takes the first `K` branch -/
theorem try_first (t t' : Token) (l : Str) (hl : t.line = some l) (K : Kind) (b : Branch)
    (hfirst : firstOf K row.branches = some b) (hg : b.guard = none) (h : At c ls n μ β i)
    (hno : ∀ K', K' ≠ K → K' ≠ .Other → matchLine D K' μ t l = ⟨t, μ, .no⟩)
    (hm : matchLine D K μ t l = ⟨t', μ, .matched⟩)
    (β' : BState) (i' : Nat) (hops : applyOps (prodOps t' b.prods) β i = (.ok (), β', i')) :
    ∃ c', run (tryBranchesPure D T stop row row.branches t) c = (.ok b.target, c') ∧ At c' ls n μ β' i' := by
  obtain ⟨pre, post, hbs, hpre, hb⟩ := firstOf_spec K _ _ hfirst
  obtain ⟨c1, h1, hr⟩ := try_skip D stop T row t l hl pre (b :: post) h
    fun b' hb' => hno _ (hpre b' hb').1 (hpre b' hb').2
  obtain ⟨c', hr', hc'⟩ := try_take D stop T row t t' l hl b post hg h1 (hb ▸ hm) β' i' hops
  exact ⟨c', by rw [hbs, hr, hr'], hc'⟩

/-- the end of file takes the `EOF` branch when it is the first of the row -/
theorem try_eof (t : Token) (hl : t.line = none) (b : Branch) (rest : List Branch) (hk : b.kind = .EOF)
    (hg : b.guard = none) (h : At c ls n μ β i)
    (β' : BState) (i' : Nat) (hops : applyOps (prodOps (setMatched μ t .EOF) b.prods) β i = (.ok (), β', i')) :
    ∃ c', run (tryBranchesPure D T stop row (b :: rest) t) c = (.ok b.target, c') ∧ At c' ls n μ β' i' := by
  obtain ⟨c1, hr, h1⟩ := matchP_eof_yes D T.errorCap stop h t hl
  obtain ⟨c', hr', hc'⟩ := runProds_ok T.errorCap stop _ b.prods h1 β' i' hops
  refine ⟨c', ?_, hc'⟩
  rw [tryBranchesPure, prun_bind, hk, hr]
  simp only [hg, if_true, prun_bind, prun_pure, hr']

end step

end Lemmas
end GV
