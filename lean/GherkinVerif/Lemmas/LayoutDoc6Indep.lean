/-
  Lemmas/LayoutDoc6Indep.lean — the scanner-side glue operations neither read nor write the builder
  state (nor the ghost fields): `Indep` (Lemmas/LayoutDoc6Base.lean) for `addError`, `matchP`,
  `matchAny`, `peekLoop`, `lookaheadPure` and `liftB`.
-/
import GherkinVerif.Lemmas.LayoutDoc6Base
namespace GV
namespace Layout6
open Lemmas Spec Layout3 Layout4 Layout5

theorem simG_addError (cap : Nat) (e : PErr) :
    SimG CtxE (fun _ d d' => CtxE d d') (addError cap e) (addError cap e) := by
  intro c c' h
  rw [run_addError, run_addError, h.errors]
  by_cases h1 : (c.errors.any fun e' => e'.message == e.message) = true
  · rw [if_pos h1, if_pos h1]
    exact ⟨rfl, h⟩
  · rw [if_neg h1, if_neg h1]
    by_cases h2 : (c.errors ++ [e]).length > cap
    · rw [if_pos h2, if_pos h2]
      exact ⟨rfl, ⟨h.lines, h.lineNo, rfl, h.μ, h.ids, h.unexpected⟩⟩
    · rw [if_neg h2, if_neg h2]
      exact ⟨rfl, ⟨h.lines, h.lineNo, rfl, h.μ, h.ids, h.unexpected⟩⟩

theorem indep_addError (cap : Nat) (e : PErr) : Indep (addError cap e) :=
  ⟨simG_addError cap e, keepsB_addError cap e⟩

theorem indep_matchP (D : List Dialect) (cap : Nat) (stop : Bool) (K : Kind) (t : Token) :
    Indep (matchP D cap stop K t) := by
  refine ⟨?_, keepsB_matchP D cap stop K t⟩
  intro c c' h
  rw [run_matchP, run_matchP]
  simp only []
  rw [h.μ]
  have hc1 : ∀ n n' : Nat, CtxE { c with μ := (matchTok D K c.μ t).1.μ, calls := n }
      { c' with μ := (matchTok D K c.μ t).1.μ, calls := n' } :=
    fun _ _ => ⟨h.lines, h.lineNo, h.errors, rfl, h.ids, h.unexpected⟩
  cases hr : (matchTok D K c.μ t).1.res with
  | matched => exact ⟨rfl, hc1 _ _⟩
  | no => exact ⟨rfl, hc1 _ _⟩
  | raised e =>
    simp only []
    cases stop with
    | true => exact ⟨rfl, hc1 _ _⟩
    | false =>
      simp only [Bool.false_eq_true, ↓reduceIte]
      have key : ∀ (tk : Token) (c0 c0' : Ctx), CtxE c0 c0' →
          PostG (fun (_ : Bool × Token) d d' => CtxE d d')
            (match run (addError cap e) c0 with
              | (.ok _, c2) => ((.ok (false, tk) : Except Abort (Bool × Token)), c2)
              | (.error e, c2) => (.error e, c2))
            (match run (addError cap e) c0' with
              | (.ok _, c2) => ((.ok (false, tk) : Except Abort (Bool × Token)), c2)
              | (.error e, c2) => (.error e, c2)) := by
        intro tk c0 c0' h0
        have hs := simG_addError cap e c0 c0' h0
        revert hs
        rcases run (addError cap e) c0 with ⟨r1, d⟩
        rcases run (addError cap e) c0' with ⟨r2, d'⟩
        intro hs
        cases r1 <;> cases r2 <;> simp only [PostG] at hs ⊢
        · exact hs
        · exact ⟨trivial, hs.2⟩
      exact key _ _ _ (hc1 _ _)

theorem indep_matchAny (D : List Dialect) (cap : Nat) (stop : Bool) (ks : List Kind) (t : Token) :
    Indep (matchAny D cap stop ks t) := by
  induction ks generalizing t with
  | nil => exact Indep.pure _
  | cons k ks ih =>
    unfold matchAny
    refine Indep.bind (indep_matchP D cap stop k t) fun r => ?_
    obtain ⟨m, t'⟩ := r
    dsimp only
    split
    · exact Indep.pure _
    · exact ih _

theorem indep_peekLoop (D : List Dialect) (cap : Nat) (stop : Bool) (la : LookAhead) (ls : List Str) (n : Nat) :
    Indep (peekLoop D cap stop la ls n) := by
  induction ls generalizing n with
  | nil =>
    unfold peekLoop
    refine Indep.bind (indep_matchAny _ _ _ _ _) fun r => ?_
    obtain ⟨m, t1⟩ := r
    dsimp only
    split
    · exact Indep.pure _
    · exact Indep.bind (indep_matchAny _ _ _ _ _) fun _ => Indep.pure _
  | cons l ls ih =>
    unfold peekLoop
    refine Indep.bind (indep_matchAny _ _ _ _ _) fun r => ?_
    obtain ⟨m, t1⟩ := r
    dsimp only
    split
    · exact Indep.pure _
    · refine Indep.bind (indep_matchAny _ _ _ _ _) fun r => ?_
      obtain ⟨s, t2⟩ := r
      dsimp only
      split
      · exact ih _
      · exact Indep.pure _

theorem indep_lookaheadPure (D : List Dialect) (cap : Nat) (stop : Bool) (la : LookAhead) :
    Indep (lookaheadPure D cap stop la) := by
  refine ⟨?_, keepsB_lookaheadPure D cap stop la⟩
  intro c c' h
  unfold lookaheadPure
  rw [prun_bind, prun_bind, run_get, run_get]
  simp only []
  rw [h.lines, h.lineNo]
  exact (indep_peekLoop D cap stop la c.lines (c.lineNo + 1)).1 c c' h

theorem indep_liftB (cap : Nat) (stop : Bool) (r : Except BErr Unit) : Indep (liftB cap stop r) := by
  refine ⟨?_, keepsB_liftB cap stop r⟩
  intro c c' h
  rw [run_liftB, run_liftB]
  split
  · exact ⟨rfl, h⟩
  · exact ⟨rfl, h⟩
  · cases stop with
    | true => exact ⟨rfl, h⟩
    | false =>
      simp only [Bool.false_eq_true, ↓reduceIte]
      exact simG_addError cap _ c c' h

end Layout6
end GV
