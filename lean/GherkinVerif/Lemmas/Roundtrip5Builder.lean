/-
  Lemmas/Roundtrip5Builder.lean — round trip, fifth model: the builder on a finished `Rule` node.
-/
import GherkinVerif.Lemmas.Roundtrip5Blocks
set_option linter.unusedSectionVars false
set_option linter.unusedSimpArgs false
set_option linter.unusedVariables false
namespace GV
namespace Lemmas
open Spec

theorem endRule_raw_ruleheader (its : List (Key × Val)) (rt : RuleType) (items : List (Key × Val))
    (rest : List Node) (cm : List Comment) (i : Nat) :
    (⟨⟨.RuleHeader, its⟩ :: ⟨rt, items⟩ :: rest, cm⟩ : BState).endRule i =
      (.ok (), ⟨⟨rt, items ++ [(.rule .RuleHeader, .raw .RuleHeader its)]⟩ :: rest, cm⟩, i) := rfl

def bgRuleChild (bg : Option Background) : List RuleChild :=
  match bg with
  | some b => [RuleChild.background b]
  | none => []

def mkRule (n m i : Nat) (tags : List Str) (kwd nm : Str) (bg : Option Background) (S : List Scenario) : Rule :=
  { id := i + tags.length, tags := expTags n i tags, loc := ⟨m, some 1⟩, keyword := kwd, name := nm, description := [], children := bgRuleChild bg ++ S.map RuleChild.scenario }

/-- the value of the finished `Rule` node, with or without a background -/
theorem transform_rule (cm : List Comment) (μ : MState) (n m : Nat) (tags : List Str) (kwd nm : Str)
    (tk : Token) (hk : tk.keyword = some kwd) (ht : tk.text = some nm) (hloc : tk.loc = ⟨m, some 1⟩)
    (bg : Option Background) (S : List Scenario) (i : Nat) :
    (transformNode cm ⟨.Rule, (.rule .RuleHeader, .raw .RuleHeader
        (tagsItem μ n tags ++ [(.tok .RuleLine, .tok tk)])) :: (bgItems bg ++ scItems S)⟩).run.run i =
      (.ok (Val.rule (mkRule n m i tags kwd nm bg S)), i + tags.length + 1) := by
  have hsingle : getSingle ((Key.rule .RuleHeader, Val.raw .RuleHeader
        (tagsItem μ n tags ++ [(.tok .RuleLine, .tok tk)])) :: (bgItems bg ++ scItems S)) (.rule .RuleHeader) =
      Val.raw .RuleHeader (tagsItem μ n tags ++ [(.tok .RuleLine, .tok tk)]) := by
    simp [getSingle, getItems]
  have htags := getTags_tagsItem μ n i tags [(Key.tok .RuleLine, Val.tok tk)] rfl
  have hline : getSingle (tagsItem μ n tags ++ [(Key.tok .RuleLine, Val.tok tk)]) (.tok .RuleLine) = .tok tk := by
    simp only [getSingle, getItems_append, getItems_tagsItem μ n tags (.tok .RuleLine) (by decide)]
    rfl
  have hdesc : (getDescription (tagsItem μ n tags ++ [(Key.tok .RuleLine, Val.tok tk)])).run.run
      (i + tags.length) = (.ok [], i + tags.length) := by
    apply run_getDescription_some
    unfold descOf
    rw [getItems_append, getItems_tagsItem μ n tags _ (by decide)]
    rfl
  have hrules : getItems ((Key.rule .RuleHeader, Val.raw .RuleHeader
        (tagsItem μ n tags ++ [(.tok .RuleLine, .tok tk)])) :: (bgItems bg ++ scItems S)) (.rule .Rule) = [] := by
    rw [getItems_feat3, getItems_bgItems bg _ (by decide), getItems_scItems_ne S _ (by decide)]
    rfl
  have hbg : getBackground ((Key.rule .RuleHeader, Val.raw .RuleHeader
        (tagsItem μ n tags ++ [(.tok .RuleLine, .tok tk)])) :: (bgItems bg ++ scItems S)) = bg := by
    unfold getBackground getSingle
    rw [getItems_feat3, getItems_scItems_ne S _ (by decide)]
    cases bg <;> rfl
  have hsc : getScenarios ((Key.rule .RuleHeader, Val.raw .RuleHeader
        (tagsItem μ n tags ++ [(.tok .RuleLine, .tok tk)])) :: (bgItems bg ++ scItems S)) = S := by
    unfold getScenarios
    have hitems : getItems ((Key.rule .RuleHeader, Val.raw .RuleHeader
        (tagsItem μ n tags ++ [(.tok .RuleLine, .tok tk)])) :: (bgItems bg ++ scItems S))
        (.rule .ScenarioDefinition) = S.map Val.scenario := by
      rw [getItems_feat3, getItems_bgItems bg _ (by decide), scItems, getItems_map_eq]
      simp [getItems]
    rw [hitems]
    clear hitems hbg hrules hdesc hline htags hsingle
    induction S with
    | nil => rfl
    | cons a S ih => simpa using ih
  simp only [transformNode, run_bind, htags, hsingle, hline, hdesc, hrules, hbg, hsc, List.filterMap_nil,
    hk, ht, run_need_some, run_pure, getLocation, hloc, mkRule, run_nextId, bgRuleChild]
  cases bg <;> rfl

theorem endRule_rule (cm : List Comment) (μ : MState) (n m : Nat) (tags : List Str) (kwd nm : Str)
    (bg : Option Background) (S : List Scenario) (rt : RuleType) (items : List (Key × Val)) (rest : List Node) (i : Nat) :
    (⟨⟨.Rule, (.rule .RuleHeader, .raw .RuleHeader
        (tagsItem μ n tags ++ [(.tok .RuleLine, .tok (titleTok μ m .RuleLine kwd nm))])) ::
          (bgItems bg ++ scItems S)⟩ :: ⟨rt, items⟩ :: rest, cm⟩ : BState).endRule i =
      (.ok (), ⟨⟨rt, items ++ [(.rule .Rule, Val.rule (mkRule n m i tags kwd nm bg S))]⟩ :: rest, cm⟩,
        i + tags.length + 1) := by
  have h := transform_rule cm μ n m tags kwd nm (titleTok μ m .RuleLine kwd nm) rfl rfl rfl bg S i
  simp only [BState.endRule, h]
  rfl

end Lemmas
end GV
