/-
  Lemmas/Markdown.lean — helper lemmas for property C19 (the Markdown token matcher of
  Model/Md.lean): header prefix and keyword, bullet steps with the backtracking blank run,
  table-row indentation, GFM separator cells, backtick tag spans.
-/
import GherkinVerif.Lemmas.Keywords
import GherkinVerif.Model.Md
namespace GV.Spec

/-- no backtick immediately followed by `@` occurs in the string -/
def noTagOpen : Str → Bool
  | c :: d :: r => !(c == 96 && d == 64) && noTagOpen (d :: r)
  | _ => true

/-- a Markdown line made of segments `pre` + backtick + `@` + `body` + backtick, then `post` -/
def renderTagLine : List (Str × Str) → Str → Str
  | [], post => post
  | (pre, body) :: r, post => pre ++ [96, 64] ++ body ++ [96] ++ renderTagLine r post

/-- the spans one expects from `renderTagLine`, the first segment starting at offset `off`:
    (offset of the opening backtick, `@` + body) for each segment in order -/
def expectedSpans : List (Str × Str) → Nat → List (Nat × Str)
  | [], _ => []
  | (pre, body) :: r, off =>
    (off + pre.length, 64 :: body) :: expectedSpans r (off + pre.length + body.length + 3)

/-- total length of the segments -/
def segmentsLength : List (Str × Str) → Nat
  | [] => 0
  | (pre, body) :: r => pre.length + body.length + 3 + segmentsLength r

/-- the shape `:?-+:?` optionally followed by one final line feed -/
def SeparatorShape (s : Str) : Prop :=
  ∃ (c1 c2 e : Bool) (n : Nat),
    s = (if c1 then [58] else []) ++ List.replicate (n + 1) 45 ++ (if c2 then [58] else []) ++
        (if e then [10] else [])

end GV.Spec

namespace GV.Lemmas
open GV Spec Md

/-! ### header lines -/

theorem hashes_of_not_hash (r : Str) (hr : r.head? ≠ some 35) : hashes r = 0 := by
  apply hashes.eq_2
  rintro cs rfl
  exact hr rfl

theorem hashes_replicate (n : Nat) (r : Str) (hr : r.head? ≠ some 35) :
    hashes (List.replicate n 35 ++ r) = n := by
  induction n with
  | zero => simpa using hashes_of_not_hash r hr
  | succ n ih => simp [List.replicate_succ, hashes, ih]

theorem drop_replicate_append (n : Nat) (c : Nat) (r : Str) : (List.replicate n c ++ r).drop n = r := by
  have := drop_length_append (List.replicate n c) r
  rwa [List.length_replicate] at this

theorem head_ne_of_isSpace {b : Nat} {x : Str} (hb : isSpace b = true) : (b :: x).head? ≠ some 35 := by
  intro h
  simp only [List.head?_cons, Option.some.injEq] at h
  subst h
  exact absurd hb (by decide)

theorem headerPrefix_hashes (n b : Nat) (x : Str) (h1 : 1 ≤ n) (h6 : n ≤ 6) (hb : isSpace b = true) :
    headerPrefix (List.replicate n 35 ++ b :: x) = some (n + 1) := by
  unfold headerPrefix
  simp only [hashes_replicate n (b :: x) (head_ne_of_isSpace hb), drop_replicate_append, h1, h6,
    and_self, if_true, hb]

theorem headerPrefix_none (n : Nat) (r : Str) (hr : r.head? ≠ some 35)
    (h : n = 0 ∨ 7 ≤ n ∨ noWsStart r = true) : headerPrefix (List.replicate n 35 ++ r) = none := by
  unfold headerPrefix
  simp only [hashes_replicate n r hr, drop_replicate_append]
  split
  · next hn =>
    rcases h with h | h | h
    · omega
    · omega
    · cases r with
      | nil => rfl
      | cons c cs =>
        have : isSpace c = false := by simpa [noWsStart] using h
        simp [this]
  · rfl

theorem firstKeyword_title (kws : List Str) (k rest : Str) (hk : k ∈ kws) (hcf : ∀ k' ∈ kws, 58 ∉ k') :
    firstKeyword kws [58] (k ++ 58 :: rest) = some k :=
  find_title kws k rest hk hcf

/-- `C19_header_keyword`, the pattern -/
theorem headerMatch_keyword (kws : List Str) (n b : Nat) (k title : Str) (hk : k ∈ kws)
    (hcf : ∀ k' ∈ kws, 58 ∉ k') (h1 : 1 ≤ n) (h6 : n ≤ 6) (hb : isSpace b = true) :
    headerMatch kws (List.replicate n 35 ++ [b] ++ k ++ [58] ++ title) =
      some ⟨n + 1, k, strip (dotStar title)⟩ := by
  have e : List.replicate n 35 ++ [b] ++ k ++ [58] ++ title =
      List.replicate n 35 ++ b :: (k ++ 58 :: title) := by simp
  have hd : (List.replicate n 35 ++ b :: (k ++ 58 :: title)).drop (n + 1) = k ++ 58 :: title := by
    have := drop_length_succ_append (List.replicate n 35) (k ++ 58 :: title) b
    rwa [List.length_replicate] at this
  have hd2 : (List.replicate n 35 ++ b :: (k ++ 58 :: title)).drop (n + 1 + k.length + 1) = title := by
    rw [Nat.add_assoc (n + 1), ← List.drop_drop, hd, drop_length_succ_append]
  rw [e]
  unfold headerMatch
  simp only [headerPrefix_hashes n b _ h1 h6 hb, hd, firstKeyword_title kws k title hk hcf,
    Option.map_some, hd2]

theorem headerMatch_none (kws : List Str) (n : Nat) (r : Str) (hr : r.head? ≠ some 35)
    (h : n = 0 ∨ 7 ≤ n ∨ noWsStart r = true) : headerMatch kws (List.replicate n 35 ++ r) = none := by
  unfold headerMatch
  rw [headerPrefix_none n r hr h]

theorem headerMatch_no_hash (kws : List Str) (s : Str) (hs : s.head? ≠ some 35) : headerMatch kws s = none := by
  have := headerMatch_none kws 0 s hs (.inl rfl)
  simpa using this

theorem headerMatch_append (a b : List Str) (s : Str) :
    headerMatch (a ++ b) s = (headerMatch a s).orElse fun _ => headerMatch b s := by
  unfold headerMatch
  cases headerPrefix s with
  | none => rfl
  | some p =>
    simp only [firstKeyword, List.find?_append]
    cases List.find? (fun k => startsWith (k ++ [58]) (List.drop p s)) a <;> simp

/-- the five title kinds of `Md.matchLine` are `headerMatch` on the role's keyword list -/
theorem md_matchLine_title (ty : Kind) (hty : ty.isTitle = true) (μ : MState) (t : Token) (l : Str) :
    Md.matchLine ty μ t l =
      some (Md.matchTitle μ t l ty (headerMatch (μ.dialect.roleKeywords ty) (trimmed l))) := by
  cases ty <;> first
    | exact absurd hty (by decide)
    | rfl
    | skip
  simp only [Md.matchLine, Dialect.roleKeywords, headerMatch_append]
  cases headerMatch μ.dialect.scenario (trimmed l) <;> simp [Md.matchTitle]

theorem trimmed_header (ws : Str) (n : Nat) (x : Str) (hws : ∀ c ∈ ws, isSpace c = true) (h1 : 1 ≤ n) :
    trimmed (ws ++ (List.replicate n 35 ++ x)) = List.replicate n 35 ++ x ∧
    lineIndent (ws ++ (List.replicate n 35 ++ x)) = ws.length := by
  have hx : noWsStart (List.replicate n 35 ++ x) = true := by
    cases n with
    | zero => omega
    | succ n => simp [List.replicate_succ, noWsStart, isSpace]
  exact ⟨trimmed_ws_append ws _ hws hx, indentOf_ws_append ws _ hws hx⟩

/-- `C19_header_keyword` through `Md.matchLine` -/
theorem md_matchLine_header (ty : Kind) (hty : ty.isTitle = true) (μ : MState) (t : Token)
    (ws : Str) (n b : Nat) (k title : Str) (hk : k ∈ μ.dialect.roleKeywords ty)
    (hcf : ∀ k' ∈ μ.dialect.roleKeywords ty, 58 ∉ k') (hws : ∀ c ∈ ws, isSpace c = true)
    (h1 : 1 ≤ n) (h6 : n ≤ 6) (hb : isSpace b = true) :
    Md.matchLine ty μ t (ws ++ List.replicate n 35 ++ [b] ++ k ++ [58] ++ title) =
      some (some (setMatched μ t ty (text := some (strip (dotStar title))) (keyword := some k)
        (indent := some (ws.length + n + 1)))) := by
  have e : ws ++ List.replicate n 35 ++ [b] ++ k ++ [58] ++ title =
      ws ++ (List.replicate n 35 ++ ([b] ++ k ++ [58] ++ title)) := by simp
  have e2 : List.replicate n 35 ++ ([b] ++ k ++ [58] ++ title) =
      List.replicate n 35 ++ [b] ++ k ++ [58] ++ title := by simp
  obtain ⟨htr, hin⟩ := trimmed_header ws n ([b] ++ k ++ [58] ++ title) hws h1
  rw [md_matchLine_title ty hty, e, htr, e2, headerMatch_keyword _ n b k title hk hcf h1 h6 hb]
  simp only [Md.matchTitle, Option.map_some, ← e2, hin, Nat.add_assoc]

theorem md_matchLine_title_none (ty : Kind) (hty : ty.isTitle = true) (μ : MState) (t : Token) (l : Str)
    (h : headerMatch (μ.dialect.roleKeywords ty) (trimmed l) = none) :
    Md.matchLine ty μ t l = some none := by
  rw [md_matchLine_title ty hty, h]; rfl

/-- the column of a token matched with an explicit indent -/
theorem md_token_fields (μ : MState) (t : Token) (ty : Kind) (text k : Str) (i : Nat) :
    let t' := setMatched μ t ty (text := some (strip text)) (keyword := some k) (indent := some i)
    t'.mtype = some ty ∧ t'.keyword = some k ∧ t'.text = some (strip text) ∧ t'.col = some (i + 1) ∧
    t'.dialect = μ.name := by
  simp [setMatched, rstripCRLF_strip]

/-! ### bullet steps -/

theorem firstKeyword_nil_suffix (kws : List Str) (r : Str) :
    firstKeyword kws [] r = kws.find? fun k => startsWith k r := by
  simp [firstKeyword]

/-- a string starting with whitespace is prefixed by no keyword, if no keyword starts with
    whitespace and no keyword prefixes `x` (which rules out the empty keyword) -/
theorem firstKeyword_ws_none (kws : List Str) (c : Nat) (r x : Str) (hc : isSpace c = true)
    (hk : ∀ k ∈ kws, noWsStart k = true) (hx : firstKeyword kws [] x = none) :
    firstKeyword kws [] (c :: r) = none := by
  rw [firstKeyword_nil_suffix, List.find?_eq_none] at *
  intro k hkm
  cases k with
  | nil => exact absurd (by simp [startsWith]) (hx [] hkm)
  | cons a k =>
    have ha : isSpace a = false := by simpa [noWsStart] using hk _ hkm
    simp only [startsWith, Bool.and_eq_true, beq_iff_eq, not_and]
    rintro rfl
    rw [hc] at ha; cases ha

theorem drop_blanks (blanks x : Str) (j : Nat) (hj : j < blanks.length) :
    ∃ c r, (blanks ++ x).drop j = c :: r ∧ c ∈ blanks := by
  induction blanks generalizing j with
  | nil => simp at hj
  | cons a bl ih =>
    cases j with
    | zero => exact ⟨a, bl ++ x, rfl, by simp⟩
    | succ j =>
      obtain ⟨c, r, h1, h2⟩ := ih j (by simpa using hj)
      exact ⟨c, r, by simpa using h1, by simp [h2]⟩

theorem try_below_none (kws : List Str) (blanks x : Str) (hbl : ∀ c ∈ blanks, isSpace c = true)
    (hk : ∀ k ∈ kws, noWsStart k = true) (hx : firstKeyword kws [] x = none) (j : Nat)
    (hj : j < blanks.length) : bulletMatch.try_ kws (blanks ++ x) j = none := by
  induction j with
  | zero =>
    obtain ⟨c, r, h1, h2⟩ := drop_blanks blanks x 0 hj
    rw [List.drop_zero] at h1
    rw [bulletMatch.try_.eq_1, h1, firstKeyword_ws_none kws c r x (hbl c h2) hk hx]; rfl
  | succ j ih =>
    obtain ⟨c, r, h1, h2⟩ := drop_blanks blanks x (j + 1) hj
    rw [bulletMatch.try_.eq_2, h1, firstKeyword_ws_none kws c r x (hbl c h2) hk hx]
    exact ih (by omega)

theorem try_top (kws : List Str) (blanks x : Str) (hbl : ∀ c ∈ blanks, isSpace c = true)
    (hk : ∀ k ∈ kws, noWsStart k = true) :
    bulletMatch.try_ kws (blanks ++ x) blanks.length =
      (firstKeyword kws [] x).map fun k => ⟨1 + blanks.length, k, strip (dotStar (x.drop k.length))⟩ := by
  cases hlen : blanks.length with
  | zero =>
    have : blanks = [] := List.length_eq_zero_iff.mp hlen
    subst this
    rw [bulletMatch.try_.eq_1]; rfl
  | succ j =>
    rw [bulletMatch.try_.eq_2, ← hlen, drop_length_append]
    cases hf : firstKeyword kws [] x with
    | some k =>
      simp only [Option.map_some, ← List.drop_drop, drop_length_append, Nat.add_comm 1]
      rw [hlen]
    | none =>
      simp only [Option.map_none]
      exact try_below_none kws blanks x hbl hk hf j (by omega)

/-- `C19_bullet_step`, the pattern -/
theorem bulletMatch_spec (kws : List Str) (b : Nat) (blanks x : Str) (hb : b = 42 ∨ b = 43 ∨ b = 45)
    (hbl : ∀ c ∈ blanks, isSpace c = true) (hx : noWsStart x = true)
    (hk : ∀ k ∈ kws, noWsStart k = true) :
    bulletMatch kws ([b] ++ blanks ++ x) =
      (firstKeyword kws [] x).map fun k => ⟨1 + blanks.length, k, strip (dotStar (x.drop k.length))⟩ := by
  have hb' : (b == 42 || b == 43 || b == 45) = true := by
    rcases hb with rfl | rfl | rfl <;> rfl
  have e : [b] ++ blanks ++ x = b :: (blanks ++ x) := by simp
  rw [e]
  simp only [bulletMatch, hb', if_true, indentOf_ws_append blanks x hbl hx]
  exact try_top kws blanks x hbl hk

theorem firstKeyword_first (kws pre post : List Str) (k x : Str) (hsplit : kws = pre ++ k :: post)
    (hkx : startsWith k x = true) (hpre : ∀ k' ∈ pre, startsWith k' x = false) :
    firstKeyword kws [] x = some k := by
  rw [firstKeyword_nil_suffix, List.find?_eq_some_iff_append]
  exact ⟨hkx, pre, post, hsplit, fun a ha => by simp [hpre a ha]⟩

/-- … with the keyword made explicit: the first listed keyword prefixing `k ++ rest` -/
theorem bulletMatch_keyword (kws pre post : List Str) (b : Nat) (blanks k rest : Str)
    (hsplit : kws = pre ++ k :: post) (hpre : ∀ k' ∈ pre, startsWith k' (k ++ rest) = false)
    (hb : b = 42 ∨ b = 43 ∨ b = 45) (hbl : ∀ c ∈ blanks, isSpace c = true) (hne : k ≠ [])
    (hk : ∀ k ∈ kws, noWsStart k = true) :
    bulletMatch kws ([b] ++ blanks ++ k ++ rest) = some ⟨1 + blanks.length, k, strip (dotStar rest)⟩ := by
  have hkm : k ∈ kws := by simp [hsplit]
  rw [List.append_assoc, bulletMatch_spec kws b blanks (k ++ rest) hb hbl
    (noWsStart_append k rest (hk k hkm) hne) hk,
    firstKeyword_first kws pre post k (k ++ rest) hsplit (startsWith_append k rest) hpre]
  simp only [Option.map_some, drop_length_append]

theorem bulletMatch_no_bullet (kws : List Str) (s : Str)
    (h : ∀ b r, s = b :: r → b ≠ 42 ∧ b ≠ 43 ∧ b ≠ 45) : bulletMatch kws s = none := by
  cases s with
  | nil => rfl
  | cons b r =>
    obtain ⟨h1, h2, h3⟩ := h b r rfl
    simp [bulletMatch, h1, h2, h3]

theorem md_matchLine_step (μ : MState) (t : Token) (l : Str) :
    Md.matchLine .StepLine μ t l =
      some (Md.matchTitle μ t l .StepLine (bulletMatch μ.dialect.stepKeywords (trimmed l))) := rfl

/-- `C19_bullet_step` through `Md.matchLine` -/
theorem md_matchLine_bullet (μ : MState) (t : Token) (ws : Str) (b : Nat) (blanks k rest : Str)
    (pre post : List Str) (hsplit : μ.dialect.stepKeywords = pre ++ k :: post)
    (hpre : ∀ k' ∈ pre, startsWith k' (k ++ rest) = false)
    (hws : ∀ c ∈ ws, isSpace c = true) (hb : b = 42 ∨ b = 43 ∨ b = 45)
    (hbl : ∀ c ∈ blanks, isSpace c = true) (hne : k ≠ [])
    (hk : ∀ k ∈ μ.dialect.stepKeywords, noWsStart k = true) :
    Md.matchLine .StepLine μ t (ws ++ [b] ++ blanks ++ k ++ rest) =
      some (some (setMatched μ t .StepLine (text := some (strip (dotStar rest))) (keyword := some k)
        (indent := some (ws.length + 1 + blanks.length)))) := by
  have hbs : isSpace b = false := by rcases hb with rfl | rfl | rfl <;> decide
  have hx : noWsStart ([b] ++ blanks ++ k ++ rest) = true := by
    simp [noWsStart, hbs]
  have e : ws ++ [b] ++ blanks ++ k ++ rest = ws ++ ([b] ++ blanks ++ k ++ rest) := by simp
  rw [md_matchLine_step, e, trimmed_ws_append ws _ hws hx,
    bulletMatch_keyword _ pre post b blanks k rest hsplit hpre hb hbl hne hk]
  simp only [Md.matchTitle, Option.map_some, lineIndent, indentOf_ws_append ws _ hws hx, Nat.add_assoc]

/-! ### table rows -/

/-- `C19_table_indent`: two to five whitespace code points, then `|` -/
theorem rowIndentOk_iff (l : Str) :
    rowIndentOk l = true ↔
      ∃ ws rest, l = ws ++ 124 :: rest ∧ (∀ c ∈ ws, isSpace c = true) ∧ 2 ≤ ws.length ∧ ws.length ≤ 5 := by
  constructor
  · intro h
    simp only [rowIndentOk, Bool.and_eq_true, decide_eq_true_eq, beq_iff_eq] at h
    obtain ⟨⟨h2, h5⟩, hh⟩ := h
    obtain ⟨e1, e2, e3, e4⟩ := indent_split l
    rw [e4] at hh
    cases hl : lstrip l with
    | nil => rw [hl] at hh; cases hh
    | cons c r =>
      rw [hl] at hh
      simp only [List.head?_cons, Option.some.injEq] at hh
      subst hh
      refine ⟨l.take (indentOf l), r, ?_, e2, by omega, by omega⟩
      rw [← hl]; exact e1
  · rintro ⟨ws, rest, rfl, hws, h2, h5⟩
    have hi := indentOf_ws_append ws (124 :: rest) hws (by simp [noWsStart, isSpace])
    simp only [rowIndentOk, hi, drop_length_append, Bool.and_eq_true, decide_eq_true_eq, beq_iff_eq]
    exact ⟨⟨h2, h5⟩, rfl⟩

theorem takeWhile_dropWhile_append_cons (p : Nat → Bool) (a b : Str) (c : Nat)
    (ha : ∀ x ∈ a, p x = true) (hc : p c = false) :
    (a ++ c :: b).takeWhile p = a ∧ (a ++ c :: b).dropWhile p = c :: b := by
  induction a with
  | nil => simp [hc]
  | cons x xs ih =>
    have hx := ha x (by simp)
    have := ih fun y h => ha y (by simp [h])
    simp [hx, this]

theorem sep_tail (m : Nat) (tl : Str) (htl : ∀ c ∈ tl, (c == 45) = false) :
    (List.replicate m 45 ++ tl).takeWhile (· == 45) = List.replicate m 45 ∧
    (List.replicate m 45 ++ tl).dropWhile (· == 45) = tl :=
  takeWhile_dropWhile_append (· == 45) (List.replicate m 45) tl
    (fun c hc => by simp [(List.mem_replicate.1 hc).2]) htl

/-- the part of `isSeparatorCell` after the optional trailing colon -/
def sepRest (r : Str) : Bool :=
  let r1 := match r with | 58 :: r' => r' | _ => r
  r1 == [] || r1 == [10]

/-- the part of `isSeparatorCell` after the optional leading colon -/
def sepCore (s1 : Str) : Bool :=
  !(s1.takeWhile (· == 45)).isEmpty && sepRest (s1.dropWhile (· == 45))

theorem isSeparatorCell_colon (x : Str) : isSeparatorCell (58 :: x) = sepCore x := rfl

theorem isSeparatorCell_dash (x : Str) : isSeparatorCell (45 :: x) = sepCore (45 :: x) := rfl

theorem isSeparatorCell_eq (s : Str) :
    isSeparatorCell s = sepCore (match s with | 58 :: r => r | _ => s) := rfl

theorem sepCore_replicate (n : Nat) (tl : Str) (htl : ∀ c ∈ tl, (c == 45) = false) :
    sepCore (List.replicate (n + 1) 45 ++ tl) = sepRest tl := by
  obtain ⟨ht, hd⟩ := sep_tail (n + 1) tl htl
  simp only [sepCore, ht, hd]
  simp [List.replicate_succ]

theorem isSeparatorCell_of_shape (s : Str) (h : SeparatorShape s) : isSeparatorCell s = true := by
  obtain ⟨c1, c2, e, n, rfl⟩ := h
  have htl : ∀ c ∈ ((if c2 then [58] else []) ++ (if e then [10] else []) : Str), (c == 45) = false := by
    cases c2 <;> cases e <;> simp
  have hsr : sepRest ((if c2 then [58] else []) ++ (if e then [10] else [])) = true := by
    cases c2 <;> cases e <;> rfl
  have hc1 : ∀ x : Str, isSeparatorCell ((if c1 then [58] else []) ++ (List.replicate (n + 1) 45 ++ x)) =
      sepCore (List.replicate (n + 1) 45 ++ x) := by
    intro x
    cases c1
    · rw [List.replicate_succ]; rfl
    · rfl
  rw [List.append_assoc, List.append_assoc, hc1, sepCore_replicate n _ htl, hsr]

theorem mem_takeWhile_imp {p : Nat → Bool} {l : Str} {c : Nat} (h : c ∈ l.takeWhile p) : p c = true := by
  have := List.all_takeWhile (p := p) (l := l)
  rw [List.all_eq_true] at this
  exact this c h

theorem takeWhile_dash_eq (s1 : Str) :
    s1.takeWhile (· == 45) = List.replicate (s1.takeWhile (· == 45)).length 45 := by
  rw [List.eq_replicate_iff]
  refine ⟨rfl, fun c hc => ?_⟩
  simpa using mem_takeWhile_imp hc

theorem shape_of_isSeparatorCell (s : Str) (h : isSeparatorCell s = true) : SeparatorShape s := by
  rw [isSeparatorCell_eq] at h
  -- the dash run and the tail after it
  have hcore : ∀ s1 : Str, sepCore s1 = true →
      ∃ (c2 e : Bool) (n : Nat), s1 = List.replicate (n + 1) 45 ++ (if c2 then [58] else []) ++
        (if e then [10] else []) := by
    intro s1 h1
    simp only [sepCore, Bool.and_eq_true, Bool.not_eq_true'] at h1
    obtain ⟨hne, hr⟩ := h1
    have hlen : (s1.takeWhile (· == 45)).length ≠ 0 := by
      intro h0
      rw [List.length_eq_zero_iff.mp h0] at hne
      cases hne
    have e1 : (s1.takeWhile (· == 45)).length - 1 + 1 = (s1.takeWhile (· == 45)).length := by omega
    have hs1 : s1 = List.replicate ((s1.takeWhile (· == 45)).length - 1 + 1) 45 ++ s1.dropWhile (· == 45) := by
      rw [e1, ← takeWhile_dash_eq, List.takeWhile_append_dropWhile]
    have htail : ∃ c2 e : Bool, s1.dropWhile (· == 45) = (if c2 then [58] else []) ++ (if e then [10] else []) := by
      generalize s1.dropWhile (· == 45) = r at hr
      simp only [sepRest, Bool.or_eq_true, beq_iff_eq] at hr
      split at hr
      · next r' =>
        rcases hr with rfl | rfl
        · exact ⟨true, false, rfl⟩
        · exact ⟨true, true, rfl⟩
      · rcases hr with rfl | rfl
        · exact ⟨false, false, rfl⟩
        · exact ⟨false, true, rfl⟩
    obtain ⟨c2, e, he⟩ := htail
    refine ⟨c2, e, (s1.takeWhile (· == 45)).length - 1, ?_⟩
    rw [List.append_assoc, ← he]
    exact hs1
  split at h
  · next r =>
    obtain ⟨c2, e, n, hn⟩ := hcore r h
    exact ⟨true, c2, e, n, by rw [hn]; simp⟩
  · obtain ⟨c2, e, n, hn⟩ := hcore s h
    exact ⟨false, c2, e, n, by simpa using hn⟩

theorem isSeparatorCell_iff (s : Str) : isSeparatorCell s = true ↔ SeparatorShape s :=
  ⟨shape_of_isSeparatorCell s, isSeparatorCell_of_shape s⟩

theorem md_matchLine_row (μ : MState) (t : Token) (l : Str) :
    Md.matchLine .TableRow μ t l =
      if rowIndentOk l = true ∧ ∀ c ∈ tableCells l, isSeparatorCell c.2 = false then
        some (some (setMatched μ t .TableRow (keyword := some [124]) (items := tableCells l)))
      else some none := by
  simp only [Md.matchLine]
  by_cases h1 : rowIndentOk l = true
  · rw [if_pos h1]
    by_cases h2 : (tableCells l).any (fun c => isSeparatorCell c.2) = true
    · rw [if_pos h2, if_neg]
      rintro ⟨_, hall⟩
      obtain ⟨c, hc, hs⟩ := List.any_eq_true.1 h2
      rw [hall c hc] at hs; cases hs
    · rw [if_neg h2, if_pos]
      refine ⟨h1, fun c hc => ?_⟩
      cases hs : isSeparatorCell c.2 with
      | false => rfl
      | true => exact absurd (List.any_eq_true.2 ⟨c, hc, hs⟩) h2
  · rw [if_neg h1, if_neg]
    exact fun h => h1 h.1

/-! ### tags -/

/-- shift the offsets of a span list -/
def shiftSpans (n : Nat) (l : List (Nat × Str)) : List (Nat × Str) := l.map fun (p, x) => (p + n, x)

theorem shiftSpans_zero (l : List (Nat × Str)) : shiftSpans 0 l = l := by
  simp [shiftSpans]

theorem shiftSpans_shiftSpans (a b : Nat) (l : List (Nat × Str)) :
    shiftSpans a (shiftSpans b l) = shiftSpans (b + a) l := by
  simp [shiftSpans, List.map_map, Function.comp_def, Nat.add_assoc]

theorem tagSpansAux_shift (s : Str) (pos skip : Nat) :
    tagSpansAux s pos skip = shiftSpans pos (tagSpansAux s 0 skip) := by
  induction s generalizing pos skip with
  | nil => simp [tagSpansAux, shiftSpans]
  | cons c cs ih =>
    cases skip with
    | succ k =>
      simp only [tagSpansAux]
      rw [ih (pos + 1), ih (0 + 1), shiftSpans_shiftSpans]
      congr 1; omega
    | zero =>
      have h0 : ∀ k, tagSpansAux cs (pos + 1) k = shiftSpans pos (tagSpansAux cs (0 + 1) k) := by
        intro k
        rw [ih (pos + 1), ih (0 + 1), shiftSpans_shiftSpans]
        congr 1; omega
      simp only [tagSpansAux]
      split
      · split
        · split
          · rw [h0]; simp [shiftSpans]
          · exact h0 0
        · exact h0 0
      · exact h0 0

theorem tagSpansAux_skip (xs s : Str) (pos : Nat) :
    tagSpansAux (xs ++ s) pos xs.length = tagSpansAux s (pos + xs.length) 0 := by
  induction xs generalizing pos with
  | nil => rfl
  | cons x xs ih =>
    simp only [List.cons_append, List.length_cons, tagSpansAux]
    rw [ih]; congr 1; omega

theorem tagSpans_nil : tagSpans [] = [] := rfl

/-- a complete span at the front is reported with offset 0 and scanning resumes after it -/
theorem tagSpans_span (body post : Str) (hne : body ≠ []) (hb : 96 ∉ body) :
    tagSpans ([96, 64] ++ body ++ [96] ++ post) =
      (0, 64 :: body) :: shiftSpans (body.length + 3) (tagSpans post) := by
  have e : [96, 64] ++ body ++ [96] ++ post = 96 :: 64 :: (body ++ 96 :: post) := by simp
  obtain ⟨ht, hd⟩ := takeWhile_dropWhile_append_cons (· != 96) body post 96
    (fun x hx => by
      have : x ≠ 96 := fun h => hb (h ▸ hx)
      simpa using this) (by simp)
  have hbe : body.isEmpty = false := by cases body with
    | nil => exact absurd rfl hne
    | cons c cs => rfl
  have e2 : 64 :: (body ++ 96 :: post) = (64 :: body ++ [96]) ++ post := by simp
  have hl : (64 :: body ++ [96]).length = body.length + 2 := by simp
  rw [e, tagSpans, tagSpansAux.eq_3]
  simp only [beq_self_eq_true, if_true, ht, hd, hbe, Bool.not_false, List.head?_cons, Bool.and_self]
  rw [e2, ← hl, tagSpansAux_skip, tagSpansAux_shift, hl]
  simp only [tagSpans]
  congr 2
  omega

/-- where no complete span starts, scanning moves on by one code point -/
theorem tagSpans_step (c : Nat) (cs : Str)
    (h : ¬ ∃ body post, body ≠ [] ∧ 96 ∉ body ∧ c :: cs = [96, 64] ++ body ++ [96] ++ post) :
    tagSpans (c :: cs) = shiftSpans 1 (tagSpans cs) := by
  have h0 : tagSpansAux cs (0 + 1) 0 = shiftSpans 1 (tagSpans cs) := by
    rw [tagSpansAux_shift]; rfl
  simp only [tagSpans, tagSpansAux]
  split
  · next hc =>
    split
    · next rest =>
      split
      · next hcond =>
        exfalso
        apply h
        simp only [Bool.and_eq_true, Bool.not_eq_true', beq_iff_eq] at hcond hc
        obtain ⟨hb1, hb2⟩ := hcond
        refine ⟨rest.takeWhile (· != 96), (rest.dropWhile (· != 96)).tail, ?_, ?_, ?_⟩
        · intro h0; rw [h0] at hb1; cases hb1
        · intro hm
          have := mem_takeWhile_imp hm
          simp at this
        · subst hc
          have hdw : rest.dropWhile (· != 96) = 96 :: (rest.dropWhile (· != 96)).tail := by
            cases hd : rest.dropWhile (· != 96) with
            | nil => rw [hd] at hb2; cases hb2
            | cons x xs =>
              rw [hd] at hb2
              simp only [List.head?_cons, Option.some.injEq] at hb2
              rw [hb2]; rfl
          have := (List.takeWhile_append_dropWhile (p := (· != 96)) (l := rest)).symm
          rw [hdw] at this
          simp only [List.cons_append, List.nil_append, List.append_assoc]
          rw [← this]
      · exact h0
    · exact h0
  · exact h0

theorem tagSpansAux_not_backtick (c : Nat) (cs : Str) (pos : Nat) (hc : c ≠ 96) :
    tagSpansAux (c :: cs) pos 0 = tagSpansAux cs (pos + 1) 0 := by
  rw [tagSpansAux.eq_def]
  simp only [beq_iff_eq, hc, if_false]

theorem tagSpansAux_backtick_not_at (cs : Str) (pos : Nat) (h : cs.head? ≠ some 64) :
    tagSpansAux (96 :: cs) pos 0 = tagSpansAux cs (pos + 1) 0 := by
  rw [tagSpansAux.eq_def]
  simp only [beq_self_eq_true, if_true]
  split
  · next rest => exact absurd rfl h
  · rfl

theorem tagSpansAux_pass (c : Nat) (cs : Str) (pos : Nat) (h : c ≠ 96 ∨ cs.head? ≠ some 64) :
    tagSpansAux (c :: cs) pos 0 = tagSpansAux cs (pos + 1) 0 := by
  by_cases hc : c = 96
  · subst hc
    rcases h with h | h
    · exact absurd rfl h
    · exact tagSpansAux_backtick_not_at cs pos h
  · exact tagSpansAux_not_backtick c cs pos hc

/-- a stretch without backtick-`@` in front of an opening backtick is passed over -/
theorem tagSpansAux_pre (pre s : Str) (pos : Nat) (hp : noTagOpen pre = true) :
    tagSpansAux (pre ++ 96 :: s) pos 0 = tagSpansAux (96 :: s) (pos + pre.length) 0 := by
  induction pre generalizing pos with
  | nil => rfl
  | cons c r ih =>
    cases r with
    | nil =>
      simp only [List.cons_append, List.nil_append, List.length_cons, List.length_nil]
      exact tagSpansAux_pass c _ pos (.inr (by simp))
    | cons d r' =>
      simp only [noTagOpen, Bool.and_eq_true, Bool.not_eq_true', Bool.and_eq_false_iff, beq_eq_false_iff_ne] at hp
      have hrec := ih (pos + 1) hp.2
      simp only [List.cons_append, List.length_cons] at hrec ⊢
      rw [tagSpansAux_pass c _ pos (by
        rcases hp.1 with h | h
        · exact .inl h
        · exact .inr (by simpa using h)), hrec]
      congr 1; omega

/-- `C19_tags`: a line of segments yields exactly its spans, in order, each at the offset of its
    opening backtick; scanning then continues in `post` -/
theorem tagSpansAux_render (segs : List (Str × Str)) (post : Str) (off : Nat)
    (h : ∀ x ∈ segs, noTagOpen x.1 = true ∧ x.2 ≠ [] ∧ 96 ∉ x.2) :
    tagSpansAux (renderTagLine segs post) off 0 =
      expectedSpans segs off ++ tagSpansAux post (off + segmentsLength segs) 0 := by
  induction segs generalizing off with
  | nil => simp [renderTagLine, expectedSpans, segmentsLength]
  | cons x r ih =>
    obtain ⟨pre, body⟩ := x
    obtain ⟨hp, hne, hb⟩ := h (pre, body) (by simp)
    have ihr := ih (off + pre.length + body.length + 3) fun y hy => h y (by simp [hy])
    have e : renderTagLine ((pre, body) :: r) post =
        pre ++ 96 :: ([64] ++ body ++ [96] ++ renderTagLine r post) := by
      simp [renderTagLine]
    have hsp := tagSpans_span body (renderTagLine r post) hne hb
    have e2 : 96 :: ([64] ++ body ++ [96] ++ renderTagLine r post) =
        [96, 64] ++ body ++ [96] ++ renderTagLine r post := by simp
    rw [e, tagSpansAux_pre pre _ off hp, e2, tagSpansAux_shift, ← tagSpans, hsp]
    simp only [expectedSpans, segmentsLength, shiftSpans, List.map_cons, List.cons_append, Nat.zero_add]
    congr 1
    have := tagSpansAux_shift (renderTagLine r post) (off + pre.length + body.length + 3) 0
    rw [ihr] at this
    rw [List.map_map]
    simp only [tagSpans]
    have hsh : ((fun (x : Nat × Str) => (x.1 + (off + pre.length), x.2)) ∘
        fun (x : Nat × Str) => (x.1 + (body.length + 3), x.2)) =
        fun (x : Nat × Str) => (x.1 + (off + pre.length + body.length + 3), x.2) := by
      funext x; simp [Nat.add_assoc, Nat.add_comm, Nat.add_left_comm]
    rw [hsh, ← shiftSpans, ← this]
    congr 2
    omega

theorem tagSpans_render (segs : List (Str × Str)) (post : Str)
    (h : ∀ x ∈ segs, noTagOpen x.1 = true ∧ x.2 ≠ [] ∧ 96 ∉ x.2) :
    tagSpans (renderTagLine segs post) =
      expectedSpans segs 0 ++ shiftSpans (segmentsLength segs) (tagSpans post) := by
  rw [tagSpans, tagSpansAux_render segs post 0 h, tagSpansAux_shift post, Nat.zero_add]
  rfl

theorem tagSpans_no_backtick (s : Str) (h : 96 ∉ s) : tagSpans s = [] := by
  induction s with
  | nil => rfl
  | cons c cs ih =>
    rw [tagSpans_step c cs, ih (fun hm => h (by simp [hm]))]
    · rfl
    · rintro ⟨body, post, _, _, heq⟩
      simp only [List.cons_append, List.cons.injEq] at heq
      exact h (by simp [heq.1])

theorem md_matchLine_tags (μ : MState) (t : Token) (l : Str) :
    Md.matchLine .TagLine μ t l =
      if tagSpans (trimmed l) = [] then some none
      else some (some (setMatched μ t .TagLine
        (items := (tagSpans (trimmed l)).map fun (st, tx) => (lineIndent l + st + 2, tx)))) := by
  simp only [Md.matchLine]
  cases h : tagSpans (trimmed l) with
  | nil => simp
  | cons a r => simp

/-! ### lines without the header / bullet prefix; dialects of a checked table -/

/-- `C19_no_prefix_no_match` -/
theorem md_no_prefix (μ : MState) (t : Token) (l : Str) :
    ((trimmed l).head? ≠ some 35 → ∀ ty : Kind, ty.isTitle = true → Md.matchLine ty μ t l = some none) ∧
    ((∀ b r, trimmed l = b :: r → b ≠ 42 ∧ b ≠ 43 ∧ b ≠ 45) → Md.matchLine .StepLine μ t l = some none) := by
  refine ⟨fun hh ty hty => ?_, fun hb => ?_⟩
  · exact md_matchLine_title_none ty hty μ t l (headerMatch_no_hash _ _ hh)
  · rw [md_matchLine_step, bulletMatch_no_bullet _ _ hb]; rfl

theorem md_header_in_table (D : List Dialect) (hf : markdownFacts D = true) (ty : Kind)
    (hty : ty.isTitle = true) (μ : MState) (hμ : μ.dialect ∈ D) (t : Token)
    (ws : Str) (n b : Nat) (k title : Str) (hk : k ∈ μ.dialect.roleKeywords ty)
    (hws : ∀ c ∈ ws, isSpace c = true) (h1 : 1 ≤ n) (h6 : n ≤ 6) (hb : isSpace b = true) :
    Md.matchLine ty μ t (ws ++ List.replicate n 35 ++ [b] ++ k ++ [58] ++ title) =
      some (some (setMatched μ t ty (text := some (strip (dotStar title))) (keyword := some k)
        (indent := some (ws.length + n + 1)))) :=
  md_matchLine_header ty hty μ t ws n b k title hk
    (fun k' hk' => titleColonFree_spec (markdownFacts_spec hf).1 hμ (mem_titleKeywords_of_role _ ty k' hk'))
    hws h1 h6 hb

theorem md_bullet_in_table (D : List Dialect) (hf : markdownFacts D = true) (μ : MState)
    (hμ : μ.dialect ∈ D) (t : Token) (ws : Str) (b : Nat) (blanks k rest : Str)
    (pre post : List Str) (hsplit : μ.dialect.stepKeywords = pre ++ k :: post)
    (hpre : ∀ k' ∈ pre, startsWith k' (k ++ rest) = false)
    (hws : ∀ c ∈ ws, isSpace c = true) (hb : b = 42 ∨ b = 43 ∨ b = 45)
    (hbl : ∀ c ∈ blanks, isSpace c = true) :
    Md.matchLine .StepLine μ t (ws ++ [b] ++ blanks ++ k ++ rest) =
      some (some (setMatched μ t .StepLine (text := some (strip (dotStar rest))) (keyword := some k)
        (indent := some (ws.length + 1 + blanks.length)))) := by
  obtain ⟨_, hps, hne⟩ := markdownFacts_spec hf
  have hkm : k ∈ μ.dialect.stepKeywords := by simp [hsplit]
  exact md_matchLine_bullet μ t ws b blanks k rest pre post hsplit hpre hws hb hbl
    (noEmptyKeyword_spec hne hμ (mem_allKeywords_step hkm))
    fun k' hk' => noWsStart_of_plainStart (keywordsPlainStart_spec hps hμ (mem_allKeywords_step hk'))

end GV.Lemmas
