/-
  Lemmas/LayoutDoc6Doc.lean — case (b) of goal G3 of property C16, whole parse: a comment line
  inserted in a DESCRIPTION-OPENING state (directly after a keyword line), the next line being
  anything but a blank line (or the end of the text).

  Three runs: the first on the original text, the second on the text with the comment line, and a
  hypothetical MIDDLE run — the second run's context with the builder state the second run would
  have without the `Description` node the inserted comment opens.  First and middle run are related
  by the lock-step simulation of Lemmas/LayoutDoc4.lean (`CtxR`: line numbers renamed, the comment
  in the builder's list); middle and second run execute the same program on the same text and differ
  in the builder only (`RD`: extra empty-description items, Lemmas/LayoutDoc6Sim.lean).  The step for
  the line behind the comment joins them (Lemmas/LayoutDoc6Step.lean).
-/
import GherkinVerif.Lemmas.LayoutDoc6Step
namespace GV
namespace Layout6
open Lemmas Spec Layout3 Layout4 Layout5

theorem obs_trans {f : LocMap} {c1 cm c2 : Ctx} (h : CtxObs f c1 cm) (hE : CtxE cm c2) : CtxObs f c1 c2 :=
  ⟨by rw [hE.errors]; exact h.errors, by rw [hE.μ]; exact h.μ, by rw [hE.ids]; exact h.ids,
    by rw [hE.unexpected]; exact h.unexpected⟩

/-- how the main loops of the first and the second run end: alike, with a middle context between them -/
def PostL3 (D : List Dialect) (k : Nat) (x : Comment) (fl : List (Nat × List ANode))
    (x1 x2 : Except Abort Nat × Ctx) : Prop :=
  (∃ a c1' cm' c2', x1 = (.ok a, c1') ∧ x2 = (.ok a, c2') ∧ CtxR D k (some x) c1' cm' ∧ RD (absAt fl a) cm' c2') ∨
  (∃ e c1' c2', x1 = (.error e, c1') ∧ x2 = (.error (mapAbort (insertMap k) e), c2') ∧ CtxObs (insertMap k) c1' c2')

section doc
variable {D : List Dialect} {b : Str} {k : Nat}

/-- `match_token` of a description-opening state against that of its description state -/
theorem stepD_matchToken {T : Table} {fl : List (Nat × List ANode)} (hF : descStacksOk T fl = true)
    (hR : descRowsOk T = true) (stop : Bool) {s : Nat} (hs : commentOpensDescription T s = true) (t : Token)
    (hnb : NotBlank t.line) :
    SimG (R2 (absAt fl (descTarget T s))) (fun _ d d' => CtxD d d') (matchTokenPure D T stop s t)
      (matchTokenPure D T stop (descTarget T s) t) := by
  have hs0 := hs
  unfold commentOpensDescription at hs
  cases hrow : T.row? s with
  | none => rw [hrow] at hs; cases hs
  | some row1 =>
    rw [hrow] at hs
    simp only [] at hs
    cases hfind : commentBranch row1 with
    | none => rw [hfind] at hs; cases hs
    | some b0 =>
      rw [hfind] at hs
      simp only [] at hs
      cases hrow2 : T.row? b0.target with
      | none => rw [hrow2] at hs; simp at hs
      | some row2 =>
        have htgt : descTarget T s = b0.target := by
          unfold descTarget; rw [hrow]; simp only [hfind]
        have hmem : row1 ∈ T.rows := List.mem_of_find?_eq_some hrow
        have hid : row1.id = s := by
          have := List.find?_some hrow
          simpa using this
        unfold descRowsOk at hR
        rw [List.all_eq_true] at hR
        have h1 := hR row1 hmem
        rw [hid, hs0, hfind] at h1
        simp only [Bool.not_true, Bool.false_or, hrow2, Bool.and_eq_true] at h1
        obtain ⟨hrm, hcatch⟩ := h1
        obtain ⟨-, -, -, h4⟩ := descStacksOk_row hF hrow2
        rw [htgt]
        unfold matchTokenPure
        rw [hrow, hrow2]
        simp only []
        exact stepD D T stop row1 row2 _ row1.branches row2.branches hrm
          (fun b hb => by obtain ⟨d, hd, -⟩ := h4 b hb; exact ⟨d, hd⟩) t hnb (catch_of_rowCatches hcatch _)

/-- the second run reads the inserted comment in a description-opening state: it opens a
    `Description`, puts the comment into the builder's list and goes to the description state -/
theorem comment_open (hD : Spec.stepKeywordsOk D = true) (hP : Spec.keywordsPlainStart D = true) {T : Table}
    {r : Str} (hb : trimmed b = 35 :: r) (stop : Bool) {s : Nat} (hs : Spec.commentOpensDescription T s = true)
    (hlang : Spec.languageTested T s = true → languageRe (lineText b none) = none)
    {c1 c2 : Ctx} (hc : CtxR D k none c1 c2) (q : List Str) (hk2 : c2.lineNo = k) :
    ∃ c2a β2x, run (matchTokenPure D T stop s { line := some b, lineNo := c2.lineNo + 1 })
        { c2 with lines := q, lineNo := c2.lineNo + 1, reads := c2.reads ++ [c2.lineNo + 1] } =
          (.ok (Spec.descTarget T s), c2a) ∧
      c2a.β = β2x.startRule .Description ∧
      BRel (insertMap k) k (some ⟨⟨k + 1, some 1⟩, rstripCRLF b⟩) c1.β β2x ∧
      c2a.errors = c2.errors ∧ c2a.μ = c2.μ ∧ c2a.ids = c2.ids ∧ c2a.unexpected = c2.unexpected ∧
      c2a.lines = q ∧ c2a.lineNo = c2.lineNo + 1 := by
  unfold Spec.commentOpensDescription at hs
  unfold Spec.descTarget
  unfold Spec.languageTested at hlang
  cases hrow : T.row? s with
  | none => rw [hrow] at hs; cases hs
  | some row1 =>
    rw [hrow] at hs hlang
    simp only [] at hs hlang ⊢
    have hcb : commentBranch row1 = row1.branches.find? (fun br => passes .Comment br.kind) := rfl
    cases hfind : commentBranch row1 with
    | none => rw [hfind] at hs; cases hs
    | some b0 =>
      rw [hfind] at hs
      simp only [Bool.and_eq_true, beq_iff_eq, Option.isNone_iff_eq_none] at hs ⊢
      obtain ⟨⟨⟨hk0, hg0⟩, hp0⟩, -⟩ := hs
      have hsane : Sane D c2.μ := hc.μ ▸ hc.sane
      have hkw := kwOk_of hD hP hsane
      obtain ⟨n, hn1⟩ := tryBranchesPure_comment_gen (D := D) T stop row1 c2.μ
        (t := { line := some b, lineNo := c2.lineNo + 1 }) rfl hb hkw hsane.1 row1.branches b0
        (hcb ▸ hfind) hk0 hg0
        (fun ⟨br, hbr, hkL⟩ => hlang (by rw [List.any_eq_true]; exact ⟨br, hbr, by rw [hkL]; rfl⟩))
        { c2 with lines := q, lineNo := c2.lineNo + 1, reads := c2.reads ++ [c2.lineNo + 1] } rfl
      obtain ⟨β2x, e2x, hβx⟩ := hc.β.build_extra
        (t := commentTok c2.μ { line := some b, lineNo := c2.lineNo + 1 } b) (tx := rstripCRLF b) rfl rfl
      have hbuild : (c2.β.startRule .Description).build (commentTok c2.μ { line := some b, lineNo := c2.lineNo + 1 } b) =
          .ok (β2x.startRule .Description) := by
        rw [layBuild_comment _ _ rfl] at e2x ⊢
        have ht : (commentTok c2.μ { line := some b, lineNo := c2.lineNo + 1 } b).text = some (rstripCRLF b) := rfl
        rw [ht] at e2x ⊢
        simp only [Except.ok.injEq] at e2x
        rw [← e2x]
        rfl
      refine ⟨{ c2 with lines := q, lineNo := c2.lineNo + 1, reads := c2.reads ++ [c2.lineNo + 1],
                        calls := c2.calls + (n + 1), β := β2x.startRule .Description,
                        builds := c2.builds ++ [commentTok c2.μ { line := some b, lineNo := c2.lineNo + 1 } b] },
        β2x, ?_, rfl, ?_, rfl, rfl, rfl, rfl, rfl, rfl⟩
      · unfold matchTokenPure
        rw [hrow]
        simp only []
        rw [hn1, hp0]
        simp only [runProds, prun_bind, run_runProd, hbuild, prun_pure]
      · rw [hk2] at hβx; exact hβx

variable {T : Table} {ds : List (Nat × Nat)} {fl : List (Nat × List ANode)}

/-- the step for the token behind the inserted comment, three runs -/
theorem step3 (hD : Spec.stepKeywordsOk D = true) (hP : Spec.keywordsPlainStart D = true) (hT : TableOkC T ds)
    (hF : descStacksOk T fl = true) (hR : descRowsOk T = true) {r : Str} (hb : trimmed b = 35 :: r) (stop : Bool)
    {s : Nat} (hs : commentOpensDescription T s = true) (x : Comment) {t1 t2 : Token} (ht : TokIns k t1 t2)
    (hln : k < t1.lineNo) (hnb : NotBlank t2.line) (c1 cm c2 : Ctx) (hc : CtxR D k (some x) c1 cm)
    (hl : LinesIns b k c1.lines c1.lineNo cm.lines cm.lineNo) (hd : c1.β.stack.length = depthAt ds s)
    (h2 : R2 (absAt fl (descTarget T s)) cm c2) :
    (∃ s1 c1s cms c2s, run (matchTokenPure D T stop s t1) c1 = (.ok s1, c1s) ∧
      run (matchTokenPure D T stop (descTarget T s) t2) c2 = (.ok s1, c2s) ∧ CtxR D k (some x) c1s cms ∧
      RD (absAt fl s1) cms c2s ∧ Frame c1 c1s ∧ Frame cm cms ∧ c1s.β.stack.length = depthAt ds s1) ∨
    (∃ e c1' c2', run (matchTokenPure D T stop s t1) c1 = (.error e, c1') ∧
      run (matchTokenPure D T stop (descTarget T s) t2) c2 = (.error (mapAbort (insertMap k) e), c2') ∧
      CtxObs (insertMap k) c1' c2') := by
  have hsim := csim_matchTokenPure hD hP hT hb stop s ht (xo := some x) hln c1 cm hc hl hd
  have hstep := stepD_matchToken (D := D) hF hR stop hs t2 hnb cm c2 h2
  rcases hsim with ⟨s1, s2, c1s, cms, e1, e2, hs12, hcs, f1, f2⟩ | ⟨e, c1', cm', e1, e2, hc'⟩
  · subst hs12
    rw [e2] at hstep
    rcases hr2 : run (matchTokenPure D T stop (descTarget T s) t2) c2 with ⟨r2, c2s⟩
    rw [hr2] at hstep
    cases r2 with
    | error e => simp only [PostG] at hstep
    | ok s2 =>
      simp only [PostG] at hstep
      obtain ⟨h21, hD'⟩ := hstep
      rw [h21] at hr2 ⊢
      exact .inl ⟨s1, c1s, cms, c2s, e1, rfl, hcs,
        ⟨hD', stackA_matchTokenPure D hF stop _ t2 c2 s1 c2s h2.2.2 hr2⟩, f1, f2,
        depth_matchTokenPure D hT.depths stop s t1 c1 s1 c1s hd e1⟩
  · rw [e2] at hstep
    rcases hr2 : run (matchTokenPure D T stop (descTarget T s) t2) c2 with ⟨r2, c2'⟩
    rw [hr2] at hstep
    cases r2 with
    | ok s2 => simp only [PostG] at hstep
    | error e' =>
      simp only [PostG] at hstep
      obtain ⟨rfl, hE⟩ := hstep
      exact .inr ⟨e, c1', c2', e1, rfl, obs_trans hc'.obs hE⟩

/-- the rest of the main loop, three runs -/
theorem rest3 (hD : Spec.stepKeywordsOk D = true) (hP : Spec.keywordsPlainStart D = true) (hT : TableOkC T ds)
    (hF : descStacksOk T fl = true) {r : Str} (hb : trimmed b = 35 :: r) (stop : Bool) (x : Comment)
    (fuel s : Nat) (c1 cm c2 : Ctx) (hc : CtxR D k (some x) c1 cm) (hrd : RD (absAt fl s) cm c2)
    (hls : cm.lines = c1.lines) (hn : cm.lineNo = c1.lineNo + 1) (hk : k ≤ c1.lineNo)
    (hd : c1.β.stack.length = depthAt ds s) :
    PostL3 D k x fl (run (parseLinesPure D T stop fuel s) c1) (run (parseLinesPure D T stop fuel s) c2) := by
  have hsim := simD_lines D hF stop fuel s cm c2 hrd
  rcases csim_rest hD hP hT hb stop x fuel s c1 cm hc hls hn hk hd with
    ⟨a, d1, dm, q1, q2, hq, -⟩ | ⟨e, d1, dm, q1, q2, xo', hq⟩
  · rw [q2] at hsim
    rcases hr2 : run (parseLinesPure D T stop fuel s) c2 with ⟨r2, d2⟩
    rw [hr2] at hsim
    cases r2 with
    | error e => simp only [PostG] at hsim
    | ok a2 =>
      simp only [PostG] at hsim
      obtain ⟨h21, hq2⟩ := hsim
      rw [q1, h21]
      exact .inl ⟨a, d1, dm, d2, rfl, rfl, hq, hq2⟩
  · rw [q2] at hsim
    rcases hr2 : run (parseLinesPure D T stop fuel s) c2 with ⟨r2, d2⟩
    rw [hr2] at hsim
    cases r2 with
    | ok a2 => simp only [PostG] at hsim
    | error e' =>
      simp only [PostG] at hsim
      obtain ⟨rfl, hE⟩ := hsim
      rw [q1]
      exact .inr ⟨e, d1, d2, rfl, rfl, obs_trans hq.obs hE⟩

/-- from the description-opening state on: the first run reads the next token in state `s`, the second
    (having read the comment) in the description state -/
theorem lines3_from (hD : Spec.stepKeywordsOk D = true) (hP : Spec.keywordsPlainStart D = true) (hT : TableOkC T ds)
    (hF : descStacksOk T fl = true) (hR : descRowsOk T = true) {r : Str} (hb : trimmed b = 35 :: r) (stop : Bool)
    {s : Nat} (hs : commentOpensDescription T s = true) (x : Comment) (fuel : Nat) (c1 c2a : Ctx) (β2x : BState)
    (hc : CtxR D k (some x) c1 (withB c2a β2x)) (hβ : c2a.β = β2x.startRule .Description)
    (hA : StackA c2a.β.stack (absAt fl (descTarget T s))) (hls : c2a.lines = c1.lines)
    (hn : c2a.lineNo = c1.lineNo + 1) (hk : k ≤ c1.lineNo) (hd : c1.β.stack.length = depthAt ds s)
    (hnb : NotBlank c1.lines.head?) :
    PostL3 D k x fl (run (parseLinesPure D T stop (fuel + 1) s) c1)
      (run (parseLinesPure D T stop (fuel + 1) (descTarget T s)) c2a) := by
  cases h1 : c1.lines with
  | nil =>
    have h2 : c2a.lines = [] := by rw [hls, h1]
    rw [run_lines_nil T stop _ s c1 h1, run_lines_nil T stop _ _ c2a h2, hn]
    have ht : TokIns k { line := none, lineNo := c1.lineNo + 1 } { line := none, lineNo := c1.lineNo + 1 + 1 } := by
      unfold TokIns reNo; simp only [insertMap_ln_gt k (show k < c1.lineNo + 1 by omega)]
    rcases step3 hD hP hT hF hR hb stop hs x ht (show k < c1.lineNo + 1 by omega) (fun l hl => by cases hl)
        { c1 with lineNo := c1.lineNo + 1, reads := c1.reads ++ [c1.lineNo + 1] }
        (withB { c2a with lineNo := c1.lineNo + 1 + 1, reads := c2a.reads ++ [c1.lineNo + 1 + 1] } β2x)
        { c2a with lineNo := c1.lineNo + 1 + 1, reads := c2a.reads ++ [c1.lineNo + 1 + 1] }
        ⟨hc.errors, hc.μ, hc.β, hc.ids, hc.unexpected, hc.sane⟩
        (.inr ⟨rfl, by simp only; omega, by simp only [withB]; rw [hls]⟩) hd
        ⟨⟨rfl, rfl, rfl, rfl, rfl, rfl⟩, hβ, hA⟩ with
      ⟨s1, c1s, cms, c2s, e1, e2, hcs, hrd, -, -, -⟩ | ⟨e, c1', c2', e1, e2, ho⟩
    · rw [e1, e2]
      exact .inl ⟨s1, c1s, cms, c2s, rfl, rfl, hcs, hrd⟩
    · rw [e1, e2]
      exact .inr ⟨e, c1', c2', rfl, rfl, ho⟩
  | cons l ls =>
    have h2 : c2a.lines = l :: ls := by rw [hls, h1]
    rw [run_lines_cons T stop _ s c1 h1, run_lines_cons T stop _ _ c2a h2, hn]
    have ht : TokIns k { line := some l, lineNo := c1.lineNo + 1 } { line := some l, lineNo := c1.lineNo + 1 + 1 } := by
      unfold TokIns reNo; simp only [insertMap_ln_gt k (show k < c1.lineNo + 1 by omega)]
    have hnb' : NotBlank (some l) := by rw [h1] at hnb; exact hnb
    rcases step3 hD hP hT hF hR hb stop hs x ht (show k < c1.lineNo + 1 by omega) hnb'
        { c1 with lines := ls, lineNo := c1.lineNo + 1, reads := c1.reads ++ [c1.lineNo + 1] }
        (withB { c2a with lines := ls, lineNo := c1.lineNo + 1 + 1, reads := c2a.reads ++ [c1.lineNo + 1 + 1] } β2x)
        { c2a with lines := ls, lineNo := c1.lineNo + 1 + 1, reads := c2a.reads ++ [c1.lineNo + 1 + 1] }
        ⟨hc.errors, hc.μ, hc.β, hc.ids, hc.unexpected, hc.sane⟩
        (.inr ⟨rfl, by simp only; omega, rfl⟩) hd
        ⟨⟨rfl, rfl, rfl, rfl, rfl, rfl⟩, hβ, hA⟩ with
      ⟨s1, c1s, cms, c2s, e1, e2, hcs, hrd, f1, fm, hd1⟩ | ⟨e, c1', c2', e1, e2, ho⟩
    · rw [e1, e2]
      simp only []
      exact rest3 hD hP hT hF hb stop x fuel s1 c1s cms c2s hcs hrd (by rw [fm.1, f1.1]; rfl)
        (by rw [fm.2, f1.2]; rfl) (by rw [f1.2]; simp only; omega) hd1
    · rw [e1, e2]
      exact .inr ⟨e, c1', c2', rfl, rfl, ho⟩

/-- the main loops of the two runs, comment inserted in a description-opening state -/
theorem csim_lines3 (hD : Spec.stepKeywordsOk D = true) (hP : Spec.keywordsPlainStart D = true) (hT : TableOkC T ds)
    (hF : descStacksOk T fl = true) (hR : descRowsOk T = true) {r : Str} (hb : trimmed b = 35 :: r)
    (stop : Bool) (pre post : List Str) {c1 c2 : Ctx} (hc : CtxR D pre.length none c1 c2)
    (h1 : c1.lines = pre ++ post) (h2 : c2.lines = pre ++ b :: post) (hn1 : c1.lineNo = 0) (hn2 : c2.lineNo = 0)
    (hd : c1.β.stack.length = depthAt ds 0) (hA : StackA c2.β.stack (absAt fl 0))
    (hst : ∀ s flag c, run (parsePrefixPure D T stop pre.length 0) c1 = (.ok (s, flag), c) →
      (Spec.languageTested T s = true → languageRe (lineText b none) = none) ∧
      Spec.commentOpensDescription T s = true ∧ NotBlank c.lines.head?) :
    PostL3 D pre.length ⟨⟨pre.length + 1, some 1⟩, rstripCRLF b⟩ fl
      (run (parseLinesPure D T stop ((pre ++ post).length + 2) 0) c1)
      (run (parseLinesPure D T stop ((pre ++ b :: post).length + 2) 0) c2) := by
  have e1 : (pre ++ post).length + 2 = pre.length + (post.length + 2) := by simp; omega
  have e2 : (pre ++ b :: post).length + 2 = pre.length + (post.length + 2 + 1) := by simp; omega
  rw [e1, e2, parseLinesPure_split, parseLinesPure_split, prun_bind, prun_bind]
  rcases csim_prefix hD hP hT hb stop post pre 0 c1 c2 hc h1 h2 (by rw [hn1, hn2]) (by rw [hn1]; simp) hd with
    ⟨a, c1', c2', r1, r2, hc', hflag, hl1, hl2, hno1, hno2, hd'⟩ | ⟨e, c1', c2', r1, r2, xo', hc'⟩
  · obtain ⟨hlang, hs, hnb⟩ := hst a.1 a.2 c1' r1
    have hA' : StackA c2'.β.stack (absAt fl a.1) := stackA_prefix D hF stop pre.length 0 c2 a c2' hA r2
    rw [r1, r2]
    simp only [hflag, Bool.false_eq_true, if_false]
    obtain ⟨c2a, β2x, hrun, hβ, hβx, he, hμ, hi, hu, hla, hna⟩ := comment_open hD hP hb stop hs hlang hc' post hno2
    rw [run_lines_cons T stop (post.length + 2) a.1 c2' hl2, hrun]
    simp only []
    have hA2 : StackA c2a.β.stack (absAt fl (descTarget T a.1)) :=
      stackA_matchTokenPure D hF stop a.1 _ _ _ c2a (by exact hA') hrun
    exact lines3_from hD hP hT hF hR hb stop hs _ (post.length + 1) c1' c2a β2x
      ⟨by simp only [withB]; rw [he]; exact hc'.errors, by simp only [withB]; rw [hμ]; exact hc'.μ, hβx,
        by simp only [withB]; rw [hi]; exact hc'.ids, by simp only [withB]; rw [hu]; exact hc'.unexpected, hc'.sane⟩
      hβ hA2 (by rw [hla, hl1]) (by rw [hna, hno2, hno1]) (by rw [hno1]; exact Nat.le_refl _) hd' hnb
  · rw [r1, r2]
    exact .inr ⟨e, c1', c2', rfl, rfl, hc'.obs⟩

/-- the end of `parse` for two runs related by `CtxR` (the second half of `Layout5.csim_body2`) -/
theorem tail_csim (stop : Bool) {c1' c2' : Ctx} (hc' : CtxR D k (some ⟨⟨k + 1, some 1⟩, rstripCRLF b⟩) c1' c2') :
    (∃ d e1' e2', run (bodyTail T stop) c1' = (.ok d, e1') ∧
      run (bodyTail T stop) c2' =
        (.ok { feature := d.feature.map (mapFeature (insertMap k)),
               comments := (d.comments.map (mapComment (insertMap k))).takeWhile
                   (fun c => decide (c.loc.line ≤ k)) ++
                 ⟨⟨k + 1, some 1⟩, rstripCRLF b⟩ ::
                 (d.comments.map (mapComment (insertMap k))).dropWhile
                   (fun c => decide (c.loc.line ≤ k)) }, e2') ∧
      CtxObs (insertMap k) e1' e2') ∨
    (∃ e e1' e2', run (bodyTail T stop) c1' = (.error e, e1') ∧
      run (bodyTail T stop) c2' = (.error (mapAbort (insertMap k) e), e2') ∧
      CtxObs (insertMap k) e1' e2') := by
  unfold bodyTail
  rw [prun_bind, prun_bind, run_runProd, run_runProd]
  simp only []
  rw [hc'.ids]
  obtain ⟨q1, q2, -, hres⟩ := hc'.β.endRule_result c1'.ids
  rw [q1, q2]
  have ho : CtxObs (insertMap k)
      { c1' with β := (c1'.β.endRule c1'.ids).2.1, ids := (c1'.β.endRule c1'.ids).2.2 }
      { c2' with β := (c2'.β.endRule c1'.ids).2.1, ids := (c1'.β.endRule c1'.ids).2.2 } :=
    ⟨hc'.errors, hc'.μ, rfl, hc'.unexpected⟩
  rcases liftB_obs T.errorCap stop (c1'.β.endRule c1'.ids).1 ho with
    ⟨d1, d2, p1, p2, hod, hb1, hb2⟩ | ⟨a', d1, d2, p1, p2, hod⟩
  · rw [p1, p2]
    simp only []
    rw [prun_bind, prun_bind, run_get, run_get]
    simp only []
    have hemp : d2.errors.isEmpty = d1.errors.isEmpty := by rw [hod.errors]; simp
    rw [hemp]
    by_cases he : (!d1.errors.isEmpty) = true
    · rw [if_pos he, if_pos he, prun_bind, prun_bind, prun_throw, prun_throw]
      refine .inr ⟨_, _, _, rfl, ?_, hod⟩
      simp only [mapAbort, hod.errors]
    · rw [if_neg he, if_neg he, hb1, hb2]
      simp only []
      rcases hres with ⟨z1, z2⟩ | ⟨x1, x2, z1, z2, hf, hcm⟩
      · rw [z1, z2]
        exact .inr ⟨_, _, _, rfl, rfl, hod⟩
      · rw [z1, z2]
        refine .inl ⟨x1, d1, d2, rfl, ?_, hod⟩
        have : x2 = Doc.mk (x1.feature.map (mapFeature (insertMap k)))
            ((x1.comments.map (mapComment (insertMap k))).takeWhile
                (fun c => decide (c.loc.line ≤ k)) ++
              ⟨⟨k + 1, some 1⟩, rstripCRLF b⟩ ::
              (x1.comments.map (mapComment (insertMap k))).dropWhile
                (fun c => decide (c.loc.line ≤ k))) := by
          cases x2 with
          | mk ft cm =>
            simp only at hf hcm
            rw [hf, commRel_insert hcm]
        rw [this]
        rfl
  · rw [p1, p2]
    exact .inr ⟨_, _, _, rfl, rfl, hod⟩

theorem csim_body3 (hD : Spec.stepKeywordsOk D = true) (hP : Spec.keywordsPlainStart D = true) (hT : TableOkC T ds)
    (hF : descStacksOk T fl = true) (hR : descRowsOk T = true) {r : Str} (hb : trimmed b = 35 :: r)
    (stop : Bool) (pre post : List Str) {c1 c2 : Ctx}
    (hc : CtxR D pre.length none { c1 with β := c1.β.startRule T.startRule } { c2 with β := c2.β.startRule T.startRule })
    (h1 : c1.lines = pre ++ post) (h2 : c2.lines = pre ++ b :: post) (hn1 : c1.lineNo = 0) (hn2 : c2.lineNo = 0)
    (hd : (c1.β.startRule T.startRule).stack.length = depthAt ds 0)
    (hA : StackA (c2.β.startRule T.startRule).stack (absAt fl 0))
    (hst : ∀ s flag c, run (parsePrefixPure D T stop pre.length 0) { c1 with β := c1.β.startRule T.startRule } =
      (.ok (s, flag), c) →
      (Spec.languageTested T s = true → languageRe (lineText b none) = none) ∧
      Spec.commentOpensDescription T s = true ∧ NotBlank c.lines.head?) :
    (∃ d c1' c2', run (parseBodyPure D T stop (pre ++ post).length) c1 = (.ok d, c1') ∧
      run (parseBodyPure D T stop (pre ++ b :: post).length) c2 =
        (.ok { feature := d.feature.map (mapFeature (insertMap pre.length)),
               comments := (d.comments.map (mapComment (insertMap pre.length))).takeWhile
                   (fun c => decide (c.loc.line ≤ pre.length)) ++
                 ⟨⟨pre.length + 1, some 1⟩, rstripCRLF b⟩ ::
                 (d.comments.map (mapComment (insertMap pre.length))).dropWhile
                   (fun c => decide (c.loc.line ≤ pre.length)) }, c2') ∧
      CtxObs (insertMap pre.length) c1' c2') ∨
    (∃ e c1' c2', run (parseBodyPure D T stop (pre ++ post).length) c1 = (.error e, c1') ∧
      run (parseBodyPure D T stop (pre ++ b :: post).length) c2 = (.error (mapAbort (insertMap pre.length) e), c2') ∧
      CtxObs (insertMap pre.length) c1' c2') := by
  rw [parseBodyPure_eq, parseBodyPure_eq, prun_bind, prun_bind, run_modify, run_modify]
  simp only []
  rw [prun_bind, prun_bind]
  rcases csim_lines3 hD hP hT hF hR hb stop pre post hc h1 h2 hn1 hn2 hd hA hst with
    ⟨a, c1', cm', c2', r1, r2, hc', hrd⟩ | ⟨e, c1', c2', r1, r2, ho⟩
  · rw [r1, r2]
    simp only []
    have hsim := simD_bodyTail T stop (absAt fl a) (topOkA_absAt hF a) cm' c2' hrd
    rcases tail_csim (T := T) stop hc' with ⟨d, e1', em', p1, pm, hod⟩ | ⟨e, e1', em', p1, pm, hod⟩
    · rw [pm] at hsim
      rcases hr2 : run (bodyTail T stop) c2' with ⟨x2, e2'⟩
      rw [hr2] at hsim
      cases x2 with
      | error e => simp only [PostG] at hsim
      | ok d2 =>
        simp only [PostG] at hsim
        obtain ⟨rfl, hE⟩ := hsim
        exact .inl ⟨d, e1', e2', p1, rfl, obs_trans hod hE⟩
    · rw [pm] at hsim
      rcases hr2 : run (bodyTail T stop) c2' with ⟨x2, e2'⟩
      rw [hr2] at hsim
      cases x2 with
      | ok d2 => simp only [PostG] at hsim
      | error e2 =>
        simp only [PostG] at hsim
        obtain ⟨rfl, hE⟩ := hsim
        exact .inr ⟨e, e1', e2', p1, rfl, obs_trans hod hE⟩
  · rw [r1, r2]
    exact .inr ⟨_, _, _, rfl, rfl, ho⟩

end doc

/-- **Whole queue-free parse**, comment line inserted in a description-opening state (or behind an
    abort of the original run). -/
theorem parseWithPure_comment3 {D : List Dialect} (hD : Spec.stepKeywordsOk D = true)
    (hP : Spec.keywordsPlainStart D = true) {T : Table} {ds : List (Nat × Nat)} (hT : TableOkC T ds)
    {fl : List (Nat × List ANode)} (hF : descStacksOk T fl = true) (hR : descRowsOk T = true)
    {b : Str} (hb : lineStartsWith b [35] = true) (stop : Bool) (μ : MState) (ids : Nat) {src src' : Str}
    (pre post : List Str) (h1 : splitLines src = pre ++ post) (h2 : splitLines src' = pre ++ b :: post)
    (hμ : (μ.reset D).dialect ∈ D)
    (hst : ∀ s c, Spec.runAfter D T stop μ ids src pre.length = some (s, c) →
      (Spec.languageTested T s = true → languageRe (lineText b none) = none) ∧
      Spec.commentOpensDescription T s = true ∧ NotBlank c.lines.head?) :
    (parseWithPure D T stop μ ids src').1 =
      insertComment pre.length ⟨⟨pre.length + 1, some 1⟩, rstripCRLF b⟩
        (mapOutcome (insertMap pre.length) (parseWithPure D T stop μ ids src).1) ∧
    CtxObs (insertMap pre.length) (parseWithPure D T stop μ ids src).2 (parseWithPure D T stop μ ids src').2 := by
  obtain ⟨r, hr⟩ := (startsWith_iff _ _).1 (show startsWith [35] (trimmed b) = true from hb)
  have hbr : trimmed b = 35 :: r := hr
  unfold parseWithPure
  simp only []
  rw [h1, h2]
  have h0 : depthAt ds 0 = 2 := by
    have := hT.depths
    unfold Spec.depthsOk at this
    simp only [Bool.and_eq_true, beq_iff_eq] at this
    exact this.1
  have hc0 : CtxR D pre.length none
      { ({ lines := pre ++ post, μ := μ.reset D, β := BState.reset, ids := ids } : Ctx) with
        β := BState.reset.startRule T.startRule }
      { ({ lines := pre ++ b :: post, μ := μ.reset D, β := BState.reset, ids := ids } : Ctx) with
        β := BState.reset.startRule T.startRule } :=
    ⟨rfl, rfl, BRel.start0 _ _, rfl, rfl, ⟨(by intro sep hsep; unfold MState.reset at hsep; cases hsep), hμ⟩⟩
  have hst' : ∀ s flag c, run (parsePrefixPure D T stop pre.length 0)
      { ({ lines := pre ++ post, μ := μ.reset D, β := BState.reset, ids := ids } : Ctx) with
        β := BState.reset.startRule T.startRule } = (.ok (s, flag), c) →
      (Spec.languageTested T s = true → languageRe (lineText b none) = none) ∧
      Spec.commentOpensDescription T s = true ∧ NotBlank c.lines.head? := by
    intro s flag c hrun
    refine hst s c ?_
    unfold Spec.runAfter Spec.startCtx
    rw [h1]
    unfold run at hrun
    rw [hrun]
  rcases csim_body3 hD hP hT hF hR hbr stop pre post hc0 rfl rfl rfl rfl (by rw [h0]; rfl) (stackA_start T hF) hst' with
    ⟨d, c1', c2', r1, r2, hc'⟩ | ⟨e, c1', c2', r1, r2, hc'⟩
  · unfold run at r1 r2
    rw [r1, r2]
    exact ⟨rfl, hc'⟩
  · unfold run at r1 r2
    rw [r1, r2]
    cases e <;> exact ⟨rfl, hc'⟩

theorem notBlank_of_check {D : List Dialect} {T : Table} {stop : Bool} {μ : MState} {ids : Nat} {src : Str} {k s : Nat}
    {c : Ctx} (hra : Spec.runAfter D T stop μ ids src k = some (s, c))
    (h : Spec.nextLineNotBlank D T stop μ ids src k = true) : NotBlank c.lines.head? := by
  unfold Spec.nextLineNotBlank at h
  rw [hra] at h
  simp only at h
  intro l hl
  cases hls : c.lines with
  | nil => rw [hls] at hl; cases hl
  | cons l' ls =>
    rw [hls] at h hl
    simp only [List.head?_cons, Option.some.injEq] at hl
    subst hl
    simpa using h

/-- **Whole queue-free parse**, all cases: the state in which the original run stands where the
    comment is inserted has a comment test that builds and stays, or opens the description and the
    next line is not blank (or the text ends). -/
theorem parseWithPure_comment_all {D : List Dialect} (hD : Spec.stepKeywordsOk D = true)
    (hP : Spec.keywordsPlainStart D = true) {T : Table} {ds : List (Nat × Nat)} (hT : TableOkC T ds)
    {fl : List (Nat × List ANode)} (hF : descStacksOk T fl = true) (hR : descRowsOk T = true)
    {b : Str} (hb : lineStartsWith b [35] = true) (stop : Bool) (μ : MState) (ids : Nat) {src src' : Str}
    (pre post : List Str) (h1 : splitLines src = pre ++ post) (h2 : splitLines src' = pre ++ b :: post)
    (hμ : (μ.reset D).dialect ∈ D)
    (hst : ∀ s, Spec.stateAfter D T stop μ ids src pre.length = some s →
      (Spec.languageTested T s = true → languageRe (lineText b none) = none) ∧
      (Spec.commentSelfLoop T s = true ∨
        (Spec.commentOpensDescription T s = true ∧ Spec.nextLineNotBlank D T stop μ ids src pre.length = true))) :
    (parseWithPure D T stop μ ids src').1 =
      insertComment pre.length ⟨⟨pre.length + 1, some 1⟩, rstripCRLF b⟩
        (mapOutcome (insertMap pre.length) (parseWithPure D T stop μ ids src).1) ∧
    CtxObs (insertMap pre.length) (parseWithPure D T stop μ ids src).2 (parseWithPure D T stop μ ids src').2 := by
  cases hra : Spec.runAfter D T stop μ ids src pre.length with
  | none =>
    exact parseWithPure_comment2 hD hP hT hb stop μ ids pre post h1 h2 hμ fun s c hr => by rw [hra] at hr; cases hr
  | some sc =>
    obtain ⟨s, c⟩ := sc
    obtain ⟨hlang, hpos⟩ := hst s (by unfold Spec.stateAfter; rw [hra]; rfl)
    rcases hpos with hself | ⟨hs, hnb⟩
    · refine parseWithPure_comment2 hD hP hT hb stop μ ids pre post h1 h2 hμ fun s' c' hr => ?_
      rw [hra] at hr
      simp only [Option.some.injEq, Prod.mk.injEq] at hr
      obtain ⟨rfl, rfl⟩ := hr
      exact ⟨hlang, .inl hself⟩
    · refine parseWithPure_comment3 hD hP hT hF hR hb stop μ ids pre post h1 h2 hμ fun s' c' hr => ?_
      have hnb' := notBlank_of_check hra hnb
      rw [hra] at hr
      simp only [Option.some.injEq, Prod.mk.injEq] at hr
      obtain ⟨rfl, rfl⟩ := hr
      exact ⟨hlang, hs, hnb'⟩

/-- **Inserting a comment line**, all cases; generic in the dialect table and the transition table. -/
theorem comment_line_parseWith3 {D : List Dialect} {T : Table} (hD : Spec.stepKeywordsOk D = true)
    (hQD : Spec.queueDialectFacts D = true) (hQT : Spec.queueFacts T = true)
    (hCB : Spec.commentBlankTested T = true) {ds : List (Nat × Nat)} (hT : TableOkC T ds)
    {fl : List (Nat × List ANode)} (hF : descStacksOk T fl = true) (hR : descRowsOk T = true)
    {b : Str} (hb : lineStartsWith b [35] = true) (stop : Bool) (μ : MState) (ids : Nat)
    {src src' : Str} (pre post : List Str)
    (h1 : splitLines src = pre ++ post) (h2 : splitLines src' = pre ++ b :: post)
    (hμ : (μ.reset D).dialect ∈ D)
    (hst : ∀ s, Spec.stateAfter D T stop μ ids src pre.length = some s →
      (Spec.languageTested T s = true → languageRe (lineText b none) = none) ∧
      (Spec.commentSelfLoop T s = true ∨
        (Spec.commentOpensDescription T s = true ∧ Spec.nextLineNotBlank D T stop μ ids src pre.length = true))) :
    (parseWith D T stop μ ids src').1 =
      insertComment pre.length ⟨⟨pre.length + 1, some 1⟩, rstripCRLF b⟩
        (mapOutcome (insertMap pre.length) (parseWith D T stop μ ids src).1) ∧
    CtxObs (insertMap pre.length) (parseWith D T stop μ ids src).2 (parseWith D T stop μ ids src').2 := by
  obtain ⟨ho, hc⟩ := parseWithPure_comment_all hD hQD hT hF hR hb stop μ ids pre post h1 h2 hμ hst
  have q1 := queue_refines_peek D T hQD hQT hCB stop μ ids src hμ
  have q2 := queue_refines_peek D T hQD hQT hCB stop μ ids src' hμ
  have o1 := congrArg Spec.Observed.outcome q1
  have o2 := congrArg Spec.Observed.outcome q2
  have e1 := congrArg Spec.Observed.errors q1
  have e2 := congrArg Spec.Observed.errors q2
  have m1 := congrArg Spec.Observed.μ q1
  have m2 := congrArg Spec.Observed.μ q2
  have i1 := congrArg Spec.Observed.ids q1
  have i2 := congrArg Spec.Observed.ids q2
  have u1 := congrArg Spec.Observed.unexpected q1
  have u2 := congrArg Spec.Observed.unexpected q2
  simp only [Spec.observe] at o1 o2 e1 e2 m1 m2 i1 i2 u1 u2
  refine ⟨by rw [o1, o2]; exact ho, ?_, ?_, ?_, ?_⟩
  · rw [e1, e2]; exact hc.errors
  · rw [m1, m2]; exact hc.μ
  · rw [i1, i2]; exact hc.ids
  · rw [u1, u2]; exact hc.unexpected

end Layout6
end GV
