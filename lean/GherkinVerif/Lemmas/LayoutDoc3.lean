/-
  Lemmas/LayoutDoc3.lean — property C16, whole document: inserting a whitespace-only line changes
  only line numbers.

  A lock-step simulation of two runs of the QUEUE-FREE parse (`Spec.parseWithPure`): the original
  text, whose physical lines are `pre ++ post`, and the text with the blank line `b` inserted,
  `pre ++ b :: post`.  With `f = insertMap pre.length` the contexts stay related by `CtxRest`: error
  list, builder state (Lemmas/LayoutDoc3Builder.lean) and ghost list `unexpected` of the second
  run are the `f`-images of those of the first; matcher state and id counter are equal.  A
  look-ahead of the second run that comes across `b` skips it (`lookaheadsSkipEmpty`); the main
  loop of the second run reads `b` as `Empty` in the state in which the first run stands after
  `pre` and comes back to that state (`emptyFirst`, `emptySelfLoop`).  The result is transferred to
  the parser with the token queue by `queue_refines_peek` (property C18).
-/
import GherkinVerif.Lemmas.LayoutDoc3Builder
import GherkinVerif.Lemmas.QueuePureLoop
import GherkinVerif.Spec.PrefixRun
import GherkinVerif.Lemmas.LayoutDoc3Depth
namespace GV
namespace Layout3
open Lemmas Spec

/-! ### error messages determine line, column and body -/

theorem natToStr_digit (n : Nat) : ∀ c ∈ natToStr n, 48 ≤ c ∧ c ≤ 57 := by
  intro c hc
  unfold natToStr at hc
  obtain ⟨ch, hch, rfl⟩ := List.mem_map.1 hc
  have hd : ch ∈ Nat.toDigits 10 n := by
    have : (toString n).toList = Nat.toDigits 10 n := by
      rw [Nat.toString_eq_repr, Nat.toList_repr]
    rw [← this]; exact hch
  have := Nat.isDigit_of_mem_toDigits (by decide) (by decide) hd
  simp only [Char.isDigit, Bool.and_eq_true, decide_eq_true_eq] at this
  exact this

theorem natToStr_inj {a b : Nat} (h : natToStr a = natToStr b) : a = b := by
  unfold natToStr at h
  have e : ∀ n : Nat, (toString n).toList = Nat.toDigits 10 n := fun n => by
    rw [Nat.toString_eq_repr, Nat.toList_repr]
  rw [e, e] at h
  have minj : ∀ (l1 l2 : List Char), l1.map Char.toNat = l2.map Char.toNat → l1 = l2 := by
    intro l1
    induction l1 with
    | nil => intro l2 h; cases l2 with
      | nil => rfl
      | cons _ _ => simp at h
    | cons x l1 ih =>
      intro l2 h
      cases l2 with
      | nil => simp at h
      | cons y l2 =>
        simp only [List.map_cons, List.cons.injEq] at h
        have hxy : x = y := Char.ext (UInt32.toNat_inj.1 h.1)
        rw [hxy, ih l2 h.2]
  have h' : Nat.toDigits 10 a = Nat.toDigits 10 b := minj _ _ h
  have := congrArg (fun l => Nat.ofDigitChars 10 l 0) h'
  simpa [Nat.ofDigitChars_ten_toDigits] using this

theorem split_at_sep (x : Nat) : ∀ (u u' r r' : Str), (∀ c ∈ u, c ≠ x) → (∀ c ∈ u', c ≠ x) →
    u ++ x :: r = u' ++ x :: r' → u = u' ∧ r = r' := by
  intro u
  induction u with
  | nil =>
    intro u' r r' _ hu' h
    cases u' with
    | nil => simpa using h
    | cons a u' =>
      simp only [List.nil_append, List.cons_append, List.cons.injEq] at h
      exact absurd h.1.symm (hu' a (List.mem_cons_self ..))
  | cons a u ih =>
    intro u' r r' hu hu' h
    cases u' with
    | nil =>
      simp only [List.nil_append, List.cons_append, List.cons.injEq] at h
      exact absurd h.1 (hu a (List.mem_cons_self ..))
    | cons b u' =>
      simp only [List.cons_append, List.cons.injEq] at h
      obtain ⟨e1, e2⟩ := ih u' r r' (fun c hc => hu c (List.mem_cons_of_mem _ hc))
        (fun c hc => hu' c (List.mem_cons_of_mem _ hc)) h.2
      exact ⟨by rw [h.1, e1], e2⟩

/-- two errors have the same message iff they agree on line, printed column and body -/
theorem message_eq_iff (e e' : PErr) :
    e.message = e'.message ↔
      e.loc.line = e'.loc.line ∧ e.loc.col.getD 0 = e'.loc.col.getD 0 ∧ e.body = e'.body := by
  constructor
  · intro h
    unfold PErr.message at h
    have hl : lit "): " = [41, 58, 32] := by decide
    rw [hl] at h
    simp only [List.append_assoc, List.cons_append, List.nil_append, List.cons.injEq, true_and] at h
    have d58 : ∀ n : Nat, ∀ c ∈ natToStr n, c ≠ 58 := fun n c hc => by have := natToStr_digit n c hc; omega
    have d41 : ∀ n : Nat, ∀ c ∈ natToStr n, c ≠ 41 := fun n c hc => by have := natToStr_digit n c hc; omega
    obtain ⟨h1, h2⟩ := split_at_sep 58 _ _ _ _ (d58 _) (d58 _) h
    obtain ⟨h3, h4⟩ := split_at_sep 41 _ _ _ _ (d41 _) (d41 _) h2
    simp only [List.cons.injEq, true_and] at h4
    exact ⟨natToStr_inj h1, natToStr_inj h3, h4⟩
  · rintro ⟨h1, h2, h3⟩
    unfold PErr.message
    rw [h1, h2, h3]

/-! ### the matcher only copies the line number -/

/-- the token with another line number -/
def reNo (n : Nat) (t : Token) : Token := { t with lineNo := n }

/-- the verdict with the line of a raised error replaced -/
def reRes (n : Nat) : MRes → MRes
  | .raised e => .raised { e with loc := ⟨n, e.loc.col⟩ }
  | r => r

def reOut (n : Nat) (o : MOut) : MOut := ⟨reNo n o.tok, o.μ, reRes n o.res⟩

theorem setMatched_reNo (n : Nat) (μ : MState) (t : Token) (ty : Kind) (text keyword : Option Str)
    (ktype : Option KType) (indent : Option Nat) (items : List (Nat × Str)) :
    setMatched μ (reNo n t) ty text keyword ktype indent items =
      reNo n (setMatched μ t ty text keyword ktype indent items) := rfl

theorem matchTitle_reNo (n : Nat) (μ : MState) (t : Token) (l : Str) (ty : Kind) (kws : List Str) :
    matchTitle μ (reNo n t) l ty kws = (matchTitle μ t l ty kws).map (reNo n) := by
  unfold matchTitle
  split <;> rfl

theorem matchDocSep_reNo (n : Nat) (μ : MState) (t : Token) (l sep : Str) (o : Bool) :
    matchDocSep μ (reNo n t) l sep o = (matchDocSep μ t l sep o).map fun x => (reNo n x.1, x.2) := by
  unfold matchDocSep
  split
  · split <;> rfl
  · rfl

theorem matchLine_reNo (D : List Dialect) (k : Kind) (μ : MState) (t : Token) (l : Str) (n : Nat) :
    matchLine D k μ (reNo n t) l = reOut n (matchLine D k μ t l) := by
  have hopt : ∀ (o : Option Token),
      (match o.map (reNo n) with | some t' => (⟨t', μ, .matched⟩ : MOut) | none => ⟨reNo n t, μ, .no⟩) =
      reOut n (match o with | some t' => (⟨t', μ, .matched⟩ : MOut) | none => ⟨t, μ, .no⟩) := by
    intro o; cases o <;> rfl
  have hsep : ∀ (o : Option (Token × MState)),
      (match o.map (fun x => (reNo n x.1, x.2)) with
        | some (t', μ') => (⟨t', μ', .matched⟩ : MOut) | none => ⟨reNo n t, μ, .no⟩) =
      reOut n (match o with | some (t', μ') => (⟨t', μ', .matched⟩ : MOut) | none => ⟨t, μ, .no⟩) := by
    intro o; cases o <;> rfl
  cases k with
  | EOF => rfl
  | FeatureLine => simp only [matchLine, matchTitle_reNo]; exact hopt _
  | RuleLine => simp only [matchLine, matchTitle_reNo]; exact hopt _
  | BackgroundLine => simp only [matchLine, matchTitle_reNo]; exact hopt _
  | ExamplesLine => simp only [matchLine, matchTitle_reNo]; exact hopt _
  | ScenarioLine =>
    simp only [matchLine, matchTitle_reNo]
    cases matchTitle μ t l .ScenarioLine μ.dialect.scenario with
    | some t' => rfl
    | none => exact hopt _
  | TableRow => simp only [matchLine]; split <;> rfl
  | StepLine => simp only [matchLine]; split <;> rfl
  | Comment => simp only [matchLine]; split <;> rfl
  | Empty => simp only [matchLine]; split <;> rfl
  | Other => rfl
  | Language =>
    simp only [matchLine]
    split
    · rfl
    · split <;> rfl
  | TagLine =>
    simp only [matchLine]
    split
    · split <;> rfl
    · rfl
  | DocStringSeparator =>
    simp only [matchLine, matchDocSep_reNo]
    have horelse : ∀ (o1 o2 : Option (Token × MState)),
        ((o1.map fun x => (reNo n x.1, x.2)).orElse fun _ => o2.map fun x => (reNo n x.1, x.2)) =
        (o1.orElse fun _ => o2).map fun x => (reNo n x.1, x.2) := by
      intro o1 o2; cases o1 <;> rfl
    cases μ.activeSep with
    | none => simp only [horelse]; exact hsep _
    | some sep =>
      simp only []
      cases sep.isEmpty with
      | true => simp only [↓reduceIte, horelse]; exact hsep _
      | false => simp only [Bool.false_eq_true, ↓reduceIte]; exact hsep _

theorem matchTok_reNo (D : List Dialect) (k : Kind) (μ : MState) (t : Token) (n : Nat) :
    matchTok D k μ (reNo n t) = (reOut n (matchTok D k μ t).1, (matchTok D k μ t).2) := by
  unfold matchTok
  cases hl : t.line with
  | none =>
    have : (reNo n t).line = none := hl
    simp only [this]
    split <;> rfl
  | some l =>
    have : (reNo n t).line = some l := hl
    simp only [this, matchLine_reNo]

/-- an error the matcher raises is located on the line of the token -/
theorem matchLine_raised_line (D : List Dialect) (k : Kind) (μ : MState) (t : Token) (l : Str) (e : PErr)
    (h : (matchLine D k μ t l).res = .raised e) : e.loc.line = t.lineNo := by
  cases k <;> simp only [matchLine] at h
  case FeatureLine => split at h <;> cases h
  case RuleLine => split at h <;> cases h
  case BackgroundLine => split at h <;> cases h
  case ExamplesLine => split at h <;> cases h
  case ScenarioLine => split at h <;> first | cases h | (split at h <;> cases h)
  case TableRow => split at h <;> cases h
  case StepLine => split at h <;> cases h
  case Comment => split at h <;> cases h
  case Empty => split at h <;> cases h
  case EOF => cases h
  case Other => cases h
  case Language =>
    split at h
    · cases h
    · split at h
      · cases h
      · cases h; rfl
  case TagLine =>
    split at h
    · split at h
      · cases h
      · cases h; rfl
    · cases h
  case DocStringSeparator =>
    split at h <;> cases h

theorem setMatched_col0 (μ : MState) (t : Token) (ty : Kind) (text keyword : Option Str)
    (ktype : Option KType) (indent : Option Nat) (items : List (Nat × Str)) :
    (setMatched μ t ty text keyword ktype indent items).col ≠ some 0 := by
  simp [setMatched]

theorem matchTitle_col0 {μ : MState} {t t' : Token} {l : Str} {ty : Kind} {kws : List Str}
    (h : matchTitle μ t l ty kws = some t') : t'.col ≠ some 0 := by
  unfold matchTitle at h
  split at h
  · cases h; exact setMatched_col0 _ _ _ _ _ _ _ _
  · cases h

theorem matchDocSep_col0 {μ μ' : MState} {t t' : Token} {l sep : Str} {o : Bool}
    (h : matchDocSep μ t l sep o = some (t', μ')) : t'.col ≠ some 0 := by
  unfold matchDocSep at h
  split at h
  · split at h <;> (cases h; exact setMatched_col0 _ _ _ _ _ _ _ _)
  · cases h

/-- a token that has just been matched has a column ≥ 1 -/
theorem matchLine_matched_col0 (D : List Dialect) (k : Kind) (μ : MState) (t : Token) (l : Str)
    (h : (matchLine D k μ t l).res = .matched) : (matchLine D k μ t l).tok.col ≠ some 0 := by
  have hopt : ∀ (o : Option Token), (∀ t', o = some t' → t'.col ≠ some 0) →
      (match o with | some t' => (⟨t', μ, .matched⟩ : MOut) | none => ⟨t, μ, .no⟩).res = .matched →
      (match o with | some t' => (⟨t', μ, .matched⟩ : MOut) | none => ⟨t, μ, .no⟩).tok.col ≠ some 0 := by
    intro o ho hm
    cases o with
    | none => cases hm
    | some t' => exact ho t' rfl
  have hsepF : ∀ (o : Option (Token × MState)), (∀ x, o = some x → x.1.col ≠ some 0) →
      (match o with | some (t', μ') => (⟨t', μ', .matched⟩ : MOut) | none => ⟨t, μ, .no⟩).res = .matched →
      (match o with | some (t', μ') => (⟨t', μ', .matched⟩ : MOut) | none => ⟨t, μ, .no⟩).tok.col ≠ some 0 := by
    intro o ho hm
    cases o with
    | none => cases hm
    | some x => exact ho x rfl
  have opening : ∀ x, ((matchDocSep μ t l dq3 true).orElse fun _ => matchDocSep μ t l bt3 true) = some x →
      x.1.col ≠ some 0 := by
    intro x hx
    cases h1 : matchDocSep μ t l dq3 true with
    | some y => rw [h1] at hx; simp only [Option.orElse] at hx; cases hx; exact matchDocSep_col0 h1
    | none => rw [h1] at hx; simp only [Option.orElse] at hx; exact matchDocSep_col0 hx
  cases k with
  | EOF => cases h
  | FeatureLine => exact hopt _ (fun t' ht' => matchTitle_col0 ht') h
  | RuleLine => exact hopt _ (fun t' ht' => matchTitle_col0 ht') h
  | BackgroundLine => exact hopt _ (fun t' ht' => matchTitle_col0 ht') h
  | ExamplesLine => exact hopt _ (fun t' ht' => matchTitle_col0 ht') h
  | ScenarioLine =>
    simp only [matchLine] at h ⊢
    split
    · rename_i h1; exact matchTitle_col0 h1
    · rename_i h1
      rw [h1] at h
      exact hopt _ (fun t' ht' => matchTitle_col0 ht') h
  | TableRow => simp only [matchLine] at h ⊢; split <;> first | exact setMatched_col0 _ _ _ _ _ _ _ _ | (rename_i hc; rw [if_neg hc] at h; cases h)
  | StepLine =>
    simp only [matchLine] at h ⊢
    split
    · exact setMatched_col0 _ _ _ _ _ _ _ _
    · rename_i hc; rw [hc] at h; cases h
  | Comment => simp only [matchLine] at h ⊢; split <;> first | exact setMatched_col0 _ _ _ _ _ _ _ _ | (rename_i hc; rw [if_neg hc] at h; cases h)
  | Empty => simp only [matchLine] at h ⊢; split <;> first | exact setMatched_col0 _ _ _ _ _ _ _ _ | (rename_i hc; rw [if_neg hc] at h; cases h)
  | Other => exact setMatched_col0 _ _ _ _ _ _ _ _
  | Language =>
    simp only [matchLine] at h ⊢
    split
    · rename_i hc; rw [hc] at h; cases h
    · split <;> exact setMatched_col0 _ _ _ _ _ _ _ _
  | TagLine =>
    simp only [matchLine] at h ⊢
    by_cases hc1 : lineStartsWith l [64] = true
    · rw [if_pos hc1] at h ⊢
      cases hc2 : lineTags l with
      | ok items => exact setMatched_col0 _ _ _ _ _ _ _ _
      | error col => rw [hc2] at h; cases h
    · rw [if_neg hc1] at h; cases h
  | DocStringSeparator =>
    simp only [matchLine] at h ⊢
    cases hsep : μ.activeSep with
    | none => rw [hsep] at h; exact hsepF _ (fun x hx => opening x hx) h
    | some sep =>
      rw [hsep] at h
      simp only [] at h ⊢
      cases he : sep.isEmpty with
      | true => rw [he] at h; simp only [↓reduceIte] at h ⊢; exact hsepF _ (fun x hx => opening x hx) h
      | false =>
        rw [he] at h
        simp only [Bool.false_eq_true, ↓reduceIte] at h ⊢
        exact hsepF _ (fun x hx => matchDocSep_col0 hx) h

theorem matchTok_matched_col0 (D : List Dialect) (k : Kind) (μ : MState) (t : Token)
    (h : (matchTok D k μ t).1.res = .matched) : (matchTok D k μ t).1.tok.col ≠ some 0 := by
  unfold matchTok at h ⊢
  split
  · split
    · exact setMatched_col0 _ _ _ _ _ _ _ _
    · rename_i hl hk
      rw [hl] at h
      simp only [hk, Bool.false_eq_true, ↓reduceIte] at h
      cases h
  · rename_i l hl
    rw [hl] at h
    exact matchLine_matched_col0 D k μ t l h

theorem matchTok_raised_line (D : List Dialect) (k : Kind) (μ : MState) (t : Token) (e : PErr)
    (h : (matchTok D k μ t).1.res = .raised e) : e.loc.line = t.lineNo := by
  unfold matchTok at h
  split at h
  · split at h <;> cases h
  · exact matchLine_raised_line D k μ t _ e h

/-! ### the renaming `insertMap k` -/

theorem insertMap_loc (k : Nat) (l : Loc) : (insertMap k).loc l = ⟨(insertMap k).ln l.line, l.col⟩ := by
  unfold LocMap.loc insertMap
  cases l.col <;> rfl

theorem insertMap_ln_inj (k : Nat) {a b : Nat} (h : (insertMap k).ln a = (insertMap k).ln b) : a = b := by
  simp only [insertMap] at h
  split at h <;> split at h <;> omega

theorem insertMap_ln_le (k : Nat) {a : Nat} (h : a ≤ k) : (insertMap k).ln a = a := by
  simp only [insertMap]; split <;> omega

theorem insertMap_ln_gt (k : Nat) {a : Nat} (h : k < a) : (insertMap k).ln a = a + 1 := by
  simp only [insertMap]; split <;> omega

/-- de-duplication of errors by message is insensitive to the renaming -/
theorem insertMap_msg (k : Nat) (e e' : PErr) :
    ((mapErr (insertMap k) e').message == (mapErr (insertMap k) e).message) = (e'.message == e.message) := by
  have key : (mapErr (insertMap k) e').message = (mapErr (insertMap k) e).message ↔ e'.message = e.message := by
    rw [message_eq_iff, message_eq_iff]
    simp only [mapErr, insertMap_loc]
    constructor
    · rintro ⟨h1, h2, h3⟩; exact ⟨insertMap_ln_inj k h1, h2, h3⟩
    · rintro ⟨h1, h2, h3⟩; exact ⟨by rw [h1], h2, h3⟩
  by_cases h : e'.message = e.message
  · rw [beq_iff_eq.2 h, beq_iff_eq.2 (key.2 h)]
  · rw [beq_eq_false_iff_ne.2 h, beq_eq_false_iff_ne.2 (fun h' => h (key.1 h'))]

/-- an in-flight token of the second run: the token of the first run with its line renumbered -/
def TokIns (k : Nat) (t1 t2 : Token) : Prop := t2 = reNo ((insertMap k).ln t1.lineNo) t1

theorem TokIns.tokMap {k : Nat} {t1 t2 : Token} (h : TokIns k t1 t2) (hcol : t1.col ≠ some 0) :
    TokMap (insertMap k) t1 t2 := by
  subst h
  refine ⟨rfl, ?_, rfl, rfl, rfl, rfl, rfl, ?_, fun _ _ => rfl, hcol⟩
  · show t1.col = t1.col.map fun c => c
    cases t1.col <;> rfl
  · show t1.items = t1.items.map fun it => (it.1, it.2)
    simp

theorem reRes_raised {k : Nat} {t : Token} {D : List Dialect} {K : Kind} {μ : MState} {e : PErr}
    (h : (matchTok D K μ t).1.res = .raised e) :
    reRes ((insertMap k).ln t.lineNo) (.raised e) = .raised (mapErr (insertMap k) e) := by
  have := matchTok_raised_line D K μ t e h
  simp only [reRes, mapErr, insertMap_loc, this]

def mapAbort (f : LocMap) : Abort → Abort
  | .single e => .single (mapErr f e)
  | .composite es => .composite (es.map (mapErr f))
  | .crash w => .crash w
  | .fuel => .fuel

/-! ### related contexts, simulation -/

/-- the state of the matcher the per-line lemmas need -/
def Sane (D : List Dialect) (μ : MState) : Prop := SepOk μ ∧ μ.dialect ∈ D

theorem sane_matchTok (D : List Dialect) (K : Kind) (μ : MState) (t : Token) (h : Sane D μ) :
    Sane D (matchTok D K μ t).1.μ := by
  unfold matchTok
  split
  · split <;> exact h
  · exact sane_matchLine D K μ t _ h

/-- everything of the two contexts but the unread lines: errors, builder state and `unexpected` of
    the second are the images of those of the first; matcher state and id counter are equal -/
structure CtxRest (D : List Dialect) (k : Nat) (c1 c2 : Ctx) : Prop where
  errors : c2.errors = c1.errors.map (mapErr (insertMap k))
  μ : c2.μ = c1.μ
  β : BMap (insertMap k) c1.β c2.β
  ids : c2.ids = c1.ids
  unexpected : c2.unexpected = c1.unexpected.map (insertMap k).ln
  sane : Sane D c1.μ

/-- unread lines of the two runs (`n` = number of lines read): the blank line `b` is still ahead,
    as line `k + 1` of the second text, or has been read by the second run -/
def LinesIns (b : Str) (k : Nat) (ls1 : List Str) (n1 : Nat) (ls2 : List Str) (n2 : Nat) : Prop :=
  (n2 = n1 ∧ ∃ p q, ls1 = p ++ q ∧ ls2 = p ++ b :: q ∧ n1 + p.length = k) ∨
  (n2 = n1 + 1 ∧ k ≤ n1 ∧ ls2 = ls1)

/-- the computation has not touched the scanner -/
def Frame (c c' : Ctx) : Prop := c'.lines = c.lines ∧ c'.lineNo = c.lineNo

theorem Frame.refl (c : Ctx) : Frame c c := ⟨rfl, rfl⟩
theorem Frame.trans {a b c : Ctx} (h1 : Frame a b) (h2 : Frame b c) : Frame a c :=
  ⟨h2.1.trans h1.1, h2.2.trans h1.2⟩

/-- both runs end the same way: both return, with related results, without having touched the
    scanner, or both abort, the second with the renamed error(s) -/
def Post (D : List Dialect) (k : Nat) {α} (R : α → α → Prop) (c1 c2 : Ctx)
    (x1 x2 : Except Abort α × Ctx) : Prop :=
  (∃ a1 a2 c1' c2', x1 = (.ok a1, c1') ∧ x2 = (.ok a2, c2') ∧ R a1 a2 ∧ CtxRest D k c1' c2' ∧
    Frame c1 c1' ∧ Frame c2 c2') ∨
  (∃ e c1' c2', x1 = (.error e, c1') ∧ x2 = (.error (mapAbort (insertMap k) e), c2') ∧ CtxRest D k c1' c2')

/-- lock-step simulation of computations that do not consume lines -/
def SimF (D : List Dialect) (b : Str) (k : Nat) {α} (R : α → α → Prop) (m1 m2 : PM α) : Prop :=
  ∀ c1 c2, CtxRest D k c1 c2 → LinesIns b k c1.lines c1.lineNo c2.lines c2.lineNo →
    Post D k R c1 c2 (run m1 c1) (run m2 c2)

section sim
variable {D : List Dialect} {b : Str} {k : Nat}

theorem SimF.pure {α} {R : α → α → Prop} {a1 a2 : α} (h : R a1 a2) : SimF D b k R (pure a1) (pure a2) :=
  fun c1 c2 hc _ => .inl ⟨a1, a2, c1, c2, rfl, rfl, h, hc, Frame.refl _, Frame.refl _⟩

theorem SimF.throw {α} {R : α → α → Prop} (e : Abort) :
    SimF D b k R (throw e : PM α) (throw (mapAbort (insertMap k) e)) :=
  fun c1 c2 hc _ => .inr ⟨e, c1, c2, rfl, rfl, hc⟩

theorem SimF.bind {α β} {R : α → α → Prop} {S : β → β → Prop} {m1 m2 : PM α} {f1 f2 : α → PM β}
    (h1 : SimF D b k R m1 m2) (h2 : ∀ a1 a2, R a1 a2 → SimF D b k S (f1 a1) (f2 a2)) :
    SimF D b k S (m1 >>= f1) (m2 >>= f2) := by
  intro c1 c2 hc hl
  rcases h1 c1 c2 hc hl with ⟨a1, a2, c1', c2', e1, e2, hr, hc', fr1, fr2⟩ | ⟨e, c1', c2', e1, e2, hc'⟩
  · rw [prun_bind, prun_bind, e1, e2]
    have hl' : LinesIns b k c1'.lines c1'.lineNo c2'.lines c2'.lineNo := by
      rw [fr1.1, fr1.2, fr2.1, fr2.2]; exact hl
    rcases h2 a1 a2 hr c1' c2' hc' hl' with ⟨b1, b2, c1'', c2'', e1', e2', hs, hc'', fr1', fr2'⟩ | h
    · exact .inl ⟨b1, b2, c1'', c2'', e1', e2', hs, hc'', fr1.trans fr1', fr2.trans fr2'⟩
    · exact .inr h
  · rw [prun_bind, prun_bind, e1, e2]; exact .inr ⟨e, c1', c2', rfl, rfl, hc'⟩

theorem SimF.mono {α} {R S : α → α → Prop} {m1 m2 : PM α} (h : SimF D b k R m1 m2)
    (hRS : ∀ a b, R a b → S a b) : SimF D b k S m1 m2 := by
  intro c1 c2 hc hl
  rcases h c1 c2 hc hl with ⟨a1, a2, c1', c2', e1, e2, hr, hc', fr⟩ | h
  · exact .inl ⟨a1, a2, c1', c2', e1, e2, hRS _ _ hr, hc', fr⟩
  · exact .inr h

theorem SimF.modify {f1 f2 : Ctx → Ctx} (h : ∀ c1 c2, CtxRest D k c1 c2 → CtxRest D k (f1 c1) (f2 c2))
    (hf1 : ∀ c, Frame c (f1 c)) (hf2 : ∀ c, Frame c (f2 c)) :
    SimF D b k (fun _ _ => True) (modify f1 : PM PUnit) (modify f2) :=
  fun c1 c2 hc _ => .inl ⟨⟨⟩, ⟨⟩, f1 c1, f2 c2, rfl, rfl, trivial, h c1 c2 hc, hf1 c1, hf2 c2⟩

theorem sim_addError (cap : Nat) (e : PErr) :
    SimF D b k (fun _ _ => True) (addError cap e) (addError cap (mapErr (insertMap k) e)) := by
  intro c1 c2 hc _
  rw [run_addError, run_addError, hc.errors]
  have hany : (c1.errors.map (mapErr (insertMap k))).any
      (fun e' => e'.message == (mapErr (insertMap k) e).message) =
      c1.errors.any (fun e' => e'.message == e.message) := by
    rw [List.any_map]
    congr 1
    funext e'
    exact insertMap_msg k e e'
  have hlen : (c1.errors.map (mapErr (insertMap k)) ++ [mapErr (insertMap k) e]).length =
      (c1.errors ++ [e]).length := by simp
  have hc' : CtxRest D k { c1 with errors := c1.errors ++ [e] }
      { c2 with errors := c1.errors.map (mapErr (insertMap k)) ++ [mapErr (insertMap k) e] } :=
    ⟨by simp, hc.μ, hc.β, hc.ids, hc.unexpected, hc.sane⟩
  rw [hany, hlen]
  split
  · exact .inl ⟨_, _, _, _, rfl, rfl, trivial, hc, Frame.refl _, Frame.refl _⟩
  · split
    · refine .inr ⟨_, _, _, rfl, ?_, hc'⟩
      simp [mapAbort]
    · exact .inl ⟨_, _, _, _, rfl, rfl, trivial, hc', ⟨rfl, rfl⟩, ⟨rfl, rfl⟩⟩

/-- what two related `match_<k>` calls return: same verdict, related tokens -/
def MatchRel (k : Nat) (r1 r2 : Bool × Token) : Prop :=
  r1.1 = r2.1 ∧ TokIns k r1.2 r2.2 ∧ (r1.1 = true → r1.2.col ≠ some 0)

theorem TokIns.matchTok {t1 t2 : Token} (ht : TokIns k t1 t2) (K : Kind) (μ : MState) :
    matchTok D K μ t2 = (reOut ((insertMap k).ln t1.lineNo) (matchTok D K μ t1).1, (matchTok D K μ t1).2) := by
  rw [ht]; exact matchTok_reNo D K μ t1 _

theorem matchTok_lineNo' (K : Kind) (μ : MState) (t : Token) : (matchTok D K μ t).1.tok.lineNo = t.lineNo := by
  have := matchTok_reNo D K μ t t.lineNo
  have e : reNo t.lineNo t = t := rfl
  rw [e] at this
  have h2 := congrArg (fun x => x.1.tok.lineNo) this
  exact h2

theorem sim_matchP (cap : Nat) (stop : Bool) (K : Kind) {t1 t2 : Token} (ht : TokIns k t1 t2) :
    SimF D b k (MatchRel k) (matchP D cap stop K t1) (matchP D cap stop K t2) := by
  intro c1 c2 hc hl
  rw [run_matchP, run_matchP, hc.μ, ht.matchTok]
  simp only [reOut]
  have hsane := sane_matchTok D K c1.μ t1 hc.sane
  have htok : TokIns k (matchTok D K c1.μ t1).1.tok (reNo ((insertMap k).ln t1.lineNo) (matchTok D K c1.μ t1).1.tok) := by
    unfold TokIns; rw [matchTok_lineNo']
  have hc' : CtxRest D k
      { c1 with μ := (matchTok D K c1.μ t1).1.μ, calls := c1.calls + (if (matchTok D K c1.μ t1).2 then 1 else 0) }
      { c2 with μ := (matchTok D K c1.μ t1).1.μ, calls := c2.calls + (if (matchTok D K c1.μ t1).2 then 1 else 0) } :=
    ⟨hc.errors, rfl, hc.β, hc.ids, hc.unexpected, hsane⟩
  cases hr : (matchTok D K c1.μ t1).1.res with
  | matched =>
    exact .inl ⟨_, _, _, _, rfl, rfl, ⟨rfl, htok, fun _ => matchTok_matched_col0 D K c1.μ t1 hr⟩, hc',
      ⟨rfl, rfl⟩, ⟨rfl, rfl⟩⟩
  | no => exact .inl ⟨_, _, _, _, rfl, rfl, ⟨rfl, htok, fun h => by cases h⟩, hc', ⟨rfl, rfl⟩, ⟨rfl, rfl⟩⟩
  | raised e =>
    rw [reRes_raised hr]
    simp only []
    cases stop with
    | true => exact .inr ⟨_, _, _, rfl, rfl, hc'⟩
    | false =>
      simp only [Bool.false_eq_true, ↓reduceIte]
      have hl' : LinesIns b k c1.lines c1.lineNo c2.lines c2.lineNo := hl
      rcases sim_addError (D := D) (b := b) cap e _ _ hc' hl' with
        ⟨_, _, c1', c2', e1, e2, -, hc'', fr1, fr2⟩ | ⟨e', c1', c2', e1, e2, hc''⟩
      · rw [e1, e2]
        exact .inl ⟨_, _, _, _, rfl, rfl, ⟨rfl, htok, fun h => by cases h⟩, hc'', fr1, fr2⟩
      · rw [e1, e2]
        exact .inr ⟨_, _, _, rfl, rfl, hc''⟩

/-- result of `matchAny`: same verdict, related tokens -/
def AnyRel (k : Nat) (r1 r2 : Bool × Token) : Prop := r1.1 = r2.1 ∧ TokIns k r1.2 r2.2

theorem sim_matchAny (cap : Nat) (stop : Bool) (ks : List Kind) {t1 t2 : Token} (ht : TokIns k t1 t2) :
    SimF D b k (AnyRel k) (matchAny D cap stop ks t1) (matchAny D cap stop ks t2) := by
  induction ks generalizing t1 t2 with
  | nil => exact SimF.pure ⟨rfl, ht⟩
  | cons K ks ih =>
    unfold matchAny
    refine SimF.bind (sim_matchP cap stop K ht) fun r1 r2 hr => ?_
    obtain ⟨m1, t1'⟩ := r1
    obtain ⟨m2, t2'⟩ := r2
    obtain ⟨hm, ht', -⟩ := hr
    simp only at hm ht'
    subst hm
    dsimp only
    split
    · exact SimF.pure ⟨rfl, ht'⟩
    · exact ih ht'

/-! ### the look-ahead skips the inserted blank line -/

/-- the kinds a whitespace-only line is matched as -/
def emptyTestK (K : Kind) : Bool := K == .Empty || K == .Other

/-- tests on a whitespace-only line: the kinds before the first `Empty`/`Other` fail, leaving
    everything but the call counter alone; the verdict says whether there is such a kind -/
theorem blank_matchAny (cap : Nat) (stop : Bool) {l : Str} (hb : lstrip l = []) :
    ∀ (ks : List Kind) (t : Token) (c : Ctx), t.line = some l →
      (∀ kw ∈ c.μ.dialect.stepKeywords, kw ≠ []) →
      ∃ t' j, run (matchAny D cap stop ks t) c = (.ok (ks.any emptyTestK, t'), { c with calls := c.calls + j }) ∧
        (ks.any emptyTestK = false → t' = t) := by
  intro ks
  induction ks with
  | nil => intro t c hl _; exact ⟨t, 0, rfl, fun _ => rfl⟩
  | cons K ks ih =>
    intro t c hl hkw
    unfold matchAny
    rw [prun_bind, run_matchP]
    have e : matchTok D K c.μ t = (matchLine D K c.μ t l, true) := by unfold matchTok; rw [hl]
    by_cases hK : emptyTestK K = true
    · have hm : (matchLine D K c.μ t l).res = .matched ∧ (matchLine D K c.μ t l).μ = c.μ := by
        unfold emptyTestK at hK
        simp only [Bool.or_eq_true, beq_iff_eq] at hK
        rcases hK with rfl | rfl
        · rw [matchLine_blank_empty D c.μ t hb]; exact ⟨rfl, rfl⟩
        · exact ⟨rfl, rfl⟩
      simp only [e, hm.1, hm.2, ↓reduceIte, prun_pure, List.any_cons, hK, Bool.true_or]
      exact ⟨_, 1, rfl, fun h => by cases h⟩
    · have hne : K ≠ .Empty ∧ K ≠ .Other := by
        unfold emptyTestK at hK
        simp only [Bool.or_eq_true, beq_iff_eq, not_or] at hK
        exact hK
      have hno := matchLine_blank_no D K c.μ t hb hne (fun _ => hkw)
      simp only [e, hno, ↓reduceIte, Bool.false_eq_true, List.any_cons]
      obtain ⟨t', j, hr, hl'⟩ := ih t { c with calls := c.calls + 1 } hl hkw
      have hKf : emptyTestK K = false := by simpa using hK
      refine ⟨t', 1 + j, ?_, ?_⟩
      rotate_left
      · rw [hKf, Bool.false_or]; exact hl'
      rw [hKf, Bool.false_or]
      have ec : ({ c with μ := c.μ, calls := c.calls + 1 } : Ctx) = { c with calls := c.calls + 1 } := rfl
      rw [ec, hr]
      simp only [Nat.add_assoc]

theorem Post.frame2 {α} {R : α → α → Prop} {c1 c2 c2' : Ctx} {x1 x2 : Except Abort α × Ctx}
    (h : Post D k R c1 c2' x1 x2) (fr : Frame c2 c2') : Post D k R c1 c2 x1 x2 := by
  rcases h with ⟨a1, a2, c1', c2'', e1, e2, hr, hc, fr1, fr2⟩ | h
  · exact .inl ⟨a1, a2, c1', c2'', e1, e2, hr, hc, fr1, fr.trans fr2⟩
  · exact .inr h

theorem Post.frame1 {α} {R : α → α → Prop} {c1 c1' c2 : Ctx} {x1 x2 : Except Abort α × Ctx}
    (h : Post D k R c1' c2 x1 x2) (fr : Frame c1 c1') : Post D k R c1 c2 x1 x2 := by
  rcases h with ⟨a1, a2, c1'', c2'', e1, e2, hr, hc, fr1, fr2⟩ | h
  · exact .inl ⟨a1, a2, c1'', c2'', e1, e2, hr, hc, fr.trans fr1, fr2⟩
  · exact .inr h

theorem CtxRest.calls2 {c1 c2 : Ctx} (h : CtxRest D k c1 c2) (j : Nat) :
    CtxRest D k c1 { c2 with calls := j } := ⟨h.errors, h.μ, h.β, h.ids, h.unexpected, h.sane⟩

/-- a look-ahead past the inserted line: the lines peeked at are numbered one higher -/
theorem sim_peek_after (cap : Nat) (stop : Bool) (la : LookAhead) :
    ∀ (ls : List Str) (n : Nat), k < n →
      SimF D b k Eq (peekLoop D cap stop la ls n) (peekLoop D cap stop la ls (n + 1)) := by
  intro ls
  induction ls with
  | nil =>
    intro n hn
    unfold peekLoop
    have ht : TokIns k { line := none, lineNo := n } { line := none, lineNo := n + 1 } := by
      unfold TokIns reNo; simp only [insertMap_ln_gt k hn]
    refine SimF.bind (sim_matchAny cap stop _ ht) fun r1 r2 hr => ?_
    obtain ⟨m1, t1'⟩ := r1
    obtain ⟨m2, t2'⟩ := r2
    obtain ⟨hm, ht'⟩ := hr
    simp only at hm ht'
    subst hm
    dsimp only
    split
    · exact SimF.pure rfl
    · exact SimF.bind (sim_matchAny cap stop _ ht') fun _ _ _ => SimF.pure rfl
  | cons l ls ih =>
    intro n hn
    unfold peekLoop
    have ht : TokIns k { line := some l, lineNo := n } { line := some l, lineNo := n + 1 } := by
      unfold TokIns reNo; simp only [insertMap_ln_gt k hn]
    refine SimF.bind (sim_matchAny cap stop _ ht) fun r1 r2 hr => ?_
    obtain ⟨m1, t1'⟩ := r1
    obtain ⟨m2, t2'⟩ := r2
    obtain ⟨hm, ht'⟩ := hr
    simp only at hm ht'
    subst hm
    dsimp only
    split
    · exact SimF.pure rfl
    · refine SimF.bind (sim_matchAny cap stop _ ht') fun r1 r2 hr => ?_
      obtain ⟨s1, t1''⟩ := r1
      obtain ⟨s2, t2''⟩ := r2
      obtain ⟨hs, -⟩ := hr
      simp only at hs
      subst hs
      dsimp only
      split
      · exact ih (n + 1) (by omega)
      · exact SimF.pure rfl

theorem kw_ne_nil (hD : Spec.stepKeywordsOk D = true) {μ : MState} (hμ : Sane D μ) :
    ∀ kw ∈ μ.dialect.stepKeywords, kw ≠ [] := fun kw hkw =>
  ((stepKeywordOk_iff kw).1 (stepKwOk_of_mem hD hμ.2 kw hkw)).1

/-- a look-ahead that skips blank lines and does not expect them -/
def LaOk (la : LookAhead) : Prop := la.expected.any emptyTestK = false ∧ la.skip.any emptyTestK = true

/-- the second run's look-ahead comes across the inserted line and skips it -/
theorem peek_blank (hD : Spec.stepKeywordsOk D = true) (cap : Nat) (stop : Bool) {la : LookAhead} (hla : LaOk la)
    (hb : lstrip b = []) (ls : List Str) (n : Nat) (c : Ctx) (hμ : Sane D c.μ) :
    ∃ j, run (peekLoop D cap stop la (b :: ls) n) c =
      run (peekLoop D cap stop la ls (n + 1)) { c with calls := c.calls + j } := by
  have hkw := kw_ne_nil hD hμ
  obtain ⟨t1, j1, h1, ht1⟩ := blank_matchAny (D := D) cap stop hb la.expected
    { line := some b, lineNo := n } c rfl hkw
  rw [hla.1] at h1
  have e1 := ht1 hla.1
  subst e1
  obtain ⟨t2, j2, h2, -⟩ := blank_matchAny (D := D) cap stop hb la.skip
    { line := some b, lineNo := n } { c with calls := c.calls + j1 } rfl hkw
  rw [hla.2] at h2
  refine ⟨j1 + j2, ?_⟩
  conv => lhs; unfold peekLoop
  rw [prun_bind, h1]
  simp only [Bool.false_eq_true, ↓reduceIte]
  rw [prun_bind, h2]
  simp only [↓reduceIte, Nat.add_assoc]

theorem sim_peek_before (hD : Spec.stepKeywordsOk D = true) (cap : Nat) (stop : Bool) {la : LookAhead}
    (hla : LaOk la) (hb : lstrip b = []) (q : List Str) :
    ∀ (p : List Str) (n : Nat), n + p.length = k + 1 →
      SimF D b k Eq (peekLoop D cap stop la (p ++ q) n) (peekLoop D cap stop la (p ++ b :: q) n) := by
  intro p
  induction p with
  | nil =>
    intro n hn c1 c2 hc hl
    simp only [List.nil_append]
    obtain ⟨j, hj⟩ := peek_blank hD cap stop hla hb q n c2 (hc.μ ▸ hc.sane)
    rw [hj]
    exact (sim_peek_after cap stop la q n (by simp at hn; omega) c1 { c2 with calls := c2.calls + j }
      (hc.calls2 _) hl).frame2 ⟨rfl, rfl⟩
  | cons l p ih =>
    intro n hn
    simp only [List.cons_append]
    unfold peekLoop
    have hn' : n ≤ k := by simp at hn; omega
    have ht : TokIns k { line := some l, lineNo := n } { line := some l, lineNo := n } := by
      unfold TokIns reNo; simp only [insertMap_ln_le k hn']
    refine SimF.bind (sim_matchAny cap stop _ ht) fun r1 r2 hr => ?_
    obtain ⟨m1, t1'⟩ := r1
    obtain ⟨m2, t2'⟩ := r2
    obtain ⟨hm, ht'⟩ := hr
    simp only at hm ht'
    subst hm
    dsimp only
    split
    · exact SimF.pure rfl
    · refine SimF.bind (sim_matchAny cap stop _ ht') fun r1 r2 hr => ?_
      obtain ⟨s1, t1''⟩ := r1
      obtain ⟨s2, t2''⟩ := r2
      obtain ⟨hs, -⟩ := hr
      simp only at hs
      subst hs
      dsimp only
      split
      · exact ih (n + 1) (by simp at hn ⊢; omega)
      · exact SimF.pure rfl

theorem sim_lookaheadPure (hD : Spec.stepKeywordsOk D = true) (cap : Nat) (stop : Bool) {la : LookAhead}
    (hla : LaOk la) (hb : lstrip b = []) :
    SimF D b k Eq (lookaheadPure D cap stop la) (lookaheadPure D cap stop la) := by
  intro c1 c2 hc hl
  unfold lookaheadPure
  rw [prun_bind, prun_bind, run_get, run_get]
  simp only []
  rcases hl with ⟨hn, p, q, h1, h2, hk⟩ | ⟨hn, hk, hls⟩
  · rw [h1, h2, hn]
    exact sim_peek_before hD cap stop hla hb q p _ (by omega) c1 c2 hc (.inl ⟨hn, p, q, h1, h2, hk⟩)
  · rw [hls, hn]
    exact sim_peek_after (b := b) cap stop la _ _ (by omega) c1 c2 hc (.inr ⟨hn, hk, hls⟩)

/-! ### productions -/

theorem sim_liftB (cap : Nat) (stop : Bool) (r : Except BErr Unit) :
    SimF D b k (fun _ _ => True) (liftB cap stop r) (liftB cap stop (r.mapError (mapBErr (insertMap k)))) := by
  intro c1 c2 hc hl
  rw [run_liftB, run_liftB]
  rcases r with (w | e) | u
  · exact .inr ⟨_, _, _, rfl, rfl, hc⟩
  · simp only [Except.mapError, mapBErr]
    cases stop with
    | true => exact .inr ⟨_, _, _, rfl, rfl, hc⟩
    | false => exact sim_addError cap e c1 c2 hc hl
  · exact .inl ⟨_, _, _, _, rfl, rfl, trivial, hc, Frame.refl _, Frame.refl _⟩

theorem sim_runProd (cap : Nat) (stop : Bool) {t1 t2 : Token} (p : Prod)
    (ht : p = .build → TokMap (insertMap k) t1 t2) :
    SimF D b k (fun _ _ => True) (runProd cap stop t1 p) (runProd cap stop t2 p) := by
  intro c1 c2 hc hl
  rw [run_runProd, run_runProd]
  cases p with
  | start r =>
    exact .inl ⟨_, _, _, _, rfl, rfl, trivial,
      ⟨hc.errors, hc.μ, hc.β.startRule r, hc.ids, hc.unexpected, hc.sane⟩, ⟨rfl, rfl⟩, ⟨rfl, rfl⟩⟩
  | end_ r =>
    simp only []
    rw [hc.ids]
    obtain ⟨h1, h2, h3, -⟩ := hc.β.endRule c1.ids
    rw [h1, h3]
    have hc' : CtxRest D k { c1 with β := (c1.β.endRule c1.ids).2.1, ids := (c1.β.endRule c1.ids).2.2 }
        { c2 with β := (c2.β.endRule c1.ids).2.1, ids := (c1.β.endRule c1.ids).2.2 } :=
      ⟨hc.errors, hc.μ, h2, rfl, hc.unexpected, hc.sane⟩
    exact (sim_liftB cap stop _ _ _ hc' hl).frame2 ⟨rfl, rfl⟩ |>.frame1 ⟨rfl, rfl⟩
  | build =>
    simp only []
    rcases hc.β.build (ht rfl) with ⟨w, e1, e2⟩ | ⟨β1, β2, e1, e2, hβ⟩
    · rw [e1, e2]
      exact sim_liftB cap stop (.error (.crash w)) c1 c2 hc hl
    · rw [e1, e2]
      exact .inl ⟨_, _, _, _, rfl, rfl, trivial,
        ⟨hc.errors, hc.μ, hβ, hc.ids, hc.unexpected, hc.sane⟩, ⟨rfl, rfl⟩, ⟨rfl, rfl⟩⟩

theorem sim_runProds (cap : Nat) (stop : Bool) {t1 t2 : Token} (ht : TokMap (insertMap k) t1 t2) (ps : List Prod) :
    SimF D b k (fun _ _ => True) (runProds cap stop t1 ps) (runProds cap stop t2 ps) := by
  induction ps with
  | nil => exact SimF.pure trivial
  | cons p ps ih =>
    unfold runProds
    exact SimF.bind (sim_runProd cap stop p fun _ => ht) fun _ _ _ => ih

/-! ### `match_token` -/

theorem unexpectedErr_ins (row : StateRow) {t1 t2 : Token} (ht : TokIns k t1 t2) :
    unexpectedErr row t2 = mapErr (insertMap k) (unexpectedErr row t1) := by
  subst ht
  obtain ⟨line, lineNo, col, a3, a4, a5, a6, a7, a8, a9⟩ := t1
  unfold unexpectedErr
  simp only [reNo, Token.loc]
  cases line with
  | none => simp only [mapErr, insertMap_loc]
  | some l =>
    simp only [mapErr, insertMap_loc]
    cases col with
    | none => rfl
    | some c => by_cases hc : (c == 0) = true <;> simp [hc]

theorem sim_tryBranchesPure (hD : Spec.stepKeywordsOk D = true) {T : Table}
    (hL : ∀ (i : Nat) (la : LookAhead), T.lookaheads[i]? = some la → LaOk la) (hb : lstrip b = []) (stop : Bool) (row : StateRow)
    (bs : List Branch) {t1 t2 : Token} (ht : TokIns k t1 t2) :
    SimF D b k Eq (tryBranchesPure D T stop row bs t1) (tryBranchesPure D T stop row bs t2) := by
  induction bs generalizing t1 t2 with
  | nil =>
    unfold tryBranchesPure
    rw [unexpectedErr_ins row ht]
    have hno : t2.lineNo = (insertMap k).ln t1.lineNo := by rw [ht]; rfl
    rw [hno]
    refine SimF.bind (SimF.modify (fun c1 c2 hc => ?_) (fun _ => ⟨rfl, rfl⟩) (fun _ => ⟨rfl, rfl⟩)) fun _ _ _ => ?_
    · exact ⟨hc.errors, hc.μ, hc.β, hc.ids, by simp [hc.unexpected], hc.sane⟩
    · cases stop with
      | true => exact SimF.throw (.single _)
      | false =>
        simp only [Bool.false_eq_true, ↓reduceIte]
        exact SimF.bind (sim_addError _ _) fun _ _ _ => SimF.pure rfl
  | cons br bs ih =>
    unfold tryBranchesPure
    refine SimF.bind (sim_matchP _ stop br.kind ht) fun r1 r2 hr => ?_
    obtain ⟨m1, t1'⟩ := r1
    obtain ⟨m2, t2'⟩ := r2
    obtain ⟨hm, ht', hcol⟩ := hr
    simp only at hm ht' hcol
    subst hm
    dsimp only
    split
    · rename_i hm1
      have hcol' := hcol hm1
      cases hg : br.guard with
      | none =>
        simp only []
        refine SimF.bind (R := fun o1 o2 => o1 = true ∧ o2 = true) (SimF.pure ⟨rfl, rfl⟩) fun o1 o2 ho => ?_
        obtain ⟨rfl, rfl⟩ := ho
        simp only [↓reduceIte]
        exact SimF.bind (sim_runProds _ stop (ht'.tokMap hcol') _) fun _ _ _ => SimF.pure rfl
      | some i =>
        simp only []
        cases hla : T.lookaheads[i]? with
        | none => exact SimF.bind (R := fun _ _ => False) (SimF.throw (.crash _)) fun _ _ h => h.elim
        | some la =>
          simp only []
          refine SimF.bind (sim_lookaheadPure hD _ stop (hL i la hla) hb) fun o1 o2 ho => ?_
          subst ho
          split
          · exact SimF.bind (sim_runProds _ stop (ht'.tokMap hcol') _) fun _ _ _ => SimF.pure rfl
          · exact ih ht'
    · exact ih ht'

theorem sim_matchTokenPure (hD : Spec.stepKeywordsOk D = true) {T : Table}
    (hL : ∀ (i : Nat) (la : LookAhead), T.lookaheads[i]? = some la → LaOk la) (hb : lstrip b = []) (stop : Bool) (state : Nat)
    {t1 t2 : Token} (ht : TokIns k t1 t2) :
    SimF D b k Eq (matchTokenPure D T stop state t1) (matchTokenPure D T stop state t2) := by
  unfold matchTokenPure
  cases T.row? state with
  | none => exact SimF.throw (.crash _)
  | some row => exact sim_tryBranchesPure hD hL hb stop row _ ht

/-! ### the main loop -/

theorem run_lines_cons (T : Table) (stop : Bool) (j s : Nat) (c : Ctx) {l : Str} {ls : List Str} (hl : c.lines = l :: ls) :
    run (parseLinesPure D T stop (j + 1) s) c =
      match run (matchTokenPure D T stop s { line := some l, lineNo := c.lineNo + 1 })
          { c with lines := ls, lineNo := c.lineNo + 1, reads := c.reads ++ [c.lineNo + 1] } with
      | (.ok s', c') => run (parseLinesPure D T stop j s') c'
      | (.error e, c') => (.error e, c') := by
  conv => lhs; unfold parseLinesPure
  simp only [prun_bind, run_get, hl, run_set, prun_pure, run_modify]
  have he : ({ line := some l, lineNo := c.lineNo + 1 } : Token).eof = false := rfl
  simp only [he, Bool.false_eq_true, if_false]
  rcases run (matchTokenPure D T stop s { line := some l, lineNo := c.lineNo + 1 }) _ with ⟨r, c'⟩
  cases r <;> rfl

theorem run_lines_nil (T : Table) (stop : Bool) (j s : Nat) (c : Ctx) (hl : c.lines = []) :
    run (parseLinesPure D T stop (j + 1) s) c =
      run (matchTokenPure D T stop s { line := none, lineNo := c.lineNo + 1 })
          { c with lineNo := c.lineNo + 1, reads := c.reads ++ [c.lineNo + 1] } := by
  conv => lhs; unfold parseLinesPure
  simp only [prun_bind, run_get, hl, run_set, prun_pure, run_modify]
  rcases run (matchTokenPure D T stop s { line := none, lineNo := c.lineNo + 1 }) _ with ⟨r, c'⟩
  cases r <;> rfl

/-- both loops end the same way, in related contexts -/
def PostL (D : List Dialect) (k : Nat) {α} (Q : α → Ctx → Ctx → Prop) (x1 x2 : Except Abort α × Ctx) : Prop :=
  (∃ a c1' c2', x1 = (.ok a, c1') ∧ x2 = (.ok a, c2') ∧ CtxRest D k c1' c2' ∧ Q a c1' c2') ∨
  (∃ e c1' c2', x1 = (.error e, c1') ∧ x2 = (.error (mapAbort (insertMap k) e), c2') ∧ CtxRest D k c1' c2')

/-- phase A: both runs consume the lines before the insertion point -/
theorem sim_prefix (hD : Spec.stepKeywordsOk D = true) {T : Table}
    (hL : ∀ (i : Nat) (la : LookAhead), T.lookaheads[i]? = some la → LaOk la) (hb : lstrip b = []) (stop : Bool)
    (q : List Str) :
    ∀ (p : List Str) (s : Nat) (c1 c2 : Ctx), CtxRest D k c1 c2 → c1.lines = p ++ q → c2.lines = p ++ b :: q →
      c2.lineNo = c1.lineNo → c1.lineNo + p.length = k →
      PostL D k (fun a c1' c2' => a.2 = false ∧ c1'.lines = q ∧ c2'.lines = b :: q ∧ c1'.lineNo = k ∧ c2'.lineNo = k)
        (run (parsePrefixPure D T stop p.length s) c1) (run (parsePrefixPure D T stop p.length s) c2) := by
  intro p
  induction p with
  | nil =>
    intro s c1 c2 hc h1 h2 hn hk
    exact .inl ⟨(s, false), c1, c2, rfl, rfl, hc, rfl, h1, h2, by simpa using hk, by rw [hn]; simpa using hk⟩
  | cons l p ih =>
    intro s c1 c2 hc h1 h2 hn hk
    simp only [List.length_cons, List.cons_append] at hk h1 h2 ⊢
    rw [run_prefix_cons T stop _ s c1 h1, run_prefix_cons T stop _ s c2 h2, hn]
    have ht : TokIns k { line := some l, lineNo := c1.lineNo + 1 } { line := some l, lineNo := c1.lineNo + 1 } := by
      unfold TokIns reNo; simp only [insertMap_ln_le k (show c1.lineNo + 1 ≤ k by omega)]
    have hc' : CtxRest D k
        { c1 with lines := p ++ q, lineNo := c1.lineNo + 1, reads := c1.reads ++ [c1.lineNo + 1] }
        { c2 with lines := p ++ b :: q, lineNo := c1.lineNo + 1, reads := c2.reads ++ [c1.lineNo + 1] } :=
      ⟨hc.errors, hc.μ, hc.β, hc.ids, hc.unexpected, hc.sane⟩
    rcases sim_matchTokenPure hD hL hb stop s ht _ _ hc' (.inl ⟨rfl, p, q, rfl, rfl, by simp only; omega⟩) with
      ⟨s1, s2, c1', c2', e1, e2, hs, hc'', fr1, fr2⟩ | ⟨e, c1', c2', e1, e2, hc''⟩
    · rw [e1, e2]
      subst hs
      exact ih s1 c1' c2' hc'' fr1.1 fr2.1 (by rw [fr1.2, fr2.2]) (by rw [fr1.2]; simp only; omega)
    · rw [e1, e2]
      exact .inr ⟨e, c1', c2', rfl, rfl, hc''⟩

/-- phase C: both runs consume the lines after the inserted one, numbered one higher in the second -/
theorem sim_rest (hD : Spec.stepKeywordsOk D = true) {T : Table}
    (hL : ∀ (i : Nat) (la : LookAhead), T.lookaheads[i]? = some la → LaOk la) (hb : lstrip b = []) (stop : Bool) :
    ∀ (fuel s : Nat) (c1 c2 : Ctx), CtxRest D k c1 c2 → c2.lines = c1.lines → c2.lineNo = c1.lineNo + 1 →
      k ≤ c1.lineNo →
      PostL D k (fun _ c1' c2' => LinesIns b k c1'.lines c1'.lineNo c2'.lines c2'.lineNo)
        (run (parseLinesPure D T stop fuel s) c1) (run (parseLinesPure D T stop fuel s) c2) := by
  intro fuel
  induction fuel with
  | zero =>
    intro s c1 c2 hc _ _ _
    exact .inr ⟨.fuel, c1, c2, rfl, rfl, hc⟩
  | succ fuel ih =>
    intro s c1 c2 hc hls hn hk
    cases h1 : c1.lines with
    | nil =>
      have h2 : c2.lines = [] := by rw [hls, h1]
      rw [run_lines_nil T stop _ s c1 h1, run_lines_nil T stop _ s c2 h2, hn]
      have ht : TokIns k { line := none, lineNo := c1.lineNo + 1 } { line := none, lineNo := c1.lineNo + 1 + 1 } := by
        unfold TokIns reNo; simp only [insertMap_ln_gt k (show k < c1.lineNo + 1 by omega)]
      have hc' : CtxRest D k
          { c1 with lineNo := c1.lineNo + 1, reads := c1.reads ++ [c1.lineNo + 1] }
          { c2 with lineNo := c1.lineNo + 1 + 1, reads := c2.reads ++ [c1.lineNo + 1 + 1] } :=
        ⟨hc.errors, hc.μ, hc.β, hc.ids, hc.unexpected, hc.sane⟩
      have hl' : LinesIns b k c1.lines (c1.lineNo + 1) c2.lines (c1.lineNo + 1 + 1) :=
        .inr ⟨rfl, by omega, hls⟩
      rcases sim_matchTokenPure hD hL hb stop s ht _ _ hc' hl' with
        ⟨s1, s2, c1', c2', e1, e2, hs, hc'', fr1, fr2⟩ | ⟨e, c1', c2', e1, e2, hc''⟩
      · rw [e1, e2]
        subst hs
        refine .inl ⟨s1, c1', c2', rfl, rfl, hc'', ?_⟩
        show LinesIns b k c1'.lines c1'.lineNo c2'.lines c2'.lineNo
        rw [fr1.1, fr1.2, fr2.1, fr2.2]; exact hl'
      · rw [e1, e2]
        exact .inr ⟨e, c1', c2', rfl, rfl, hc''⟩
    | cons l ls =>
      have h2 : c2.lines = l :: ls := by rw [hls, h1]
      rw [run_lines_cons T stop _ s c1 h1, run_lines_cons T stop _ s c2 h2, hn]
      have ht : TokIns k { line := some l, lineNo := c1.lineNo + 1 } { line := some l, lineNo := c1.lineNo + 1 + 1 } := by
        unfold TokIns reNo; simp only [insertMap_ln_gt k (show k < c1.lineNo + 1 by omega)]
      have hc' : CtxRest D k
          { c1 with lines := ls, lineNo := c1.lineNo + 1, reads := c1.reads ++ [c1.lineNo + 1] }
          { c2 with lines := ls, lineNo := c1.lineNo + 1 + 1, reads := c2.reads ++ [c1.lineNo + 1 + 1] } :=
        ⟨hc.errors, hc.μ, hc.β, hc.ids, hc.unexpected, hc.sane⟩
      rcases sim_matchTokenPure hD hL hb stop s ht _ _ hc' (.inr ⟨rfl, by simp only; omega, rfl⟩) with
        ⟨s1, s2, c1', c2', e1, e2, hs, hc'', fr1, fr2⟩ | ⟨e, c1', c2', e1, e2, hc''⟩
      · rw [e1, e2]
        subst hs
        exact ih s1 c1' c2' hc'' (by rw [fr1.1, fr2.1]) (by rw [fr1.2, fr2.2]) (by rw [fr1.2]; simp only; omega)
      · rw [e1, e2]
        exact .inr ⟨e, c1', c2', rfl, rfl, hc''⟩

/-! ### phase B: the second run reads the inserted line -/

/-- the token the test `Empty` makes of a whitespace-only line -/
def emptyTok (μ : MState) (t : Token) : Token := setMatched μ t .Empty (indent := some 0)

/-- `match_token` on a whitespace-only line, in a list of tests whose first `Empty`/`Other` test is an
    unguarded build-only `Empty` test with target `s`: the tests before it fail without touching
    anything but the call counter, the `Empty` test succeeds, the token is built, the new state is `s` -/
theorem tryBranchesPure_blank (T : Table) (stop : Bool) (row : StateRow) (μ : MState)
    {t : Token} {l : Str} (hl : t.line = some l) (hb : lstrip l = [])
    (hkw : ∀ kw ∈ μ.dialect.stepKeywords, kw ≠ []) (s : Nat) :
    ∀ (bs : List Branch) (b0 : Branch), bs.find? Spec.emptyTest = some b0 → b0.kind = .Empty → b0.target = s →
      b0.prods = [.build] → b0.guard = none → ∀ c : Ctx, c.μ = μ →
      ∃ n, run (tryBranchesPure D T stop row bs t) c =
        match run (runProd T.errorCap stop (emptyTok μ t) .build) { c with calls := c.calls + (n + 1) } with
        | (.ok _, c') => (.ok s, c')
        | (.error e, c') => (.error e, c') := by
  intro bs
  induction bs with
  | nil => intro b0 hf; cases hf
  | cons br bs ih =>
    intro b0 hf hk ht hp hg c hμ
    simp only [List.find?] at hf
    cases he : Spec.emptyTest br with
    | true =>
      rw [he] at hf
      cases hf
      have e : matchTok D br.kind c.μ t = (⟨emptyTok μ t, μ, .matched⟩, true) := by
        unfold matchTok; rw [hl, hk, hμ]; simp only []; rw [matchLine_blank_empty D μ t hb]; rfl
      refine ⟨0, ?_⟩
      unfold tryBranchesPure
      rw [prun_bind, run_matchP]
      simp only [e, hg, ↓reduceIte, prun_bind, prun_pure, hp, runProds]
      have ec : ({ c with μ := μ, calls := c.calls + 1 } : Ctx) = { c with calls := c.calls + (0 + 1) } := by
        rw [← hμ]
      rw [ec]
      rcases run (runProd T.errorCap stop (emptyTok μ t) Prod.build) { c with calls := c.calls + (0 + 1) } with ⟨r, c'⟩
      cases r with
      | ok a => simp only [ht]
      | error e => rfl
    | false =>
      rw [he] at hf
      have hne : br.kind ≠ .Empty ∧ br.kind ≠ .Other := by
        unfold Spec.emptyTest at he
        simp only [Bool.or_eq_false_iff, beq_eq_false_iff_ne, ne_eq] at he
        exact he
      have e : matchTok D br.kind c.μ t = (⟨t, μ, .no⟩, true) := by
        unfold matchTok; rw [hl, hμ]; simp only []
        rw [matchLine_blank_no D br.kind μ t hb hne (fun _ => hkw)]
      obtain ⟨n, hn⟩ := ih b0 hf hk ht hp hg { c with calls := c.calls + 1 } hμ
      refine ⟨n + 1, ?_⟩
      unfold tryBranchesPure
      rw [prun_bind, run_matchP]
      simp only [e, ↓reduceIte, Bool.false_eq_true]
      have ec : ({ c with μ := μ, calls := c.calls + 1 } : Ctx) = { c with calls := c.calls + 1 } := by
        rw [← hμ]
      rw [ec, hn]
      have ec2 : ({ c with calls := c.calls + 1 + (n + 1) } : Ctx) = { c with calls := c.calls + (n + 1 + 1) } := by
        have : c.calls + 1 + (n + 1) = c.calls + (n + 1 + 1) := by omega
        rw [this]
      show (match run (runProd T.errorCap stop (emptyTok μ t) Prod.build) { c with calls := c.calls + 1 + (n + 1) } with
        | (.ok _, c') => (Except.ok s, c')
        | (.error e, c') => (.error e, c')) = _
      rw [ec2]

/-- … for a state of the table that reads a blank line as `Empty` first -/
theorem matchTokenPure_blank (T : Table) (hE : Spec.emptySelfLoop T = true) (stop : Bool)
    {s : Nat} (hs : Spec.emptyFirst T s = true) {t : Token} {l : Str} (hl : t.line = some l) (hb : lstrip l = [])
    (c : Ctx) (hkw : ∀ kw ∈ c.μ.dialect.stepKeywords, kw ≠ []) :
    ∃ n, run (matchTokenPure D T stop s t) c =
      match run (runProd T.errorCap stop (emptyTok c.μ t) .build) { c with calls := c.calls + (n + 1) } with
      | (.ok _, c') => (.ok s, c')
      | (.error e, c') => (.error e, c') := by
  unfold Spec.emptyFirst at hs
  unfold matchTokenPure
  cases hrow : T.row? s with
  | none => rw [hrow] at hs; cases hs
  | some row =>
    rw [hrow] at hs
    simp only [] at hs ⊢
    cases hfind : row.branches.find? Spec.emptyTest with
    | none => rw [hfind] at hs; cases hs
    | some b0 =>
      rw [hfind] at hs
      have hk : b0.kind = .Empty := by simpa using hs
      have hrowmem : row ∈ T.rows := List.mem_of_find?_eq_some hrow
      have hid : row.id = s := by
        have := List.find?_some hrow
        simpa using this
      have hb0 : b0 ∈ row.branches := List.mem_of_find?_eq_some hfind
      unfold Spec.emptySelfLoop at hE
      rw [List.all_eq_true] at hE
      have h1 := hE row hrowmem
      rw [List.all_eq_true] at h1
      have h2 := h1 b0 hb0
      simp only [hk, bne_self_eq_false, Bool.false_or, Bool.and_eq_true, beq_iff_eq] at h2
      exact tryBranchesPure_blank T stop row c.μ hl hb hkw s row.branches b0 hfind hk
        (by rw [h2.1.1, hid]) h2.1.2 h2.2 c rfl

/-- the second run reads the inserted line in a state that reads it as `Empty` first: it comes back
    to that state with the line read and one blank-line token more in the open node -/
theorem blank_step (hD : Spec.stepKeywordsOk D = true) {T : Table} (hE : Spec.emptySelfLoop T = true)
    (hb : lstrip b = []) (stop : Bool) {s : Nat} (hs : Spec.emptyFirst T s = true) (fuel : Nat)
    {c1 c2 : Ctx} (hc : CtxRest D k c1 c2) (hst : c1.β.stack ≠ []) {q : List Str} (h2 : c2.lines = b :: q) :
    ∃ c2', run (parseLinesPure D T stop (fuel + 1) s) c2 = run (parseLinesPure D T stop fuel s) c2' ∧
      CtxRest D k c1 c2' ∧ c2'.lines = q ∧ c2'.lineNo = c2.lineNo + 1 := by
  rw [run_lines_cons T stop fuel s c2 h2]
  have hkw := kw_ne_nil hD (hc.μ ▸ hc.sane : Sane D c2.μ)
  obtain ⟨n, hn⟩ := matchTokenPure_blank (D := D) T hE stop hs (t := { line := some b, lineNo := c2.lineNo + 1 })
    rfl hb { c2 with lines := q, lineNo := c2.lineNo + 1, reads := c2.reads ++ [c2.lineNo + 1] } hkw
  rw [hn, run_runProd]
  simp only []
  rcases hc.β.build_extra (t := emptyTok c2.μ { line := some b, lineNo := c2.lineNo + 1 }) rfl with
    ⟨e1, _⟩ | ⟨β2', e2, hβ⟩
  · exact absurd e1 hst
  · rw [e2]
    exact ⟨_, rfl, ⟨hc.errors, hc.μ, hβ, hc.ids, hc.unexpected, hc.sane⟩, rfl, rfl⟩

/-! ### the whole parse -/

/-- the table facts the simulation uses -/
structure TableOkI (T : Table) : Prop where
  la : Spec.lookaheadsSkipEmpty T = true
  loop : Spec.emptySelfLoop T = true

theorem TableOkI.laOk {T : Table} (h : TableOkI T) (i : Nat) (la : LookAhead) (hla : T.lookaheads[i]? = some la) :
    LaOk la := by
  have hmem : la ∈ T.lookaheads := List.mem_of_getElem? hla
  have := h.la
  unfold Spec.lookaheadsSkipEmpty at this
  rw [List.all_eq_true] at this
  have h0 := this la hmem
  simp only [Bool.and_eq_true, Bool.not_eq_true', List.contains_eq_mem, decide_eq_true_eq,
    decide_eq_false_iff_not] at h0
  obtain ⟨⟨h1, h2⟩, h3⟩ := h0
  constructor
  · rw [List.any_eq_false]
    intro K hK hKe
    unfold emptyTestK at hKe
    simp only [Bool.or_eq_true, beq_iff_eq] at hKe
    rcases hKe with rfl | rfl
    · exact h2 hK
    · exact h3 hK
  · rw [List.any_eq_true]
    exact ⟨.Empty, h1, rfl⟩

theorem sim_lines (hD : Spec.stepKeywordsOk D = true) {T : Table} (hT : TableOkI T) (hb : lstrip b = [])
    (stop : Bool) (pre post : List Str) {c1 c2 : Ctx} (hc : CtxRest D pre.length c1 c2)
    (h1 : c1.lines = pre ++ post) (h2 : c2.lines = pre ++ b :: post) (hn1 : c1.lineNo = 0) (hn2 : c2.lineNo = 0)
    (hst : ∀ s flag c, run (parsePrefixPure D T stop pre.length 0) c1 = (.ok (s, flag), c) →
      Spec.emptyFirst T s = true ∧ c.β.stack ≠ []) :
    PostL D pre.length (fun _ c1' c2' => LinesIns b pre.length c1'.lines c1'.lineNo c2'.lines c2'.lineNo)
      (run (parseLinesPure D T stop ((pre ++ post).length + 2) 0) c1)
      (run (parseLinesPure D T stop ((pre ++ b :: post).length + 2) 0) c2) := by
  have e1 : (pre ++ post).length + 2 = pre.length + (post.length + 2) := by simp; omega
  have e2 : (pre ++ b :: post).length + 2 = pre.length + (post.length + 2 + 1) := by simp; omega
  rw [e1, e2, parseLinesPure_split, parseLinesPure_split, prun_bind, prun_bind]
  rcases sim_prefix hD hT.laOk hb stop post pre 0 c1 c2 hc h1 h2 (by rw [hn1, hn2]) (by rw [hn1]; simp) with
    ⟨a, c1', c2', r1, r2, hc', hflag, hl1, hl2, hno1, hno2⟩ | ⟨e, c1', c2', r1, r2, hc'⟩
  · obtain ⟨hs, hstk⟩ := hst a.1 a.2 c1' r1
    rw [r1, r2]
    simp only [hflag, Bool.false_eq_true, if_false]
    obtain ⟨c2'', hr, hc'', hl2', hno2'⟩ := blank_step hD hT.loop hb stop hs (post.length + 2) hc' hstk hl2
    rw [hr]
    exact sim_rest hD hT.laOk hb stop _ _ c1' c2'' hc'' (by rw [hl2', hl1]) (by rw [hno2', hno2, hno1])
      (by rw [hno1]; exact Nat.le_refl _)
  · rw [r1, r2]
    exact .inr ⟨e, c1', c2', rfl, rfl, hc'⟩

theorem sim_body (hD : Spec.stepKeywordsOk D = true) {T : Table} (hT : TableOkI T) (hb : lstrip b = [])
    (stop : Bool) (pre post : List Str) {c1 c2 : Ctx} (hc : CtxRest D pre.length c1 c2)
    (h1 : c1.lines = pre ++ post) (h2 : c2.lines = pre ++ b :: post) (hn1 : c1.lineNo = 0) (hn2 : c2.lineNo = 0)
    (hst : ∀ s flag c, run (parsePrefixPure D T stop pre.length 0) { c1 with β := c1.β.startRule T.startRule } =
      (.ok (s, flag), c) → Spec.emptyFirst T s = true ∧ c.β.stack ≠ []) :
    (∃ d c1' c2', run (parseBodyPure D T stop (pre ++ post).length) c1 = (.ok d, c1') ∧
      run (parseBodyPure D T stop (pre ++ b :: post).length) c2 = (.ok (mapDoc (insertMap pre.length) d), c2') ∧
      CtxRest D pre.length c1' c2') ∨
    (∃ e c1' c2', run (parseBodyPure D T stop (pre ++ post).length) c1 = (.error e, c1') ∧
      run (parseBodyPure D T stop (pre ++ b :: post).length) c2 = (.error (mapAbort (insertMap pre.length) e), c2') ∧
      CtxRest D pre.length c1' c2') := by
  unfold parseBodyPure
  rw [prun_bind, prun_bind, run_modify, run_modify]
  simp only []
  rw [prun_bind, prun_bind]
  have hc0 : CtxRest D pre.length { c1 with β := c1.β.startRule T.startRule }
      { c2 with β := c2.β.startRule T.startRule } :=
    ⟨hc.errors, hc.μ, hc.β.startRule _, hc.ids, hc.unexpected, hc.sane⟩
  rcases sim_lines hD hT hb stop pre post hc0 h1 h2 hn1 hn2 hst with
    ⟨a, c1', c2', r1, r2, hc', hl'⟩ | ⟨e, c1', c2', r1, r2, hc'⟩
  · rw [r1, r2]
    simp only []
    rw [prun_bind, prun_bind]
    rcases sim_runProd (D := D) (b := b) (k := pre.length) T.errorCap stop (t1 := default) (t2 := default)
        (.end_ T.startRule) (fun h => by cases h) c1' c2' hc' hl' with
      ⟨_, _, c1'', c2'', r1', r2', -, hc'', -, -⟩ | ⟨e, c1'', c2'', r1', r2', hc''⟩
    · rw [r1', r2']
      simp only []
      rw [prun_bind, prun_bind, run_get, run_get]
      simp only []
      have hemp : c2''.errors.isEmpty = c1''.errors.isEmpty := by rw [hc''.errors]; simp
      rw [hemp]
      by_cases he : (!c1''.errors.isEmpty) = true
      · rw [if_pos he, if_pos he, prun_bind, prun_bind, prun_throw, prun_throw]
        refine .inr ⟨_, _, _, rfl, ?_, hc''⟩
        simp only [mapAbort, hc''.errors]
      · rw [if_neg he, if_neg he, hc''.β.result]
        cases hres : c1''.β.result with
        | error e =>
          cases e with
          | crash w => exact .inr ⟨_, _, _, rfl, rfl, hc''⟩
          | ast e => exact absurd hres (result_not_ast _ _)
        | ok o =>
          cases o with
          | none => exact .inr ⟨_, _, _, rfl, rfl, hc''⟩
          | some d => exact .inl ⟨_, _, _, rfl, rfl, hc''⟩
    · rw [r1', r2']
      exact .inr ⟨_, _, _, rfl, rfl, hc''⟩
  · rw [r1, r2]
    exact .inr ⟨_, _, _, rfl, rfl, hc'⟩

/-- **Whole queue-free parse.**  The text with a whitespace-only line inserted after the first
    `pre.length` lines is parsed to the outcome of the original with the line numbers behind the
    insertion point moved down by one, provided the state in which the original run stands there
    reads a blank line as `Empty` first (and the builder has an open node — always the case, see
    `stack_ne_nil_of_depths`). -/
theorem parseWithPure_blank {D : List Dialect} (hD : Spec.stepKeywordsOk D = true) {T : Table} (hT : TableOkI T)
    {b : Str} (hb : AllSpace b) (stop : Bool) (μ : MState) (ids : Nat) {src src' : Str} (pre post : List Str)
    (h1 : splitLines src = pre ++ post) (h2 : splitLines src' = pre ++ b :: post)
    (hμ : (μ.reset D).dialect ∈ D)
    (hst : ∀ s c, Spec.runAfter D T stop μ ids src pre.length = some (s, c) →
      Spec.emptyFirst T s = true ∧ c.β.stack ≠ []) :
    (parseWithPure D T stop μ ids src').1 =
      mapOutcome (insertMap pre.length) (parseWithPure D T stop μ ids src).1 ∧
    CtxRest D pre.length (parseWithPure D T stop μ ids src).2 (parseWithPure D T stop μ ids src').2 := by
  unfold parseWithPure
  simp only []
  rw [h1, h2]
  have hc0 : CtxRest D pre.length
      { lines := pre ++ post, μ := μ.reset D, β := BState.reset, ids := ids }
      { lines := pre ++ b :: post, μ := μ.reset D, β := BState.reset, ids := ids } :=
    ⟨rfl, rfl, BMap.reset, rfl, rfl, ⟨(by intro sep hsep; unfold MState.reset at hsep; cases hsep), hμ⟩⟩
  have hst' : ∀ s flag c, run (parsePrefixPure D T stop pre.length 0)
      { ({ lines := pre ++ post, μ := μ.reset D, β := BState.reset, ids := ids } : Ctx) with
        β := BState.reset.startRule T.startRule } = (.ok (s, flag), c) →
      Spec.emptyFirst T s = true ∧ c.β.stack ≠ [] := by
    intro s flag c hr
    refine hst s c ?_
    unfold Spec.runAfter Spec.startCtx
    rw [h1]
    unfold run at hr
    rw [hr]
  rcases sim_body hD hT (lstrip_allSpace hb) stop pre post hc0 rfl rfl rfl rfl hst' with
    ⟨d, c1', c2', r1, r2, hc'⟩ | ⟨e, c1', c2', r1, r2, hc'⟩
  · unfold run at r1 r2
    rw [r1, r2]
    exact ⟨rfl, hc'⟩
  · unfold run at r1 r2
    rw [r1, r2]
    cases e <;> exact ⟨rfl, hc'⟩

end sim

/-! ### transfer to the parser with the token queue -/

/-- what is observable of two final contexts: error list and reported lines renamed, matcher state
    and id counter equal -/
structure CtxObs (f : LocMap) (c1 c2 : Ctx) : Prop where
  errors : c2.errors = c1.errors.map (mapErr f)
  μ : c2.μ = c1.μ
  ids : c2.ids = c1.ids
  unexpected : c2.unexpected = c1.unexpected.map f.ln

/-- **Inserting a whitespace-only line**, generic in the dialect table and the transition table. -/
theorem blank_line_parseWith {D : List Dialect} {T : Table} (hD : Spec.stepKeywordsOk D = true)
    (hQD : Spec.queueDialectFacts D = true) (hQT : Spec.queueFacts T = true)
    (hCB : Spec.commentBlankTested T = true) (hT : TableOkI T) {ds : List (Nat × Nat)}
    (hds : Spec.depthsOk T ds = true) {b : Str} (hb : AllSpace b) (stop : Bool) (μ : MState) (ids : Nat)
    {src src' : Str} (pre post : List Str)
    (h1 : splitLines src = pre ++ post) (h2 : splitLines src' = pre ++ b :: post)
    (hμ : (μ.reset D).dialect ∈ D)
    (hst : ∀ s, Spec.stateAfter D T stop μ ids src pre.length = some s → Spec.emptyFirst T s = true) :
    (parseWith D T stop μ ids src').1 = mapOutcome (insertMap pre.length) (parseWith D T stop μ ids src).1 ∧
    CtxObs (insertMap pre.length) (parseWith D T stop μ ids src).2 (parseWith D T stop μ ids src').2 := by
  have hst' : ∀ s c, Spec.runAfter D T stop μ ids src pre.length = some (s, c) →
      Spec.emptyFirst T s = true ∧ c.β.stack ≠ [] := by
    intro s c hr
    have hs : Spec.emptyFirst T s = true := hst s (by unfold Spec.stateAfter; rw [hr]; rfl)
    refine ⟨hs, stack_ne_nil_of_depths hds stop μ ids src pre.length s c hr ?_⟩
    unfold Spec.emptyFirst at hs
    cases hrow : T.row? s with
    | none => rw [hrow] at hs; cases hs
    | some row => rfl
  obtain ⟨ho, hc⟩ := parseWithPure_blank hD hT hb stop μ ids pre post h1 h2 hμ hst'
  have q1 := queue_refines_peek D T hQD hQT hCB stop μ ids src hμ
  have q2 := queue_refines_peek D T hQD hQT hCB stop μ ids src' hμ
  have o1 := congrArg Spec.Observed.outcome q1
  have o2 := congrArg Spec.Observed.outcome q2
  have e1 := congrArg Spec.Observed.errors q1
  have e2 := congrArg Spec.Observed.errors q2
  have m1 := congrArg Spec.Observed.μ q1
  have m2 := congrArg Spec.Observed.μ q2
  have i1 := congrArg Spec.Observed.ids q1
  have i2 := congrArg Spec.Observed.ids q2
  have u1 := congrArg Spec.Observed.unexpected q1
  have u2 := congrArg Spec.Observed.unexpected q2
  simp only [Spec.observe] at o1 o2 e1 e2 m1 m2 i1 i2 u1 u2
  refine ⟨by rw [o1, o2]; exact ho, ?_, ?_, ?_, ?_⟩
  · rw [e1, e2]; exact hc.errors
  · rw [m1, m2]; exact hc.μ
  · rw [i1, i2]; exact hc.ids
  · rw [u1, u2]; exact hc.unexpected

end Layout3
end GV
