/-
  Lemmas/ParseLink.lean — the LINK: for every accepted document the AST the parser returns is
  `Spec.astOf` of a token tree whose leaves are the tokens handed to the builder, whose kind
  projection is the derivation tree of the kind-level run on the intrinsic line kinds, whose leaves
  are well matched and whose doc strings are opened.

  `body_clean`: the accepted queue-free parse = a `Trace` + the builder ran the trace's calls
  between `start_rule(startRule)` and the final `end_rule`.  `pure_link`: the tree, for the
  queue-free parse.  `parse_link`: transferred to the parser with its queue by
  `queue_refines_peek` (outcome, `builds` and `ids` are observable).  Generic in the dialect table,
  the parser table and the grammar, under Boolean facts (`LinkFacts`).
-/
import GherkinVerif.Lemmas.ParseClean
import GherkinVerif.Lemmas.StopFirst
import GherkinVerif.Lemmas.AstLocs
namespace GV
namespace Lemmas
open Spec

/-! ### the body of an accepted queue-free parse -/

theorem body_clean {D : List Dialect} {T : Table} (hf : textDialectFacts D = true) (F : QF D T) (n : Nat) (p : Ctx)
    (hμ : MuOK D p.μ) {d : Doc} {c' : Ctx} (h : run (parseBodyPure D T false n) p = (.ok d, c')) :
    ∃ steps sf, Trace D T 0 p.μ p.lines sf steps ∧
      applyOps (.start T.startRule :: (stepsOps steps ++ [.end_])) p.β p.ids = (.ok (), c'.β, c'.ids) ∧
      c'.builds = p.builds ++ opToks (stepsOps steps) ∧ c'.β.result = .ok (some d) := by
  rw [parseBodyPure, prun_bind, run_modify] at h
  dsimp only at h
  rw [prun_bind] at h
  rcases hr1 : run (parseLinesPure D T false (n + 2) 0) { p with β := p.β.startRule T.startRule } with ⟨r1, c1⟩
  rw [hr1] at h
  cases r1 with
  | error a => cases h
  | ok s1 =>
    dsimp only at h
    rw [prun_bind] at h
    rcases hr2 : run (runProd T.errorCap false default (.end_ T.startRule)) c1 with ⟨r2, c2⟩
    rw [hr2] at h
    cases r2 with
    | error a => cases h
    | ok u =>
      cases u
      dsimp only at h
      rw [prun_bind, run_get] at h
      dsimp only at h
      split at h
      · rw [prun_bind, prun_throw] at h
        cases h
      · rename_i hne
        have hemp : c2.errors = [] := by
          cases he : c2.errors with
          | nil => rfl
          | cons a l => simp [he] at hne
        have hfin : c' = c2 ∧ c2.β.result = .ok (some d) := by
          split at h
          · rename_i d' hres
            rw [prun_pure] at h
            cases h
            exact ⟨rfl, hres⟩
          · rw [prun_throw] at h; cases h
          · rw [prun_throw] at h; cases h
          · rw [prun_throw] at h; cases h
        obtain ⟨rfl, hres⟩ := hfin
        obtain ⟨hend, -, hc1⟩ := runProd_clean hr2 hemp
        obtain ⟨steps, htr, hops, hbuilds⟩ := lines_clean hf F (n + 2) 0 { p with β := p.β.startRule T.startRule } hμ s1 c1 hr1 hc1
        refine ⟨steps, s1, htr, ?_, ?_, hres⟩
        · rw [applyOps_start, applyOps_append_ok _ _ _ _ _ _ hops]
          exact hend.1
        · rw [hend.2.1, hbuilds]
          simp [prodOps, opToks]

/-! ### from the steps of a trace to call sequence facts -/

theorem opsEvs_steps (steps : List (Branch × Token)) (h : ∀ p ∈ steps, p.2.mtype = some p.1.kind) :
    OpsEvs (stepsOps steps) (stepsEvs steps) := by
  induction steps with
  | nil => exact .nil
  | cons p steps ih =>
    simp only [stepsOps, stepsEvs, List.flatMap_cons]
    exact OpsEvs.append (opsEvs_prod p.2 p.1.kind (h p (List.mem_cons_self ..)) p.1.prods)
      (ih fun q hq => h q (List.mem_cons_of_mem _ hq))

theorem adjOK_steps (steps : List (Branch × Token)) (h : ∀ p ∈ steps, adjOK (prodOps p.2 p.1.prods)) :
    adjOK (stepsOps steps) := by
  induction steps with
  | nil => trivial
  | cons p steps ih =>
    simp only [stepsOps, List.flatMap_cons]
    exact adjOK_append (h p (List.mem_cons_self ..)) (ih fun q hq => h q (List.mem_cons_of_mem _ hq))

theorem mem_opToks_steps (steps : List (Branch × Token)) (tk : Token) (h : tk ∈ opToks (stepsOps steps)) :
    ∃ p ∈ steps, tk = p.2 := by
  induction steps with
  | nil => cases h
  | cons p steps ih =>
    simp only [stepsOps, List.flatMap_cons, opToks_append, List.mem_append] at h
    rcases h with h | h
    · exact ⟨p, List.mem_cons_self .., opToks_prodOps_mem _ _ _ h⟩
    · obtain ⟨q, hq, hqe⟩ := ih h
      exact ⟨q, List.mem_cons_of_mem _ hq, hqe⟩

theorem reset_inDocString (D : List Dialect) (μ : MState) : (μ.reset D).inDocString = false := by
  unfold MState.reset MState.inDocString
  rfl

/-! ### the link, for the queue-free parse -/

/-- the Boolean facts about the dialect table, the parser table and the grammar the link uses -/
structure LinkFacts (D : List Dialect) (T : Table) (G : Grammar) (fuel : Nat) : Prop where
  dialects : textDialectFacts D = true
  queue : queueFacts T = true
  commentBlank : commentBlankTested T = true
  content : contentEntry T = true
  docOpens : docStringOpens T = true
  typed : typedCheck G T fuel = true
  shape : shapeCheck G = true
  start : T.startRule = .GherkinDocument

/-- what the link says about an accepted document `d`, the tokens `builds` handed to the builder,
    the incoming counter `ids` and the counter `ids'` afterwards -/
def LinkTree (D : List Dialect) (T : Table) (G : Grammar) (μ0 : MState) (lines : List Str)
    (d : Doc) (builds : List Token) (ids ids' : Nat) (t : TTree) : Prop :=
  t.isDocument = true ∧ leaves t = builds ∧
  ValidTree G .GherkinDocument t.kinds ∧
  (∃ evs, eventsAbs T (textKinds D T 0 μ0 lines) = some evs ∧ treeOf evs = some t.kinds) ∧
  (∀ tk ∈ leaves t, WellMatched tk) ∧ DocStringsOpened t ∧
  (astOf (commentsOf t) t).run.run ids = (.ok (.doc d), ids')

theorem pure_link {D : List Dialect} {T : Table} {G : Grammar} {fuel : Nat} (L : LinkFacts D T G fuel)
    (μ : MState) (ids : Nat) (src : Str) (hμ : (μ.reset D).dialect ∈ D) (d : Doc)
    (h : (parseWithPure D T false μ ids src).1 = .ok d) :
    ∃ t, LinkTree D T G (μ.reset D) (splitLines src) d (parseWithPure D T false μ ids src).2.builds ids
      (parseWithPure D T false μ ids src).2.ids t := by
  have F := QF.of_facts (queueDialectFacts_of_text L.dialects) L.queue
  have hpw := parseWithPure_eq D T false μ ids src
  rcases hr : run (parseBodyPure D T false (splitLines src).length) (ctx0 D μ ids src) with ⟨r, c⟩
  rw [hr] at hpw
  have hμ0 : MuOK D (ctx0 D μ ids src).μ := ⟨hμ, reset_sepOK D μ⟩
  cases r with
  | error e =>
    exfalso
    rw [hpw] at h
    cases e <;> cases h
  | ok d' =>
    dsimp only at hpw
    rw [hpw] at h ⊢
    dsimp only at h ⊢
    cases h
    obtain ⟨steps, sf, htr, hops, hbuilds, hres⟩ := body_clean L.dialects F _ _ hμ0 hr
    have htr' : Trace D T 0 (μ.reset D) (splitLines src) sf steps := htr
    have hops' : applyOps (.start T.startRule :: (stepsOps steps ++ [.end_])) BState.reset ids = (.ok (), c.β, c.ids) := hops
    have hbuilds' : c.builds = opToks (stepsOps steps) := by
      rw [hbuilds]; rfl
    -- the kind-level run and its derivation tree
    have hrun := trace_runAbs F htr'
    have heva : eventsAbs T (textKinds D T 0 (μ.reset D) (splitLines src)) =
        some ([.start T.startRule] ++ stepsEvs steps ++ [.end_ T.startRule]) := by
      unfold eventsAbs; rw [hrun]; rfl
    obtain ⟨tk, htree, hvalid, -⟩ := events_valid_tree_gen L.typed _
      (textKinds_no_EOF D T (splitLines src) 0 (μ.reset D)) _ heva
    -- the token tree
    have htoks := trace_tokens htr'
    have hoe : OpsEvs (.start T.startRule :: (stepsOps steps ++ [.end_]))
        ([.start T.startRule] ++ stepsEvs steps ++ [.end_ T.startRule]) := by
      have h1 := opsEvs_steps steps fun p hp => (htoks p hp).1
      have h2 : OpsEvs [.end_] [.end_ T.startRule] := .cons (.end_ _) .nil
      simpa using OpsEvs.cons (.start T.startRule) (OpsEvs.append h1 h2)
    obtain ⟨t, ht, hk⟩ := ttreeOf_kinds _ _ hoe tk htree
    obtain ⟨hopsOf, hleaves⟩ := ttreeOf_flat _ t ht
    have hleaves' : leaves t = opToks (stepsOps steps) := by
      rw [hleaves]; simp [opToks, opToks_append]
    have hv : ValidTree G .GherkinDocument t.kinds := by rw [hk, ← L.start]; exact hvalid
    have hs : shaped t = true := shaped_of_validTree L.shape _ t hv
    have hdoc : t.isDocument = true := by
      obtain ⟨ch, rfl⟩ := root_of_validTree t hv
      exact isDocument_of_shaped ch hs
    -- doc strings
    have hinv : (μ.reset D).inDocString = (contentStates T).contains 0 := by
      rw [reset_inDocString]
      have := L.docOpens
      simp only [docStringOpens, Bool.and_eq_true, Bool.not_eq_true'] at this
      exact this.1.symm
    have hadj : adjOK (.start T.startRule :: (stepsOps steps ++ [.end_])) := by
      refine ⟨fun hr => ?_, adjOK_append (adjOK_steps steps (trace_adj L.dialects L.content L.docOpens htr' hμ0 hinv)) trivial⟩
      rw [L.start] at hr; cases hr
    refine ⟨t, hdoc, by rw [hleaves', hbuilds'], hv, ⟨_, heva, by rw [hk]; exact htree⟩, ?_, ttreeOf_opened _ t hadj ht, ?_⟩
    · intro x hx
      rw [hleaves'] at hx
      obtain ⟨p, hp, rfl⟩ := mem_opToks_steps steps x hx
      exact (htoks p hp).2
    · rw [← hopsOf] at hops'
      obtain ⟨hok, herr⟩ := ast_of_tree t hdoc ids
      rcases hra : (astOf (commentsOf t) t).run.run ids with ⟨ra, n'⟩
      cases ra with
      | error e =>
        obtain ⟨β, hβ⟩ := herr e n' hra
        rw [hops'] at hβ
        cases hβ
      | ok v =>
        obtain ⟨β, hβ, -, -, d', rfl, hres', -⟩ := hok v n' hra
        rw [hops'] at hβ
        cases hβ
        rw [hres] at hres'
        cases hres'
        rfl

/-! ### the link, for the parser with its queue -/

theorem parse_link {D : List Dialect} {T : Table} {G : Grammar} {fuel : Nat} (L : LinkFacts D T G fuel)
    (μ : MState) (ids : Nat) (src : Str) (hμ : (μ.reset D).dialect ∈ D) (d : Doc)
    (h : (parseWith D T false μ ids src).1 = .ok d) :
    ∃ t, LinkTree D T G (μ.reset D) (splitLines src) d (parseWith D T false μ ids src).2.builds ids
      (parseWith D T false μ ids src).2.ids t := by
  have hobs := queue_refines_peek D T (queueDialectFacts_of_text L.dialects) L.queue L.commentBlank false μ ids src hμ
  have ho : (parseWith D T false μ ids src).1 = (parseWithPure D T false μ ids src).1 := congrArg Spec.Observed.outcome hobs
  have hb : (parseWith D T false μ ids src).2.builds = (parseWithPure D T false μ ids src).2.builds :=
    congrArg Spec.Observed.builds hobs
  have hi : (parseWith D T false μ ids src).2.ids = (parseWithPure D T false μ ids src).2.ids :=
    congrArg Spec.Observed.ids hobs
  rw [hb, hi]
  exact pure_link L μ ids src hμ d (ho ▸ h)

/-- the same in stop-at-first-error mode: an accepted run is the same run in both modes -/
theorem parse_link_stop {D : List Dialect} {T : Table} {G : Grammar} {fuel : Nat} (L : LinkFacts D T G fuel)
    (μ : MState) (ids : Nat) (src : Str) (hμ : (μ.reset D).dialect ∈ D) (d : Doc)
    (h : (parseWith D T true μ ids src).1 = .ok d) :
    ∃ t, LinkTree D T G (μ.reset D) (splitLines src) d (parseWith D T true μ ids src).2.builds ids
      (parseWith D T true μ ids src).2.ids t := by
  have heq := accept_same_run D T μ ids src d (.inl h)
  rw [heq] at h ⊢
  exact parse_link L μ ids src hμ d h

/-! ### corollaries of the link -/

theorem LinkTree.shaped {D : List Dialect} {T : Table} {G : Grammar} (hSh : shapeCheck G = true) {μ0 : MState}
    {lines : List Str} {d : Doc} {builds : List Token} {ids ids' : Nat} {t : TTree}
    (h : LinkTree D T G μ0 lines d builds ids ids' t) : shaped t = true :=
  shaped_of_validTree hSh _ t h.2.2.1

/-- every element once, in source order; comments; canonical ids -/
theorem LinkTree.ast_facts {D : List Dialect} {T : Table} {G : Grammar} (hSh : shapeCheck G = true) {μ0 : MState}
    {lines : List Str} {d : Doc} {builds : List Token} {ids ids' : Nat} {t : TTree}
    (h : LinkTree D T G μ0 lines d builds ids ids' t) :
    srcLocs d = elemLocs t ∧ srcLines d = elemLines t ∧ d.comments = commentsOf t ∧
    canonicalIds d = List.range' ids (ids' - ids) ∧ ids ≤ ids' := by
  have hs := h.shaped hSh
  obtain ⟨hdoc, -, -, -, -, -, hast⟩ := h
  obtain ⟨β, -, -, -, d', hd', -, hcm⟩ := (ast_of_tree t hdoc ids).1 _ _ hast
  cases hd'
  exact ⟨leaves_once_in_order t hs _ ids ids' d hast, lines_once_in_order t hs _ ids ids' d hast, hcm,
    ast_ids_canonical t hs _ ids ids' d hast⟩

end Lemmas
end GV
