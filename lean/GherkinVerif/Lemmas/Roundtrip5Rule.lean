/-
  Lemmas/Roundtrip5Rule.lean — round trip, fifth model (rules): the fully proved pieces — the table
  facts for entering a rule, and the look-ahead on a rule's tag line (a tag line followed by a rule
  line: look-ahead 1 and look-ahead 0 both answer no, the unguarded `TagLine` branch is taken).
  (The block induction for the rule-level states is in Roundtrip5Blocks / Roundtrip5Doc.)
-/
import GherkinVerif.Spec.Render5
import GherkinVerif.Lemmas.Roundtrip4Doc
set_option linter.unusedSectionVars false
set_option linter.unusedSimpArgs false
set_option linter.unusedVariables false
namespace GV
namespace Lemmas
open Spec

/-- the unguarded `TagLine` branch, provided only specific non-tag tests and GUARDED `TagLine` tests
    (look-ahead 0 or 1) come before it -/
def firstTagU : List Branch → Option Branch
  | [] => none
  | b :: bs =>
    if b.kind == .TagLine then
      (if b.guard == none then some b
       else if b.guard == some 0 || b.guard == some 1 then firstTagU bs else none)
    else if b.kind == .Other then none else firstTagU bs

/-- entering a rule from state `s` whose open nodes are closed by `cl`: the rule-line branch and the
    unguarded tag-line branch -/
def ruleEntryOK (T : Table) (s : Nat) (cl : List Prod) : Bool :=
  rowHas T s fun row =>
    firstOf .RuleLine row.branches ==
      some ⟨.RuleLine, none, cl ++ [.start .Rule, .start .RuleHeader, .build], 19⟩ &&
    firstTagU row.branches ==
      some ⟨.TagLine, none, cl ++ [.start .Rule, .start .RuleHeader, .start .Tags, .build], 18⟩

/-- the table facts for ENTERING a rule: from every feature-level state a scenario can follow (3;
    background 5 / 7 / 8; scenario 10 / 12 / 13; examples 15 / 17), from the rule header itself (19:
    a rule without children), and the rule line after the rule's tag line (18) -/
def rt5EntryFacts (T : Table) : Bool :=
  rt4Facts T &&
  ruleEntryOK T 3 [.end_ .FeatureHeader] &&
  ruleEntryOK T 5 (closeB 5) && ruleEntryOK T 7 (closeB 7) && ruleEntryOK T 8 (closeB 8) &&
  ruleEntryOK T 10 (pendE 10 ++ [.end_ .Scenario, .end_ .ScenarioDefinition]) &&
  ruleEntryOK T 12 (pendE 12 ++ [.end_ .Scenario, .end_ .ScenarioDefinition]) &&
  ruleEntryOK T 13 (pendE 13 ++ [.end_ .Scenario, .end_ .ScenarioDefinition]) &&
  ruleEntryOK T 15 (pendE 15 ++ [.end_ .Scenario, .end_ .ScenarioDefinition]) &&
  ruleEntryOK T 17 (pendE 17 ++ [.end_ .Scenario, .end_ .ScenarioDefinition]) &&
  ruleEntryOK T 19 [.end_ .RuleHeader, .end_ .Rule] &&
  rowHas T 18 (fun row => firstOf .RuleLine row.branches == some ⟨.RuleLine, none, [.end_ .Tags, .build], 19⟩)

section peekR
variable (D : List Dialect) (cap : Nat) (stop : Bool)
variable {c : Ctx} {ls : List Str} {n : Nat} {μ : MState} {β : BState} {i : Nat}
variable (l2 : Str)
variable (hno2 : ∀ K', K' ≠ .RuleLine → K' ≠ .Other →
  matchLine D K' μ { line := some l2, lineNo := n + 1 } l2 = ⟨{ line := some l2, lineNo := n + 1 }, μ, .no⟩)
include hno2

/-- peeking for an `Examples` line at a rule line: no -/
theorem peek1_false_rule (h : At c (l2 :: ls) n μ β i) :
    ∃ c', run (lookaheadPure D cap stop la1) c = (.ok false, c') ∧ At c' (l2 :: ls) n μ β i := by
  obtain ⟨c1, r1, h1⟩ := matchP_line D cap stop h .ExamplesLine _ _ l2 rfl false (hno2 _ (by decide) (by decide))
  obtain ⟨c2, r2, h2⟩ := matchP_line D cap stop h1 .Empty _ _ l2 rfl false (hno2 _ (by decide) (by decide))
  obtain ⟨c3, r3, h3⟩ := matchP_line D cap stop h2 .Comment _ _ l2 rfl false (hno2 _ (by decide) (by decide))
  obtain ⟨c4, r4, h4⟩ := matchP_line D cap stop h3 .TagLine _ _ l2 rfl false (hno2 _ (by decide) (by decide))
  refine ⟨c4, ?_, h4⟩
  rw [lookaheadPure, prun_bind, run_get]
  simp only [h.lines, h.lineNo, la1, peekLoop, matchAny, prun_bind, r1, r2, r3, r4, prun_pure,
    Bool.false_eq_true, if_false]

/-- peeking for a scenario line at a rule line: no -/
theorem peek0_false_rule (h : At c (l2 :: ls) n μ β i) :
    ∃ c', run (lookaheadPure D cap stop la0) c = (.ok false, c') ∧ At c' (l2 :: ls) n μ β i := by
  obtain ⟨c1, r1, h1⟩ := matchP_line D cap stop h .ScenarioLine _ _ l2 rfl false (hno2 _ (by decide) (by decide))
  obtain ⟨c2, r2, h2⟩ := matchP_line D cap stop h1 .Empty _ _ l2 rfl false (hno2 _ (by decide) (by decide))
  obtain ⟨c3, r3, h3⟩ := matchP_line D cap stop h2 .Comment _ _ l2 rfl false (hno2 _ (by decide) (by decide))
  obtain ⟨c4, r4, h4⟩ := matchP_line D cap stop h3 .TagLine _ _ l2 rfl false (hno2 _ (by decide) (by decide))
  refine ⟨c4, ?_, h4⟩
  rw [lookaheadPure, prun_bind, run_get]
  simp only [h.lines, h.lineNo, la0, peekLoop, matchAny, prun_bind, r1, r2, r3, r4, prun_pure,
    Bool.false_eq_true, if_false]

/-- a tag line followed by a rule line takes the UNGUARDED `TagLine` branch: every guarded one before
    it matches the tag line, peeks, and is answered no -/
theorem try_tagU (T : Table) (row : StateRow) (hla : T.lookaheads = [la0, la1]) (l : Str) (tt : Token)
    (htt : tt.line = some l) (m : Nat) (httn : tt.lineNo = m)
    (hno : ∀ t K', K' ≠ .TagLine → K' ≠ .Other → matchLine D K' μ t l = ⟨t, μ, .no⟩)
    (hyes : ∀ t, t.line = some l → t.lineNo = m → matchLine D .TagLine μ t l = ⟨tt, μ, .matched⟩)
    (β' : BState) (i' : Nat) :
    ∀ (bs : List Branch) (b : Branch), firstTagU bs = some b →
      applyOps (prodOps tt b.prods) β i = (.ok (), β', i') →
      ∀ (t : Token) (c : Ctx), t.line = some l → t.lineNo = m → At c (l2 :: ls) n μ β i →
      ∃ c', run (tryBranchesPure D T stop row bs t) c = (.ok b.target, c') ∧ At c' (l2 :: ls) n μ β' i' := by
  intro bs
  induction bs with
  | nil => intro b h; cases h
  | cons a bs ih =>
    intro b hb hops t c hl hln h
    simp only [firstTagU] at hb
    split at hb
    · next hk =>
      have hk' : a.kind = .TagLine := by simpa using hk
      obtain ⟨c1, r1, h1⟩ := matchP_line D T.errorCap stop h a.kind t tt l hl true (hk' ▸ hyes t hl hln)
      split at hb
      · next hg =>
        cases hb
        have hg' : a.guard = none := by simpa using hg
        obtain ⟨c', r3, hc'⟩ := runProds_ok T.errorCap stop tt a.prods h1 β' i' hops
        refine ⟨c', ?_, hc'⟩
        rw [tryBranchesPure, prun_bind, r1]
        simp only [hg', if_true, prun_bind, prun_pure, r3]
      · split at hb
        · next hg =>
          simp only [Bool.or_eq_true, beq_iff_eq] at hg
          rcases hg with hg' | hg'
          · obtain ⟨c2, r2, h2⟩ := peek0_false_rule D T.errorCap stop l2 hno2 h1
            obtain ⟨c', r3, hc'⟩ := ih b hb hops tt c2 htt httn h2
            refine ⟨c', ?_, hc'⟩
            rw [tryBranchesPure, prun_bind, r1]
            simp only [hg', hla, if_true, prun_bind, prun_pure, List.getElem?_cons_zero,
              r2, Bool.false_eq_true, if_false, r3]
          · obtain ⟨c2, r2, h2⟩ := peek1_false_rule D T.errorCap stop l2 hno2 h1
            obtain ⟨c', r3, hc'⟩ := ih b hb hops tt c2 htt httn h2
            refine ⟨c', ?_, hc'⟩
            rw [tryBranchesPure, prun_bind, r1]
            simp only [hg', hla, if_true, prun_bind, prun_pure, List.getElem?_cons_succ, List.getElem?_cons_zero,
              r2, Bool.false_eq_true, if_false, r3]
        · cases hb
    · next hk =>
      split at hb
      · cases hb
      · next ho =>
        obtain ⟨c1, r1, h1⟩ := matchP_line D T.errorCap stop h a.kind t t l hl false
          (hno t _ (by simpa using hk) (by simpa using ho))
        obtain ⟨c', r3, hc'⟩ := ih b hb hops t c1 hl hln h1
        refine ⟨c', ?_, hc'⟩
        rw [tryBranchesPure, prun_bind, r1]
        simp only [Bool.false_eq_true, if_false, r3]

end peekR

end Lemmas
end GV
