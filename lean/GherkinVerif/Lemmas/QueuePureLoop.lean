/-
  Lemmas/QueuePureLoop.lean — `match_token`, the main loop and the whole parse with the token
  queue simulate their queue-free versions of Spec/PureParse.lean (C18_queue_refines_peek).
-/
import GherkinVerif.Lemmas.QueuePure
import GherkinVerif.Spec.PureFacts
namespace GV
namespace Lemmas
open Spec

/-! ### relational triples: an imperative run and the pure run from the pure context -/

/-- every run of `m` from a context satisfying `P` is matched by the run of `m'` from the pure
    context: related results (`V`), pure context of the final context; `Q` holds afterwards -/
def RT {α α'} (L : List Str) (k : Nat) (P : Ctx → Prop) (m : PM α) (m' : PM α') (V : α → α' → Prop)
    (Q : α → Ctx → Prop) : Prop :=
  ∀ c, P c → ∀ r c', run m c = (r, c') →
    match r with
    | .ok a => ∃ a', run m' (pureOf L k c) = (.ok a', pureOf L k c') ∧ V a a' ∧ Q a c'
    | .error e => run m' (pureOf L k c) = (.error e, pureOf L k c')

section RT
variable {L : List Str} {k : Nat}

theorem RT.bind {α α' β β'} {P : Ctx → Prop} {m : PM α} {m' : PM α'} {V : α → α' → Prop} {Q : α → Ctx → Prop}
    {f : α → PM β} {f' : α' → PM β'} {V2 : β → β' → Prop} {Q2 : β → Ctx → Prop}
    (h1 : RT L k P m m' V Q) (h2 : ∀ a a', V a a' → RT L k (Q a) (f a) (f' a') V2 Q2) :
    RT L k P (m >>= f) (m' >>= f') V2 Q2 := by
  intro c hc r c' h
  rw [prun_bind] at h ⊢
  rcases hr : run m c with ⟨r1, c1⟩
  rw [hr] at h
  have := h1 c hc r1 c1 hr
  cases r1 with
  | ok a =>
    obtain ⟨a', hr', hv, hq⟩ := this
    rw [hr']
    exact h2 a a' hv c1 hq r c' h
  | error e =>
    dsimp only at this h
    rw [this]
    cases h
    rfl

theorem RT.pure {α α'} {P : Ctx → Prop} {V : α → α' → Prop} {Q : α → Ctx → Prop} (a : α) (a' : α')
    (hv : V a a') (hq : ∀ c, P c → Q a c) : RT L k P (pure a : PM α) (pure a' : PM α') V Q := by
  intro c hc r c' h
  rw [prun_pure] at h
  cases h
  exact ⟨a', rfl, hv, hq c hc⟩

theorem RT.throw {α α'} {P : Ctx → Prop} {V : α → α' → Prop} {Q : α → Ctx → Prop} (e : Abort) :
    RT L k P (throw e : PM α) (throw e : PM α') V Q := by
  intro c hc r c' h
  rw [prun_throw] at h
  cases h
  rfl

theorem RT.assume {α α'} {φ : Prop} {P : Ctx → Prop} {m : PM α} {m' : PM α'} {V : α → α' → Prop} {Q : α → Ctx → Prop}
    (h : φ → RT L k P m m' V Q) : RT L k (fun c => φ ∧ P c) m m' V Q := fun c hc => h hc.1 c hc.2

theorem RT.conseq {α α'} {P P' : Ctx → Prop} {m : PM α} {m' : PM α'} {V : α → α' → Prop} {Q Q' : α → Ctx → Prop}
    (h : RT L k P m m' V Q) (hp : ∀ c, P' c → P c) (hq : ∀ a c, Q a c → Q' a c) : RT L k P' m m' V Q' := by
  intro c hc r c' hr
  have := h c (hp c hc) r c' hr
  cases r with
  | ok a =>
    obtain ⟨a', h1, h2, h3⟩ := this
    exact ⟨a', h1, h2, hq a c' h3⟩
  | error e => exact this

theorem RT.of_forall {α α'} {P : Ctx → Prop} {m : PM α} {m' : PM α'} {V : α → α' → Prop} {Q : α → Ctx → Prop}
    (h : ∀ c0, P c0 → RT L k (fun c => c = c0) m m' V Q) : RT L k P m m' V Q :=
  fun c hc => h c hc c rfl

/-- an operation that leaves the scanner fields alone simulates itself -/
theorem RT.of_frame {α} {P : Ctx → Prop} {m : PM α} {Q : α → Ctx → Prop} (hf : QFrame m)
    (hu : ∀ c r c', P c → run m c = (r, c') → ∀ a, r = .ok a → Q a c') : RT L k P m m Eq Q := by
  intro c hc r c' h
  have := hf c [] (L.drop k) k r c' h
  cases r with
  | ok a => exact ⟨a, this, rfl, hu c _ c' hc h a rfl⟩
  | error e => exact this

/-- value relation of `matchP` on two tokens of the same line -/
def VP (t t' : Token) (x x' : Bool × Token) : Prop :=
  x.1 = x'.1 ∧ (x.2 = x'.2 ∨ (x.1 = false ∧ x.2 = t ∧ x'.2 = t'))

theorem RT.matchP {D : List Dialect} {cap : Nat} {stop : Bool} {K : Kind} {t t' : Token} (hk : sameKey t t')
    {P : Ctx → Prop} {Q : Bool × Token → Ctx → Prop}
    (hu : ∀ c r c', P c → run (matchP D cap stop K t) c = (r, c') → ∀ x, r = .ok x → Q x c') :
    RT L k P (matchP D cap stop K t) (matchP D cap stop K t') (VP t t') Q := by
  intro c hc r c' h
  obtain ⟨r', hr', hrel⟩ := matchP_rel D cap stop K hk c [] (L.drop k) k h
  cases r with
  | ok x =>
    cases r' with
    | error e => exact hrel.elim
    | ok x' =>
      obtain ⟨m, u⟩ := x
      obtain ⟨m', u'⟩ := x'
      exact ⟨(m', u'), hr', hrel, hu c _ c' hc h _ rfl⟩
  | error e =>
    cases r' with
    | error e' => cases hrel; exact hr'
    | ok x => exact hrel.elim

end RT

/-! ### the error tail -/

theorem QFrame.modify (f : Ctx → Ctx) (hf : ∀ c q ls n, f (rf c q ls n) = rf (f c) q ls n) :
    QFrame (modify f : PM PUnit) := by
  intro c q ls n r c' h
  rw [run_modify] at h ⊢
  cases h
  rw [hf]

theorem QFrame.tail (D : List Dialect) (T : Table) (stop : Bool) (row : StateRow) (t : Token) :
    QFrame (tryBranches D T stop row [] t) := by
  rw [tryBranches]
  refine QFrame.bind (QFrame.modify _ fun _ _ _ _ => rfl) fun _ => ?_
  split
  · exact QFrame.throw _
  · exact QFrame.bind (QFrame.addError _ _) fun _ => QFrame.pure _

theorem tail_pure_eq (D : List Dialect) (T : Table) (stop : Bool) (row : StateRow) {t t' : Token}
    (h1 : t.lineNo = t'.lineNo) (h2 : unexpectedErr row t = unexpectedErr row t') :
    tryBranchesPure D T stop row [] t' = tryBranches D T stop row [] t := by
  rw [tryBranches, tryBranchesPure, h1, h2]

/-! ### tokens through the tests of one state -/

/-- the imperative token `t` (maybe marked by a look-ahead) and the fresh token `t'` of the same
    line: an error tail would report the same, or a test that certainly matches is still to come -/
def TR (bs : List Branch) (t t' : Token) : Prop :=
  sameKey t t' ∧ ((∀ row, unexpectedErr row t = unexpectedErr row t') ∨ ∃ b ∈ bs, sure b.kind t.line)

theorem TR.refl (bs : List Branch) (t : Token) : TR bs t t := ⟨sameKey.refl t, .inl fun _ => rfl⟩

theorem TR.step {b : Branch} {bs : List Branch} {t t' : Token} (h : TR (b :: bs) t t') {m : Bool} {u u' : Token}
    (hu : u = u' ∨ (m = false ∧ u = t ∧ u' = t')) (hm : m = false) (hs : sure b.kind t.line → m = true) :
    TR bs u u' := by
  rcases hu with rfl | ⟨-, rfl, rfl⟩
  · exact TR.refl _ _
  · refine ⟨h.1, ?_⟩
    rcases h.2 with h2 | ⟨b0, hb0, hs0⟩
    · exact .inl h2
    · rcases List.mem_cons.1 hb0 with rfl | hb0
      · rw [hs hs0] at hm; cases hm
      · exact .inr ⟨b0, hb0, hs0⟩

section
variable {D : List Dialect} {T : Table} {stop : Bool} {L : List Str} {k : Nat}

/-- the unary part every `matchP` step provides for the token relation -/
theorem matchP_sure {K : Kind} {t : Token} {c : Ctx} {r : Except Abort (Bool × Token)} {c' : Ctx} {cap : Nat}
    (h : run (matchP D cap stop K t) c = (r, c')) (x : Bool × Token) (hx : r = .ok x) :
    (sure K t.line → x.1 = true) ∧ x.2.line = t.line ∧ x.2.lineNo = t.lineNo := by
  obtain ⟨-, -, -, hv⟩ := matchP_spec h
  obtain ⟨m, u⟩ := x
  obtain ⟨hm, hl, hn⟩ := hv m u hx
  exact ⟨fun hs => by rw [hm]; exact sure_matched D K c.μ t.line hs, hl, hn⟩

/-- a state without guarded tests: no look-ahead, the runs agree whatever the scanner state -/
theorem tbA_r (row : StateRow) : ∀ (bs : List Branch), (∀ b ∈ bs, b.guard = none) →
    ∀ t t' : Token, TR bs t t' →
      RT L k (fun _ => True) (tryBranches D T stop row bs t) (tryBranchesPure D T stop row bs t') Eq
        (fun _ _ => True) := by
  intro bs
  induction bs with
  | nil =>
    intro _ t t' htr
    rcases htr.2 with h2 | ⟨b, hb, -⟩
    · rw [tail_pure_eq D T stop row htr.1.2 (h2 row)]
      exact RT.of_frame (QFrame.tail D T stop row t) fun _ _ _ _ _ _ _ => trivial
    · cases hb
  | cons b bs ih =>
    intro hbs t t' htr
    have hguard := hbs b (List.mem_cons_self ..)
    have ih' := ih fun b' hb' => hbs b' (List.mem_cons_of_mem _ hb')
    rw [tryBranches, tryBranchesPure]
    refine RT.bind (Q := fun x _ => (sure b.kind t.line → x.1 = true) ∧ True)
      (RT.matchP htr.1 fun c r c' _ hr x hx => ⟨(matchP_sure hr x hx).1, trivial⟩) fun x x' hV => ?_
    obtain ⟨m, u⟩ := x
    obtain ⟨m', u'⟩ := x'
    obtain ⟨hm, hu⟩ := hV
    dsimp only at hm hu ⊢
    subst hm
    refine RT.assume fun hs => ?_
    cases m with
    | false =>
      simp only [Bool.false_eq_true, if_false]
      exact ih' u u' (htr.step hu rfl hs)
    | true =>
      have huu : u = u' := by
        rcases hu with h | ⟨h, -⟩
        · exact h
        · cases h
      subst huu
      simp only [if_true, hguard]
      refine RT.bind (V := Eq) (Q := fun ok _ => ok = true) (RT.pure true true rfl fun _ _ => rfl) fun ok ok' hok => ?_
      subst hok
      refine RT.of_forall fun c0 hc0 => ?_
      subst hc0
      simp only [if_true]
      exact RT.conseq (RT.of_frame (Q := fun _ _ => True)
        (QFrame.bind (QFrame.runProds _ _ _ _) fun _ => QFrame.pure _) fun _ _ _ _ _ _ _ => trivial)
        (fun _ _ => trivial) (fun _ _ h => h)

/-! ### states with guarded tests -/

theorem RT_lookahead (F : QF D T) {j i : Nat} {la : LookAhead} (hla : T.lookaheads[i]? = some la)
    {P : Ctx → Prop} {Q : Bool → Ctx → Prop} (hpre : ∀ c, P c → QS D L (j + 1) c ∧ j + 1 ≤ L.length)
    (hu : ∀ c b c', P c → run (lookahead D T.errorCap stop la) c = (.ok b, c') → Q b c') :
    RT L (j + 1) P (lookahead D T.errorCap stop la) (lookaheadPure D T.errorCap stop la) Eq Q := by
  intro c hc r c' h
  obtain ⟨hskipla, hexpla, -⟩ := F.la i la hla
  have hsk : la.skip.all isSkipKind = true := by rw [hskipla]; exact F.skAll
  have := lookahead_rel D D T.errorCap stop la hsk hexpla (hpre c hc).1 (hpre c hc).2 h
  cases r with
  | ok b => exact ⟨b, this, rfl, hu c b c' hc h⟩
  | error e => exact this

/-- before any look-ahead of this state has run -/
def Z1 (D : List Dialect) (L : List Str) (j : Nat) (c : Ctx) : Prop := QS D L (j + 1) c ∧ c.queue = []

/-- between two guarded tests of one state -/
def Z2 (D : List Dialect) (T : Table) (L : List Str) (j : Nat) (l0 : Option Str) (c : Ctx) : Prop :=
  QS D L (j + 1) c ∧ Good (skipM D (skipList T) c.μ) (c.queue.map (·.line)) ∧ mm D .TagLine c.μ l0 = true ∧ QI c

/-- after `match_token` -/
def PostZ (D : List Dialect) (T : Table) (L : List Str) (j : Nat) (s : Nat) (c : Ctx) : Prop :=
  QS D L (j + 1) c ∧
  (c.queue ≠ [] → isTag T s = true ∧ AllButLast (skipM D (skipList T) c.μ) (c.queue.map (·.line))) ∧ QI c

theorem Z2.post {j : Nat} {l0 : Option Str} {c : Ctx} (h : Z2 D T L j l0 c) (s : Nat) (hs : isTag T s = true) :
    PostZ D T L j s c := ⟨h.1, fun _ => ⟨hs, h.2.1.allButLast⟩, h.2.2.2⟩

theorem Z1.post {j : Nat} {c : Ctx} (h : Z1 D L j c) (s : Nat) : PostZ D T L j s c :=
  ⟨h.1, fun hne => absurd h.2 hne, fun t ht => by rw [h.2] at ht; cases ht⟩

theorem Z2.runProds {j : Nat} {l0 : Option Str} {c : Ctx} (h : Z2 D T L j l0 c)
    {cap : Nat} {t : Token} {ps : List Prod} {r : Except Abort Unit} {c' : Ctx} (ht : ∃ i, key t = srcAt L i)
    (hr : run (runProds cap stop t ps) c = (r, c')) : Z2 D T L j l0 c' := by
  obtain ⟨hqs', hq', hμ', -⟩ := h.1.runProds ht hr
  refine ⟨hqs', ?_, ?_, ?_⟩
  · rw [hq', hμ']; exact h.2.1
  · rw [hμ']; exact h.2.2.1
  · intro x hx; rw [hq'] at hx; exact h.2.2.2 x hx

theorem Z1.runProds {j : Nat} {c : Ctx} (h : Z1 D L j c)
    {cap : Nat} {t : Token} {ps : List Prod} {r : Except Abort Unit} {c' : Ctx} (ht : ∃ i, key t = srcAt L i)
    (hr : run (runProds cap stop t ps) c = (r, c')) : Z1 D L j c' := by
  obtain ⟨hqs', hq', -, -⟩ := h.1.runProds ht hr
  exact ⟨hqs', hq'.trans h.2⟩

/-- `runProds …; pure target` on the same token -/
theorem RT_finish {j : Nat} {P : Ctx → Prop} {Q : Nat → Ctx → Prop} (u : Token) (ps : List Prod) (target : Nat)
    (hu : ∀ c r c', P c → run (runProds T.errorCap stop u ps) c = (r, c') → Q target c') :
    RT L (j + 1) P (do runProds T.errorCap stop u ps; pure target) (do runProds T.errorCap stop u ps; pure target)
      Eq Q := by
  refine RT.of_frame (QFrame.bind (QFrame.runProds _ _ _ _) fun _ => QFrame.pure _) fun c r c' hc hr a ha => ?_
  rw [prun_bind] at hr
  rcases hr1 : run (runProds T.errorCap stop u ps) c with ⟨r1, c1⟩
  rw [hr1] at hr
  cases r1 with
  | error e => subst ha; cases hr
  | ok _ =>
    dsimp only at hr
    rw [prun_pure] at hr
    subst ha
    cases hr
    exact hu c _ _ hc hr1

theorem tb2r (F : QF D T) (j : Nat) (row : StateRow) (l0 : Option Str) (hj : j + 1 ≤ L.length) :
    ∀ (bs : List Branch), guardTail T bs = true → tagNext T bs = true →
      ∀ t : Token, t.line = l0 → key t = srcAt L j →
        RT L (j + 1) (Z2 D T L j l0) (tryBranches D T stop row bs t) (tryBranchesPure D T stop row bs t) Eq
          (PostZ D T L j) := by
  intro bs
  induction bs with
  | nil => intro _ h; cases h
  | cons b bs ih =>
    intro hgt hnext t ht hkey
    simp only [tagNext, Bool.and_eq_true, beq_iff_eq] at hnext
    obtain ⟨hkind, htag⟩ := hnext
    simp only [guardTail, Bool.and_eq_true, Bool.or_eq_true, beq_iff_eq] at hgt
    obtain ⟨hhead, hgt'⟩ := hgt
    have hstable : stableKind b.kind = true := by rw [hkind]; rfl
    rw [tryBranches, tryBranchesPure]
    refine RT.bind
      (Q := fun x c => (x.1 = true ∧ x.2.line = l0 ∧ key x.2 = srcAt L j) ∧ Z2 D T L j l0 c)
      (RT.matchP (sameKey.refl t) fun c r c' hc hr x hx => ?_) fun x x' hV => ?_
    · obtain ⟨hf, hμ', -, hv⟩ := matchP_spec hr
      obtain ⟨hqs, hgood, hmm, hqi⟩ := hc
      rw [matchTok_mu_stable D b.kind hstable] at hμ'
      have hq' := hf.queue
      obtain ⟨m, u⟩ := x
      obtain ⟨hm, hl, hn⟩ := hv m u hx
      refine ⟨⟨?_, hl.trans ht, (key_eq hl hn).trans hkey⟩, hqs.footM hf (by rw [hμ']; exact hqs.mu), ?_, ?_, ?_⟩
      · show m = true
        rw [hm, hkind, ht]; exact hmm
      · rw [hq', hμ']; exact hgood
      · rw [hμ']; exact hmm
      · intro y hy; rw [hq'] at hy; exact hqi y hy
    · obtain ⟨m, u⟩ := x
      obtain ⟨m', u'⟩ := x'
      obtain ⟨hm, hu⟩ := hV
      dsimp only at hm hu ⊢
      subst hm
      refine RT.assume fun hpure => ?_
      obtain ⟨hmt, hl', hkey'⟩ := hpure
      subst hmt
      have huu : u = u' := by
        rcases hu with h | ⟨h, -⟩
        · exact h
        · cases h
      subst huu
      simp only [if_true]
      cases hguard : b.guard with
      | none =>
        dsimp only
        refine RT.bind (V := Eq) (Q := fun ok c => ok = true ∧ Z2 D T L j l0 c)
          (RT.pure true true rfl fun _ hc => ⟨rfl, hc⟩) fun ok ok' hok => RT.assume fun hok' => ?_
        subst hok hok'
        simp only [if_true]
        exact RT_finish u b.prods b.target fun c r c' hc hr => (hc.runProds ⟨j, hkey'⟩ hr).post _ htag
      | some i =>
        dsimp only
        have hnext' : tagNext T bs = true := by
          rcases hhead with h | h
          · rw [hguard] at h; cases h
          · exact h.2
        cases hla : T.lookaheads[i]? with
        | none =>
          dsimp only
          exact RT.bind (V := Eq) (Q := fun _ _ => False) (RT.throw _) fun _ _ _ => fun _ hf => hf.elim
        | some la =>
          dsimp only
          obtain ⟨hskipla, hexpla, -⟩ := F.la i la hla
          refine RT.bind (Q := fun _ c => Z2 D T L j l0 c)
            (RT_lookahead F hla (fun c hc => ⟨hc.1, hj⟩) fun c ok c' hc hr => ?_) fun ok ok' hok => ?_
          · obtain ⟨hqs, hgood, hmm, hqi⟩ := hc
            obtain ⟨-, -, -, -, -, hok⟩ := lookahead_spec F.plain hskipla F.skAll hexpla hqs (.inr hgood) hr
            obtain ⟨hqs', hgood', hμ', -⟩ := hok ok rfl
            have hstab : ∀ ks : List Kind, ks.all isSkipKind = true ∨ ks.all Kind.isTitle = true →
                ks.all stableKind = true := by
              intro ks h
              rw [List.all_eq_true]
              intro K hK
              rcases h with h | h
              · simp [stableKind, List.all_eq_true.1 h K hK]
              · simp [stableKind, List.all_eq_true.1 h K hK]
            exact ⟨hqs', hgood', by rw [hμ']; exact hmm,
              lookahead_tokinv D T.errorCap stop la (hstab _ (.inl (by rw [hskipla]; exact F.skAll)))
                (hstab _ (.inr hexpla)) hqi hr⟩
          · subst hok
            cases ok with
            | true =>
              simp only [if_true]
              exact RT_finish u b.prods b.target fun c r c' hc hr => (hc.runProds ⟨j, hkey'⟩ hr).post _ htag
            | false =>
              simp only [Bool.false_eq_true, if_false]
              exact ih hgt' hnext' u hl' hkey'

theorem stable_of (ks : List Kind) (h : ks.all isSkipKind = true ∨ ks.all Kind.isTitle = true) :
    ks.all stableKind = true := by
  rw [List.all_eq_true]
  intro K hK
  rcases h with h | h
  · simp [stableKind, List.all_eq_true.1 h K hK]
  · simp [stableKind, List.all_eq_true.1 h K hK]

theorem tb1r (F : QF D T) (j : Nat) (row : StateRow) :
    ∀ (bs : List Branch), guardTail T bs = true →
      ∀ t t' : Token, key t = srcAt L j → TR bs t t' →
        RT L (j + 1) (Z1 D L j) (tryBranches D T stop row bs t) (tryBranchesPure D T stop row bs t') Eq
          (PostZ D T L j) := by
  intro bs
  induction bs with
  | nil =>
    intro _ t t' _ htr
    rcases htr.2 with h2 | ⟨b, hb, -⟩
    · rw [tail_pure_eq D T stop row htr.1.2 (h2 row)]
      refine RT.of_frame (QFrame.tail D T stop row t) fun c r c' hc hr a _ => ?_
      obtain ⟨⟨es, un, rfl⟩, -⟩ := tail_spec D T stop row t hr
      exact Z1.post ⟨hc.1.tail es un, hc.2⟩ a
    · cases hb
  | cons b bs ih =>
    intro hgt t t' hkey htr
    simp only [guardTail, Bool.and_eq_true, Bool.or_eq_true, beq_iff_eq] at hgt
    obtain ⟨hhead, hgt'⟩ := hgt
    rw [tryBranches, tryBranchesPure]
    refine RT.bind
      (Q := fun x c => ((sure b.kind t.line → x.1 = true) ∧ x.2.line = t.line ∧ key x.2 = srcAt L j ∧
          (b.kind = .TagLine → x.1 = true → t.line ≠ none)) ∧
        (Z1 D L j c ∧ (b.kind = .TagLine → x.1 = true → mm D .TagLine c.μ t.line = true)))
      (RT.matchP htr.1 fun c r c' hc hr x hx => ?_) fun x x' hV => ?_
    · obtain ⟨hs, hl, hn⟩ := matchP_sure hr x hx
      obtain ⟨hf, hμ', -, hv⟩ := matchP_spec hr
      obtain ⟨m, u⟩ := x
      obtain ⟨hm, -, -⟩ := hv m u hx
      have hmm : b.kind = .TagLine → m = true → mm D .TagLine c.μ t.line = true := by
        intro hk hmt; rw [← hk, ← hm, hmt]
      refine ⟨⟨hs, hl, (key_eq hl hn).trans hkey, fun hk hmt hnone => ?_⟩,
        ⟨hc.1.footM hf (by rw [hμ']; exact matchTok_dialect D b.kind c.μ t hc.1.mu), hf.queue.trans hc.2⟩,
        fun hk hmt => ?_⟩
      · have := hmm hk hmt
        rw [hnone, mm_tagLine_none] at this
        cases this
      · rw [hμ', hk, matchTok_mu_stable D .TagLine rfl]
        exact hmm hk hmt
    · obtain ⟨m, u⟩ := x
      obtain ⟨m', u'⟩ := x'
      obtain ⟨hm, hu⟩ := hV
      dsimp only at hm hu ⊢
      subst hm
      refine RT.assume fun hpure => ?_
      obtain ⟨hs, hl', hkey', hline⟩ := hpure
      cases m with
      | false =>
        simp only [Bool.false_eq_true, if_false]
        exact RT.conseq (ih hgt' u u' hkey' (htr.step hu rfl hs)) (fun c hc => hc.1) (fun _ _ h => h)
      | true =>
        have huu : u = u' := by
          rcases hu with h | ⟨h, -⟩
          · exact h
          · cases h
        subst huu
        simp only [if_true]
        cases hguard : b.guard with
        | none =>
          dsimp only
          refine RT.bind (V := Eq) (Q := fun ok c => ok = true ∧ Z1 D L j c)
            (RT.pure true true rfl fun _ hc => ⟨rfl, hc.1⟩) fun ok ok' hok => RT.assume fun hok' => ?_
          subst hok hok'
          simp only [if_true]
          exact RT_finish u b.prods b.target fun c r c' hc hr => (hc.runProds ⟨j, hkey'⟩ hr).post _
        | some i =>
          dsimp only
          obtain ⟨⟨hkind, htag⟩, hnext⟩ : (b.kind = .TagLine ∧ isTag T b.target = true) ∧ tagNext T bs = true := by
            rcases hhead with h | h
            · rw [hguard] at h; cases h
            · exact h
          have hj : j + 1 ≤ L.length := by
            have h1 : t.line = L[j]? := congrArg Prod.fst hkey
            have h2 := hline hkind rfl
            rcases Nat.lt_or_ge j L.length with h | h
            · exact h
            · rw [h1, List.getElem?_eq_none_iff.2 h] at h2; exact absurd rfl h2
          cases hla : T.lookaheads[i]? with
          | none =>
            dsimp only
            exact RT.bind (V := Eq) (Q := fun _ _ => False) (RT.throw _) fun _ _ _ => fun _ hf => hf.elim
          | some la =>
            dsimp only
            obtain ⟨hskipla, hexpla, -⟩ := F.la i la hla
            refine RT.bind (Q := fun _ c => Z2 D T L j t.line c)
              (RT_lookahead F hla (fun c hc => ⟨hc.1.1, hj⟩) fun c ok c' hc hr => ?_) fun ok ok' hok => ?_
            · obtain ⟨⟨hqs, hq⟩, hmm⟩ := hc
              obtain ⟨-, -, -, -, -, hok⟩ :=
                lookahead_spec F.plain hskipla F.skAll hexpla hqs (.inl ⟨hq, hj⟩) hr
              obtain ⟨hqs', hgood', hμ', -⟩ := hok ok rfl
              exact ⟨hqs', hgood', by rw [hμ']; exact hmm hkind (by simp),
                lookahead_tokinv D T.errorCap stop la (stable_of _ (.inl (by rw [hskipla]; exact F.skAll)))
                  (stable_of _ (.inr hexpla)) (fun y hy => by rw [hq] at hy; cases hy) hr⟩
            · subst hok
              cases ok with
              | true =>
                simp only [if_true]
                exact RT_finish u b.prods b.target fun c r c' hc hr => (hc.runProds ⟨j, hkey'⟩ hr).post _ htag
              | false =>
                simp only [Bool.false_eq_true, if_false]
                exact tb2r F j row t.line hj bs hgt' hnext u hl' hkey'

/-! ### `match_token` -/

theorem tr_initial (hCB : commentBlankTested T = true) {s : Nat} {row : StateRow} (hrow : T.row? s = some row)
    {t t' : Token} (hk : sameKey t t') (hinv : TokInv t) (hcol' : colOK t') : TR row.branches t t' := by
  refine ⟨hk, ?_⟩
  rcases hinv with h | ⟨l, hl, hcb⟩
  · exact .inl fun row => unexpectedErr_colOK row hk h hcol'
  · right
    have hmem : row ∈ T.rows := List.mem_of_find?_eq_some hrow
    simp only [commentBlankTested, List.all_eq_true, Bool.and_eq_true, List.any_eq_true, Bool.or_eq_true,
      beq_iff_eq] at hCB
    obtain ⟨⟨b1, hb1, hk1⟩, ⟨b2, hb2, hk2⟩⟩ := hCB row hmem
    rcases hcb with hc | he
    · refine ⟨b1, hb1, l, hl, ?_⟩
      rcases hk1 with h | h
      · exact .inr (.inl ⟨h, hc⟩)
      · exact .inl h
    · refine ⟨b2, hb2, l, hl, ?_⟩
      rcases hk2 with h | h
      · exact .inr (.inr ⟨h, he⟩)
      · exact .inl h

theorem mtr (F : QF D T) (hCB : commentBlankTested T = true) (j s : Nat) (t t' : Token)
    (hkey : key t = srcAt L j) (hk : sameKey t t') (hcol' : colOK t') (hinv : TokInv t) :
    RT L (j + 1) (fun c => Mid D T L j t s c ∧ QI c) (matchToken D T stop s t) (matchTokenPure D T stop s t') Eq
      (fun s' c => PostH D T L j s' c ∧ QI c) := by
  intro c hc r c' hr0
  obtain ⟨hmid, hqi⟩ := hc
  have hu := mt (stop := stop) F j s t hkey c hmid
  have hr := hr0
  unfold matchToken at hr
  unfold matchTokenPure
  cases hrow : T.row? s with
  | none =>
    rw [hrow] at hr
    dsimp only at hr ⊢
    rw [prun_throw] at hr
    cases hr
    rfl
  | some row =>
    rw [hrow] at hr
    dsimp only at hr ⊢
    have htr := tr_initial hCB hrow hk hinv hcol'
    obtain ⟨hqs, hj, htag, hcalls⟩ := hmid
    by_cases hq : c.queue = []
    · have := tb1r F j row row.branches (F.rows s row hrow).1 t t' hkey htr c ⟨hqs, hq⟩ r c' hr
      cases r with
      | ok a =>
        obtain ⟨a', h1, h2, h3⟩ := this
        exact ⟨a', h1, h2, hu.1 a c' hr0, h3.2.2⟩
      | error e => exact this
    · obtain ⟨hs, hskip, habl⟩ := htag hq
      obtain ⟨hbr, herr⟩ := F.tagRow s row hs hrow
      have := tbA_r (L := L) (k := j + 1) row row.branches (fun b hb => (hbr b hb).1) t t' htr c trivial r c' hr
      cases r with
      | ok a =>
        obtain ⟨a', h1, h2, -⟩ := this
        refine ⟨a', h1, h2, hu.1 a c' hr0, ?_⟩
        have hpa := (tb_tag F (j + 1) row herr c.queue c.μ hqs.mu t.line hskip (c.calls + row.branches.length)
          row.branches hbr t rfl ⟨j, hkey⟩ c ⟨⟨hqs, rfl, rfl, by omega⟩, Nat.le_add_left _ _⟩).1 a c' hr
        intro x hx
        rw [hpa.1.2.1] at hx
        exact hqi x hx
      | error e => exact this

/-! ### the main loop -/

theorem pure_step (fuel s : Nat) (p : Ctx) :
    run (parseLinesPure D T stop (fuel + 1) s) p =
      run (matchTokenPure D T stop s { line := p.lines.head?, lineNo := p.lineNo + 1 } >>= fun s' =>
          if ({ line := p.lines.head?, lineNo := p.lineNo + 1 } : Token).eof then Pure.pure s'
          else parseLinesPure D T stop fuel s')
        { p with lines := p.lines.tail, lineNo := p.lineNo + 1, reads := p.reads ++ [p.lineNo + 1] } := by
  rw [parseLinesPure, prun_bind, run_get]
  dsimp only
  cases p.lines with
  | nil => simp only [prun_bind, run_set, prun_pure, run_modify]; rfl
  | cons l ls => simp only [prun_bind, run_set, prun_pure, run_modify]; rfl

theorem loopr (F : QF D T) (hCB : commentBlankTested T = true) : ∀ (fuel j s : Nat) (c : Ctx),
    Head D T L j s c → QI c → ∀ r c', run (parseLoop D T stop fuel s) c = (r, c') →
      ∃ j', run (parseLinesPure D T stop fuel s) (pureOf L j c) = (r, pureOf L j' c') := by
  intro fuel
  induction fuel with
  | zero =>
    intro j s c _ _ r c' h
    rw [parseLoop, prun_throw] at h
    cases h
    exact ⟨j, rfl⟩
  | succ fuel ih =>
    intro j s c hhead hqi r c' h
    rw [parseLoop, prun_bind] at h
    obtain ⟨t, c1, hr0, hcase⟩ := readToken_cases c
    have hmid := (read_step (D := D) (T := T) (L := L) j s c hhead).1 t c1 hr0
    obtain ⟨hkey, hmid⟩ := hmid
    rw [hr0] at h
    dsimp only at h
    rw [prun_bind, run_modify] at h
    dsimp only at h
    have hn : t.lineNo = j + 1 := congrArg Prod.snd hkey
    have hl : t.line = L[j]? := congrArg Prod.fst hkey
    -- the token and the queue afterwards
    have htq : TokInv t ∧ QI { c1 with reads := c1.reads ++ [t.lineNo] } ∧
        pureOf L (j + 1) { c1 with reads := c1.reads ++ [t.lineNo] } =
          { pureOf L j c with lines := (pureOf L j c).lines.tail, lineNo := (pureOf L j c).lineNo + 1,
                              reads := (pureOf L j c).reads ++ [(pureOf L j c).lineNo + 1] } := by
      rcases hcase with ⟨q, hcq, rfl⟩ | ⟨hcq, rfl, rfl⟩
      · refine ⟨hqi t (by rw [hcq]; exact List.mem_cons_self ..),
          fun x hx => hqi x (by rw [hcq]; exact List.mem_cons_of_mem _ hx), ?_⟩
        show _ = ({ c with queue := [], lines := (L.drop j).tail, lineNo := j + 1, reads := c.reads ++ [j + 1] } : Ctx)
        rw [List.tail_drop, hn]
        rfl
      · refine ⟨.inl (colOK_fresh _ _), hqi, ?_⟩
        show _ = ({ c with queue := [], lines := (L.drop j).tail, lineNo := j + 1, reads := c.reads ++ [j + 1] } : Ctx)
        rw [List.tail_drop]
        dsimp only at hn
        show ({ c with queue := [], lines := L.drop (j + 1), lineNo := j + 1, reads := c.reads ++ [c.lineNo + 1] } : Ctx) = _
        rw [hn]
    obtain ⟨htinv, hqi2, hpure⟩ := htq
    rw [pure_step, ← hpure]
    have hhead? : (pureOf L j c).lines.head? = L[j]? := by
      show (L.drop j).head? = _
      rw [List.head?_drop]
    have hno : (pureOf L j c).lineNo + 1 = j + 1 := rfl
    rw [hhead?, hno]
    have hk : sameKey t { line := L[j]?, lineNo := j + 1 } := ⟨hl, hn⟩
    rw [prun_bind] at h ⊢
    rcases hr1 : run (matchToken D T stop s t) { c1 with reads := c1.reads ++ [t.lineNo] } with ⟨r1, c3⟩
    rw [hr1] at h
    have := mtr (stop := stop) F hCB j s t _ hkey hk (colOK_fresh _ _) htinv _ ⟨hmid, hqi2⟩ r1 c3 hr1
    cases r1 with
    | error e =>
      dsimp only at this h
      rw [this]
      cases h
      exact ⟨j + 1, rfl⟩
    | ok s' =>
      obtain ⟨a', hrun, ha, hpost, hqi3⟩ := this
      subst ha
      rw [hrun]
      dsimp only at h ⊢
      have heof : ({ line := L[j]?, lineNo := j + 1 } : Token).eof = t.eof := by
        unfold Token.eof; rw [hl]
      rw [heof]
      split at h
      · rename_i he
        rw [if_pos he]
        rw [prun_pure] at h ⊢
        cases h
        exact ⟨j + 1, rfl⟩
      · rename_i he
        rw [if_neg he]
        have hsome : L[j]? ≠ none := by
          rw [← hl]
          intro h0
          exact he (by simp [Token.eof, h0])
        have hlt : j < L.length := by
          rcases Nat.lt_or_ge j L.length with h | h
          · exact h
          · exact absurd (List.getElem?_eq_none_iff.2 h) hsome
        exact ih (j + 1) s' c3 ⟨hpost.1, hlt, hpost.2.1, hpost.2.2⟩ hqi3 r c' h

/-! ### the whole parse -/

theorem bodyr (F : QF D T) (hCB : commentBlankTested T = true) (n : Nat) (c : Ctx)
    (hhead : Head D T L 0 0 c) (hqi : QI c) {r : Except Abort Doc} {c' : Ctx}
    (h : run (parseBody D T stop n) c = (r, c')) :
    ∃ j', run (parseBodyPure D T stop n) (pureOf L 0 c) = (r, pureOf L j' c') := by
  rw [parseBody, prun_bind, run_modify] at h
  rw [parseBodyPure, prun_bind, run_modify]
  dsimp only at h ⊢
  rw [prun_bind] at h ⊢
  rcases hr1 : run (parseLoop D T stop (n + 2) 0) { c with β := c.β.startRule T.startRule } with ⟨r1, c1⟩
  rw [hr1] at h
  have hhead' : Head D T L 0 0 { c with β := c.β.startRule T.startRule } := by
    obtain ⟨hq, h2, h3, h4⟩ := hhead
    exact ⟨⟨hq.reads, hq.queue, hq.lineNo, hq.lines, hq.mu, hq.builds, hq.bound⟩, h2, h3, h4⟩
  obtain ⟨j', hp⟩ := loopr (stop := stop) F hCB (n + 2) 0 0 _ hhead' hqi r1 c1 hr1
  have hp' : run (parseLinesPure D T stop (n + 2) 0)
      { pureOf L 0 c with β := (pureOf L 0 c).β.startRule T.startRule } = (r1, pureOf L j' c1) := hp
  rw [hp']
  cases r1 with
  | error e => cases h; exact ⟨j', rfl⟩
  | ok s1 =>
    dsimp only at h ⊢
    rw [prun_bind] at h ⊢
    rcases hr2 : run (runProd T.errorCap stop default (.end_ T.startRule)) c1 with ⟨r2, c2⟩
    rw [hr2] at h
    have hf := QFrame.runProd T.errorCap stop default (.end_ T.startRule) c1 [] (L.drop j') j' r2 c2 hr2
    have hf' : run (runProd T.errorCap stop default (.end_ T.startRule)) (pureOf L j' c1) = (r2, pureOf L j' c2) := hf
    rw [hf']
    cases r2 with
    | error e => cases h; exact ⟨j', rfl⟩
    | ok _ =>
      dsimp only at h ⊢
      rw [prun_bind, run_get] at h ⊢
      dsimp only at h ⊢
      have e1 : (pureOf L j' c2).errors = c2.errors := rfl
      have e2 : (pureOf L j' c2).β = c2.β := rfl
      simp only [e1, e2]
      refine ⟨j', ?_⟩
      split at h
      · rename_i hc
        rw [if_pos hc]
        rw [prun_bind, prun_throw] at h ⊢
        cases h; rfl
      · rename_i hc
        rw [if_neg hc]
        split at h
        · rename_i d hres
          simp only [hres]
          rw [prun_pure] at h ⊢
          cases h; rfl
        · rename_i hres
          simp only [hres]
          rw [prun_throw] at h ⊢
          cases h; rfl
        · rename_i w hres
          simp only [hres]
          rw [prun_throw] at h ⊢
          cases h; rfl
        · rename_i e hres
          simp only [hres]
          rw [prun_throw] at h ⊢
          cases h; rfl

end

/-- the parse with the queue and the parse that only peeks agree on every observable -/
theorem queue_refines_peek (D : List Dialect) (T : Table) (hD : queueDialectFacts D = true)
    (hT : queueFacts T = true) (hCB : commentBlankTested T = true)
    (stop : Bool) (μ : MState) (ids : Nat) (src : Str) (hμ : (μ.reset D).dialect ∈ D) :
    observe (parseWith D T stop μ ids src) = observe (parseWithPure D T stop μ ids src) := by
  have F := QF.of_facts hD hT
  rcases hr : run (parseBody D T stop (splitLines src).length) (ctx0 D μ ids src) with ⟨r, c⟩
  obtain ⟨j', hp⟩ := bodyr (stop := stop) F hCB (splitLines src).length (ctx0 D μ ids src)
    (head_ctx0 D T μ ids src hμ) (fun t ht => by cases ht) hr
  have hp' : (parseBodyPure D T stop (splitLines src).length).run.run (ctx0 D μ ids src) =
      (r, pureOf (splitLines src) j' c) := hp
  have hr' : (parseBody D T stop (splitLines src).length).run.run (ctx0 D μ ids src) = (r, c) := hr
  unfold parseWith parseWithPure
  dsimp only
  have e0 : ({ lines := splitLines src, μ := μ.reset D, β := BState.reset, ids := ids } : Ctx) = ctx0 D μ ids src := rfl
  rw [e0, hr', hp']
  cases r with
  | ok d => rfl
  | error e => cases e <;> rfl

end Lemmas
end GV
