/-
  Lemmas/NoCrash.lean — crash-freedom of the AST builder on the trees of accepted documents
  (property C01, "no other exception type ever escapes", builder side).

  In the model a Python run-time error of the builder (`AttributeError` on a missing token,
  `IndexError`, a `None` field) is the explicit outcome `BErr.crash`.  This file shows that
  `Spec.astOf` — and hence the builder's stack machine — never ends in `BErr.crash` on a token
  tree that

    * has the children the builder reads (`Spec.Complete`; follows from the grammar:
      `completeCheck` is a Boolean check of the right-hand sides, lifted to all valid derivation
      trees by `complete_of_validTree` and evaluated by the kernel on `Gen.grammar`),
    * has matched leaves carrying the fields the builder reads (`Spec.WellMatched`; what every
      successful `match_<Kind>` of the token matcher sets: `match_well_matched`), and
    * whose doc strings start with an opening separator (`Spec.DocStringsOpened`; an explicit
      hypothesis at tree level — it is a fact about the matcher's state along the run).

  The only error left is the `AstBuilderException` for a ragged table.

  Method: `GoodItems` is the invariant on a node's item list (tokens under their own kind and
  well matched; descriptions are strings; `Tags`, `Scenario`, `Examples` and the headers are raw
  nodes holding what their parent reads); `node_outcome` is the one-node step for every rule
  type (from the closed forms of Lemmas/Builder.lean); the rest is an induction over the tree.
-/
import GherkinVerif.Lemmas.AstShape
import GherkinVerif.KDecide
namespace GV

/-! ### vocabulary of the property statements -/
namespace Spec

/-- the fields of a token the AST builder reads (and dereferences) when the token was matched as
    kind `k`: a step line its keyword, keyword type and text; a title line (`Feature:`, `Rule:`,
    `Background:`, `Scenario:`, `Examples:`) its keyword and text; a doc string separator its
    keyword (the delimiter; the media type of an OPENING separator: `DocStringsOpened`); a
    comment and a free-text line its text; nothing of a tag line / table row (their items are a
    list), blank line, language header or end of file -/
def fieldsRead (k : Kind) (t : Token) : Bool :=
  match k with
  | .StepLine => t.keyword.isSome && t.ktype.isSome && t.text.isSome
  | .FeatureLine | .RuleLine | .BackgroundLine | .ScenarioLine | .ExamplesLine =>
    t.keyword.isSome && t.text.isSome
  | .DocStringSeparator => t.keyword.isSome
  | .Comment | .Other => t.text.isSome
  | _ => true

def wellMatched (t : Token) : Bool :=
  match t.mtype with
  | some k => fieldsRead k t
  | Option.none => false

/-- the token has been matched (`mtype = some k`) and carries the fields the builder reads for
    kind `k` -/
def WellMatched (t : Token) : Prop := wellMatched t = true

instance (t : Token) : Decidable (WellMatched t) := inferInstanceAs (Decidable (_ = true))

/-- the matcher is inside a doc string: a non-empty active separator -/
def _root_.GV.MState.inDocString (μ : MState) : Bool :=
  match μ.activeSep with
  | some sep => !sep.isEmpty
  | Option.none => false

mutual
/-- the tokens at the leaves, in order -/
def leaves : TTree → List Token
  | .leaf t => [t]
  | .node _ cs => leavesList cs
def leavesList : List TTree → List Token
  | [] => []
  | c :: cs => leaves c ++ leavesList cs
end

/-- the children a node of each rule type must have for the builder to read them: the keyword
    line of a step / background / scenario / examples block, the `Scenario` / `Examples` node of a
    definition, a row of a data table, a separator of a doc string.  (A feature or rule without
    header, and a header without keyword line, are answered with `None`, not with an error.) -/
def required : RuleType → List Sym
  | .Step => [.tok .StepLine]
  | .DocString => [.tok .DocStringSeparator]
  | .DataTable => [.tok .TableRow]
  | .Background => [.tok .BackgroundLine]
  | .ScenarioDefinition => [.rule .Scenario]
  | .Scenario => [.tok .ScenarioLine]
  | .ExamplesDefinition => [.rule .Examples]
  | .Examples => [.tok .ExamplesLine]
  | _ => []

def nodeComplete (r : RuleType) (cs : List TTree) : Bool :=
  (required r).all fun x => cs.any (TTree.isSym x)

mutual
def complete : TTree → Bool
  | .leaf _ => true
  | .node r cs => nodeComplete r cs && completeList cs
def completeList : List TTree → Bool
  | [] => true
  | c :: cs => complete c && completeList cs
end

/-- every node has its `required` children -/
def Complete (t : TTree) : Prop := complete t = true

instance (t : TTree) : Decidable (Complete t) := inferInstanceAs (Decidable (_ = true))

/-- the child lines matched as kind `k`, in order -/
def childTokens (k : Kind) (cs : List TTree) : List Token :=
  cs.filterMap fun c =>
    match c with
    | .leaf t => if t.mtype = some k then some t else Option.none
    | .node _ _ => Option.none

/-- the first separator line of a `DocString` node has a text (the media type, possibly empty) -/
def nodeOpened (r : RuleType) (cs : List TTree) : Bool :=
  r != .DocString ||
    match (childTokens .DocStringSeparator cs).head? with
    | some sep => sep.text.isSome
    | Option.none => true

mutual
def opened : TTree → Bool
  | .leaf _ => true
  | .node r cs => nodeOpened r cs && openedList cs
def openedList : List TTree → Bool
  | [] => true
  | c :: cs => opened c && openedList cs
end

/-- in every `DocString` node the first `DocStringSeparator` line is an opening one: its text is
    set (`match_DocStringSeparator` sets the text of an opening separator to the media type and
    that of a closing separator to `None`, see `Lemmas.docsep_match`) -/
def DocStringsOpened (t : TTree) : Prop := opened t = true

instance (t : TTree) : Decidable (DocStringsOpened t) := inferInstanceAs (Decidable (_ = true))

/-- the one builder error that is not a crash: the `AstBuilderException` for a ragged table -/
def Ragged {α} (r : Except BErr α) : Prop := ∃ e, r = .error (.ast e) ∧ e.kind = .raggedTable

end Spec

namespace Lemmas
open Spec

/-! ### the matcher sets what the builder reads -/

theorem wellMatched_iff (t : Token) :
    WellMatched t ↔ ∃ k, t.mtype = some k ∧ fieldsRead k t = true := by
  unfold WellMatched wellMatched
  cases t.mtype with
  | none => simp
  | some k => simp

theorem fieldsRead_of (t : Token) (k : Kind) (hm : t.mtype = some k) (hw : WellMatched t) :
    fieldsRead k t = true := by
  obtain ⟨k', h1, h2⟩ := (wellMatched_iff t).1 hw
  rw [hm] at h1; cases h1; exact h2

/-- a well-matched token projects to its own kind (`TTree.kinds` reads an unmatched token as
    free text; a well-matched token is matched) -/
theorem kinds_leaf_of_wellMatched (t : Token) (hw : WellMatched t) :
    ∃ k, t.mtype = some k ∧ (TTree.leaf t).kinds = .leaf k := by
  obtain ⟨k, h1, -⟩ := (wellMatched_iff t).1 hw
  exact ⟨k, h1, by rw [TTree.kinds, h1]; rfl⟩

theorem matchTitle_fields (μ : MState) (t : Token) (l : Str) (ty : Kind) (kws : List Str) (t' : Token)
    (h : matchTitle μ t l ty kws = some t') :
    t'.mtype = some ty ∧ t'.keyword.isSome = true ∧ t'.text.isSome = true := by
  unfold matchTitle at h
  split at h
  · simp only [Option.some.injEq] at h; subst h; simp [setMatched]
  · cases h

theorem matchDocSep_fields (μ : MState) (t : Token) (l sep : Str) (isOpen : Bool) (t' : Token) (μ' : MState)
    (h : matchDocSep μ t l sep isOpen = some (t', μ')) :
    t'.mtype = some .DocStringSeparator ∧ t'.keyword = some sep ∧ t'.text.isSome = isOpen ∧
      μ'.activeSep = (if isOpen then some sep else none) := by
  unfold matchDocSep at h
  split at h
  · split at h
    · next ho =>
      simp only [Option.some.injEq, Prod.mk.injEq] at h
      obtain ⟨rfl, rfl⟩ := h; simp [setMatched, ho]
    · next ho =>
      simp only [Option.some.injEq, Prod.mk.injEq] at h
      obtain ⟨rfl, rfl⟩ := h; simp [setMatched, ho]
  · cases h

theorem title_wm (k : Kind) (t' : Token) (hk : fieldsRead k t' = (t'.keyword.isSome && t'.text.isSome))
    (h : t'.mtype = some k ∧ t'.keyword.isSome = true ∧ t'.text.isSome = true) :
    t'.mtype = some k ∧ WellMatched t' := by
  refine ⟨h.1, ?_⟩
  unfold WellMatched wellMatched
  rw [h.1]; simp only [hk, h.2.1, h.2.2, Bool.and_self]

/-- the opening attempt on both delimiters -/
theorem matchDocSep_open_fields (μ : MState) (t : Token) (l : Str) (t' : Token) (μ' : MState)
    (h : ((matchDocSep μ t l dq3 true).orElse fun _ => matchDocSep μ t l bt3 true) = some (t', μ')) :
    t'.mtype = some .DocStringSeparator ∧ t'.keyword.isSome = true ∧ t'.text.isSome = true ∧
      (μ'.activeSep = some dq3 ∨ μ'.activeSep = some bt3) := by
  cases h1 : matchDocSep μ t l dq3 true with
  | some p =>
    rw [h1] at h
    simp only [Option.orElse, Option.some.injEq] at h
    subst h
    obtain ⟨a, b, c, d⟩ := matchDocSep_fields μ t l dq3 true t' μ' h1
    exact ⟨a, by rw [b]; rfl, c, Or.inl (by simpa using d)⟩
  | none =>
    rw [h1] at h
    simp only [Option.orElse] at h
    obtain ⟨a, b, c, d⟩ := matchDocSep_fields μ t l bt3 true t' μ' h
    exact ⟨a, by rw [b]; rfl, c, Or.inr (by simpa using d)⟩

/-- what a successful `match_DocStringSeparator` leaves: the token is a separator with its
    keyword (the delimiter); outside a doc string it is an opening separator — its text is set and
    the matcher is inside a doc string afterwards; inside a doc string it is the closing one — its
    text is `None` and the matcher is outside afterwards -/
theorem docsep_match (D : List Dialect) (μ : MState) (t : Token) (l : Str)
    (h : (matchLine D .DocStringSeparator μ t l).res = .matched) :
    let o := matchLine D .DocStringSeparator μ t l
    o.tok.mtype = some .DocStringSeparator ∧ o.tok.keyword.isSome = true ∧
      o.tok.text.isSome = !μ.inDocString ∧ o.μ.inDocString = !μ.inDocString := by
  have hopen : ∀ t' μ', ((matchDocSep μ t l dq3 true).orElse fun _ => matchDocSep μ t l bt3 true) = some (t', μ') →
      t'.mtype = some .DocStringSeparator ∧ t'.keyword.isSome = true ∧ t'.text.isSome = true ∧
        μ'.inDocString = true := by
    intro t' μ' h'
    obtain ⟨a, b, c, d⟩ := matchDocSep_open_fields μ t l t' μ' h'
    refine ⟨a, b, c, ?_⟩
    rcases d with d | d <;> simp [MState.inDocString, d, dq3, bt3]
  simp only
  unfold matchLine at h ⊢
  simp only at h ⊢
  cases ha : μ.activeSep with
  | none =>
    have hμ : μ.inDocString = false := by simp [MState.inDocString, ha]
    simp only [ha] at h ⊢
    split at h
    · next t' μ' hr => rw [hμ]; exact hopen t' μ' hr
    · cases h
  | some sep =>
    simp only [ha] at h ⊢
    by_cases he : sep.isEmpty = true
    · have hμ : μ.inDocString = false := by simp [MState.inDocString, ha, he]
      simp only [he, if_true] at h ⊢
      split at h
      · next t' μ' hr => rw [hμ]; exact hopen t' μ' hr
      · cases h
    · have hμ : μ.inDocString = true := by simp [MState.inDocString, ha, he]
      simp only [he, if_false, Bool.false_eq_true] at h ⊢
      split at h
      · next t' μ' hr =>
        obtain ⟨a, b, c, d⟩ := matchDocSep_fields μ t l sep false t' μ' hr
        rw [hμ]
        refine ⟨a, by rw [b]; rfl, c, ?_⟩
        simp only [Bool.false_eq_true, if_false] at d
        simp [MState.inDocString, d]
      · cases h

/-- Every successful `match_<K>` on a line leaves a token of kind `K` that carries the fields the
    builder reads for `K`. -/
theorem match_well_matched (D : List Dialect) (K : Kind) (μ : MState) (t : Token) (l : Str)
    (h : (matchLine D K μ t l).res = .matched) :
    (matchLine D K μ t l).tok.mtype = some K ∧ WellMatched (matchLine D K μ t l).tok := by
  cases K
  case DocStringSeparator =>
    obtain ⟨a, b, -, -⟩ := docsep_match D μ t l h
    refine ⟨a, ?_⟩
    unfold WellMatched wellMatched
    rw [a]; exact b
  case EOF => unfold matchLine at h; cases h
  case FeatureLine =>
    unfold matchLine at h ⊢; simp only at h ⊢
    split at h
    · next t' ht => exact title_wm _ t' rfl (matchTitle_fields _ _ _ _ _ _ ht)
    · cases h
  case RuleLine =>
    unfold matchLine at h ⊢; simp only at h ⊢
    split at h
    · next t' ht => exact title_wm _ t' rfl (matchTitle_fields _ _ _ _ _ _ ht)
    · cases h
  case BackgroundLine =>
    unfold matchLine at h ⊢; simp only at h ⊢
    split at h
    · next t' ht => exact title_wm _ t' rfl (matchTitle_fields _ _ _ _ _ _ ht)
    · cases h
  case ExamplesLine =>
    unfold matchLine at h ⊢; simp only at h ⊢
    split at h
    · next t' ht => exact title_wm _ t' rfl (matchTitle_fields _ _ _ _ _ _ ht)
    · cases h
  case ScenarioLine =>
    unfold matchLine at h ⊢; simp only at h ⊢
    split at h
    · next t' ht => exact title_wm _ t' rfl (matchTitle_fields _ _ _ _ _ _ ht)
    · split at h
      · next t' ht => exact title_wm _ t' rfl (matchTitle_fields _ _ _ _ _ _ ht)
      · cases h
  case TableRow =>
    unfold matchLine at h ⊢; simp only at h ⊢
    split at h
    · next hc => simp only [hc, if_true]; exact ⟨rfl, rfl⟩
    · cases h
  case StepLine =>
    unfold matchLine at h ⊢; simp only at h ⊢
    split at h
    · exact ⟨rfl, rfl⟩
    · cases h
  case Comment =>
    unfold matchLine at h ⊢; simp only at h ⊢
    split at h
    · next hc => simp only [hc, if_true]; exact ⟨rfl, rfl⟩
    · cases h
  case Empty =>
    unfold matchLine at h ⊢; simp only at h ⊢
    split at h
    · next hc => simp only [hc, if_true]; exact ⟨rfl, rfl⟩
    · cases h
  case Language =>
    unfold matchLine at h ⊢; simp only at h ⊢
    split at h
    · cases h
    · split at h
      · exact ⟨rfl, rfl⟩
      · cases h
  case TagLine =>
    unfold matchLine at h ⊢; simp only at h ⊢
    split at h
    · next hc =>
      simp only [hc, if_true]
      split at h
      · exact ⟨rfl, rfl⟩
      · cases h
    · cases h
  case Other =>
    unfold matchLine; exact ⟨rfl, rfl⟩

/-- … and `match_EOF` on the end-of-file token (the only kind that matches it) -/
theorem matchTok_well_matched (D : List Dialect) (K : Kind) (μ : MState) (t : Token)
    (h : (matchTok D K μ t).1.res = .matched) :
    (matchTok D K μ t).1.tok.mtype = some K ∧ WellMatched (matchTok D K μ t).1.tok := by
  unfold matchTok at h ⊢
  cases hl : t.line with
  | some l => simp only [hl] at h ⊢; exact match_well_matched D K μ t l h
  | none =>
    simp only [hl] at h ⊢
    by_cases hk : (K == .EOF) = true
    · simp only [hk, if_true]
      rw [beq_iff_eq] at hk; subst hk
      exact ⟨rfl, rfl⟩
    · simp only [hk] at h; cases h

/-! ### the invariant on item lists -/

/-- every item under a token key is a token matched as that kind, carrying the fields read -/
def TokGood (is : List (Key × Val)) : Prop :=
  ∀ k v, (Key.tok k, v) ∈ is → ∃ t, v = .tok t ∧ t.mtype = some k ∧ WellMatched t

/-- what `get_tags`, `get_description` and the token reads need of an item list: typed tokens,
    descriptions that are strings, `Tags` items that are raw nodes -/
def BaseGood (is : List (Key × Val)) : Prop :=
  TokGood is ∧ (∀ v, (Key.rule .Description, v) ∈ is → ∃ s, v = .descr s) ∧
    (∀ v, (Key.rule .Tags, v) ∈ is → ∃ rt ti, v = .raw rt ti)

/-- what the parent's transformation relies on in the value of a node of rule type `r` -/
def GoodVal : RuleType → Val → Prop
  | .Description, v => ∃ s, v = .descr s
  | .Tags, v => ∃ rt ti, v = .raw rt ti
  | .Scenario, v => ∃ rt sc, v = .raw rt sc ∧ BaseGood sc ∧ ∃ line, getSingle sc (.tok .ScenarioLine) = .tok line
  | .Examples, v => ∃ rt ex, v = .raw rt ex ∧ BaseGood ex ∧ ∃ line, getSingle ex (.tok .ExamplesLine) = .tok line
  | .RuleHeader, v => ∃ rt hd, v = .raw rt hd ∧ BaseGood hd
  | .FeatureHeader, v => ∃ rt hd, v = .raw rt hd ∧ BaseGood hd
  | _, _ => True

def GoodItems (is : List (Key × Val)) : Prop :=
  TokGood is ∧ ∀ r v, (Key.rule r, v) ∈ is → GoodVal r v

theorem GoodItems.base {is : List (Key × Val)} (h : GoodItems is) : BaseGood is :=
  ⟨h.1, fun v hv => h.2 .Description v hv, fun v hv => h.2 .Tags v hv⟩

theorem getSingle_mem (is : List (Key × Val)) (k : Key) (v : Val) (h : getSingle is k = v) (hv : v ≠ .none) :
    (k, v) ∈ is := by
  rw [getSingle_eq_head] at h
  cases hg : getItems is k with
  | nil => rw [hg] at h; exact absurd h.symm hv
  | cons a as =>
    rw [hg] at h; simp only [List.headD_cons] at h; subst h
    exact mem_getItems is k a (by rw [hg]; exact List.mem_cons_self)

/-- a present token key: `get_token` finds a token -/
theorem getSingle_tok_of_ne_nil {is : List (Key × Val)} (hg : TokGood is) (k : Kind)
    (h : getItems is (.tok k) ≠ []) : ∃ line, getSingle is (.tok k) = .tok line := by
  cases hi : getItems is (.tok k) with
  | nil => exact absurd hi h
  | cons v vs =>
    obtain ⟨t, rfl, -, -⟩ := hg k v (mem_getItems is _ v (by rw [hi]; exact List.mem_cons_self))
    exact ⟨t, getSingle_of_cons is _ _ vs hi⟩

/-- the token `get_token` finds carries the fields read for its kind -/
theorem fields_of_getSingle {is : List (Key × Val)} (hg : TokGood is) (k : Kind) (line : Token)
    (h : getSingle is (.tok k) = .tok line) : fieldsRead k line = true := by
  obtain ⟨t, e, hm, hw⟩ := hg k _ (getSingle_mem is _ _ h (fun h => by cases h))
  cases e
  exact fieldsRead_of line k hm hw

theorem mem_getTokens {is : List (Key × Val)} {k : Kind} {t : Token} (h : t ∈ getTokens is k) :
    (Key.tok k, Val.tok t) ∈ is := by
  simp only [getTokens, List.mem_filterMap] at h
  obtain ⟨v, hv, e⟩ := h
  cases v <;> simp only [Option.some.injEq, reduceCtorEq] at e
  subst e
  exact mem_getItems is _ _ hv

theorem getTokens_good {is : List (Key × Val)} (hg : TokGood is) {k : Kind} {t : Token}
    (h : t ∈ getTokens is k) : t.mtype = some k ∧ WellMatched t := by
  obtain ⟨t', e, hm, hw⟩ := hg k _ (mem_getTokens h)
  cases e; exact ⟨hm, hw⟩

theorem getTokens_ne_nil {is : List (Key × Val)} (hg : TokGood is) (k : Kind)
    (h : getItems is (.tok k) ≠ []) : getTokens is k ≠ [] := by
  cases hi : getItems is (.tok k) with
  | nil => exact absurd hi h
  | cons v vs =>
    obtain ⟨t, rfl, -, -⟩ := hg k v (mem_getItems is _ v (by rw [hi]; exact List.mem_cons_self))
    simp [getTokens, hi]

theorem descOf_of_base {is : List (Key × Val)} (h : BaseGood is) : ∃ d, descOf is = some d := by
  unfold descOf
  cases hi : getItems is (.rule .Description) with
  | nil => exact ⟨_, rfl⟩
  | cons v vs =>
    obtain ⟨s, rfl⟩ := h.2.1 v (mem_getItems is _ v (by rw [hi]; exact List.mem_cons_self))
    exact ⟨s, rfl⟩

theorem tagTokens_of_base {is : List (Key × Val)} (h : BaseGood is) : ∃ toks, tagTokens is = some toks := by
  unfold tagTokens
  cases hi : getItems is (.rule .Tags) with
  | nil => rw [getSingle_of_nil is _ hi]; exact ⟨_, rfl⟩
  | cons v vs =>
    obtain ⟨rt, ti, rfl⟩ := h.2.2 v (mem_getItems is _ v (by rw [hi]; exact List.mem_cons_self))
    rw [getSingle_of_cons is _ _ vs hi]; exact ⟨_, rfl⟩

theorem title_fields {k : Kind} {line : Token} (hk : fieldsRead k line = (line.keyword.isSome && line.text.isSome))
    (h : fieldsRead k line = true) : ∃ kw nm, line.keyword = some kw ∧ line.text = some nm := by
  rw [hk, Bool.and_eq_true, Option.isSome_iff_exists, Option.isSome_iff_exists] at h
  obtain ⟨⟨kw, h1⟩, nm, h2⟩ := h
  exact ⟨kw, nm, h1, h2⟩

/-- free-text tokens all carry their text -/
theorem other_texts {is : List (Key × Val)} (hg : TokGood is) :
    ∃ ls : List Str, (getTokens is .Other).map (·.text) = ls.map some := by
  have : ∀ toks : List Token, (∀ t ∈ toks, t.mtype = some .Other ∧ WellMatched t) →
      ∃ ls : List Str, toks.map (·.text) = ls.map some := by
    intro toks
    induction toks with
    | nil => intro _; exact ⟨[], rfl⟩
    | cons t toks ih =>
      intro h
      obtain ⟨ls, hls⟩ := ih fun t' ht' => h t' (List.mem_cons_of_mem _ ht')
      obtain ⟨hm, hw⟩ := h t List.mem_cons_self
      have := fieldsRead_of t _ hm hw
      simp only [fieldsRead, Option.isSome_iff_exists] at this
      obtain ⟨tx, htx⟩ := this
      exact ⟨tx :: ls, by simp [htx, hls]⟩
  exact this _ fun t ht => getTokens_good hg ht

/-! ### one node -/

/-- what the node's items must contain: the `required` children, and for a doc string a first
    separator with a text -/
def NodeReq (R : RuleType) (is : List (Key × Val)) : Prop :=
  (∀ x ∈ required R, getItems is (symKey x) ≠ []) ∧
  (R = .DocString → ∀ sep rest, getTokens is .DocStringSeparator = sep :: rest → sep.text.isSome = true)

/-- the outcome of one `transformNode`: a value the parent can read, or the ragged-table error -/
def NodeOutcome (R : RuleType) (res : Except BErr Val × Nat) : Prop :=
  (∃ v, res.1 = .ok v ∧ GoodVal R v) ∨ Ragged res.1

theorem outcome_ok {R : RuleType} {res : Except BErr Val × Nat} (v : Val) (m : Nat)
    (h : res = (.ok v, m)) (hv : GoodVal R v) : NodeOutcome R res :=
  Or.inl ⟨v, by rw [h], hv⟩

theorem outcome_step (cs : List Comment) (is : List (Key × Val)) (n : Nat)
    (hg : GoodItems is) (hr : NodeReq .Step is) :
    NodeOutcome .Step ((transformNode cs ⟨.Step, is⟩).run.run n) := by
  obtain ⟨line, hl⟩ := getSingle_tok_of_ne_nil hg.1 .StepLine (hr.1 _ List.mem_cons_self)
  have hf := fields_of_getSingle hg.1 _ line hl
  simp only [fieldsRead, Bool.and_eq_true, Option.isSome_iff_exists] at hf
  obtain ⟨⟨⟨kw, hk⟩, kt, hkt⟩, tx, ht⟩ := hf
  exact outcome_ok _ _ (step_eq cs is n line kw tx kt hl hk hkt ht) trivial

theorem outcome_background (cs : List Comment) (is : List (Key × Val)) (n : Nat)
    (hg : GoodItems is) (hr : NodeReq .Background is) :
    NodeOutcome .Background ((transformNode cs ⟨.Background, is⟩).run.run n) := by
  obtain ⟨line, hl⟩ := getSingle_tok_of_ne_nil hg.1 .BackgroundLine (hr.1 _ List.mem_cons_self)
  obtain ⟨kw, nm, hk, hn⟩ := title_fields rfl (fields_of_getSingle hg.1 _ line hl)
  obtain ⟨d, hd⟩ := descOf_of_base hg.base
  exact outcome_ok _ _ (background_eq cs is n line kw nm d hl hd hk hn) trivial

theorem outcome_docString (cs : List Comment) (is : List (Key × Val)) (n : Nat)
    (hg : GoodItems is) (hr : NodeReq .DocString is) :
    NodeOutcome .DocString ((transformNode cs ⟨.DocString, is⟩).run.run n) := by
  have hne := getTokens_ne_nil hg.1 .DocStringSeparator (hr.1 _ List.mem_cons_self)
  cases hs : getTokens is .DocStringSeparator with
  | nil => exact absurd hs hne
  | cons sep rest =>
    have hst := hr.2 rfl sep rest hs
    rw [Option.isSome_iff_exists] at hst
    obtain ⟨st, hst⟩ := hst
    obtain ⟨hm, hw⟩ := getTokens_good hg.1 (k := .DocStringSeparator) (t := sep) (by rw [hs]; exact List.mem_cons_self)
    have hf := fieldsRead_of sep _ hm hw
    simp only [fieldsRead, Option.isSome_iff_exists] at hf
    obtain ⟨dl, hdl⟩ := hf
    obtain ⟨ls, hls⟩ := other_texts hg.1
    exact outcome_ok _ _ (docString_eq cs is sep rest st dl ls n hs hst hdl hls) trivial

theorem ragged_of_row (r : Row) (b : Str) : Ragged (α := Val) (.error (.ast ⟨.raggedTable, r.loc, b⟩)) :=
  ⟨_, rfl, rfl⟩

theorem outcome_dataTable (cs : List Comment) (is : List (Key × Val)) (n : Nat)
    (hg : GoodItems is) (hr : NodeReq .DataTable is) :
    NodeOutcome .DataTable ((transformNode cs ⟨.DataTable, is⟩).run.run n) := by
  have hne := getTokens_ne_nil hg.1 .TableRow (hr.1 _ List.mem_cons_self)
  simp only [transformNode, run_bind, run_getTableRows]
  cases hs : getTokens is .TableRow with
  | nil => exact absurd hs hne
  | cons t0 rest =>
    cases hrr : raggedRow (numberRows (t0 :: rest) n) with
    | some r => exact Or.inr (ragged_of_row r _)
    | none => simp only [numberRows_cons, run_pure]; exact Or.inl ⟨_, rfl, trivial⟩

theorem outcome_examplesTable (cs : List Comment) (is : List (Key × Val)) (n : Nat) :
    NodeOutcome .ExamplesTable ((transformNode cs ⟨.ExamplesTable, is⟩).run.run n) := by
  simp only [transformNode, run_bind, run_getTableRows]
  cases hrr : raggedRow (numberRows (getTokens is .TableRow) n) with
  | some r => exact Or.inr (ragged_of_row r _)
  | none => simp only [run_pure]; exact Or.inl ⟨_, rfl, trivial⟩

theorem outcome_description (cs : List Comment) (is : List (Key × Val)) (n : Nat) (hg : GoodItems is) :
    NodeOutcome .Description ((transformNode cs ⟨.Description, is⟩).run.run n) := by
  obtain ⟨ls, hls⟩ := other_texts hg.1
  exact outcome_ok _ _ (description_eq cs is ls n hls) ⟨_, rfl⟩

theorem outcome_document (cs : List Comment) (is : List (Key × Val)) (n : Nat) :
    NodeOutcome .GherkinDocument ((transformNode cs ⟨.GherkinDocument, is⟩).run.run n) :=
  outcome_ok _ _ (document_eq cs is n) trivial

/-- the required raw child of a definition node -/
theorem required_raw {is : List (Key × Val)} (hg : GoodItems is) (x : RuleType)
    (hne : getItems is (.rule x) ≠ []) : GoodVal x (getSingle is (.rule x)) := by
  cases hi : getItems is (.rule x) with
  | nil => exact absurd hi hne
  | cons v vs =>
    rw [getSingle_of_cons is _ _ vs hi]
    exact hg.2 x v (mem_getItems is _ v (by rw [hi]; exact List.mem_cons_self))

theorem outcome_scenario (cs : List Comment) (is : List (Key × Val)) (n : Nat)
    (hg : GoodItems is) (hr : NodeReq .ScenarioDefinition is) :
    NodeOutcome .ScenarioDefinition ((transformNode cs ⟨.ScenarioDefinition, is⟩).run.run n) := by
  obtain ⟨rt, sc, hs, hb, line, hl⟩ := required_raw hg .Scenario (hr.1 _ List.mem_cons_self)
  obtain ⟨toks, htags⟩ := tagTokens_of_base hg.base
  obtain ⟨kw, nm, hk, hn⟩ := title_fields rfl (fields_of_getSingle hb.1 _ line hl)
  obtain ⟨d, hd⟩ := descOf_of_base hb
  exact outcome_ok _ _ (scenario_eq cs is sc n toks rt line kw nm d htags hs hl hd hk hn) trivial

theorem outcome_examples (cs : List Comment) (is : List (Key × Val)) (n : Nat)
    (hg : GoodItems is) (hr : NodeReq .ExamplesDefinition is) :
    NodeOutcome .ExamplesDefinition ((transformNode cs ⟨.ExamplesDefinition, is⟩).run.run n) := by
  obtain ⟨rt, ex, hs, hb, line, hl⟩ := required_raw hg .Examples (hr.1 _ List.mem_cons_self)
  obtain ⟨toks, htags⟩ := tagTokens_of_base hg.base
  obtain ⟨kw, nm, hk, hn⟩ := title_fields rfl (fields_of_getSingle hb.1 _ line hl)
  obtain ⟨d, hd⟩ := descOf_of_base hb
  exact outcome_ok _ _ (examples_eq cs is ex n toks rt line kw nm d htags hs hl hd hk hn) trivial

theorem outcome_rule (cs : List Comment) (is : List (Key × Val)) (n : Nat) (hg : GoodItems is) :
    NodeOutcome .Rule ((transformNode cs ⟨.Rule, is⟩).run.run n) := by
  cases hh : getSingle is (.rule .RuleHeader) with
  | raw rt header =>
    obtain ⟨rt', hd', e, hb⟩ := hg.2 .RuleHeader _ (getSingle_mem is _ _ hh (fun h => by cases h))
    cases e
    obtain ⟨toks, htags⟩ := tagTokens_of_base hb
    cases hl : getSingle header (.tok .RuleLine) with
    | tok line =>
      obtain ⟨kw, nm, hk, hn⟩ := title_fields rfl (fields_of_getSingle hb.1 _ line hl)
      obtain ⟨d, hd⟩ := descOf_of_base hb
      exact outcome_ok _ _ (rule_eq cs is header n toks rt line kw nm d hh htags hl hd hk hn) trivial
    | _ =>
      simp only [transformNode, hh, run_bind, run_getTags_some header toks n htags, hl, run_pure]
      exact Or.inl ⟨_, rfl, trivial⟩
  | _ =>
    simp only [transformNode, hh, run_pure]
    exact Or.inl ⟨_, rfl, trivial⟩

theorem outcome_feature (cs : List Comment) (is : List (Key × Val)) (n : Nat) (hg : GoodItems is) :
    NodeOutcome .Feature ((transformNode cs ⟨.Feature, is⟩).run.run n) := by
  cases hh : getSingle is (.rule .FeatureHeader) with
  | raw rt header =>
    obtain ⟨rt', hd', e, hb⟩ := hg.2 .FeatureHeader _ (getSingle_mem is _ _ hh (fun h => by cases h))
    cases e
    obtain ⟨toks, htags⟩ := tagTokens_of_base hb
    cases hl : getSingle header (.tok .FeatureLine) with
    | tok line =>
      obtain ⟨kw, nm, hk, hn⟩ := title_fields rfl (fields_of_getSingle hb.1 _ line hl)
      obtain ⟨d, hd⟩ := descOf_of_base hb
      exact outcome_ok _ _ (feature_eq cs is header n toks rt line kw nm d hh htags hl hd hk hn) trivial
    | _ =>
      simp only [transformNode, hh, run_bind, run_getTags_some header toks n htags, hl, run_pure]
      exact Or.inl ⟨_, rfl, trivial⟩
  | _ =>
    simp only [transformNode, hh, run_pure]
    exact Or.inl ⟨_, rfl, trivial⟩

/-- a rule type that stays a raw node -/
theorem outcome_raw (cs : List Comment) (R : RuleType) (is : List (Key × Val)) (n : Nat)
    (hR : transformNode cs ⟨R, is⟩ = pure (.raw R is)) (hv : GoodVal R (.raw R is)) :
    NodeOutcome R ((transformNode cs ⟨R, is⟩).run.run n) := by
  rw [hR, run_pure]; exact Or.inl ⟨_, rfl, hv⟩

/-- One node: on items satisfying the invariant and holding the required children,
    `transformNode` returns a value satisfying the invariant or raises the ragged-table error. -/
theorem node_outcome (cs : List Comment) (R : RuleType) (is : List (Key × Val)) (n : Nat)
    (hg : GoodItems is) (hr : NodeReq R is) :
    NodeOutcome R ((transformNode cs ⟨R, is⟩).run.run n) := by
  cases R
  case None_ => exact outcome_raw cs _ is n rfl trivial
  case StepArg => exact outcome_raw cs _ is n rfl trivial
  case DescriptionHelper => exact outcome_raw cs _ is n rfl trivial
  case GherkinDocument => exact outcome_document cs is n
  case Feature => exact outcome_feature cs is n hg
  case FeatureHeader => exact outcome_raw cs _ is n rfl ⟨_, _, rfl, hg.base⟩
  case Rule => exact outcome_rule cs is n hg
  case RuleHeader => exact outcome_raw cs _ is n rfl ⟨_, _, rfl, hg.base⟩
  case Background => exact outcome_background cs is n hg hr
  case ScenarioDefinition => exact outcome_scenario cs is n hg hr
  case Scenario =>
    exact outcome_raw cs _ is n rfl
      ⟨_, _, rfl, hg.base, getSingle_tok_of_ne_nil hg.1 .ScenarioLine (hr.1 _ List.mem_cons_self)⟩
  case ExamplesDefinition => exact outcome_examples cs is n hg hr
  case Examples =>
    exact outcome_raw cs _ is n rfl
      ⟨_, _, rfl, hg.base, getSingle_tok_of_ne_nil hg.1 .ExamplesLine (hr.1 _ List.mem_cons_self)⟩
  case ExamplesTable => exact outcome_examplesTable cs is n
  case Step => exact outcome_step cs is n hg hr
  case DataTable => exact outcome_dataTable cs is n hg hr
  case DocString => exact outcome_docString cs is n hg hr
  case Tags => exact outcome_raw cs _ is n rfl ⟨_, _, rfl⟩
  case Description => exact outcome_description cs is n hg

/-! ### from the children of a node to its items -/

/-- the items a list of sibling trees contributes: they satisfy the invariant, the tokens under
    each kind are the child lines of that kind in order, and every child node has its item -/
structure ItemsSpec (ts : List TTree) (is : List (Key × Val)) : Prop where
  good : GoodItems is
  toks : ∀ k, k ≠ .Comment → getTokens is k = childTokens k ts
  rules : ∀ r, ts.any (TTree.isSym (.rule r)) = true → getItems is (.rule r) ≠ []

/-- the outcome of `itemsOf` / `itemsOfList` -/
def ItemsOutcome (ts : List TTree) (res : Except BErr (List (Key × Val)) × Nat) : Prop :=
  (∃ is, res.1 = .ok is ∧ ItemsSpec ts is) ∨ Ragged res.1

theorem getTokens_append (xs ys : List (Key × Val)) (k : Kind) :
    getTokens (xs ++ ys) k = getTokens xs k ++ getTokens ys k := by
  simp [getTokens, getItems_append, List.filterMap_append]

theorem childTokens_cons (k : Kind) (c : TTree) (ts : List TTree) :
    childTokens k (c :: ts) = childTokens k [c] ++ childTokens k ts := by
  rw [childTokens, childTokens, childTokens, ← List.filterMap_append]; rfl

theorem goodItems_nil : GoodItems [] :=
  ⟨fun _ _ h => (nomatch h), fun _ _ h => (nomatch h)⟩

theorem itemsSpec_nil : ItemsSpec [] [] :=
  ⟨goodItems_nil, fun _ _ => rfl, fun _ h => by simp at h⟩

/-- the same error at another result type -/
theorem ragged_error {α β} {e : BErr} (h : Ragged (.error e : Except BErr α)) :
    Ragged (.error e : Except BErr β) := by
  obtain ⟨p, h1, h2⟩ := h
  cases h1
  exact ⟨p, rfl, h2⟩

theorem itemsSpec_append {c : TTree} {ts : List TTree} {i is : List (Key × Val)}
    (h1 : ItemsSpec [c] i) (h2 : ItemsSpec ts is) : ItemsSpec (c :: ts) (i ++ is) := by
  refine ⟨⟨?_, ?_⟩, ?_, ?_⟩
  · intro k v hm
    rcases List.mem_append.1 hm with h | h
    · exact h1.good.1 k v h
    · exact h2.good.1 k v h
  · intro r v hm
    rcases List.mem_append.1 hm with h | h
    · exact h1.good.2 r v h
    · exact h2.good.2 r v h
  · intro k hk
    rw [getTokens_append, childTokens_cons, h1.toks k hk, h2.toks k hk]
  · intro r hr
    rw [List.any_cons, Bool.or_eq_true] at hr
    rw [getItems_append]
    rcases hr with hr | hr
    · have := h1.rules r (by rw [List.any_cons, hr]; rfl)
      intro e; exact this (List.append_eq_nil_iff.1 e).1
    · have := h2.rules r hr
      intro e; exact this (List.append_eq_nil_iff.1 e).2

/-- a matched, well-matched line -/
theorem itemsSpec_leaf (t : Token) (hw : WellMatched t) (n : Nat) :
    ItemsOutcome [.leaf t] ((leafItems t).run.run n) := by
  obtain ⟨k, hm, hf⟩ := (wellMatched_iff t).1 hw
  have hrule : ∀ r, [TTree.leaf t].any (TTree.isSym (.rule r)) = true → False := by
    intro r h; simp [TTree.isSym] at h
  by_cases hc : k = .Comment
  · subst hc
    simp only [fieldsRead, Option.isSome_iff_exists] at hf
    obtain ⟨tx, htx⟩ := hf
    have hl : (leafItems t).run.run n = (.ok [], n) := by
      unfold leafItems; rw [hm]; simp only [htx]; rfl
    refine Or.inl ⟨[], by rw [hl], goodItems_nil, ?_, fun r h => (hrule r h).elim⟩
    intro k hk
    have : t.mtype ≠ some k := by rw [hm]; intro e; cases e; exact hk rfl
    simp [childTokens, this, getTokens, getItems]
  · rw [run_leafItems_token t k n hm hc]
    refine Or.inl ⟨_, rfl, ⟨?_, ?_⟩, ?_, fun r h => (hrule r h).elim⟩
    · intro k' v h
      simp only [List.mem_singleton, Prod.mk.injEq, Key.tok.injEq] at h
      obtain ⟨rfl, rfl⟩ := h
      exact ⟨t, rfl, hm, hw⟩
    · intro r v h
      simp only [List.mem_singleton, Prod.mk.injEq, reduceCtorEq, false_and] at h
    · intro k' _
      by_cases e : k = k'
      · subst e; simp [childTokens, hm, getTokens, getItems]
      · have : t.mtype ≠ some k' := by rw [hm]; intro e'; cases e'; exact e rfl
        simp [childTokens, this, getTokens, getItems, e]

/-- a node's single item -/
theorem itemsSpec_node (r : RuleType) (ch : List TTree) (v : Val) (hv : GoodVal r v) :
    ItemsSpec [.node r ch] [(.rule r, v)] := by
  refine ⟨⟨?_, ?_⟩, ?_, ?_⟩
  · intro k v' h
    simp only [List.mem_singleton, Prod.mk.injEq, reduceCtorEq, false_and] at h
  · intro r' v' h
    simp only [List.mem_singleton, Prod.mk.injEq, Key.rule.injEq] at h
    obtain ⟨rfl, rfl⟩ := h
    exact hv
  · intro k _; simp [childTokens, getTokens, getItems]
  · intro r' h
    simp only [List.any_cons, List.any_nil, Bool.or_false, TTree.isSym, beq_iff_eq] at h
    subst h
    simp [getItems]

theorem any_isSym_tok (k : Kind) (ts : List TTree) (h : ts.any (TTree.isSym (.tok k)) = true) :
    childTokens k ts ≠ [] := by
  rw [List.any_eq_true] at h
  obtain ⟨c, hc, hs⟩ := h
  cases c with
  | node r ch => simp [TTree.isSym] at hs
  | leaf t =>
    simp only [TTree.isSym, beq_iff_eq] at hs
    intro e
    have : t ∈ childTokens k ts := by
      simp only [childTokens, List.mem_filterMap]
      exact ⟨.leaf t, hc, by simp [hs]⟩
    rw [e] at this; cases this

theorem comment_not_required (r : RuleType) : Sym.tok .Comment ∉ required r := by
  cases r <;> decide

/-- the requirements on the children carry over to the items -/
theorem nodeReq_of_spec (r : RuleType) (ch : List TTree) (is : List (Key × Val)) (hs : ItemsSpec ch is)
    (hc : nodeComplete r ch = true) (ho : nodeOpened r ch = true) : NodeReq r is := by
  constructor
  · intro x hx
    have hany := List.all_eq_true.1 hc x hx
    cases x with
    | rule x => exact hs.rules x hany
    | tok k =>
      have hk : k ≠ .Comment := fun e => comment_not_required r (e ▸ hx)
      have := any_isSym_tok k ch hany
      rw [← hs.toks k hk] at this
      intro e
      apply this
      simp [getTokens, symKey] at e ⊢
      simp [e]
  · intro hr sep rest hsep
    subst hr
    rw [hs.toks _ (by decide)] at hsep
    simp only [nodeOpened, hsep, List.head?_cons, bne_self_eq_false, Bool.false_or] at ho
    exact ho

/-! ### the induction over the tree -/

/-- the hypotheses on a tree / a list of sibling trees -/
def TreeHyp (t : TTree) : Prop :=
  complete t = true ∧ opened t = true ∧ ∀ tk ∈ leaves t, WellMatched tk
def ListHyp (ts : List TTree) : Prop :=
  completeList ts = true ∧ openedList ts = true ∧ ∀ tk ∈ leavesList ts, WellMatched tk

def SafeSpec (t : TTree) : Prop :=
  TreeHyp t → ∀ (cs : List Comment) (n : Nat), ItemsOutcome [t] ((itemsOf cs t).run.run n)
def SafeSpecList (ts : List TTree) : Prop :=
  ListHyp ts → ∀ (cs : List Comment) (n : Nat), ItemsOutcome ts ((itemsOfList cs ts).run.run n)

theorem safeSpec_leaf (t : Token) : SafeSpec (.leaf t) := by
  intro h cs n
  rw [itemsOf]
  exact itemsSpec_leaf t (h.2.2 t (by simp [leaves])) n

theorem safeSpec_nil : SafeSpecList [] := by
  intro _ cs n
  rw [itemsOfList, run_pure]
  exact Or.inl ⟨[], rfl, itemsSpec_nil⟩

theorem safeSpec_cons (c : TTree) (ts : List TTree) (hc : SafeSpec c) (hts : SafeSpecList ts) :
    SafeSpecList (c :: ts) := by
  intro h cs n
  obtain ⟨h1, h2, h3⟩ := h
  simp only [completeList, Bool.and_eq_true] at h1
  simp only [openedList, Bool.and_eq_true] at h2
  simp only [leavesList, List.mem_append] at h3
  have hc' := hc ⟨h1.1, h2.1, fun tk htk => h3 tk (Or.inl htk)⟩ cs n
  rw [run_itemsOfList_cons]
  rcases hr1 : (itemsOf cs c).run.run n with ⟨e | i, n₁⟩
  · rw [hr1] at hc'
    rcases hc' with ⟨_, h, _⟩ | h
    · cases h
    · exact Or.inr h
  · rw [hr1] at hc'
    rcases hc' with ⟨i', h, hi⟩ | ⟨_, h, _⟩
    · simp only [Except.ok.injEq] at h; subst h
      have hts' := hts ⟨h1.2, h2.2, fun tk htk => h3 tk (Or.inr htk)⟩ cs n₁
      simp only
      rcases hr2 : (itemsOfList cs ts).run.run n₁ with ⟨e | is, n₂⟩
      · rw [hr2] at hts'
        rcases hts' with ⟨_, h, _⟩ | h
        · cases h
        · exact Or.inr h
      · rw [hr2] at hts'
        rcases hts' with ⟨is', h, his⟩ | ⟨_, h, _⟩
        · simp only [Except.ok.injEq] at h; subst h
          exact Or.inl ⟨_, rfl, itemsSpec_append hi his⟩
        · cases h
    · cases h

theorem safeSpec_node (r : RuleType) (ch : List TTree) (hch : SafeSpecList ch) : SafeSpec (.node r ch) := by
  intro h cs n
  obtain ⟨h1, h2, h3⟩ := h
  simp only [complete, Bool.and_eq_true] at h1
  simp only [opened, Bool.and_eq_true] at h2
  simp only [leaves] at h3
  have hch' := hch ⟨h1.2, h2.2, h3⟩ cs n
  rw [run_itemsOf_node]
  rcases hr1 : (itemsOfList cs ch).run.run n with ⟨e | is, n₁⟩
  · rw [hr1] at hch'
    rcases hch' with ⟨_, h, _⟩ | h
    · cases h
    · exact Or.inr h
  · rw [hr1] at hch'
    rcases hch' with ⟨is', h, his⟩ | ⟨_, h, _⟩
    · simp only [Except.ok.injEq] at h; subst h
      have hno := node_outcome cs r is n₁ his.good (nodeReq_of_spec r ch is his h1.1 h2.1)
      simp only
      rcases hr2 : (transformNode cs ⟨r, is⟩).run.run n₁ with ⟨e | v, n₂⟩
      · rw [hr2] at hno
        rcases hno with ⟨_, h, _⟩ | h
        · cases h
        · exact Or.inr (ragged_error h)
      · rw [hr2] at hno
        rcases hno with ⟨v', h, hv⟩ | ⟨_, h, _⟩
        · simp only [Except.ok.injEq] at h; subst h
          exact Or.inl ⟨_, rfl, itemsSpec_node r ch v hv⟩
        · cases h
    · cases h

mutual
theorem safeSpec_all : ∀ t : TTree, SafeSpec t
  | .leaf t => safeSpec_leaf t
  | .node r ch => safeSpec_node r ch (safeSpecList_all ch)
theorem safeSpecList_all : ∀ ts : List TTree, SafeSpecList ts
  | [] => safeSpec_nil
  | c :: ts => safeSpec_cons c ts (safeSpec_all c) (safeSpecList_all ts)
end

/-- The structural recursion never crashes: on a complete tree with well-matched leaves and
    opened doc strings, `astOf` returns a value or raises the ragged-table error. -/
theorem astOf_no_crash (t : TTree) (hc : Complete t) (hl : ∀ tk ∈ leaves t, WellMatched tk)
    (hd : DocStringsOpened t) (cs : List Comment) (n : Nat) :
    (∃ v, ((astOf cs t).run.run n).1 = .ok v) ∨ Ragged ((astOf cs t).run.run n).1 := by
  have key := safeSpec_all t ⟨hc, hd, hl⟩ cs n
  cases t with
  | leaf tk =>
    rw [itemsOf] at key
    rw [astOf, run_bind]
    rcases hr : (leafItems tk).run.run n with ⟨e | is, n₁⟩
    · rw [hr] at key
      rcases key with ⟨_, h, _⟩ | h
      · cases h
      · exact Or.inr (ragged_error h)
    · exact Or.inl ⟨_, rfl⟩
  | node r ch =>
    rw [run_itemsOf_node_eq_astOf] at key
    rcases hr : (astOf cs (.node r ch)).run.run n with ⟨e | v, n₁⟩
    · rw [hr] at key
      rcases key with ⟨_, h, _⟩ | h
      · cases h
      · exact Or.inr (ragged_error h)
    · exact Or.inl ⟨_, rfl⟩

/-- … in particular it never ends in a crash -/
theorem astOf_not_crash (t : TTree) (hc : Complete t) (hl : ∀ tk ∈ leaves t, WellMatched tk)
    (hd : DocStringsOpened t) (cs : List Comment) (n : Nat) (s : String) :
    ((astOf cs t).run.run n).1 ≠ .error (.crash s) := by
  intro h
  rcases astOf_no_crash t hc hl hd cs n with ⟨v, hv⟩ | ⟨e, he, -⟩
  · rw [h] at hv; cases hv
  · rw [h] at he; cases he

/-! ### completeness follows from the grammar -/

/-- the grammar fact behind `Spec.required`: the required children occur in every word of the
    rule's right-hand side (rules without `!` inlined) -/
def completeCheck (G : Grammar) : Bool :=
  allRuleTypes.all fun r => (required r).all fun x => RE.must x (rhsOf G r)

theorem other_not_required (r : RuleType) : Sym.tok .Other ∉ required r := by
  cases r <;> decide

theorem nodeComplete_of_valid {G : Grammar} (r : RuleType)
    (hc : ((required r).all fun x => RE.must x (rhsOf G r)) = true) (ch : List TTree)
    (kept : List Tree) (hd : DropIgnored G (kindsList ch) kept)
    (hl : Spec.RE.Lang (rhsOf G r) (kept.map Tree.sym)) : nodeComplete r ch = true := by
  simp only [nodeComplete, List.all_eq_true] at hc ⊢
  intro x hx
  have hm := RE.must_of_lang hl (hc x hx)
  obtain ⟨t, ht, hs⟩ := List.mem_map.1 hm
  have := dropIgnored_sub hd _ ht
  rw [kindsList_eq_map] at this
  obtain ⟨c, hcm, hck⟩ := List.mem_map.1 this
  refine List.any_eq_true.2 ⟨c, hcm, isSym_of_sym_kinds c x ?_ (by rw [hck, hs])⟩
  rintro rfl
  exact other_not_required r hx

mutual
theorem complete_of_validNode {G : Grammar} (hc : completeCheck G = true) :
    ∀ t : TTree, ValidNode G t.kinds → complete t = true
  | .leaf _, _ => by rw [complete]
  | .node r ch, hv => by
    rw [TTree.kinds] at hv
    cases hv with
    | node _ _ kept hvl hd hl =>
      rw [← rhsOf_eq] at hl
      rw [complete, Bool.and_eq_true]
      exact ⟨nodeComplete_of_valid r (List.all_eq_true.1 hc r (mem_allRuleTypes r)) ch kept hd hl,
        completeList_of_validList hc ch hvl⟩
theorem completeList_of_validList {G : Grammar} (hc : completeCheck G = true) :
    ∀ ts : List TTree, ValidList G (kindsList ts) → completeList ts = true
  | [], _ => by rw [completeList]
  | c :: ts, hv => by
    rw [kindsList] at hv
    obtain ⟨h1, h2⟩ := validList_cons_inv hv
    rw [completeList, Bool.and_eq_true]
    exact ⟨complete_of_validNode hc c h1, completeList_of_validList hc ts h2⟩
end

theorem completeList_append (a b : List TTree) :
    completeList (a ++ b) = (completeList a && completeList b) := by
  induction a with
  | nil => rw [List.nil_append, completeList, Bool.true_and]
  | cons c a ih => rw [List.cons_append, completeList, completeList, ih, Bool.and_assoc]

/-- Every token tree whose kind projection is a valid derivation tree of `G` is complete,
    provided the Boolean check on `G` holds. -/
theorem complete_of_validTree {G : Grammar} (hc : completeCheck G = true) (start : RuleType) (t : TTree)
    (hv : ValidTree G start t.kinds) : complete t = true := by
  obtain ⟨cs, e, hnode⟩ := hv
  cases t with
  | leaf tk => simp [TTree.kinds] at e
  | node r ch =>
    simp only [TTree.kinds, Tree.node.injEq] at e
    obtain ⟨rfl, e⟩ := e
    rw [kindsList_eq_map] at e
    obtain ⟨ch', l, rfl, e1, e2⟩ := List.map_eq_append_iff.1 e
    have hsh : complete (.node r ch') = true :=
      complete_of_validNode hc (.node r ch') (by rw [TTree.kinds, kindsList_eq_map, e1]; exact hnode)
    cases l with
    | nil => simp at e2
    | cons c l =>
      simp only [List.map_cons, List.cons.injEq, List.map_eq_nil_iff] at e2
      obtain ⟨hc1, rfl⟩ := e2
      cases c with
      | node r' ch'' => simp [TTree.kinds] at hc1
      | leaf tk =>
        rw [complete, Bool.and_eq_true] at hsh ⊢
        refine ⟨?_, ?_⟩
        · have h1 := hsh.1
          simp only [nodeComplete, List.all_eq_true] at h1 ⊢
          intro x hx
          rw [List.any_append, h1 x hx]; rfl
        · rw [completeList_append, hsh.2, completeList, completeList, complete]; rfl

/-- the kernel-evaluated fact about the regenerated grammar -/
theorem completeCheck_gen : completeCheck Gen.grammar = true := by kdecide

/-- the tree of every accepted document is complete -/
theorem complete_of_valid_gen (t : TTree) (hv : ValidTree Gen.grammar .GherkinDocument t.kinds) :
    Complete t :=
  complete_of_validTree completeCheck_gen _ t hv

/-! ### the builder's run -/

/-- The stack machine never crashes either: for a document tree satisfying the hypotheses, the
    builder's run on the tree's calls from a fresh state ends without error and `get_result()`
    returns a document, or it stops with the ragged-table error. -/
theorem builder_no_crash (t : TTree) (ht : t.isDocument = true) (hc : Complete t)
    (hl : ∀ tk ∈ leaves t, WellMatched tk) (hd : DocStringsOpened t) (n : Nat) :
    (∃ β n' d, applyOps (opsOf t) BState.reset n = (.ok (), β, n') ∧ β.result = .ok (some d)) ∨
    Ragged (applyOps (opsOf t) BState.reset n).1 := by
  obtain ⟨hok, herr⟩ := ast_of_tree t ht n
  rcases hr : (astOf (commentsOf t) t).run.run n with ⟨e | v, n'⟩
  · have := astOf_no_crash t hc hl hd (commentsOf t) n
    rw [hr] at this
    rcases this with ⟨_, h⟩ | h
    · cases h
    · obtain ⟨β, hβ⟩ := herr e n' hr
      rw [hβ]
      exact Or.inr (ragged_error h)
  · obtain ⟨β, hβ, -, -, d, -, hres, -⟩ := hok v n' hr
    exact Or.inl ⟨β, n', d, hβ, hres⟩

/-- accepted documents: the tree's projection is a valid derivation tree of the grammar -/
theorem builder_no_crash_accepted (t : TTree) (hv : ValidTree Gen.grammar .GherkinDocument t.kinds)
    (hl : ∀ tk ∈ leaves t, WellMatched tk) (hd : DocStringsOpened t) (n : Nat) :
    (∃ β n' d, applyOps (opsOf t) BState.reset n = (.ok (), β, n') ∧ β.result = .ok (some d)) ∨
    Ragged (applyOps (opsOf t) BState.reset n).1 := by
  have hs := shaped_of_valid_gen t hv
  have hc := complete_of_valid_gen t hv
  obtain ⟨ch, rfl⟩ := root_of_validTree t hv
  exact builder_no_crash _ (isDocument_of_shaped ch hs) hc hl hd n

end Lemmas
end GV
