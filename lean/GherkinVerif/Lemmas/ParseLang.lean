/-
  Lemmas/ParseLang.lean — document-level corollaries of the link, part 4 (property C05 at document
  level): the `language` of the feature of an accepted document is the dialect name in force at
  the feature line — the matcher's default name, unless a `# language:` header was read as such
  before it, in which case the name in the last such header.

  (a) `feature_language_leaf`: through the fold `astOf`: the feature's `language` is the `dialect`
      field of a leaf read as `FeatureLine` (items come from children: `itemsOfList_mem`;
      `feature_ok` of Lemmas/Builder.lean).
  (b) a token matched as a title line carries the name of the dialect in force
      (`matchLine_title_dialect`, = `C05_dialect_reported`).
  (c) along `LineToks` the name changes only at lines read as `Language`, to the name in the header
      (`matchLine_name`, `LineToks.nameAt`).
-/
import GherkinVerif.Lemmas.ParseDoc
namespace GV
namespace Spec

/-- the dialect name in force when line `i` is reached, starting from `dflt`: the name in the last
    line before `i` whose token was read as a `# language:` header -/
def nameAt (dflt : Str) : List Str → List Token → Nat → Str
  | l :: ls, t :: ts, i + 1 =>
    nameAt (if t.mtype = some .Language then (languageRe l).getD dflt else dflt) ls ts i
  | _, _, _ => dflt

end Spec

namespace Lemmas
open Spec

/-! ### (c) the name along the lines -/

theorem matchDocSep_name {μ μ' : MState} {t t' : Token} {l sep : Str} {o : Bool}
    (h : matchDocSep μ t l sep o = some (t', μ')) : μ'.name = μ.name := by
  unfold matchDocSep at h
  split at h
  · split at h <;> (cases h; rfl)
  · cases h

/-- a successful test changes the dialect name only if it is the `Language` test, to the name in
    the header -/
theorem matchLine_name (D : List Dialect) (K : Kind) (μ : MState) (t : Token) (l : Str)
    (h : (matchLine D K μ t l).res = .matched) :
    (matchLine D K μ t l).μ.name = if K = .Language then (languageRe l).getD μ.name else μ.name := by
  have hor : ∀ t' μ', ((matchDocSep μ t l dq3 true).orElse fun _ => matchDocSep μ t l bt3 true) = some (t', μ') →
      μ'.name = μ.name := by
    intro t' μ' hm
    cases ha : matchDocSep μ t l dq3 true with
    | some x => rw [ha] at hm; simp only [Option.orElse] at hm; cases hm; exact matchDocSep_name ha
    | none => rw [ha] at hm; simp only [Option.orElse] at hm; exact matchDocSep_name hm
  cases K
  case Language =>
    simp only [matchLine] at h ⊢
    cases hre : languageRe (lineText l none) with
    | none => rw [hre] at h; cases h
    | some name =>
      have hl : languageRe l = some name := by
        simpa [lineText, trimmed, languageRe_lstrip] using hre
      rw [hre] at h
      dsimp only at h ⊢
      cases hd : findDialect D name with
      | none => rw [hd] at h; cases h
      | some d => simp [hl]
  case DocStringSeparator =>
    simp only [matchLine] at h ⊢
    split
    · rename_i t' μ' hr
      simp only [reduceCtorEq, if_false]
      split at hr
      · exact hor _ _ hr
      · split at hr
        · exact hor _ _ hr
        · exact matchDocSep_name hr
    · rfl
  case FeatureLine => rw [matchLine_title D _ rfl]; simp only [reduceCtorEq, if_false]; exact congrArg MState.name (ofOpt_mu ..)
  case RuleLine => rw [matchLine_title D _ rfl]; simp only [reduceCtorEq, if_false]; exact congrArg MState.name (ofOpt_mu ..)
  case BackgroundLine => rw [matchLine_title D _ rfl]; simp only [reduceCtorEq, if_false]; exact congrArg MState.name (ofOpt_mu ..)
  case ScenarioLine => rw [matchLine_title D _ rfl]; simp only [reduceCtorEq, if_false]; exact congrArg MState.name (ofOpt_mu ..)
  case ExamplesLine => rw [matchLine_title D _ rfl]; simp only [reduceCtorEq, if_false]; exact congrArg MState.name (ofOpt_mu ..)
  case EOF => rfl
  case Other => rfl
  case TableRow => simp only [matchLine]; split <;> rfl
  case StepLine => simp only [matchLine]; split <;> rfl
  case Comment => simp only [matchLine]; split <;> rfl
  case Empty => simp only [matchLine]; split <;> rfl
  case TagLine =>
    simp only [matchLine]
    split
    · split <;> rfl
    · rfl

theorem LineToks.nameAt {D : List Dialect} {μ μf : MState} {n : Nat} {ls : List Str} {toks : List Token}
    (h : LineToks D μ n ls toks μf) : ∀ (i : Nat) (l : Str) (tk : Token), ls[i]? = some l → toks[i]? = some tk →
      ∃ K μi, (matchLine D K μi (freshTok l (n + i)) l).res = .matched ∧
        tk = (matchLine D K μi (freshTok l (n + i)) l).tok ∧ tk.mtype = some K ∧
        μi.name = Spec.nameAt μ.name ls toks i := by
  induction h with
  | nil => intro i l tk hi; simp at hi
  | @cons μ n l0 ls toks μf K hd hs hres hp _ _ ih =>
    intro i l tk hi ht
    cases i with
    | zero =>
      simp only [List.getElem?_cons_zero, Option.some.injEq] at hi ht
      subst hi ht
      exact ⟨K, μ, hres, rfl, (match_well_matched D K μ _ _ hres).1, rfl⟩
    | succ i =>
      simp only [List.getElem?_cons_succ] at hi ht
      obtain ⟨K', μi, h1, h2, h3, h4⟩ := ih i l tk hi ht
      have : n + 1 + i = n + (i + 1) := by omega
      rw [this] at h1 h2
      refine ⟨K', μi, h1, h2, h3, ?_⟩
      rw [h4]
      have hname : (muAfter D μ l0 K).name = if K = .Language then (languageRe l0).getD μ.name else μ.name := by
        have hpr : (matchLine D K μ (probe l0) l0).res = .matched := by
          have hsh := (matchLine_indep D K μ (freshTok l0 n) (probe l0) l0).2
          rw [hres] at hsh
          cases hr : (matchLine D K μ (probe l0) l0).res with
          | matched => rfl
          | no => rw [hr] at hsh; cases hsh
          | raised e => rw [hr] at hsh; cases hsh
        exact matchLine_name D K μ (probe l0) l0 hpr
      rw [hname]
      have hmt := (match_well_matched D K μ (freshTok l0 n) l0 hres).1
      show _ = Spec.nameAt (if (matchLine D K μ (freshTok l0 n) l0).tok.mtype = some Kind.Language then _ else _) ls toks i
      rw [hmt]
      by_cases hK : K = .Language
      · simp [hK]
      · have : ¬ (some K = some Kind.Language) := fun e => hK (Option.some.inj e)
        simp [hK, this]

/-- no `# language:` header before line `i`: the name is still the initial one -/
theorem nameAt_default (dflt : Str) : ∀ (ls : List Str) (toks : List Token) (i : Nat),
    (∀ j tk, j < i → toks[j]? = some tk → tk.mtype ≠ some .Language) → Spec.nameAt dflt ls toks i = dflt := by
  intro ls
  induction ls with
  | nil => intro toks i _; cases toks <;> cases i <;> rfl
  | cons l ls ih =>
    intro toks i h
    cases toks with
    | nil => cases i <;> rfl
    | cons t ts =>
      cases i with
      | zero => rfl
      | succ i =>
        have h0 : t.mtype ≠ some .Language := h 0 t (by omega) rfl
        simp only [Spec.nameAt, h0, if_false]
        exact ih ts i fun j tk hj hjt => h (j + 1) tk (by omega) (by simpa using hjt)

/-! ### (a) the feature's `language` is the `dialect` field of a `FeatureLine` leaf -/

theorem leafItems_mem (tk : Token) (n : Nat) (i : List (Key × Val)) (n' : Nat)
    (h : (leafItems tk).run.run n = (.ok i, n')) :
    ∀ kv ∈ i, ∃ k, kv = (Key.tok k, Val.tok tk) ∧ tk.mtype = some k := by
  unfold leafItems at h
  split at h
  · split at h
    · rw [run_pure, res_inj] at h
      obtain ⟨h1, -⟩ := h
      cases h1
      intro kv hkv; cases hkv
    · rw [run_crash, res_inj] at h; cases h.1
  · rw [run_pure, res_inj] at h
    obtain ⟨h1, -⟩ := h
    cases h1
    intro kv hkv
    rw [List.mem_singleton] at hkv
    exact ⟨_, hkv, by assumption⟩
  · rw [run_crash, res_inj] at h; cases h.1

/-- every item of a list of sibling trees comes from one of them: a token item from a leaf read
    as that kind, a rule item from a node of that rule type, with that node's value -/
theorem itemsOfList_mem (cs : List Comment) : ∀ (ts : List TTree) (n : Nat) (is : List (Key × Val)) (n' : Nat),
    (itemsOfList cs ts).run.run n = (.ok is, n') → ∀ kv ∈ is,
      (∃ k tk, TTree.leaf tk ∈ ts ∧ kv = (Key.tok k, Val.tok tk) ∧ tk.mtype = some k) ∨
      (∃ r chR n1 n2 v, TTree.node r chR ∈ ts ∧ kv = (Key.rule r, v) ∧
        (astOf cs (.node r chR)).run.run n1 = (.ok v, n2)) := by
  intro ts
  induction ts with
  | nil =>
    intro n is n' h kv hkv
    rw [itemsOfList, run_pure, res_inj] at h
    obtain ⟨h1, -⟩ := h
    cases h1
    cases hkv
  | cons c ts ih =>
    intro n is n' h kv hkv
    rw [run_itemsOfList_cons] at h
    rcases h1 : (itemsOf cs c).run.run n with ⟨e | i, n1⟩
    · rw [h1] at h; dsimp only at h; rw [res_inj] at h; cases h.1
    · rw [h1] at h
      dsimp only at h
      rcases h2 : (itemsOfList cs ts).run.run n1 with ⟨e | is2, n2⟩
      · rw [h2] at h; dsimp only at h; rw [res_inj] at h; cases h.1
      · rw [h2] at h
        dsimp only at h
        rw [res_inj] at h
        obtain ⟨hh, -⟩ := h
        cases hh
        rcases List.mem_append.1 hkv with hkv | hkv
        · cases c with
          | leaf tk =>
            rw [itemsOf] at h1
            obtain ⟨k, hk1, hk2⟩ := leafItems_mem tk n i n1 h1 kv hkv
            exact .inl ⟨k, tk, List.mem_cons_self .., hk1, hk2⟩
          | node r chR =>
            rw [run_itemsOf_node_eq_astOf] at h1
            rcases h3 : (astOf cs (.node r chR)).run.run n with ⟨e | v, n3⟩
            · rw [h3] at h1; dsimp only at h1; rw [res_inj] at h1; cases h1.1
            · rw [h3] at h1
              dsimp only at h1
              rw [res_inj] at h1
              obtain ⟨hh, -⟩ := h1
              cases hh
              rw [List.mem_singleton] at hkv
              exact .inr ⟨r, chR, n, n3, v, List.mem_cons_self .., hkv, h3⟩
        · rcases ih n1 is2 n2 h2 kv hkv with ⟨k, tk, hm, h3, h4⟩ | ⟨r, chR, m1, m2, v, hm, h3, h4⟩
          · exact .inl ⟨k, tk, List.mem_cons_of_mem _ hm, h3, h4⟩
          · exact .inr ⟨r, chR, m1, m2, v, List.mem_cons_of_mem _ hm, h3, h4⟩

theorem leaf_mem_leavesList {tk : Token} {ts : List TTree} (h : TTree.leaf tk ∈ ts) : tk ∈ leavesList ts := by
  induction ts with
  | nil => cases h
  | cons c ts ih =>
    simp only [leavesList, List.mem_append]
    rcases List.mem_cons.1 h with rfl | h
    · exact .inl (by simp [leaves])
    · exact .inr (ih h)

theorem node_leaves_sub {r : RuleType} {ch ts : List TTree} (h : TTree.node r ch ∈ ts) :
    ∀ x ∈ leavesList ch, x ∈ leavesList ts := by
  induction ts with
  | nil => cases h
  | cons c ts ih =>
    intro x hx
    simp only [leavesList, List.mem_append]
    rcases List.mem_cons.1 h with rfl | h
    · exact .inl (by simpa [leaves] using hx)
    · exact .inr (ih h x hx)

theorem feature_language_leaf (t : TTree) (hdoc : t.isDocument = true) (cs : List Comment) (n n' : Nat) (d : Doc)
    (h : (astOf cs t).run.run n = (.ok (.doc d), n')) (f : Feature) (hf : d.feature = some f) :
    ∃ line ∈ leaves t, line.mtype = some .FeatureLine ∧ f.language = line.dialect := by
  obtain ⟨ch, rfl, -⟩ := (isDocument_iff t).1 hdoc
  rw [run_astOf_node] at h
  rcases hr : (itemsOfList cs ch).run.run n with ⟨e | is, n1⟩
  · rw [hr] at h; dsimp only at h; rw [res_inj] at h; cases h.1
  · rw [hr] at h
    dsimp only at h
    have htn : transformNode cs ⟨.GherkinDocument, is⟩ =
        pure (.doc { feature := (match getSingle is (.rule .Feature) with
          | .feature f => some f | _ => Option.none), comments := cs }) := rfl
    rw [htn, run_pure, res_inj] at h
    obtain ⟨hd, -⟩ := h
    cases hd
    dsimp only at hf
    have hgs : getSingle is (.rule .Feature) = .feature f := by
      split at hf
      · rename_i f' hg; cases hf; exact hg
      · cases hf
    have hmemF := getSingle_mem is _ _ hgs (fun e => by cases e)
    rcases itemsOfList_mem cs ch n is n1 hr _ hmemF with ⟨k, tk, -, e, -⟩ | ⟨r, chF, m1, m2, v, hchF, e, hv⟩
    · cases e
    · cases e
      rw [run_astOf_node] at hv
      rcases hrF : (itemsOfList cs chF).run.run m1 with ⟨e | isF, m3⟩
      · rw [hrF] at hv; dsimp only at hv; rw [res_inj] at hv; cases hv.1
      · rw [hrF] at hv
        dsimp only at hv
        obtain ⟨rt, header, hh, toks, -, line, hl, dsc, -, kw, -, nm, -, hval, -⟩ :=
          (feature_ok cs isF m3 m2 _ (fun e => by cases e)).1 hv
        have hlang : f.language = line.dialect := by cases hval; rfl
        have hmemH := getSingle_mem isF _ _ hh (fun e => by cases e)
        rcases itemsOfList_mem cs chF m1 isF m3 hrF _ hmemH with ⟨k, tk, -, e, -⟩ | ⟨r, chH, p1, p2, v, hchH, e, hvH⟩
        · cases e
        · cases e
          rw [run_astOf_node] at hvH
          rcases hrH : (itemsOfList cs chH).run.run p1 with ⟨e | isH, p3⟩
          · rw [hrH] at hvH; dsimp only at hvH; rw [res_inj] at hvH; cases hvH.1
          · rw [hrH] at hvH
            dsimp only at hvH
            have htn' : transformNode cs ⟨.FeatureHeader, isH⟩ = pure (.raw .FeatureHeader isH) := rfl
            rw [htn', run_pure, res_inj] at hvH
            obtain ⟨hraw, -⟩ := hvH
            cases hraw
            have hmemL := getSingle_mem header _ _ hl (fun e => by cases e)
            rcases itemsOfList_mem cs chH p1 header p3 hrH _ hmemL with ⟨k, tk, hleaf, e, hmt⟩ | ⟨r, c', q1, q2, v, -, e, -⟩
            · cases e
              refine ⟨line, ?_, hmt, hlang⟩
              rw [leaves]
              exact node_leaves_sub hchF _ (node_leaves_sub hchH _ (leaf_mem_leavesList hleaf))
            · cases e

/-! ### the document -/

/-- **C05 at document level.**  The `language` of the feature of an accepted document is the
    dialect name in force at a line read as `FeatureLine`: `nameAt` from the reset matcher's name. -/
theorem feature_language {D : List Dialect} {T : Table} {G : Grammar} {fuel : Nat} (L : LinkFacts D T G fuel)
    (hB : oneBuildLast T = true)
    (hCR : ((contentStates T).all fun s => (T.row? s).any isContentRow) = true)
    (μ : MState) (ids : Nat) (src : Str) (hμ : (μ.reset D).dialect ∈ D) (d : Doc)
    (h : (parseWith D T false μ ids src).1 = .ok d) (f : Feature) (hf : d.feature = some f) :
    ∃ toks e i tk, (parseWith D T false μ ids src).2.builds = toks ++ [e] ∧ toks[i]? = some tk ∧
      tk.mtype = some .FeatureLine ∧ tk.dialect = f.language ∧
      f.language = Spec.nameAt (μ.reset D).name (splitLines src) toks i := by
  obtain ⟨t, ht⟩ := parse_link L μ ids src hμ d h
  obtain ⟨toks, e, μf, hbuilds, hlt, -, -, he, -⟩ := parse_tokens L hB hCR μ ids src hμ d h
  have hleaves : leaves t = toks ++ [e] := ht.2.1.trans hbuilds
  obtain ⟨line, hline, hmt, hlang⟩ := feature_language_leaf t ht.1 _ _ _ d ht.2.2.2.2.2.2 f hf
  rw [hleaves, List.mem_append, List.mem_singleton] at hline
  rcases hline with hline | rfl
  · obtain ⟨i, hi, hget⟩ := List.mem_iff_getElem.1 hline
    have hti : toks[i]? = some line := by rw [List.getElem?_eq_getElem hi, hget]
    have hil : i < (splitLines src).length := by rw [← LineToks.length hlt]; exact hi
    obtain ⟨K, μi, hres, htok, hK, hname⟩ := LineToks.nameAt hlt i _ line (List.getElem?_eq_getElem hil) hti
    have hKF : K = .FeatureLine := by rw [hmt] at hK; exact (Option.some.inj hK).symm
    subst hKF
    have hdial : line.dialect = μi.name := by
      rw [htok]
      cases hm : matchLine D .FeatureLine μi (freshTok (splitLines src)[i] (1 + i)) (splitLines src)[i] with
      | mk t' μ' res =>
        rw [hm] at hres
        dsimp only at hres
        subst hres
        exact (matchLine_title_dialect D .FeatureLine rfl μi μ' _ t' _ hm).1
    exact ⟨toks, e, i, line, hbuilds, hti, hmt, hlang.symm, by rw [hlang, hdial, hname]⟩
  · rw [he] at hmt; cases hmt

end Lemmas
end GV
